//go:build c12inst

package main

import (
	"encoding/json"
	"fmt"
	"sort"
	"strings"

	"github.com/gogpu/naga/verifrt"

	"verif/cmd/c12x/bodies"
	"verif/internal/sched"
)

const (
	defaultCap2 = 150 // scheduling points per thread in 2-thread scenarios
	defaultCap3 = 36  // ... in 3-thread scenarios
	depthLimit  = 2   // call depth below the public entry point that is always a candidate
)

// Thread-local execution must be the same in every schedule (scheduling points
// are identified by site and occurrence number), so the whole interleaving
// exploration runs with every map walked in ascending key order; independence
// from that order is the maporder exploration's business.
var ascending = verifrt.Order{Kind: verifrt.Asc}

func freshAsc(s bodies.Scenario) (*bodies.State, error) {
	verifrt.Install(&verifrt.Controller{Order: ascending})
	defer verifrt.Install(nil)
	return s.Fresh()
}

// ---- solo profile -----------------------------------------------------------

type profEvent struct {
	site    string
	occ     int // n-th occurrence of site in this thread
	depth   int
	changed bool // shared-state fingerprint differs from the previous yield
}

type profile struct {
	label      string
	yields     int
	candidates int
	selected   int
	capped     bool
	changeAt   []string          // sites at which the solo run saw the fingerprint change
	enabled    map[string][]bool // site -> occurrence -> is a scheduling point
	solo       bodies.Out
	pollutes   string // non-empty: the solo run left package-level state changed (first differing path)
}

func fingerprint(st *bodies.State) (m, g uint64) {
	if st.Shared != nil {
		m = bodies.ModuleHash(st.Shared)
	}
	return m, verifrt.GlobalsHashHot()
}

// soloProfile runs thread tid of s alone with every site enabled, recording
// call depth and shared-state changes, and chooses the scheduling points.
func soloProfile(s bodies.Scenario, tid, cap int) (*profile, error) {
	st, err := freshAsc(s)
	if err != nil {
		return nil, err
	}
	p := &profile{label: s.Labels()[tid], enabled: map[string][]bool{}}
	var evs []profEvent
	occ := map[string]int{}
	lm, lg := fingerprint(st)
	base := -1
	c := &verifrt.Controller{AllSites: true, OnYield: func(int, string) {}, Order: ascending}
	c.Decide = func(site string) bool {
		d := verifrt.NagaDepth()
		if base < 0 {
			base = d
		}
		m, g := fingerprint(st)
		evs = append(evs, profEvent{site, occ[site], d - base, m != lm || g != lg})
		lm, lg = m, g
		occ[site]++
		return false
	}
	gBefore := verifrt.GlobalsHash()
	var gDump string
	if gBefore != 0 {
		gDump = verifrt.GlobalsDump()
	}
	verifrt.Install(c)
	p.solo = s.Run(st, tid)
	verifrt.Install(nil)
	p.yields = len(evs)
	if verifrt.GlobalsHash() != gBefore {
		p.pollutes = verifrt.DiffPath(gDump, verifrt.GlobalsDump())
	}

	var must, may []int
	seenChange := map[string]bool{}
	for i, e := range evs {
		switch {
		case e.changed:
			must = append(must, i)
			if !seenChange[e.site] {
				seenChange[e.site] = true
				p.changeAt = append(p.changeAt, e.site)
			}
		case e.depth <= depthLimit:
			may = append(may, i)
		}
	}
	p.candidates = len(must) + len(may)
	var pick []int
	if len(must) > cap {
		p.capped = true
		must = must[:cap]
	}
	pick = append(pick, must...)
	room := cap - len(pick)
	if len(may) > room {
		p.capped = true
		// Evenly spaced over the run, first and last included.
		for k := 0; k < room; k++ {
			idx := 0
			if room > 1 {
				idx = k * (len(may) - 1) / (room - 1)
			}
			pick = append(pick, may[idx])
		}
	} else {
		pick = append(pick, may...)
	}
	for _, i := range pick {
		e := evs[i]
		if p.enabled[e.site] == nil {
			p.enabled[e.site] = make([]bool, occ[e.site])
		}
		if !p.enabled[e.site][e.occ] {
			p.enabled[e.site][e.occ] = true
			p.selected++
		}
	}
	return p, nil
}

// ---- harness ----------------------------------------------------------------

type ilHarness struct {
	s     bodies.Scenario
	cap   int
	profs []*profile
	ctl   *verifrt.Controller
	cur   *ilExec
	// caches across executions
	initGDump string
	dumps     map[uint64]string // state hash -> canonical dump (module or hot globals)
	pathCache map[[2]uint64]string
}

type write struct {
	tid    int
	site   string
	point  int
	module bool
	path   string // first differing path between the state before and after
}

type ilExec struct {
	h         *ilHarness
	st        *bodies.State
	threads   []*sched.Thread
	occ       []map[string]int
	running   int
	m0, g0    uint64 // initial fingerprint (module, hot globals)
	gAll0     uint64
	lm, lg    uint64
	writes    []write
	lastPoint int
	lastExit  int
	poisoned  bool
	outs      []bodies.Out
}

func newHarness(s bodies.Scenario, cap int) (*ilHarness, error) {
	h := &ilHarness{s: s, cap: cap, pathCache: map[[2]uint64]string{}, dumps: map[uint64]string{}}
	sites := map[string]struct{}{}
	for tid := range s.Labels() {
		p, err := soloProfile(s, tid, cap)
		if err != nil {
			return nil, err
		}
		h.profs = append(h.profs, p)
		for site := range p.enabled {
			sites[site] = struct{}{}
		}
	}
	h.ctl = &verifrt.Controller{Sites: sites, Order: ascending}
	h.ctl.Decide = func(site string) bool {
		x := h.cur
		if x == nil || x.running < 0 {
			return false // scheduler / set-up code, not a harness thread
		}
		t := x.running
		n := x.occ[t][site]
		x.occ[t][site] = n + 1
		en := h.profs[t].enabled[site]
		return n < len(en) && en[n]
	}
	h.ctl.OnYield = func(tid int, site string) {
		x := h.cur
		if tid != x.running {
			panic(fmt.Sprintf("c12x: goroutine of thread %d yielded while thread %d was scheduled", tid, x.running))
		}
		x.running = -1
		x.threads[tid].Yield(site)
		x.running = tid
	}
	return h, nil
}

func (h *ilHarness) Name() string      { return fmt.Sprintf("%s|P=%d", h.s.Name(), h.cap) }
func (h *ilHarness) Threads() []string { return h.s.Labels() }

func (h *ilHarness) Begin() (sched.Execution, error) {
	st, err := freshAsc(h.s)
	if err != nil {
		return nil, err
	}
	n := len(h.s.Labels())
	x := &ilExec{h: h, st: st, running: -1, threads: make([]*sched.Thread, n), occ: make([]map[string]int, n), outs: make([]bodies.Out, n)}
	for i := range x.occ {
		x.occ[i] = map[string]int{}
	}
	x.m0, x.g0 = fingerprint(st)
	x.gAll0 = verifrt.GlobalsHash()
	x.lm, x.lg = x.m0, x.g0
	if _, ok := h.dumps[x.g0]; !ok {
		h.dumps[x.g0] = h.initGDump
	}
	h.cur = x
	verifrt.Install(h.ctl)
	return x, nil
}

func (x *ilExec) Body(tid int, t *sched.Thread) string {
	x.threads[tid] = t
	x.h.ctl.RegisterThread(tid)
	defer x.h.ctl.UnregisterThread()
	x.running = tid
	o := x.h.s.Run(x.st, tid)
	x.running = -1
	x.lastExit = tid
	x.outs[tid] = o
	return o.Digest()
}

func (x *ilExec) check(by int, site string, point int) {
	m, g := fingerprint(x.st)
	if m != x.lm {
		x.writes = append(x.writes, write{by, site, point, true, x.h.pathFor(x.lm, m, true, x.st)})
	}
	if g != x.lg {
		x.writes = append(x.writes, write{by, site, point, false, x.h.pathFor(x.lg, g, false, x.st)})
	}
	x.lm, x.lg = m, g
}

// Poisoned: package-level state differs from what it was when the execution began.
func (x *ilExec) Poisoned() bool { return x.poisoned }

func (x *ilExec) AtPoint(p *sched.Point) []sched.Finding {
	x.lastPoint = p.Index
	if p.Running < 0 {
		return nil
	}
	site := p.Site
	if p.Exited {
		site = "<thread exit>"
	}
	x.check(p.Running, site, p.Index)
	return nil // reported at the end, where the final state is known (stable keys)
}

// pathFor names the first difference between the state with hash prev and the
// current state (hash cur). Dumps are taken only when a change is seen and are
// cached by hash; the initial dumps are cached by Begin's hashes.
func (h *ilHarness) pathFor(prev, cur uint64, module bool, st *bodies.State) string {
	k := [2]uint64{prev, cur}
	if p, ok := h.pathCache[k]; ok {
		return p
	}
	var now string
	if module {
		now = bodies.ModuleDump(st.Shared)
	} else {
		now = verifrt.GlobalsDump()
	}
	h.dumps[cur] = now
	before, ok := h.dumps[prev]
	if !ok && module {
		if fresh, err := freshAsc(h.s); err == nil && fresh.Shared != nil && bodies.ModuleHash(fresh.Shared) == prev {
			before = bodies.ModuleDump(fresh.Shared)
			h.dumps[prev] = before
		}
		verifrt.Install(h.ctl)
	}
	if !ok && !module {
		before = h.initGDump
	}
	p := strings.TrimPrefix(verifrt.DiffPath(before, now), "#0*.")
	h.pathCache[k] = p
	return p
}

func (x *ilExec) AtEnd(obs []string) (string, []sched.Finding) {
	h := x.h
	verifrt.Install(nil)
	defer func() { h.cur = nil }()
	// The last thread's final segment has no scheduling point after it.
	x.check(x.lastExit, "<thread exit>", x.lastPoint+1)
	verifrt.Install(nil)
	var fs []sched.Finding
	labels := h.s.Labels()
	base := func(l string) string { // backend name without the "#1(own module)" decoration
		if i := strings.IndexAny(l, "#("); i > 0 {
			return l[:i]
		}
		return l
	}
	// First write per (thread, kind).
	seen := map[string]bool{}
	writers := map[string]bool{}
	for _, w := range x.writes {
		k := fmt.Sprint(w.tid, w.module)
		if seen[k] {
			continue
		}
		seen[k] = true
		var key, what string
		if w.module {
			what = "shared module"
			key = fmt.Sprintf("%s mutates shared module: %s: %s", base(labels[w.tid]), h.s.Program.Name, w.path)
			if x.lm == x.m0 {
				key = fmt.Sprintf("%s writes then restores shared module: %s: %s", base(labels[w.tid]), h.s.Program.Name, w.path)
			}
			writers[base(labels[w.tid])] = true
		} else {
			what = "package-level state"
			key = fmt.Sprintf("%s writes package-level state: %s: %s", base(labels[w.tid]), h.s.Program.Name, w.path)
			if x.lg == x.g0 {
				key = fmt.Sprintf("%s writes then restores package-level state: %s: %s", base(labels[w.tid]), h.s.Program.Name, w.path)
			}
			writers[base(labels[w.tid])] = true
		}
		fs = append(fs, sched.Finding{Key: key, Detail: fmt.Sprintf("scenario %s: thread %d (%s) changed the %s; the change was first seen at scheduling point %d, yield site %s",
			h.Name(), w.tid, labels[w.tid], what, w.point, w.site)})
	}
	gEnd := verifrt.GlobalsHash()
	x.poisoned = gEnd != x.gAll0
	if g := gEnd; g != x.gAll0 && x.lg == x.g0 {
		fs = append(fs, sched.Finding{Key: fmt.Sprintf("package-level table written: %s", h.s.Program.Name),
			Detail: fmt.Sprintf("scenario %s: a package-level table classified read-only by syntax differs at the end of the execution: %s", h.Name(), verifrt.DiffPath(h.initGDump, verifrt.GlobalsDump()))})
	}
	for tid, o := range x.outs {
		if !o.Equal(h.profs[tid].solo) {
			var others []string
			for j, l := range labels {
				if j != tid && (len(writers) == 0 || writers[base(l)]) {
					others = append(others, base(l))
				}
			}
			sort.Strings(others)
			cause := "alongside " + strings.Join(others, ",")
			if len(writers) > 0 {
				cause = "shared state written by " + strings.Join(others, ",")
			}
			fs = append(fs, sched.Finding{
				Key: fmt.Sprintf("%s output differs from solo run: %s: %s: %s", base(labels[tid]), h.s.Kind, h.s.Program.Name, cause),
				Detail: fmt.Sprintf("scenario %s: thread %d (%s) produced %s (err %q), alone it produces %s (err %q); first difference: %s",
					h.Name(), tid, labels[tid], o.Digest(), o.Err, h.profs[tid].solo.Digest(), h.profs[tid].solo.Err, firstDifference(h.profs[tid].solo, o, base(labels[tid]) != "spirv" && base(labels[tid]) != "dxil")),
			})
		}
	}
	end := fmt.Sprintf("%016x/%016x/%s", x.lm, x.lg, strings.Join(obs, ","))
	return end, fs
}

// ---- scenario runner ----------------------------------------------------------

type threadInfo struct {
	Label      string   `json:"label"`
	Yields     int      `json:"yields_solo"`
	Candidates int      `json:"candidate_points"`
	Selected   int      `json:"selected_points"`
	Capped     bool     `json:"capped"`
	ChangeAt   []string `json:"fingerprint_changed_at,omitempty"`
}

type scenarioOut struct {
	Name     string        `json:"name"`
	Threads  []threadInfo  `json:"threads"`
	Cap      int           `json:"cap_points_per_thread"`
	Capped   bool          `json:"capped"`
	Report   *sched.Report `json:"report"`
	EndState []string      `json:"end_states,omitempty"`
	Skipped  string        `json:"skipped,omitempty"`
}

type soloReplay struct {
	Kind     string `json:"kind"`
	Property string `json:"property"`
	Scenario string `json:"scenario"`
	Thread   int    `json:"thread"`
	Label    string `json:"label"`
	Key      string `json:"key"`
}

type interleaveOut struct {
	Scenarios  []scenarioOut `json:"scenarios"`
	Violations []violation   `json:"violations"`
	Missing    []string      `json:"missing_programs,omitempty"`
}

func capFor(f *flags, s bodies.Scenario) int {
	if len(s.Labels()) >= 3 {
		return f.cap3
	}
	return f.cap2
}

func runInterleave(f *flags) *interleaveOut {
	ss, missing := bodies.Scenarios(f.repo)
	out := &interleaveOut{Missing: missing, Violations: []violation{}, Scenarios: []scenarioOut{}}
	bound := 1
	if f.tier == "thorough" {
		bound = 2
	}
	for i, s := range ss {
		if i%f.n != f.shard {
			continue
		}
		if f.only != "" && !strings.Contains(s.Name(), f.only) {
			continue
		}
		h, err := newHarness(s, capFor(f, s))
		if err != nil {
			fatal(fmt.Errorf("%s: %v", s.Name(), err))
		}
		polluted := false
		for tid, p := range h.profs {
			if p.pollutes == "" {
				continue
			}
			polluted = true
			lab := p.label
			if i := strings.IndexAny(lab, "#("); i > 0 {
				lab = lab[:i]
			}
			key := fmt.Sprintf("%s writes package-level state: %s: %s", lab, s.Program.Name, p.pollutes)
			path := writeReplay(f.replays, "solo-"+s.Name()+fmt.Sprintf("-t%d", tid), soloReplay{Kind: "solo", Property: "C12", Scenario: s.Name(), Thread: tid, Label: p.label, Key: key})
			out.Violations = append(out.Violations, violation{Key: key, Replay: path, Count: 1,
				Detail: fmt.Sprintf("scenario %s: thread %d (%s) run alone leaves package-level state changed (first differing path %s): compilations share state through a package-level variable, so output can depend on history and concurrent compilations are not independent; the interleaving exploration of this scenario is skipped because no two executions in one process would start from the same state", s.Name(), tid, p.label, p.pollutes)})
		}
		if polluted {
			so := scenarioOut{Name: h.Name(), Cap: h.cap, Skipped: "a thread body changes package-level state when run alone",
				Report: &sched.Report{Harness: h.Name(), Bound: bound, PerBound: make([]int, bound+1), Violations: []sched.Violation{}}}
			for _, p := range h.profs {
				so.Threads = append(so.Threads, threadInfo{p.label, p.yields, p.candidates, p.selected, p.capped, p.changeAt})
			}
			out.Scenarios = append(out.Scenarios, so)
			continue
		}
		h.initGDump = verifrt.GlobalsDump()
		rep, err := sched.Explore(h, sched.Options{Bound: bound, MaxSchedules: f.budget, ReplayDir: f.replays})
		verifrt.Install(nil)
		if err != nil {
			fatal(err)
		}
		so := scenarioOut{Name: h.Name(), Cap: h.cap, Report: rep}
		for _, p := range h.profs {
			so.Threads = append(so.Threads, threadInfo{p.label, p.yields, p.candidates, p.selected, p.capped, p.changeAt})
			so.Capped = so.Capped || p.capped
		}
		if rep.DistinctEndStates > 1 {
			so.EndState = rep.SortedEndStates()
			if len(so.EndState) > 6 {
				so.EndState = so.EndState[:6]
			}
		}
		out.Scenarios = append(out.Scenarios, so)
		for _, v := range rep.Violations {
			d := fmt.Sprintf("%s; witness schedule (%d preemptions) %v; seen in %d of %d schedules", v.Detail, v.Preemptions, v.Choices, v.Schedules, rep.Schedules)
			if !v.Confirmed {
				d += "; the execution changed process-wide state, so the witness is confirmed by replaying it in fresh processes"
			}
			out.Violations = append(out.Violations, violation{Key: v.Key, Detail: d, Replay: v.Replay, Count: v.Schedules})
		}
	}
	sort.SliceStable(out.Violations, func(i, j int) bool { return out.Violations[i].Key < out.Violations[j].Key })
	return out
}

func replaySolo(f *flags, b []byte) any {
	var sr soloReplay
	if err := json.Unmarshal(b, &sr); err != nil {
		fatal(err)
	}
	s, err := bodies.ScenarioByName(f.repo, sr.Scenario)
	if err != nil {
		fatal(err)
	}
	p, err := soloProfile(s, sr.Thread, capFor(f, s))
	if err != nil {
		fatal(err)
	}
	return map[string]any{"kind": "solo", "scenario": sr.Scenario, "thread": sr.Thread, "reproduced": p.pollutes != "",
		"signature": "pollutes=" + p.pollutes + " out=" + p.solo.Digest(), "first_differing_path": p.pollutes}
}

func replayInterleave(f *flags, path string) any {
	rf, err := sched.ReadReplay(path)
	if err != nil {
		fatal(err)
	}
	name, capS, ok := strings.Cut(rf.Harness, "|P=")
	cap := 0
	fmt.Sscan(capS, &cap)
	if !ok || cap <= 0 {
		fatal(fmt.Errorf("%s: harness name %q has no point cap", path, rf.Harness))
	}
	s, err := bodies.ScenarioByName(f.repo, name)
	if err != nil {
		fatal(err)
	}
	h, err := newHarness(s, cap)
	if err != nil {
		fatal(err)
	}
	h.initGDump = verifrt.GlobalsDump()
	tr, ok, err := sched.Replay(h, rf)
	verifrt.Install(nil)
	if err != nil {
		fatal(err)
	}
	return map[string]any{"kind": "interleave", "harness": rf.Harness, "threads": rf.Threads, "choices": rf.Choices,
		"reproduced": ok, "findings": tr.Findings, "signature": tr.Signature(), "recorded_signature": rf.Signature}
}
