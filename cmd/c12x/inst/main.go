//go:build c12inst

// Command inst is the instrumented C12 harness. It is built by the c12x driver
// with `-tags c12inst -overlay <generated overlay>`, so the naga it links is
// the instrumented copy and github.com/gogpu/naga/verifrt is the live runtime.
// One worker process handles one shard; the driver merges the JSON.
package main

import (
	"encoding/json"
	"flag"
	"fmt"
	"os"
	"strconv"
	"strings"

	"verif/cmd/c12x/bodies"
)

type violation struct {
	Key    string `json:"key"`
	Detail string `json:"detail"`
	Replay string `json:"replay,omitempty"`
	Count  int    `json:"count"`
}

type flags struct {
	tier     string
	shard, n int
	repo     string
	extra    string
	replays  string
	cap2     int
	cap3     int
	budget   int
	only     string
}

func parseFlags(name string, args []string) (*flags, []string) {
	f := &flags{}
	fs := flag.NewFlagSet(name, flag.ExitOnError)
	fs.StringVar(&f.tier, "tier", "quick", "quick|thorough")
	shard := fs.String("shard", "0/1", "i/n")
	fs.StringVar(&f.repo, "repo", "/repo", "naga tree")
	fs.StringVar(&f.extra, "extra", "/verif/testdata/c12", "extra driver programs")
	fs.StringVar(&f.replays, "replays", "/verif/replays/C12", "replay directory")
	fs.IntVar(&f.cap2, "cap2", defaultCap2, "scheduling points per thread, 2-thread scenarios")
	fs.IntVar(&f.cap3, "cap3", defaultCap3, "scheduling points per thread, 3-thread scenarios")
	fs.IntVar(&f.budget, "budget", 60000, "schedules per scenario before giving up (exhaustive=false)")
	fs.StringVar(&f.only, "only", "", "substring filter on program / scenario names")
	fs.Parse(args)
	a, b, ok := strings.Cut(*shard, "/")
	if ok {
		f.shard, _ = strconv.Atoi(a)
		f.n, _ = strconv.Atoi(b)
	}
	if f.n <= 0 || f.shard < 0 || f.shard >= f.n {
		fatal(fmt.Errorf("bad -shard %q", *shard))
	}
	if f.tier != "quick" && f.tier != "thorough" {
		fatal(fmt.Errorf("bad -tier %q", f.tier))
	}
	return f, fs.Args()
}

func fatal(err error) {
	fmt.Fprintln(os.Stderr, "HARNESS-ERROR:", err)
	os.Exit(2)
}

func emit(v any) {
	enc := json.NewEncoder(os.Stdout)
	if err := enc.Encode(v); err != nil {
		fatal(err)
	}
}

func main() {
	if len(os.Args) < 2 {
		fatal(fmt.Errorf("usage: c12x-inst maporder|interleave|digests|replay [flags]"))
	}
	cmd, args := os.Args[1], os.Args[2:]
	switch cmd {
	case "digests":
		f, _ := parseFlags(cmd, args)
		d, err := bodies.Digests(f.repo, f.extra)
		if err != nil {
			fatal(err)
		}
		emit(d)
	case "scenarios":
		f, _ := parseFlags(cmd, args)
		ss, _ := bodies.Scenarios(f.repo)
		var names []string
		for _, s := range ss {
			names = append(names, s.Name())
		}
		emit(names)
	case "maporder":
		f, _ := parseFlags(cmd, args)
		emit(runMapOrder(f))
	case "interleave":
		f, _ := parseFlags(cmd, args)
		emit(runInterleave(f))
	case "replay":
		f, rest := parseFlags(cmd, args)
		if len(rest) != 1 {
			fatal(fmt.Errorf("usage: replay [flags] <file>"))
		}
		emit(runReplay(f, rest[0]))
	default:
		fatal(fmt.Errorf("unknown subcommand %q", cmd))
	}
}

func runReplay(f *flags, path string) any {
	b, err := os.ReadFile(path)
	if err != nil {
		fatal(err)
	}
	var probe struct {
		Kind string `json:"kind"`
	}
	if err := json.Unmarshal(b, &probe); err != nil {
		fatal(err)
	}
	if probe.Kind == "maporder" {
		return replayMapOrder(b)
	}
	if probe.Kind == "solo" {
		return replaySolo(f, b)
	}
	return replayInterleave(f, path)
}
