//go:build c12inst

package main

import (
	"bytes"
	"encoding/json"
	"fmt"
	"os"
	"path/filepath"
	"sort"
	"strings"

	"github.com/gogpu/naga/verifrt"

	"verif/cmd/c12x/bodies"
)

// Stages of the pipeline that are compared across map orders. "lower" is
// parse+lower, observed through the canonical module dump; a backend stage
// compiles a module that was lowered with every map walked ascending (a fixed
// base, so that a lowering that depends on map order cannot make the backend
// comparison flaky; it is reported by the "lower" stage instead).
var stages = append([]string{"lower", "spirv", "hlsl", "msl", "glsl", "dxil"}, bodies.Variants...)

const rotCapThorough = 1024

const notApplicable = "c12x: stage does not apply to this program"

type siteInfo struct {
	Max     int    `json:"max_keys"`
	Walks   int    `json:"walks"`
	Witness string `json:"witness,omitempty"` // program|stage that reached Max
}

type mapOrderOut struct {
	Programs      int                  `json:"programs"`
	LowerFailures int                  `json:"lower_failures"`
	Runs          int                  `json:"runs"` // stage executions
	PerOrder      map[string]int       `json:"runs_per_order"`
	Outcomes      int                  `json:"distinct_outputs"` // distinct (program, stage) outputs observed
	RotCapHit     bool                 `json:"rotation_cap_hit"`
	Violations    []violation          `json:"violations"`
	Sites         map[string]*siteInfo `json:"sites"`
}

// runStage executes one stage of program p under order o (nil = pass-through:
// no controller at all) and returns the output and the per-site key maxima.
func runStage(src, stage string, o *verifrt.Order, siteOrder map[string]verifrt.Order) (bodies.Out, map[string]int, map[string]int) {
	defer verifrt.Install(nil)
	install := func(ord verifrt.Order, so map[string]verifrt.Order) *verifrt.Controller {
		c := &verifrt.Controller{Order: ord, SiteOrder: so}
		verifrt.Install(c)
		return c
	}
	if stage == "lower" {
		var c *verifrt.Controller
		if o != nil {
			c = install(*o, siteOrder)
		}
		m, err := bodies.Lower(src)
		verifrt.Install(nil)
		var out bodies.Out
		if err != nil {
			out = bodies.Out{Err: err.Error()}
		} else {
			out = bodies.Out{Data: []byte(bodies.ModuleDump(m))}
		}
		if c == nil {
			return out, nil, nil
		}
		mx, hits := c.SiteStats()
		return out, mx, hits
	}
	install(verifrt.Order{Kind: verifrt.Asc}, nil)
	m, err := bodies.Lower(src)
	verifrt.Install(nil)
	if err != nil {
		return bodies.Out{Err: "lower: " + err.Error()}, nil, nil
	}
	var c *verifrt.Controller
	if o != nil {
		c = install(*o, siteOrder)
	}
	var out bodies.Out
	if strings.Contains(stage, "+") || stage == "overrides" {
		var ok bool
		if out, ok = bodies.CompileVariant(stage, m); !ok {
			out = bodies.Out{Err: notApplicable}
		}
	} else {
		out = bodies.Compile(bodies.Backend(stage), m)
	}
	verifrt.Install(nil)
	if c == nil {
		return out, nil, nil
	}
	mx, hits := c.SiteStats()
	return out, mx, hits
}

type mapOrderReplay struct {
	Kind     string   `json:"kind"`
	Property string   `json:"property"`
	Program  string   `json:"program"`
	Source   string   `json:"source"`
	Stage    string   `json:"stage"`
	Order    string   `json:"order"`
	OrderK   int      `json:"order_kind"`
	OrderR   int      `json:"order_r"`
	Culprits []string `json:"culprit_sites"`
	Native   string   `json:"native_digest"`
	Ordered  string   `json:"ordered_digest"`
	Key      string   `json:"key"`
}

func firstDifference(a, b bodies.Out, text bool) string {
	if a.Err != b.Err {
		return fmt.Sprintf("error %q vs %q", a.Err, b.Err)
	}
	if text {
		la, lb := strings.Split(string(a.Data), "\n"), strings.Split(string(b.Data), "\n")
		for i := 0; i < len(la) || i < len(lb); i++ {
			var x, y string
			if i < len(la) {
				x = la[i]
			}
			if i < len(lb) {
				y = lb[i]
			}
			if x != y {
				return fmt.Sprintf("line %d: %q vs %q", i+1, x, y)
			}
		}
	}
	n := min(len(a.Data), len(b.Data))
	for i := 0; i < n; i++ {
		if a.Data[i] != b.Data[i] {
			return fmt.Sprintf("byte %d of %d/%d: %#02x vs %#02x", i, len(a.Data), len(b.Data), a.Data[i], b.Data[i])
		}
	}
	return fmt.Sprintf("length %d vs %d", len(a.Data), len(b.Data))
}

// culprits finds the sites whose order alone changes the stage's output:
// everything ascending versus everything ascending but the one site descending.
func culprits(src, stage string, reached map[string]int) []string {
	asc := verifrt.Order{Kind: verifrt.Asc}
	base, _, _ := runStage(src, stage, &asc, nil)
	var ids []string
	for id, n := range reached {
		if n >= 2 {
			ids = append(ids, id)
		}
	}
	sort.Strings(ids)
	var out []string
	for _, id := range ids {
		for _, alt := range []verifrt.Order{{Kind: verifrt.Desc}, {Kind: verifrt.Rot, R: 1}} {
			o, _, _ := runStage(src, stage, &asc, map[string]verifrt.Order{id: alt})
			if !o.Equal(base) {
				out = append(out, id)
				break
			}
		}
	}
	return out
}

func runMapOrder(f *flags) *mapOrderOut {
	ps, err := bodies.DriverSet(f.repo, f.extra)
	if err != nil {
		fatal(err)
	}
	res := &mapOrderOut{PerOrder: map[string]int{}, Sites: map[string]*siteInfo{}, Violations: []violation{}}
	note := func(prog, stage string, mx, hits map[string]int) {
		for id, n := range mx {
			si := res.Sites[id]
			if si == nil {
				si = &siteInfo{Max: -1}
				res.Sites[id] = si
			}
			if n > si.Max {
				si.Max = n
				si.Witness = prog + "|" + stage
			}
			si.Walks += hits[id]
		}
	}
	outcomes := map[string]bool{}
	for i, p := range ps {
		if i%f.n != f.shard {
			continue
		}
		if f.only != "" && !strings.Contains(p.Name, f.only) {
			continue
		}
		res.Programs++
		lowerOK := true
		for _, stage := range stages {
			if stage != "lower" && !lowerOK {
				break
			}
			pt, _, _ := runStage(p.Src, stage, nil, nil)
			if stage == "lower" && pt.Err != "" {
				lowerOK = false
				res.LowerFailures++
			}
			if pt.Err == notApplicable {
				continue
			}
			nat := verifrt.Order{Kind: verifrt.Native}
			ref, reached, hits := runStage(p.Src, stage, &nat, nil)
			res.Runs += 2
			res.PerOrder["passthrough"]++
			res.PerOrder["native"]++
			note(p.Name, stage, reached, hits)
			outcomes[p.Name+"|"+stage+"|"+ref.Digest()] = true
			maxN := 0
			for _, n := range reached {
				maxN = max(maxN, n)
			}
			type run struct {
				o   verifrt.Order
				out bodies.Out
			}
			var bad []run
			if !pt.Equal(ref) {
				// Two native-order runs disagree: the order dependence showed by chance.
				bad = append(bad, run{nat, pt})
			}
			orders := []verifrt.Order{{Kind: verifrt.Asc}, {Kind: verifrt.Desc}}
			if maxN >= 3 {
				if f.tier == "quick" {
					orders = append(orders, verifrt.Order{Kind: verifrt.Rot, R: 1}, verifrt.Order{Kind: verifrt.RotHalf})
				} else {
					top := maxN - 1
					if top > rotCapThorough {
						top = rotCapThorough
						res.RotCapHit = true
						orders = append(orders, verifrt.Order{Kind: verifrt.RotHalf})
					}
					for r := 1; r <= top; r++ {
						orders = append(orders, verifrt.Order{Kind: verifrt.Rot, R: r})
					}
				}
			}
			for _, o := range orders {
				o := o
				out, mx, h := runStage(p.Src, stage, &o, nil)
				res.Runs++
				res.PerOrder[orderClass(o)]++
				note(p.Name, stage, mx, h)
				outcomes[p.Name+"|"+stage+"|"+out.Digest()] = true
				if !out.Equal(ref) {
					bad = append(bad, run{o, out})
				}
			}
			if len(bad) == 0 {
				continue
			}
			cs := culprits(p.Src, stage, reached)
			key := fmt.Sprintf("map order changes output: %s: %s: sites=%s", stage, p.Name, strings.Join(cs, ","))
			var ords []string
			for _, b := range bad {
				ords = append(ords, b.o.String())
			}
			b0 := bad[0]
			for _, b := range bad {
				if b.o.Kind != verifrt.Native { // prefer a harness-chosen order as the witness
					b0 = b
					break
				}
			}
			detail := fmt.Sprintf("program %s, stage %s: output under map order %s differs from the native-order run (%s vs %s; first difference: %s); differing orders: %s; sites whose order alone changes the output: %v",
				p.Name, stage, b0.o, b0.out.Digest(), ref.Digest(), firstDifference(ref, b0.out, !strings.HasPrefix(stage, "spirv") && !strings.HasPrefix(stage, "dxil")), strings.Join(ords, " "), cs)
			rp := mapOrderReplay{Kind: "maporder", Property: "C12", Program: p.Name, Source: p.Src, Stage: stage, Order: b0.o.String(),
				OrderK: int(b0.o.Kind), OrderR: b0.o.R, Culprits: cs, Native: ref.Digest(), Ordered: b0.out.Digest(), Key: key}
			path := ""
			if confirmMapOrder(&rp) {
				path = writeReplay(f.replays, "maporder-"+stage+"-"+p.Name, rp)
			} else {
				detail += " [not reproducible on re-run: seen under native order only]"
			}
			res.Violations = append(res.Violations, violation{Key: key, Detail: detail, Replay: path, Count: len(bad)})
		}
	}
	res.Outcomes = len(outcomes)
	return res
}

func orderClass(o verifrt.Order) string {
	if o.Kind == verifrt.Rot {
		return "rot"
	}
	return o.String()
}

// confirmMapOrder re-runs the recorded comparison twice; both runs must show
// the recorded digests.
func confirmMapOrder(rp *mapOrderReplay) bool {
	if verifrt.OrderKind(rp.OrderK) == verifrt.Native {
		return false
	}
	for i := 0; i < 2; i++ {
		o := verifrt.Order{Kind: verifrt.OrderKind(rp.OrderK), R: rp.OrderR}
		asc := verifrt.Order{Kind: verifrt.Asc}
		a, _, _ := runStage(rp.Source, rp.Stage, &o, nil)
		b, _, _ := runStage(rp.Source, rp.Stage, &asc, nil)
		c, _, _ := runStage(rp.Source, rp.Stage, &verifrt.Order{Kind: verifrt.Desc}, nil)
		if a.Digest() != rp.Ordered {
			return false
		}
		// The deterministic witness: two harness-chosen orders disagree.
		if a.Equal(b) && a.Equal(c) {
			return false
		}
	}
	return true
}

func writeReplay(dir, name string, v any) string {
	if dir == "" {
		return ""
	}
	if err := os.MkdirAll(dir, 0o755); err != nil {
		fatal(err)
	}
	var sb strings.Builder
	for _, r := range name {
		switch {
		case r >= 'a' && r <= 'z', r >= 'A' && r <= 'Z', r >= '0' && r <= '9', r == '-', r == '_', r == '.':
			sb.WriteRune(r)
		default:
			sb.WriteByte('_')
		}
	}
	path := filepath.Join(dir, sb.String()+".json")
	b, _ := json.MarshalIndent(v, "", " ")
	if err := os.WriteFile(path, b, 0o644); err != nil {
		fatal(err)
	}
	return path
}

func replayMapOrder(b []byte) any {
	var rp mapOrderReplay
	dec := json.NewDecoder(bytes.NewReader(b))
	if err := dec.Decode(&rp); err != nil {
		fatal(err)
	}
	o := verifrt.Order{Kind: verifrt.OrderKind(rp.OrderK), R: rp.OrderR}
	out := map[string]any{"kind": "maporder", "program": rp.Program, "stage": rp.Stage, "order": o.String()}
	digs := map[string]string{}
	for _, ord := range []verifrt.Order{{Kind: verifrt.Asc}, {Kind: verifrt.Desc}, o} {
		ord := ord
		r, _, _ := runStage(rp.Source, rp.Stage, &ord, nil)
		digs[ord.String()] = r.Digest()
	}
	out["digests"] = digs
	distinct := map[string]bool{}
	for _, d := range digs {
		distinct[d] = true
	}
	out["reproduced"] = len(distinct) > 1
	return out
}
