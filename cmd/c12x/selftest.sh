#!/bin/sh
# Demonstrates that the C12 explorers detect what they should: applies each
# mutant of cmd/c12x/selftest.go through a build overlay (never editing /repo),
# runs the matching exploration with and without it, prints one JSON object.
cd "$(dirname "$0")/../.." || exit 2
export GOFLAGS=-mod=mod GOPROXY=off
mkdir -p bin
go build -o bin/c12x ./cmd/c12x || exit 2
exec ./bin/c12x selftest "$@"
