// Command racer is the uninstrumented companion of the C12 explorers: it runs
// the harness bodies free-running on real goroutines (built with -race by the
// c12x driver), prints pass-through digests for the overlay identity check,
// and finds corpus shaders whose module dxil.Compile mutates.
package main

import (
	"encoding/json"
	"flag"
	"fmt"
	"os"
	"strings"
	"sync"

	"verif/cmd/c12x/bodies"
	"verif/internal/verifrt"
)

func main() {
	if len(os.Args) < 2 {
		fmt.Fprintln(os.Stderr, "usage: racer digests|findmut|race [flags]")
		os.Exit(2)
	}
	fs := flag.NewFlagSet(os.Args[1], flag.ExitOnError)
	repo := fs.String("repo", "/repo", "naga tree")
	extra := fs.String("extra", "/verif/testdata/c12", "extra driver programs")
	reps := fs.Int("reps", 20, "repetitions per scenario (race)")
	only := fs.String("only", "", "substring filter on scenario names (race)")
	fs.Parse(os.Args[2:])
	switch os.Args[1] {
	case "digests":
		d, err := bodies.Digests(*repo, *extra)
		if err != nil {
			fmt.Fprintln(os.Stderr, err)
			os.Exit(2)
		}
		json.NewEncoder(os.Stdout).Encode(d)
	case "findmut":
		ps, err := bodies.Corpus(*repo)
		if err != nil {
			fmt.Fprintln(os.Stderr, err)
			os.Exit(2)
		}
		for _, p := range ps {
			m, err := bodies.Lower(p.Src)
			if err != nil {
				continue
			}
			before := verifrt.DumpString(m)
			o := bodies.Compile(bodies.DXIL, m)
			after := verifrt.DumpString(m)
			if d, ok := verifrt.FirstDiff(before, after); ok {
				fmt.Printf("%s\terr=%q\t%s\n", p.Name, o.Err, d)
			}
		}
	case "race":
		ss, missing := bodies.Scenarios(*repo)
		type res struct {
			Scenarios  int      `json:"scenarios"`
			Runs       int      `json:"runs"`
			Mismatches []string `json:"mismatches"`
			Missing    []string `json:"missing"`
		}
		r := res{Missing: missing}
		for _, s := range ss {
			if *only != "" && !strings.Contains(s.Name(), *only) {
				continue
			}
			r.Scenarios++
			n := len(s.Labels())
			// Solo outputs.
			solo := make([]bodies.Out, n)
			for t := 0; t < n; t++ {
				st, err := s.Fresh()
				if err != nil {
					fmt.Fprintln(os.Stderr, s.Name(), err)
					os.Exit(2)
				}
				solo[t] = s.Run(st, t)
			}
			seen := map[string]bool{}
			for i := 0; i < *reps; i++ {
				st, err := s.Fresh()
				if err != nil {
					fmt.Fprintln(os.Stderr, s.Name(), err)
					os.Exit(2)
				}
				outs := make([]bodies.Out, n)
				var wg sync.WaitGroup
				start := make(chan struct{})
				for t := 0; t < n; t++ {
					wg.Add(1)
					go func() {
						defer wg.Done()
						<-start
						outs[t] = s.Run(st, t)
					}()
				}
				close(start)
				wg.Wait()
				r.Runs++
				for t := 0; t < n; t++ {
					if !outs[t].Equal(solo[t]) {
						k := fmt.Sprintf("%s: thread %d (%s) output %s differs from solo %s", s.Name(), t, s.Labels()[t], outs[t].Digest(), solo[t].Digest())
						if !seen[k] {
							seen[k] = true
							r.Mismatches = append(r.Mismatches, k)
						}
					}
				}
			}
		}
		json.NewEncoder(os.Stdout).Encode(r)
	case "list":
		ss, _ := bodies.Scenarios(*repo)
		var names []string
		for _, s := range ss {
			names = append(names, s.Name())
		}
		json.NewEncoder(os.Stdout).Encode(names)
	case "race-cold":
		// Cold start: the concurrent compilations are the FIRST thing this process does (lazily built
		// package-level tables are still unbuilt); the solo outputs are computed afterwards.
		ss, missing := bodies.Scenarios(*repo)
		type res struct {
			Scenarios  int      `json:"scenarios"`
			Runs       int      `json:"runs"`
			Mismatches []string `json:"mismatches"`
			Missing    []string `json:"missing"`
		}
		r := res{Missing: missing}
		for _, s := range ss {
			if s.Name() != *only {
				continue
			}
			r.Scenarios++
			n := len(s.Labels())
			st, err := s.Fresh()
			if err != nil {
				fmt.Fprintln(os.Stderr, s.Name(), err)
				os.Exit(2)
			}
			outs := make([]bodies.Out, n)
			var wg sync.WaitGroup
			start := make(chan struct{})
			for t := 0; t < n; t++ {
				wg.Add(1)
				go func() {
					defer wg.Done()
					<-start
					outs[t] = s.Run(st, t)
				}()
			}
			close(start)
			wg.Wait()
			r.Runs++
			for t := 0; t < n; t++ {
				fs, err := s.Fresh()
				if err != nil {
					fmt.Fprintln(os.Stderr, s.Name(), err)
					os.Exit(2)
				}
				if solo := s.Run(fs, t); !outs[t].Equal(solo) {
					r.Mismatches = append(r.Mismatches, fmt.Sprintf("%s: thread %d (%s) output %s differs from solo %s", s.Name(), t, s.Labels()[t], outs[t].Digest(), solo.Digest()))
				}
			}
		}
		json.NewEncoder(os.Stdout).Encode(r)
	default:
		fmt.Fprintln(os.Stderr, "unknown subcommand", os.Args[1])
		os.Exit(2)
	}
}
