package bodies

import (
	"fmt"
	"os"
	"path/filepath"
	"strings"

	"github.com/gogpu/naga/ir"
)

// Scenario is one concurrent harness: its threads and the module(s) they use.
type Scenario struct {
	Kind     string    // "H1" separate modules, same backend; "H2" one shared module, three backends; "H3" overrides ∥ backend
	Program  Program   // driver program
	Backends []Backend // H1: one (both threads); H2: three; H3: one (second thread)
}

func (s Scenario) Name() string {
	var bs []string
	for _, b := range s.Backends {
		bs = append(bs, string(b))
	}
	return s.Kind + "|" + s.Program.Name + "|" + strings.Join(bs, ",")
}

// Labels names the thread bodies.
func (s Scenario) Labels() []string {
	switch s.Kind {
	case "H1":
		return []string{string(s.Backends[0]) + "#1(own module)", string(s.Backends[0]) + "#2(own module)"}
	case "H2":
		return []string{string(s.Backends[0]), string(s.Backends[1]), string(s.Backends[2])}
	case "H3":
		return []string{"overrides(clone+process)", string(s.Backends[0])}
	}
	return nil
}

// State is the per-execution state of a scenario.
type State struct {
	Shared  *ir.Module   // H2/H3: the module every thread reads
	Private []*ir.Module // H1: one module per thread
}

// Fresh lowers new module(s).
func (s Scenario) Fresh() (*State, error) {
	st := &State{}
	switch s.Kind {
	case "H1":
		for i := 0; i < 2; i++ {
			m, err := Lower(s.Program.Src)
			if err != nil {
				return nil, err
			}
			st.Private = append(st.Private, m)
		}
	default:
		m, err := Lower(s.Program.Src)
		if err != nil {
			return nil, err
		}
		st.Shared = m
	}
	return st, nil
}

// Run executes thread tid's body.
func (s Scenario) Run(st *State, tid int) Out {
	switch s.Kind {
	case "H1":
		return Compile(s.Backends[0], st.Private[tid])
	case "H2":
		return Compile(s.Backends[tid], st.Shared)
	case "H3":
		if tid == 0 {
			return ProcessOverrides(st.Shared)
		}
		return Compile(s.Backends[0], st.Shared)
	}
	return Out{Err: "bad scenario"}
}

// MutatedCorpusShader is the corpus shader used as the "dxil mutates its
// input" driver (found with `c12x findmut`: a before/after canonical dump
// around dxil.Compile differs for it on the pinned tree).
var MutatedCorpusShaders = []string{"push-constants.wgsl", "debug-symbol-simple.wgsl"}

// InterleavePrograms returns the driver programs of the interleave and race passes.
func InterleavePrograms(repo string) (plain []Program, overrides []Program, missing []string) {
	plain = []Program{OwnByName("d1_mix.wgsl"), OwnByName("d2_vsfs.wgsl")}
	for _, n := range MutatedCorpusShaders {
		b, err := os.ReadFile(filepath.Join(repo, "snapshot/testdata/in", n))
		if err != nil {
			missing = append(missing, n)
			continue
		}
		plain = append(plain, Program{"corpus/" + n, string(b)})
	}
	overrides = []Program{OwnByName("d3_overrides.wgsl")}
	return
}

// Scenarios enumerates every scenario in a fixed order.
func Scenarios(repo string) (ss []Scenario, missing []string) {
	plain, ovr, missing := InterleavePrograms(repo)
	for _, p := range plain {
		for _, b := range AllBackends {
			ss = append(ss, Scenario{"H1", p, []Backend{b}})
		}
	}
	n := len(AllBackends)
	for _, p := range plain {
		for i := 0; i < n; i++ {
			for j := i + 1; j < n; j++ {
				for k := j + 1; k < n; k++ {
					ss = append(ss, Scenario{"H2", p, []Backend{AllBackends[i], AllBackends[j], AllBackends[k]}})
				}
			}
		}
	}
	for _, p := range ovr {
		for _, b := range AllBackends {
			ss = append(ss, Scenario{"H3", p, []Backend{b}})
		}
	}
	return ss, missing
}

// ScenarioByName finds a scenario by Name().
func ScenarioByName(repo, name string) (Scenario, error) {
	ss, _ := Scenarios(repo)
	for _, s := range ss {
		if s.Name() == name {
			return s, nil
		}
	}
	return Scenario{}, fmt.Errorf("no scenario named %q", name)
}
