// Package bodies holds the harness thread bodies and driver programs shared by
// the instrumented explorer (cmd/c12x/inst) and the free-running -race pass
// (cmd/c12x/racer). It uses only naga's public API.
package bodies

import (
	"crypto/sha256"
	"embed"
	"encoding/hex"
	"fmt"
	"os"
	"path/filepath"
	"sort"
	"strings"

	"github.com/gogpu/naga"
	"github.com/gogpu/naga/dxil"
	"github.com/gogpu/naga/glsl"
	"github.com/gogpu/naga/hlsl"
	"github.com/gogpu/naga/ir"
	"github.com/gogpu/naga/msl"
	"github.com/gogpu/naga/spirv"

	"verif/internal/verifrt"
)

//go:embed wgsl/*.wgsl
var ownFS embed.FS

type Backend string

const (
	SPIRV Backend = "spirv"
	HLSL  Backend = "hlsl"
	MSL   Backend = "msl"
	GLSL  Backend = "glsl"
	DXIL  Backend = "dxil"
)

var AllBackends = []Backend{SPIRV, HLSL, MSL, GLSL, DXIL}

// Out is what one operation is observed to produce.
type Out struct {
	Data []byte
	Err  string
}

func (o Out) Digest() string {
	h := sha256.New()
	h.Write(o.Data)
	h.Write([]byte{0})
	h.Write([]byte(o.Err))
	return hex.EncodeToString(h.Sum(nil))[:24]
}

func (o Out) Equal(p Out) bool { return o.Err == p.Err && string(o.Data) == string(p.Data) }

func guard(o *Out) {
	if r := recover(); r != nil {
		o.Data = nil
		o.Err = fmt.Sprintf("panic: %v", r)
	}
}

// Lower parses and lowers one WGSL source.
func Lower(src string) (m *ir.Module, err error) {
	defer func() {
		if r := recover(); r != nil {
			m, err = nil, fmt.Errorf("panic: %v", r)
		}
	}()
	ast, err := naga.Parse(src)
	if err != nil {
		return nil, err
	}
	return naga.LowerWithSource(ast, src)
}

// MustLower is Lower for embedded driver programs.
func MustLower(src string) *ir.Module {
	m, err := Lower(src)
	if err != nil {
		panic("driver program does not lower: " + err.Error())
	}
	return m
}

// Compile runs one backend with the options C12 fixes: SPIR-V defaults on a
// fresh Backend, HLSL/MSL/DXIL defaults, GLSL 4.50 once per entry point.
func Compile(b Backend, m *ir.Module) (o Out) {
	defer guard(&o)
	switch b {
	case SPIRV:
		d, err := spirv.NewBackend(spirv.DefaultOptions()).Compile(m)
		return mk(d, err)
	case HLSL:
		s, _, err := hlsl.Compile(m, hlsl.DefaultOptions())
		return mk([]byte(s), err)
	case MSL:
		s, _, err := msl.Compile(m, msl.DefaultOptions())
		return mk([]byte(s), err)
	case GLSL:
		var sb strings.Builder
		var errs []string
		for i := range m.EntryPoints {
			opt := glsl.DefaultOptions()
			opt.LangVersion = glsl.Version{Major: 4, Minor: 50}
			opt.EntryPoint = m.EntryPoints[i].Name
			s, _, err := glsl.Compile(m, opt)
			fmt.Fprintf(&sb, "//// entry point %d %s\n%s\n", i, opt.EntryPoint, s)
			if err != nil {
				errs = append(errs, fmt.Sprintf("%s: %v", opt.EntryPoint, err))
			}
		}
		return Out{Data: []byte(sb.String()), Err: strings.Join(errs, "; ")}
	case DXIL:
		d, err := dxil.Compile(m, dxil.DefaultOptions())
		return mk(d, err)
	}
	return Out{Err: "unknown backend " + string(b)}
}

func mk(d []byte, err error) Out {
	if err != nil {
		return Out{Data: d, Err: err.Error()}
	}
	return Out{Data: d}
}

// OverrideValues are the pipeline constants H3 supplies.
var OverrideValues = ir.PipelineConstants{"scale": 3, "count": 5, "0": 2, "flag": 1}

// ProcessOverrides is H3's first body: clone the shared module, resolve its
// overrides on the clone, and report the canonical dump of the result.
func ProcessOverrides(m *ir.Module) (o Out) {
	defer guard(&o)
	c := ir.CloneModuleForOverrides(m)
	err := ir.ProcessOverrides(c, OverrideValues)
	return mk([]byte(verifrt.DumpString(c)), err)
}

// ModuleDump is the canonical text form of a module (reflection walk).
func ModuleDump(m *ir.Module) string { return verifrt.DumpString(m) }

// ModuleHash digests the same walk.
func ModuleHash(m *ir.Module) uint64 { return verifrt.Hash(m) }

// Program is one driver program.
type Program struct {
	Name string // stable: "corpus/<file>", "own/<file>", "extra/<relpath>"
	Src  string
}

// Own returns the embedded collision-forcing / feature-covering programs.
func Own() []Program {
	ents, _ := ownFS.ReadDir("wgsl")
	var ps []Program
	for _, e := range ents {
		b, _ := ownFS.ReadFile("wgsl/" + e.Name())
		ps = append(ps, Program{"own/" + e.Name(), string(b)})
	}
	return ps
}

// OwnByName returns one embedded program.
func OwnByName(file string) Program {
	b, err := ownFS.ReadFile("wgsl/" + file)
	if err != nil {
		panic(err)
	}
	return Program{"own/" + file, string(b)}
}

// Corpus returns naga's snapshot inputs.
func Corpus(repo string) ([]Program, error) {
	fs, err := filepath.Glob(filepath.Join(repo, "snapshot/testdata/in/*.wgsl"))
	if err != nil {
		return nil, err
	}
	sort.Strings(fs)
	var ps []Program
	for _, f := range fs {
		b, err := os.ReadFile(f)
		if err != nil {
			return nil, err
		}
		ps = append(ps, Program{"corpus/" + filepath.Base(f), string(b)})
	}
	return ps, nil
}

// Extra returns every *.wgsl under dir (absent dir = none).
func Extra(dir string) ([]Program, error) {
	var ps []Program
	err := filepath.WalkDir(dir, func(p string, d os.DirEntry, err error) error {
		if err != nil {
			if os.IsNotExist(err) {
				return filepath.SkipAll
			}
			return err
		}
		if d.IsDir() || !strings.HasSuffix(p, ".wgsl") {
			return nil
		}
		b, err := os.ReadFile(p)
		if err != nil {
			return err
		}
		rel, _ := filepath.Rel(dir, p)
		ps = append(ps, Program{"extra/" + filepath.ToSlash(rel), string(b)})
		return nil
	})
	sort.Slice(ps, func(i, j int) bool { return ps[i].Name < ps[j].Name })
	return ps, err
}

// DriverSet is the maporder program set: corpus, extra, own.
func DriverSet(repo, extraDir string) ([]Program, error) {
	c, err := Corpus(repo)
	if err != nil {
		return nil, err
	}
	e, err := Extra(extraDir)
	if err != nil {
		return nil, err
	}
	return append(append(c, e...), Own()...), nil
}

// Digests compiles the whole driver set with every backend and returns
// "program|stage" -> digest. Run by an uninstrumented and by an instrumented
// (pass-through) binary, the two maps must be equal.
func Digests(repo, extraDir string) (map[string]string, error) {
	ps, err := DriverSet(repo, extraDir)
	if err != nil {
		return nil, err
	}
	d := map[string]string{}
	for _, p := range ps {
		m, err := Lower(p.Src)
		if err != nil {
			d[p.Name+"|lower"] = "error: " + err.Error()
			continue
		}
		d[p.Name+"|lower"] = fmt.Sprintf("%016x", ModuleHash(m))
		for _, b := range AllBackends {
			m, err := Lower(p.Src)
			if err != nil {
				d[p.Name+"|"+string(b)] = "relower error: " + err.Error()
				continue
			}
			d[p.Name+"|"+string(b)] = Compile(b, m).Digest()
		}
	}
	return d, nil
}
