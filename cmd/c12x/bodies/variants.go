package bodies

import (
	"fmt"
	"sort"
	"strings"

	"github.com/gogpu/naga/dxil"
	"github.com/gogpu/naga/glsl"
	"github.com/gogpu/naga/hlsl"
	"github.com/gogpu/naga/ir"
	"github.com/gogpu/naga/msl"
)

// Variant stages of the maporder exploration: the same backends with option
// sets whose maps (binding maps, pipeline constants) have one entry per
// resource / override of the module, so that the option-walking map ranges are
// reached with as many keys as the program has resources.
var Variants = []string{"overrides", "hlsl+opts", "msl+opts", "glsl+opts", "dxil+opts"}

func resources(m *ir.Module) []ir.ResourceBinding {
	seen := map[ir.ResourceBinding]bool{}
	var rs []ir.ResourceBinding
	for i := range m.GlobalVariables {
		if b := m.GlobalVariables[i].Binding; b != nil && !seen[*b] {
			seen[*b] = true
			rs = append(rs, *b)
		}
	}
	sort.Slice(rs, func(i, j int) bool {
		if rs[i].Group != rs[j].Group {
			return rs[i].Group < rs[j].Group
		}
		return rs[i].Binding < rs[j].Binding
	})
	return rs
}

func groups(rs []ir.ResourceBinding) []uint32 {
	var gs []uint32
	for _, r := range rs {
		if len(gs) == 0 || gs[len(gs)-1] != r.Group {
			gs = append(gs, r.Group)
		}
	}
	return gs
}

// Constants gives every override of m a value (by name, or by id when it has one).
func Constants(m *ir.Module) ir.PipelineConstants {
	c := ir.PipelineConstants{}
	for i, o := range m.Overrides {
		v := float64(2 + i)
		if int(o.Ty) < len(m.Types) {
			if s, ok := m.Types[o.Ty].Inner.(ir.ScalarType); ok && s.Kind == ir.ScalarBool {
				v = float64(i % 2)
			}
		}
		if o.ID != nil {
			c[fmt.Sprint(*o.ID)] = v
		} else {
			c[o.Name] = v
		}
	}
	return c
}

// CompileVariant runs one of Variants. ok is false when the variant does not
// apply to the module (no overrides for "overrides").
func CompileVariant(v string, m *ir.Module) (o Out, ok bool) {
	defer guard(&o)
	rs := resources(m)
	switch v {
	case "overrides":
		if len(m.Overrides) == 0 {
			return Out{}, false
		}
		c := ir.CloneModuleForOverrides(m)
		err := ir.ProcessOverrides(c, Constants(m))
		return mk([]byte(ModuleDump(c)), err), true
	case "hlsl+opts":
		opt := hlsl.DefaultOptions()
		opt.BindingMap = map[hlsl.ResourceBinding]hlsl.BindTarget{}
		for i, r := range rs {
			opt.BindingMap[hlsl.ResourceBinding{Group: r.Group, Binding: r.Binding}] = hlsl.BindTarget{Space: uint8(r.Group), Register: uint32(10 + i)}
		}
		opt.SamplerBufferBindingMap = map[uint32]hlsl.BindTarget{}
		opt.DynamicStorageBufferOffsetsTargets = map[uint32]hlsl.OffsetsBindTarget{}
		for _, g := range append(groups(rs), 7, 8) {
			opt.SamplerBufferBindingMap[g] = hlsl.BindTarget{Space: 250, Register: g}
			opt.DynamicStorageBufferOffsetsTargets[g] = hlsl.OffsetsBindTarget{Space: 251, Register: g, Size: 1}
		}
		s, _, err := hlsl.Compile(m, opt)
		return mk([]byte(s), err), true
	case "msl+opts":
		opt := msl.DefaultOptions()
		opt.PipelineConstants = Constants(m)
		opt.PerEntryPointMap = map[string]msl.EntryPointResources{}
		for i := range m.EntryPoints {
			res := map[ir.ResourceBinding]msl.BindTarget{}
			for j, r := range rs {
				slot := uint8(j)
				res[r] = msl.BindTarget{Buffer: &slot, Texture: &slot, Sampler: &msl.BindSamplerTarget{Slot: slot}, Mutable: true}
			}
			sizes := uint8(30)
			opt.PerEntryPointMap[m.EntryPoints[i].Name] = msl.EntryPointResources{Resources: res, SizesBuffer: &sizes}
		}
		s, _, err := msl.Compile(m, opt)
		return mk([]byte(s), err), true
	case "glsl+opts":
		var sb strings.Builder
		var errs []string
		for i := range m.EntryPoints {
			opt := glsl.DefaultOptions()
			opt.LangVersion = glsl.Version{Major: 4, Minor: 50}
			opt.EntryPoint = m.EntryPoints[i].Name
			opt.PipelineConstants = Constants(m)
			opt.BindingMap = map[glsl.BindingMapKey]uint8{}
			for j, r := range rs {
				opt.BindingMap[glsl.BindingMapKey{Group: r.Group, Binding: r.Binding}] = uint8(j)
			}
			s, _, err := glsl.Compile(m, opt)
			fmt.Fprintf(&sb, "//// entry point %d %s\n%s\n", i, opt.EntryPoint, s)
			if err != nil {
				errs = append(errs, fmt.Sprintf("%s: %v", opt.EntryPoint, err))
			}
		}
		return Out{Data: []byte(sb.String()), Err: strings.Join(errs, "; ")}, true
	case "dxil+opts":
		opt := dxil.DefaultOptions()
		opt.BindingMap = dxil.BindingMap{}
		for i, r := range rs {
			opt.BindingMap[dxil.BindingLocation{Group: r.Group, Binding: r.Binding}] = dxil.BindTarget{Space: r.Group, Register: uint32(10 + i)}
		}
		opt.SamplerBufferBindingMap = map[uint32]dxil.BindTarget{}
		for _, g := range append(groups(rs), 7, 8) {
			opt.SamplerBufferBindingMap[g] = dxil.BindTarget{Space: 250, Register: g}
		}
		d, err := dxil.Compile(m, opt)
		return mk(d, err), true
	}
	return Out{Err: "unknown variant " + v}, true
}
