package bodies

import (
	"strings"
	"testing"
)

// The embedded driver programs must lower, and the collision-forcing ones must
// be accepted by every backend (the three override programs are rejected by
// backends that need resolved overrides; that is expected).
func TestOwnProgramsCompile(t *testing.T) {
	for _, p := range Own() {
		m, err := Lower(p.Src)
		if err != nil {
			t.Errorf("%s: %v", p.Name, err)
			continue
		}
		for _, b := range AllBackends {
			m, _ := Lower(p.Src)
			o := Compile(b, m)
			if o.Err != "" && !strings.Contains(p.Name, "overrides") && !(b == DXIL && strings.Contains(o.Err, "not in value map")) {
				t.Errorf("%s: %s: %s", p.Name, b, o.Err)
			}
		}
		for _, v := range Variants {
			m2, _ := Lower(p.Src)
			o, ok := CompileVariant(v, m2)
			if ok && strings.HasPrefix(o.Err, "panic") {
				t.Errorf("%s: %s: %s", p.Name, v, o.Err)
			}
			if ok && o.Err != "" {
				t.Logf("%s: %s: %s", p.Name, v, o.Err)
			}
		}
		_ = m
	}
}

func TestScenarios(t *testing.T) {
	ss, missing := Scenarios("/repo")
	if len(missing) > 0 {
		t.Logf("missing corpus shaders: %v", missing)
	}
	seen := map[string]bool{}
	for _, s := range ss {
		if seen[s.Name()] {
			t.Errorf("duplicate scenario %s", s.Name())
		}
		seen[s.Name()] = true
		if _, err := ScenarioByName("/repo", s.Name()); err != nil {
			t.Error(err)
		}
	}
	if len(ss) < 40 {
		t.Errorf("only %d scenarios", len(ss))
	}
}
