// >= 2 helper functions that dxil keeps as real functions (control flow + result), one calling another.
@group(0) @binding(0) var<storage, read_write> data: array<u32>;
@group(0) @binding(1) var<storage, read_write> aux: array<i32>;

fn steps(n0: u32) -> u32 {
    var n = n0; var i = 0u;
    while n > 1u { if n % 2u == 0u { n = n / 2u; } else { n = 3u * n + 1u; } i = i + 1u; }
    return i;
}
fn tri(k: u32) -> u32 {
    var s = 0u;
    for (var j = 0u; j < k; j = j + 1u) { s = s + j; if s > 1000u { break; } }
    return s;
}
fn both(a: u32) -> u32 {
    var r = 0u;
    if a > 3u { r = steps(a) + tri(a); } else { r = tri(a + 1u); }
    return r;
}
fn sgn(v: i32) -> i32 {
    var r = 0;
    switch v { case 0: { r = 0; } case 1, 2: { r = 1; } default: { if v < 0 { r = -1; } else { r = 2; } } }
    return r;
}
@compute @workgroup_size(2)
fn main(@builtin(global_invocation_id) gid: vec3<u32>) {
    let a = steps(data[gid.x]);
    let b = tri(a);
    let c = both(b);
    data[gid.x] = a + b + c;
    aux[gid.x] = sgn(aux[gid.x]) + sgn(i32(c));
}
