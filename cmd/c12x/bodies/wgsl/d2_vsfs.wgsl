struct VOut { @builtin(position) pos: vec4<f32>, @location(0) uv: vec2<f32>, @location(1) @interpolate(flat) id: u32 }
struct Cam { mvp: mat4x4<f32>, tint: vec4<f32> }
@group(0) @binding(0) var<uniform> cam: Cam;
@group(1) @binding(0) var tex_a: texture_2d<f32>;
@group(1) @binding(1) var tex_b: texture_2d<f32>;
@group(1) @binding(2) var samp_l: sampler;
@group(1) @binding(3) var samp_n: sampler;

fn shade(uv: vec2<f32>) -> vec4<f32> {
    let a = textureSample(tex_a, samp_l, uv);
    let b = textureSample(tex_b, samp_n, uv);
    let c = textureSample(tex_a, samp_n, uv * 0.5);
    return mix(a, b, 0.5) + c * 0.25;
}

@vertex
fn vs(@location(0) p: vec3<f32>, @location(1) uv: vec2<f32>, @builtin(vertex_index) vi: u32) -> VOut {
    var o: VOut;
    o.pos = cam.mvp * vec4<f32>(p, 1.0);
    o.uv = uv;
    o.id = vi;
    return o;
}

@fragment
fn fs(i: VOut) -> @location(0) vec4<f32> {
    var col = shade(i.uv) * cam.tint;
    if (i.id % 2u == 1u) { col = col.bgra; }
    return col;
}
