override scale: f32 = 2.0;
override count: u32 = 4u;
@id(0) override bias: f32;
override flag: bool = false;
override derived: f32 = scale * 2.0 + 1.0;
@group(0) @binding(0) var<storage, read_write> out: array<f32>;
var<private> g: f32 = scale;

fn f(x: f32) -> f32 {
    if (flag) { return x * scale + bias; }
    return x * derived;
}

@compute @workgroup_size(1)
fn main(@builtin(global_invocation_id) gid: vec3<u32>) {
    var acc = g;
    for (var i = 0u; i < count; i++) {
        acc = acc + f(f32(i));
    }
    out[gid.x] = acc;
}
