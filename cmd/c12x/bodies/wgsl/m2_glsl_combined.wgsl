// >= 2 combined texture/sampler pairs per texture, a depth texture with comparison and plain samplers,
// texture queries on combined textures, two entry points sharing them.
@group(0) @binding(0) var t_a: texture_2d<f32>;
@group(0) @binding(1) var t_b: texture_2d<f32>;
@group(0) @binding(2) var t_d: texture_depth_2d;
@group(0) @binding(3) var t_arr: texture_2d_array<f32>;
@group(1) @binding(0) var s_lin: sampler;
@group(1) @binding(1) var s_near: sampler;
@group(1) @binding(2) var s_cmp: sampler_comparison;
@group(2) @binding(0) var<uniform> u: vec4<f32>;

@vertex
fn vs(@builtin(vertex_index) vi: u32) -> @builtin(position) vec4<f32> {
    return textureSampleLevel(t_a, s_near, vec2<f32>(f32(vi)), 0.0);
}

fn samp(t: texture_2d<f32>, s: sampler, uv: vec2<f32>) -> vec4<f32> { return textureSampleLevel(t, s, uv, 0.0); }
fn pick(uv: vec2<f32>) -> vec4<f32> {
    let d0 = textureDimensions(t_a);
    let d1 = textureDimensions(t_b, 1);
    let n = textureNumLevels(t_a);
    let x = textureSample(t_a, s_lin, uv) + textureSample(t_a, s_near, uv);
    let y = textureSample(t_b, s_near, uv) + textureSample(t_b, s_lin, uv * 2.0);
    let z = textureSample(t_arr, s_lin, uv, 1);
    return x + y + z + vec4<f32>(f32(d0.x + d1.y + n));
}
@fragment
fn fs_a(@location(0) uv: vec2<f32>) -> @location(0) vec4<f32> {
    let sh = textureSampleCompare(t_d, s_cmp, uv, 0.5);
    let dd = textureSample(t_d, s_lin, uv);
    return pick(uv) * sh + vec4<f32>(dd) + u;
}
@fragment
fn fs_b(@location(0) uv: vec2<f32>) -> @location(0) vec4<f32> {
    let l = textureLoad(t_a, vec2<i32>(uv), 0);
    return textureSampleLevel(t_b, s_lin, uv, 0.0) + l + samp(t_a, s_lin, uv) + samp(t_b, s_near, uv) + samp(t_a, s_near, uv) + vec4<f32>(f32(textureNumLayers(t_arr)));
}
