// overrides used in helpers with several named expressions, workgroup size, array sizes and global initialisers.
override a: f32 = 1.5;
override b: i32 = 4;
@id(7) override c: u32 = 2u;
@id(9) override d: bool = true;
override e: f32 = a * 2.0;
override f: f32;
@group(0) @binding(0) var<storage, read_write> o: array<f32>;
@group(0) @binding(1) var<uniform> un: vec4<f32>;
var<private> g0: f32 = a + 1.0;
var<private> g1: i32 = b;
var<workgroup> wg: array<f32, c>;
fn h(x: f32) -> f32 {
    let p = x * a; let q = p + e; let r = q - f; let s = r; let t = r;
    if d { return s + f32(b); }
    return t * f32(c);
}
fn h2(x: f32, y: f32) -> f32 {
    let m = h(x); let n = h(y); let mm = m; let nn = n;
    var acc = g0;
    for (var i = 0; i < b; i++) { let step = f32(i) * a; let step2 = step; acc = acc + step2 + mm - nn; }
    return acc + f32(g1);
}
@compute @workgroup_size(c, 1, 1)
fn main(@builtin(global_invocation_id) id: vec3<u32>, @builtin(local_invocation_index) li: u32) {
    let v = un.x; let w = un.y; let v2 = v; let w2 = w;
    wg[li % c] = h2(v2, w2);
    workgroupBarrier();
    o[id.x] = wg[0] + e + f;
}
