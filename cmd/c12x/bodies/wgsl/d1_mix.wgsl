struct Item { a: i32, b: vec3<f32>, c: array<u32, 4> }
struct Buf { n: u32, items: array<Item> }
@group(0) @binding(0) var<storage, read_write> buf: Buf;
@group(0) @binding(1) var<uniform> k: vec4<u32>;
@group(0) @binding(2) var<storage, read_write> cnt: atomic<u32>;
var<workgroup> wg: array<atomic<i32>, 4>;
var<private> acc: i32 = 1;

fn helper(p: ptr<function, i32>, x: u32) -> u32 {
    *p = *p + i32(x);
    acc = acc * 3;
    return x * 2u + u32(*p);
}

@compute @workgroup_size(4, 1, 1)
fn main(@builtin(local_invocation_index) li: u32, @builtin(global_invocation_id) gid: vec3<u32>) {
    var s: i32 = 0;
    var t: u32 = 0u;
    for (var i: u32 = 0u; i < k.x; i = i + 1u) {
        if (i % 2u == 0u) { t = t + helper(&s, i); } else { s = s - 1; }
        if (i > 8u) { break; }
    }
    atomicAdd(&wg[li], s);
    workgroupBarrier();
    let old = atomicAdd(&cnt, t);
    let n = arrayLength(&buf.items);
    if (gid.x < n) {
        buf.items[gid.x].a = atomicLoad(&wg[0]) + acc;
        buf.items[gid.x].b = vec3<f32>(f32(old), f32(s), 1.5);
        buf.items[gid.x].c[li] = t / max(k.y, 1u);
    }
    buf.n = n;
}
