// >= 2 promotable locals merged at one if / loop / switch: phi placement in dxil's mem2reg.
@group(0) @binding(0) var<storage, read_write> o: array<f32>;
@group(0) @binding(1) var<uniform> c: vec4<i32>;
@compute @workgroup_size(1)
fn main(@builtin(global_invocation_id) id: vec3<u32>) {
    var a = 1.0; var b = 2.0; var d = 3.0; var e = 4; var f = 5u; var v = vec3<f32>(0.0);
    if c.x > 0 { a = 10.0; b = 20.0; e = 7; v.x = 1.0; } else { a = 11.0; d = 30.0; f = 9u; v.y = 2.0; }
    for (var i = 0; i < c.y; i++) {
        if i % 2 == 0 { a = a + b; e = e + 1; } else { b = b * d; f = f + 2u; }
        if i > 5 { d = a; continue; }
        v.z = v.z + a;
    }
    switch c.z {
        case 0: { a = b; e = 0; }
        case 1: { b = d; f = 1u; }
        default: { d = a; v = v * 2.0; }
    }
    var acc = 0.0;
    loop { if acc > a { break; } acc = acc + 1.0; b = b - 1.0; continuing { d = d + 1.0; e = e - 1; } }
    o[id.x] = a + b + d + f32(e) + f32(f) + v.x + v.y + v.z + acc;
}
