// several unused lets aliasing one value; shadowed names; many named expressions per function.
struct P { a: vec4<f32>, b: array<i32, 3>, c: u32 }
@group(0) @binding(0) var<storage, read_write> o: array<P>;
@group(0) @binding(1) var<uniform> k: P;
var<private> pv: i32 = 3;
fn f(x: i32, y: i32) -> i32 {
    let a0 = x; let a1 = x; let a2 = x; let a3 = x;
    let b0 = y; let b1 = y;
    let same = x + y; let same2 = same; let same3 = same;
    var v = same;
    { let a0 = v; let a1 = a0; v = a1 + 1; }
    return v;
}
fn g(p: ptr<function, i32>, q: ptr<private, i32>) -> i32 {
    let u0 = *p; let u1 = *p; let u2 = *q; let u3 = *q;
    *p = u0 + u2;
    return *p;
}
@compute @workgroup_size(1)
fn main(@builtin(global_invocation_id) id: vec3<u32>) {
    let i = id.x; let j = id.x; let kk = id.x; let unused_a = k.a; let unused_b = k.a; let unused_c = k.a;
    var loc = f(i32(i), k.b[1]);
    let r = g(&loc, &pv);
    let w0 = o[i].a; let w1 = o[i].a; let w2 = o[i].c; let w3 = o[i].c;
    o[i].a = k.a * f32(r);
    o[i].b[2] = loc;
    o[i].c = k.c + j;
}
