// storage textures of several single-component formats: >= 2 scalar load helpers in HLSL.
@group(0) @binding(0) var img_f: texture_storage_2d<r32float, read>;
@group(0) @binding(1) var img_u: texture_storage_2d<r32uint, read>;
@group(0) @binding(2) var img_i: texture_storage_2d<r32sint, read>;
@group(0) @binding(3) var img_o: texture_storage_2d<rgba8unorm, write>;
@group(0) @binding(4) var img_rw: texture_storage_2d<r32uint, read_write>;
@compute @workgroup_size(4, 4)
fn main(@builtin(global_invocation_id) gid: vec3<u32>) {
    let p = vec2<i32>(gid.xy);
    let a = textureLoad(img_f, p);
    let b = textureLoad(img_u, p);
    let c = textureLoad(img_i, p);
    let d = textureLoad(img_rw, p);
    textureStore(img_o, p, vec4<f32>(a.x, f32(b.x), f32(c.x), f32(d.x)));
    textureStore(img_rw, p, vec4<u32>(b.x + d.x));
}
