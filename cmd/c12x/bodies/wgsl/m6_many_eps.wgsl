// >= 2 entry points per stage, several bindings over 3 groups, shared helpers and globals, workgroup + private vars.
struct U { m: mat4x4<f32>, n: mat2x2<f32>, t: vec3<f32>, s: f32 }
struct VO { @builtin(position) p: vec4<f32>, @location(0) c: vec4<f32>, @location(1) uv: vec2<f32>, @location(2) @interpolate(flat) k: u32 }
@group(0) @binding(0) var<uniform> u0: U;
@group(0) @binding(1) var<uniform> u1: U;
@group(1) @binding(0) var<storage, read> sin_: array<vec4<f32>>;
@group(1) @binding(1) var<storage, read_write> sout: array<vec4<f32>>;
@group(1) @binding(2) var<storage, read_write> cnt: array<atomic<u32>, 4>;
@group(2) @binding(0) var tx: texture_2d<f32>;
@group(2) @binding(1) var sm: sampler;
@group(2) @binding(5) var tx2: texture_cube<f32>;
var<workgroup> wa: array<f32, 8>;
var<workgroup> wb: atomic<i32>;
var<private> pa: vec2<f32>;
var<private> pb: u32 = 7u;
const K0: f32 = 2.5; const K1: u32 = 3u; const K2 = vec2<f32>(1.0, 2.0);
fn h0(v: vec4<f32>) -> vec4<f32> { pa = v.xy + K2; return u0.m * v * K0; }
fn h1(v: vec4<f32>) -> vec4<f32> { pb = pb + K1; return u1.m * v + vec4<f32>(u1.n * v.xy, u1.t.x, u1.s); }
@compute @workgroup_size(8) fn cs0(@builtin(local_invocation_index) li: u32) { wa[li] = sin_[li].x; workgroupBarrier(); atomicAdd(&wb, 1); sout[li] = h0(vec4<f32>(wa[(li + 1u) % 8u])); }
@compute @workgroup_size(2, 2) fn cs1(@builtin(global_invocation_id) g: vec3<u32>) { atomicMax(&cnt[g.x % 4u], g.y + pb); sout[g.x] = h1(sin_[g.y]); }
@vertex fn vs0(@location(0) a: vec4<f32>, @location(1) b: vec2<f32>, @builtin(instance_index) ii: u32) -> VO { return VO(h0(a), a, b + pa, ii + pb); }
@vertex fn vs1(@location(0) a: vec4<f32>, @builtin(vertex_index) vi: u32) -> VO { var o: VO; o.p = h1(a); o.c = sin_[vi]; o.uv = pa; o.k = pb; return o; }
@fragment fn fs0(i: VO) -> @location(0) vec4<f32> { return textureSample(tx, sm, i.uv) * i.c + h0(i.c); }
@fragment fn fs1(i: VO, @builtin(front_facing) ff: bool) -> @location(0) vec4<f32> { if ff { return textureSample(tx2, sm, i.c.xyz); } return h1(i.c) * f32(i.k); }
