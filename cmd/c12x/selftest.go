package main

func doSelfTest(o *opts) map[string]any { return map[string]any{"ok": false} }
