package main

import (
	"encoding/json"
	"fmt"
	"os"
	"path/filepath"
	"strings"
)

// A mutant is a deliberate C12-breaking edit of one naga file, applied as an
// overlay replacement (the tree itself is never touched), together with the
// c12x run that must report it and the run that must not (the same command on
// the unmodified tree).
type mutant struct {
	Name   string
	What   string
	File   string // relative to the naga tree
	Old    string // must occur exactly once
	New    string
	Sub    string   // c12x subcommand
	Args   []string // extra arguments
	Expect []string // substrings that one violation key must all contain
}

var mutants = []mutant{
	{
		Name: "a-glsl-unsorted-map-walk",
		What: "GLSL writer: the sort of a texture's combined-sampler pairs, collected by a map walk, is removed",
		File: "glsl/internal/codegen/writer.go",
		Old:  "	for _, infos := range textureToCombined {\n		if len(infos) > 1 {",
		New:  "	for _, infos := range textureToCombined {\n		if false && len(infos) > 1 {",
		Sub:  "maporder", Args: []string{"--only", "own/d2_vsfs.wgsl"},
		Expect: []string{"map order changes output: glsl: own/d2_vsfs.wgsl", "glsl/internal/codegen/writer.go"},
	},
	{
		Name: "b-hlsl-package-scope-name-cache",
		What: "HLSL namer: the per-writer map of used names is hoisted to package scope, so all compilations share it",
		File: "hlsl/internal/codegen/namer.go",
		Old:  "		unique:                  make(map[string]int),",
		New:  "		unique:                  verifMutantSharedUnique,",
		Sub:  "interleave", Args: []string{"--only", "H1|own/d1_mix.wgsl|hlsl"},
		Expect: []string{"hlsl writes package-level state", "verifMutantSharedUnique"},
	},
	{
		Name: "b-hlsl-package-scope-name-cache-race",
		What: "same mutant, free-running under the race detector",
		File: "hlsl/internal/codegen/namer.go",
		Old:  "		unique:                  make(map[string]int),",
		New:  "		unique:                  verifMutantSharedUnique,",
		Sub:  "race", Args: []string{"--only", "H1|own/d1_mix.wgsl|hlsl", "--reps", "10"},
		Expect: []string{"hlsl/internal/codegen.(*namer)"},
	},
	{
		Name: "c-hlsl-write-then-restore",
		What: "HLSL backend: renames the shared module's first entry point while it writes and restores the name afterwards",
		File: "hlsl/internal/codegen/backend.go",
		Old:  "	if err := w.writeModule(); err != nil {",
		New: "	var verifMutantSaved string\n	if len(module.EntryPoints) > 0 {\n		verifMutantSaved = module.EntryPoints[0].Name\n		module.EntryPoints[0].Name = verifMutantSaved + \"_tmp\"\n	}\n" +
			"	err := w.writeModule()\n	if len(module.EntryPoints) > 0 {\n		module.EntryPoints[0].Name = verifMutantSaved\n	}\n	if err != nil {",
		Sub: "interleave", Args: []string{"--only", "H2|own/d1_mix.wgsl|hlsl,msl,glsl"},
		Expect: []string{"hlsl writes then restores shared module", "EntryPoints[0].Name"},
	},
}

// appendix is added to the end of a mutated file (declarations the edit needs).
var appendix = map[string]string{
	"b-hlsl-package-scope-name-cache":      "\nvar verifMutantSharedUnique = make(map[string]int)\n",
	"b-hlsl-package-scope-name-cache-race": "\nvar verifMutantSharedUnique = make(map[string]int)\n",
}

type selfResult struct {
	Name          string   `json:"name"`
	What          string   `json:"what"`
	Command       string   `json:"command"`
	Applicable    bool     `json:"applicable"`
	Detected      bool     `json:"detected"`
	MatchedKey    string   `json:"matched_key,omitempty"`
	CleanOnBase   bool     `json:"absent_on_unmodified_tree"`
	MutantKeys    []string `json:"violation_keys_with_mutant"`
	Error         string   `json:"error,omitempty"`
	MutantOverlay string   `json:"overlay,omitempty"`
}

func matchKey(keys []string, expect []string) string {
	for _, k := range keys {
		ok := true
		for _, e := range expect {
			if !strings.Contains(k, e) {
				ok = false
			}
		}
		if ok {
			return k
		}
	}
	return ""
}

func runSelf(o *opts, sub string, args []string) ([]string, error) {
	self, err := os.Executable()
	if err != nil {
		return nil, err
	}
	full := append([]string{sub, "--tier", "quick", "--repo", o.repo, "--root", o.root, "--procs", fmt.Sprint(o.procs)}, args...)
	so, se, err := run(o.root, os.Environ(), self, full...)
	if err != nil {
		return nil, fmt.Errorf("%v: %.1500s", err, se)
	}
	var r struct {
		Violations []violation `json:"violations"`
	}
	if err := json.Unmarshal(so, &r); err != nil {
		return nil, err
	}
	var keys []string
	for _, v := range r.Violations {
		keys = append(keys, v.Key)
	}
	return keys, nil
}

// doSelfTest applies each mutant through an overlay and checks that the
// corresponding exploration reports it, and does not report it without the mutant.
func doSelfTest(o *opts) map[string]any {
	var results []selfResult
	all := true
	for _, m := range mutants {
		if o.only != "" && !strings.Contains(m.Name, o.only) {
			continue
		}
		r := selfResult{Name: m.Name, What: m.What, Command: "c12x " + m.Sub + " " + strings.Join(m.Args, " ")}
		orig := filepath.Join(o.repo, m.File)
		src, err := os.ReadFile(orig)
		if err != nil || strings.Count(string(src), m.Old) != 1 {
			r.Error = fmt.Sprintf("mutant does not apply to the current tree (%s: anchor text found %d times)", m.File, strings.Count(string(src), m.Old))
			results = append(results, r)
			all = false
			continue
		}
		r.Applicable = true
		dir := filepath.Join(o.root, ".cache/c12mut", m.Name)
		os.RemoveAll(dir)
		if err := os.MkdirAll(dir, 0o755); err != nil {
			fatal(err)
		}
		patched := filepath.Join(dir, filepath.Base(m.File))
		if err := os.WriteFile(patched, []byte(strings.Replace(string(src), m.Old, m.New, 1)+appendix[m.Name]), 0o644); err != nil {
			fatal(err)
		}
		ov := filepath.Join(dir, "overlay.json")
		b, _ := json.Marshal(map[string]any{"Replace": map[string]string{orig: patched}})
		if err := os.WriteFile(ov, b, 0o644); err != nil {
			fatal(err)
		}
		r.MutantOverlay = ov
		args := append([]string{"--replays", filepath.Join(dir, "replays")}, m.Args...)
		keys, err := runSelf(o, m.Sub, append([]string{"--base-overlay", ov}, args...))
		if err != nil {
			r.Error = "with mutant: " + err.Error()
			results = append(results, r)
			all = false
			continue
		}
		r.MutantKeys = keys
		r.MatchedKey = matchKey(keys, m.Expect)
		r.Detected = r.MatchedKey != ""
		baseKeys, err := runSelf(o, m.Sub, args)
		if err != nil {
			r.Error = "without mutant: " + err.Error()
		} else {
			r.CleanOnBase = matchKey(baseKeys, m.Expect) == ""
		}
		if !r.Detected || !r.CleanOnBase {
			all = false
		}
		results = append(results, r)
	}
	return map[string]any{"ok": all, "violations": []violation{}, "mutants": results}
}
