// Command c12x decides parts (3) map-iteration order and (4) interleavings of
// property C12 on the current /repo working tree.
//
//	c12x maporder   --tier quick|thorough
//	c12x interleave --tier quick|thorough
//	c12x race       --tier quick|thorough
//	c12x replay <file>
//	c12x selftest
//
// Every run re-instruments /repo's current files into /verif/.cache/c12overlay,
// builds the instrumented harness (cmd/c12x/inst) with that overlay and runs it
// in sharded worker processes (GOMAXPROCS=1 each). One JSON object is printed
// on stdout; exit status is 0 even when violations are found and 2 on harness
// errors.
package main

import (
	"bytes"
	"crypto/sha256"
	"encoding/hex"
	"encoding/json"
	"flag"
	"fmt"
	"os"
	"os/exec"
	"path/filepath"
	"regexp"
	"runtime"
	"sort"
	"strings"
	"sync"
	"time"

	"verif/tools/instrument/instr"
)

type violation struct {
	Key    string `json:"key"`
	Detail string `json:"detail"`
	Replay string `json:"replay,omitempty"`
	Count  int    `json:"count"`
}

type opts struct {
	tier    string
	repo    string
	root    string // /verif
	procs   int
	base    string // mutant overlay
	replays string
	extra   string
	only    string
	cap2    int
	cap3    int
	budget  int
	reps    int
}

func fatal(err error) {
	fmt.Fprintln(os.Stderr, "HARNESS-ERROR:", err)
	os.Exit(2)
}

func goEnv() []string {
	env := os.Environ()
	out := env[:0:0]
	for _, e := range env {
		if strings.HasPrefix(e, "GOFLAGS=") || strings.HasPrefix(e, "GOPROXY=") {
			continue
		}
		out = append(out, e)
	}
	return append(out, "GOFLAGS=-mod=mod", "GOPROXY=off")
}

func run(dir string, env []string, name string, args ...string) ([]byte, []byte, error) {
	cmd := exec.Command(name, args...)
	cmd.Dir = dir
	cmd.Env = env
	var so, se bytes.Buffer
	cmd.Stdout, cmd.Stderr = &so, &se
	err := cmd.Run()
	return so.Bytes(), se.Bytes(), err
}

type built struct {
	stats   *instr.Stats
	overlay string
	inst    string
	tag     string
}

// prepare instruments the current tree and builds the instrumented harness.
func prepare(o *opts) *built {
	tag := "base"
	cfg := instr.Config{Repo: o.repo, RTSrc: filepath.Join(o.root, "internal/verifrt")}
	if o.base != "" {
		m, err := instr.ReadOverlay(o.base)
		if err != nil {
			fatal(err)
		}
		cfg.BaseOverlay = m
		h := sha256.Sum256([]byte(o.base))
		tag = "m" + hex.EncodeToString(h[:6])
	}
	cfg.Out = filepath.Join(o.root, ".cache/c12overlay", tag)
	st, err := instr.Generate(cfg)
	if err != nil {
		fatal(fmt.Errorf("instrument: %v", err))
	}
	b := &built{stats: st, overlay: st.Overlay, tag: tag, inst: filepath.Join(o.root, "bin", "c12x-inst-"+tag)}
	_, se, err := run(o.root, goEnv(), "go", "build", "-tags", "c12inst", "-overlay", b.overlay, "-o", b.inst, "./cmd/c12x/inst")
	if err != nil {
		fatal(fmt.Errorf("building the instrumented harness: %v\n%s", err, se))
	}
	return b
}

// buildPlain builds the uninstrumented companion (with the mutant overlay, if any).
func buildPlain(o *opts, race bool) string {
	name := "c12x-plain"
	args := []string{"build"}
	if race {
		name = "c12x-race"
		args = append(args, "-race")
	}
	if o.base != "" {
		h := sha256.Sum256([]byte(o.base))
		name += "-m" + hex.EncodeToString(h[:6])
		args = append(args, "-overlay", o.base)
	}
	out := filepath.Join(o.root, "bin", name)
	args = append(args, "-o", out, "./cmd/c12x/racer")
	_, se, err := run(o.root, goEnv(), "go", args...)
	if err != nil {
		fatal(fmt.Errorf("building %s: %v\n%s", name, err, se))
	}
	return out
}

// shards runs the instrumented worker n times in parallel and returns each stdout.
func shards(o *opts, b *built, sub string, n int, extra ...string) [][]byte {
	outs := make([][]byte, n)
	errs := make([]error, n)
	var wg sync.WaitGroup
	sem := make(chan struct{}, o.procs)
	for i := 0; i < n; i++ {
		wg.Add(1)
		go func() {
			defer wg.Done()
			sem <- struct{}{}
			defer func() { <-sem }()
			args := []string{sub, "--tier", o.tier, "--shard", fmt.Sprintf("%d/%d", i, n), "--repo", o.repo, "--extra", o.extra, "--replays", o.replays, "--only", o.only}
			args = append(args, extra...)
			so, se, err := run(o.root, append(os.Environ(), "GOMAXPROCS=1"), b.inst, args...)
			if err != nil {
				errs[i] = fmt.Errorf("worker %d: %v\n%s", i, err, se)
			}
			outs[i] = so
		}()
	}
	wg.Wait()
	for _, e := range errs {
		if e != nil {
			fatal(e)
		}
	}
	return outs
}

func mergeViolations(vs []violation) []violation {
	byKey := map[string]*violation{}
	var order []string
	for _, v := range vs {
		if old, ok := byKey[v.Key]; ok {
			old.Count += v.Count
			if old.Replay == "" {
				old.Replay = v.Replay
			}
			continue
		}
		v := v
		byKey[v.Key] = &v
		order = append(order, v.Key)
	}
	sort.Strings(order)
	out := []violation{}
	for _, k := range order {
		out = append(out, *byKey[k])
	}
	return out
}

func main() {
	if len(os.Args) < 2 {
		fatal(fmt.Errorf("usage: c12x maporder|interleave|race|replay|selftest [flags]"))
	}
	sub := os.Args[1]
	o := &opts{}
	fs := flag.NewFlagSet(sub, flag.ExitOnError)
	fs.StringVar(&o.tier, "tier", "quick", "quick|thorough")
	fs.StringVar(&o.repo, "repo", "/repo", "naga tree (never written)")
	fs.StringVar(&o.root, "root", "/verif", "harness module root")
	fs.IntVar(&o.procs, "procs", min(16, runtime.NumCPU()), "worker processes")
	fs.StringVar(&o.base, "base-overlay", "", "go build overlay applied to /repo first (mutants); instrumented as modified")
	fs.StringVar(&o.replays, "replays", "", "replay directory (default <root>/replays/C12)")
	fs.StringVar(&o.extra, "extra", "", "extra driver programs (default <root>/testdata/c12)")
	fs.StringVar(&o.only, "only", "", "substring filter on program / scenario names")
	fs.IntVar(&o.cap2, "cap2", 0, "override: scheduling points per thread (2 threads)")
	fs.IntVar(&o.cap3, "cap3", 0, "override: scheduling points per thread (3 threads)")
	fs.IntVar(&o.budget, "budget", 0, "override: schedules per scenario")
	fs.IntVar(&o.reps, "reps", 0, "override: race repetitions per scenario")
	fs.Parse(os.Args[2:])
	if o.replays == "" {
		o.replays = filepath.Join(o.root, "replays/C12")
	}
	if o.extra == "" {
		o.extra = filepath.Join(o.root, "testdata/c12")
	}
	if o.tier != "quick" && o.tier != "thorough" {
		fatal(fmt.Errorf("bad --tier %q", o.tier))
	}
	if o.base != "" {
		var err error
		if o.base, err = filepath.Abs(o.base); err != nil {
			fatal(err)
		}
	}
	if err := os.MkdirAll(filepath.Join(o.root, "bin"), 0o755); err != nil {
		fatal(err)
	}
	t0 := time.Now()
	var out map[string]any
	switch sub {
	case "maporder":
		out = doMapOrder(o)
	case "interleave":
		out = doInterleave(o)
	case "race":
		out = doRace(o)
	case "replay":
		if fs.NArg() != 1 {
			fatal(fmt.Errorf("usage: c12x replay [flags] <file>"))
		}
		b := prepare(o)
		so, se, err := run(o.root, append(os.Environ(), "GOMAXPROCS=1"), b.inst, "replay", "--repo", o.repo, fs.Arg(0))
		if err != nil {
			fatal(fmt.Errorf("%v\n%s", err, se))
		}
		if err := json.Unmarshal(so, &out); err != nil {
			fatal(err)
		}
	case "selftest":
		out = doSelfTest(o)
	default:
		fatal(fmt.Errorf("unknown subcommand %q", sub))
	}
	out["subcommand"] = sub
	out["tier"] = o.tier
	out["elapsed_s"] = float64(int(time.Since(t0).Seconds()*10)) / 10
	enc := json.NewEncoder(os.Stdout)
	enc.SetEscapeHTML(false)
	if err := enc.Encode(out); err != nil {
		fatal(err)
	}
}

func overlaySummary(st *instr.Stats) map[string]any {
	return map[string]any{
		"packages": st.Packages, "files": st.Files, "yield_sites": st.YieldSites, "map_range_sites": len(st.RangeSites),
		"globals": st.Globals, "globals_statically_read_only": st.GlobalsRO, "uninstrumented": st.Uninstrumented,
		"reused_cached_overlay": st.Cached, "input_hash": st.InputHash[:16],
	}
}

// ---- maporder -------------------------------------------------------------------

func doMapOrder(o *opts) map[string]any {
	b := prepare(o)
	plain := buildPlain(o, false)
	// Pass-through identity: instrumented naga with no controller must produce
	// the bytes plain naga produces, on the whole driver set.
	var dg [3]map[string]string
	var wg sync.WaitGroup
	var derr [3]error
	for i, bin := range []string{plain, plain, b.inst} {
		wg.Add(1)
		go func() {
			defer wg.Done()
			so, se, err := run(o.root, os.Environ(), bin, "digests", "--repo", o.repo, "--extra", o.extra)
			if err != nil {
				derr[i] = fmt.Errorf("%s digests: %v\n%s", bin, err, se)
				return
			}
			derr[i] = json.Unmarshal(so, &dg[i])
		}()
	}
	outs := shards(o, b, "maporder", o.procs)
	wg.Wait()
	for _, e := range derr {
		if e != nil {
			fatal(e)
		}
	}
	var vs []violation
	var procDiff, instDiff []string
	for k, v := range dg[0] {
		if dg[1][k] != v {
			procDiff = append(procDiff, k)
		} else if dg[2][k] != v {
			instDiff = append(instDiff, k)
		}
	}
	sort.Strings(procDiff)
	sort.Strings(instDiff)
	passDiff := append(procDiff, instDiff...)
	type siteInfo struct {
		Max     int    `json:"max_keys"`
		Walks   int    `json:"walks"`
		Witness string `json:"witness,omitempty"`
	}
	type part struct {
		Programs      int                  `json:"programs"`
		LowerFailures int                  `json:"lower_failures"`
		Runs          int                  `json:"runs"`
		PerOrder      map[string]int       `json:"runs_per_order"`
		Outcomes      int                  `json:"distinct_outputs"`
		RotCapHit     bool                 `json:"rotation_cap_hit"`
		Violations    []violation          `json:"violations"`
		Sites         map[string]*siteInfo `json:"sites"`
	}
	tot := part{PerOrder: map[string]int{}, Sites: map[string]*siteInfo{}}
	for _, raw := range outs {
		var p part
		if err := json.Unmarshal(raw, &p); err != nil {
			fatal(fmt.Errorf("worker output: %v: %.200s", err, raw))
		}
		tot.Programs += p.Programs
		tot.LowerFailures += p.LowerFailures
		tot.Runs += p.Runs
		tot.Outcomes += p.Outcomes
		tot.RotCapHit = tot.RotCapHit || p.RotCapHit
		for k, v := range p.PerOrder {
			tot.PerOrder[k] += v
		}
		vs = append(vs, p.Violations...)
		for id, s := range p.Sites {
			t := tot.Sites[id]
			if t == nil {
				t = &siteInfo{Max: -1}
				tot.Sites[id] = t
			}
			if s.Max > t.Max || (s.Max == t.Max && s.Witness < t.Witness) {
				t.Max, t.Witness = s.Max, s.Witness
			}
			t.Walks += s.Walks
		}
	}
	type siteRow struct {
		Site        string `json:"site"`
		Pos         string `json:"pos"`
		KeyType     string `json:"key_type"`
		Max         int    `json:"max_keys"`
		Walks       int    `json:"walks"`
		Witness     string `json:"witness,omitempty"`
		Unexercised bool   `json:"unexercised"`
	}
	var rows []siteRow
	var unex []string
	ex2, ex3 := 0, 0
	for _, rs := range b.stats.RangeSites {
		r := siteRow{Site: rs.ID, Pos: rs.Pos, KeyType: rs.KeyType}
		if s := tot.Sites[rs.ID]; s != nil {
			r.Max, r.Walks, r.Witness = s.Max, s.Walks, s.Witness
		}
		if r.Max < 2 {
			r.Unexercised = true
			unex = append(unex, fmt.Sprintf("%s (%s, max %d)", rs.ID, rs.Pos, r.Max))
		} else {
			ex2++
			if r.Max >= 3 {
				ex3++
			}
		}
		rows = append(rows, r)
	}
	// A difference between fresh processes is a violation when the order
	// exploration shows that the program's lowering or that stage depends on map
	// order (the processes merely drew different native orders). A difference
	// between the plain and the instrumented build that the exploration cannot
	// account for means the instrumentation changed behaviour: harness error.
	depends := map[string]int{} // "program|stage" -> index of the violation
	for i, v := range vs {
		// "map order changes output: <stage>: <program>: sites=..."
		if rest, ok := strings.CutPrefix(v.Key, "map order changes output: "); ok {
			if parts := strings.SplitN(rest, ": ", 3); len(parts) == 3 {
				depends[parts[1]+"|"+parts[0]] = i
			}
		}
	}
	var unexplained []string
	seenAcross := map[int][]string{}
	for _, k := range passDiff {
		prog, stage, _ := strings.Cut(k, "|")
		if i, ok := depends[k]; ok {
			seenAcross[i] = append(seenAcross[i], stage)
		} else if i, ok := depends[prog+"|lower"]; ok {
			seenAcross[i] = append(seenAcross[i], stage)
		} else {
			unexplained = append(unexplained, k)
		}
	}
	for i, st := range seenAcross {
		vs[i].Detail += fmt.Sprintf("; the dependence also showed without any harness-chosen order: three fresh processes (two plain builds, one instrumented in pass-through) disagreed on the output of stages %v", st)
	}
	if len(unexplained) > 0 || len(dg[2]) != len(dg[0]) {
		fatal(fmt.Errorf("outputs differ between the plain and the instrumented (pass-through) build, or between two plain processes, on %d outputs that the map-order exploration does not explain, e.g. %v", len(unexplained), unexplained[:min(5, len(unexplained))]))
	}
	vs = mergeViolations(vs)
	return map[string]any{
		"ok": len(vs) == 0, "violations": vs,
		// exhaustive: every rotation of every site reached with >= 3 keys was run (thorough tier, cap not hit).
		"exhaustive": o.tier == "thorough" && !tot.RotCapHit,
		"orders":     map[string]string{"quick": "native, ascending, descending, rotation 1, rotation n/2", "thorough": "native, ascending, descending, every rotation 1..n-1"}[o.tier],
		"counts": map[string]any{
			"programs": tot.Programs, "lower_failures": tot.LowerFailures, "stage_runs": tot.Runs, "runs_per_order": tot.PerOrder,
			"distinct_outputs": tot.Outcomes, "map_range_sites": len(rows), "sites_exercised_2plus": ex2, "sites_exercised_3plus": ex3,
			"sites_unexercised": len(unex), "passthrough_outputs_compared": len(dg[0]), "rotation_cap_thorough": 1024, "rotation_cap_hit": tot.RotCapHit,
		},
		"unexercised_sites": unex,
		"sites":             rows,
		"overlay":           overlaySummary(b.stats),
	}
}

// ---- interleave -------------------------------------------------------------------

func doInterleave(o *opts) map[string]any {
	b := prepare(o)
	var extra []string
	if o.cap2 > 0 {
		extra = append(extra, "--cap2", fmt.Sprint(o.cap2))
	}
	if o.cap3 > 0 {
		extra = append(extra, "--cap3", fmt.Sprint(o.cap3))
	}
	if o.budget > 0 {
		extra = append(extra, "--budget", fmt.Sprint(o.budget))
	}
	// One worker process per scenario, o.procs at a time.
	so, se, err := run(o.root, os.Environ(), b.inst, "scenarios", "--repo", o.repo)
	if err != nil {
		fatal(fmt.Errorf("listing scenarios: %v\n%s", err, se))
	}
	var names []string
	if err := json.Unmarshal(so, &names); err != nil {
		fatal(err)
	}
	outs := shards(o, b, "interleave", len(names), extra...)
	type part struct {
		Scenarios  []map[string]any `json:"scenarios"`
		Violations []violation      `json:"violations"`
		Missing    []string         `json:"missing_programs"`
	}
	var vs []violation
	var scen []map[string]any
	var missing []string
	for _, raw := range outs {
		var p part
		if err := json.Unmarshal(raw, &p); err != nil {
			fatal(fmt.Errorf("worker output: %v: %.200s", err, raw))
		}
		vs = append(vs, p.Violations...)
		scen = append(scen, p.Scenarios...)
		missing = p.Missing
	}
	sort.Slice(scen, func(i, j int) bool { return scen[i]["name"].(string) < scen[j]["name"].(string) })
	schedules, transitions, capped, inexh := 0, 0, 0, 0
	maxSched, maxPoints, maxPre := 0, 0, 0
	endStates := 0
	perBound := []int{}
	for _, s := range scen {
		r := s["report"].(map[string]any)
		n := int(r["schedules"].(float64))
		schedules += n
		transitions += int(r["transitions"].(float64))
		maxSched = max(maxSched, n)
		maxPoints = max(maxPoints, int(r["points_max"].(float64)))
		maxPre = max(maxPre, int(r["max_preemptions"].(float64)))
		endStates = max(endStates, int(r["distinct_end_states"].(float64)))
		for i, v := range r["schedules_per_bound"].([]any) {
			for len(perBound) <= i {
				perBound = append(perBound, 0)
			}
			perBound[i] += int(v.(float64))
		}
		if s["capped"].(bool) {
			capped++
		}
		if !r["exhaustive"].(bool) {
			inexh++
		}
	}
	vs = mergeViolations(vs)
	confirmFresh(o, b, vs)
	return map[string]any{
		"ok": len(vs) == 0, "violations": vs,
		"exhaustive": capped == 0 && inexh == 0,
		"counts": map[string]any{
			"scenarios": len(scen), "schedules": schedules, "transitions": transitions, "schedules_per_preemption_count": perBound,
			"max_schedules_per_scenario": maxSched, "max_points_per_execution": maxPoints, "max_preemptions": maxPre,
			"max_distinct_end_states_per_scenario": endStates,
			"scenarios_with_point_cap_hit":         capped, "scenarios_over_schedule_budget": inexh,
		},
		"missing_programs": missing,
		"scenarios":        scen,
		"overlay":          overlaySummary(b.stats),
	}
}

// confirmFresh replays, twice and each time in a fresh process, the witnesses
// that could not be confirmed inside the exploring process (executions that
// changed process-wide state). Both replays must show the finding and agree
// with each other.
func confirmFresh(o *opts, b *built, vs []violation) {
	for i := range vs {
		if vs[i].Replay == "" {
			continue
		}
		raw, err := os.ReadFile(vs[i].Replay)
		if err != nil {
			continue
		}
		var probe struct {
			Kind  string `json:"kind"`
			Fresh bool   `json:"fresh_process"`
		}
		if json.Unmarshal(raw, &probe) != nil || !(probe.Kind == "solo" || probe.Fresh) {
			continue
		}
		var sigs []string
		for k := 0; k < 2; k++ {
			so, se, err := run(o.root, append(os.Environ(), "GOMAXPROCS=1"), b.inst, "replay", "--repo", o.repo, vs[i].Replay)
			if err != nil {
				fatal(fmt.Errorf("replaying %s: %v\n%s", vs[i].Replay, err, se))
			}
			var r struct {
				Reproduced bool   `json:"reproduced"`
				Signature  string `json:"signature"`
			}
			if err := json.Unmarshal(so, &r); err != nil {
				fatal(err)
			}
			if !r.Reproduced {
				fatal(fmt.Errorf("witness %s (%s) did not reproduce in a fresh process", vs[i].Replay, vs[i].Key))
			}
			sigs = append(sigs, r.Signature)
		}
		if sigs[0] != sigs[1] {
			fatal(fmt.Errorf("witness %s: two fresh-process replays disagree:\n %s\n %s", vs[i].Replay, sigs[0], sigs[1]))
		}
		vs[i].Detail += " [confirmed by two fresh-process replays]"
	}
}

// ---- race ---------------------------------------------------------------------------

var (
	raceSplit = regexp.MustCompile(`(?m)^==================\n`)
	frameRe   = regexp.MustCompile(`(?m)^  (\S+)\(.*\)\n\s+(\S+):(\d+)`)
)

type raceReport struct {
	key    string
	detail string
}

// parseRaces splits race-detector logs into reports keyed by the top frames of both stacks.
func parseRaces(log string, repo string) []raceReport {
	var out []raceReport
	for _, blk := range raceSplit.Split(log, -1) {
		if !strings.Contains(blk, "WARNING: DATA RACE") {
			continue
		}
		// Sections: "<Write|Read> at ... by goroutine N:" then "Previous <write|read> at ... by goroutine M:".
		secs := regexp.MustCompile(`(?m)^(Write|Read|Previous write|Previous read|Atomic write|Previous atomic write|Atomic read|Previous atomic read) at \S+ by .*:\n`).FindAllStringIndex(blk, -1)
		var tops []string
		for i, s := range secs {
			end := len(blk)
			if i+1 < len(secs) {
				end = secs[i+1][0]
			}
			sec := blk[s[1]:end]
			if j := strings.Index(sec, "\n\n"); j >= 0 {
				sec = sec[:j+1]
			}
			kind := strings.ToLower(strings.Fields(blk[s[0]:s[1]])[0])
			if kind == "previous" || kind == "atomic" {
				kind = strings.ToLower(strings.Fields(blk[s[0]:s[1]])[1])
			}
			// Top frame outside the Go runtime: the function is the key, file:line goes in the detail.
			fr := frameRe.FindAllStringSubmatch(sec, 4)
			var fs []string
			for _, f := range fr {
				if strings.HasPrefix(f[1], "runtime.") && len(fr) > 1 {
					continue
				}
				fs = append(fs, strings.TrimPrefix(f[1], "github.com/gogpu/naga/"))
				break
			}
			tops = append(tops, kind+" "+strings.Join(fs, " < "))
		}
		// Stable key: the writing side(s). Which reader happens to collide with a
		// write varies from run to run; the readers are listed in the detail.
		var writers, readers []string
		for _, t := range tops {
			if fn, ok := strings.CutPrefix(t, "write "); ok {
				writers = append(writers, fn)
			} else {
				readers = append(readers, strings.TrimPrefix(t, "read "))
			}
		}
		sort.Strings(writers)
		key := "data race: write in " + strings.Join(writers, " / write in ")
		if len(readers) > 0 {
			blk = "racing read in " + strings.Join(readers, ", ") + "\n" + blk
		}
		if len(blk) > 3000 {
			blk = blk[:3000] + "…"
		}
		out = append(out, raceReport{key, strings.TrimSpace(blk)})
	}
	return out
}

func countPrefix(vs []violation, p string) int {
	n := 0
	for _, v := range vs {
		if strings.HasPrefix(v.Key, p) {
			n++
		}
	}
	return n
}

func uniq(s []string) []string {
	out := s[:0]
	for i, v := range s {
		if i == 0 || v != s[i-1] {
			out = append(out, v)
		}
	}
	return out
}

func doRace(o *opts) map[string]any {
	bin := buildPlain(o, true)
	reps := 20
	if o.tier == "thorough" {
		reps = 200
	}
	if o.reps > 0 {
		reps = o.reps
	}
	logDir := filepath.Join(o.root, ".cache/c12race")
	os.RemoveAll(logDir)
	if err := os.MkdirAll(logDir, 0o755); err != nil {
		fatal(err)
	}
	env := append(os.Environ(), "GORACE=halt_on_error=0 log_path="+filepath.Join(logDir, "race"))
	so, se, err := run(o.root, env, bin, "race", "--repo", o.repo, "--reps", fmt.Sprint(reps), "--only", o.only)
	var res struct {
		Scenarios  int      `json:"scenarios"`
		Runs       int      `json:"runs"`
		Mismatches []string `json:"mismatches"`
		Missing    []string `json:"missing"`
	}
	var crash string
	if err != nil {
		if _, isExit := err.(*exec.ExitError); !isExit {
			fatal(fmt.Errorf("race run: %v\n%s", err, se))
		}
		// The race runtime exits 66 when races were reported (the JSON is then
		// complete). A Go fatal error (e.g. "concurrent map writes") kills the
		// run: that is an observation about naga, not a harness failure.
		if m := regexp.MustCompile(`(?m)^fatal error: (.*)$`).FindSubmatch(se); m != nil {
			crash = string(m[1])
		} else if len(so) == 0 {
			fatal(fmt.Errorf("race run: %v\n%.2000s", err, se))
		}
	}
	if crash == "" {
		if err := json.Unmarshal(so, &res); err != nil {
			fatal(fmt.Errorf("race output: %v: %.300s\n%.2000s", err, so, se))
		}
	}
	// Cold-start pass: one fresh process per scenario whose first action is the concurrent run (races on
	// lazily initialised package-level state only exist before the first compilation has finished).
	coldRuns, coldMismatch := 0, 0
	if crash == "" {
		var names []string
		if lo, _, lerr := run(o.root, os.Environ(), bin, "list", "--repo", o.repo); lerr == nil {
			json.Unmarshal(lo, &names)
		}
		var mu sync.Mutex
		var cwg sync.WaitGroup
		sem := make(chan struct{}, o.procs)
		for _, nm := range names {
			if o.only != "" && !strings.Contains(nm, o.only) {
				continue
			}
			cwg.Add(1)
			sem <- struct{}{}
			go func(nm string) {
				defer cwg.Done()
				defer func() { <-sem }()
				cso, cse, cerr := run(o.root, env, bin, "race-cold", "--repo", o.repo, "--only", nm)
				mu.Lock()
				defer mu.Unlock()
				coldRuns++
				if cerr != nil {
					if m := regexp.MustCompile(`(?m)^fatal error: (.*)$`).FindSubmatch(cse); m != nil {
						res.Mismatches = append(res.Mismatches, "cold|"+nm+"|crash: thread 0 (x) output fatal error: "+string(m[1]))
						coldMismatch++
						return
					}
				}
				var cr struct {
					Mismatches []string `json:"mismatches"`
				}
				if json.Unmarshal(cso, &cr) == nil {
					res.Mismatches = append(res.Mismatches, cr.Mismatches...)
					coldMismatch += len(cr.Mismatches)
				}
			}(nm)
		}
		cwg.Wait()
	}
	logs, _ := filepath.Glob(filepath.Join(logDir, "race.*"))
	var all strings.Builder
	all.Write(se)
	for _, l := range logs {
		b, _ := os.ReadFile(l)
		all.Write(b)
		all.WriteByte('\n')
	}
	var vs []violation
	if crash != "" {
		d := string(se)
		if i := strings.Index(d, "fatal error:"); i >= 0 {
			d = d[i:]
		}
		if len(d) > 3000 {
			d = d[:3000] + "…"
		}
		vs = append(vs, violation{Key: "free-running harness crashed: fatal error: " + crash, Detail: d, Count: 1})
	}
	reports := parseRaces(all.String(), o.repo)
	readers := map[string][]string{}
	for _, r := range reports {
		if rd, _, ok := strings.Cut(r.detail, "\n"); ok && strings.HasPrefix(rd, "racing read in ") {
			readers[r.key] = append(readers[r.key], strings.TrimPrefix(rd, "racing read in "))
		}
		vs = append(vs, violation{Key: r.key, Detail: r.detail, Count: 1})
	}
	for _, m := range res.Mismatches {
		// "<kind>|<program>|<backends>: thread N (<label>) output ..."
		head := strings.SplitN(m, " output ", 2)[0]
		parts := strings.SplitN(head, "|", 3)
		key := "free-running output differs from solo: " + head
		if m := regexp.MustCompile(`thread \d+ \(([a-z]+)`).FindStringSubmatch(head); m != nil && len(parts) == 3 {
			key = fmt.Sprintf("free-running output differs from solo: %s: %s: %s", m[1], parts[0], parts[1])
		}
		vs = append(vs, violation{Key: key, Detail: m, Count: 1})
	}
	vs = mergeViolations(vs)
	for i := range vs {
		if rs := readers[vs[i].Key]; len(rs) > 0 {
			sort.Strings(rs)
			rs = uniq(rs)
			vs[i].Detail = fmt.Sprintf("racing reads seen in %d functions: %s\n%s", len(rs), strings.Join(rs, ", "), vs[i].Detail)
		}
	}
	return map[string]any{
		"ok": len(vs) == 0, "violations": vs,
		"counts":           map[string]any{"scenarios": res.Scenarios, "repetitions": reps, "concurrent_runs": res.Runs, "race_reports": len(reports), "distinct_races": countPrefix(vs, "data race:"), "output_mismatches": len(res.Mismatches), "cold_start_runs": coldRuns, "cold_start_mismatches": coldMismatch},
		"missing_programs": res.Missing,
		"race_log_dir":     logDir,
	}
}
