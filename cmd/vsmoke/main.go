package main

import (
	"fmt"
	"os"
	"sort"
	"strconv"
	"time"

	"verif/internal/nagax"
	"verif/internal/wgen"
	"verif/internal/wref"
)

func main() {
	var fam *wgen.Family
	switch os.Args[1] {
	case "F1":
		fam = wgen.F1()
	case "F2":
		k, _ := strconv.Atoi(os.Args[2])
		fam = wgen.F2(k, len(os.Args) > 3 && os.Args[3] == "core")
	}
	fmt.Println(fam.Name, "count", fam.Count)
	errs := map[string]int{}
	ex := map[string]string{}
	t0 := time.Now()
	outs := map[string]int{}
	step := 1
	if fam.Count > 20000 {
		step = fam.Count / 20000
	}
	for i := 0; i < fam.Count; i += step {
		c := fam.At(i)
		src := wgen.Print(c.Mod)
		if i%(997*step) == 0 {
			fmt.Println("-----", c.Sig, c.Groups)
			fmt.Println(src)
		}
		_, stage, err, pn := nagax.Front(src)
		if pn != nil {
			errs["panic "+pn.Value]++
			ex["panic "+pn.Value] = c.Sig
			continue
		}
		if err != nil {
			k := stage + ": " + err.Error()
			if len(k) > 100 {
				k = k[:100]
			}
			errs[k]++
			ex[k] = c.Sig + "\n" + src
			continue
		}
		b := c.Bufs.Clone()
		if err := wref.Exec(c.Mod, "", b, c.Groups, wref.Config{}); err != nil {
			k := "wref: " + err.Error()
			errs[k]++
			ex[k] = c.Sig + "\n" + src
		}
		for _, k := range b.Keys() {
			outs[string(b[k])]++
		}
	}
	fmt.Println("elapsed", time.Since(t0), "distinct outputs", len(outs))
	var ks []string
	for k := range errs {
		ks = append(ks, k)
	}
	sort.Strings(ks)
	for _, k := range ks {
		fmt.Printf("%5d  %s\n      e.g. %s\n", errs[k], k, ex[k])
	}
}
