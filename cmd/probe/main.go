package main

import (
	"fmt"
	"os"

	"github.com/gogpu/naga"
	"github.com/gogpu/naga/glsl"
	"github.com/gogpu/naga/hlsl"
	"github.com/gogpu/naga/msl"
	"github.com/gogpu/naga/spirv"
)

func main() {
	src, _ := os.ReadFile(os.Args[1])
	ast, err := naga.Parse(string(src))
	if err != nil {
		fmt.Println("parse:", err)
		return
	}
	m, err := naga.LowerWithSource(ast, string(src))
	if err != nil {
		fmt.Println("lower:", err)
		return
	}
	b, err := naga.GenerateSPIRV(m, spirv.Options{Version: spirv.Version1_3})
	fmt.Println("spirv", len(b), err)
	h, _, err := hlsl.Compile(m, hlsl.DefaultOptions())
	fmt.Println("HLSL:", err)
	fmt.Println(h)
	mo := msl.DefaultOptions()
	ms, _, err := msl.Compile(m, mo)
	fmt.Println("MSL:", err)
	fmt.Println(ms)
	g := glsl.DefaultOptions()
	g.LangVersion = glsl.Version{Major: 4, Minor: 30}
	if len(m.EntryPoints) > 0 {
		g.EntryPoint = m.EntryPoints[0].Name
	}
	gs, _, err := glsl.Compile(m, g)
	fmt.Println("GLSL:", err)
	fmt.Println(gs)
}
