// vcheck runs one property check: vcheck run <Cxx> [--tier quick|thorough]
package main

import (
	"fmt"
	"os"

	"verif/internal/checks"
)

func main() {
	if len(os.Args) < 2 {
		fmt.Println("usage: vcheck run <Cxx> [--tier quick|thorough] | vcheck replay <file> | vcheck worker ...")
		os.Exit(2)
	}
	switch os.Args[1] {
	case "run":
		id := os.Args[2]
		for i := 3; i+1 < len(os.Args); i++ {
			if os.Args[i] == "--tier" {
				os.Setenv("VERIF_TIER", os.Args[i+1])
			}
		}
		fn, ok := checks.Registry[id]
		if !ok {
			fmt.Println("HARNESS-ERROR: no check", id)
			os.Exit(2)
		}
		os.Exit(fn())
	case "worker":
		os.Exit(checks.Worker(os.Args[2:]))
	case "replay":
		os.Exit(checks.Replay(os.Args[2]))
	case "keys":
		// authoring aid: run a check and print all violation keys (never used by MANIFEST commands)
		os.Setenv("VERIF_PRINT_KEYS", "1")
		os.Exit(checks.Registry[os.Args[2]]())
	}
	os.Exit(2)
}
