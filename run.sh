#!/bin/sh
# usage: ./run.sh <Cxx> <quick|thorough>   — rebuilds the harness against /repo's current tree, then runs the check.
cd "$(dirname "$0")" || exit 2
export GOFLAGS=-mod=mod GOPROXY=off VERIF_ROOT="$(pwd)"
export VERIF_TIER="${2:-quick}"
mkdir -p bin
if ! go build -tags verif -o bin/vcheck ./cmd/vcheck 2>bin/build.log; then
  echo "HARNESS-ERROR: build failed (see bin/build.log)"; head -20 bin/build.log
  exit 2
fi
if [ "$1" = "C12" ]; then
  if ! go build -o bin/c12x ./cmd/c12x 2>>bin/build.log; then echo "HARNESS-ERROR: c12x build failed"; exit 2; fi
fi
exec ./bin/vcheck run "$1" --tier "$VERIF_TIER"
