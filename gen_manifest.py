#!/usr/bin/env python3
# Regenerates MANIFEST.json from the table below (authoring aid; not run by any check).
import json
checks = {}
def add(pid, technique, text, note, design):
    checks[pid] = dict(technique=technique, text=text, note=note, design=design)

add("C08", "bounded-exhaustive program x configuration enumeration on the implementation (every program of the operator and control-flow grammars within the node budget, every option set within 1 deviation)",
    "Every program of the bounded grammars F1 (all operators/builtins x shapes x operand sources) and F2 (all control-flow trees within the node budget, three positions) plus hand-written feature programs is pushed through parse, lower, validate, the one-call API and all four backends under every option set within one deviation of the default; any error is a violation. Exhaustive within the stated bounds; nothing sampled.",
    "Generated programs are valid WGSL by construction; the grammar is conservative (no unreachable code, no spec-debatable forms).", "DESIGN.md §3 C08")

NA = {
}
for i in range(1, 20):
    pid = "C%02d" % i
    if pid not in checks and pid not in NA:
        NA[pid] = "check not registered yet in this commit (build in progress, see DESIGN.md §8)"

m = {
 "version": 1,
 "setup_cmd": "cd /verif && export GOFLAGS=-mod=mod GOPROXY=off && mkdir -p bin && go build -tags verif -o bin/vcheck ./cmd/vcheck",
 "hooks": {"guard": "verif", "enable": "go build -tags verif (harness module replaces github.com/gogpu/naga => /repo)",
           "baseline_off_cmd": "cd /repo && GOFLAGS=-mod=mod GOPROXY=off go test -json -vet=off -count=1 -timeout 25m ./...",
           "source_commits": [], "add_only": True},
 "engines": [
  {"name": "vcheck", "path": "cmd/vcheck", "serves_properties": sorted(checks), "kind_free_text": "hand-written bounded-exhaustive explorers running on the real naga code (program/input/configuration/history enumeration), reference WGSL evaluator and independent target interpreters"}
 ],
 "checks": [],
 "notes": "All checks rebuild the harness against /repo's working tree (run.sh). Known genuine defects are listed in known_findings.json.",
 "not_applicable": [{"property_id": k, "reason": v} for k, v in sorted(NA.items())],
}
for pid in sorted(checks):
    c = checks[pid]
    m["checks"].append({
        "property_id": pid,
        "quick_cmd": "./run.sh %s quick" % pid,
        "thorough_cmd": "./run.sh %s thorough" % pid,
        "evidence_file": "/verif/evidence/%s.json" % pid,
        "replay_cmd_template": "./bin/vcheck replay {path}",
        "engine": "vcheck",
        "level_claimed": {"category": "model_checking", "text": c["text"], "design_ref": c["design"]},
        "level_note": c["note"],
        "technique": c["technique"],
    })
json.dump(m, open("MANIFEST.json", "w"), indent=1)
print("checks:", sorted(checks), "NA:", sorted(NA))
