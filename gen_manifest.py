#!/usr/bin/env python3
# Regenerates MANIFEST.json from the table below (authoring aid; not run by any check).
import json
checks = {}
def add(pid, technique, text, note, design):
    checks[pid] = dict(technique=technique, text=text, note=note, design=design)

add("C08", "bounded-exhaustive program x configuration enumeration on the implementation (every program of the operator and control-flow grammars within the node budget, every option set within 1 deviation)",
    "Every program of the bounded grammars F1 (all operators/builtins x shapes x operand sources) and F2 (all control-flow trees within the node budget, three positions) plus hand-written feature programs is pushed through parse, lower, validate, the one-call API and all four backends under every option set within one deviation of the default; any error is a violation. Exhaustive within the stated bounds; nothing sampled.",
    "Generated programs are valid WGSL by construction; the grammar is conservative (no unreachable code, no spec-debatable forms).", "DESIGN.md §3 C08")

SEM_NOTE = "Trusted base: the reference WGSL evaluator (internal/wref) and the independent target interpreter, both written from the language specifications without reference to naga; spec latitude (inf/nan/subnormal, inexact int->float, tie-breaking) is masked or kept out of the input alphabets; approximate float builtins compared with 2e-4 relative tolerance."
def sem(pid, be, interp):
    add(pid, "bounded-exhaustive program x input x configuration enumeration; emitted code executed by an independent %s interpreter and compared with a reference WGSL evaluator" % interp,
        "Every F1 program (each operator/builtin/conversion x every operand shape x 5 operand sources; boundary-value operand tuples laid over N invocations so that every component position sees every tuple) and every F2 control-flow tree within the node budget (3 positions x 16 control inputs) is compiled by the real pipeline under every %s option set within one deviation of the default; the emitted code is executed and every leaf scalar of every writable buffer is compared with the reference evaluator. Exhaustive within the stated bounds." % be,
        SEM_NOTE, "DESIGN.md §3 %s" % pid)
sem("C01", "SPIR-V", "SPIR-V")
sem("C03", "HLSL", "HLSL")
sem("C04", "MSL", "MSL/C++14")
sem("C05", "GLSL", "GLSL")
add("C10", "bounded-exhaustive fault/input enumeration in isolated worker processes (token strings up to length L, every single-token/byte edit and truncation of seeds, scaling ladders, all valid generated programs)",
    "Every token string up to length 4 (thorough: 5) over a 24-token alphabet in three syntactic contexts, every single-token edit at every token of every seed, every prefix and hostile-byte substitution at every offset, parametric ladders up to 64 KiB plus fixed cyclic programs, and all valid generated programs are pushed through tokenize, Compile, parse, lower, validate and all five backends in worker processes under an address-space limit and a CPU-time watchdog; a recovered panic, a Go fatal error or exceeding the CPU cap is a violation.",
    "The quantifier (all byte strings up to 64 KiB) cannot be exhausted; what is exhausted is stated in the evidence. CPU cap: 40 s per input (quick), 120 s (thorough); no wall-clock oracle.", "DESIGN.md §3 C10")

add("C02", "bounded-exhaustive program x configuration enumeration; every emitted SPIR-V binary checked by an independent structural validator (rule set evaluated as invariants on every binary)",
    "Every SPIR-V binary produced for F1, F2 (node budget per tier), the micro-programs and the 172 corpus shaders under every option set within one deviation of the default is validated against 95 structural rules (header, section order, id definition/dominance, type uniqueness, per-opcode operand typing, block shape, structured control flow, entry-point interfaces, Vulkan layout decorations, capabilities/extensions). Per-rule fire counts and unexercised rules are reported.",
    "Trusted base: internal/spvval, written from the SPIR-V/Vulkan specifications with its own binary reader; rules of uncertain basis were left out rather than relaxed.", "DESIGN.md §3 C02")
add("C09", "bounded-exhaustive program enumeration; every lowered module checked by an independent strict IR validator (each rule an invariant)",
    "The module returned by LowerWithSource for every program of F1, F2, the micro-programs and the corpus is checked against 24 rules written from the property statement (handle ranges/backward references, no abstract types, type uniqueness, recorded type equals independently re-inferred type, emit coverage and dominance, terminators, return paths/types, store/call/atomic typing, entry-point and resource bindings, naga's own validator).",
    "Trusted base: internal/irx validator and its independent type inference.", "DESIGN.md §3 C09")

add("C12", "explicit-state BFS over operation histories on real modules (state = canonical module hash) + all ordered pairs on a reused Backend + exhaustive map-iteration-order enumeration under an instrumented build + CHESS-style preemption-bounded schedule exploration under a cooperative scheduler, with a separate free-running -race pass",
    "Four explorations on the real code: (1) BFS over all sequences (depth 2 quick / 3 thorough) of 9 operations on one shared module, invariants evaluated in every state (module hash unchanged, output equals output on a fresh module, returned bytes not aliased); (2) all ordered pairs of a module cover set on one reused spirv.Backend; (3) every range-over-map site in naga (82, instrumented by a build overlay generated from the current tree) iterating native/ascending/descending/rotated with byte-identical output required; (4) all interleavings of 2-3 concurrent compilations at function-entry yield points up to 1 (quick) / 2 (thorough) preemptions with a shared-state fingerprint invariant at every scheduling point, recorded schedules replayed twice; plus the same harness bodies free-running under the race detector.",
    "spirv.Backend is single-owner and never shared. Interleavings are at function-entry granularity under sequential consistency; yield points per thread are capped (reported per scenario). The instrumentation overlay is regenerated from /repo's working tree on every run; /repo is not modified.", "DESIGN.md §3 C12")

add("C13", "explicit-state BFS over pass sequences on real modules (state = canonical module hash, successors on deep clones), invariants evaluated in every reached state",
    "BFS (depth 2 quick / 3 thorough) over 12 transitions (six compaction/reordering passes, inlining with inline-all and inline-none policies, sroa, mem2reg, dce, and the DXIL pipeline prepareModule+runOptPasses) from the lowered modules of every F2 control-flow tree within the node budget (3 positions) and F1 representatives. Each transition is judged against its own input state: no new IR-rule finding class, IR-interpreter result unchanged on all case inputs, and the pass applied twice equals once. 'Start from non-initial states' is inherent: every pass is applied to the outputs of every other pass.",
    "Trusted base: internal/irx (interpreter incl. the documented Alias/Phi semantics, strict validator, canonical hash). Exported ir.* passes are not applied to states containing DXIL-only SSA kinds; on such states only structural rules are judged. Hook: dxil/verif_export.go (build tag verif).", "DESIGN.md §3 C13")

add("C18", "bounded-exhaustive program x configuration enumeration; every returned container parsed by an independent DXBC + LLVM 3.7 bitstream reader (rule set as invariants); determinism by repeated call",
    "dxil.Compile is run on every entry point of F1 representatives, F2 trees, micro-programs and the corpus under shader models 6.0/6.2/6.6 and both hash modes; each container is checked against 79 rules (container arithmetic and part bounds, DXBC digest / bypass sentinel, HASH part, program header vs requested stage and shader model, bitstream block nesting/lengths/abbreviations/alignment, module- and function-level operand soundness with rebuilt value numbering, typing and SSA dominance, dx metadata vs PSV0, signatures). An error return is allowed; a second call must return identical bytes.",
    "Trusted base: internal/dxbc (written from format documentation; cross-checked on the corpus against llvm-bcanalyzer and llvm-dis + opt -verify).", "DESIGN.md §3 C18")

add("C19", "exhaustive enumeration of neutral source edits at every token boundary of every seed (depth 1; depth 2 at same/adjacent boundaries in the thorough tier), each edited program compiled by the real pipeline and compared with the unedited one",
    "For every seed (micro-programs, F1/F2 representatives, corpus files) every trivia insertion of 14 kinds at every token boundary, every template-closer adjacency (`>>`, `>=`, `>>=`) created or split, whitespace removal next to non-merging punctuation, three injective renamings (longer, shorter, reversed lexicographic order) and, for generated seeds, redundant parentheses around every expression node. Oracle: acceptance unchanged; lowered module identical up to names and spans; SPIR-V bytes identical; HLSL/MSL/GLSL text identical (for renamings: identical up to the applied renaming).",
    "Edits are neutral by the WGSL grammar; the site enumeration uses an independent tokenizer (internal/wgen/tokens.go). Entry-point names and swizzle-like names are never renamed.", "DESIGN.md §3 C19")

add("C11", "exhaustive (seed, rule, site) enumeration: each diagnosed rule broken at every syntactic site of every seed, compiled by the real pipeline",
    "For each seed (micro-programs, F1/F2 representatives) every rule of the property is broken at every site where it applies: identifier/type/function/member uses replaced by undeclared names, one argument dropped/added/retyped at every user call, @must_use call and const_assert false inserted at every statement and declaration position, @group/@binding removed at every resource, array sizes 0 and -1, mixed/too-wide swizzles, every mandatory ';' and every delimiter deleted, @workgroup_size removed, /0 and %0 at every const-expression literal. Oracle: error and no output; position inside the source; for semantic rules inside the enclosing module-scope declaration; exact first offending token where the grammar determines it.",
    "Sites are located by an independent tokenizer; exact positions are demanded only where determined by construction (DESIGN.md §3 C11).", "DESIGN.md §3 C11")

add("C07", "bounded-exhaustive enumeration of host-shareable type trees x address spaces x copy variants; static layout comparison (IR, SPIR-V decorations) and dynamic probe execution on all four backends against the reference WGSL layout",
    "Every type tree of the F3 grammar (leaves, arrays n=1..3 and runtime-sized, structs of 1-3 members each plain and with one @align/@size attribute, nested structs/arrays incl. inner structs with attributes) is placed in storage and (where valid) uniform buffers. Static: IR offsets/spans/strides and SPIR-V Offset/ArrayStride/MatrixStride decorations equal the reference layout. Dynamic: a probe reads every leaf and copies the whole value five ways; the emitted SPIR-V/HLSL/MSL/GLSL is executed by independent interpreters that address memory through the emitted code's own declarations, over a source buffer with a distinct sentinel per word, and compared with the reference evaluator.",
    "Reference layout: internal/wgen/layout.go (WGSL spec). f16 and atomic members are outside the enumerated alphabet. Text-backend layouts are observed dynamically (touched bytes) through the interpreters' own std140/std430, C++ and cbuffer calculators.", "DESIGN.md §3 C07")

add("C15", "bounded-exhaustive enumeration of hardened operators x hostile operand tuples, dynamic access forms x index-partition representatives x index types, and uninitialised-variable reads, executed under each backend's protective options in trapping interpreters",
    "Every hardened operator named by the property on every tuple of a hostile operand alphabet; each of 27 dynamic access forms (reads, stores, compound assignment, atomics; storage/uniform/private/workgroup/function/value objects; nested chains; pointer arguments; runtime arrays) with every representative of the index partition {0, n-1, n, n+1, 2^31-1, 2^31, 2^32-1} and both index types; reads of variables without initialiser. The emitted code runs in interpreters that trap on every operation the target language leaves undefined (poisoned locals, out-of-object accesses, division by zero, out-of-range conversions); results must equal the WGSL-defined and policy-defined values.",
    "The index alphabet is a partition by guard outcome, not the full 32-bit range. SPIR-V and GLSL offer no index policy in this tree: the access family is not applied to them.", "DESIGN.md §3 C15")

add("C16", "exhaustive (name, position) enumeration over independent reserved-word lists and adversarial name pairs on an executable seed; emitted text parsed, scope-resolved and executed",
    "A fixed executable seed with one entity of every kind is instantiated with every name from the union of three independently written reserved-word/builtin lists (HLSL, MSL/C++14, GLSL), naga helper and temporary patterns, case/suffix variants and non-ASCII identifiers at each of 15 positions, and with ordered pairs of a 48-name adversarial subset at pairs of positions. For each text backend the output must parse and scope-resolve without new identifier problems (reserved spelling confirmed against a list the author is certain of, duplicates in one scope), the reported entry-point name must exist, and execution must give the same result as with neutral names (every reference still reaches the intended entity).",
    "Names that WGSL itself lets shadow a builtin the seed calls, WGSL builtin function names and texture/sampler type names are excluded (their resolution in the target interpreters is only approximated). Problems already present with neutral names are not attributed to the user name.", "DESIGN.md §3 C16")

add("C17", "bounded-exhaustive enumeration of interface programs x binding maps; an interface model computed by the generator compared with decorations/annotations/reflection read by independent parsers",
    "F5 programs: every multiset of 3 resource kinds x 5 stage combinations (1-4 entry points) x use-subsets per entry point x IO signatures (bare and struct, builtins, locations 0/1/2/15, all interpolation and sampling attributes, invariant) x shared/unshared bindings x direct/helper-routed use. The model (group/binding, storage class, access mode, stage, workgroup size, per-IO decorations, per-entry-point static use through the call graph) is compared in both directions with SPIR-V 1.1/1.4 (decorations, execution models/modes, OpEntryPoint interface lists), HLSL registers/spaces under the default and an explicit map, MSL buffer slots/address spaces/constness under a per-entry-point resource map, GLSL layout(binding), per-entry-point block elimination and the Uniforms reflection, and reflection entry-point names.",
    "The model comes from the generator, not from naga. Not modelled: MSL vertex/fragment argument attributes, GLSL in/out location qualifiers, HLSL samplers (sampler heap indirection), texture-sampler pairing reflection.", "DESIGN.md §3 C17")

add("C06", "bounded-exhaustive enumeration of constant expressions (every operator/builtin/conversion x operand tuples x literal kinds x compile-time contexts), compiled by the real pipeline and executed; three-way comparison with the reference evaluator",
    "Every F1 operator, builtin, conversion and select on every operand tuple of its alphabet, written with suffixed literals, bare abstract literals and named constants, in the value contexts (folded let sub-expression, module const, function const, named operands) for scalar, vector and matrix shapes: the lowered module is executed by the IR interpreter and the SPIR-V by the SPIR-V interpreter and both must equal the reference evaluator's run-time value of the same expression. For scalar specs the non-value contexts are checked through their own observables: const_assert (true accepted / false rejected), switch case selector (case taken), array size (element count in the lowered type), @workgroup_size (LocalSize). Integer division and remainder by zero must be rejected in every context and shape.",
    "Compile-time and run-time evaluation agree by the WGSL rules on the alphabets used (shift counts < 32, non-overflowing left shifts, in-range conversions, bit-field operands with offset+count <= 32). f16 literals are not enumerated.", "DESIGN.md §3 C06")

add("C14", "bounded-exhaustive enumeration of override programs x value maps x resolution routes; resolved code executed and compared with the substituted WGSL program under the reference evaluator",
    "Override programs with a primary override of each scalar type (with/without @id, with/without default) and a derived override for every operator of the type, used in expressions, global initialisers and nested control flow, under every value map (absent; each alphabet value by name or by @id) and seven routes (ProcessOverrides followed by the IR interpreter and by each of the four backends; the MSL and GLSL PipelineConstants options). The result must equal the same program with the override replaced by a const of the supplied value converted to its type, or by its default; a missing value without default must be an error; the caller's module hash must not change.",
    "Supplied values are representable in the override's type; workgroup-size and array-size uses of overrides are not enumerated yet.", "DESIGN.md §3 C14")

NA = {
}
for i in range(1, 20):
    pid = "C%02d" % i
    if pid not in checks and pid not in NA:
        NA[pid] = "check not registered yet in this commit (build in progress, see DESIGN.md §8)"

m = {
 "version": 1,
 "setup_cmd": "cd /verif && export GOFLAGS=-mod=mod GOPROXY=off && mkdir -p bin && go build -tags verif -o bin/vcheck ./cmd/vcheck",
 "hooks": {"guard": "verif", "enable": "go build -tags verif (harness module replaces github.com/gogpu/naga => /repo)",
           "baseline_off_cmd": "cd /repo && GOFLAGS=-mod=mod GOPROXY=off go test -json -vet=off -count=1 -timeout 25m ./...",
           "source_commits": ["9dc1ecc"], "add_only": True},
 "engines": [
  {"name": "vcheck", "path": "cmd/vcheck", "serves_properties": sorted(checks), "kind_free_text": "hand-written bounded-exhaustive explorers running on the real naga code (program/input/configuration/history enumeration), reference WGSL evaluator and independent target interpreters"}
 ],
 "checks": [],
 "notes": "All checks rebuild the harness against /repo's working tree (run.sh). Known genuine defects are listed in known_findings.json.",
 "not_applicable": [{"property_id": k, "reason": v} for k, v in sorted(NA.items())],
}
for pid in sorted(checks):
    c = checks[pid]
    m["checks"].append({
        "property_id": pid,
        "quick_cmd": "./run.sh %s quick" % pid,
        "thorough_cmd": "./run.sh %s thorough" % pid,
        "evidence_file": "/verif/evidence/%s.json" % pid,
        "replay_cmd_template": "./bin/vcheck replay {path}",
        "engine": "vcheck",
        "level_claimed": {"category": "model_checking", "text": c["text"], "design_ref": c["design"]},
        "level_note": c["note"],
        "technique": c["technique"],
    })
json.dump(m, open("MANIFEST.json", "w"), indent=1)
print("checks:", sorted(checks), "NA:", sorted(NA))
