package irx

import (
	"math"
	"math/bits"
)

// Numeric primitives with WGSL semantics. Words are raw 32-bit patterns.

func f32(w uint32) float32   { return math.Float32frombits(w) }
func w32(f float32) uint32   { return math.Float32bits(f) }
func f64of(w uint32) float64 { return float64(math.Float32frombits(w)) }
func wf64(f float64) uint32  { return math.Float32bits(float32(f)) }
func b2w(b bool) uint32 {
	if b {
		return 1
	}
	return 0
}

// ---- integers

func idiv(a, b int32) int32 {
	if b == 0 {
		return a
	}
	if a == math.MinInt32 && b == -1 {
		return a
	}
	return a / b
}

func imod(a, b int32) int32 {
	if b == 0 {
		return 0
	}
	if a == math.MinInt32 && b == -1 {
		return 0
	}
	return a % b
}

func udiv(a, b uint32) uint32 {
	if b == 0 {
		return a
	}
	return a / b
}

func umod(a, b uint32) uint32 {
	if b == 0 {
		return 0
	}
	return a % b
}

func iabs(a int32) int32 {
	if a < 0 {
		return -a // wraps for MinInt32
	}
	return a
}

func firstLeadingBitU(v uint32) uint32 {
	if v == 0 {
		return 0xFFFFFFFF
	}
	return uint32(31 - bits.LeadingZeros32(v))
}

func firstLeadingBitI(v int32) uint32 {
	if v == 0 || v == -1 {
		return 0xFFFFFFFF
	}
	if v < 0 {
		return firstLeadingBitU(^uint32(v))
	}
	return firstLeadingBitU(uint32(v))
}

func firstTrailingBit(v uint32) uint32 {
	if v == 0 {
		return 0xFFFFFFFF
	}
	return uint32(bits.TrailingZeros32(v))
}

func extractBits(v uint32, offset, count uint32, signed bool) uint32 {
	o := min(offset, 32)
	c := min(count, 32-o)
	if c == 0 {
		return 0
	}
	if c == 32 {
		return v
	}
	r := (v >> o) & (1<<c - 1)
	if signed && r&(1<<(c-1)) != 0 {
		r |= ^uint32(0) << c
	}
	return r
}

func insertBits(v, nb uint32, offset, count uint32) uint32 {
	o := min(offset, 32)
	c := min(count, 32-o)
	if c == 0 {
		return v
	}
	var mask uint32
	if c == 32 {
		mask = ^uint32(0)
	} else {
		mask = (1<<c - 1) << o
	}
	return (v &^ mask) | ((nb << o) & mask)
}

// ---- float <-> int conversions (WGSL: truncate, clamp; NaN gives 0 here)

func f2i(w uint32) uint32 {
	f := f64of(w)
	switch {
	case f != f:
		return 0
	case f >= 2147483647:
		return 0x7FFFFFFF
	case f <= -2147483648:
		return 0x80000000
	}
	return uint32(int32(math.Trunc(f)))
}

func f2u(w uint32) uint32 {
	f := f64of(w)
	switch {
	case f != f:
		return 0
	case f >= 4294967295:
		return 0xFFFFFFFF
	case f <= 0:
		return 0
	}
	return uint32(math.Trunc(f))
}

// ---- f16

func f32ToF16Bits(w uint32) uint16 {
	sign := uint16(w>>16) & 0x8000
	exp := int32(w>>23) & 0xFF
	man := w & 0x7FFFFF
	if exp == 0xFF {
		if man != 0 {
			return sign | 0x7E00
		}
		return sign | 0x7C00
	}
	e := exp - 127 + 15
	if e >= 0x1F {
		return sign | 0x7C00
	}
	if e <= 0 {
		if e < -10 {
			return sign
		}
		m := man | 0x800000
		shift := uint32(14 - e)
		half := m >> shift
		rem := m & (1<<shift - 1)
		mid := uint32(1) << (shift - 1)
		if rem > mid || (rem == mid && half&1 == 1) {
			half++
		}
		return sign | uint16(half)
	}
	half := uint32(e)<<10 | man>>13
	rem := man & 0x1FFF
	if rem > 0x1000 || (rem == 0x1000 && half&1 == 1) {
		half++ // may carry into the exponent (and to infinity), which is the correct rounding
	}
	return sign | uint16(half)
}

func f16BitsToF32(h uint16) uint32 {
	sign := uint32(h&0x8000) << 16
	exp := uint32(h>>10) & 0x1F
	man := uint32(h & 0x3FF)
	switch exp {
	case 0:
		if man == 0 {
			return sign
		}
		// subnormal: man * 2^-24
		return sign | w32(float32(man)*float32(5.9604644775390625e-08))
	case 0x1F:
		if man == 0 {
			return sign | 0x7F800000
		}
		return sign | 0x7FC00000 | man<<13
	}
	return sign | (exp+127-15)<<23 | man<<13
}

func quantizeF16(w uint32) uint32 { return f16BitsToF32(f32ToF16Bits(w)) }

// ---- exact float helpers

// fma32 computes a*b+c with a single rounding to float32.
func fma32(a, b, c float32) float32 {
	p := float64(a) * float64(b) // exact: 24+24 significant bits
	cc := float64(c)
	s := p + cc
	if math.IsInf(s, 0) || s != s {
		return float32(s)
	}
	// TwoSum error term, then round-to-odd so that the final rounding to float32 is correct.
	bb := s - p
	e := (p - (s - bb)) + (cc - bb)
	if e != 0 {
		u := math.Float64bits(s)
		if u&1 == 0 {
			if (e > 0) == (s > 0) {
				u++
			} else {
				u--
			}
			s = math.Float64frombits(u)
		}
	}
	return float32(s)
}

func fmin(a, b float32) float32 {
	if b < a {
		return b
	}
	return a
}

func fmax(a, b float32) float32 {
	if a < b {
		return b
	}
	return a
}

func fsign(a float32) float32 {
	switch {
	case a > 0:
		return 1
	case a < 0:
		return -1
	}
	return 0
}

func ffract(a float32) float32 {
	return float32(a - float32(math.Floor(float64(a))))
}

// fmod32 is WGSL's float remainder: a - b*trunc(a/b), every step rounded to f32.
func fmod32(a, b float32) float32 {
	q := float32(a / b)
	t := float32(math.Trunc(float64(q)))
	return float32(a - float32(b*t))
}

// ---- packing

func packSnorm(f float32, scale float64, mask uint32) uint32 {
	v := float64(f)
	if v != v {
		v = 0
	}
	v = math.Min(1, math.Max(-1, v))
	return uint32(int32(math.Floor(0.5+scale*v))) & mask
}

func packUnorm(f float32, scale float64, mask uint32) uint32 {
	v := float64(f)
	if v != v {
		v = 0
	}
	v = math.Min(1, math.Max(0, v))
	return uint32(math.Floor(0.5+scale*v)) & mask
}

func iclamp(v, lo, hi int32) int32 {
	if v < lo {
		return lo
	}
	if v > hi {
		return hi
	}
	return v
}

func uclamp(v, lo, hi uint32) uint32 {
	if v < lo {
		return lo
	}
	if v > hi {
		return hi
	}
	return v
}

// ---- small dense matrices in float64 (column-major, n x n)

func det64(a []float64, n int) float64 {
	switch n {
	case 1:
		return a[0]
	case 2:
		return a[0]*a[3] - a[2]*a[1]
	}
	// Laplace expansion along the first column-major row (row 0).
	d := 0.0
	sub := make([]float64, (n-1)*(n-1))
	for c := 0; c < n; c++ {
		k := 0
		for cc := 0; cc < n; cc++ {
			if cc == c {
				continue
			}
			for r := 1; r < n; r++ {
				sub[k] = a[cc*n+r]
				k++
			}
		}
		t := a[c*n] * det64(sub, n-1)
		if c%2 == 1 {
			t = -t
		}
		d += t
	}
	return d
}

func inverse64(a []float64, n int) []float64 {
	out := make([]float64, n*n)
	d := det64(a, n)
	sub := make([]float64, (n-1)*(n-1))
	for c := 0; c < n; c++ {
		for r := 0; r < n; r++ {
			// cofactor of element (row r, col c)
			k := 0
			for cc := 0; cc < n; cc++ {
				if cc == c {
					continue
				}
				for rr := 0; rr < n; rr++ {
					if rr == r {
						continue
					}
					sub[k] = a[cc*n+rr]
					k++
				}
			}
			cof := det64(sub, n-1)
			if (r+c)%2 == 1 {
				cof = -cof
			}
			// inverse = adjugate / det; adjugate = transpose of cofactor matrix
			out[r*n+c] = cof / d
		}
	}
	return out
}
