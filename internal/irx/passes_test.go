package irx

import (
	"bytes"
	"testing"

	"github.com/gogpu/naga/ir"

	"verif/internal/xrt"
)

// TestExecAcrossPublicPasses is a smoke version of C13: the exported IR passes applied to the
// conformance programs must leave the interpreter's result unchanged and the module valid.
// Disagreements are logged (they are findings about naga for the C13 check, not about irx).
func TestExecAcrossPublicPasses(t *testing.T) {
	passes := []struct {
		name string
		f    func(m *ir.Module) error
	}{
		{"CompactUnused", func(m *ir.Module) error { ir.CompactUnused(m); return nil }},
		{"CompactConstants", func(m *ir.Module) error { ir.CompactConstants(m); return nil }},
		{"CompactExpressions", func(m *ir.Module) error { ir.CompactExpressions(m); return nil }},
		{"CompactTypes", func(m *ir.Module) error { ir.CompactTypes(m); return nil }},
		{"ReorderTypes", func(m *ir.Module) error { ir.ReorderTypes(m); return nil }},
		{"DeduplicateEmits", func(m *ir.Module) error { ir.DeduplicateEmits(m); return nil }},
		{"InlineAll", func(m *ir.Module) error { return ir.InlineUserFunctions(m, nil) }},
	}
	type prog struct {
		name string
		src  string
		in   []byte
	}
	var progs []prog
	for _, c := range confInt {
		in := c.in
		if in == nil {
			in = []int32{0}
		}
		progs = append(progs, prog{"int/" + c.name, confIntPrelude + cs + "fn main() { " + c.src + " }", i32buf(in...)})
	}
	for _, c := range confFloat {
		progs = append(progs, prog{"float/" + c.name, confFloatPrelude + cs + "fn main() { " + c.src + " }", f32buf(c.in...)})
	}
	disagree := 0
	for _, pr := range progs {
		base := lower(t, pr.src)
		ref := xrt.Buffers{bnd(0, 0): make([]byte, 64), bnd(0, 1): pr.in}
		if err := Exec(base, ref, xrt.Opts{}); err != nil {
			t.Fatalf("%s: %v", pr.name, err)
		}
		baseFindings := len(Validate(base, ValidateOpts{}).Findings)
		for _, ps := range passes {
			m := Clone(base)
			var perr error
			func() {
				defer func() {
					if r := recover(); r != nil {
						t.Logf("NAGA: %s after %s: pass panicked: %v", pr.name, ps.name, r)
						perr = errSkip
					}
				}()
				perr = ps.f(m)
			}()
			if perr != nil {
				if perr != errSkip {
					t.Logf("NAGA: %s: %s returned %v", pr.name, ps.name, perr)
				}
				continue
			}
			got := xrt.Buffers{bnd(0, 0): make([]byte, 64), bnd(0, 1): pr.in}
			err := Exec(m, got, xrt.Opts{})
			if _, bad := err.(*xrt.Malformed); bad {
				// strict IR semantics reject the module; retry the way backends read it
				t.Logf("NAGA: %s after %s: strict exec: %v", pr.name, ps.name, err)
				p, cerr := Compile(m)
				if cerr != nil {
					t.Fatal(cerr)
				}
				p.EvalUnemittedAtUse = true
				got = xrt.Buffers{bnd(0, 0): make([]byte, 64), bnd(0, 1): pr.in}
				err = p.Run(got, xrt.Opts{})
			}
			if err != nil {
				disagree++
				t.Logf("NAGA: %s after %s: exec error %v", pr.name, ps.name, err)
				continue
			}
			if !bytes.Equal(got[bnd(0, 0)], ref[bnd(0, 0)]) {
				disagree++
				t.Logf("NAGA: %s after %s: result %v, before %v", pr.name, ps.name, rdI32(got[bnd(0, 0)])[:6], rdI32(ref[bnd(0, 0)])[:6])
			}
			if n := len(Validate(m, ValidateOpts{}).Findings); n > baseFindings {
				t.Logf("NAGA: %s after %s: %d validator findings (before: %d): %v", pr.name, ps.name, n, baseFindings, Validate(m, ValidateOpts{}).Findings[0])
			}
			// idempotence fingerprint is the caller's business; here only check the pass left the base alone
		}
		if Hash(base) != Hash(lower(t, pr.src)) {
			t.Fatalf("%s: base module changed", pr.name)
		}
	}
	t.Logf("%d programs x %d passes, %d disagreements", len(progs), len(passes), disagree)
}

type skipErr struct{}

func (skipErr) Error() string { return "skip" }

var errSkip error = skipErr{}
