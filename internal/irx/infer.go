package irx

import (
	"fmt"
	"strings"

	"github.com/gogpu/naga/ir"
)

// rtype is a resolved expression type: In is always the structural description; H is the arena
// handle when the type is one of Module.Types (-1 for a type that exists only inline).
type rtype struct {
	H  int
	In ir.TypeInner
}

var (
	scBool = ir.ScalarType{Kind: ir.ScalarBool, Width: 1}
	scI32  = ir.ScalarType{Kind: ir.ScalarSint, Width: 4}
	scU32  = ir.ScalarType{Kind: ir.ScalarUint, Width: 4}
	scF32  = ir.ScalarType{Kind: ir.ScalarFloat, Width: 4}
)

func inline(in ir.TypeInner) rtype { return rtype{H: -1, In: in} }

// typer performs the independent type inference for one function (or for the global expression
// arena when fn is nil).
type typer struct {
	m     *ir.Module
	fn    *ir.Function
	exprs []ir.Expression
	types []rtype // inferred, parallel to exprs
	errs  []error // per expression: why inference failed (nil = ok)
	state []uint8 // 0 = not yet, 1 = in progress, 2 = done
	// wgLoad maps a WorkGroupUniformLoadResult expression to the pointer of its statement.
	wgLoad map[ir.ExpressionHandle]ir.ExpressionHandle
}

func newTyper(m *ir.Module, fn *ir.Function) *typer {
	t := &typer{m: m, fn: fn}
	if fn != nil {
		t.exprs = fn.Expressions
	} else {
		t.exprs = m.GlobalExpressions
	}
	n := len(t.exprs)
	t.types = make([]rtype, n)
	t.errs = make([]error, n)
	t.state = make([]uint8, n)
	return t
}

func (t *typer) byHandle(h ir.TypeHandle) (rtype, error) {
	if int(h) >= len(t.m.Types) {
		return rtype{}, fmt.Errorf("type handle %d out of range", h)
	}
	in := t.m.Types[h].Inner
	if in == nil {
		return rtype{}, fmt.Errorf("type %d has nil inner", h)
	}
	return rtype{H: int(h), In: in}, nil
}

// inferAll infers every expression in arena order.
func (t *typer) inferAll() {
	for i := range t.exprs {
		t.get(ir.ExpressionHandle(i))
	}
}

func (t *typer) get(h ir.ExpressionHandle) (rtype, error) {
	if int(h) >= len(t.exprs) {
		return rtype{}, fmt.Errorf("expression handle %d out of range", h)
	}
	switch t.state[h] {
	case 2:
		return t.types[h], t.errs[h]
	case 1:
		return rtype{}, fmt.Errorf("expression %d depends on itself", h)
	}
	t.state[h] = 1
	ty, err := t.infer(h)
	t.types[h], t.errs[h], t.state[h] = ty, err, 2
	return ty, err
}

// operand fetches an operand's type; the error mentions that the failure is inherited.
func (t *typer) operand(h ir.ExpressionHandle) (rtype, error) {
	ty, err := t.get(h)
	if err != nil {
		return ty, &inheritedErr{err}
	}
	return ty, nil
}

// inheritedErr marks inference failures caused by a failing operand (reported once, at the root).
type inheritedErr struct{ err error }

func (e *inheritedErr) Error() string { return "operand: " + e.err.Error() }

func vecOf(n ir.VectorSize, s ir.ScalarType) rtype {
	return inline(ir.VectorType{Size: n, Scalar: s})
}

// shape describes scalar/vector/matrix values uniformly.
type shape struct {
	kind   byte // 's', 'v', 'm', 0 = other
	sc     ir.ScalarType
	n      ir.VectorSize // vector size, or matrix rows
	cols   ir.VectorSize
	atomic bool
}

func shapeOf(in ir.TypeInner) shape {
	switch x := in.(type) {
	case ir.ScalarType:
		return shape{kind: 's', sc: x}
	case ir.VectorType:
		return shape{kind: 'v', sc: x.Scalar, n: x.Size}
	case ir.MatrixType:
		return shape{kind: 'm', sc: x.Scalar, n: x.Rows, cols: x.Columns}
	}
	return shape{}
}

func isInt(s ir.ScalarType) bool   { return s.Kind == ir.ScalarSint || s.Kind == ir.ScalarUint }
func isFloat(s ir.ScalarType) bool { return s.Kind == ir.ScalarFloat }
func isNum(s ir.ScalarType) bool   { return isInt(s) || isFloat(s) }
func isBool(s ir.ScalarType) bool  { return s.Kind == ir.ScalarBool }

func validVecSize(n ir.VectorSize) bool { return n >= 2 && n <= 4 }

func describe(m *ir.Module, r rtype) string {
	s := describeInner(m, r.In, 0)
	if r.H >= 0 {
		return fmt.Sprintf("#%d:%s", r.H, s)
	}
	return s
}

func scalarName(s ir.ScalarType) string {
	k := "?"
	switch s.Kind {
	case ir.ScalarSint:
		k = "i"
	case ir.ScalarUint:
		k = "u"
	case ir.ScalarFloat:
		k = "f"
	case ir.ScalarBool:
		return "bool"
	case ir.ScalarAbstractInt:
		return "abstract-int"
	case ir.ScalarAbstractFloat:
		return "abstract-float"
	}
	return fmt.Sprintf("%s%d", k, int(s.Width)*8)
}

func describeInner(m *ir.Module, in ir.TypeInner, depth int) string {
	if depth > 4 {
		return "..."
	}
	h := func(th ir.TypeHandle) string {
		if int(th) >= len(m.Types) {
			return fmt.Sprintf("#%d!", th)
		}
		if n := m.Types[th].Name; n != "" {
			return n
		}
		return describeInner(m, m.Types[th].Inner, depth+1)
	}
	switch x := in.(type) {
	case nil:
		return "<nil>"
	case ir.ScalarType:
		return scalarName(x)
	case ir.VectorType:
		return fmt.Sprintf("vec%d<%s>", x.Size, scalarName(x.Scalar))
	case ir.MatrixType:
		return fmt.Sprintf("mat%dx%d<%s>", x.Columns, x.Rows, scalarName(x.Scalar))
	case ir.AtomicType:
		return "atomic<" + scalarName(x.Scalar) + ">"
	case ir.ArrayType:
		if x.Size.Constant == nil {
			return fmt.Sprintf("array<%s;stride %d>", h(x.Base), x.Stride)
		}
		return fmt.Sprintf("array<%s,%d;stride %d>", h(x.Base), *x.Size.Constant, x.Stride)
	case ir.StructType:
		var b strings.Builder
		b.WriteString("struct{")
		for i, mem := range x.Members {
			if i > 0 {
				b.WriteString(",")
			}
			b.WriteString(mem.Name + ":" + h(mem.Type))
		}
		b.WriteString("}")
		return b.String()
	case ir.PointerType:
		return fmt.Sprintf("ptr<%d,%s>", x.Space, h(x.Base))
	case ir.ValuePointerType:
		if x.Size != nil {
			return fmt.Sprintf("ptr<%d,vec%d<%s>>", x.Space, *x.Size, scalarName(x.Scalar))
		}
		return fmt.Sprintf("ptr<%d,%s>", x.Space, scalarName(x.Scalar))
	}
	return fmt.Sprintf("%T", in)
}

// ---------------------------------------------------------------------------------------------
// structural equality

func bindingEq(a, b *ir.Binding) bool {
	if a == nil || b == nil {
		return a == b
	}
	switch x := (*a).(type) {
	case ir.BuiltinBinding:
		y, ok := (*b).(ir.BuiltinBinding)
		return ok && x == y
	case ir.LocationBinding:
		y, ok := (*b).(ir.LocationBinding)
		if !ok || x.Location != y.Location {
			return false
		}
		if (x.Interpolation == nil) != (y.Interpolation == nil) || (x.Interpolation != nil && *x.Interpolation != *y.Interpolation) {
			return false
		}
		if (x.BlendSrc == nil) != (y.BlendSrc == nil) || (x.BlendSrc != nil && *x.BlendSrc != *y.BlendSrc) {
			return false
		}
		return true
	case nil:
		return *b == nil
	}
	return false
}

func u32pEq(a, b *uint32) bool {
	if a == nil || b == nil {
		return a == b
	}
	return *a == *b
}

// handleTypeEq: are the arena types ha and hb the same type (identity = name + structure)?
func handleTypeEq(m *ir.Module, ha, hb ir.TypeHandle, depth int) bool {
	if ha == hb {
		return true
	}
	if int(ha) >= len(m.Types) || int(hb) >= len(m.Types) || depth > 32 {
		return false
	}
	a, b := m.Types[ha], m.Types[hb]
	if a.Name != b.Name {
		return false
	}
	return innerEq(m, a.Inner, b.Inner, depth+1)
}

// innerEq compares two type descriptions structurally. A ValuePointerType equals a PointerType
// whose base is the corresponding anonymous scalar/vector.
func innerEq(m *ir.Module, a, b ir.TypeInner, depth int) bool {
	switch x := a.(type) {
	case ir.ScalarType:
		y, ok := b.(ir.ScalarType)
		return ok && x == y
	case ir.VectorType:
		y, ok := b.(ir.VectorType)
		return ok && x == y
	case ir.MatrixType:
		y, ok := b.(ir.MatrixType)
		return ok && x == y
	case ir.AtomicType:
		y, ok := b.(ir.AtomicType)
		return ok && x == y
	case ir.ArrayType:
		y, ok := b.(ir.ArrayType)
		return ok && x.Stride == y.Stride && u32pEq(x.Size.Constant, y.Size.Constant) && handleTypeEq(m, x.Base, y.Base, depth)
	case ir.StructType:
		y, ok := b.(ir.StructType)
		if !ok || x.Span != y.Span || len(x.Members) != len(y.Members) {
			return false
		}
		for i := range x.Members {
			p, q := x.Members[i], y.Members[i]
			if p.Name != q.Name || p.Offset != q.Offset || !bindingEq(p.Binding, q.Binding) || !handleTypeEq(m, p.Type, q.Type, depth) {
				return false
			}
		}
		return true
	case ir.PointerType:
		switch y := b.(type) {
		case ir.PointerType:
			return x.Space == y.Space && handleTypeEq(m, x.Base, y.Base, depth)
		case ir.ValuePointerType:
			return ptrVsValuePtr(m, x, y)
		}
		return false
	case ir.ValuePointerType:
		switch y := b.(type) {
		case ir.ValuePointerType:
			if x.Space != y.Space || x.Scalar != y.Scalar || (x.Size == nil) != (y.Size == nil) {
				return false
			}
			return x.Size == nil || *x.Size == *y.Size
		case ir.PointerType:
			return ptrVsValuePtr(m, y, x)
		}
		return false
	case ir.SamplerType:
		y, ok := b.(ir.SamplerType)
		return ok && x == y
	case ir.ImageType:
		y, ok := b.(ir.ImageType)
		return ok && x == y
	case ir.AccelerationStructureType:
		_, ok := b.(ir.AccelerationStructureType)
		return ok
	case ir.RayQueryType:
		_, ok := b.(ir.RayQueryType)
		return ok
	case ir.BindingArrayType:
		y, ok := b.(ir.BindingArrayType)
		return ok && u32pEq(x.Size, y.Size) && handleTypeEq(m, x.Base, y.Base, depth)
	}
	return false
}

func ptrVsValuePtr(m *ir.Module, p ir.PointerType, v ir.ValuePointerType) bool {
	if p.Space != v.Space || int(p.Base) >= len(m.Types) {
		return false
	}
	switch b := m.Types[p.Base].Inner.(type) {
	case ir.ScalarType:
		return v.Size == nil && b == v.Scalar
	case ir.VectorType:
		return v.Size != nil && *v.Size == b.Size && b.Scalar == v.Scalar
	}
	return false
}

// sameType compares two resolved types. Names take part only when both sides are arena types.
func sameType(m *ir.Module, a, b rtype) bool {
	if a.H >= 0 && b.H >= 0 {
		return handleTypeEq(m, ir.TypeHandle(a.H), ir.TypeHandle(b.H), 0)
	}
	return innerEq(m, a.In, b.In, 0)
}

// resolution converts a recorded ir.TypeResolution into an rtype.
func (t *typer) resolution(r ir.TypeResolution) (rtype, error) {
	if r.Handle != nil {
		return t.byHandle(*r.Handle)
	}
	if r.Value == nil {
		return rtype{}, fmt.Errorf("empty type resolution")
	}
	return inline(r.Value), nil
}

// ---------------------------------------------------------------------------------------------
// inference proper

func (t *typer) infer(h ir.ExpressionHandle) (rtype, error) {
	m := t.m
	switch k := t.exprs[h].Kind.(type) {
	case nil:
		return rtype{}, fmt.Errorf("nil expression kind")
	case ir.Literal:
		switch k.Value.(type) {
		case ir.LiteralF64:
			return inline(ir.ScalarType{Kind: ir.ScalarFloat, Width: 8}), nil
		case ir.LiteralF32:
			return inline(scF32), nil
		case ir.LiteralF16:
			return inline(ir.ScalarType{Kind: ir.ScalarFloat, Width: 2}), nil
		case ir.LiteralU32:
			return inline(scU32), nil
		case ir.LiteralI32:
			return inline(scI32), nil
		case ir.LiteralU64:
			return inline(ir.ScalarType{Kind: ir.ScalarUint, Width: 8}), nil
		case ir.LiteralI64:
			return inline(ir.ScalarType{Kind: ir.ScalarSint, Width: 8}), nil
		case ir.LiteralBool:
			return inline(scBool), nil
		case ir.LiteralAbstractInt:
			return inline(ir.ScalarType{Kind: ir.ScalarAbstractInt, Width: 8}), nil
		case ir.LiteralAbstractFloat:
			return inline(ir.ScalarType{Kind: ir.ScalarAbstractFloat, Width: 8}), nil
		}
		return rtype{}, fmt.Errorf("unknown literal %T", k.Value)
	case ir.ExprConstant:
		if int(k.Constant) >= len(m.Constants) {
			return rtype{}, fmt.Errorf("constant %d out of range", k.Constant)
		}
		return t.byHandle(m.Constants[k.Constant].Type)
	case ir.ExprOverride:
		if int(k.Override) >= len(m.Overrides) {
			return rtype{}, fmt.Errorf("override %d out of range", k.Override)
		}
		return t.byHandle(m.Overrides[k.Override].Ty)
	case ir.ExprZeroValue:
		return t.byHandle(k.Type)
	case ir.ExprCompose:
		return t.inferCompose(k)
	case ir.ExprAccess:
		idx, err := t.operand(k.Index)
		if err != nil {
			return rtype{}, err
		}
		if s, ok := idx.In.(ir.ScalarType); !ok || !isInt(s) {
			return rtype{}, fmt.Errorf("access index has type %s, want i32/u32", describe(m, idx))
		}
		base, err := t.operand(k.Base)
		if err != nil {
			return rtype{}, err
		}
		return t.indexInto(base, -1)
	case ir.ExprAccessIndex:
		base, err := t.operand(k.Base)
		if err != nil {
			return rtype{}, err
		}
		return t.indexInto(base, int64(k.Index))
	case ir.ExprSplat:
		v, err := t.operand(k.Value)
		if err != nil {
			return rtype{}, err
		}
		s, ok := v.In.(ir.ScalarType)
		if !ok {
			return rtype{}, fmt.Errorf("splat of non-scalar %s", describe(m, v))
		}
		if !validVecSize(k.Size) {
			return rtype{}, fmt.Errorf("splat size %d", k.Size)
		}
		return vecOf(k.Size, s), nil
	case ir.ExprSwizzle:
		v, err := t.operand(k.Vector)
		if err != nil {
			return rtype{}, err
		}
		vt, ok := v.In.(ir.VectorType)
		if !ok {
			return rtype{}, fmt.Errorf("swizzle of non-vector %s", describe(m, v))
		}
		if !validVecSize(k.Size) {
			return rtype{}, fmt.Errorf("swizzle size %d", k.Size)
		}
		for i := 0; i < int(k.Size); i++ {
			if uint8(k.Pattern[i]) >= uint8(vt.Size) {
				return rtype{}, fmt.Errorf("swizzle component %d out of range for %s", k.Pattern[i], describe(m, v))
			}
		}
		return vecOf(k.Size, vt.Scalar), nil
	case ir.ExprFunctionArgument:
		if t.fn == nil || int(k.Index) >= len(t.fn.Arguments) {
			return rtype{}, fmt.Errorf("function argument %d out of range", k.Index)
		}
		return t.byHandle(t.fn.Arguments[k.Index].Type)
	case ir.ExprGlobalVariable:
		if int(k.Variable) >= len(m.GlobalVariables) {
			return rtype{}, fmt.Errorf("global variable %d out of range", k.Variable)
		}
		gv := &m.GlobalVariables[k.Variable]
		if _, err := t.byHandle(gv.Type); err != nil {
			return rtype{}, err
		}
		if gv.Space == ir.SpaceHandle {
			return t.byHandle(gv.Type)
		}
		return inline(ir.PointerType{Base: gv.Type, Space: gv.Space}), nil
	case ir.ExprLocalVariable:
		if t.fn == nil || int(k.Variable) >= len(t.fn.LocalVars) {
			return rtype{}, fmt.Errorf("local variable %d out of range", k.Variable)
		}
		lt := t.fn.LocalVars[k.Variable].Type
		if _, err := t.byHandle(lt); err != nil {
			return rtype{}, err
		}
		return inline(ir.PointerType{Base: lt, Space: ir.SpaceFunction}), nil
	case ir.ExprLoad:
		p, err := t.operand(k.Pointer)
		if err != nil {
			return rtype{}, err
		}
		return t.pointee(p, true)
	case ir.ExprAlias:
		return t.operand(k.Source)
	case ir.ExprPhi:
		if len(k.Incoming) == 0 {
			return rtype{}, fmt.Errorf("phi without incoming values")
		}
		first, err := t.operand(k.Incoming[0].Value)
		if err != nil {
			return rtype{}, err
		}
		for _, in := range k.Incoming[1:] {
			o, err := t.operand(in.Value)
			if err != nil {
				return rtype{}, err
			}
			if !sameType(m, first, o) {
				return rtype{}, fmt.Errorf("phi incoming types differ: %s vs %s", describe(m, first), describe(m, o))
			}
		}
		return first, nil
	case ir.ExprUnary:
		v, err := t.operand(k.Expr)
		if err != nil {
			return rtype{}, err
		}
		sh := shapeOf(v.In)
		ok := false
		switch k.Op {
		case ir.UnaryNegate:
			ok = sh.kind != 0 && (sh.sc.Kind == ir.ScalarSint || sh.sc.Kind == ir.ScalarFloat)
		case ir.UnaryLogicalNot:
			ok = (sh.kind == 's' || sh.kind == 'v') && isBool(sh.sc)
		case ir.UnaryBitwiseNot:
			ok = (sh.kind == 's' || sh.kind == 'v') && isInt(sh.sc)
		}
		if !ok {
			return rtype{}, fmt.Errorf("unary op %d on %s", k.Op, describe(m, v))
		}
		return v, nil
	case ir.ExprBinary:
		return t.inferBinary(k)
	case ir.ExprSelect:
		c, err := t.operand(k.Condition)
		if err != nil {
			return rtype{}, err
		}
		a, err := t.operand(k.Accept)
		if err != nil {
			return rtype{}, err
		}
		r, err := t.operand(k.Reject)
		if err != nil {
			return rtype{}, err
		}
		if !sameType(m, a, r) {
			return rtype{}, fmt.Errorf("select arms differ: %s vs %s", describe(m, a), describe(m, r))
		}
		cs, as := shapeOf(c.In), shapeOf(a.In)
		switch {
		case cs.kind == 's' && isBool(cs.sc):
		case cs.kind == 'v' && isBool(cs.sc) && as.kind == 'v' && as.n == cs.n:
		default:
			return rtype{}, fmt.Errorf("select condition %s for arms %s", describe(m, c), describe(m, a))
		}
		return a, nil
	case ir.ExprDerivative:
		v, err := t.operand(k.Expr)
		if err != nil {
			return rtype{}, err
		}
		sh := shapeOf(v.In)
		if (sh.kind != 's' && sh.kind != 'v') || !isFloat(sh.sc) {
			return rtype{}, fmt.Errorf("derivative of %s", describe(m, v))
		}
		return v, nil
	case ir.ExprRelational:
		v, err := t.operand(k.Argument)
		if err != nil {
			return rtype{}, err
		}
		sh := shapeOf(v.In)
		switch k.Fun {
		case ir.RelationalAll, ir.RelationalAny:
			if (sh.kind == 's' || sh.kind == 'v') && isBool(sh.sc) {
				return inline(scBool), nil
			}
		case ir.RelationalIsNan, ir.RelationalIsInf:
			if sh.kind == 's' && isFloat(sh.sc) {
				return inline(scBool), nil
			}
			if sh.kind == 'v' && isFloat(sh.sc) {
				return vecOf(sh.n, scBool), nil
			}
		}
		return rtype{}, fmt.Errorf("relational %d on %s", k.Fun, describe(m, v))
	case ir.ExprMath:
		return t.inferMath(k)
	case ir.ExprAs:
		v, err := t.operand(k.Expr)
		if err != nil {
			return rtype{}, err
		}
		sh := shapeOf(v.In)
		if sh.kind == 0 {
			return rtype{}, fmt.Errorf("cast of %s", describe(m, v))
		}
		var dst ir.ScalarType
		if k.Convert != nil {
			dst = ir.ScalarType{Kind: k.Kind, Width: *k.Convert}
			if sh.kind == 'm' && !(isFloat(sh.sc) && isFloat(dst)) {
				return rtype{}, fmt.Errorf("matrix conversion to %s", scalarName(dst))
			}
		} else {
			dst = ir.ScalarType{Kind: k.Kind, Width: sh.sc.Width}
			if sh.kind == 'm' || isBool(sh.sc) != (k.Kind == ir.ScalarBool) {
				return rtype{}, fmt.Errorf("bitcast of %s to kind %d", describe(m, v), k.Kind)
			}
		}
		if dst.Kind == ir.ScalarBool && dst.Width != 1 {
			return rtype{}, fmt.Errorf("bool of width %d", dst.Width)
		}
		switch sh.kind {
		case 's':
			return inline(dst), nil
		case 'v':
			return vecOf(sh.n, dst), nil
		default:
			return inline(ir.MatrixType{Columns: sh.cols, Rows: sh.n, Scalar: dst}), nil
		}
	case ir.ExprCallResult:
		if int(k.Function) >= len(m.Functions) {
			return rtype{}, fmt.Errorf("function %d out of range", k.Function)
		}
		r := m.Functions[k.Function].Result
		if r == nil {
			return rtype{}, fmt.Errorf("call result of function %d which has no result", k.Function)
		}
		return t.byHandle(r.Type)
	case ir.ExprArrayLength:
		p, err := t.operand(k.Array)
		if err != nil {
			return rtype{}, err
		}
		pt, ok := p.In.(ir.PointerType)
		if ok && int(pt.Base) < len(m.Types) {
			if a, ok := m.Types[pt.Base].Inner.(ir.ArrayType); ok && a.Size.Constant == nil {
				return inline(scU32), nil
			}
		}
		return rtype{}, fmt.Errorf("arrayLength of %s", describe(m, p))
	case ir.ExprAtomicResult:
		return t.byHandle(k.Ty)
	case ir.ExprWorkGroupUniformLoadResult:
		if t.wgLoad == nil && t.fn != nil {
			t.wgLoad = map[ir.ExpressionHandle]ir.ExpressionHandle{}
			walkBlocks(t.fn.Body, func(s ir.Statement) {
				if w, ok := s.Kind.(ir.StmtWorkGroupUniformLoad); ok {
					t.wgLoad[w.Result] = w.Pointer
				}
			})
		}
		p, ok := t.wgLoad[h]
		if !ok {
			return rtype{}, fmt.Errorf("workgroupUniformLoad result without statement")
		}
		pt, err := t.operand(p)
		if err != nil {
			return rtype{}, err
		}
		return t.pointee(pt, true)
	case ir.ExprImageSample:
		img, err := t.imageOf(k.Image)
		if err != nil {
			return rtype{}, err
		}
		if k.Gather != nil {
			sc := scF32
			if img.Class == ir.ImageClassSampled {
				sc = ir.ScalarType{Kind: img.SampledKind, Width: 4}
			}
			return vecOf(4, sc), nil
		}
		if img.Class == ir.ImageClassDepth {
			return inline(scF32), nil
		}
		if img.Class == ir.ImageClassSampled {
			return vecOf(4, ir.ScalarType{Kind: img.SampledKind, Width: 4}), nil
		}
		return vecOf(4, scF32), nil
	case ir.ExprImageLoad:
		img, err := t.imageOf(k.Image)
		if err != nil {
			return rtype{}, err
		}
		switch img.Class {
		case ir.ImageClassDepth:
			return inline(scF32), nil
		case ir.ImageClassSampled:
			return vecOf(4, ir.ScalarType{Kind: img.SampledKind, Width: 4}), nil
		case ir.ImageClassStorage:
			return vecOf(4, img.StorageFormat.Scalar()), nil
		}
		return vecOf(4, scF32), nil
	case ir.ExprImageQuery:
		img, err := t.imageOf(k.Image)
		if err != nil {
			return rtype{}, err
		}
		if _, ok := k.Query.(ir.ImageQuerySize); ok {
			switch img.Dim {
			case ir.Dim1D:
				return inline(scU32), nil
			case ir.Dim3D:
				return vecOf(3, scU32), nil
			}
			return vecOf(2, scU32), nil
		}
		return inline(scU32), nil
	case ir.ExprRayQueryProceedResult:
		return inline(scBool), nil
	case ir.ExprRayQueryGetIntersection:
		if m.SpecialTypes.RayIntersection != nil {
			return t.byHandle(*m.SpecialTypes.RayIntersection)
		}
		for i, ty := range m.Types {
			if ty.Name == "RayIntersection" {
				return t.byHandle(ir.TypeHandle(i))
			}
		}
		return rtype{}, fmt.Errorf("no RayIntersection type")
	case ir.ExprSubgroupBallotResult:
		return vecOf(4, scU32), nil
	case ir.ExprSubgroupOperationResult:
		return t.byHandle(k.Type)
	}
	return rtype{}, fmt.Errorf("unknown expression kind %T", t.exprs[h].Kind)
}

func (t *typer) imageOf(h ir.ExpressionHandle) (ir.ImageType, error) {
	v, err := t.operand(h)
	if err != nil {
		return ir.ImageType{}, err
	}
	img, ok := v.In.(ir.ImageType)
	if !ok {
		return ir.ImageType{}, fmt.Errorf("image operand has type %s", describe(t.m, v))
	}
	return img, nil
}

// pointee returns the type a pointer refers to; with load=true an atomic yields its scalar.
func (t *typer) pointee(p rtype, load bool) (rtype, error) {
	switch x := p.In.(type) {
	case ir.PointerType:
		b, err := t.byHandle(x.Base)
		if err != nil {
			return rtype{}, err
		}
		if at, ok := b.In.(ir.AtomicType); ok && load {
			return inline(at.Scalar), nil
		}
		return b, nil
	case ir.ValuePointerType:
		if x.Size != nil {
			return vecOf(*x.Size, x.Scalar), nil
		}
		return inline(x.Scalar), nil
	}
	return rtype{}, fmt.Errorf("%s is not a pointer", describe(t.m, p))
}

// indexInto types base[idx]; idx < 0 means a dynamic index.
func (t *typer) indexInto(base rtype, idx int64) (rtype, error) {
	m := t.m
	oob := func(n int64) error {
		if idx >= 0 && idx >= n {
			return fmt.Errorf("constant index %d out of range for %s", idx, describe(m, base))
		}
		return nil
	}
	switch x := base.In.(type) {
	case ir.VectorType:
		if err := oob(int64(x.Size)); err != nil {
			return rtype{}, err
		}
		return inline(x.Scalar), nil
	case ir.MatrixType:
		if err := oob(int64(x.Columns)); err != nil {
			return rtype{}, err
		}
		return vecOf(x.Rows, x.Scalar), nil
	case ir.ArrayType:
		if x.Size.Constant == nil {
			return rtype{}, fmt.Errorf("indexing a runtime-sized array by value")
		}
		if err := oob(int64(*x.Size.Constant)); err != nil {
			return rtype{}, err
		}
		return t.byHandle(x.Base)
	case ir.StructType:
		if idx < 0 {
			return rtype{}, fmt.Errorf("dynamic index into struct")
		}
		if err := oob(int64(len(x.Members))); err != nil {
			return rtype{}, err
		}
		return t.byHandle(x.Members[idx].Type)
	case ir.BindingArrayType:
		if x.Size != nil {
			if err := oob(int64(*x.Size)); err != nil {
				return rtype{}, err
			}
		}
		return t.byHandle(x.Base)
	case ir.ValuePointerType:
		if x.Size == nil {
			return rtype{}, fmt.Errorf("indexing pointer to scalar")
		}
		if err := oob(int64(*x.Size)); err != nil {
			return rtype{}, err
		}
		return inline(ir.ValuePointerType{Scalar: x.Scalar, Space: x.Space}), nil
	case ir.PointerType:
		b, err := t.byHandle(x.Base)
		if err != nil {
			return rtype{}, err
		}
		switch y := b.In.(type) {
		case ir.VectorType:
			if err := oob(int64(y.Size)); err != nil {
				return rtype{}, err
			}
			return inline(ir.ValuePointerType{Scalar: y.Scalar, Space: x.Space}), nil
		case ir.MatrixType:
			if err := oob(int64(y.Columns)); err != nil {
				return rtype{}, err
			}
			rows := y.Rows
			return inline(ir.ValuePointerType{Size: &rows, Scalar: y.Scalar, Space: x.Space}), nil
		case ir.ArrayType:
			if y.Size.Constant != nil {
				if err := oob(int64(*y.Size.Constant)); err != nil {
					return rtype{}, err
				}
			}
			return inline(ir.PointerType{Base: y.Base, Space: x.Space}), nil
		case ir.StructType:
			if idx < 0 {
				return rtype{}, fmt.Errorf("dynamic index into struct")
			}
			if err := oob(int64(len(y.Members))); err != nil {
				return rtype{}, err
			}
			return inline(ir.PointerType{Base: y.Members[idx].Type, Space: x.Space}), nil
		case ir.BindingArrayType:
			return inline(ir.PointerType{Base: y.Base, Space: x.Space}), nil
		}
		return rtype{}, fmt.Errorf("indexing through pointer to %s", describe(m, b))
	}
	return rtype{}, fmt.Errorf("indexing %s", describe(m, base))
}

func (t *typer) inferCompose(k ir.ExprCompose) (rtype, error) {
	m := t.m
	ty, err := t.byHandle(k.Type)
	if err != nil {
		return rtype{}, err
	}
	comps := make([]rtype, len(k.Components))
	for i, c := range k.Components {
		comps[i], err = t.operand(c)
		if err != nil {
			return rtype{}, err
		}
	}
	bad := func(why string) (rtype, error) {
		var ds []string
		for _, c := range comps {
			ds = append(ds, describe(m, c))
		}
		return rtype{}, fmt.Errorf("compose %s from (%s): %s", describe(m, ty), strings.Join(ds, ", "), why)
	}
	switch x := ty.In.(type) {
	case ir.VectorType:
		n := 0
		for _, c := range comps {
			sh := shapeOf(c.In)
			if (sh.kind != 's' && sh.kind != 'v') || sh.sc != x.Scalar {
				return bad("component scalar type")
			}
			if sh.kind == 's' {
				n++
			} else {
				n += int(sh.n)
			}
		}
		if n != int(x.Size) {
			return bad("component count")
		}
	case ir.MatrixType:
		n := 0
		for _, c := range comps {
			sh := shapeOf(c.In)
			switch {
			case sh.kind == 'v' && sh.n == x.Rows && sh.sc == x.Scalar:
				n += int(x.Rows)
			case sh.kind == 's' && sh.sc == x.Scalar:
				n++
			default:
				return bad("column type")
			}
		}
		if n != int(x.Rows)*int(x.Columns) {
			return bad("component count")
		}
	case ir.ArrayType:
		if x.Size.Constant == nil || int(*x.Size.Constant) != len(comps) {
			return bad("element count")
		}
		el, err := t.byHandle(x.Base)
		if err != nil {
			return rtype{}, err
		}
		for _, c := range comps {
			if !sameType(m, el, c) {
				return bad("element type")
			}
		}
	case ir.StructType:
		if len(x.Members) != len(comps) {
			return bad("member count")
		}
		for i, c := range comps {
			mt, err := t.byHandle(x.Members[i].Type)
			if err != nil {
				return rtype{}, err
			}
			if !sameType(m, mt, c) {
				return bad(fmt.Sprintf("member %d type", i))
			}
		}
	default:
		return bad("type is not constructible")
	}
	return ty, nil
}

func (t *typer) inferBinary(k ir.ExprBinary) (rtype, error) {
	m := t.m
	l, err := t.operand(k.Left)
	if err != nil {
		return rtype{}, err
	}
	r, err := t.operand(k.Right)
	if err != nil {
		return rtype{}, err
	}
	ls, rs := shapeOf(l.In), shapeOf(r.In)
	bad := func() (rtype, error) {
		return rtype{}, fmt.Errorf("binary op %d on %s and %s", k.Op, describe(m, l), describe(m, r))
	}
	if ls.kind == 0 || rs.kind == 0 {
		return bad()
	}
	sameShape := ls.kind == rs.kind && ls.n == rs.n && ls.cols == rs.cols
	switch k.Op {
	case ir.BinaryAdd, ir.BinarySubtract, ir.BinaryDivide, ir.BinaryModulo:
		if ls.sc != rs.sc || !isNum(ls.sc) {
			return bad()
		}
		if sameShape {
			if ls.kind == 'm' && (k.Op == ir.BinaryDivide || k.Op == ir.BinaryModulo) {
				return bad()
			}
			return l, nil
		}
		if ls.kind == 's' && rs.kind == 'v' {
			return r, nil
		}
		if ls.kind == 'v' && rs.kind == 's' {
			return l, nil
		}
		return bad()
	case ir.BinaryMultiply:
		if ls.sc != rs.sc || !isNum(ls.sc) {
			return bad()
		}
		switch {
		case sameShape && ls.kind != 'm':
			return l, nil
		case ls.kind == 's':
			return r, nil
		case rs.kind == 's':
			return l, nil
		case ls.kind == 'm' && rs.kind == 'v' && ls.cols == rs.n:
			return vecOf(ls.n, ls.sc), nil
		case ls.kind == 'v' && rs.kind == 'm' && ls.n == rs.n:
			return vecOf(rs.cols, ls.sc), nil
		case ls.kind == 'm' && rs.kind == 'm' && ls.cols == rs.n:
			return inline(ir.MatrixType{Columns: rs.cols, Rows: ls.n, Scalar: ls.sc}), nil
		}
		return bad()
	case ir.BinaryEqual, ir.BinaryNotEqual, ir.BinaryLess, ir.BinaryLessEqual, ir.BinaryGreater, ir.BinaryGreaterEqual:
		if ls.sc != rs.sc || !sameShape || ls.kind == 'm' {
			return bad()
		}
		if isBool(ls.sc) && k.Op != ir.BinaryEqual && k.Op != ir.BinaryNotEqual {
			return bad()
		}
		if ls.kind == 'v' {
			return vecOf(ls.n, scBool), nil
		}
		return inline(scBool), nil
	case ir.BinaryAnd, ir.BinaryExclusiveOr, ir.BinaryInclusiveOr:
		if ls.sc != rs.sc || ls.kind == 'm' || rs.kind == 'm' || !(isInt(ls.sc) || isBool(ls.sc)) {
			return bad()
		}
		if sameShape {
			return l, nil
		}
		if ls.kind == 's' {
			return r, nil
		}
		if rs.kind == 's' {
			return l, nil
		}
		return bad()
	case ir.BinaryLogicalAnd, ir.BinaryLogicalOr:
		if ls.kind != 's' || rs.kind != 's' || !isBool(ls.sc) || !isBool(rs.sc) {
			return bad()
		}
		return l, nil
	case ir.BinaryShiftLeft, ir.BinaryShiftRight:
		if !isInt(ls.sc) || rs.sc.Kind != ir.ScalarUint || ls.kind == 'm' || rs.kind == 'm' {
			return bad()
		}
		if sameShape || rs.kind == 's' {
			return l, nil
		}
		return bad()
	}
	return bad()
}

type mathSig struct {
	nargs int
	rule  func(t *typer, a []rtype, s []shape) (rtype, bool)
}

func allSame(t *typer, a []rtype) bool {
	for i := 1; i < len(a); i++ {
		if !sameType(t.m, a[0], a[i]) {
			return false
		}
	}
	return true
}

func svOf(s shape, pred func(ir.ScalarType) bool) bool {
	return (s.kind == 's' || s.kind == 'v') && pred(s.sc)
}

func isF32or16(s ir.ScalarType) bool { return isFloat(s) }

func sameOf(pred func(ir.ScalarType) bool) func(*typer, []rtype, []shape) (rtype, bool) {
	return func(t *typer, a []rtype, s []shape) (rtype, bool) {
		return a[0], svOf(s[0], pred) && allSame(t, a)
	}
}

func isSignedOrFloat(s ir.ScalarType) bool {
	return s.Kind == ir.ScalarSint || s.Kind == ir.ScalarFloat
}

func packRule(n ir.VectorSize, sc ir.ScalarType) func(*typer, []rtype, []shape) (rtype, bool) {
	return func(t *typer, a []rtype, s []shape) (rtype, bool) {
		return inline(scU32), s[0].kind == 'v' && s[0].n == n && s[0].sc == sc
	}
}

func unpackRule(n ir.VectorSize, sc ir.ScalarType) func(*typer, []rtype, []shape) (rtype, bool) {
	return func(t *typer, a []rtype, s []shape) (rtype, bool) {
		return vecOf(n, sc), s[0].kind == 's' && s[0].sc == scU32
	}
}

var mathSigs map[ir.MathFunction]mathSig

func init() {
	fl1 := mathSig{1, sameOf(isF32or16)}
	fl2 := mathSig{2, sameOf(isF32or16)}
	fl3 := mathSig{3, sameOf(isF32or16)}
	int1 := mathSig{1, sameOf(isInt)}
	mathSigs = map[ir.MathFunction]mathSig{
		ir.MathAbs:      {1, sameOf(isNum)},
		ir.MathMin:      {2, sameOf(isNum)},
		ir.MathMax:      {2, sameOf(isNum)},
		ir.MathClamp:    {3, sameOf(isNum)},
		ir.MathSaturate: fl1,
		ir.MathCos:      fl1, ir.MathCosh: fl1, ir.MathSin: fl1, ir.MathSinh: fl1, ir.MathTan: fl1, ir.MathTanh: fl1,
		ir.MathAcos: fl1, ir.MathAsin: fl1, ir.MathAtan: fl1, ir.MathAtan2: fl2,
		ir.MathAsinh: fl1, ir.MathAcosh: fl1, ir.MathAtanh: fl1,
		ir.MathRadians: fl1, ir.MathDegrees: fl1,
		ir.MathCeil: fl1, ir.MathFloor: fl1, ir.MathRound: fl1, ir.MathFract: fl1, ir.MathTrunc: fl1,
		ir.MathModf: {1, func(t *typer, a []rtype, s []shape) (rtype, bool) {
			if !svOf(s[0], isFloat) {
				return rtype{}, false
			}
			return t.findResultStruct("__modf_result_", []string{"fract", "whole"}, []rtype{a[0], a[0]})
		}},
		ir.MathFrexp: {1, func(t *typer, a []rtype, s []shape) (rtype, bool) {
			if !svOf(s[0], isFloat) {
				return rtype{}, false
			}
			e := inline(scI32)
			if s[0].kind == 'v' {
				e = vecOf(s[0].n, scI32)
			}
			return t.findResultStruct("__frexp_result_", []string{"fract", "exp"}, []rtype{a[0], e})
		}},
		ir.MathLdexp: {2, func(t *typer, a []rtype, s []shape) (rtype, bool) {
			return a[0], svOf(s[0], isFloat) && s[1].kind == s[0].kind && s[1].n == s[0].n && s[1].sc == scI32
		}},
		ir.MathExp: fl1, ir.MathExp2: fl1, ir.MathLog: fl1, ir.MathLog2: fl1, ir.MathPow: fl2,
		ir.MathDot: {2, func(t *typer, a []rtype, s []shape) (rtype, bool) {
			return inline(s[0].sc), s[0].kind == 'v' && isNum(s[0].sc) && allSame(t, a)
		}},
		ir.MathDot4I8Packed: {2, func(t *typer, a []rtype, s []shape) (rtype, bool) {
			return inline(scI32), s[0].kind == 's' && s[0].sc == scU32 && allSame(t, a)
		}},
		ir.MathDot4U8Packed: {2, func(t *typer, a []rtype, s []shape) (rtype, bool) {
			return inline(scU32), s[0].kind == 's' && s[0].sc == scU32 && allSame(t, a)
		}},
		ir.MathOuter: {2, func(t *typer, a []rtype, s []shape) (rtype, bool) {
			ok := s[0].kind == 'v' && s[1].kind == 'v' && isFloat(s[0].sc) && s[0].sc == s[1].sc
			return inline(ir.MatrixType{Columns: s[1].n, Rows: s[0].n, Scalar: s[0].sc}), ok
		}},
		ir.MathCross: {2, func(t *typer, a []rtype, s []shape) (rtype, bool) {
			return a[0], s[0].kind == 'v' && s[0].n == 3 && isFloat(s[0].sc) && allSame(t, a)
		}},
		ir.MathDistance: {2, func(t *typer, a []rtype, s []shape) (rtype, bool) {
			return inline(s[0].sc), svOf(s[0], isFloat) && allSame(t, a)
		}},
		ir.MathLength: {1, func(t *typer, a []rtype, s []shape) (rtype, bool) {
			return inline(s[0].sc), svOf(s[0], isFloat)
		}},
		ir.MathNormalize: {1, func(t *typer, a []rtype, s []shape) (rtype, bool) {
			return a[0], s[0].kind == 'v' && isFloat(s[0].sc)
		}},
		ir.MathFaceForward: {3, func(t *typer, a []rtype, s []shape) (rtype, bool) {
			return a[0], s[0].kind == 'v' && isFloat(s[0].sc) && allSame(t, a)
		}},
		ir.MathReflect: {2, func(t *typer, a []rtype, s []shape) (rtype, bool) {
			return a[0], s[0].kind == 'v' && isFloat(s[0].sc) && allSame(t, a)
		}},
		ir.MathRefract: {3, func(t *typer, a []rtype, s []shape) (rtype, bool) {
			return a[0], s[0].kind == 'v' && isFloat(s[0].sc) && sameType(t.m, a[0], a[1]) && s[2].kind == 's' && s[2].sc == s[0].sc
		}},
		ir.MathSign: {1, sameOf(isSignedOrFloat)},
		ir.MathFma:  fl3,
		ir.MathMix: {3, func(t *typer, a []rtype, s []shape) (rtype, bool) {
			if !svOf(s[0], isFloat) || !sameType(t.m, a[0], a[1]) {
				return rtype{}, false
			}
			return a[0], sameType(t.m, a[0], a[2]) || (s[2].kind == 's' && s[2].sc == s[0].sc)
		}},
		ir.MathStep:        fl2,
		ir.MathSmoothStep:  fl3,
		ir.MathSqrt:        fl1,
		ir.MathInverseSqrt: fl1,
		ir.MathInverse: {1, func(t *typer, a []rtype, s []shape) (rtype, bool) {
			return a[0], s[0].kind == 'm' && s[0].n == s[0].cols
		}},
		ir.MathTranspose: {1, func(t *typer, a []rtype, s []shape) (rtype, bool) {
			return inline(ir.MatrixType{Columns: s[0].n, Rows: s[0].cols, Scalar: s[0].sc}), s[0].kind == 'm'
		}},
		ir.MathDeterminant: {1, func(t *typer, a []rtype, s []shape) (rtype, bool) {
			return inline(s[0].sc), s[0].kind == 'm' && s[0].n == s[0].cols
		}},
		ir.MathQuantizeF16: {1, func(t *typer, a []rtype, s []shape) (rtype, bool) {
			return a[0], svOf(s[0], func(x ir.ScalarType) bool { return x == scF32 })
		}},
		ir.MathCountTrailingZeros: int1, ir.MathCountLeadingZeros: int1, ir.MathCountOneBits: int1,
		ir.MathReverseBits: int1, ir.MathFirstTrailingBit: int1, ir.MathFirstLeadingBit: int1,
		ir.MathExtractBits: {3, func(t *typer, a []rtype, s []shape) (rtype, bool) {
			return a[0], svOf(s[0], isInt) && s[1].kind == 's' && s[1].sc == scU32 && s[2].kind == 's' && s[2].sc == scU32
		}},
		ir.MathInsertBits: {4, func(t *typer, a []rtype, s []shape) (rtype, bool) {
			return a[0], svOf(s[0], isInt) && sameType(t.m, a[0], a[1]) && s[2].kind == 's' && s[2].sc == scU32 && s[3].kind == 's' && s[3].sc == scU32
		}},
		ir.MathPack4x8snorm:    {1, packRule(4, scF32)},
		ir.MathPack4x8unorm:    {1, packRule(4, scF32)},
		ir.MathPack2x16snorm:   {1, packRule(2, scF32)},
		ir.MathPack2x16unorm:   {1, packRule(2, scF32)},
		ir.MathPack2x16float:   {1, packRule(2, scF32)},
		ir.MathPack4xI8:        {1, packRule(4, scI32)},
		ir.MathPack4xU8:        {1, packRule(4, scU32)},
		ir.MathPack4xI8Clamp:   {1, packRule(4, scI32)},
		ir.MathPack4xU8Clamp:   {1, packRule(4, scU32)},
		ir.MathUnpack4x8snorm:  {1, unpackRule(4, scF32)},
		ir.MathUnpack4x8unorm:  {1, unpackRule(4, scF32)},
		ir.MathUnpack2x16snorm: {1, unpackRule(2, scF32)},
		ir.MathUnpack2x16unorm: {1, unpackRule(2, scF32)},
		ir.MathUnpack2x16float: {1, unpackRule(2, scF32)},
		ir.MathUnpack4xI8:      {1, unpackRule(4, scI32)},
		ir.MathUnpack4xU8:      {1, unpackRule(4, scU32)},
	}
}

// findResultStruct finds the arena struct that a modf/frexp builtin returns: a struct whose
// name starts with prefix and whose members have the given names and types.
func (t *typer) findResultStruct(prefix string, names []string, tys []rtype) (rtype, bool) {
	for i, ty := range t.m.Types {
		st, ok := ty.Inner.(ir.StructType)
		if !ok || !strings.HasPrefix(ty.Name, prefix) || len(st.Members) != len(names) {
			continue
		}
		match := true
		for j, mem := range st.Members {
			mt, err := t.byHandle(mem.Type)
			if err != nil || mem.Name != names[j] || !sameType(t.m, mt, tys[j]) {
				match = false
				break
			}
		}
		if match {
			return rtype{H: i, In: st}, true
		}
	}
	return rtype{}, false
}

func (t *typer) inferMath(k ir.ExprMath) (rtype, error) {
	sig, ok := mathSigs[k.Fun]
	if !ok {
		return rtype{}, fmt.Errorf("unknown math function %d", k.Fun)
	}
	hs := []ir.ExpressionHandle{k.Arg}
	for _, p := range []*ir.ExpressionHandle{k.Arg1, k.Arg2, k.Arg3} {
		if p == nil {
			break
		}
		hs = append(hs, *p)
	}
	nargs := 1
	for _, p := range []*ir.ExpressionHandle{k.Arg1, k.Arg2, k.Arg3} {
		if p != nil {
			nargs++
		}
	}
	if nargs != sig.nargs || len(hs) != nargs {
		return rtype{}, fmt.Errorf("math function %d with %d arguments, want %d", k.Fun, nargs, sig.nargs)
	}
	a := make([]rtype, nargs)
	s := make([]shape, nargs)
	for i, h := range hs {
		var err error
		a[i], err = t.operand(h)
		if err != nil {
			return rtype{}, err
		}
		s[i] = shapeOf(a[i].In)
	}
	r, ok := sig.rule(t, a, s)
	if !ok {
		var ds []string
		for _, x := range a {
			ds = append(ds, describe(t.m, x))
		}
		return rtype{}, fmt.Errorf("math function %d on (%s)", k.Fun, strings.Join(ds, ", "))
	}
	return r, nil
}

// walkBlocks calls f on every statement, recursively.
func walkBlocks(b ir.Block, f func(s ir.Statement)) {
	for _, s := range b {
		f(s)
		switch k := s.Kind.(type) {
		case ir.StmtBlock:
			walkBlocks(k.Block, f)
		case ir.StmtIf:
			walkBlocks(k.Accept, f)
			walkBlocks(k.Reject, f)
		case ir.StmtLoop:
			walkBlocks(k.Body, f)
			walkBlocks(k.Continuing, f)
		case ir.StmtSwitch:
			for _, c := range k.Cases {
				walkBlocks(c.Body, f)
			}
		}
	}
}
