package irx

import (
	"github.com/gogpu/naga/ir"
)

// Statement kinds that carry expression handles beyond Store / Call / Atomic: image store, image
// atomic, workgroupUniformLoad, ray query, subgroup ballot / collective operation / gather, barrier.
// The rules are those of the WGSL builtins the statements stand for (and of upstream naga's
// valid::function): every operand has the kind and type the statement requires, the result handle is
// the result expression of exactly that statement kind with the type the operation yields, and every
// statement-result expression of a function is produced by exactly one statement.

// StmtOperands returns the expressions a statement reads (not those of nested blocks) and the
// statement-result expressions it defines.
func StmtOperands(s ir.Statement) (uses, defs []ir.ExpressionHandle) { return stmtUses(s) }

// ExprOperands returns the expression handles an expression refers to.
func ExprOperands(k ir.ExpressionKind) []ir.ExpressionHandle { return operandsOf(k) }

// WalkStatements calls f for every statement of b, nested blocks included, in program order.
func WalkStatements(b ir.Block, f func(s ir.Statement)) { walkBlocks(b, f) }

// IsStatementResult reports whether k is one of the expression kinds whose value is produced by a statement.
func IsStatementResult(k ir.ExpressionKind) bool { return statementResult(k) }

func (f *fnValidator) kindOf(h ir.ExpressionHandle) ir.ExpressionKind {
	if int(h) >= f.n {
		return nil
	}
	return f.fn.Expressions[h].Kind
}

// imageOperand checks that h is an image of storage class and returns it.
func (f *fnValidator) imageOperand(h ir.ExpressionHandle, what string) (ir.ImageType, bool) {
	t, ok := f.typeOf(h)
	if !ok {
		return ir.ImageType{}, false
	}
	img, isImg := t.In.(ir.ImageType)
	if !f.check(rStmtOperand, isImg, "%s: %s image operand e%d has type %s", f.where, what, h, describe(f.m, t)) {
		return ir.ImageType{}, false
	}
	f.check(rStmtOperand, img.Class == ir.ImageClassStorage && !img.Multisampled, "%s: %s on e%d, an image of class %d (multisampled=%v)", f.where, what, h, img.Class, img.Multisampled)
	return img, img.Class == ir.ImageClassStorage
}

// imageCoords checks the coordinate / array-index operands against the image's dimension.
func (f *fnValidator) imageCoords(img ir.ImageType, coord ir.ExpressionHandle, layer *ir.ExpressionHandle, what string) {
	if t, ok := f.typeOf(coord); ok {
		want := 0
		switch img.Dim {
		case ir.Dim1D:
			want = 1
		case ir.Dim2D:
			want = 2
		case ir.Dim3D:
			want = 3
		}
		sh := shapeOf(t.In)
		got := 0
		switch sh.kind {
		case 's':
			got = 1
		case 'v':
			got = int(sh.n)
		}
		f.check(rStmtOperand, want != 0 && got == want && isInt(sh.sc) && sh.sc.Width == 4,
			"%s: %s coordinate e%d has type %s for an image of dimension %d", f.where, what, coord, describe(f.m, t), img.Dim)
	}
	if !f.check(rStmtOperand, (layer != nil) == img.Arrayed, "%s: %s array index present=%v but image arrayed=%v", f.where, what, layer != nil, img.Arrayed) {
		return
	}
	if layer != nil {
		if t, ok := f.typeOf(*layer); ok {
			sc, isSc := t.In.(ir.ScalarType)
			f.check(rStmtOperand, isSc && isInt(sc) && sc.Width == 4, "%s: %s array index e%d has type %s", f.where, what, *layer, describe(f.m, t))
		}
	}
}

// resultIs checks that a statement's result handle is the result expression kind of that statement.
func (f *fnValidator) resultIs(h ir.ExpressionHandle, what string, ok func(k ir.ExpressionKind) bool) bool {
	k := f.kindOf(h)
	if k == nil {
		return false
	}
	return f.check(rStmtResult, ok(k), "%s: %s result e%d is a %T", f.where, what, h, k)
}

func (f *fnValidator) stmtExtra(s ir.Statement) {
	m := f.m
	switch k := s.Kind.(type) {
	case ir.StmtImageStore:
		img, ok := f.imageOperand(k.Image, "image store")
		if !ok {
			return
		}
		f.check(rStmtOperand, img.StorageAccess == ir.StorageAccessWrite || img.StorageAccess == ir.StorageAccessReadWrite,
			"%s: image store to e%d whose access mode is %d", f.where, k.Image, img.StorageAccess)
		f.imageCoords(img, k.Coordinate, k.ArrayIndex, "image store")
		if t, ok := f.typeOf(k.Value); ok {
			f.check(rStmtOperand, innerEq(m, t.In, ir.VectorType{Size: 4, Scalar: img.StorageFormat.Scalar()}, 0),
				"%s: image store value e%d has type %s, the texel type is vec4<%s>", f.where, k.Value, describe(m, t), scalarName(img.StorageFormat.Scalar()))
		}
	case ir.StmtImageAtomic:
		img, ok := f.imageOperand(k.Image, "image atomic")
		if !ok {
			return
		}
		// (this IR records the WGSL access mode `atomic` as read-write; both admit the operation)
		f.check(rStmtOperand, img.StorageAccess == ir.StorageAccessAtomic || img.StorageAccess == ir.StorageAccessReadWrite, "%s: image atomic on e%d whose access mode is %d", f.where, k.Image, img.StorageAccess)
		f.imageCoords(img, k.Coordinate, k.ArrayIndex, "image atomic")
		sc := img.StorageFormat.Scalar()
		f.check(rStmtOperand, isInt(sc), "%s: image atomic on e%d with texel type %s", f.where, k.Image, scalarName(sc))
		if t, ok := f.typeOf(k.Value); ok {
			f.check(rStmtOperand, innerEq(m, t.In, sc, 0), "%s: image atomic value e%d has type %s, the texel type is %s", f.where, k.Value, describe(m, t), scalarName(sc))
		}
		if f.check(rStmtOperand, k.Fun != nil, "%s: image atomic without function", f.where) {
			switch x := k.Fun.(type) {
			case ir.AtomicLoad, ir.AtomicStore:
				f.check(rStmtOperand, false, "%s: image atomic with function %T", f.where, k.Fun)
			case ir.AtomicExchange:
				f.check(rStmtOperand, x.Compare == nil, "%s: image atomic compare-exchange", f.where)
			}
		}
	case ir.StmtWorkGroupUniformLoad:
		if t, ok := f.typeOf(k.Pointer); ok {
			p, isPtr := t.In.(ir.PointerType)
			f.check(rStmtOperand, isPtr && p.Space == ir.SpaceWorkGroup, "%s: workgroupUniformLoad pointer e%d has type %s", f.where, k.Pointer, describe(m, t))
		}
		f.resultIs(k.Result, "workgroupUniformLoad", func(e ir.ExpressionKind) bool { _, ok := e.(ir.ExprWorkGroupUniformLoadResult); return ok })
	case ir.StmtRayQuery:
		if t, ok := f.typeOf(k.Query); ok {
			good := false
			if p, isPtr := t.In.(ir.PointerType); isPtr && f.typeOK(p.Base) {
				_, good = m.Types[p.Base].Inner.(ir.RayQueryType)
			}
			f.check(rStmtOperand, good, "%s: ray query operand e%d has type %s", f.where, k.Query, describe(m, t))
		}
		if !f.check(rStmtOperand, k.Fun != nil, "%s: ray query statement without function", f.where) {
			return
		}
		switch x := k.Fun.(type) {
		case ir.RayQueryInitialize:
			if t, ok := f.typeOf(x.AccelerationStructure); ok {
				_, good := t.In.(ir.AccelerationStructureType)
				f.check(rStmtOperand, good, "%s: rayQueryInitialize acceleration structure e%d has type %s", f.where, x.AccelerationStructure, describe(m, t))
			}
			if t, ok := f.typeOf(x.Descriptor); ok {
				// RayDesc { flags: u32, cull_mask: u32, t_min: f32, t_max: f32, origin: vec3<f32>, dir: vec3<f32> }
				st, good := t.In.(ir.StructType)
				if good = good && len(st.Members) == 6; good {
					want := []ir.TypeInner{scU32, scU32, scF32, scF32, ir.VectorType{Size: 3, Scalar: scF32}, ir.VectorType{Size: 3, Scalar: scF32}}
					for i, mb := range st.Members {
						good = good && f.typeOK(mb.Type) && innerEq(m, m.Types[mb.Type].Inner, want[i], 0)
					}
				}
				f.check(rStmtOperand, good, "%s: rayQueryInitialize descriptor e%d has type %s", f.where, x.Descriptor, describe(m, t))
			}
		case ir.RayQueryProceed:
			f.resultIs(x.Result, "rayQueryProceed", func(e ir.ExpressionKind) bool { _, ok := e.(ir.ExprRayQueryProceedResult); return ok })
		case ir.RayQueryGenerateIntersection:
			if t, ok := f.typeOf(x.HitT); ok {
				f.check(rStmtOperand, innerEq(m, t.In, scF32, 0), "%s: rayQueryGenerateIntersection distance e%d has type %s", f.where, x.HitT, describe(m, t))
			}
		}
	case ir.StmtSubgroupBallot:
		if k.Predicate != nil {
			if t, ok := f.typeOf(*k.Predicate); ok {
				f.check(rStmtOperand, innerEq(m, t.In, scBool, 0), "%s: subgroupBallot predicate e%d has type %s", f.where, *k.Predicate, describe(m, t))
			}
		}
		f.resultIs(k.Result, "subgroupBallot", func(e ir.ExpressionKind) bool { _, ok := e.(ir.ExprSubgroupBallotResult); return ok })
	case ir.StmtSubgroupCollectiveOperation:
		t, ok := f.typeOf(k.Argument)
		if ok {
			sh := shapeOf(t.In)
			good := sh.kind == 's' || sh.kind == 'v'
			switch k.Op {
			case ir.SubgroupOperationAll, ir.SubgroupOperationAny:
				good = good && sh.kind == 's' && isBool(sh.sc)
				f.check(rStmtOperand, k.CollectiveOp == ir.CollectiveReduce, "%s: subgroup all/any with collective operation %d", f.where, k.CollectiveOp)
			case ir.SubgroupOperationAdd, ir.SubgroupOperationMul, ir.SubgroupOperationMin, ir.SubgroupOperationMax:
				good = good && isNum(sh.sc)
			case ir.SubgroupOperationAnd, ir.SubgroupOperationOr, ir.SubgroupOperationXor:
				good = good && isInt(sh.sc)
			default:
				good = false
			}
			f.check(rStmtOperand, good, "%s: subgroup operation %d on e%d of type %s", f.where, k.Op, k.Argument, describe(m, t))
			f.check(rStmtOperand, k.CollectiveOp <= ir.CollectiveExclusiveScan, "%s: subgroup collective operation %d", f.where, k.CollectiveOp)
		}
		f.subgroupResult(k.Result, k.Argument, "subgroup collective operation")
	case ir.StmtSubgroupGather:
		if t, ok := f.typeOf(k.Argument); ok {
			sh := shapeOf(t.In)
			f.check(rStmtOperand, (sh.kind == 's' || sh.kind == 'v') && !sh.atomic, "%s: subgroup gather of e%d of type %s", f.where, k.Argument, describe(m, t))
		}
		var idx *ir.ExpressionHandle
		switch g := k.Mode.(type) {
		case ir.GatherBroadcastFirst, ir.GatherQuadSwap:
		case ir.GatherBroadcast:
			idx = &g.Index
		case ir.GatherShuffle:
			idx = &g.Index
		case ir.GatherShuffleDown:
			idx = &g.Delta
		case ir.GatherShuffleUp:
			idx = &g.Delta
		case ir.GatherShuffleXor:
			idx = &g.Mask
		case ir.GatherQuadBroadcast:
			idx = &g.Index
		default:
			f.check(rStmtOperand, false, "%s: subgroup gather with mode %T", f.where, k.Mode)
		}
		if idx != nil {
			if t, ok := f.typeOf(*idx); ok {
				sc, isSc := t.In.(ir.ScalarType)
				f.check(rStmtOperand, isSc && isInt(sc) && sc.Width == 4, "%s: subgroup gather (%T) lane operand e%d has type %s", f.where, k.Mode, *idx, describe(m, t))
			}
		}
		f.subgroupResult(k.Result, k.Argument, "subgroup gather")
	case ir.StmtBarrier:
		const known = ir.BarrierStorage | ir.BarrierWorkGroup | ir.BarrierSubGroup | ir.BarrierTexture
		f.check(rStmtOperand, k.Flags&^known == 0, "%s: barrier with unknown flags %#x", f.where, uint32(k.Flags))
	}
}

// subgroupResult: the result of a collective operation / gather is a SubgroupOperationResult whose type
// is the argument's type.
func (f *fnValidator) subgroupResult(res, arg ir.ExpressionHandle, what string) {
	if !f.resultIs(res, what, func(e ir.ExpressionKind) bool { _, ok := e.(ir.ExprSubgroupOperationResult); return ok }) {
		return
	}
	r := f.kindOf(res).(ir.ExprSubgroupOperationResult)
	at, ok := f.typeOf(arg)
	if !ok || !f.typeOK(r.Type) {
		return
	}
	rt := rtype{H: int(r.Type), In: f.m.Types[r.Type].Inner}
	f.check(rStmtResult, sameType(f.m, rt, at), "%s: %s result e%d has type %s, the argument e%d has type %s", f.where, what, res, describe(f.m, rt), arg, describe(f.m, at))
}

// resultProducers: every statement-result expression that is evaluated (used by a statement or by an
// evaluated expression) is defined by exactly one statement; no result expression is defined by two. A
// result expression nothing refers to is dead arena content like any other unused expression.
func (f *fnValidator) resultProducers() {
	producers := make(map[ir.ExpressionHandle]int)
	walkBlocks(f.fn.Body, func(s ir.Statement) {
		_, defs := stmtUses(s)
		for _, d := range defs {
			producers[d]++
		}
	})
	for i := 0; i < f.n; i++ {
		k := f.fn.Expressions[i].Kind
		if k == nil || !statementResult(k) {
			continue
		}
		n := producers[ir.ExpressionHandle(i)]
		if n == 0 && !(i < len(f.needed) && f.needed[i]) {
			continue
		}
		f.count[rStmtResult]++
		if n != 1 {
			f.add(rStmtResult, "%s e%d (%T) is produced by %d statements", f.where, i, k, n)
		}
	}
}
