package irx

import (
	"os"
	"path/filepath"
	"sort"
	"testing"

	"github.com/gogpu/naga"
	"github.com/gogpu/naga/ir"
)

func lower(t testing.TB, src string) *ir.Module {
	t.Helper()
	m, err := lowerErr(src)
	if err != nil {
		t.Fatalf("lower: %v\n%s", err, src)
	}
	return m
}

func lowerErr(src string) (*ir.Module, error) {
	ast, err := naga.Parse(src)
	if err != nil {
		return nil, err
	}
	return naga.LowerWithSource(ast, src)
}

const corpusDir = "/repo/snapshot/testdata/in"

func corpusFiles(t testing.TB) []string {
	fs, err := filepath.Glob(filepath.Join(corpusDir, "*.wgsl"))
	if err != nil || len(fs) == 0 {
		t.Skip("corpus not available")
	}
	sort.Strings(fs)
	return fs
}

func readFile(t testing.TB, p string) string {
	b, err := os.ReadFile(p)
	if err != nil {
		t.Fatal(err)
	}
	return string(b)
}
