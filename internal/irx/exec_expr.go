package irx

import (
	"fmt"
	"math"
	"math/bits"

	"github.com/gogpu/naga/ir"

	"verif/internal/xrt"
)

// val returns the words of an evaluated data expression.
func (x *inv) val(fr *frame, h ir.ExpressionHandle) ([]uint32, error) {
	if int(h) >= len(fr.fn.ex) {
		return nil, &xrt.Malformed{What: fmt.Sprintf("expression e%d out of range", h)}
	}
	e := &fr.fn.ex[h]
	if e.err != nil {
		return nil, e.err
	}
	if x.p.EvalUnemittedAtUse && fr.fn.lazy != nil && fr.fn.lazy[h] {
		if err := x.lazyEval(fr, h, 0); err != nil {
			return nil, err
		}
	}
	if !fr.done[h] {
		return nil, &xrt.Malformed{What: fmt.Sprintf("%s: e%d (%T) used before it was emitted", fr.fn.name, h, e.k)}
	}
	if e.ty.kind == xPointer {
		return nil, &xrt.Malformed{What: fmt.Sprintf("%s: e%d is a pointer where a value is needed", fr.fn.name, h)}
	}
	return fr.w[e.off : e.off+e.n], nil
}

// ptr returns the pointer value of an evaluated pointer expression.
func (x *inv) ptr(fr *frame, h ir.ExpressionHandle) (xptr, error) {
	if int(h) >= len(fr.fn.ex) {
		return xptr{}, &xrt.Malformed{What: fmt.Sprintf("expression e%d out of range", h)}
	}
	e := &fr.fn.ex[h]
	if e.err != nil {
		return xptr{}, e.err
	}
	if x.p.EvalUnemittedAtUse && fr.fn.lazy != nil && fr.fn.lazy[h] {
		if err := x.lazyEval(fr, h, 0); err != nil {
			return xptr{}, err
		}
	}
	if !fr.done[h] {
		return xptr{}, &xrt.Malformed{What: fmt.Sprintf("%s: e%d (%T) used before it was emitted", fr.fn.name, h, e.k)}
	}
	if e.ty.kind != xPointer {
		return xptr{}, &xrt.Malformed{What: fmt.Sprintf("%s: e%d is not a pointer", fr.fn.name, h)}
	}
	p := fr.p[h]
	if p.ty != nil && p.ty.err != nil {
		return p, p.ty.err
	}
	if p.mem == nil {
		return p, &xrt.Unsupported{What: "variable in an address space that is not modelled (or unbound)"}
	}
	return p, nil
}

// lazyEval (re-)evaluates an expression that no Emit covers, and the uncovered expressions it
// depends on, at the point of use.
func (x *inv) lazyEval(fr *frame, h ir.ExpressionHandle, depth int) error {
	if depth > 256 {
		return &xrt.Malformed{What: "expression nesting too deep"}
	}
	for _, op := range operandsOf(fr.fn.ex[h].k) {
		if int(op) < len(fr.fn.lazy) && fr.fn.lazy[op] {
			if err := x.lazyEval(fr, op, depth+1); err != nil {
				return err
			}
		}
	}
	if err := x.step(); err != nil {
		return err
	}
	return x.eval(fr, h)
}

// evalTree evaluates h and, first, everything it depends on, regardless of Emit statements. Used for
// the global expression arena.
func (x *inv) evalTree(fr *frame, h ir.ExpressionHandle, depth int) error {
	if int(h) >= len(fr.fn.ex) {
		return &xrt.Malformed{What: "expression out of range"}
	}
	if fr.done[h] {
		return nil
	}
	if depth > 256 {
		return &xrt.Malformed{What: "expression nesting too deep"}
	}
	e := &fr.fn.ex[h]
	if e.err != nil {
		return e.err
	}
	for _, op := range operandsOf(e.k) {
		if op >= h && fr.fn.f == nil {
			return &xrt.Malformed{What: "global expression refers forwards"}
		}
		if err := x.evalTree(fr, op, depth+1); err != nil {
			return err
		}
	}
	if e.pre {
		if _, isConst := e.k.(ir.ExprConstant); isConst && fr.fn.f == nil {
			return x.eval(fr, h)
		}
		fr.done[h] = true
		return nil
	}
	return x.eval(fr, h)
}

// constTree is evalTree restricted to constant expressions (local variable initialisers).
func (x *inv) constTree(fr *frame, h ir.ExpressionHandle, depth int) error {
	if int(h) >= len(fr.fn.ex) {
		return &xrt.Malformed{What: "expression out of range"}
	}
	if depth > 256 {
		return &xrt.Malformed{What: "expression nesting too deep"}
	}
	e := &fr.fn.ex[h]
	if e.err != nil {
		return e.err
	}
	switch e.k.(type) {
	case ir.Literal, ir.ExprConstant, ir.ExprZeroValue:
		fr.done[h] = true
		return nil
	case ir.ExprCompose, ir.ExprSplat, ir.ExprSwizzle, ir.ExprAccessIndex, ir.ExprAccess, ir.ExprUnary, ir.ExprBinary,
		ir.ExprSelect, ir.ExprRelational, ir.ExprMath, ir.ExprAs, ir.ExprAlias:
	default:
		return &xrt.Unsupported{What: fmt.Sprintf("local variable initialiser of kind %T is not a constant expression", e.k)}
	}
	if e.ty.kind == xPointer {
		return &xrt.Unsupported{What: "pointer-valued local initialiser"}
	}
	for _, op := range operandsOf(e.k) {
		if err := x.constTree(fr, op, depth+1); err != nil {
			return err
		}
	}
	return x.eval(fr, h)
}

// eval computes expression h from its (already evaluated) operands and marks it done.
func (x *inv) eval(fr *frame, h ir.ExpressionHandle) error {
	e := &fr.fn.ex[h]
	if e.err != nil {
		// An expression that cannot be evaluated poisons its users, not the Emit.
		return nil
	}
	var dst []uint32
	if e.n > 0 {
		dst = fr.w[e.off : e.off+e.n]
	}
	tt := x.p.tt
	switch k := e.k.(type) {
	case ir.ExprConstant:
		c := x.p.constVal(int(k.Constant))
		if c.err != nil {
			return c.err
		}
		if len(c.w) != e.n {
			return &xrt.Malformed{What: "constant size mismatch"}
		}
		copy(dst, c.w)
	case ir.ExprCompose:
		o := 0
		for _, c := range k.Components {
			w, err := x.val(fr, c)
			if err != nil {
				return err
			}
			if o+len(w) > len(dst) {
				return &xrt.Malformed{What: "compose overflows its type"}
			}
			copy(dst[o:], w)
			o += len(w)
		}
		if o != len(dst) {
			return &xrt.Malformed{What: "compose does not fill its type"}
		}
	case ir.ExprSplat:
		w, err := x.val(fr, k.Value)
		if err != nil {
			return err
		}
		for i := range dst {
			dst[i] = w[0]
		}
	case ir.ExprSwizzle:
		w, err := x.val(fr, k.Vector)
		if err != nil {
			return err
		}
		for i := range dst {
			c := int(k.Pattern[i])
			if c >= len(w) {
				return &xrt.Malformed{What: "swizzle component out of range"}
			}
			dst[i] = w[c]
		}
	case ir.ExprAccessIndex:
		return x.access(fr, h, e, k.Base, int64(k.Index), false)
	case ir.ExprAccess:
		iw, err := x.val(fr, k.Index)
		if err != nil {
			return err
		}
		idx := int64(iw[0])
		if fr.fn.ex[k.Index].ty.sk == ir.ScalarSint {
			idx = int64(int32(iw[0]))
		}
		return x.access(fr, h, e, k.Base, idx, true)
	case ir.ExprLoad:
		p, err := x.ptr(fr, k.Pointer)
		if err != nil {
			return err
		}
		if x.sh == nil {
			return &xrt.Malformed{What: "load in a constant expression"}
		}
		if p.ty.words != e.n {
			return &xrt.Malformed{What: "load size mismatch"}
		}
		if err := x.sh.mc.load(p, dst); err != nil {
			return err
		}
	case ir.ExprAlias:
		if e.ty.kind == xPointer {
			p, err := x.ptr(fr, k.Source)
			if err != nil {
				return err
			}
			fr.p[h] = p
			break
		}
		w, err := x.val(fr, k.Source)
		if err != nil {
			return err
		}
		copy(dst, w)
	case ir.ExprPhi:
		if !fr.last.set {
			return &xrt.Malformed{What: "phi evaluated before any structured edge was taken"}
		}
		sel, fallback := -1, -1
		for i, in := range k.Incoming {
			if in.PredKey == ir.PhiPredFallThrough {
				fallback = i
			}
			if in.PredKey != fr.last.key {
				continue
			}
			if in.PredKey == ir.PhiPredSwitchCase && in.CaseIdx != fr.last.idx {
				continue
			}
			sel = i
			break
		}
		if sel < 0 {
			sel = fallback
		}
		if sel < 0 {
			return &xrt.Malformed{What: fmt.Sprintf("phi e%d has no incoming value for edge %d/%d", h, fr.last.key, fr.last.idx)}
		}
		w, err := x.val(fr, k.Incoming[sel].Value)
		if err != nil {
			return err
		}
		copy(dst, w)
	case ir.ExprUnary:
		w, err := x.val(fr, k.Expr)
		if err != nil {
			return err
		}
		sk := e.ty.sk
		for i := range dst {
			switch k.Op {
			case ir.UnaryNegate:
				if sk == ir.ScalarFloat {
					dst[i] = w[i] ^ 0x80000000
				} else {
					dst[i] = -w[i]
				}
			case ir.UnaryLogicalNot:
				dst[i] = b2w(w[i] == 0)
			case ir.UnaryBitwiseNot:
				dst[i] = ^w[i]
			}
		}
	case ir.ExprBinary:
		l, err := x.val(fr, k.Left)
		if err != nil {
			return err
		}
		r, err := x.val(fr, k.Right)
		if err != nil {
			return err
		}
		return x.finish(fr, h, binaryOp(k.Op, fr.fn.ex[k.Left].ty, fr.fn.ex[k.Right].ty, l, r, dst))
	case ir.ExprSelect:
		c, err := x.val(fr, k.Condition)
		if err != nil {
			return err
		}
		a, err := x.val(fr, k.Accept)
		if err != nil {
			return err
		}
		r, err := x.val(fr, k.Reject)
		if err != nil {
			return err
		}
		if len(c) == 1 {
			if c[0] != 0 {
				copy(dst, a)
			} else {
				copy(dst, r)
			}
		} else {
			for i := range dst {
				if c[i] != 0 {
					dst[i] = a[i]
				} else {
					dst[i] = r[i]
				}
			}
		}
	case ir.ExprRelational:
		w, err := x.val(fr, k.Argument)
		if err != nil {
			return err
		}
		switch k.Fun {
		case ir.RelationalAll:
			r := true
			for _, v := range w {
				r = r && v != 0
			}
			dst[0] = b2w(r)
		case ir.RelationalAny:
			r := false
			for _, v := range w {
				r = r || v != 0
			}
			dst[0] = b2w(r)
		case ir.RelationalIsNan:
			for i, v := range w {
				f := f32(v)
				dst[i] = b2w(f != f)
			}
		case ir.RelationalIsInf:
			for i, v := range w {
				dst[i] = b2w(math.IsInf(f64of(v), 0))
			}
		}
	case ir.ExprMath:
		return x.finish(fr, h, x.math(fr, k, e, dst))
	case ir.ExprAs:
		w, err := x.val(fr, k.Expr)
		if err != nil {
			return err
		}
		src := fr.fn.ex[k.Expr].ty.sk
		if k.Convert == nil {
			copy(dst, w) // bitcast
			break
		}
		for i := range dst {
			dst[i] = convert(src, k.Kind, w[i])
		}
	case ir.ExprArrayLength:
		p, err := x.ptr(fr, k.Array)
		if err != nil {
			return err
		}
		if p.oob {
			return oobTrap(false, p, "arrayLength through out-of-bounds pointer")
		}
		if !p.mem.isBuf || p.ty.kind != xArray || p.ty.count >= 0 || p.ty.stride <= 0 {
			return &xrt.Malformed{What: "arrayLength of something that is not a runtime-sized buffer array"}
		}
		n := 0
		if p.off <= len(p.mem.buf) {
			n = (len(p.mem.buf) - p.off) / p.ty.stride
		}
		dst[0] = uint32(n)
	case ir.ExprCallResult, ir.ExprAtomicResult, ir.ExprWorkGroupUniformLoadResult:
		// set by their statements; an Emit covering them is ignored
		return nil
	case ir.Literal, ir.ExprZeroValue, ir.ExprFunctionArgument, ir.ExprGlobalVariable, ir.ExprLocalVariable, ir.ExprOverride:
		// pre-emitted
	default:
		return &xrt.Unsupported{What: fmt.Sprintf("expression %T", e.k)}
	}
	_ = tt
	fr.done[h] = true
	return nil
}

func (x *inv) finish(fr *frame, h ir.ExpressionHandle, err error) error {
	if err != nil {
		return err
	}
	fr.done[h] = true
	return nil
}

// access implements Access / AccessIndex on values and pointers.
func (x *inv) access(fr *frame, h ir.ExpressionHandle, e *xexpr, base ir.ExpressionHandle, idx int64, dynamic bool) error {
	if int(base) >= len(fr.fn.ex) {
		return &xrt.Malformed{What: "access base out of range"}
	}
	be := &fr.fn.ex[base]
	if be.err != nil {
		return be.err
	}
	if be.ty.kind == xPointer {
		p, err := x.ptr(fr, base)
		if err != nil {
			return err
		}
		q, err := x.p.tt.index(p, idx)
		if err != nil {
			return err
		}
		fr.p[h] = q
		fr.done[h] = true
		return nil
	}
	w, err := x.val(fr, base)
	if err != nil {
		return err
	}
	t := be.ty
	var off, n, cnt int
	switch t.kind {
	case xVector:
		cnt, n = t.n, 1
		off = int(idx)
	case xMatrix:
		cnt, n = t.cols, t.n
		off = int(idx) * t.n
	case xArray:
		cnt, n = t.count, t.elem.words
		off = int(idx) * n
	case xStruct:
		if dynamic || idx < 0 || int(idx) >= len(t.members) {
			return &xrt.Malformed{What: "struct member access"}
		}
		cnt = len(t.members)
		off, n = t.members[idx].woff, t.members[idx].ty.words
	default:
		return &xrt.Malformed{What: fmt.Sprintf("access into %s", t)}
	}
	if idx < 0 || idx >= int64(cnt) {
		return &xrt.Trap{Kind: "oob-read", Detail: fmt.Sprintf("%s: index %d into value of %d components (e%d)", fr.fn.name, idx, cnt, h)}
	}
	if n != e.n || off+n > len(w) {
		return &xrt.Malformed{What: "access result size mismatch"}
	}
	copy(fr.w[e.off:e.off+e.n], w[off:off+n])
	fr.done[h] = true
	return nil
}

// convert implements T(x) for 32-bit scalars and bool.
func convert(src, dst ir.ScalarKind, w uint32) uint32 {
	switch dst {
	case ir.ScalarBool:
		switch src {
		case ir.ScalarFloat:
			return b2w(f32(w) != 0)
		default:
			return b2w(w != 0)
		}
	case ir.ScalarSint:
		switch src {
		case ir.ScalarFloat:
			return f2i(w)
		case ir.ScalarBool:
			return b2w(w != 0)
		}
		return w
	case ir.ScalarUint:
		switch src {
		case ir.ScalarFloat:
			return f2u(w)
		case ir.ScalarBool:
			return b2w(w != 0)
		}
		return w
	case ir.ScalarFloat:
		switch src {
		case ir.ScalarSint:
			return w32(float32(int32(w)))
		case ir.ScalarUint:
			return w32(float32(w))
		case ir.ScalarBool:
			if w != 0 {
				return w32(1)
			}
			return 0
		}
		return w
	}
	return w
}

// binaryOp evaluates a binary operator with WGSL semantics.
func binaryOp(op ir.BinaryOperator, lt, rt *xtype, l, r, dst []uint32) error {
	if op == ir.BinaryMultiply && (lt.kind == xMatrix || rt.kind == xMatrix) && lt.kind != xScalar && rt.kind != xScalar {
		return matMul(lt, rt, l, r, dst)
	}
	sk := lt.sk
	ls, rs := 1, 1
	if len(l) == 1 && len(dst) > 1 {
		ls = 0
	}
	if len(r) == 1 && len(dst) > 1 {
		rs = 0
	}
	if (ls == 1 && len(l) < len(dst)) || (rs == 1 && len(r) < len(dst)) {
		return &xrt.Malformed{What: "binary operand shapes"}
	}
	for i := range dst {
		a, b := l[i*ls], r[i*rs]
		var v uint32
		switch sk {
		case ir.ScalarFloat:
			x, y := f32(a), f32(b)
			switch op {
			case ir.BinaryAdd:
				v = w32(float32(x + y))
			case ir.BinarySubtract:
				v = w32(float32(x - y))
			case ir.BinaryMultiply:
				v = w32(float32(x * y))
			case ir.BinaryDivide:
				v = w32(float32(x / y))
			case ir.BinaryModulo:
				v = w32(fmod32(x, y))
			case ir.BinaryEqual:
				v = b2w(x == y)
			case ir.BinaryNotEqual:
				v = b2w(x != y)
			case ir.BinaryLess:
				v = b2w(x < y)
			case ir.BinaryLessEqual:
				v = b2w(x <= y)
			case ir.BinaryGreater:
				v = b2w(x > y)
			case ir.BinaryGreaterEqual:
				v = b2w(x >= y)
			default:
				return &xrt.Malformed{What: fmt.Sprintf("binary op %d on floats", op)}
			}
		case ir.ScalarSint:
			x, y := int32(a), int32(b)
			switch op {
			case ir.BinaryAdd:
				v = a + b
			case ir.BinarySubtract:
				v = a - b
			case ir.BinaryMultiply:
				v = a * b
			case ir.BinaryDivide:
				v = uint32(idiv(x, y))
			case ir.BinaryModulo:
				v = uint32(imod(x, y))
			case ir.BinaryEqual:
				v = b2w(x == y)
			case ir.BinaryNotEqual:
				v = b2w(x != y)
			case ir.BinaryLess:
				v = b2w(x < y)
			case ir.BinaryLessEqual:
				v = b2w(x <= y)
			case ir.BinaryGreater:
				v = b2w(x > y)
			case ir.BinaryGreaterEqual:
				v = b2w(x >= y)
			case ir.BinaryAnd:
				v = a & b
			case ir.BinaryExclusiveOr:
				v = a ^ b
			case ir.BinaryInclusiveOr:
				v = a | b
			case ir.BinaryShiftLeft:
				v = a << (b & 31)
			case ir.BinaryShiftRight:
				v = uint32(x >> (b & 31))
			default:
				return &xrt.Malformed{What: fmt.Sprintf("binary op %d on i32", op)}
			}
		case ir.ScalarUint:
			switch op {
			case ir.BinaryAdd:
				v = a + b
			case ir.BinarySubtract:
				v = a - b
			case ir.BinaryMultiply:
				v = a * b
			case ir.BinaryDivide:
				v = udiv(a, b)
			case ir.BinaryModulo:
				v = umod(a, b)
			case ir.BinaryEqual:
				v = b2w(a == b)
			case ir.BinaryNotEqual:
				v = b2w(a != b)
			case ir.BinaryLess:
				v = b2w(a < b)
			case ir.BinaryLessEqual:
				v = b2w(a <= b)
			case ir.BinaryGreater:
				v = b2w(a > b)
			case ir.BinaryGreaterEqual:
				v = b2w(a >= b)
			case ir.BinaryAnd:
				v = a & b
			case ir.BinaryExclusiveOr:
				v = a ^ b
			case ir.BinaryInclusiveOr:
				v = a | b
			case ir.BinaryShiftLeft:
				v = a << (b & 31)
			case ir.BinaryShiftRight:
				v = a >> (b & 31)
			default:
				return &xrt.Malformed{What: fmt.Sprintf("binary op %d on u32", op)}
			}
		case ir.ScalarBool:
			x, y := a != 0, b != 0
			switch op {
			case ir.BinaryEqual:
				v = b2w(x == y)
			case ir.BinaryNotEqual, ir.BinaryExclusiveOr:
				v = b2w(x != y)
			case ir.BinaryAnd, ir.BinaryLogicalAnd:
				v = b2w(x && y)
			case ir.BinaryInclusiveOr, ir.BinaryLogicalOr:
				v = b2w(x || y)
			default:
				return &xrt.Malformed{What: fmt.Sprintf("binary op %d on bool", op)}
			}
		default:
			return &xrt.Unsupported{What: "binary operator on this scalar kind"}
		}
		dst[i] = v
	}
	return nil
}

// matMul: column-major; (A*B)[j][i] = sum_k A[k][i]*B[j][k]; (M*v)[i] = sum_k M[k][i]*v[k];
// (v*M)[j] = dot(v, M[j]). Products and sums are rounded to f32 at every step, left to right.
func matMul(lt, rt *xtype, l, r, dst []uint32) error {
	get := func(m []uint32, rows, c, row int) float32 { return f32(m[c*rows+row]) }
	switch {
	case lt.kind == xMatrix && rt.kind == xVector:
		if lt.cols != rt.n || len(dst) != lt.n {
			return &xrt.Malformed{What: "matrix*vector shapes"}
		}
		for i := 0; i < lt.n; i++ {
			var acc float32
			for k := 0; k < lt.cols; k++ {
				p := float32(get(l, lt.n, k, i) * f32(r[k]))
				if k == 0 {
					acc = p
				} else {
					acc = float32(acc + p)
				}
			}
			dst[i] = w32(acc)
		}
	case lt.kind == xVector && rt.kind == xMatrix:
		if lt.n != rt.n || len(dst) != rt.cols {
			return &xrt.Malformed{What: "vector*matrix shapes"}
		}
		for j := 0; j < rt.cols; j++ {
			var acc float32
			for k := 0; k < rt.n; k++ {
				p := float32(f32(l[k]) * get(r, rt.n, j, k))
				if k == 0 {
					acc = p
				} else {
					acc = float32(acc + p)
				}
			}
			dst[j] = w32(acc)
		}
	case lt.kind == xMatrix && rt.kind == xMatrix:
		if lt.cols != rt.n || len(dst) != rt.cols*lt.n {
			return &xrt.Malformed{What: "matrix*matrix shapes"}
		}
		for j := 0; j < rt.cols; j++ {
			for i := 0; i < lt.n; i++ {
				var acc float32
				for k := 0; k < lt.cols; k++ {
					p := float32(get(l, lt.n, k, i) * get(r, rt.n, j, k))
					if k == 0 {
						acc = p
					} else {
						acc = float32(acc + p)
					}
				}
				dst[j*lt.n+i] = w32(acc)
			}
		}
	default:
		return &xrt.Malformed{What: "matrix multiply shapes"}
	}
	return nil
}

// math evaluates an ExprMath.
func (x *inv) math(fr *frame, k ir.ExprMath, e *xexpr, dst []uint32) error {
	a, err := x.val(fr, k.Arg)
	if err != nil {
		return err
	}
	at := fr.fn.ex[k.Arg].ty
	var b, c, d []uint32
	if k.Arg1 != nil {
		if b, err = x.val(fr, *k.Arg1); err != nil {
			return err
		}
	}
	if k.Arg2 != nil {
		if c, err = x.val(fr, *k.Arg2); err != nil {
			return err
		}
	}
	if k.Arg3 != nil {
		if d, err = x.val(fr, *k.Arg3); err != nil {
			return err
		}
	}
	sk := at.sk
	n := len(a)
	// component-wise helpers
	f1 := func(f func(v float64) float64) error {
		for i := range dst {
			dst[i] = wf64(f(f64of(a[i])))
		}
		return nil
	}
	f1x := func(f func(v float32) float32) error { // exact in f32
		for i := range dst {
			dst[i] = w32(f(f32(a[i])))
		}
		return nil
	}
	f2 := func(f func(p, q float64) float64) error {
		for i := range dst {
			dst[i] = wf64(f(f64of(a[i]), f64of(b[i])))
		}
		return nil
	}
	dot64 := func(p, q []uint32) float64 {
		s := 0.0
		for i := range p {
			s += f64of(p[i]) * f64of(q[i])
		}
		return s
	}
	switch k.Fun {
	case ir.MathAbs:
		for i := range dst {
			switch sk {
			case ir.ScalarFloat:
				dst[i] = a[i] &^ 0x80000000
			case ir.ScalarSint:
				dst[i] = uint32(iabs(int32(a[i])))
			default:
				dst[i] = a[i]
			}
		}
	case ir.MathMin, ir.MathMax:
		isMin := k.Fun == ir.MathMin
		for i := range dst {
			switch sk {
			case ir.ScalarFloat:
				if isMin {
					dst[i] = w32(fmin(f32(a[i]), f32(b[i])))
				} else {
					dst[i] = w32(fmax(f32(a[i]), f32(b[i])))
				}
			case ir.ScalarSint:
				if isMin {
					dst[i] = uint32(min(int32(a[i]), int32(b[i])))
				} else {
					dst[i] = uint32(max(int32(a[i]), int32(b[i])))
				}
			default:
				if isMin {
					dst[i] = min(a[i], b[i])
				} else {
					dst[i] = max(a[i], b[i])
				}
			}
		}
	case ir.MathClamp:
		for i := range dst {
			switch sk {
			case ir.ScalarFloat:
				dst[i] = w32(fmin(fmax(f32(a[i]), f32(b[i])), f32(c[i])))
			case ir.ScalarSint:
				dst[i] = uint32(min(max(int32(a[i]), int32(b[i])), int32(c[i])))
			default:
				dst[i] = min(max(a[i], b[i]), c[i])
			}
		}
	case ir.MathSaturate:
		return f1x(func(v float32) float32 { return fmin(fmax(v, 0), 1) })
	case ir.MathCos:
		return f1(math.Cos)
	case ir.MathCosh:
		return f1(math.Cosh)
	case ir.MathSin:
		return f1(math.Sin)
	case ir.MathSinh:
		return f1(math.Sinh)
	case ir.MathTan:
		return f1(math.Tan)
	case ir.MathTanh:
		return f1(math.Tanh)
	case ir.MathAcos:
		return f1(math.Acos)
	case ir.MathAsin:
		return f1(math.Asin)
	case ir.MathAtan:
		return f1(math.Atan)
	case ir.MathAtan2:
		return f2(math.Atan2)
	case ir.MathAsinh:
		return f1(math.Asinh)
	case ir.MathAcosh:
		return f1(math.Acosh)
	case ir.MathAtanh:
		return f1(math.Atanh)
	case ir.MathRadians:
		return f1(func(v float64) float64 { return v * math.Pi / 180 })
	case ir.MathDegrees:
		return f1(func(v float64) float64 { return v * 180 / math.Pi })
	case ir.MathCeil:
		return f1(math.Ceil)
	case ir.MathFloor:
		return f1(math.Floor)
	case ir.MathRound:
		return f1(math.RoundToEven)
	case ir.MathFract:
		return f1x(ffract)
	case ir.MathTrunc:
		return f1(math.Trunc)
	case ir.MathModf:
		// struct { fract, whole }
		if len(dst) != 2*n {
			return &xrt.Malformed{What: "modf result type"}
		}
		for i := 0; i < n; i++ {
			v := f32(a[i])
			whole := float32(math.Trunc(float64(v)))
			dst[i] = w32(float32(v - whole))
			dst[n+i] = w32(whole)
		}
	case ir.MathFrexp:
		if len(dst) != 2*n {
			return &xrt.Malformed{What: "frexp result type"}
		}
		for i := 0; i < n; i++ {
			fr, ex := math.Frexp(f64of(a[i]))
			dst[i] = wf64(fr)
			dst[n+i] = uint32(int32(ex))
		}
	case ir.MathLdexp:
		for i := range dst {
			dst[i] = wf64(math.Ldexp(f64of(a[i]), int(int32(b[i]))))
		}
	case ir.MathExp:
		return f1(math.Exp)
	case ir.MathExp2:
		return f1(math.Exp2)
	case ir.MathLog:
		return f1(math.Log)
	case ir.MathLog2:
		return f1(math.Log2)
	case ir.MathPow:
		return f2(math.Pow)
	case ir.MathDot:
		switch sk {
		case ir.ScalarFloat:
			dst[0] = wf64(dot64(a, b))
		default:
			var s uint32
			for i := range a {
				s += a[i] * b[i]
			}
			dst[0] = s
		}
	case ir.MathDot4I8Packed:
		var s int32
		for i := 0; i < 4; i++ {
			s += int32(int8(a[0]>>(8*i))) * int32(int8(b[0]>>(8*i)))
		}
		dst[0] = uint32(s)
	case ir.MathDot4U8Packed:
		var s uint32
		for i := 0; i < 4; i++ {
			s += (a[0] >> (8 * i) & 0xFF) * (b[0] >> (8 * i) & 0xFF)
		}
		dst[0] = s
	case ir.MathOuter:
		rows, cols := len(a), len(b)
		for j := 0; j < cols; j++ {
			for i := 0; i < rows; i++ {
				dst[j*rows+i] = w32(float32(f32(a[i]) * f32(b[j])))
			}
		}
	case ir.MathCross:
		ax, ay, az := f64of(a[0]), f64of(a[1]), f64of(a[2])
		bx, by, bz := f64of(b[0]), f64of(b[1]), f64of(b[2])
		dst[0] = wf64(ay*bz - az*by)
		dst[1] = wf64(az*bx - ax*bz)
		dst[2] = wf64(ax*by - ay*bx)
	case ir.MathDistance:
		s := 0.0
		for i := range a {
			dd := f64of(a[i]) - f64of(b[i])
			s += dd * dd
		}
		dst[0] = wf64(math.Sqrt(s))
	case ir.MathLength:
		if n == 1 {
			dst[0] = a[0] &^ 0x80000000
		} else {
			dst[0] = wf64(math.Sqrt(dot64(a, a)))
		}
	case ir.MathNormalize:
		l := math.Sqrt(dot64(a, a))
		for i := range dst {
			dst[i] = wf64(f64of(a[i]) / l)
		}
	case ir.MathFaceForward:
		neg := dot64(b, c) < 0
		for i := range dst {
			if neg {
				dst[i] = a[i]
			} else {
				dst[i] = a[i] ^ 0x80000000
			}
		}
	case ir.MathReflect:
		dp := dot64(b, a)
		for i := range dst {
			dst[i] = wf64(f64of(a[i]) - 2*dp*f64of(b[i]))
		}
	case ir.MathRefract:
		eta := f64of(c[0])
		dp := dot64(b, a)
		kk := 1 - eta*eta*(1-dp*dp)
		for i := range dst {
			if kk < 0 {
				dst[i] = 0
			} else {
				dst[i] = wf64(eta*f64of(a[i]) - (eta*dp+math.Sqrt(kk))*f64of(b[i]))
			}
		}
	case ir.MathSign:
		for i := range dst {
			if sk == ir.ScalarFloat {
				dst[i] = w32(fsign(f32(a[i])))
			} else {
				v := int32(a[i])
				switch {
				case v > 0:
					dst[i] = 1
				case v < 0:
					dst[i] = 0xFFFFFFFF
				default:
					dst[i] = 0
				}
			}
		}
	case ir.MathFma:
		for i := range dst {
			dst[i] = w32(fma32(f32(a[i]), f32(b[i]), f32(c[i])))
		}
	case ir.MathMix:
		for i := range dst {
			t := f64of(c[0])
			if len(c) > 1 {
				t = f64of(c[i])
			}
			dst[i] = wf64(f64of(a[i])*(1-t) + f64of(b[i])*t)
		}
	case ir.MathStep:
		for i := range dst {
			if f32(a[i]) <= f32(b[i]) {
				dst[i] = w32(1)
			} else {
				dst[i] = 0
			}
		}
	case ir.MathSmoothStep:
		for i := range dst {
			lo, hi, v := f64of(a[i]), f64of(b[i]), f64of(c[i])
			t := math.Min(math.Max((v-lo)/(hi-lo), 0), 1)
			dst[i] = wf64(t * t * (3 - 2*t))
		}
	case ir.MathSqrt:
		return f1(math.Sqrt)
	case ir.MathInverseSqrt:
		return f1(func(v float64) float64 { return 1 / math.Sqrt(v) })
	case ir.MathInverse:
		m := make([]float64, len(a))
		for i := range a {
			m[i] = f64of(a[i])
		}
		inv := inverse64(m, at.n)
		for i := range dst {
			dst[i] = wf64(inv[i])
		}
	case ir.MathTranspose:
		// a: cols x rows (column-major) -> dst: rows x cols
		for col := 0; col < at.cols; col++ {
			for row := 0; row < at.n; row++ {
				dst[row*at.cols+col] = a[col*at.n+row]
			}
		}
	case ir.MathDeterminant:
		m := make([]float64, len(a))
		for i := range a {
			m[i] = f64of(a[i])
		}
		dst[0] = wf64(det64(m, at.n))
	case ir.MathQuantizeF16:
		for i := range dst {
			dst[i] = quantizeF16(a[i])
		}
	case ir.MathCountTrailingZeros:
		for i := range dst {
			dst[i] = uint32(bits.TrailingZeros32(a[i]))
		}
	case ir.MathCountLeadingZeros:
		for i := range dst {
			dst[i] = uint32(bits.LeadingZeros32(a[i]))
		}
	case ir.MathCountOneBits:
		for i := range dst {
			dst[i] = uint32(bits.OnesCount32(a[i]))
		}
	case ir.MathReverseBits:
		for i := range dst {
			dst[i] = bits.Reverse32(a[i])
		}
	case ir.MathExtractBits:
		for i := range dst {
			dst[i] = extractBits(a[i], b[0], c[0], sk == ir.ScalarSint)
		}
	case ir.MathInsertBits:
		for i := range dst {
			dst[i] = insertBits(a[i], b[i], c[0], d[0])
		}
	case ir.MathFirstTrailingBit:
		for i := range dst {
			dst[i] = firstTrailingBit(a[i])
		}
	case ir.MathFirstLeadingBit:
		for i := range dst {
			if sk == ir.ScalarSint {
				dst[i] = firstLeadingBitI(int32(a[i]))
			} else {
				dst[i] = firstLeadingBitU(a[i])
			}
		}
	case ir.MathPack4x8snorm:
		var v uint32
		for i := 0; i < 4; i++ {
			v |= packSnorm(f32(a[i]), 127, 0xFF) << (8 * i)
		}
		dst[0] = v
	case ir.MathPack4x8unorm:
		var v uint32
		for i := 0; i < 4; i++ {
			v |= packUnorm(f32(a[i]), 255, 0xFF) << (8 * i)
		}
		dst[0] = v
	case ir.MathPack2x16snorm:
		dst[0] = packSnorm(f32(a[0]), 32767, 0xFFFF) | packSnorm(f32(a[1]), 32767, 0xFFFF)<<16
	case ir.MathPack2x16unorm:
		dst[0] = packUnorm(f32(a[0]), 65535, 0xFFFF) | packUnorm(f32(a[1]), 65535, 0xFFFF)<<16
	case ir.MathPack2x16float:
		dst[0] = uint32(f32ToF16Bits(a[0])) | uint32(f32ToF16Bits(a[1]))<<16
	case ir.MathPack4xI8, ir.MathPack4xU8:
		var v uint32
		for i := 0; i < 4; i++ {
			v |= (a[i] & 0xFF) << (8 * i)
		}
		dst[0] = v
	case ir.MathPack4xI8Clamp:
		var v uint32
		for i := 0; i < 4; i++ {
			v |= (uint32(iclamp(int32(a[i]), -128, 127)) & 0xFF) << (8 * i)
		}
		dst[0] = v
	case ir.MathPack4xU8Clamp:
		var v uint32
		for i := 0; i < 4; i++ {
			v |= uclamp(a[i], 0, 255) << (8 * i)
		}
		dst[0] = v
	case ir.MathUnpack4x8snorm:
		for i := 0; i < 4; i++ {
			dst[i] = wf64(math.Max(float64(int8(a[0]>>(8*i)))/127, -1))
		}
	case ir.MathUnpack4x8unorm:
		for i := 0; i < 4; i++ {
			dst[i] = wf64(float64(a[0]>>(8*i)&0xFF) / 255)
		}
	case ir.MathUnpack2x16snorm:
		for i := 0; i < 2; i++ {
			dst[i] = wf64(math.Max(float64(int16(a[0]>>(16*i)))/32767, -1))
		}
	case ir.MathUnpack2x16unorm:
		for i := 0; i < 2; i++ {
			dst[i] = wf64(float64(a[0]>>(16*i)&0xFFFF) / 65535)
		}
	case ir.MathUnpack2x16float:
		for i := 0; i < 2; i++ {
			dst[i] = f16BitsToF32(uint16(a[0] >> (16 * i)))
		}
	case ir.MathUnpack4xI8:
		for i := 0; i < 4; i++ {
			dst[i] = uint32(int32(int8(a[0] >> (8 * i))))
		}
	case ir.MathUnpack4xU8:
		for i := 0; i < 4; i++ {
			dst[i] = a[0] >> (8 * i) & 0xFF
		}
	default:
		return &xrt.Unsupported{What: fmt.Sprintf("math function %d", k.Fun)}
	}
	return nil
}
