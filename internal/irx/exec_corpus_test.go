package irx

import (
	"errors"
	"path/filepath"
	"strings"
	"testing"

	"github.com/gogpu/naga/ir"

	"verif/internal/xrt"
)

// generousBuffers makes a zeroed buffer for every uniform/storage global.
func generousBuffers(m *ir.Module) xrt.Buffers {
	b := xrt.Buffers{}
	for _, g := range m.GlobalVariables {
		if g.Binding == nil || (g.Space != ir.SpaceUniform && g.Space != ir.SpaceStorage) {
			continue
		}
		n := int(ir.TypeSize(m, g.Type)) + 1024
		b[xrt.Binding{Group: g.Binding.Group, Binding: g.Binding.Binding}] = make([]byte, n)
	}
	return b
}

// TestExecCorpusNoPanic runs every compute entry point of the corpus on zeroed buffers.
func TestExecCorpusNoPanic(t *testing.T) {
	outcome := map[string]int{}
	for _, f := range corpusFiles(t) {
		m, err := lowerErr(readFile(t, f))
		if err != nil {
			continue
		}
		p, err := Compile(m)
		if err != nil {
			t.Errorf("%s: compile: %v", filepath.Base(f), err)
			continue
		}
		for _, ep := range m.EntryPoints {
			if ep.Stage != ir.StageCompute {
				continue
			}
			err := p.Run(generousBuffers(m), xrt.Opts{EntryPoint: ep.Name, StepLimit: 200000})
			kind := "ok"
			var un *xrt.Unsupported
			var tr *xrt.Trap
			var sl *xrt.StepLimit
			var mf *xrt.Malformed
			switch {
			case err == nil:
			case errors.As(err, &un):
				kind = "unsupported"
			case errors.As(err, &tr):
				kind = "trap"
			case errors.As(err, &sl):
				kind = "steplimit"
			case errors.As(err, &mf):
				kind = "malformed"
				if strings.Contains(mf.What, "interpreter fault") {
					t.Errorf("%s %s: PANIC: %v", filepath.Base(f), ep.Name, err)
				}
			default:
				t.Errorf("%s %s: error of unknown type %T: %v", filepath.Base(f), ep.Name, err, err)
			}
			outcome[kind]++
			if testing.Verbose() && kind != "ok" {
				t.Logf("%s %s: %s: %v", filepath.Base(f), ep.Name, kind, err)
			}
		}
	}
	t.Logf("outcomes: %v", outcome)
}
