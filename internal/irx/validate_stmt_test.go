package irx

import (
	"testing"

	"github.com/gogpu/naga/ir"
)

const stmtSrc = `
enable subgroups;
enable wgpu_ray_query;
struct WS { a: u32, v: vec2<f32> }
@group(0) @binding(0) var<storage, read_write> out: array<u32>;
@group(0) @binding(1) var ts: texture_storage_2d_array<rgba32uint, write>;
@group(0) @binding(2) var ta: texture_storage_2d<r32sint, atomic>;
@group(0) @binding(3) var acc: acceleration_structure;
@group(0) @binding(4) var<storage, read_write> sa: atomic<i32>;
var<workgroup> wv: vec3<i32>;
var<workgroup> wst: WS;
fn hres(x: u32) -> u32 { return x * 2u; }
@compute @workgroup_size(64)
fn main(@builtin(local_invocation_index) lid: u32, @builtin(local_invocation_id) q: vec3<u32>) {
  let c = vec2<u32>(lid, q.y);
  let layer = q.z;
  let texel = vec4<u32>(lid, 1u, 2u, 3u);
  textureStore(ts, c, layer, texel);
  let iv = i32(lid) - 3i;
  textureAtomicMax(ta, c, iv);
  let w = workgroupUniformLoad(&wv);
  let ws = workgroupUniformLoad(&wst);
  let p = lid > 1u;
  let bal = subgroupBallot(p);
  let fv = vec2<f32>(f32(lid), 0.5);
  let sum = subgroupAdd(fv);
  let all = subgroupAll(p);
  let x = subgroupXor(iv);
  let sel = q.y & 3u;
  let sh = subgroupShuffle(fv, sel);
  let bc = subgroupBroadcast(iv, 2u);
  let qs = quadSwapX(texel);
  let old = atomicAdd(&sa, iv);
  let cr = hres(lid);
  var rq: ray_query;
  rayQueryInitialize(&rq, acc, RayDesc(4u, 255u, 0.1, 100.0, vec3<f32>(0.0), vec3<f32>(0.0, 1.0, 0.0)));
  let more = rayQueryProceed(&rq);
  let hit = f32(lid) * 0.5;
  rayQueryGenerateIntersection(&rq, hit);
  subgroupBarrier();
  textureBarrier();
  out[lid] = u32(w.x) + ws.a + bal.x + u32(sum.x) + select(0u, 1u, all) + u32(x) + u32(sh.y) + u32(bc) + qs.w + u32(old) + cr + select(0u, 1u, more);
}
`

func stmtOf[T ir.StatementKind](t *testing.T, fn *ir.Function, pred func(T) bool, edit func(T) T) {
	t.Helper()
	ok := editStmt((*[]ir.Statement)(&fn.Body), func(b *[]ir.Statement, i int) bool {
		k, is := (*b)[i].Kind.(T)
		if !is || (pred != nil && !pred(k)) {
			return false
		}
		(*b)[i].Kind = edit(k)
		return true
	})
	if !ok {
		t.Fatalf("statement not found")
	}
}

func TestValidateStatementKindsClean(t *testing.T) {
	m := lower(t, stmtSrc)
	rep := Validate(m, ValidateOpts{})
	if !rep.OK() {
		t.Fatalf("base module has findings: %v", rep.Findings)
	}
	if rep.Fired[RuleStmtOperand] < 20 || rep.Fired[RuleStmtResult] < 20 {
		t.Errorf("statement rules barely exercised: %d operand checks, %d result checks", rep.Fired[RuleStmtOperand], rep.Fired[RuleStmtResult])
	}
}

func TestValidateStatementMutations(t *testing.T) {
	named := func(fn *ir.Function, n string) ir.ExpressionHandle {
		for h, s := range fn.NamedExpressions {
			if s == n {
				return h
			}
		}
		t.Fatalf("no expression named %s", n)
		return 0
	}
	type mut struct {
		name string
		rule string
		f    func(fn *ir.Function)
	}
	gather := func(pred func(ir.StmtSubgroupGather) bool, edit func(fn *ir.Function, s ir.StmtSubgroupGather) ir.StmtSubgroupGather) func(fn *ir.Function) {
		return func(fn *ir.Function) {
			stmtOf(t, fn, pred, func(s ir.StmtSubgroupGather) ir.StmtSubgroupGather { return edit(fn, s) })
		}
	}
	isShuffle := func(s ir.StmtSubgroupGather) bool { _, ok := s.Mode.(ir.GatherShuffle); return ok }
	muts := []mut{
		{"gather result is the argument's let", RuleStmtResult, gather(isShuffle, func(fn *ir.Function, s ir.StmtSubgroupGather) ir.StmtSubgroupGather {
			s.Result = named(fn, "fv")
			return s
		})},
		{"gather result is another operation's result (type differs)", RuleStmtResult, gather(isShuffle, func(fn *ir.Function, s ir.StmtSubgroupGather) ir.StmtSubgroupGather {
			s.Result = named(fn, "x")
			return s
		})},
		{"gather argument of another type", RuleStmtResult, gather(isShuffle, func(fn *ir.Function, s ir.StmtSubgroupGather) ir.StmtSubgroupGather {
			s.Argument = named(fn, "iv")
			return s
		})},
		{"gather lane operand is a vector", RuleStmtOperand, gather(isShuffle, func(fn *ir.Function, s ir.StmtSubgroupGather) ir.StmtSubgroupGather {
			s.Mode = ir.GatherShuffle{Index: named(fn, "c")}
			return s
		})},
		{"gather result shared with the broadcast (two producers, one orphan)", RuleStmtResult, gather(isShuffle, func(fn *ir.Function, s ir.StmtSubgroupGather) ir.StmtSubgroupGather {
			s.Result = named(fn, "qs")
			s.Argument = named(fn, "texel")
			return s
		})},
		{"collective result is a ballot result", RuleStmtResult, func(fn *ir.Function) {
			stmtOf(t, fn, func(s ir.StmtSubgroupCollectiveOperation) bool { return s.Op == ir.SubgroupOperationAdd }, func(s ir.StmtSubgroupCollectiveOperation) ir.StmtSubgroupCollectiveOperation {
				s.Result = named(fn, "bal")
				return s
			})
		}},
		{"subgroupAll of an integer", RuleStmtOperand, func(fn *ir.Function) {
			stmtOf(t, fn, func(s ir.StmtSubgroupCollectiveOperation) bool { return s.Op == ir.SubgroupOperationAll }, func(s ir.StmtSubgroupCollectiveOperation) ir.StmtSubgroupCollectiveOperation {
				s.Argument = named(fn, "iv")
				return s
			})
		}},
		{"subgroupXor of a float vector", RuleStmtOperand, func(fn *ir.Function) {
			stmtOf(t, fn, func(s ir.StmtSubgroupCollectiveOperation) bool { return s.Op == ir.SubgroupOperationXor }, func(s ir.StmtSubgroupCollectiveOperation) ir.StmtSubgroupCollectiveOperation {
				s.Argument = named(fn, "fv")
				return s
			})
		}},
		{"ballot predicate is an integer", RuleStmtOperand, func(fn *ir.Function) {
			stmtOf(t, fn, nil, func(s ir.StmtSubgroupBallot) ir.StmtSubgroupBallot {
				h := named(fn, "sel")
				s.Predicate = &h
				return s
			})
		}},
		{"ballot result is a collective result", RuleStmtResult, func(fn *ir.Function) {
			stmtOf(t, fn, nil, func(s ir.StmtSubgroupBallot) ir.StmtSubgroupBallot {
				s.Result = named(fn, "sum")
				return s
			})
		}},
		{"workgroupUniformLoad result is a call result", RuleStmtResult, func(fn *ir.Function) {
			stmtOf(t, fn, nil, func(s ir.StmtWorkGroupUniformLoad) ir.StmtWorkGroupUniformLoad {
				s.Result = named(fn, "cr")
				return s
			})
		}},
		{"workgroupUniformLoad of a storage pointer", RuleStmtOperand, func(fn *ir.Function) {
			stmtOf(t, fn, nil, func(s ir.StmtWorkGroupUniformLoad) ir.StmtWorkGroupUniformLoad {
				s.Pointer = ir.ExpressionHandle(findExpr[ir.ExprGlobalVariable](fn, func(g ir.ExprGlobalVariable) bool { return g.Variable == 4 }))
				return s
			})
		}},
		{"image store value of the wrong texel type", RuleStmtOperand, func(fn *ir.Function) {
			stmtOf(t, fn, nil, func(s ir.StmtImageStore) ir.StmtImageStore { s.Value = named(fn, "fv"); return s })
		}},
		{"image store coordinate is a scalar", RuleStmtOperand, func(fn *ir.Function) {
			stmtOf(t, fn, nil, func(s ir.StmtImageStore) ir.StmtImageStore { s.Coordinate = named(fn, "layer"); return s })
		}},
		{"image store without array index on an arrayed image", RuleStmtOperand, func(fn *ir.Function) {
			stmtOf(t, fn, nil, func(s ir.StmtImageStore) ir.StmtImageStore { s.ArrayIndex = nil; return s })
		}},
		{"image store to a non-image", RuleStmtOperand, func(fn *ir.Function) {
			stmtOf(t, fn, nil, func(s ir.StmtImageStore) ir.StmtImageStore { s.Image = named(fn, "c"); return s })
		}},
		{"image atomic value of the wrong scalar", RuleStmtOperand, func(fn *ir.Function) {
			stmtOf(t, fn, nil, func(s ir.StmtImageAtomic) ir.StmtImageAtomic { s.Value = named(fn, "sel"); return s })
		}},
		{"image atomic on the write-only image", RuleStmtOperand, func(fn *ir.Function) {
			var img ir.ExpressionHandle
			stmtOf(t, fn, nil, func(s ir.StmtImageStore) ir.StmtImageStore { img = s.Image; return s })
			stmtOf(t, fn, nil, func(s ir.StmtImageAtomic) ir.StmtImageAtomic { s.Image = img; return s })
		}},
		{"ray query on a non-query", RuleStmtOperand, func(fn *ir.Function) {
			stmtOf(t, fn, func(s ir.StmtRayQuery) bool { _, ok := s.Fun.(ir.RayQueryProceed); return ok }, func(s ir.StmtRayQuery) ir.StmtRayQuery {
				s.Query = named(fn, "c")
				return s
			})
		}},
		{"ray query proceed result is an atomic result", RuleStmtResult, func(fn *ir.Function) {
			stmtOf(t, fn, func(s ir.StmtRayQuery) bool { _, ok := s.Fun.(ir.RayQueryProceed); return ok }, func(s ir.StmtRayQuery) ir.StmtRayQuery {
				s.Fun = ir.RayQueryProceed{Result: named(fn, "old")}
				return s
			})
		}},
		{"ray query hit distance is an integer", RuleStmtOperand, func(fn *ir.Function) {
			stmtOf(t, fn, func(s ir.StmtRayQuery) bool { _, ok := s.Fun.(ir.RayQueryGenerateIntersection); return ok }, func(s ir.StmtRayQuery) ir.StmtRayQuery {
				s.Fun = ir.RayQueryGenerateIntersection{HitT: named(fn, "sel")}
				return s
			})
		}},
		{"ray query descriptor is a vector", RuleStmtOperand, func(fn *ir.Function) {
			stmtOf(t, fn, func(s ir.StmtRayQuery) bool { _, ok := s.Fun.(ir.RayQueryInitialize); return ok }, func(s ir.StmtRayQuery) ir.StmtRayQuery {
				f := s.Fun.(ir.RayQueryInitialize)
				f.Descriptor = named(fn, "c")
				s.Fun = f
				return s
			})
		}},
		{"barrier with unknown flags", RuleStmtOperand, func(fn *ir.Function) {
			stmtOf(t, fn, nil, func(s ir.StmtBarrier) ir.StmtBarrier { s.Flags |= 1 << 9; return s })
		}},
		{"call statement removed: its result has no producer", RuleStmtResult, func(fn *ir.Function) {
			editStmt((*[]ir.Statement)(&fn.Body), func(b *[]ir.Statement, i int) bool {
				if _, ok := (*b)[i].Kind.(ir.StmtCall); ok {
					*b = append((*b)[:i:i], (*b)[i+1:]...)
					return true
				}
				return false
			})
		}},
		{"atomic statement duplicated: its result has two producers", RuleStmtResult, func(fn *ir.Function) {
			editStmt((*[]ir.Statement)(&fn.Body), func(b *[]ir.Statement, i int) bool {
				if _, ok := (*b)[i].Kind.(ir.StmtAtomic); ok {
					nb := append(append(append([]ir.Statement{}, (*b)[:i+1]...), (*b)[i]), (*b)[i+1:]...)
					*b = nb
					return true
				}
				return false
			})
		}},
	}
	for _, mu := range muts {
		m := lower(t, stmtSrc)
		mu.f(&epByName(m, "main").Function)
		rep := Validate(m, ValidateOpts{SkipNagaValidate: true})
		if rep.Count(mu.rule) == 0 {
			t.Errorf("%s: rule %s did not fire; findings: %v", mu.name, mu.rule, rep.Findings)
		}
	}
}
