package irx

import (
	"encoding/binary"
	"errors"
	"math"
	"strings"
	"testing"

	"verif/internal/xrt"
)

func u32buf(v ...uint32) []byte {
	b := make([]byte, 4*len(v))
	for i, x := range v {
		binary.LittleEndian.PutUint32(b[4*i:], x)
	}
	return b
}

func i32buf(v ...int32) []byte {
	u := make([]uint32, len(v))
	for i, x := range v {
		u[i] = uint32(x)
	}
	return u32buf(u...)
}

func f32buf(v ...float32) []byte {
	u := make([]uint32, len(v))
	for i, x := range v {
		u[i] = math.Float32bits(x)
	}
	return u32buf(u...)
}

func rdU32(b []byte) []uint32 {
	o := make([]uint32, len(b)/4)
	for i := range o {
		o[i] = binary.LittleEndian.Uint32(b[4*i:])
	}
	return o
}

func rdI32(b []byte) []int32 {
	u := rdU32(b)
	o := make([]int32, len(u))
	for i, x := range u {
		o[i] = int32(x)
	}
	return o
}

func rdF32(b []byte) []float32 {
	u := rdU32(b)
	o := make([]float32, len(u))
	for i, x := range u {
		o[i] = math.Float32frombits(x)
	}
	return o
}

func bnd(g, b uint32) xrt.Binding { return xrt.Binding{Group: g, Binding: b} }

// run lowers src and executes it; buffer 0 is `o` (zeroed, n words) unless given in extra.
func run(t *testing.T, src string, outWords int, extra xrt.Buffers) (xrt.Buffers, error) {
	t.Helper()
	m := lower(t, src)
	bufs := xrt.Buffers{bnd(0, 0): make([]byte, 4*outWords)}
	for k, v := range extra {
		bufs[k] = append([]byte(nil), v...)
	}
	err := Exec(m, bufs, xrt.Opts{})
	return bufs, err
}

const hdrI = "@group(0) @binding(0) var<storage, read_write> o: array<i32>;\n"
const hdrU = "@group(0) @binding(0) var<storage, read_write> o: array<u32>;\n"
const hdrF = "@group(0) @binding(0) var<storage, read_write> o: array<f32>;\n"
const inI = "@group(0) @binding(1) var<storage, read> a: array<i32>;\n"
const inU = "@group(0) @binding(1) var<storage, read> a: array<u32>;\n"
const inF = "@group(0) @binding(1) var<storage, read> a: array<f32>;\n"
const cs = "@compute @workgroup_size(1) "

func wantI(t *testing.T, src string, in []int32, want ...int32) {
	t.Helper()
	bufs, err := run(t, src, len(want), xrt.Buffers{bnd(0, 1): i32buf(in...)})
	if err != nil {
		t.Fatalf("exec: %v", err)
	}
	got := rdI32(bufs[bnd(0, 0)])
	for i := range want {
		if got[i] != want[i] {
			t.Fatalf("o = %v, want %v", got, want)
		}
	}
}

func wantU(t *testing.T, src string, in []uint32, want ...uint32) {
	t.Helper()
	bufs, err := run(t, src, len(want), xrt.Buffers{bnd(0, 1): u32buf(in...)})
	if err != nil {
		t.Fatalf("exec: %v", err)
	}
	got := rdU32(bufs[bnd(0, 0)])
	for i := range want {
		if got[i] != want[i] {
			t.Fatalf("o = %#x, want %#x", got, want)
		}
	}
}

// wantF compares with a relative tolerance of tol (0 = bit exact).
func wantF(t *testing.T, src string, in []float32, tol float64, want ...float32) {
	t.Helper()
	bufs, err := run(t, src, len(want), xrt.Buffers{bnd(0, 1): f32buf(in...)})
	if err != nil {
		t.Fatalf("exec: %v", err)
	}
	got := rdF32(bufs[bnd(0, 0)])
	for i := range want {
		if tol == 0 {
			if math.Float32bits(got[i]) != math.Float32bits(want[i]) {
				t.Fatalf("o = %v, want %v (index %d: %#x vs %#x)", got, want, i, math.Float32bits(got[i]), math.Float32bits(want[i]))
			}
			continue
		}
		d := math.Abs(float64(got[i]) - float64(want[i]))
		if d > tol*math.Max(1, math.Abs(float64(want[i]))) {
			t.Fatalf("o = %v, want %v (index %d)", got, want, i)
		}
	}
}

func wantTrap(t *testing.T, err error, kind string) {
	t.Helper()
	var tr *xrt.Trap
	if !errors.As(err, &tr) || tr.Kind != kind {
		t.Fatalf("err = %v, want trap %s", err, kind)
	}
}

func TestExecSmoke(t *testing.T) {
	wantI(t, hdrI+inI+cs+"fn main() { o[0] = a[0] + a[1] * 2; }", []int32{3, 4}, 11)
}

var _ = strings.Contains

const benchSrc = `
struct S { a: i32, v: vec3<f32>, arr: array<u32, 4> }
@group(0) @binding(0) var<storage, read_write> out: array<i32>;
@group(0) @binding(1) var<uniform> u: S;
var<private> cnt: i32 = 3;
const K = array<i32,3>(10,20,30);
fn helper(p: ptr<function, i32>, q: i32) -> i32 {
  if (q > 2) { *p = q; return 1; }
  switch q { case 1, 2: { *p = *p + 1; } default: { return 5; } }
  return *p;
}
@compute @workgroup_size(1)
fn main(@builtin(global_invocation_id) gid: vec3<u32>) {
  var x = i32(gid.x) + cnt;
  var y: i32;
  let r = helper(&x, 2);
  var v = vec3<f32>(1.0, 2.0, 3.0);
  v.y = u.v.x;
  for (var i = 0; i < 3; i++) { y += K[i]; if (i == 1) { continue; } }
  out[gid.x] = x + y + r + i32(v.y) + i32(arrayLength(&out)) + i32(u.arr[2]);
}
`

func BenchmarkExec(b *testing.B) {
	m := lower(b, benchSrc)
	bufs := xrt.Buffers{bnd(0, 0): make([]byte, 16), bnd(0, 1): make([]byte, 64)}
	b.ResetTimer()
	for i := 0; i < b.N; i++ {
		if err := Exec(m, bufs, xrt.Opts{}); err != nil {
			b.Fatal(err)
		}
	}
}

func BenchmarkRunPrepared(b *testing.B) {
	m := lower(b, benchSrc)
	p, err := Compile(m)
	if err != nil {
		b.Fatal(err)
	}
	bufs := xrt.Buffers{bnd(0, 0): make([]byte, 16), bnd(0, 1): make([]byte, 64)}
	b.ResetTimer()
	for i := 0; i < b.N; i++ {
		if err := p.Run(bufs, xrt.Opts{}); err != nil {
			b.Fatal(err)
		}
	}
}

func BenchmarkValidate(b *testing.B) {
	m := lower(b, benchSrc)
	b.ResetTimer()
	for i := 0; i < b.N; i++ {
		Validate(m, ValidateOpts{})
	}
}
