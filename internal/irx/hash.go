// Package irx contains three independent tools that operate on gogpu/naga's IR:
// a canonical deep hash / diff / clone of a module (hash.go), an IR interpreter (exec*.go)
// and a strict IR validator that decides property C09 (validate*.go, infer.go).
package irx

import (
	"crypto/sha256"
	"encoding/hex"
	"math"
	"reflect"
	"sort"
	"strconv"
	"strings"
	"sync"
	"unsafe"

	"github.com/gogpu/naga/ir"
)

// HashOptions selects what the canonical walk leaves out.
type HashOptions struct {
	// IgnoreNames erases every string field called Name/name and every "name map"
	// (map or slice fields whose identifier contains "Name", e.g. Function.NamedExpressions,
	// Module.TypeAliasNames).
	IgnoreNames bool
	// IgnoreSpans erases source-span fields: struct-typed fields whose *type* is called Span,
	// SourceSpan, Location or SourceLocation (or slices/maps of such). The numeric StructType.Span
	// (byte size) is never a span in this sense and is always hashed.
	IgnoreSpans bool
}

func (o HashOptions) idx() int {
	i := 0
	if o.IgnoreNames {
		i |= 1
	}
	if o.IgnoreSpans {
		i |= 2
	}
	return i
}

// Hash returns the hex digest of the canonical serialisation of m.
func Hash(m *ir.Module) string { return HashOpts(m, HashOptions{}) }

// HashOpts is Hash with options.
func HashOpts(m *ir.Module, o HashOptions) string {
	e := getEnc(o)
	e.value(reflect.ValueOf(m))
	sum := sha256.Sum256(e.buf)
	putEnc(e)
	return hex.EncodeToString(sum[:16])
}

// Snapshot returns the canonical serialisation that Hash hashes. Two modules are deep-equal
// (pointers followed, nil and empty slices/maps identified, map order ignored) iff their
// snapshots are byte-equal.
func Snapshot(m *ir.Module) []byte { return SnapshotOpts(m, HashOptions{}) }

// SnapshotOpts is Snapshot with options.
func SnapshotOpts(m *ir.Module, o HashOptions) []byte {
	e := getEnc(o)
	e.value(reflect.ValueOf(m))
	out := append([]byte(nil), e.buf...)
	putEnc(e)
	return out
}

// HashValue hashes an arbitrary Go value with the same canonical walk (used for sub-objects).
func HashValue(v any, o HashOptions) string {
	e := getEnc(o)
	e.value(reflect.ValueOf(v))
	sum := sha256.Sum256(e.buf)
	putEnc(e)
	return hex.EncodeToString(sum[:16])
}

// ---------------------------------------------------------------------------------------------
// encoder

type encFn func(e *enc, v reflect.Value)

type enc struct {
	o     HashOptions
	cache *sync.Map // reflect.Type -> *encFn (per option set)
	buf   []byte
	stack []stackKey // containers (pointers, slices, maps) currently being walked: cycle detection
}

type stackKey struct {
	p    uintptr
	kind reflect.Kind
	n    int
}

var (
	encPools   [4]sync.Pool
	planCaches [4]sync.Map
)

func getEnc(o HashOptions) *enc {
	i := o.idx()
	if p := encPools[i].Get(); p != nil {
		e := p.(*enc)
		e.buf = e.buf[:0]
		e.stack = e.stack[:0]
		return e
	}
	return &enc{o: o, cache: &planCaches[i], buf: make([]byte, 0, 4096)}
}

func putEnc(e *enc) {
	if cap(e.buf) <= 1<<20 {
		encPools[e.o.idx()].Put(e)
	}
}

func (e *enc) uvarint(x uint64) {
	for x >= 0x80 {
		e.buf = append(e.buf, byte(x)|0x80)
		x >>= 7
	}
	e.buf = append(e.buf, byte(x))
}

func (e *enc) value(v reflect.Value) {
	if !v.IsValid() {
		e.buf = append(e.buf, 0)
		return
	}
	e.buf = append(e.buf, 1)
	e.plan(v.Type())(e, v)
}

func (e *enc) plan(t reflect.Type) encFn {
	if p, ok := e.cache.Load(t); ok {
		return *(p.(*encFn))
	}
	// Slow path: compile under a lock, publish only finished plans.
	compileMu.Lock()
	defer compileMu.Unlock()
	c := &compiler{o: e.o, cache: e.cache, pending: map[reflect.Type]*encFn{}}
	p := c.get(t)
	for k, v := range c.pending {
		e.cache.Store(k, v)
	}
	return *p
}

var compileMu sync.Mutex

type compiler struct {
	o       HashOptions
	cache   *sync.Map
	pending map[reflect.Type]*encFn
}

func (c *compiler) get(t reflect.Type) *encFn {
	if p, ok := c.cache.Load(t); ok {
		return p.(*encFn)
	}
	if p, ok := c.pending[t]; ok {
		return p
	}
	slot := new(encFn)
	c.pending[t] = slot
	*slot = c.compile(t)
	return slot
}

// enter pushes a container on the cycle stack; it reports false (after writing a back
// reference) when the container is already being walked.
func (e *enc) enter(p uintptr, kind reflect.Kind, n int) bool {
	k := stackKey{p, kind, n}
	for i := len(e.stack) - 1; i >= 0; i-- {
		if e.stack[i] == k {
			e.buf = append(e.buf, 0xFE)
			e.uvarint(uint64(len(e.stack) - i))
			return false
		}
	}
	e.stack = append(e.stack, k)
	return true
}

func (e *enc) leave() { e.stack = e.stack[:len(e.stack)-1] }

func isSpanType(t reflect.Type) bool {
	for t.Kind() == reflect.Slice || t.Kind() == reflect.Pointer || t.Kind() == reflect.Array || t.Kind() == reflect.Map {
		t = t.Elem()
	}
	if t.Kind() != reflect.Struct {
		return false
	}
	switch t.Name() {
	case "Span", "SourceSpan", "Location", "SourceLocation":
		return true
	}
	return false
}

func skipField(f reflect.StructField, o HashOptions) bool {
	if o.IgnoreNames {
		k := f.Type.Kind()
		if k == reflect.String && strings.EqualFold(f.Name, "name") {
			return true
		}
		if (k == reflect.Map || k == reflect.Slice) && (strings.Contains(f.Name, "Name") || strings.Contains(f.Name, "name")) {
			return true
		}
	}
	if o.IgnoreSpans && isSpanType(f.Type) {
		return true
	}
	return false
}

func (e *compiler) compile(t reflect.Type) encFn {
	var fn encFn
	switch t.Kind() {
	case reflect.Bool:
		fn = func(e *enc, v reflect.Value) {
			if v.Bool() {
				e.buf = append(e.buf, 1)
			} else {
				e.buf = append(e.buf, 0)
			}
		}
	case reflect.Int, reflect.Int8, reflect.Int16, reflect.Int32, reflect.Int64:
		fn = func(e *enc, v reflect.Value) {
			x := v.Int()
			e.uvarint(uint64(x<<1) ^ uint64(x>>63))
		}
	case reflect.Uint, reflect.Uint8, reflect.Uint16, reflect.Uint32, reflect.Uint64, reflect.Uintptr:
		fn = func(e *enc, v reflect.Value) { e.uvarint(v.Uint()) }
	case reflect.Float32:
		fn = func(e *enc, v reflect.Value) { e.uvarint(uint64(math.Float32bits(float32(v.Float())))) }
	case reflect.Float64:
		fn = func(e *enc, v reflect.Value) { e.uvarint(math.Float64bits(v.Float())) }
	case reflect.Complex64, reflect.Complex128:
		fn = func(e *enc, v reflect.Value) {
			c := v.Complex()
			e.uvarint(math.Float64bits(real(c)))
			e.uvarint(math.Float64bits(imag(c)))
		}
	case reflect.String:
		fn = func(e *enc, v reflect.Value) {
			s := v.String()
			e.uvarint(uint64(len(s)))
			e.buf = append(e.buf, s...)
		}
	case reflect.Struct:
		type fld struct {
			i  int
			fn *encFn
		}
		var fs []fld
		for i := 0; i < t.NumField(); i++ {
			f := t.Field(i)
			if skipField(f, e.o) {
				continue
			}
			fs = append(fs, fld{i, e.get(f.Type)})
		}
		fn = func(e *enc, v reflect.Value) {
			for _, f := range fs {
				(*f.fn)(e, v.Field(f.i))
			}
		}
	case reflect.Array:
		el := e.get(t.Elem())
		n := t.Len()
		fn = func(e *enc, v reflect.Value) {
			for i := 0; i < n; i++ {
				(*el)(e, v.Index(i))
			}
		}
	case reflect.Slice:
		el := e.get(t.Elem())
		scalarElem := isScalarKind(t.Elem().Kind())
		fn = func(e *enc, v reflect.Value) {
			n := v.Len()
			e.uvarint(uint64(n))
			if n == 0 {
				return
			}
			if scalarElem {
				for i := 0; i < n; i++ {
					(*el)(e, v.Index(i))
				}
				return
			}
			if !e.enter(v.Pointer(), reflect.Slice, n) {
				return
			}
			for i := 0; i < n; i++ {
				(*el)(e, v.Index(i))
			}
			e.leave()
		}
	case reflect.Pointer:
		el := e.get(t.Elem())
		scalarElem := isScalarKind(t.Elem().Kind())
		fn = func(e *enc, v reflect.Value) {
			if v.IsNil() {
				e.buf = append(e.buf, 0)
				return
			}
			e.buf = append(e.buf, 1)
			if scalarElem {
				(*el)(e, v.Elem())
				return
			}
			if !e.enter(v.Pointer(), reflect.Pointer, 0) {
				return
			}
			(*el)(e, v.Elem())
			e.leave()
		}
	case reflect.Interface:
		fn = func(e *enc, v reflect.Value) {
			if v.IsNil() {
				e.buf = append(e.buf, 0)
				return
			}
			c := v.Elem()
			d := dynInfoFor(c.Type())
			e.buf = append(e.buf, 1)
			e.uvarint(uint64(len(d.name)))
			e.buf = append(e.buf, d.name...)
			e.plan(c.Type())(e, c)
		}
	case reflect.Map:
		kf, vf := e.get(t.Key()), e.get(t.Elem())
		fn = func(e *enc, v reflect.Value) {
			n := v.Len()
			e.uvarint(uint64(n))
			if n == 0 {
				return
			}
			if !e.enter(v.Pointer(), reflect.Map, 0) {
				return
			}
			// Serialise every entry separately, sort the entries by key bytes, then append.
			type ent struct{ k, kv []byte }
			ents := make([]ent, 0, n)
			sub := &enc{o: e.o, cache: e.cache, stack: e.stack}
			it := v.MapRange()
			for it.Next() {
				sub.buf = sub.buf[:0]
				(*kf)(sub, it.Key())
				kl := len(sub.buf)
				(*vf)(sub, it.Value())
				b := append([]byte(nil), sub.buf...)
				ents = append(ents, ent{b[:kl], b})
			}
			sort.Slice(ents, func(i, j int) bool { return string(ents[i].k) < string(ents[j].k) })
			for _, en := range ents {
				e.buf = append(e.buf, en.kv...)
			}
			e.leave()
		}
	case reflect.Chan, reflect.Func, reflect.UnsafePointer:
		// Identity only: nil-ness.
		fn = func(e *enc, v reflect.Value) {
			if v.IsNil() {
				e.buf = append(e.buf, 0)
			} else {
				e.buf = append(e.buf, 1)
			}
		}
	default:
		fn = func(e *enc, v reflect.Value) { e.buf = append(e.buf, 0xFF) }
	}
	return fn
}

func isScalarKind(k reflect.Kind) bool {
	switch k {
	case reflect.Bool, reflect.Int, reflect.Int8, reflect.Int16, reflect.Int32, reflect.Int64,
		reflect.Uint, reflect.Uint8, reflect.Uint16, reflect.Uint32, reflect.Uint64, reflect.Uintptr,
		reflect.Float32, reflect.Float64, reflect.String:
		return true
	}
	return false
}

type dynInfo struct{ name string }

var dynCache sync.Map // reflect.Type -> *dynInfo

func dynInfoFor(t reflect.Type) *dynInfo {
	if d, ok := dynCache.Load(t); ok {
		return d.(*dynInfo)
	}
	d := &dynInfo{name: t.PkgPath() + "." + t.String()}
	dynCache.Store(t, d)
	return d
}

// ---------------------------------------------------------------------------------------------
// Diff

// Diff returns the first few paths at which a and b differ under the same notion of equality as
// Hash ("" when equal).
func Diff(a, b *ir.Module) string { return DiffOpts(a, b, HashOptions{}) }

// DiffOpts is Diff with options.
func DiffOpts(a, b *ir.Module, o HashOptions) string {
	d := differ{o: o, max: 6}
	d.walk(reflect.ValueOf(a), reflect.ValueOf(b), "m", 0)
	return strings.Join(d.out, "\n")
}

type differ struct {
	o   HashOptions
	out []string
	max int
}

func (d *differ) add(path, msg string) {
	if len(d.out) < d.max {
		d.out = append(d.out, path+": "+msg)
	}
}

func brief(v reflect.Value) string {
	if !v.IsValid() {
		return "<invalid>"
	}
	switch v.Kind() {
	case reflect.Bool:
		return strconv.FormatBool(v.Bool())
	case reflect.Int, reflect.Int8, reflect.Int16, reflect.Int32, reflect.Int64:
		return strconv.FormatInt(v.Int(), 10)
	case reflect.Uint, reflect.Uint8, reflect.Uint16, reflect.Uint32, reflect.Uint64, reflect.Uintptr:
		return strconv.FormatUint(v.Uint(), 10)
	case reflect.Float32, reflect.Float64:
		return strconv.FormatFloat(v.Float(), 'g', -1, 64)
	case reflect.String:
		return strconv.Quote(v.String())
	case reflect.Slice, reflect.Map:
		return v.Type().String() + "(len " + strconv.Itoa(v.Len()) + ")"
	case reflect.Interface, reflect.Pointer:
		if v.IsNil() {
			return "nil"
		}
		return brief(v.Elem())
	}
	return v.Type().String()
}

func (d *differ) walk(a, b reflect.Value, path string, depth int) {
	if len(d.out) >= d.max || depth > 200 {
		return
	}
	if !a.IsValid() || !b.IsValid() {
		if a.IsValid() != b.IsValid() {
			d.add(path, brief(a)+" != "+brief(b))
		}
		return
	}
	if a.Type() != b.Type() {
		d.add(path, "type "+a.Type().String()+" != "+b.Type().String())
		return
	}
	switch a.Kind() {
	case reflect.Bool:
		if a.Bool() != b.Bool() {
			d.add(path, brief(a)+" != "+brief(b))
		}
	case reflect.Int, reflect.Int8, reflect.Int16, reflect.Int32, reflect.Int64:
		if a.Int() != b.Int() {
			d.add(path, brief(a)+" != "+brief(b))
		}
	case reflect.Uint, reflect.Uint8, reflect.Uint16, reflect.Uint32, reflect.Uint64, reflect.Uintptr:
		if a.Uint() != b.Uint() {
			d.add(path, brief(a)+" != "+brief(b))
		}
	case reflect.Float32:
		if math.Float32bits(float32(a.Float())) != math.Float32bits(float32(b.Float())) {
			d.add(path, brief(a)+" != "+brief(b))
		}
	case reflect.Float64:
		if math.Float64bits(a.Float()) != math.Float64bits(b.Float()) {
			d.add(path, brief(a)+" != "+brief(b))
		}
	case reflect.Complex64, reflect.Complex128:
		if a.Complex() != b.Complex() {
			d.add(path, "complex differs")
		}
	case reflect.String:
		if a.String() != b.String() {
			d.add(path, brief(a)+" != "+brief(b))
		}
	case reflect.Struct:
		t := a.Type()
		for i := 0; i < t.NumField(); i++ {
			f := t.Field(i)
			if skipField(f, d.o) {
				continue
			}
			d.walk(a.Field(i), b.Field(i), path+"."+f.Name, depth+1)
		}
	case reflect.Array:
		for i := 0; i < a.Len(); i++ {
			d.walk(a.Index(i), b.Index(i), path+"["+strconv.Itoa(i)+"]", depth+1)
		}
	case reflect.Slice:
		if a.Len() != b.Len() {
			d.add(path, "len "+strconv.Itoa(a.Len())+" != "+strconv.Itoa(b.Len()))
		}
		n := min(a.Len(), b.Len())
		for i := 0; i < n; i++ {
			d.walk(a.Index(i), b.Index(i), path+"["+strconv.Itoa(i)+"]", depth+1)
		}
	case reflect.Pointer:
		if a.IsNil() || b.IsNil() {
			if a.IsNil() != b.IsNil() {
				d.add(path, brief(a)+" != "+brief(b))
			}
			return
		}
		if a.Pointer() == b.Pointer() {
			return
		}
		d.walk(a.Elem(), b.Elem(), path, depth+1)
	case reflect.Interface:
		if a.IsNil() || b.IsNil() {
			if a.IsNil() != b.IsNil() {
				d.add(path, brief(a)+" != "+brief(b))
			}
			return
		}
		ae, be := a.Elem(), b.Elem()
		if ae.Type() != be.Type() {
			d.add(path, "dynamic type "+ae.Type().String()+" != "+be.Type().String())
			return
		}
		d.walk(ae, be, path+"("+ae.Type().Name()+")", depth+1)
	case reflect.Map:
		if a.Len() != b.Len() {
			d.add(path, "map len "+strconv.Itoa(a.Len())+" != "+strconv.Itoa(b.Len()))
		}
		if a.Len() == 0 && b.Len() == 0 {
			return
		}
		// Match entries by canonical key bytes.
		index := func(m reflect.Value) map[string][2]reflect.Value {
			out := make(map[string][2]reflect.Value, m.Len())
			it := m.MapRange()
			for it.Next() {
				e := getEnc(d.o)
				e.value(it.Key())
				out[string(e.buf)] = [2]reflect.Value{it.Key(), it.Value()}
				putEnc(e)
			}
			return out
		}
		ia, ib := index(a), index(b)
		keys := make([]string, 0, len(ia))
		for k := range ia {
			keys = append(keys, k)
		}
		sort.Strings(keys)
		for _, k := range keys {
			pa := ia[k]
			pb, ok := ib[k]
			if !ok {
				d.add(path+"["+brief(pa[0])+"]", "missing in b")
				continue
			}
			d.walk(pa[1], pb[1], path+"["+brief(pa[0])+"]", depth+1)
		}
		kb := make([]string, 0, len(ib))
		for k := range ib {
			if _, ok := ia[k]; !ok {
				kb = append(kb, k)
			}
		}
		sort.Strings(kb)
		for _, k := range kb {
			d.add(path+"["+brief(ib[k][0])+"]", "missing in a")
		}
	case reflect.Chan, reflect.Func, reflect.UnsafePointer:
		if a.IsNil() != b.IsNil() {
			d.add(path, "nil-ness differs")
		}
	}
}

// ---------------------------------------------------------------------------------------------
// Clone

// Clone returns a true deep copy of m: no memory is shared with the original (pointer identity
// inside the copy mirrors pointer identity inside the original; slices and maps are always fresh).
func Clone(m *ir.Module) *ir.Module {
	if m == nil {
		return nil
	}
	c := cloner{ptrs: map[cloneKey]reflect.Value{}}
	return c.clone(reflect.ValueOf(m)).Interface().(*ir.Module)
}

// CloneValue deep-copies an arbitrary value.
func CloneValue[T any](v T) T {
	c := cloner{ptrs: map[cloneKey]reflect.Value{}}
	rv := reflect.ValueOf(&v).Elem()
	return c.clone(rv).Interface().(T)
}

type cloneKey struct {
	p uintptr
	t reflect.Type
}

type cloner struct {
	ptrs map[cloneKey]reflect.Value
}

var plainCache sync.Map // reflect.Type -> bool : value copy is already a deep copy

func isPlain(t reflect.Type) bool { return isPlainRec(t, nil) }

// isPlainRec computes whether a value copy of t is already a deep copy. Only FINAL results are published in
// plainCache; the guard against recursive types is local to the call (an earlier version stored a provisional
// "true" in the shared cache, which a concurrent first use of the same type could read: the clone then shared
// slices with the original for one run in a few — a cold-start race in the harness, see DESIGN.md 9.4).
func isPlainRec(t reflect.Type, visiting map[reflect.Type]bool) bool {
	if p, ok := plainCache.Load(t); ok {
		return p.(bool)
	}
	var r bool
	switch t.Kind() {
	case reflect.Pointer, reflect.Slice, reflect.Map, reflect.Interface, reflect.Chan, reflect.Func, reflect.UnsafePointer:
		r = false
	case reflect.Array:
		r = isPlainRec(t.Elem(), visiting)
	case reflect.Struct:
		if visiting[t] {
			return true // a struct cannot contain itself by value; the outer call decides
		}
		if visiting == nil {
			visiting = map[reflect.Type]bool{}
		}
		visiting[t] = true
		r = true
		for i := 0; i < t.NumField(); i++ {
			if !isPlainRec(t.Field(i).Type, visiting) {
				r = false
				break
			}
		}
		delete(visiting, t)
	default:
		r = true
	}
	plainCache.Store(t, r)
	return r
}

// readable returns a version of v that may be passed to Set/Interface even when v was reached
// through an unexported field.
func readable(v reflect.Value) reflect.Value {
	if v.CanInterface() {
		return v
	}
	if v.CanAddr() {
		return reflect.NewAt(v.Type(), unsafe.Pointer(v.UnsafeAddr())).Elem()
	}
	// Non-addressable and read-only: rebuild by kind.
	n := reflect.New(v.Type()).Elem()
	switch v.Kind() {
	case reflect.Bool:
		n.SetBool(v.Bool())
	case reflect.Int, reflect.Int8, reflect.Int16, reflect.Int32, reflect.Int64:
		n.SetInt(v.Int())
	case reflect.Uint, reflect.Uint8, reflect.Uint16, reflect.Uint32, reflect.Uint64, reflect.Uintptr:
		n.SetUint(v.Uint())
	case reflect.Float32, reflect.Float64:
		n.SetFloat(v.Float())
	case reflect.Complex64, reflect.Complex128:
		n.SetComplex(v.Complex())
	case reflect.String:
		n.SetString(v.String())
	default:
		return v
	}
	return n
}

func (c *cloner) clone(v reflect.Value) reflect.Value {
	t := v.Type()
	if isPlain(t) {
		n := reflect.New(t).Elem()
		n.Set(readable(v))
		return n
	}
	switch v.Kind() {
	case reflect.Pointer:
		if v.IsNil() {
			return reflect.Zero(t)
		}
		k := cloneKey{v.Pointer(), t}
		if n, ok := c.ptrs[k]; ok {
			return n
		}
		n := reflect.New(t.Elem())
		c.ptrs[k] = n
		n.Elem().Set(c.clone(v.Elem()))
		return n
	case reflect.Struct:
		n := reflect.New(t).Elem()
		src := v
		if !src.CanAddr() {
			// make addressable so that unexported fields can be reached
			tmp := reflect.New(t).Elem()
			if src.CanInterface() {
				tmp.Set(src)
				src = tmp
			}
		}
		for i := 0; i < t.NumField(); i++ {
			dst := n.Field(i)
			if !dst.CanSet() {
				dst = reflect.NewAt(dst.Type(), unsafe.Pointer(dst.UnsafeAddr())).Elem()
			}
			dst.Set(c.clone(readable(src.Field(i))))
		}
		return n
	case reflect.Array:
		n := reflect.New(t).Elem()
		for i := 0; i < v.Len(); i++ {
			n.Index(i).Set(c.clone(v.Index(i)))
		}
		return n
	case reflect.Slice:
		if v.IsNil() {
			return reflect.Zero(t)
		}
		n := reflect.MakeSlice(t, v.Len(), v.Len())
		if isPlain(t.Elem()) {
			reflect.Copy(n, readable(v))
			return n
		}
		for i := 0; i < v.Len(); i++ {
			n.Index(i).Set(c.clone(v.Index(i)))
		}
		return n
	case reflect.Map:
		if v.IsNil() {
			return reflect.Zero(t)
		}
		n := reflect.MakeMapWithSize(t, v.Len())
		it := v.MapRange()
		for it.Next() {
			n.SetMapIndex(c.clone(readable(it.Key())), c.clone(readable(it.Value())))
		}
		return n
	case reflect.Interface:
		if v.IsNil() {
			return reflect.Zero(t)
		}
		n := reflect.New(t).Elem()
		n.Set(c.clone(readable(v.Elem())))
		return n
	default: // chan, func, unsafe pointer: identity
		n := reflect.New(t).Elem()
		n.Set(readable(v))
		return n
	}
}
