package irx

import (
	"errors"
	"math"
	"testing"

	"verif/internal/xrt"
)

const (
	imin = math.MinInt32
	imax = math.MaxInt32
)

type confI struct {
	name string
	src  string
	in   []int32
	want []int32
}

// Hand-derived conformance cases, i32 in / i32 out.
var confInt = []confI{
	{"add-wrap", "o[0] = a[0] + a[1]; o[1] = a[2] - a[1];", []int32{imax, 1, imin}, []int32{imin, imax}},
	{"mul-wrap", "o[0] = a[0] * a[0]; o[1] = a[1] * a[2];", []int32{65536, 46341, 46341}, []int32{0, -2147479015}},
	{"neg-min", "o[0] = -a[0]; o[1] = -a[1];", []int32{imin, 5}, []int32{imin, -5}},
	{"div-trunc", "o[0] = a[0] / a[1]; o[1] = a[2] / a[3]; o[2] = a[0] % a[1]; o[3] = a[2] % a[3];", []int32{-7, 2, 7, -2}, []int32{-3, -3, -1, 1}},
	{"div-zero", "o[0] = a[0] / a[1]; o[1] = a[0] % a[1];", []int32{-9, 0}, []int32{-9, 0}},
	{"div-overflow", "o[0] = a[0] / a[1]; o[1] = a[0] % a[1];", []int32{imin, -1}, []int32{imin, 0}},
	{"shift-signed", "o[0] = a[0] >> u32(a[1]); o[1] = a[2] << u32(a[3]); o[2] = a[0] >> u32(a[4]);", []int32{-8, 1, 3, 30, 33}, []int32{-4, -1073741824, -4}},
	{"bitops", "o[0] = a[0] & a[1]; o[1] = a[0] | a[1]; o[2] = a[0] ^ a[1]; o[3] = ~a[0];", []int32{12, 10}, []int32{8, 14, 6, -13}},
	{"compare-signed", "o[0] = select(0, 1, a[0] < a[1]); o[1] = select(0, 1, a[0] >= a[1]); o[2] = select(0, 1, a[0] == a[0]); o[3] = select(0, 1, a[0] != a[1]);", []int32{-1, 1}, []int32{1, 0, 1, 1}},
	{"vec-scalar-mix", "let v = vec3<i32>(a[0], a[1], a[2]) * 2 + 1; let w = 10 - v; o[0] = v.x; o[1] = v.y; o[2] = v.z; o[3] = w.z;", []int32{1, 2, 3}, []int32{3, 5, 7, 3}},
	{"vec-div-mod", "let v = vec2<i32>(a[0], a[1]) / vec2<i32>(a[2], a[3]); let w = vec2<i32>(a[0], a[1]) % vec2<i32>(a[2], a[3]); o[0] = v.x; o[1] = v.y; o[2] = w.x; o[3] = w.y;", []int32{-7, 9, 2, 0}, []int32{-3, 9, -1, 0}},
	{"swizzle", "var v = vec4<i32>(a[0], a[1], a[2], a[3]); let s = v.wzyx; v.y = 9; let t = v.yyx; o[0] = s.x; o[1] = s.w; o[2] = t.x; o[3] = t.z; o[4] = v.xy.y;", []int32{1, 2, 3, 4}, []int32{4, 1, 9, 1, 9}},
	{"select-vector", "let c = vec3<i32>(a[0], a[1], a[2]) > vec3<i32>(0); let r = select(vec3<i32>(-1), vec3<i32>(a[0], a[1], a[2]), c); o[0] = r.x; o[1] = r.y; o[2] = r.z; o[3] = select(0, 1, all(c)); o[4] = select(0, 1, any(c));", []int32{5, -5, 7}, []int32{5, -1, 7, 0, 1}},
	{"if-chain", "var r = 0; if (a[0] < 0) { r = 1; } else if (a[0] == 0) { r = 2; } else if (a[0] < 10) { r = 3; } else { r = 4; } o[0] = r;", []int32{7}, []int32{3}},
	{"if-chain-last", "var r = 0; if (a[0] < 0) { r = 1; } else if (a[0] == 0) { r = 2; } else if (a[0] < 10) { r = 3; } else { r = 4; } o[0] = r;", []int32{70}, []int32{4}},
	{"switch-grouped", "for (var i = 0; i < 5; i++) { var r = 0; switch a[i] { case 1, 2: { r = 10; } default: { r = 99; } case 3: { r = 30; } case 4: { r = 40; } } o[i] = r; }", []int32{1, 2, 3, 4, 5}, []int32{10, 10, 30, 40, 99}},
	{"switch-break-in-loop", "var n = 0; loop { switch a[0] { case 1: { n += 1; break; } default: { n += 100; } } n += 10; if (n > 30) { break; } } o[0] = n;", []int32{1}, []int32{33}},
	{"loop-continuing", "var i = 0; var s = 0; loop { if (i == 2) { continue; } s += i; continuing { i++; break if i >= a[0]; } } o[0] = s; o[1] = i;", []int32{5}, []int32{8, 5}},
	{"for-continue-break", "var s = 0; for (var i = 0; i < 100; i++) { if (i % 2 == 0) { continue; } if (i > a[0]) { break; } s += i; } o[0] = s;", []int32{7}, []int32{16}},
	{"while", "var n = a[0]; var c = 0; while (n != 1) { if (n % 2 == 0) { n = n / 2; } else { n = 3 * n + 1; } c++; } o[0] = c;", []int32{6}, []int32{8}},
	{"nested-loops", "var s = 0; for (var i = 0; i < 4; i++) { for (var j = 0; j < 4; j++) { if (j > i) { break; } s += j; } } o[0] = s;", nil, []int32{10}},
	{"var-in-loop-reinit", "var t = 0; for (var i = 0; i < 3; i++) { var k = 5; k += i; t += k; } o[0] = t;", nil, []int32{18}},
	{"shadowing", "var x = 1; { var x = 2; x += 1; o[1] = x; } { let x = x + 10; o[2] = x; } o[0] = x;", nil, []int32{1, 3, 11}},
	{"const-array-dyn", "o[0] = K[a[0]]; o[1] = K[2];", []int32{1}, []int32{20, 30}},
	{"compound", "var x = a[0]; x += 3; x *= 2; x -= 1; x /= 2; x %= 4; x <<= 2u; x >>= 1u; x |= 1; x &= 7; x ^= 2; x++; x--; o[0] = x;", []int32{4}, []int32{7}},
	{"abs-min-max-clamp", "o[0] = abs(a[0]); o[1] = abs(a[1]); o[2] = min(a[0], a[1]); o[3] = max(a[0], a[1]); o[4] = clamp(a[2], a[1], a[3]); o[5] = clamp(a[2], a[3], a[1]);", []int32{imin, -3, 50, 10}, []int32{imin, 3, imin, -3, 10, -3}},
	{"sign-int", "o[0] = sign(a[0]); o[1] = sign(a[1]); o[2] = sign(a[2]);", []int32{-9, 0, 4}, []int32{-1, 0, 1}},
	{"bits-signed", "o[0] = firstLeadingBit(a[0]); o[1] = firstLeadingBit(a[1]); o[2] = firstLeadingBit(a[2]); o[3] = firstLeadingBit(a[3]); o[4] = extractBits(a[4], 4u, 4u); o[5] = extractBits(a[4], 28u, 9u); o[6] = countOneBits(a[3]); o[7] = firstTrailingBit(a[5]);", []int32{-1, 0, -256, 1, -2147483408, 48}, []int32{-1, -1, 7, 0, -1, -8, 1, 4}},
	{"dot-int", "o[0] = dot(vec3<i32>(a[0], a[1], a[2]), vec3<i32>(a[1], a[2], a[0]));", []int32{65536, 65536, 3}, []int32{393216}},
	{"zero-values", "var v = vec3<i32>(); var arr = array<i32, 3>(); var s = S(); o[0] = v.z + arr[2] + s.b[1] + 1; o[1] = i32();", nil, []int32{1, 0}},
	{"dyn-index-value", "let v = vec4<i32>(a[0], a[1], a[2], a[3]); let arr = array<i32, 3>(a[3], a[2], a[1]); o[0] = v[a[4]]; o[1] = arr[a[4]];", []int32{10, 20, 30, 40, 2}, []int32{30, 20}},
	{"ptr-let", "var arr = array<i32, 4>(1, 2, 3, 4); let p = &arr[a[0]]; *p = 50; *p += 1; let q = &arr; (*q)[0] = 7; o[0] = arr[2]; o[1] = arr[0];", []int32{2}, []int32{51, 7}},
	{"helper-early-return", "o[0] = classify(a[0]); o[1] = classify(a[1]); o[2] = classify(a[2]); o[3] = firstNeg();", []int32{-4, 0, 9}, []int32{-1, 0, 1, 0}},
	{"helper-ptr", "var x = a[0]; bump(&x, 5); bump(&x, 1); o[0] = x; bumpg(); bumpg(); o[1] = cnt; addTo(&cnt, 5); o[2] = cnt;", []int32{10}, []int32{62, 2, 7}},
	{"struct-ret", "let r = mk(a[0]); var c = r; c.b[1] = c.a + r.b[0]; o[0] = c.a; o[1] = c.b[0]; o[2] = c.b[1];", []int32{3}, []int32{3, 4, 7}},
	{"bool-ops", "let p = a[0] > 0; let q = a[1] > 0; o[0] = select(0, 1, p & q); o[1] = select(0, 1, p | q); o[2] = select(0, 1, !p); o[3] = select(0, 1, p != q); o[4] = select(0, 1, p && (a[1] / a[1] == 1)); o[5] = select(0, 1, q || p);", []int32{1, 0}, []int32{0, 1, 0, 1, 0, 1}},
	{"conv-bool", "o[0] = i32(a[0] != 0); o[1] = i32(bool(a[1])); o[2] = i32(u32(a[2]) >> 31u);", []int32{5, 0, -1}, []int32{1, 0, 1}},
}

const confIntPrelude = hdrI + inI + `
const K = array<i32, 3>(10, 20, 30);
struct S { a: i32, b: array<i32, 2> }
var<private> cnt: i32;
fn classify(x: i32) -> i32 { if (x < 0) { return -1; } if (x == 0) { return 0; } return 1; }
fn firstNeg() -> i32 { for (var i = 0; i < 3; i++) { if (a[i] < 0) { return i; } } return -1; }
fn bump(p: ptr<function, i32>, by: i32) { *p = *p + by; *p = *p * 2; }
fn bumpg() { cnt++; }
fn addTo(p: ptr<private, i32>, by: i32) { *p = *p + by; }
fn mk(x: i32) -> S { var s: S; s.a = x; s.b[0] = x + 1; return s; }
`

func TestConformanceInt(t *testing.T) {
	for _, c := range confInt {
		t.Run(c.name, func(t *testing.T) {
			in := c.in
			if in == nil {
				in = []int32{0}
			}
			wantI(t, confIntPrelude+cs+"fn main() { "+c.src+" }", in, c.want...)
		})
	}
}

type confU struct {
	name string
	src  string
	in   []uint32
	want []uint32
}

var confUint = []confU{
	{"wrap", "o[0] = a[0] + a[1]; o[1] = a[2] - a[1]; o[2] = a[0] * a[3];", []uint32{0xFFFFFFFF, 1, 0, 2}, []uint32{0, 0xFFFFFFFF, 0xFFFFFFFE}},
	{"div-mod-zero", "o[0] = a[0] / a[1]; o[1] = a[0] % a[1]; o[2] = a[0] / a[2]; o[3] = a[0] % a[2];", []uint32{0xFFFFFFF7, 0, 16}, []uint32{0xFFFFFFF7, 0, 0x0FFFFFFF, 7}},
	{"shift-mod-32", "o[0] = a[0] << a[1]; o[1] = a[2] >> a[3]; o[2] = a[2] >> a[1]; o[3] = a[0] << a[4];", []uint32{1, 33, 0x80000000, 31, 32}, []uint32{2, 1, 0x40000000, 1}},
	{"shift-vector", "let v = vec2<u32>(a[0], a[2]) << vec2<u32>(a[1], 1u); let w = vec2<u32>(a[2]) >> vec2<u32>(a[3], a[4]); o[0] = v.x; o[1] = v.y; o[2] = w.x; o[3] = w.y;", []uint32{1, 33, 0x80000000, 31, 32}, []uint32{2, 0, 1, 0x80000000}},
	{"compare-unsigned", "o[0] = select(0u, 1u, a[0] < a[1]); o[1] = select(0u, 1u, a[0] > a[1]);", []uint32{0xFFFFFFFF, 1}, []uint32{0, 1}},
	{"conv-int", "o[0] = u32(i32(a[0])); o[1] = u32(-i32(a[1])); o[2] = bitcast<u32>(bitcast<i32>(a[0]) >> 4u);", []uint32{0xFFFFFFF0, 1}, []uint32{0xFFFFFFF0, 0xFFFFFFFF, 0xFFFFFFFF}},
	{"bits", "o[0] = countOneBits(a[0]); o[1] = countLeadingZeros(a[0]); o[2] = countTrailingZeros(a[0]); o[3] = reverseBits(a[0]); o[4] = firstLeadingBit(a[0]); o[5] = firstTrailingBit(a[0]); o[6] = firstLeadingBit(a[1]); o[7] = firstTrailingBit(a[1]); o[8] = countLeadingZeros(a[1]); o[9] = countTrailingZeros(a[1]); o[10] = firstLeadingBit(a[2]);", []uint32{0x00F0, 0, 0xFFFFFFFF}, []uint32{4, 24, 4, 0x0F000000, 7, 4, 0xFFFFFFFF, 0xFFFFFFFF, 32, 32, 31}},
	{"extract-insert", "o[0] = extractBits(a[0], 8u, 8u); o[1] = extractBits(a[0], 28u, 16u); o[2] = extractBits(a[0], 40u, 3u); o[3] = insertBits(a[0], a[1], 4u, 8u); o[4] = insertBits(a[0], a[1], 28u, 16u); o[5] = extractBits(a[0], 0u, 32u); o[6] = insertBits(a[0], a[1], 0u, 0u);", []uint32{0xABCD1234, 0xFFFFFF5E}, []uint32{0x12, 0xA, 0, 0xABCD15E4, 0xEBCD1234, 0xABCD1234, 0xABCD1234}},
	{"pack-int", "o[0] = pack4xI8(vec4<i32>(1, -1, 127, -128)); o[1] = pack4xU8(vec4<u32>(1u, 255u, 256u, 511u)); o[2] = pack4xI8Clamp(vec4<i32>(i32(a[0]), -200, 5, -5)); o[3] = pack4xU8Clamp(vec4<u32>(a[0], 7u, 255u, 256u)); let u = unpack4xI8(a[1]); let w = unpack4xU8(a[1]); o[4] = u32(u.x + u.w); o[5] = w.x + w.w; o[6] = u32(dot4I8Packed(a[1], a[2])); o[7] = dot4U8Packed(a[1], a[2]);", []uint32{300, 0x80FF017F, 0x02020202}, []uint32{0x807FFF01, 0xFF00FF01, 0xFB05807F, 0xFFFF07FF, 0xFFFFFFFF, 0xFF, 0xFFFFFFFE, 1022}},
	{"pack-float", "o[0] = pack4x8unorm(vec4<f32>(0.0, 1.0, 0.5, 2.0)); o[1] = pack4x8snorm(vec4<f32>(-1.0, 1.0, 0.0, -2.0)); o[2] = pack2x16unorm(vec2<f32>(1.0, 0.25)); o[3] = pack2x16snorm(vec2<f32>(-1.0, 0.5)); o[4] = pack2x16float(vec2<f32>(1.0, -2.0)); o[5] = pack2x16float(vec2<f32>(65504.0, 0.000060975552));", []uint32{0}, []uint32{0xFF80FF00, 0x81007F81, 0x4000FFFF, 0x40008001, 0xC0003C00, 0x03FF7BFF}},
	{"atomics-storage", "let p = &c.v; atomicStore(p, 5u); o[0] = atomicAdd(p, 3u); o[1] = atomicSub(p, 10u); o[2] = atomicMax(p, 7u); o[3] = atomicMin(p, 100u); o[4] = atomicAnd(p, 0xF0u); o[5] = atomicOr(p, 0x0Fu); o[6] = atomicXor(p, 0xFFu); o[7] = atomicExchange(p, 42u); let r1 = atomicCompareExchangeWeak(p, 41u, 1u); let r2 = atomicCompareExchangeWeak(p, 42u, 2u); o[8] = r1.old_value; o[9] = select(0u, 1u, r1.exchanged); o[10] = r2.old_value; o[11] = select(0u, 1u, r2.exchanged); o[12] = atomicLoad(p);", []uint32{0}, []uint32{5, 8, 0xFFFFFFFE, 0xFFFFFFFE, 100, 0x60, 0x6F, 0x90, 42, 0, 42, 1, 2}},
	{"array-length", "o[0] = arrayLength(&o); o[1] = arrayLength(&a);", []uint32{1, 2, 3}, []uint32{5, 3, 0, 0, 0}},
	{"f2u", "o[0] = u32(bitcast<f32>(a[0])); o[1] = u32(bitcast<f32>(a[1])); o[2] = u32(bitcast<f32>(a[2])); o[3] = u32(bitcast<f32>(a[3]));", []uint32{0x40A00000 /*5.0*/, 0xC0A00000 /*-5*/, 0x4F800000 /*2^32*/, 0x4F7FFFFF /*4294967040*/}, []uint32{5, 0, 0xFFFFFFFF, 4294967040}},
}

const confUintPrelude = hdrU + inU + `
struct C { v: atomic<u32> }
@group(0) @binding(2) var<storage, read_write> c: C;
`

func TestConformanceUint(t *testing.T) {
	for _, c := range confUint {
		t.Run(c.name, func(t *testing.T) {
			bufs, err := run(t, confUintPrelude+cs+"fn main() { "+c.src+" }", len(c.want), xrt.Buffers{bnd(0, 1): u32buf(c.in...), bnd(0, 2): u32buf(0)})
			if err != nil {
				t.Fatalf("exec: %v", err)
			}
			got := rdU32(bufs[bnd(0, 0)])
			for i := range c.want {
				if got[i] != c.want[i] {
					t.Fatalf("o = %#x\nwant %#x (index %d)", got, c.want, i)
				}
			}
		})
	}
}

type confF struct {
	name string
	src  string
	in   []float32
	tol  float64
	want []float32
}

var inf32 = float32(math.Inf(1))

var confFloat = []confF{
	{"add-rounding", "o[0] = a[0] + a[1]; o[1] = a[0] + a[2]; o[2] = a[3] * a[3]; o[3] = a[4] / a[5];", []float32{16777216, 1, 2, 1.0000001, 1, 3}, 0, []float32{16777216, 16777218, 1.0000002, 0.33333334}},
	{"rem", "o[0] = a[0] % a[1]; o[1] = a[2] % a[1]; o[2] = a[0] % a[3];", []float32{5.5, 2, -5.5, -2}, 0, []float32{1.5, -1.5, 1.5}},
	{"neg-abs", "o[0] = -a[0]; o[1] = abs(a[1]); o[2] = -a[2];", []float32{0, -2.5, 3}, 0, []float32{float32(math.Copysign(0, -1)), 2.5, -3}},
	{"f2i", "o[0] = f32(i32(a[0])); o[1] = f32(i32(a[1])); o[2] = f32(i32(a[2]) - 2147483647); o[3] = f32(i32(a[3]) + 2147483647); o[4] = f32(i32(a[4]));", []float32{3.99, -3.99, 3e9, -3e9, 2147483520}, 0, []float32{3, -3, 0, -1, 2147483520}},
	{"i2f-rne", "o[0] = f32(i32(a[0]) + 1); o[1] = f32(u32(a[1]) + 127u); o[2] = f32(i32(a[0]) + 3); o[3] = f32(u32(a[1]) + 128u);", []float32{16777216, 4294967040}, 0, []float32{16777216, 4294967040, 16777220, 4294967296}},
	{"bitcast", "o[0] = bitcast<f32>(bitcast<u32>(a[0]) + 1u); o[1] = bitcast<f32>(0x40490fdbu); let v = bitcast<vec2<f32>>(vec2<u32>(0x3f800000u, 0xbf800000u)); o[2] = v.x + v.y * 2.0;", []float32{1}, 0, []float32{1.0000001, 3.1415927, -1}},
	{"rounders", "o[0] = floor(a[0]); o[1] = ceil(a[0]); o[2] = round(a[0]); o[3] = trunc(a[0]); o[4] = round(a[1]); o[5] = round(a[2]); o[6] = round(a[3]); o[7] = fract(a[0]); o[8] = fract(a[4]); o[9] = trunc(a[4]); o[10] = floor(a[4]);", []float32{2.5, 3.5, -2.5, 0.5, -1.25}, 0, []float32{2, 3, 2, 2, 4, -2, 0, 0.5, 0.75, -1, -2}},
	{"min-max-clamp-sat", "o[0] = min(a[0], a[1]); o[1] = max(a[0], a[1]); o[2] = clamp(a[2], a[0], a[1]); o[3] = saturate(a[2]); o[4] = saturate(a[0]); o[5] = sign(a[0]); o[6] = sign(a[3]); o[7] = step(a[1], a[2]); o[8] = step(a[2], a[1]); o[9] = step(a[1], a[1]);", []float32{-2, 0.5, 7, 0}, 0, []float32{-2, 0.5, 0.5, 1, 0, -1, 0, 1, 0, 1}},
	{"select-f", "o[0] = select(a[0], a[1], a[0] < a[1]); let v = select(vec2<f32>(a[0]), vec2<f32>(a[1]), vec2<bool>(true, false)); o[1] = v.x; o[2] = v.y;", []float32{1, 2}, 0, []float32{2, 2, 1}},
	{"fma-exact", "o[0] = fma(a[0], a[1], a[2]); o[1] = a[0] * a[1] + a[2] - a[0] * a[1] - a[2];", []float32{1.0000001, 1.0000001, -1.0000002}, 0, []float32{1.4210855e-14, 0}},
	{"sqrt-exact", "o[0] = sqrt(a[0]); o[1] = sqrt(a[1]); o[2] = inverseSqrt(a[2]);", []float32{2, 9, 4}, 0, []float32{1.4142135, 3, 0.5}},
	{"exp-log-pow", "o[0] = exp2(a[0]); o[1] = log2(a[1]); o[2] = pow(a[2], a[3]); o[3] = exp(a[4]); o[4] = log(a[5]);", []float32{3, 8, 2, 10, 1, 2.7182817}, 1e-6, []float32{8, 3, 1024, 2.7182817, 1}},
	{"trig", "o[0] = sin(a[0]); o[1] = cos(a[0]); o[2] = atan2(a[1], a[1]); o[3] = tan(a[2]); o[4] = asin(a[1]); o[5] = acos(a[1]); o[6] = atan(a[1]); o[7] = sinh(a[1]); o[8] = cosh(a[1]); o[9] = tanh(a[1]); o[10] = asinh(a[1]); o[11] = acosh(a[3]); o[12] = atanh(a[2]); o[13] = degrees(a[4]); o[14] = radians(a[5]);", []float32{0, 1, 0.5, 2, 3.1415927, 180}, 1e-6, []float32{0, 1, 0.7853982, 0.5463025, 1.5707964, 0, 0.7853982, 1.1752012, 1.5430806, 0.7615942, 0.8813736, 1.316958, 0.5493061, 180, 3.1415927}},
	{"geometry", "let u = vec3<f32>(a[0], a[1], a[2]); let w = vec3<f32>(a[3], a[4], a[5]); o[0] = dot(u, w); let c = cross(u, w); o[1] = c.x; o[2] = c.y; o[3] = c.z; o[4] = length(vec2<f32>(a[6], a[7])); o[5] = distance(u, w); let n = normalize(vec2<f32>(a[6], a[7])); o[6] = n.x; o[7] = n.y; o[8] = length(a[8]); o[9] = distance(a[0], a[3]);", []float32{1, 2, 3, 4, 5, 6, 3, 4, -2}, 1e-6, []float32{32, -3, 6, -3, 5, 5.196152, 0.6, 0.8, 2, 3}},
	{"reflect-refract", "let i = vec2<f32>(a[0], a[1]); let n = vec2<f32>(0.0, 1.0); let r = reflect(i, n); o[0] = r.x; o[1] = r.y; let f = faceForward(n, i, n); o[2] = f.y; let g = faceForward(n, -i, n); o[3] = g.y; let t = refract(normalize(i), n, a[2]); o[4] = t.x; o[5] = t.y; let z = refract(normalize(i), n, a[3]); o[6] = z.x + z.y;", []float32{1, -1, 0.5, 2}, 1e-6, []float32{1, 1, 1, -1, 0.35355338, -0.9354144, 0}},
	{"mix-smoothstep", "o[0] = mix(a[0], a[1], a[2]); let v = mix(vec2<f32>(a[0]), vec2<f32>(a[1]), a[2]); o[1] = v.y; o[2] = smoothstep(a[0], a[1], a[3]); o[3] = smoothstep(a[0], a[1], a[4]); let w = mix(vec2<f32>(a[0]), vec2<f32>(a[1]), vec2<f32>(0.0, 1.0)); o[4] = w.x; o[5] = w.y;", []float32{2, 6, 0.25, 4, 100}, 1e-6, []float32{3, 3, 0.5, 1, 2, 6}},
	{"modf-frexp-ldexp", "let m = modf(a[0]); o[0] = m.fract; o[1] = m.whole; let f = frexp(a[1]); o[2] = f.fract; o[3] = f32(f.exp); o[4] = ldexp(a[2], i32(a[3])); let mv = modf(vec2<f32>(a[0], a[4])); o[5] = mv.fract.y; o[6] = mv.whole.y; let fv = frexp(vec2<f32>(a[1], a[5])); o[7] = fv.fract.y; o[8] = f32(fv.exp.y);", []float32{3.75, 48, 0.75, 4, -1.5, 0.15625}, 0, []float32{0.75, 3, 0.75, 6, 12, -0.5, -1, 0.625, -2}},
	{"quantize", "o[0] = quantizeToF16(a[0]); o[1] = quantizeToF16(a[1]); o[2] = quantizeToF16(a[2]);", []float32{1.0004883, 0.1, -2.5}, 0, []float32{1, 0.099975586, -2.5}},
	{"unpack", "let u = unpack4x8unorm(0xFF80FF00u); o[0] = u.x; o[1] = u.y; o[2] = u.z; let s = unpack4x8snorm(0x81007F80u); o[3] = s.x; o[4] = s.y; o[5] = s.w; let h = unpack2x16float(0xC0003C00u); o[6] = h.x; o[7] = h.y; let q = unpack2x16unorm(0xFFFF0000u); o[8] = q.y; let r = unpack2x16snorm(0x80004000u); o[9] = r.x; o[10] = r.y; let d = unpack2x16float(0x00018400u); o[11] = d.y;", []float32{0}, 1e-7, []float32{0, 1, 0.5019608, -1, 1, -1, 1, -2, 1, 0.5000153, -1, 5.9604645e-08}},
	{"mat-ops", "let m = mat2x2<f32>(a[0], a[1], a[2], a[3]); let v = vec2<f32>(a[4], a[5]); let mv = m * v; let vm = v * m; let mm = m * m; let ms = m * a[6]; let sm = a[7] * m; let t = transpose(m); o[0] = mv.x; o[1] = mv.y; o[2] = vm.x; o[3] = vm.y; o[4] = mm[0].x; o[5] = mm[0].y; o[6] = mm[1].x; o[7] = mm[1].y; o[8] = ms[1].x; o[9] = sm[0].y; o[10] = t[0].y; o[11] = determinant(m); let ad = m + m - sm; o[12] = ad[1].y;", []float32{1, 2, 3, 4, 5, 6, 2, 0.5}, 0, []float32{23, 34, 17, 39, 7, 10, 15, 22, 6, 1, 3, -2, 6}},
	{"mat-nonsquare", "let m = mat3x2<f32>(a[0], a[1], a[2], a[3], a[4], a[5]); let r = m * vec3<f32>(1.0, 10.0, 100.0); o[0] = r.x; o[1] = r.y; let l: vec3<f32> = vec2<f32>(1.0, 10.0) * m; o[2] = l.x; o[3] = l.y; o[4] = l.z; let tv = transpose(m) * vec2<f32>(1.0, 10.0); o[5] = tv.x; o[6] = tv.y; o[7] = determinant(transpose(mat2x2<f32>(a[0], a[1], a[2], a[3]))); var mm = m; mm[1] = vec2<f32>(7.0, 8.0); mm[2].x = 9.0; o[8] = mm[1].y + mm[2].x + mm[2].y; let d3 = determinant(mat3x3<f32>(2.0, 0.0, 0.0, 0.0, 3.0, 0.0, 1.0, 1.0, 4.0)); o[9] = d3;", []float32{1, 2, 3, 4, 5, 6}, 0, []float32{531, 642, 21, 43, 65, 21, 43, -2, 23, 24}},
	{"private-init", "o[0] = pf; pf = pf * 2.0; o[1] = pf + pv.y; o[2] = f32(arr0[1]);", []float32{0}, 0, []float32{1.5, 5, 0}},
}

const confFloatPrelude = hdrF + inF + `
var<private> pf: f32 = 1.5;
var<private> pv: vec2<f32> = vec2<f32>(1.0, 2.0);
var<private> arr0: array<i32, 2>;
`

func TestConformanceFloat(t *testing.T) {
	for _, c := range confFloat {
		t.Run(c.name, func(t *testing.T) {
			wantF(t, confFloatPrelude+cs+"fn main() { "+c.src+" }", c.in, c.tol, c.want...)
		})
	}
}

// ---- memory layout ----------------------------------------------------------------------------

func TestConformanceLayout(t *testing.T) {
	src := `
struct Inner { a: f32, v: vec3<f32> }          // a@0 v@16 size 32
struct Big {
  x: u32,                 // 0
  @align(16) y: f32,      // 16
  m: mat3x2<f32>,         // 24, column stride 8, size 24
  n: mat2x3<f32>,         // 48, column stride 16, size 32
  @size(32) z: u32,       // 80
  inner: array<Inner, 2>, // 112, stride 32
  tail: vec2<u32>,        // 176
}
@group(0) @binding(0) var<storage, read_write> o: array<f32>;
@group(0) @binding(1) var<storage, read> b: Big;
@group(0) @binding(2) var<storage, read_write> w: Big;
@group(0) @binding(3) var<uniform> u: Big;
@compute @workgroup_size(1) fn main() {
  o[0] = f32(b.x); o[1] = b.y; o[2] = b.m[1].y; o[3] = b.m[2].x; o[4] = b.n[1].z; o[5] = f32(b.z);
  o[6] = b.inner[1].a; o[7] = b.inner[1].v.z; o[8] = f32(b.tail.y); o[9] = u.inner[0].v.y;
  var l = b;              // whole-struct load into a function variable
  l.inner[0].v.x = 99.0;
  l.m[0] = vec2<f32>(7.0, 8.0);
  w = l;                  // whole-struct store
  w.n[0].y = 5.0;
  w.inner[1] = b.inner[0];
  let i = u32(b.x);       // = 1
  w.inner[i].a = 3.0;
  o[10] = w.inner[1].v.x;
}`
	// fill b with word index as float (so the value read tells the byte offset / 4)
	const words = 48 // 192 bytes
	fl := make([]float32, words)
	for i := range fl {
		fl[i] = float32(i)
	}
	bb := f32buf(fl...)
	copy(bb[0:], u32buf(1))   // x
	copy(bb[80:], u32buf(77)) // z
	copy(bb[176:], u32buf(5, 6))
	wb := make([]byte, 192)
	for i := range wb {
		wb[i] = 0xEE
	}
	bufs, err := run(t, src, 11, xrt.Buffers{bnd(0, 1): bb, bnd(0, 2): wb, bnd(0, 3): bb})
	if err != nil {
		t.Fatal(err)
	}
	got := rdF32(bufs[bnd(0, 0)])
	// b.y @16 -> word 4; m[1].y @24+8+4=36 -> 9; m[2].x @24+16=40 -> 10; n[1].z @48+16+8=72 -> 18
	// inner[1].a @112+32=144 -> 36; inner[1].v.z @144+16+8=168 -> 42; u.inner[0].v.y @112+16+4=132 -> 33
	// o[10] = w.inner[1].v.x = b.inner[0].v.x @128 -> 32
	want := []float32{1, 4, 9, 10, 18, 77, 36, 42, 6, 33, 32}
	for i := range want {
		if got[i] != want[i] {
			t.Fatalf("o = %v\nwant %v", got, want)
		}
	}
	wv := rdF32(bufs[bnd(0, 2)])
	wu := rdU32(bufs[bnd(0, 2)])
	check := func(word int, v float32) {
		t.Helper()
		if wv[word] != v {
			t.Errorf("w word %d = %v, want %v", word, wv[word], v)
		}
	}
	check(4, 4)   // y
	check(6, 7)   // m[0].x
	check(7, 8)   // m[0].y
	check(8, 8)   // m[1].x (copied)
	check(12, 12) // n[0].x
	check(13, 5)  // n[0].y overwritten
	check(32, 99) // inner[0].v.x
	check(36, 3)  // inner[1].a = 3.0 (i == 1)
	check(40, 32) // inner[1].v.x = b.inner[0].v.x
	if wu[0] != 1 || wu[20] != 77 || wu[44] != 5 || wu[45] != 6 {
		t.Errorf("w integer members wrong: %v %v %v %v", wu[0], wu[20], wu[44], wu[45])
	}
	// padding is never written: x..y gap (words 1-3), vec3 padding (word 15 of n col 0, 19), @size gap (21..27), Inner padding (29..31)
	for _, pw := range []int{1, 2, 3, 15, 19, 21, 27, 29, 31, 35, 46, 47} {
		if wu[pw] != 0xEEEEEEEE {
			t.Errorf("padding word %d was written: %#x", pw, wu[pw])
		}
	}
}

func TestConformanceRuntimeArrayInStruct(t *testing.T) {
	src := `
struct Hdr { n: u32, pad: u32, items: array<vec2<i32>> }   // items @8 stride 8
@group(0) @binding(0) var<storage, read_write> o: array<i32>;
@group(0) @binding(1) var<storage, read_write> h: Hdr;
@compute @workgroup_size(1) fn main() {
  let n = arrayLength(&h.items);
  o[0] = i32(n);
  var s = 0;
  for (var i = 0u; i < n; i++) { s += h.items[i].x * h.items[i].y; h.items[i].y = i32(i); }
  o[1] = s;
  let p = &h.items[1];
  (*p).x = 100;
  o[2] = h.items[1].x + i32(h.n);
}`
	hb := i32buf(9, 0, 1, 2, 3, 4, 5, 6, 7 /* trailing partial element */)
	bufs, err := run(t, src, 3, xrt.Buffers{bnd(0, 1): hb})
	if err != nil {
		t.Fatal(err)
	}
	got := rdI32(bufs[bnd(0, 0)])
	if got[0] != 3 || got[1] != 1*2+3*4+5*6 || got[2] != 109 {
		t.Fatalf("o = %v", got)
	}
	hv := rdI32(bufs[bnd(0, 1)])
	if hv[3] != 0 || hv[5] != 1 || hv[7] != 2 || hv[4] != 100 || hv[8] != 7 {
		t.Fatalf("h = %v", hv)
	}
}

func TestConformanceArrayCopies(t *testing.T) {
	src := hdrI + inI + `
var<private> pa: array<i32, 4>;
var<workgroup> wa: array<i32, 4>;
struct P { k: array<i32, 4>, s: i32 }
@group(0) @binding(2) var<storage, read_write> st: P;
@compute @workgroup_size(1) fn main() {
  var fa = array<i32, 4>(a[0], a[1], a[2], a[3]);
  pa = fa; pa[1] = 50;
  wa = pa; wa[2] = 60;
  st.k = wa; st.s = fa[1];
  var back = st;
  back.k[3] += 1;
  o[0] = fa[1]; o[1] = pa[1]; o[2] = wa[2]; o[3] = back.k[3]; o[4] = st.k[3];
}`
	bufs, err := run(t, src, 5, xrt.Buffers{bnd(0, 1): i32buf(1, 2, 3, 4), bnd(0, 2): make([]byte, 20)})
	if err != nil {
		t.Fatal(err)
	}
	got := rdI32(bufs[bnd(0, 0)])
	want := []int32{2, 50, 60, 5, 4}
	for i := range want {
		if got[i] != want[i] {
			t.Fatalf("o = %v want %v", got, want)
		}
	}
	if s := rdI32(bufs[bnd(0, 2)]); s[0] != 1 || s[1] != 50 || s[2] != 60 || s[3] != 4 || s[4] != 2 {
		t.Fatalf("st = %v", s)
	}
}

// ---- workgroups, builtins, barriers -------------------------------------------------------------

func TestConformanceBuiltinsAndBarriers(t *testing.T) {
	src := `
@group(0) @binding(0) var<storage, read_write> o: array<u32>;
var<workgroup> sh: array<u32, 8>;
var<workgroup> total: atomic<u32>;
@compute @workgroup_size(4, 2, 1)
fn main(@builtin(global_invocation_id) gid: vec3<u32>, @builtin(local_invocation_id) lid: vec3<u32>,
        @builtin(local_invocation_index) li: u32, @builtin(workgroup_id) wid: vec3<u32>,
        @builtin(num_workgroups) nwg: vec3<u32>) {
  sh[li] = li * 10u + lid.x + lid.y * 100u;
  atomicAdd(&total, li);
  workgroupBarrier();
  // read the slot written by the "next" invocation: only correct if the barrier is honoured
  let nxt = sh[(li + 1u) % 8u];
  let base = (wid.y * nwg.x + wid.x) * 8u;
  o[base + li] = nxt + gid.x * 1000u + gid.y * 100000u + atomicLoad(&total) * 10000000u;
  storageBarrier();
  if (li == 0u) { o[64u + wid.y * nwg.x + wid.x] = o[base + 7u]; }
}`
	m := lower(t, src)
	bufs := xrt.Buffers{bnd(0, 0): make([]byte, 4*80)}
	if err := Exec(m, bufs, xrt.Opts{NumWorkgroups: [3]uint32{2, 2, 1}}); err != nil {
		t.Fatal(err)
	}
	got := rdU32(bufs[bnd(0, 0)])
	for wy := uint32(0); wy < 2; wy++ {
		for wx := uint32(0); wx < 2; wx++ {
			for li := uint32(0); li < 8; li++ {
				lx, ly := li%4, li/4
				n := (li + 1) % 8
				nx, ny := n%4, n/4
				want := n*10 + nx + ny*100 + (wx*4+lx)*1000 + (wy*2+ly)*100000 + 28*10000000
				if g := got[(wy*2+wx)*8+li]; g != want {
					t.Fatalf("wg(%d,%d) li %d: got %d want %d", wx, wy, li, g, want)
				}
			}
			if got[64+wy*2+wx] != got[(wy*2+wx)*8+7] {
				t.Fatalf("storageBarrier phase wrong")
			}
		}
	}
}

func TestConformanceWorkgroupUniformLoad(t *testing.T) {
	src := `
@group(0) @binding(0) var<storage, read_write> o: array<u32>;
var<workgroup> flag: u32;
@compute @workgroup_size(4)
fn main(@builtin(local_invocation_index) li: u32) {
  if (li == 3u) { flag = 7u; }
  let f = workgroupUniformLoad(&flag);
  o[li] = f + li;
}`
	bufs, err := run(t, src, 4, nil)
	if err != nil {
		t.Fatal(err)
	}
	if g := rdU32(bufs[bnd(0, 0)]); g[0] != 7 || g[3] != 10 {
		t.Fatalf("o = %v", g)
	}
}

func TestConformanceAtomicsWorkgroupSigned(t *testing.T) {
	src := `
@group(0) @binding(0) var<storage, read_write> o: array<i32>;
var<workgroup> lo: atomic<i32>;
var<workgroup> hi: atomic<i32>;
@compute @workgroup_size(4)
fn main(@builtin(local_invocation_index) li: u32) {
  let v = i32(li) * 3 - 4;   // -4 -1 2 5
  atomicMin(&lo, v); atomicMax(&hi, v);
  workgroupBarrier();
  if (li == 0u) { o[0] = atomicLoad(&lo); o[1] = atomicLoad(&hi); }
}`
	bufs, err := run(t, src, 2, nil)
	if err != nil {
		t.Fatal(err)
	}
	if g := rdI32(bufs[bnd(0, 0)]); g[0] != -4 || g[1] != 5 {
		t.Fatalf("o = %v", g)
	}
}

// ---- traps, limits, unsupported -----------------------------------------------------------------

func TestConformanceOOB(t *testing.T) {
	rd := hdrI + inI + cs + "fn main() { var arr = array<i32, 4>(1, 2, 3, 4); o[0] = arr[a[0]]; }"
	_, err := run(t, rd, 1, xrt.Buffers{bnd(0, 1): i32buf(4)})
	wantTrap(t, err, "oob-read")
	_, err = run(t, rd, 1, xrt.Buffers{bnd(0, 1): i32buf(-1)})
	wantTrap(t, err, "oob-read")
	if _, err = run(t, rd, 1, xrt.Buffers{bnd(0, 1): i32buf(3)}); err != nil {
		t.Fatal(err)
	}
	wr := hdrI + inI + cs + "fn main() { var arr = array<i32, 4>(1, 2, 3, 4); arr[a[0]] = 1; o[0] = arr[0]; }"
	_, err = run(t, wr, 1, xrt.Buffers{bnd(0, 1): i32buf(4)})
	wantTrap(t, err, "oob-write")
	// runtime-sized buffer: reading past the bound buffer
	_, err = run(t, hdrI+inI+cs+"fn main() { o[0] = a[a[0]]; }", 1, xrt.Buffers{bnd(0, 1): i32buf(2, 5)})
	wantTrap(t, err, "oob-read")
	_, err = run(t, hdrI+inI+cs+"fn main() { o[a[0]] = 1; }", 1, xrt.Buffers{bnd(0, 1): i32buf(1)})
	wantTrap(t, err, "oob-write")
	// by-value vector and matrix indexing
	_, err = run(t, hdrI+inI+cs+"fn main() { let v = vec3<i32>(a[0]); o[0] = v[a[0]]; }", 1, xrt.Buffers{bnd(0, 1): i32buf(3)})
	wantTrap(t, err, "oob-read")
	_, err = run(t, hdrI+inI+cs+"fn main() { var v = vec3<i32>(a[0]); v[a[0]] = 1; o[0] = v.x; }", 1, xrt.Buffers{bnd(0, 1): i32buf(3)})
	wantTrap(t, err, "oob-write")
	// taking the address alone is not an access
	if _, err = run(t, hdrI+inI+cs+"fn main() { var arr = array<i32, 4>(1, 2, 3, 4); let p = &arr[a[0]]; o[0] = 1; }", 1, xrt.Buffers{bnd(0, 1): i32buf(9)}); err != nil {
		t.Fatalf("address-of out of bounds must not trap by itself: %v", err)
	}
}

func TestConformanceStepLimit(t *testing.T) {
	m := lower(t, hdrI+cs+"fn main() { var i = 0; loop { i++; if (i < 0) { break; } o[0] = i; } }")
	err := Exec(m, xrt.Buffers{bnd(0, 0): make([]byte, 4)}, xrt.Opts{StepLimit: 5000})
	var sl *xrt.StepLimit
	if !errors.As(err, &sl) {
		t.Fatalf("err = %v, want step limit", err)
	}
}

func TestConformanceUnsupported(t *testing.T) {
	src := `@group(0) @binding(0) var<storage, read_write> o: array<f32>;
@group(0) @binding(1) var tex: texture_2d<f32>;
@compute @workgroup_size(1) fn main() { o[0] = textureLoad(tex, vec2<i32>(0, 0), 0).x; }
@compute @workgroup_size(1) fn plain() { o[0] = 2.0; }
@fragment fn fs() -> @location(0) vec4<f32> { return vec4<f32>(1.0); }`
	m := lower(t, src)
	var un *xrt.Unsupported
	if err := Exec(m, xrt.Buffers{bnd(0, 0): make([]byte, 4)}, xrt.Opts{}); !errors.As(err, &un) {
		t.Fatalf("texture load: err = %v, want unsupported", err)
	}
	if err := Exec(m, xrt.Buffers{bnd(0, 0): make([]byte, 4)}, xrt.Opts{EntryPoint: "fs"}); !errors.As(err, &un) {
		t.Fatalf("fragment entry: err = %v, want unsupported", err)
	}
	// the module's other entry point is unaffected by the unsupported one
	b := xrt.Buffers{bnd(0, 0): make([]byte, 4)}
	if err := Exec(m, b, xrt.Opts{EntryPoint: "plain"}); err != nil || rdF32(b[bnd(0, 0)])[0] != 2 {
		t.Fatalf("plain: %v %v", err, rdF32(b[bnd(0, 0)]))
	}
}

func TestConformanceTrace(t *testing.T) {
	m := lower(t, hdrI+inI+cs+"fn main() { o[1] = a[2] + a[0]; }")
	var tr []xrt.Access
	err := Exec(m, xrt.Buffers{bnd(0, 0): make([]byte, 8), bnd(0, 1): i32buf(1, 2, 3)}, xrt.Opts{Trace: &tr})
	if err != nil {
		t.Fatal(err)
	}
	want := []xrt.Access{{B: bnd(0, 1), Off: 8, Len: 4}, {B: bnd(0, 1), Off: 0, Len: 4}, {B: bnd(0, 0), Off: 4, Len: 4, Write: true}}
	if len(tr) != len(want) {
		t.Fatalf("trace = %+v", tr)
	}
	for i := range want {
		if tr[i] != want[i] {
			t.Fatalf("trace = %+v, want %+v", tr, want)
		}
	}
}
