package irx

import (
	"os"
	"path/filepath"
	"sort"
	"strings"
	"testing"
)

// TestCalibrateCorpus validates every corpus shader and logs the findings (go test -v -run Calibrate).
func TestCalibrateCorpus(t *testing.T) {
	total := map[string]int{}
	fired := map[string]int{}
	n := 0
	for _, f := range corpusFiles(t) {
		m, err := lowerErr(readFile(t, f))
		if err != nil {
			continue
		}
		n++
		rep := Validate(m, ValidateOpts{})
		for k, c := range rep.Fired {
			fired[k] += c
		}
		for _, fd := range rep.Findings {
			total[fd.Rule]++
			if testing.Verbose() {
				t.Logf("%s: %s", strings.TrimSuffix(filepath.Base(f), ".wgsl"), fd)
			}
		}
	}
	var ks []string
	for _, k := range Rules() {
		ks = append(ks, k)
	}
	sort.Strings(ks)
	for _, k := range ks {
		t.Logf("rule %-18s checks %7d findings %d", k, fired[k], total[k])
	}
	t.Logf("%d modules", n)
}

// TestValidateFile validates the WGSL file named by $IRX_FILE (debugging aid; skipped otherwise).
func TestValidateFile(t *testing.T) {
	p := os.Getenv("IRX_FILE")
	if p == "" {
		t.Skip("IRX_FILE not set")
	}
	m, err := lowerErr(readFile(t, p))
	if err != nil {
		t.Fatal(err)
	}
	rep := Validate(m, ValidateOpts{})
	for _, f := range rep.Findings {
		t.Logf("%s", f)
	}
	t.Logf("%d findings", len(rep.Findings))
}
