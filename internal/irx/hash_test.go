package irx

import (
	"testing"

	"github.com/gogpu/naga/ir"
)

const hashSrc = `
struct S { a: i32, v: vec3<f32>, arr: array<u32, 4> }
@group(0) @binding(0) var<storage, read_write> out: array<i32>;
@group(0) @binding(1) var<uniform> u: S;
var<private> cnt: i32 = 3;
var<workgroup> wg: array<atomic<u32>, 4>;
const K = array<i32,3>(10,20,30);
fn helper(p: ptr<function, i32>, q: i32) -> i32 {
  if (q > 2) { *p = q; return 1; }
  switch q { case 1, 2: { *p = *p + 1; } default: { return 5; } }
  return *p;
}
@compute @workgroup_size(2,1,1)
fn main(@builtin(global_invocation_id) gid: vec3<u32>, @builtin(local_invocation_index) li: u32) {
  var x = i32(gid.x) + cnt;
  var y: i32;
  let r = helper(&x, 2);
  var v = vec3<f32>(1.0, 2.0, 3.0);
  v.y = u.v.x;
  let old = atomicAdd(&wg[li], 1u);
  workgroupBarrier();
  for (var i = 0; i < 3; i++) { y += K[i]; if (i == 1) { continue; } }
  out[gid.x] = x + y + r + i32(old) + i32(arrayLength(&out));
  let z = u.arr[li];
  if (z > 3u) { loop { y += 1; if (y > 10) { break; } continuing { x = x + 41; } } }
  out[1] = y;
}
`

func TestHashTwoLoweringsEqual(t *testing.T) {
	a, b := lower(t, hashSrc), lower(t, hashSrc)
	if Hash(a) != Hash(b) {
		t.Fatalf("independent lowerings differ:\n%s", Diff(a, b))
	}
	if d := Diff(a, b); d != "" {
		t.Fatalf("Diff non-empty: %s", d)
	}
	if string(Snapshot(a)) != string(Snapshot(b)) {
		t.Fatal("snapshots differ")
	}
}

func TestHashCorpusStable(t *testing.T) {
	for _, f := range corpusFiles(t) {
		src := readFile(t, f)
		a, err := lowerErr(src)
		if err != nil {
			continue
		}
		b, _ := lowerErr(src)
		if Hash(a) != Hash(b) {
			t.Errorf("%s: two lowerings hash differently: %s", f, Diff(a, b))
		}
		c := Clone(a)
		if Hash(c) != Hash(a) {
			t.Errorf("%s: clone differs: %s", f, Diff(a, c))
		}
	}
}

// findStmt walks blocks and calls f on every statement slot.
func walkStmts(b []ir.Statement, depth int, f func(s *ir.Statement, depth int) bool) bool {
	for i := range b {
		if f(&b[i], depth) {
			return true
		}
		switch k := b[i].Kind.(type) {
		case ir.StmtBlock:
			if walkStmts(k.Block, depth+1, f) {
				return true
			}
		case ir.StmtIf:
			if walkStmts(k.Accept, depth+1, f) || walkStmts(k.Reject, depth+1, f) {
				return true
			}
		case ir.StmtLoop:
			if walkStmts(k.Body, depth+1, f) || walkStmts(k.Continuing, depth+1, f) {
				return true
			}
		case ir.StmtSwitch:
			for _, c := range k.Cases {
				if walkStmts(c.Body, depth+1, f) {
					return true
				}
			}
		}
	}
	return false
}

func TestHashDetectsMutations(t *testing.T) {
	base := lower(t, hashSrc)
	h0 := Hash(base)
	muts := map[string]func(m *ir.Module) bool{
		"literal value": func(m *ir.Module) bool {
			ex := m.EntryPoints[0].Function.Expressions
			for i := range ex {
				if l, ok := ex[i].Kind.(ir.Literal); ok {
					if v, ok := l.Value.(ir.LiteralI32); ok && v == 41 {
						ex[i].Kind = ir.Literal{Value: ir.LiteralI32(42)}
						return true
					}
				}
			}
			return false
		},
		"nested statement": func(m *ir.Module) bool {
			return walkStmts(m.EntryPoints[0].Function.Body, 0, func(s *ir.Statement, d int) bool {
				if st, ok := s.Kind.(ir.StmtStore); ok && d >= 2 {
					st.Value, st.Pointer = st.Pointer, st.Value
					s.Kind = st
					return true
				}
				return false
			})
		},
		"nested emit range": func(m *ir.Module) bool {
			return walkStmts(m.EntryPoints[0].Function.Body, 0, func(s *ir.Statement, d int) bool {
				if st, ok := s.Kind.(ir.StmtEmit); ok && d >= 2 {
					st.Range.End++
					s.Kind = st
					return true
				}
				return false
			})
		},
		"resource binding": func(m *ir.Module) bool { m.GlobalVariables[1].Binding.Binding = 7; return true },
		"builtin binding": func(m *ir.Module) bool {
			var b ir.Binding = ir.BuiltinBinding{Builtin: ir.BuiltinSubgroupID}
			*m.EntryPoints[0].Function.Arguments[1].Binding = b
			return true
		},
		"global name":  func(m *ir.Module) bool { m.GlobalVariables[0].Name = "out2"; return true },
		"local name":   func(m *ir.Module) bool { m.EntryPoints[0].Function.LocalVars[0].Name = "xx"; return true },
		"named expr":   func(m *ir.Module) bool { m.EntryPoints[0].Function.NamedExpressions[9999] = "q"; return true },
		"array size":   func(m *ir.Module) bool { *m.Types[findArray(m)].Inner.(ir.ArrayType).Size.Constant = 5; return true },
		"workgroup":    func(m *ir.Module) bool { m.EntryPoints[0].Workgroup[2] = 3; return true },
		"switch value": func(m *ir.Module) bool { return mutateSwitch(m) },
		"local init nil": func(m *ir.Module) bool {
			for i := range m.EntryPoints[0].Function.LocalVars {
				if m.EntryPoints[0].Function.LocalVars[i].Init != nil {
					m.EntryPoints[0].Function.LocalVars[i].Init = nil
					return true
				}
			}
			return false
		},
		"expr type": func(m *ir.Module) bool {
			m.EntryPoints[0].Function.ExpressionTypes[3] = ir.TypeResolution{Value: ir.ScalarType{Kind: ir.ScalarUint, Width: 4}}
			return true
		},
		"drop statement": func(m *ir.Module) bool {
			f := &m.Functions[0]
			f.Body = f.Body[:len(f.Body)-1]
			return true
		},
	}
	for name, mut := range muts {
		m := Clone(base)
		if !mut(m) {
			t.Errorf("%s: mutation site not found", name)
			continue
		}
		if Hash(m) == h0 {
			t.Errorf("%s: hash unchanged after mutation", name)
		}
		if Diff(base, m) == "" {
			t.Errorf("%s: Diff empty after mutation", name)
		}
		if Hash(base) != h0 {
			t.Fatalf("%s: mutating the clone changed the original", name)
		}
	}
}

func findArray(m *ir.Module) int {
	for i, ty := range m.Types {
		if a, ok := ty.Inner.(ir.ArrayType); ok && a.Size.Constant != nil {
			return i
		}
	}
	return -1
}

func mutateSwitch(m *ir.Module) bool {
	return walkStmts(m.Functions[0].Body, 0, func(s *ir.Statement, d int) bool {
		if sw, ok := s.Kind.(ir.StmtSwitch); ok {
			sw.Cases[0].Value = ir.SwitchValueI32(9)
			return true
		}
		return false
	})
}

func TestHashNilVsEmpty(t *testing.T) {
	a := &ir.Module{}
	b := &ir.Module{Types: []ir.Type{}, Functions: make([]ir.Function, 0, 4)}
	if Hash(a) != Hash(b) {
		t.Fatal("nil and empty slices must hash equal")
	}
	a.Functions = []ir.Function{{Name: "f"}}
	b.Functions = []ir.Function{{Name: "f", NamedExpressions: map[ir.ExpressionHandle]string{}, Body: ir.Block{}}}
	if Hash(a) != Hash(b) {
		t.Fatalf("nil and empty maps/blocks must hash equal: %s", Diff(a, b))
	}
	// slice length is part of the hash: [[1],[]] vs [[],[1]]
	x := &ir.Module{Functions: []ir.Function{{Body: ir.Block{{Kind: ir.StmtBreak{}}}}, {}}}
	y := &ir.Module{Functions: []ir.Function{{}, {Body: ir.Block{{Kind: ir.StmtBreak{}}}}}}
	if Hash(x) == Hash(y) {
		t.Fatal("slice boundaries must be part of the hash")
	}
}

func TestHashIgnoreNames(t *testing.T) {
	a := lower(t, hashSrc)
	b := lower(t, hashSrc)
	b.EntryPoints[0].Function.LocalVars[0].Name = "renamed"
	for h := range b.EntryPoints[0].Function.NamedExpressions {
		b.EntryPoints[0].Function.NamedExpressions[h] = "other"
	}
	if Hash(a) == Hash(b) {
		t.Fatal("renaming must change the plain hash")
	}
	o := HashOptions{IgnoreNames: true}
	if HashOpts(a, o) != HashOpts(b, o) {
		t.Fatalf("IgnoreNames must ignore renaming: %s", DiffOpts(a, b, o))
	}
	// ... but not a structural change
	b.EntryPoints[0].Workgroup[0] = 9
	if HashOpts(a, o) == HashOpts(b, o) {
		t.Fatal("IgnoreNames must still see structural changes")
	}
	// renamed from source
	c := lower(t, `@group(0) @binding(0) var<storage, read_write> o: array<i32>;
@compute @workgroup_size(1) fn main() { var abc = 1; abc += 2; o[0] = abc; }`)
	d := lower(t, `@group(0) @binding(0) var<storage, read_write> o: array<i32>;
@compute @workgroup_size(1) fn main() { var xyz = 1; xyz += 2; o[0] = xyz; }`)
	if Hash(c) == Hash(d) || HashOpts(c, o) != HashOpts(d, o) {
		t.Fatalf("source-level rename of a local: plain %v ignoring-names diff %q", Hash(c) == Hash(d), DiffOpts(c, d, o))
	}
}

func TestCloneIndependent(t *testing.T) {
	m := lower(t, hashSrc)
	h := Hash(m)
	c := Clone(m)
	if Hash(c) != h {
		t.Fatalf("clone hash differs: %s", Diff(m, c))
	}
	// mutate everything reachable in the clone in place
	c.Types[0].Name = "zz"
	*c.GlobalVariables[0].Binding = ir.ResourceBinding{Group: 9, Binding: 9}
	c.EntryPoints[0].Function.Expressions[0].Kind = ir.Literal{Value: ir.LiteralBool(true)}
	walkStmts(c.EntryPoints[0].Function.Body, 0, func(s *ir.Statement, d int) bool { s.Kind = ir.StmtKill{}; return false })
	c.Functions[0].Body[0] = ir.Statement{Kind: ir.StmtKill{}}
	for k := range c.EntryPoints[0].Function.NamedExpressions {
		c.EntryPoints[0].Function.NamedExpressions[k] = "changed"
	}
	for i := range c.EntryPoints[0].Function.ExpressionTypes {
		if hp := c.EntryPoints[0].Function.ExpressionTypes[i].Handle; hp != nil {
			*hp = 99
		}
	}
	if Hash(m) != h {
		t.Fatalf("mutating the clone altered the original")
	}
	if Hash(c) == h {
		t.Fatal("clone mutations not visible in its hash")
	}
}

type cyc struct {
	Next *cyc
	S    []any
	x    int
}

func TestHashCyclesAndUnexported(t *testing.T) {
	a := &cyc{x: 1}
	a.Next = a
	a.S = []any{a}
	b := &cyc{x: 1}
	b.Next = b
	b.S = []any{b}
	if HashValue(a, HashOptions{}) != HashValue(b, HashOptions{}) {
		t.Fatal("isomorphic cyclic values must hash equal")
	}
	b.x = 2
	if HashValue(a, HashOptions{}) == HashValue(b, HashOptions{}) {
		t.Fatal("unexported field must be hashed")
	}
	c := CloneValue(a)
	if c == a || c.Next != c || c.x != 1 || c.S[0].(*cyc) != c {
		t.Fatal("clone of cyclic value wrong")
	}
}

func BenchmarkHash(b *testing.B) {
	m := lower(b, hashSrc)
	b.ResetTimer()
	for i := 0; i < b.N; i++ {
		Hash(m)
	}
}

func BenchmarkClone(b *testing.B) {
	m := lower(b, hashSrc)
	b.ResetTimer()
	for i := 0; i < b.N; i++ {
		Clone(m)
	}
}
