package irx

import (
	"fmt"
	"sort"

	"github.com/gogpu/naga/ir"
)

// Finding is one violation of the C09 contract.
type Finding struct{ Rule, Detail string }

func (f Finding) String() string { return f.Rule + ": " + f.Detail }

// Report is the outcome of Validate. Findings are the violations; Fired counts, per rule, how
// many individual checks of that rule were evaluated (so that a rule that never had anything to
// look at is visible as 0 in the evidence).
type Report struct {
	Findings []Finding
	Fired    map[string]int
}

// OK reports whether there are no findings.
func (r *Report) OK() bool { return len(r.Findings) == 0 }

// Count returns the number of findings of one rule.
func (r *Report) Count(rule string) int {
	n := 0
	for _, f := range r.Findings {
		if f.Rule == rule {
			n++
		}
	}
	return n
}

// ByRule returns the number of findings per rule.
func (r *Report) ByRule() map[string]int {
	out := map[string]int{}
	for _, f := range r.Findings {
		out[f.Rule]++
	}
	return out
}

// ValidateOpts configures Validate.
type ValidateOpts struct {
	// AllowSSA admits the ExprAlias / ExprPhi kinds that the DXIL mem2reg pass introduces (their
	// sources may be forward references and a phi's incoming values need not dominate the phi).
	AllowSSA bool
	// SkipNagaValidate leaves out the last rule (ir.Validate reports nothing).
	SkipNagaValidate bool
}

// Rule identifiers (stable).
const (
	RuleHandleRange    = "handle-range"     // (a) every handle is inside its arena
	RuleHandleBackward = "handle-backward"  // (a) ordered arenas only refer backwards
	RuleNoAbstract     = "no-abstract"      // (b) no abstract scalar kind / literal
	RuleTypeUnique     = "type-unique"      // (c) no two structurally identical types of the same name
	RuleExprOperand    = "expr-operand"     // (d) operands of an expression admit no type (ill-typed)
	RuleExprType       = "expr-type"        // (d) recorded type == independently inferred type
	RuleEmitCover      = "emit-cover"       // (e) evaluated expression covered by exactly one Emit
	RuleEmitNever      = "emit-never"       // (e) pre-emitted / statement-result kinds are not in an Emit
	RuleEmitDominates  = "emit-dominates"   // (e) value is available (emitted, in scope) where used
	RuleAfterTerm      = "after-terminator" // (f) nothing follows Return/Break/Continue/Kill in a block
	RuleReturnPaths    = "return-paths"     // (g) function with result returns on all paths
	RuleReturnType     = "return-type"      // (g) return value presence and type
	RuleBreakContinue  = "break-continue"   // (g) break/continue placement
	RuleCondType       = "cond-type"        // (g) if/break-if condition is bool, switch selector is i32/u32 with matching case values
	RuleStore          = "store-type"       // (h) store pointer/value agreement, writable space
	RuleCall           = "call-args"        // (h) call arguments / result
	RuleAtomic         = "atomic-stmt"      // (h) atomic statement operands / result
	RuleEPStage        = "ep-stage"         // (i) stage-appropriate shape (result, workgroup size)
	RuleEPBinding      = "ep-binding"       // (i) every argument / result (member) is bound
	RuleEPLocation     = "ep-location"      // (i) no two inputs / outputs share a location
	RuleEPBuiltin      = "ep-builtin"       // (i) builtin valid for stage, direction and type; no duplicates
	RuleResBinding     = "resource-binding" // (j) resource globals bound, others not
	RuleBindingClash   = "binding-conflict" // (j) one (group,binding) used twice within an entry point
	RuleNagaValidate   = "naga-validate"    // (k) ir.Validate reports nothing
	RuleStmtResult     = "stmt-result"      // (h) a statement's result is the result expression of its kind and type; every result expression has exactly one producing statement
	RuleStmtOperand    = "stmt-operand"     // (h) operand kinds / types of image-store, image-atomic, workgroupUniformLoad, ray-query, subgroup and barrier statements
)

// internal rule indices (parallel to Rules()).
const (
	rHandleRange = iota
	rHandleBackward
	rNoAbstract
	rTypeUnique
	rExprOperand
	rExprType
	rEmitCover
	rEmitNever
	rEmitDominates
	rAfterTerm
	rReturnPaths
	rReturnType
	rBreakContinue
	rCondType
	rStore
	rCall
	rAtomic
	rEPStage
	rEPBinding
	rEPLocation
	rEPBuiltin
	rResBinding
	rBindingClash
	rNagaValidate
	rStmtResult
	rStmtOperand
	nRules
)

var ruleNames = [nRules]string{RuleHandleRange, RuleHandleBackward, RuleNoAbstract, RuleTypeUnique, RuleExprOperand, RuleExprType, RuleEmitCover, RuleEmitNever, RuleEmitDominates, RuleAfterTerm, RuleReturnPaths, RuleReturnType, RuleBreakContinue, RuleCondType, RuleStore, RuleCall, RuleAtomic, RuleEPStage, RuleEPBinding, RuleEPLocation, RuleEPBuiltin, RuleResBinding, RuleBindingClash, RuleNagaValidate, RuleStmtResult, RuleStmtOperand}

// Rules lists every rule id.
func Rules() []string { return append([]string(nil), ruleNames[:]...) }

type validator struct {
	m     *ir.Module
	o     ValidateOpts
	rep   *Report
	count [nRules]int
}

func (v *validator) fired(rule int) { v.count[rule]++ }

func (v *validator) add(rule int, format string, args ...any) {
	v.rep.Findings = append(v.rep.Findings, Finding{Rule: ruleNames[rule], Detail: fmt.Sprintf(format, args...)})
}

// check records one evaluation of rule and a finding when ok is false. Hot paths use
// `if cond { v.fired(r) } else { v.add(r, ...) }` instead so that the arguments are only built on failure.
func (v *validator) check(rule int, ok bool, format string, args ...any) bool {
	v.count[rule]++
	if !ok {
		v.add(rule, format, args...)
	}
	return ok
}

// Validate checks m against the C09 contract. It never panics on malformed modules.
func Validate(m *ir.Module, o ValidateOpts) (rep *Report) {
	rep = &Report{Fired: make(map[string]int, nRules)}
	v := &validator{m: m, o: o, rep: rep}
	defer func() {
		if r := recover(); r != nil {
			v.add(rHandleRange, "validator aborted on malformed module: %v", r)
		}
		for i, n := range ruleNames {
			rep.Fired[n] = v.count[i]
		}
	}()
	if m == nil {
		v.add(rHandleRange, "nil module")
		return rep
	}
	v.types()
	v.constantsAndGlobals()
	v.globalExpressions()
	for i := range m.Functions {
		v.function(&m.Functions[i], fmt.Sprintf("fn[%d] %q", i, m.Functions[i].Name), nil)
	}
	for i := range m.EntryPoints {
		ep := &m.EntryPoints[i]
		v.function(&ep.Function, fmt.Sprintf("ep[%d] %q", i, ep.Name), ep)
		v.entryPoint(ep)
	}
	v.resources()
	if !o.SkipNagaValidate {
		v.nagaValidate()
	}
	return rep
}

func (v *validator) nagaValidate() {
	var errs []ir.ValidationError
	var err error
	func() {
		defer func() {
			if r := recover(); r != nil {
				err = fmt.Errorf("ir.Validate panicked: %v", r)
			}
		}()
		errs, err = ir.Validate(v.m)
	}()
	v.check(rNagaValidate, err == nil, "ir.Validate returned error value: %v", err)
	for _, e := range errs {
		v.check(rNagaValidate, false, "%s", e.Error())
	}
	if len(errs) == 0 {
		v.fired(rNagaValidate)
	}
}

func (v *validator) typeOK(h ir.TypeHandle) bool { return int(h) < len(v.m.Types) }

// ---------------------------------------------------------------------------------------------
// (a)(b)(c) types

func abstractScalar(s ir.ScalarType) bool {
	return s.Kind == ir.ScalarAbstractInt || s.Kind == ir.ScalarAbstractFloat
}

func innerHasAbstract(in ir.TypeInner) bool {
	switch x := in.(type) {
	case ir.ScalarType:
		return abstractScalar(x)
	case ir.VectorType:
		return abstractScalar(x.Scalar)
	case ir.MatrixType:
		return abstractScalar(x.Scalar)
	case ir.AtomicType:
		return abstractScalar(x.Scalar)
	case ir.ValuePointerType:
		return abstractScalar(x.Scalar)
	}
	return false
}

func (v *validator) types() {
	m := v.m
	for i, ty := range m.Types {
		h := ir.TypeHandle(i)
		ref := func(what string, r ir.TypeHandle) {
			if v.check(rHandleRange, v.typeOK(r), "type %d %s: type handle %d out of range (%d types)", i, what, r, len(m.Types)) {
				v.check(rHandleBackward, r < h, "type %d %s refers to type %d (not strictly earlier)", i, what, r)
			}
		}
		v.check(rHandleRange, ty.Inner != nil, "type %d has nil inner", i)
		switch x := ty.Inner.(type) {
		case ir.ArrayType:
			ref("array base", x.Base)
		case ir.StructType:
			for j, mem := range x.Members {
				ref(fmt.Sprintf("member %d %q", j, mem.Name), mem.Type)
			}
		case ir.PointerType:
			ref("pointer base", x.Base)
		case ir.BindingArrayType:
			ref("binding-array base", x.Base)
		}
		v.count[rNoAbstract]++
		if innerHasAbstract(ty.Inner) {
			v.add(rNoAbstract, "type %d %q is abstract: %s", i, ty.Name, describeInner(m, ty.Inner, 0))
		}
	}
	// (c) uniqueness. Identity of an arena entry = (name, structure); nested handles are compared
	// as handles (an earlier duplicate is reported on its own).
	seen := map[string]int{}
	for i, ty := range m.Types {
		if ty.Inner == nil {
			continue
		}
		key := HashValue(ty, HashOptions{})
		if j, dup := seen[key]; dup {
			v.check(rTypeUnique, false, "types %d and %d are identical (name %q): %s", j, i, ty.Name, describeInner(m, ty.Inner, 0))
		} else {
			seen[key] = i
			v.fired(rTypeUnique)
		}
	}
	st := m.SpecialTypes
	for _, p := range []*ir.TypeHandle{st.ExternalTextureParams, st.ExternalTextureTransferFunction, st.RayIntersection} {
		if p != nil {
			v.check(rHandleRange, v.typeOK(*p), "special type handle %d out of range", *p)
		}
	}
	for i, h := range m.TypeUseOrder {
		v.check(rHandleRange, v.typeOK(h), "TypeUseOrder[%d] = %d out of range", i, h)
	}
}

func (v *validator) constantsAndGlobals() {
	m := v.m
	nge := len(m.GlobalExpressions)
	for i, c := range m.Constants {
		if v.check(rHandleRange, v.typeOK(c.Type), "constant %d %q: type %d out of range", i, c.Name, c.Type) {
			v.count[rNoAbstract]++
			if innerHasAbstract(m.Types[c.Type].Inner) {
				v.add(rNoAbstract, "constant %d %q has abstract type %s", i, c.Name, describeInner(m, m.Types[c.Type].Inner, 0))
			}
		}
		if nge > 0 || c.Value == nil {
			v.check(rHandleRange, int(c.Init) < nge, "constant %d %q: init expression %d out of range (%d global expressions)", i, c.Name, c.Init, nge)
		}
		switch val := c.Value.(type) {
		case ir.ScalarValue:
			v.check(rNoAbstract, val.Kind != ir.ScalarAbstractInt && val.Kind != ir.ScalarAbstractFloat, "constant %d %q has abstract scalar value", i, c.Name)
		case ir.CompositeValue:
			for j, comp := range val.Components {
				if v.check(rHandleRange, int(comp) < len(m.Constants), "constant %d %q: component %d = constant %d out of range", i, c.Name, j, comp) {
					v.check(rHandleBackward, int(comp) < i, "constant %d %q: component %d refers to constant %d (not strictly earlier)", i, c.Name, j, comp)
				}
			}
		}
	}
	for i, o := range m.Overrides {
		v.check(rHandleRange, v.typeOK(o.Ty), "override %d %q: type %d out of range", i, o.Name, o.Ty)
		if o.Init != nil {
			v.check(rHandleRange, int(*o.Init) < nge, "override %d %q: init expression %d out of range", i, o.Name, *o.Init)
		}
	}
	for i, g := range m.GlobalVariables {
		v.check(rHandleRange, v.typeOK(g.Type), "global %d %q: type %d out of range", i, g.Name, g.Type)
		if g.Init != nil {
			v.check(rHandleRange, int(*g.Init) < len(m.Constants), "global %d %q: init constant %d out of range", i, g.Name, *g.Init)
		}
		if g.InitExpr != nil {
			v.check(rHandleRange, int(*g.InitExpr) < nge, "global %d %q: init expression %d out of range", i, g.Name, *g.InitExpr)
		}
	}
}

// operandsOf lists the expression handles an expression refers to.
func operandsOf(k ir.ExpressionKind) []ir.ExpressionHandle {
	opt := func(out []ir.ExpressionHandle, ps ...*ir.ExpressionHandle) []ir.ExpressionHandle {
		for _, p := range ps {
			if p != nil {
				out = append(out, *p)
			}
		}
		return out
	}
	switch x := k.(type) {
	case ir.ExprCompose:
		return x.Components
	case ir.ExprAccess:
		return []ir.ExpressionHandle{x.Base, x.Index}
	case ir.ExprAccessIndex:
		return []ir.ExpressionHandle{x.Base}
	case ir.ExprSplat:
		return []ir.ExpressionHandle{x.Value}
	case ir.ExprSwizzle:
		return []ir.ExpressionHandle{x.Vector}
	case ir.ExprLoad:
		return []ir.ExpressionHandle{x.Pointer}
	case ir.ExprAlias:
		return []ir.ExpressionHandle{x.Source}
	case ir.ExprPhi:
		out := make([]ir.ExpressionHandle, len(x.Incoming))
		for i, in := range x.Incoming {
			out[i] = in.Value
		}
		return out
	case ir.ExprImageSample:
		out := []ir.ExpressionHandle{x.Image, x.Sampler, x.Coordinate}
		out = opt(out, x.ArrayIndex, x.Offset, x.DepthRef)
		switch l := x.Level.(type) {
		case ir.SampleLevelExact:
			out = append(out, l.Level)
		case ir.SampleLevelBias:
			out = append(out, l.Bias)
		case ir.SampleLevelGradient:
			out = append(out, l.X, l.Y)
		}
		return out
	case ir.ExprImageLoad:
		return opt([]ir.ExpressionHandle{x.Image, x.Coordinate}, x.ArrayIndex, x.Sample, x.Level)
	case ir.ExprImageQuery:
		out := []ir.ExpressionHandle{x.Image}
		if q, ok := x.Query.(ir.ImageQuerySize); ok {
			out = opt(out, q.Level)
		}
		return out
	case ir.ExprUnary:
		return []ir.ExpressionHandle{x.Expr}
	case ir.ExprBinary:
		return []ir.ExpressionHandle{x.Left, x.Right}
	case ir.ExprSelect:
		return []ir.ExpressionHandle{x.Condition, x.Accept, x.Reject}
	case ir.ExprDerivative:
		return []ir.ExpressionHandle{x.Expr}
	case ir.ExprRelational:
		return []ir.ExpressionHandle{x.Argument}
	case ir.ExprMath:
		return opt([]ir.ExpressionHandle{x.Arg}, x.Arg1, x.Arg2, x.Arg3)
	case ir.ExprAs:
		return []ir.ExpressionHandle{x.Expr}
	case ir.ExprArrayLength:
		return []ir.ExpressionHandle{x.Array}
	case ir.ExprRayQueryGetIntersection:
		return []ir.ExpressionHandle{x.Query}
	}
	return nil
}

// exprHandles checks the non-expression handles an expression carries (types, constants, ...).
func (v *validator) exprHandles(where string, i int, k ir.ExpressionKind, fn *ir.Function) {
	m := v.m
	rng := func(ok bool, what string, h uint32) {
		v.count[rHandleRange]++
		if !ok {
			v.add(rHandleRange, "%s e%d: %s %d out of range", where, i, what, h)
		}
	}
	switch x := k.(type) {
	case ir.ExprConstant:
		rng(int(x.Constant) < len(m.Constants), "constant", uint32(x.Constant))
		return
	case ir.ExprZeroValue:
		rng(v.typeOK(x.Type), "zero-value type", uint32(x.Type))
		return
	case ir.ExprCompose:
		rng(v.typeOK(x.Type), "compose type", uint32(x.Type))
		return
	case ir.ExprGlobalVariable:
		rng(int(x.Variable) < len(m.GlobalVariables), "global", uint32(x.Variable))
		return
	case ir.ExprLocalVariable:
		rng(fn != nil && int(x.Variable) < len(fn.LocalVars), "local", x.Variable)
		return
	case ir.ExprFunctionArgument:
		rng(fn != nil && int(x.Index) < len(fn.Arguments), "argument", x.Index)
		return
	}
	switch x := k.(type) {
	case ir.ExprConstant:
		v.check(rHandleRange, int(x.Constant) < len(m.Constants), "%s e%d: constant %d out of range", where, i, x.Constant)
	case ir.ExprOverride:
		v.check(rHandleRange, int(x.Override) < len(m.Overrides), "%s e%d: override %d out of range", where, i, x.Override)
	case ir.ExprZeroValue:
		v.check(rHandleRange, v.typeOK(x.Type), "%s e%d: zero-value type %d out of range", where, i, x.Type)
	case ir.ExprCompose:
		v.check(rHandleRange, v.typeOK(x.Type), "%s e%d: compose type %d out of range", where, i, x.Type)
	case ir.ExprGlobalVariable:
		v.check(rHandleRange, int(x.Variable) < len(m.GlobalVariables), "%s e%d: global %d out of range", where, i, x.Variable)
	case ir.ExprLocalVariable:
		v.check(rHandleRange, fn != nil && int(x.Variable) < len(fn.LocalVars), "%s e%d: local %d out of range", where, i, x.Variable)
	case ir.ExprFunctionArgument:
		v.check(rHandleRange, fn != nil && int(x.Index) < len(fn.Arguments), "%s e%d: argument %d out of range", where, i, x.Index)
	case ir.ExprCallResult:
		v.check(rHandleRange, int(x.Function) < len(m.Functions), "%s e%d: function %d out of range", where, i, x.Function)
	case ir.ExprAtomicResult:
		v.check(rHandleRange, v.typeOK(x.Ty), "%s e%d: atomic result type %d out of range", where, i, x.Ty)
	case ir.ExprSubgroupOperationResult:
		v.check(rHandleRange, v.typeOK(x.Type), "%s e%d: subgroup result type %d out of range", where, i, x.Type)
	case ir.Literal:
		switch x.Value.(type) {
		case ir.LiteralAbstractInt, ir.LiteralAbstractFloat:
			v.check(rNoAbstract, false, "%s e%d: abstract literal %T(%v)", where, i, x.Value, x.Value)
		default:
			v.fired(rNoAbstract)
		}
	}
}

func (v *validator) arena(where string, exprs []ir.Expression, fn *ir.Function) {
	for i, e := range exprs {
		v.count[rHandleRange]++
		if e.Kind == nil {
			v.add(rHandleRange, "%s e%d: nil kind", where, i)
			continue
		}
		v.exprHandles(where, i, e.Kind, fn)
		_, isAlias := e.Kind.(ir.ExprAlias)
		_, isPhi := e.Kind.(ir.ExprPhi)
		for _, op := range operandsOf(e.Kind) {
			v.count[rHandleRange]++
			if int(op) >= len(exprs) {
				v.add(rHandleRange, "%s e%d (%T): operand e%d out of range (%d expressions)", where, i, e.Kind, op, len(exprs))
				continue
			}
			if (isAlias || isPhi) && v.o.AllowSSA {
				continue
			}
			v.count[rHandleBackward]++
			if int(op) >= i {
				v.add(rHandleBackward, "%s e%d (%T): operand e%d is not strictly earlier", where, i, e.Kind, op)
			}
		}
	}
}

func (v *validator) globalExpressions() {
	v.arena("global-expr", v.m.GlobalExpressions, nil)
	for i, e := range v.m.GlobalExpressions {
		switch e.Kind.(type) {
		case ir.ExprFunctionArgument, ir.ExprLocalVariable, ir.ExprLoad, ir.ExprCallResult, ir.ExprAtomicResult, ir.ExprGlobalVariable:
			v.check(rExprOperand, false, "global-expr e%d: kind %T is not a constant expression", i, e.Kind)
		}
	}
	// Constant init / global init types agree with the declared type.
	t := newTyper(v.m, nil)
	t.inferAll()
	for i := range v.m.GlobalExpressions {
		if err := t.errs[i]; err != nil {
			if _, inherited := err.(*inheritedErr); !inherited {
				v.check(rExprOperand, false, "global-expr e%d (%T): %v", i, v.m.GlobalExpressions[i].Kind, err)
			}
		} else {
			v.fired(rExprOperand)
			if _, isLit := v.m.GlobalExpressions[i].Kind.(ir.Literal); !isLit {
				v.count[rNoAbstract]++
				if innerHasAbstract(t.types[i].In) {
					v.add(rNoAbstract, "global-expr e%d (%T) has abstract type %s", i, v.m.GlobalExpressions[i].Kind, describe(v.m, t.types[i]))
				}
			}
		}
	}
	declared := func(what func() string, init ir.ExpressionHandle, ty ir.TypeHandle) {
		if int(init) >= len(t.types) || t.errs[init] != nil || !v.typeOK(ty) {
			return
		}
		want := rtype{H: int(ty), In: v.m.Types[ty].Inner}
		v.count[rExprType]++
		if !sameType(v.m, t.types[init], want) {
			v.add(rExprType, "%s: init expression e%d has type %s, declared %s", what(), init, describe(v.m, t.types[init]), describe(v.m, want))
		}
	}
	if len(v.m.GlobalExpressions) > 0 {
		for i, c := range v.m.Constants {
			declared(func() string { return fmt.Sprintf("constant %d %q", i, c.Name) }, c.Init, c.Type)
		}
	}
	for i, g := range v.m.GlobalVariables {
		if g.InitExpr != nil {
			declared(func() string { return fmt.Sprintf("global %d %q", i, g.Name) }, *g.InitExpr, g.Type)
		}
	}
	for i, o := range v.m.Overrides {
		if o.Init != nil {
			declared(func() string { return fmt.Sprintf("override %d %q", i, o.Name) }, *o.Init, o.Ty)
		}
	}
}

// ---------------------------------------------------------------------------------------------
// functions

// neverEmitted: kinds whose value exists without an Emit (pre-emitted at function start) or is
// produced by a statement.
func preEmitted(k ir.ExpressionKind) bool {
	switch k.(type) {
	case ir.Literal, ir.ExprConstant, ir.ExprOverride, ir.ExprZeroValue, ir.ExprFunctionArgument,
		ir.ExprGlobalVariable, ir.ExprLocalVariable:
		return true
	}
	return false
}

func statementResult(k ir.ExpressionKind) bool {
	switch k.(type) {
	case ir.ExprCallResult, ir.ExprAtomicResult, ir.ExprWorkGroupUniformLoadResult,
		ir.ExprRayQueryProceedResult, ir.ExprSubgroupBallotResult, ir.ExprSubgroupOperationResult:
		return true
	}
	return false
}

type fnValidator struct {
	*validator
	fn     *ir.Function
	where  string
	ep     *ir.EntryPoint
	ty     *typer
	n      int
	cover  []int
	needed []bool // evaluated: used by a statement, operand of an evaluated expression, or inside an Emit range
	avail  []bool
	scope  []ir.ExpressionHandle
	ctx    []byte // 'B' loop body, 'C' loop continuing, 'S' switch
	// for the continue-aware availability of the continuing block
	loops []*loopInfo
}

type loopInfo struct {
	base      int // len(scope) when the loop body started
	depth     int // number of nested blocks opened below the body
	bodyLevel int // len(scope) when the first nested block below the body was entered
	minAtCont int // smallest body-level scope length seen at a `continue` (-1: none)
}

func (v *validator) function(fn *ir.Function, where string, ep *ir.EntryPoint) {
	m := v.m
	f := &fnValidator{validator: v, fn: fn, where: where, ep: ep, n: len(fn.Expressions)}
	// (a) handles
	for i, a := range fn.Arguments {
		v.check(rHandleRange, v.typeOK(a.Type), "%s: argument %d type %d out of range", where, i, a.Type)
	}
	if fn.Result != nil {
		v.check(rHandleRange, v.typeOK(fn.Result.Type), "%s: result type %d out of range", where, fn.Result.Type)
	}
	for i, l := range fn.LocalVars {
		v.check(rHandleRange, v.typeOK(l.Type), "%s: local %d %q type %d out of range", where, i, l.Name, l.Type)
		if l.Init != nil {
			v.check(rHandleRange, int(*l.Init) < f.n, "%s: local %d %q init e%d out of range", where, i, l.Name, *l.Init)
		}
	}
	for h := range fn.NamedExpressions {
		v.check(rHandleRange, int(h) < f.n, "%s: named expression e%d out of range", where, h)
	}
	v.arena(where, fn.Expressions, fn)

	// (d) types
	v.check(rExprType, len(fn.ExpressionTypes) == f.n, "%s: %d expressions but %d recorded types", where, f.n, len(fn.ExpressionTypes))
	f.ty = newTyper(m, fn)
	f.ty.inferAll()
	for i := 0; i < f.n; i++ {
		kind := fn.Expressions[i].Kind
		if err := f.ty.errs[i]; err != nil {
			if _, inherited := err.(*inheritedErr); !inherited {
				v.check(rExprOperand, false, "%s e%d (%T): %v", where, i, kind, err)
			}
			continue
		}
		v.fired(rExprOperand)
		inf := f.ty.types[i]
		if _, isLit := kind.(ir.Literal); !isLit { // abstract literals are reported by exprHandles
			v.count[rNoAbstract]++
			if innerHasAbstract(inf.In) {
				v.add(rNoAbstract, "%s e%d (%T) has abstract type %s", where, i, kind, describe(m, inf))
			}
		}
		if i >= len(fn.ExpressionTypes) {
			continue
		}
		v.count[rExprType]++
		rec, err := f.ty.resolution(fn.ExpressionTypes[i])
		if err != nil {
			v.add(rExprType, "%s e%d (%T): recorded type unusable: %v (inferred %s)", where, i, kind, err, describe(m, inf))
			continue
		}
		if !sameType(m, rec, inf) {
			v.add(rExprType, "%s e%d (%T): recorded %s, inferred %s", where, i, kind, describe(m, rec), describe(m, inf))
		}
	}
	for i, l := range fn.LocalVars {
		if l.Init != nil && int(*l.Init) < f.n && f.ty.errs[*l.Init] == nil && v.typeOK(l.Type) {
			want := rtype{H: int(l.Type), In: m.Types[l.Type].Inner}
			v.count[rExprType]++
			if !sameType(m, f.ty.types[*l.Init], want) {
				v.add(rExprType, "%s: local %d %q init e%d has type %s, declared %s", where, i, l.Name, *l.Init, describe(m, f.ty.types[*l.Init]), describe(m, want))
			}
		}
	}

	// (e) static cover counts
	f.cover = make([]int, f.n)
	walkBlocks(fn.Body, func(s ir.Statement) {
		if e, ok := s.Kind.(ir.StmtEmit); ok {
			if !v.check(rHandleRange, e.Range.Start <= e.Range.End && int(e.Range.End) <= f.n, "%s: emit range [%d,%d) outside the %d expressions", where, e.Range.Start, e.Range.End, f.n) {
				return
			}
			for h := e.Range.Start; h < e.Range.End; h++ {
				f.cover[h]++
			}
		}
	})
	// which expressions are evaluated: used by a statement, or operand of an evaluated one
	needed := make([]bool, f.n)
	var mark func(h ir.ExpressionHandle)
	mark = func(h ir.ExpressionHandle) {
		if int(h) >= f.n || needed[h] {
			return
		}
		needed[h] = true
		for _, op := range operandsOf(fn.Expressions[h].Kind) {
			mark(op)
		}
	}
	walkBlocks(fn.Body, func(s ir.Statement) {
		uses, _ := stmtUses(s)
		for _, u := range uses {
			mark(u)
		}
	})
	for i := 0; i < f.n; i++ {
		if f.cover[i] > 0 {
			mark(ir.ExpressionHandle(i))
		}
	}
	f.needed = needed
	for i := 0; i < f.n; i++ {
		k := fn.Expressions[i].Kind
		if k == nil {
			continue
		}
		if preEmitted(k) || statementResult(k) {
			v.count[rEmitNever]++
			if f.cover[i] != 0 {
				v.add(rEmitNever, "%s e%d (%T) is covered by %d Emit range(s) but is never emitted", where, i, k, f.cover[i])
			}
			continue
		}
		if !needed[i] {
			continue
		}
		v.count[rEmitCover]++
		if f.cover[i] != 1 {
			v.add(rEmitCover, "%s e%d (%T) is evaluated but covered by %d Emit ranges", where, i, k, f.cover[i])
		}
	}

	// (e) dominance, (f), (g), (h): one structured walk
	f.avail = make([]bool, f.n)
	for i := 0; i < f.n; i++ {
		if k := fn.Expressions[i].Kind; k != nil && preEmitted(k) {
			f.avail[i] = true
		}
	}
	f.block(fn.Body)
	f.resultProducers()
	if fn.Result != nil {
		b := f.behave(fn.Body)
		v.check(rReturnPaths, b&bNext == 0, "%s: control can reach the end of the body without returning a value", where)
	}
}

// stmtUses returns the expressions a statement reads (not those nested in sub-blocks) and the
// statement-result expressions it defines.
func stmtUses(s ir.Statement) (uses, defs []ir.ExpressionHandle) {
	opt := func(ps ...*ir.ExpressionHandle) {
		for _, p := range ps {
			if p != nil {
				uses = append(uses, *p)
			}
		}
	}
	switch k := s.Kind.(type) {
	case ir.StmtIf:
		uses = append(uses, k.Condition)
	case ir.StmtSwitch:
		uses = append(uses, k.Selector)
	case ir.StmtLoop:
		opt(k.BreakIf) // used at the end of the continuing block; the walker checks it there
	case ir.StmtReturn:
		opt(k.Value)
	case ir.StmtStore:
		uses = append(uses, k.Pointer, k.Value)
	case ir.StmtImageStore:
		uses = append(uses, k.Image, k.Coordinate, k.Value)
		opt(k.ArrayIndex)
	case ir.StmtAtomic:
		uses = append(uses, k.Pointer)
		if _, isLoad := k.Fun.(ir.AtomicLoad); !isLoad {
			uses = append(uses, k.Value)
		}
		if x, ok := k.Fun.(ir.AtomicExchange); ok {
			opt(x.Compare)
		}
		if k.Result != nil {
			defs = append(defs, *k.Result)
		}
	case ir.StmtImageAtomic:
		uses = append(uses, k.Image, k.Coordinate, k.Value)
		opt(k.ArrayIndex)
		if x, ok := k.Fun.(ir.AtomicExchange); ok {
			opt(x.Compare)
		}
	case ir.StmtWorkGroupUniformLoad:
		uses = append(uses, k.Pointer)
		defs = append(defs, k.Result)
	case ir.StmtCall:
		uses = append(uses, k.Arguments...)
		if k.Result != nil {
			defs = append(defs, *k.Result)
		}
	case ir.StmtRayQuery:
		uses = append(uses, k.Query)
		switch f := k.Fun.(type) {
		case ir.RayQueryInitialize:
			uses = append(uses, f.AccelerationStructure, f.Descriptor)
		case ir.RayQueryProceed:
			defs = append(defs, f.Result)
		case ir.RayQueryGenerateIntersection:
			uses = append(uses, f.HitT)
		}
	case ir.StmtSubgroupBallot:
		opt(k.Predicate)
		defs = append(defs, k.Result)
	case ir.StmtSubgroupCollectiveOperation:
		uses = append(uses, k.Argument)
		defs = append(defs, k.Result)
	case ir.StmtSubgroupGather:
		uses = append(uses, k.Argument)
		switch g := k.Mode.(type) {
		case ir.GatherBroadcast:
			uses = append(uses, g.Index)
		case ir.GatherShuffle:
			uses = append(uses, g.Index)
		case ir.GatherShuffleDown:
			uses = append(uses, g.Delta)
		case ir.GatherShuffleUp:
			uses = append(uses, g.Delta)
		case ir.GatherShuffleXor:
			uses = append(uses, g.Mask)
		case ir.GatherQuadBroadcast:
			uses = append(uses, g.Index)
		}
		defs = append(defs, k.Result)
	}
	return uses, defs
}

func (f *fnValidator) makeAvail(h ir.ExpressionHandle) {
	if int(h) < f.n && !f.avail[h] {
		f.avail[h] = true
		f.scope = append(f.scope, h)
	}
}

func (f *fnValidator) popTo(mark int) {
	for _, h := range f.scope[mark:] {
		f.avail[h] = false
	}
	f.scope = f.scope[:mark]
}

func (f *fnValidator) use(h ir.ExpressionHandle, by any) {
	f.count[rHandleRange]++
	if int(h) >= f.n {
		f.add(rHandleRange, "%s: %T uses e%d out of range (%d expressions)", f.where, by, h, f.n)
		return
	}
	f.count[rEmitDominates]++
	if !f.avail[h] {
		f.add(rEmitDominates, "%s: %T uses e%d (%T) where it is not available (no dominating Emit / result statement in scope)", f.where, by, h, f.fn.Expressions[h].Kind)
	}
}

func (f *fnValidator) typeOf(h ir.ExpressionHandle) (rtype, bool) {
	if int(h) >= f.n || f.ty.errs[h] != nil {
		return rtype{}, false
	}
	return f.ty.types[h], true
}

// nested runs body in a fresh scope.
func (f *fnValidator) nested(b ir.Block) {
	if l := f.curLoop(); l != nil {
		if l.depth == 0 {
			l.bodyLevel = len(f.scope)
		}
		l.depth++
		defer func() { l.depth-- }()
	}
	mark := len(f.scope)
	f.block(b)
	f.popTo(mark)
}

// curLoop returns the innermost loop whose *body* we are in (nil inside a continuing block or
// outside loops).
func (f *fnValidator) curLoop() *loopInfo {
	for i := len(f.ctx) - 1; i >= 0; i-- {
		switch f.ctx[i] {
		case 'B':
			n := 0
			for j := 0; j <= i; j++ {
				if f.ctx[j] == 'B' || f.ctx[j] == 'C' {
					n++
				}
			}
			return f.loops[n-1]
		case 'C':
			return nil
		}
	}
	return nil
}

func isTerminator(s ir.Statement) bool {
	switch s.Kind.(type) {
	case ir.StmtReturn, ir.StmtBreak, ir.StmtContinue, ir.StmtKill:
		return true
	}
	return false
}

func (f *fnValidator) block(b ir.Block) {
	for i, s := range b {
		f.count[rAfterTerm]++
		if i > 0 && isTerminator(b[i-1]) {
			f.add(rAfterTerm, "%s: %T follows %T in the same block", f.where, s.Kind, b[i-1].Kind)
		}
		f.stmt(s)
	}
}

func (f *fnValidator) stmt(s ir.Statement) {
	fn := f.fn
	what := s.Kind
	if s.Kind == nil {
		f.check(rHandleRange, false, "%s: statement with nil kind", f.where)
		return
	}
	uses, defs := stmtUses(s)
	if _, isLoop := s.Kind.(ir.StmtLoop); !isLoop {
		for _, u := range uses {
			f.use(u, what)
		}
	}
	switch k := s.Kind.(type) {
	case ir.StmtEmit:
		if k.Range.Start > k.Range.End || int(k.Range.End) > f.n {
			return
		}
		for h := k.Range.Start; h < k.Range.End; h++ {
			kind := fn.Expressions[h].Kind
			if kind == nil {
				continue
			}
			_, isPhi := kind.(ir.ExprPhi)
			if !(isPhi && f.o.AllowSSA) {
				for _, op := range operandsOf(kind) {
					if int(op) < f.n {
						f.count[rEmitDominates]++
						if !f.avail[op] {
							f.add(rEmitDominates, "%s: e%d (%T) is emitted while its operand e%d (%T) is not available", f.where, h, kind, op, fn.Expressions[op].Kind)
						}
					}
				}
			}
			if _, ok := kind.(ir.ExprAlias); ok && !f.o.AllowSSA {
				f.check(rExprOperand, false, "%s e%d: ExprAlias outside SSA mode", f.where, h)
			}
			if isPhi && !f.o.AllowSSA {
				f.check(rExprOperand, false, "%s e%d: ExprPhi outside SSA mode", f.where, h)
			}
			if !preEmitted(kind) && !statementResult(kind) {
				f.makeAvail(h)
			}
		}
	case ir.StmtBlock:
		f.nested(k.Block)
	case ir.StmtIf:
		if t, ok := f.typeOf(k.Condition); ok {
			f.count[rCondType]++
			if !innerEq(f.m, t.In, scBool, 0) {
				f.add(rCondType, "%s: if condition e%d has type %s", f.where, k.Condition, describe(f.m, t))
			}
		}
		f.nested(k.Accept)
		f.nested(k.Reject)
	case ir.StmtSwitch:
		var sel ir.ScalarType
		selOK := false
		if t, ok := f.typeOf(k.Selector); ok {
			sel, selOK = t.In.(ir.ScalarType)
			f.check(rCondType, selOK && isInt(sel) && sel.Width == 4, "%s: switch selector e%d has type %s", f.where, k.Selector, describe(f.m, t))
		}
		defaults := 0
		seen := map[int64]bool{}
		f.ctx = append(f.ctx, 'S')
		for ci, c := range k.Cases {
			switch cv := c.Value.(type) {
			case ir.SwitchValueDefault:
				defaults++
			case ir.SwitchValueI32:
				if selOK {
					f.check(rCondType, sel.Kind == ir.ScalarSint, "%s: switch case %d is i32 but selector is %s", f.where, ci, scalarName(sel))
				}
				f.check(rCondType, !seen[int64(cv)], "%s: duplicate switch case value %d", f.where, cv)
				seen[int64(cv)] = true
			case ir.SwitchValueU32:
				if selOK {
					f.check(rCondType, sel.Kind == ir.ScalarUint, "%s: switch case %d is u32 but selector is %s", f.where, ci, scalarName(sel))
				}
				f.check(rCondType, !seen[int64(cv)], "%s: duplicate switch case value %d", f.where, cv)
				seen[int64(cv)] = true
			default:
				f.check(rCondType, false, "%s: switch case %d has value %T", f.where, ci, c.Value)
			}
			if ci == len(k.Cases)-1 {
				f.check(rCondType, !c.FallThrough, "%s: last switch case falls through", f.where)
			}
			f.nested(c.Body)
		}
		f.ctx = f.ctx[:len(f.ctx)-1]
		f.check(rCondType, defaults == 1, "%s: switch has %d default cases", f.where, defaults)
	case ir.StmtLoop:
		mark := len(f.scope)
		li := &loopInfo{base: mark, minAtCont: -1}
		f.loops = append(f.loops, li)
		f.ctx = append(f.ctx, 'B')
		f.block(k.Body)
		f.ctx[len(f.ctx)-1] = 'C'
		// Values emitted at body level after the earliest `continue` do not dominate the
		// continuing block.
		if li.minAtCont >= 0 && li.minAtCont < len(f.scope) {
			f.popTo(li.minAtCont)
		}
		f.block(k.Continuing)
		if k.BreakIf != nil {
			f.use(*k.BreakIf, k)
			if t, ok := f.typeOf(*k.BreakIf); ok {
				f.check(rCondType, innerEq(f.m, t.In, scBool, 0), "%s: break-if condition e%d has type %s", f.where, *k.BreakIf, describe(f.m, t))
			}
		}
		f.ctx = f.ctx[:len(f.ctx)-1]
		f.loops = f.loops[:len(f.loops)-1]
		f.popTo(mark)
	case ir.StmtBreak:
		ok := false
		why := "outside loop and switch"
		for i := len(f.ctx) - 1; i >= 0; i-- {
			if f.ctx[i] == 'C' {
				why = "inside a continuing block"
			} else {
				ok = true
			}
			break
		}
		f.check(rBreakContinue, ok, "%s: break %s", f.where, why)
	case ir.StmtContinue:
		ok := false
		why := "outside loop"
		for i := len(f.ctx) - 1; i >= 0; i-- {
			if f.ctx[i] == 'S' {
				continue
			}
			if f.ctx[i] == 'B' {
				ok = true
			} else {
				why = "inside a continuing block"
			}
			break
		}
		f.check(rBreakContinue, ok, "%s: continue %s", f.where, why)
		if l := f.curLoop(); l != nil {
			lvl := len(f.scope)
			if l.depth > 0 {
				lvl = l.bodyLevel
			}
			if l.minAtCont < 0 || lvl < l.minAtCont {
				l.minAtCont = lvl
			}
		}
	case ir.StmtReturn:
		if fn.Result == nil {
			f.check(rReturnType, k.Value == nil, "%s: return with a value in a function without result", f.where)
		} else if f.check(rReturnType, k.Value != nil, "%s: return without value in a function with result", f.where) {
			if t, ok := f.typeOf(*k.Value); ok && f.typeOK(fn.Result.Type) {
				want := rtype{H: int(fn.Result.Type), In: f.m.Types[fn.Result.Type].Inner}
				f.count[rReturnType]++
				if !sameType(f.m, t, want) {
					f.add(rReturnType, "%s: return value e%d has type %s, function result is %s", f.where, *k.Value, describe(f.m, t), describe(f.m, want))
				}
			}
		}
	case ir.StmtStore:
		f.store(k)
	case ir.StmtCall:
		f.call(k)
	case ir.StmtAtomic:
		f.atomic(k)
	default:
		f.stmtExtra(s)
	}
	for _, d := range defs {
		if !f.check(rHandleRange, int(d) < f.n, "%s: %T result e%d out of range", f.where, what, d) {
			continue
		}
		f.check(rEmitNever, statementResult(fn.Expressions[d].Kind), "%s: %T result e%d is a %T, not a statement-result expression", f.where, what, d, fn.Expressions[d].Kind)
		f.check(rEmitDominates, !f.avail[d], "%s: %T result e%d is defined a second time in scope", f.where, what, d)
		f.makeAvail(d)
	}
}

// rootGlobal follows access chains down to the global variable a pointer is derived from.
func (f *fnValidator) rootGlobal(h ir.ExpressionHandle) *ir.GlobalVariable {
	for steps := 0; steps < 10000 && int(h) < f.n; steps++ {
		switch k := f.fn.Expressions[h].Kind.(type) {
		case ir.ExprAccess:
			h = k.Base
		case ir.ExprAccessIndex:
			h = k.Base
		case ir.ExprAlias:
			h = k.Source
		case ir.ExprGlobalVariable:
			if int(k.Variable) < len(f.m.GlobalVariables) {
				return &f.m.GlobalVariables[k.Variable]
			}
			return nil
		default:
			return nil
		}
	}
	return nil
}

func writableSpace(s ir.AddressSpace) bool {
	switch s {
	case ir.SpaceFunction, ir.SpacePrivate, ir.SpaceWorkGroup, ir.SpaceStorage, ir.SpaceTaskPayload:
		return true
	}
	return false
}

func ptrSpace(in ir.TypeInner) (ir.AddressSpace, bool) {
	switch x := in.(type) {
	case ir.PointerType:
		return x.Space, true
	case ir.ValuePointerType:
		return x.Space, true
	}
	return 0, false
}

func (f *fnValidator) store(k ir.StmtStore) {
	pt, ok1 := f.typeOf(k.Pointer)
	vt, ok2 := f.typeOf(k.Value)
	if !ok1 || !ok2 {
		return
	}
	space, isPtr := ptrSpace(pt.In)
	f.count[rStore]++
	if !isPtr {
		f.add(rStore, "%s: store through e%d of non-pointer type %s", f.where, k.Pointer, describe(f.m, pt))
		return
	}
	f.check(rStore, writableSpace(space), "%s: store through e%d into address space %d", f.where, k.Pointer, space)
	if g := f.rootGlobal(k.Pointer); g != nil && g.Space == ir.SpaceStorage {
		f.check(rStore, g.Access == ir.StorageReadWrite, "%s: store through e%d into read-only storage global %q", f.where, k.Pointer, g.Name)
	}
	pointee, err := f.ty.pointee(pt, true)
	if err != nil {
		return
	}
	f.count[rStore]++
	if !sameType(f.m, pointee, vt) {
		f.add(rStore, "%s: store of e%d : %s through e%d : %s", f.where, k.Value, describe(f.m, vt), k.Pointer, describe(f.m, pt))
	}
}

func (f *fnValidator) call(k ir.StmtCall) {
	m := f.m
	if !f.check(rHandleRange, int(k.Function) < len(m.Functions), "%s: call of function %d out of range", f.where, k.Function) {
		return
	}
	callee := &m.Functions[k.Function]
	if f.check(rCall, len(k.Arguments) == len(callee.Arguments), "%s: call of %q with %d arguments, want %d", f.where, callee.Name, len(k.Arguments), len(callee.Arguments)) {
		for i, a := range k.Arguments {
			at, ok := f.typeOf(a)
			if !ok || !f.typeOK(callee.Arguments[i].Type) {
				continue
			}
			want := rtype{H: int(callee.Arguments[i].Type), In: m.Types[callee.Arguments[i].Type].Inner}
			f.count[rCall]++
			if !sameType(m, at, want) {
				f.add(rCall, "%s: call of %q: argument %d (e%d) has type %s, parameter is %s", f.where, callee.Name, i, a, describe(m, at), describe(m, want))
			}
		}
	}
	if callee.Result == nil {
		f.check(rCall, k.Result == nil, "%s: call of %q (no result) has a result expression", f.where, callee.Name)
		return
	}
	if !f.check(rCall, k.Result != nil, "%s: call of %q (with result) has no result expression", f.where, callee.Name) {
		return
	}
	if int(*k.Result) < f.n {
		cr, ok := f.fn.Expressions[*k.Result].Kind.(ir.ExprCallResult)
		f.check(rCall, ok && cr.Function == k.Function, "%s: call of function %d: result e%d is %T%v", f.where, k.Function, *k.Result, f.fn.Expressions[*k.Result].Kind, f.fn.Expressions[*k.Result].Kind)
	}
}

func (f *fnValidator) atomic(k ir.StmtAtomic) {
	m := f.m
	pt, ok := f.typeOf(k.Pointer)
	if !ok {
		return
	}
	var sc ir.ScalarType
	isAtomic := false
	if p, ok := pt.In.(ir.PointerType); ok && f.typeOK(p.Base) {
		if at, ok := m.Types[p.Base].Inner.(ir.AtomicType); ok {
			sc, isAtomic = at.Scalar, true
			f.check(rAtomic, p.Space == ir.SpaceStorage || p.Space == ir.SpaceWorkGroup, "%s: atomic on address space %d", f.where, p.Space)
		}
	}
	if !f.check(rAtomic, isAtomic, "%s: atomic statement on e%d of type %s", f.where, k.Pointer, describe(m, pt)) {
		return
	}
	if g := f.rootGlobal(k.Pointer); g != nil && g.Space == ir.SpaceStorage {
		if _, isLoad := k.Fun.(ir.AtomicLoad); !isLoad {
			f.check(rAtomic, g.Access == ir.StorageReadWrite, "%s: atomic write on read-only storage global %q", f.where, g.Name)
		}
	}
	_, isLoad := k.Fun.(ir.AtomicLoad)
	_, isStore := k.Fun.(ir.AtomicStore)
	if !isLoad {
		if vt, ok := f.typeOf(k.Value); ok {
			f.check(rAtomic, innerEq(m, vt.In, sc, 0), "%s: atomic value e%d has type %s, atomic is %s", f.where, k.Value, describe(m, vt), scalarName(sc))
		}
	}
	comparison := false
	if x, ok := k.Fun.(ir.AtomicExchange); ok && x.Compare != nil {
		comparison = true
		if ct, ok := f.typeOf(*x.Compare); ok {
			f.check(rAtomic, innerEq(m, ct.In, sc, 0), "%s: atomic compare e%d has type %s, atomic is %s", f.where, *x.Compare, describe(m, ct), scalarName(sc))
		}
	}
	if k.Fun == nil {
		f.check(rAtomic, false, "%s: atomic statement without function", f.where)
		return
	}
	if isStore {
		f.check(rAtomic, k.Result == nil, "%s: atomic store with a result", f.where)
		return
	}
	if isLoad || comparison {
		if !f.check(rAtomic, k.Result != nil, "%s: %T without result", f.where, k.Fun) {
			return
		}
	}
	if k.Result == nil || int(*k.Result) >= f.n {
		return
	}
	ar, ok := f.fn.Expressions[*k.Result].Kind.(ir.ExprAtomicResult)
	if !f.check(rAtomic, ok, "%s: atomic result e%d is %T", f.where, *k.Result, f.fn.Expressions[*k.Result].Kind) {
		return
	}
	f.check(rAtomic, ar.Comparison == comparison, "%s: atomic result e%d has Comparison=%v for %T", f.where, *k.Result, ar.Comparison, k.Fun)
	if !f.typeOK(ar.Ty) {
		return
	}
	rt := m.Types[ar.Ty].Inner
	if !comparison {
		f.check(rAtomic, innerEq(m, rt, sc, 0), "%s: atomic result e%d has type %s, atomic is %s", f.where, *k.Result, describeInner(m, rt, 0), scalarName(sc))
		return
	}
	st, ok := rt.(ir.StructType)
	good := ok && len(st.Members) == 2 && f.typeOK(st.Members[0].Type) && f.typeOK(st.Members[1].Type) &&
		innerEq(m, m.Types[st.Members[0].Type].Inner, sc, 0) && innerEq(m, m.Types[st.Members[1].Type].Inner, scBool, 0)
	f.check(rAtomic, good, "%s: compare-exchange result e%d has type %s, want {old_value: %s, exchanged: bool}", f.where, *k.Result, describeInner(m, rt, 0), scalarName(sc))
}

// ---------------------------------------------------------------------------------------------
// (g) behaviours

const (
	bNext = 1 << iota
	bBreak
	bContinue
	bReturn
)

func (f *fnValidator) behave(b ir.Block) int {
	cur := bNext
	for _, s := range b {
		if cur&bNext == 0 {
			break // unreachable remainder
		}
		cur = (cur &^ bNext) | f.behaveStmt(s)
	}
	return cur
}

func (f *fnValidator) behaveStmt(s ir.Statement) int {
	switch k := s.Kind.(type) {
	case ir.StmtBlock:
		return f.behave(k.Block)
	case ir.StmtIf:
		return f.behave(k.Accept) | f.behave(k.Reject)
	case ir.StmtSwitch:
		out := 0
		for i, c := range k.Cases {
			b := f.behave(c.Body)
			if c.FallThrough && i+1 < len(k.Cases) {
				b &^= bNext // flows into the next case, accounted for there
			}
			if b&bBreak != 0 {
				b = (b &^ bBreak) | bNext
			}
			out |= b
		}
		if len(k.Cases) == 0 {
			out = bNext
		}
		return out
	case ir.StmtLoop:
		body := f.behave(k.Body)
		cont := 0
		if body&(bNext|bContinue) != 0 {
			cont = f.behave(k.Continuing)
		}
		out := (body | cont) & bReturn
		if body&bBreak != 0 || cont&bBreak != 0 || (k.BreakIf != nil && cont&bNext != 0) {
			out |= bNext
		}
		return out
	case ir.StmtReturn, ir.StmtKill:
		return bReturn
	case ir.StmtBreak:
		return bBreak
	case ir.StmtContinue:
		return bContinue
	}
	return bNext
}

// ---------------------------------------------------------------------------------------------
// (i) entry points

type builtinRule struct {
	stage ir.ShaderStage
	input bool
	ok    func(m *ir.Module, in ir.TypeInner) bool
}

func isScalarT(s ir.ScalarType) func(*ir.Module, ir.TypeInner) bool {
	return func(_ *ir.Module, in ir.TypeInner) bool { x, ok := in.(ir.ScalarType); return ok && x == s }
}

func isVecT(n ir.VectorSize, s ir.ScalarType) func(*ir.Module, ir.TypeInner) bool {
	return func(_ *ir.Module, in ir.TypeInner) bool {
		x, ok := in.(ir.VectorType)
		return ok && x.Size == n && x.Scalar == s
	}
}

func isU32orI32(_ *ir.Module, in ir.TypeInner) bool {
	x, ok := in.(ir.ScalarType)
	return ok && (x == scU32 || x == scI32)
}

func isF32Array(m *ir.Module, in ir.TypeInner) bool {
	a, ok := in.(ir.ArrayType)
	if !ok || int(a.Base) >= len(m.Types) {
		return false
	}
	s, ok := m.Types[a.Base].Inner.(ir.ScalarType)
	return ok && s == scF32
}

// builtinRules lists the (stage, direction) pairs in which each builtin may appear.
var builtinRules = map[ir.BuiltinValue][]builtinRule{
	ir.BuiltinPosition: {
		{ir.StageVertex, false, isVecT(4, scF32)}, {ir.StageFragment, true, isVecT(4, scF32)},
		{ir.StageMesh, false, isVecT(4, scF32)},
	},
	ir.BuiltinVertexIndex:   {{ir.StageVertex, true, isScalarT(scU32)}},
	ir.BuiltinInstanceIndex: {{ir.StageVertex, true, isScalarT(scU32)}},
	ir.BuiltinFrontFacing:   {{ir.StageFragment, true, isScalarT(scBool)}},
	ir.BuiltinFragDepth:     {{ir.StageFragment, false, isScalarT(scF32)}},
	ir.BuiltinSampleIndex:   {{ir.StageFragment, true, isScalarT(scU32)}},
	ir.BuiltinSampleMask:    {{ir.StageFragment, true, isScalarT(scU32)}, {ir.StageFragment, false, isScalarT(scU32)}},
	ir.BuiltinLocalInvocationID: {
		{ir.StageCompute, true, isVecT(3, scU32)}, {ir.StageMesh, true, isVecT(3, scU32)}, {ir.StageTask, true, isVecT(3, scU32)}},
	ir.BuiltinLocalInvocationIndex: {
		{ir.StageCompute, true, isScalarT(scU32)}, {ir.StageMesh, true, isScalarT(scU32)}, {ir.StageTask, true, isScalarT(scU32)}},
	ir.BuiltinGlobalInvocationID: {
		{ir.StageCompute, true, isVecT(3, scU32)}, {ir.StageMesh, true, isVecT(3, scU32)}, {ir.StageTask, true, isVecT(3, scU32)}},
	ir.BuiltinWorkGroupID: {
		{ir.StageCompute, true, isVecT(3, scU32)}, {ir.StageMesh, true, isVecT(3, scU32)}, {ir.StageTask, true, isVecT(3, scU32)}},
	ir.BuiltinNumWorkGroups: {
		{ir.StageCompute, true, isVecT(3, scU32)}, {ir.StageMesh, true, isVecT(3, scU32)}, {ir.StageTask, true, isVecT(3, scU32)}},
	ir.BuiltinNumSubgroups: {{ir.StageCompute, true, isScalarT(scU32)}, {ir.StageMesh, true, isScalarT(scU32)}, {ir.StageTask, true, isScalarT(scU32)}},
	ir.BuiltinSubgroupID:   {{ir.StageCompute, true, isScalarT(scU32)}, {ir.StageMesh, true, isScalarT(scU32)}, {ir.StageTask, true, isScalarT(scU32)}},
	ir.BuiltinSubgroupSize: {
		{ir.StageCompute, true, isScalarT(scU32)}, {ir.StageFragment, true, isScalarT(scU32)}, {ir.StageMesh, true, isScalarT(scU32)}, {ir.StageTask, true, isScalarT(scU32)}},
	ir.BuiltinSubgroupInvocationID: {
		{ir.StageCompute, true, isScalarT(scU32)}, {ir.StageFragment, true, isScalarT(scU32)}, {ir.StageMesh, true, isScalarT(scU32)}, {ir.StageTask, true, isScalarT(scU32)}},
	ir.BuiltinBarycentric:    {{ir.StageFragment, true, isVecT(3, scF32)}},
	ir.BuiltinViewIndex:      {{ir.StageVertex, true, isU32orI32}, {ir.StageFragment, true, isU32orI32}, {ir.StageMesh, true, isU32orI32}},
	ir.BuiltinPrimitiveIndex: {{ir.StageFragment, true, isScalarT(scU32)}, {ir.StageMesh, false, isScalarT(scU32)}},
	ir.BuiltinPointSize:      {{ir.StageVertex, false, isScalarT(scF32)}, {ir.StageMesh, false, isScalarT(scF32)}},
	ir.BuiltinClipDistance:   {{ir.StageVertex, false, isF32Array}, {ir.StageMesh, false, isF32Array}},
}

type ioItem struct {
	what string
	b    ir.Binding
	ty   ir.TypeHandle
}

// ioItems flattens an argument / result into its bound leaves; unbound reports missing bindings.
func (v *validator) ioItems(what string, ty ir.TypeHandle, b *ir.Binding, unbound func(string)) []ioItem {
	if b != nil && *b != nil {
		return []ioItem{{what, *b, ty}}
	}
	if !v.typeOK(ty) {
		return nil
	}
	st, ok := v.m.Types[ty].Inner.(ir.StructType)
	if !ok {
		unbound(what)
		return nil
	}
	var out []ioItem
	for i, mem := range st.Members {
		w := fmt.Sprintf("%s.%s", what, mem.Name)
		if mem.Binding == nil || *mem.Binding == nil {
			unbound(fmt.Sprintf("%s (member %d)", w, i))
			continue
		}
		out = append(out, ioItem{w, *mem.Binding, mem.Type})
	}
	return out
}

func (v *validator) entryPoint(ep *ir.EntryPoint) {
	m := v.m
	fn := &ep.Function
	where := fmt.Sprintf("entry point %q", ep.Name)
	v.check(rEPStage, ep.Stage <= ir.StageCompute, "%s: unknown stage %d", where, ep.Stage)
	switch ep.Stage {
	case ir.StageCompute:
		v.check(rEPStage, ep.Workgroup[0] != 0 && ep.Workgroup[1] != 0 && ep.Workgroup[2] != 0, "%s: compute workgroup size %v has a zero dimension", where, ep.Workgroup)
		v.check(rEPStage, fn.Result == nil, "%s: compute entry point has a result", where)
	case ir.StageVertex, ir.StageFragment:
		v.check(rEPStage, ep.Workgroup == [3]uint32{}, "%s: stage %d entry point has workgroup size %v", where, ep.Stage, ep.Workgroup)
	}
	unbound := func(w string) { v.check(rEPBinding, false, "%s: %s has no binding", where, w) }
	var ins, outs []ioItem
	for i, a := range fn.Arguments {
		items := v.ioItems(fmt.Sprintf("argument %d %q", i, a.Name), a.Type, a.Binding, unbound)
		if len(items) > 0 {
			v.fired(rEPBinding)
		}
		ins = append(ins, items...)
	}
	if fn.Result != nil {
		items := v.ioItems("result", fn.Result.Type, fn.Result.Binding, unbound)
		if len(items) > 0 {
			v.fired(rEPBinding)
		}
		outs = append(outs, items...)
	}
	if ep.Stage == ir.StageVertex {
		has := false
		for _, o := range outs {
			if b, ok := o.b.(ir.BuiltinBinding); ok && b.Builtin == ir.BuiltinPosition {
				has = true
			}
		}
		v.check(rEPStage, has, "%s: vertex entry point does not output @builtin(position)", where)
	}
	dir := func(items []ioItem, input bool) {
		name := "output"
		if input {
			name = "input"
		}
		type lk struct{ loc, blend int64 }
		locs := map[lk]string{}
		seenB := map[ir.BuiltinValue]string{}
		for _, it := range items {
			switch b := it.b.(type) {
			case ir.LocationBinding:
				k := lk{int64(b.Location), -1}
				if b.BlendSrc != nil {
					k.blend = int64(*b.BlendSrc)
				}
				prev, dup := locs[k]
				v.check(rEPLocation, !dup, "%s: %ss %s and %s share @location(%d)", where, name, prev, it.what, b.Location)
				locs[k] = it.what
				v.check(rEPStage, ep.Stage != ir.StageCompute, "%s: compute %s %s has a @location", where, name, it.what)
				if v.typeOK(it.ty) {
					sh := shapeOf(m.Types[it.ty].Inner)
					v.check(rEPLocation, (sh.kind == 's' || sh.kind == 'v') && isNum(sh.sc), "%s: %s %s at @location(%d) has type %s", where, name, it.what, b.Location, describeInner(m, m.Types[it.ty].Inner, 0))
				}
			case ir.BuiltinBinding:
				prev, dup := seenB[b.Builtin]
				v.check(rEPBuiltin, !dup, "%s: builtin %d bound twice among %ss (%s, %s)", where, b.Builtin, name, prev, it.what)
				seenB[b.Builtin] = it.what
				rules, known := builtinRules[b.Builtin]
				if !known || ep.Stage == ir.StageMesh || ep.Stage == ir.StageTask {
					continue // mesh/task interface builtins are not modelled
				}
				stageOK, typeOK := false, false
				for _, r := range rules {
					if r.stage == ep.Stage && r.input == input {
						stageOK = true
						if v.typeOK(it.ty) && r.ok(m, m.Types[it.ty].Inner) {
							typeOK = true
						}
					}
				}
				if v.check(rEPBuiltin, stageOK, "%s: builtin %d is not a valid %s of stage %d (%s)", where, b.Builtin, name, ep.Stage, it.what) && v.typeOK(it.ty) {
					v.check(rEPBuiltin, typeOK, "%s: builtin %d on %s has type %s", where, b.Builtin, it.what, describeInner(m, m.Types[it.ty].Inner, 0))
				}
			default:
				v.check(rEPBinding, false, "%s: %s has binding of unknown kind %T", where, it.what, it.b)
			}
		}
	}
	dir(ins, true)
	dir(outs, false)
}

// ---------------------------------------------------------------------------------------------
// (j) resources

func resourceSpace(s ir.AddressSpace) bool {
	return s == ir.SpaceUniform || s == ir.SpaceStorage || s == ir.SpaceHandle
}

func (v *validator) resources() {
	m := v.m
	for i, g := range m.GlobalVariables {
		if resourceSpace(g.Space) {
			v.check(rResBinding, g.Binding != nil, "global %d %q in address space %d has no @group/@binding", i, g.Name, g.Space)
		} else {
			v.check(rResBinding, g.Binding == nil, "global %d %q in address space %d has a resource binding", i, g.Name, g.Space)
		}
	}
	// globals used directly by each function
	direct := func(fn *ir.Function) (globals map[ir.GlobalVariableHandle]bool, callees map[ir.FunctionHandle]bool) {
		globals, callees = map[ir.GlobalVariableHandle]bool{}, map[ir.FunctionHandle]bool{}
		for _, e := range fn.Expressions {
			if g, ok := e.Kind.(ir.ExprGlobalVariable); ok {
				globals[g.Variable] = true
			}
		}
		walkBlocks(fn.Body, func(s ir.Statement) {
			if c, ok := s.Kind.(ir.StmtCall); ok {
				callees[c.Function] = true
			}
		})
		return
	}
	type info struct {
		g map[ir.GlobalVariableHandle]bool
		c map[ir.FunctionHandle]bool
	}
	fns := make([]info, len(m.Functions))
	for i := range m.Functions {
		g, c := direct(&m.Functions[i])
		fns[i] = info{g, c}
	}
	for i := range m.EntryPoints {
		ep := &m.EntryPoints[i]
		g, c := direct(&ep.Function)
		reach := map[ir.GlobalVariableHandle]bool{}
		for k := range g {
			reach[k] = true
		}
		seen := map[ir.FunctionHandle]bool{}
		var visit func(h ir.FunctionHandle)
		visit = func(h ir.FunctionHandle) {
			if seen[h] || int(h) >= len(fns) {
				return
			}
			seen[h] = true
			for k := range fns[h].g {
				reach[k] = true
			}
			for k := range fns[h].c {
				visit(k)
			}
		}
		for k := range c {
			visit(k)
		}
		hs := make([]int, 0, len(reach))
		for k := range reach {
			hs = append(hs, int(k))
		}
		sort.Ints(hs)
		used := map[ir.ResourceBinding]int{}
		for _, h := range hs {
			if h >= len(m.GlobalVariables) {
				continue
			}
			gv := &m.GlobalVariables[h]
			if gv.Binding == nil {
				continue
			}
			prev, dup := used[*gv.Binding]
			if dup {
				v.check(rBindingClash, false, "entry point %q: globals %q and %q share @group(%d) @binding(%d)", ep.Name, m.GlobalVariables[prev].Name, gv.Name, gv.Binding.Group, gv.Binding.Binding)
			} else {
				v.fired(rBindingClash)
				used[*gv.Binding] = h
			}
		}
	}
}
