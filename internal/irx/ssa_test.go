package irx

import (
	"testing"

	"github.com/gogpu/naga/ir"

	"verif/internal/xrt"
)

// promoteLocal is a small test-side re-implementation of what the DXIL mem2reg pass documents: a
// scalar local whose uses are only whole loads and stores is turned into SSA form with ExprAlias
// for loads and ExprPhi (emitted right after the construct) at if / switch merges.
type promoter struct {
	fn   *ir.Function
	ptrs map[ir.ExpressionHandle]bool
	cur  ir.ExpressionHandle
}

func promoteLocal(m *ir.Module, fn *ir.Function, v uint32) {
	p := &promoter{fn: fn, ptrs: map[ir.ExpressionHandle]bool{}}
	for i, e := range fn.Expressions {
		if lv, ok := e.Kind.(ir.ExprLocalVariable); ok && lv.Variable == v {
			p.ptrs[ir.ExpressionHandle(i)] = true
		}
	}
	lv := &fn.LocalVars[v]
	if lv.Init != nil {
		p.cur = *lv.Init
	} else {
		p.cur = p.append(ir.ExprZeroValue{Type: lv.Type}, ir.TypeResolution{Handle: &lv.Type})
	}
	fn.Body = p.walk(fn.Body)
}

func (p *promoter) append(k ir.ExpressionKind, t ir.TypeResolution) ir.ExpressionHandle {
	h := ir.ExpressionHandle(len(p.fn.Expressions))
	p.fn.Expressions = append(p.fn.Expressions, ir.Expression{Kind: k})
	p.fn.ExpressionTypes = append(p.fn.ExpressionTypes, t)
	return h
}

func (p *promoter) phi(in []ir.PhiIncoming) (ir.ExpressionHandle, ir.Statement) {
	h := p.append(ir.ExprPhi{Incoming: in}, p.fn.ExpressionTypes[in[0].Value])
	return h, ir.Statement{Kind: ir.StmtEmit{Range: ir.Range{Start: h, End: h + 1}}}
}

func (p *promoter) walk(b ir.Block) ir.Block {
	var out ir.Block
	for _, s := range b {
		switch k := s.Kind.(type) {
		case ir.StmtStore:
			if p.ptrs[k.Pointer] {
				p.cur = k.Value
				continue
			}
			out = append(out, s)
		case ir.StmtEmit:
			for h := k.Range.Start; h < k.Range.End; h++ {
				if ld, ok := p.fn.Expressions[h].Kind.(ir.ExprLoad); ok && p.ptrs[ld.Pointer] {
					p.fn.Expressions[h].Kind = ir.ExprAlias{Source: p.cur}
				}
			}
			out = append(out, s)
		case ir.StmtBlock:
			out = append(out, ir.Statement{Kind: ir.StmtBlock{Block: p.walk(k.Block)}})
		case ir.StmtIf:
			pre := p.cur
			acc := p.walk(k.Accept)
			va := p.cur
			p.cur = pre
			rej := p.walk(k.Reject)
			vr := p.cur
			out = append(out, ir.Statement{Kind: ir.StmtIf{Condition: k.Condition, Accept: acc, Reject: rej}})
			if va != vr {
				h, st := p.phi([]ir.PhiIncoming{{PredKey: ir.PhiPredIfAccept, Value: va}, {PredKey: ir.PhiPredIfReject, Value: vr}})
				p.cur = h
				out = append(out, st)
			}
		case ir.StmtSwitch:
			pre := p.cur
			cases := make([]ir.SwitchCase, len(k.Cases))
			var in []ir.PhiIncoming
			differ := false
			for i, c := range k.Cases {
				p.cur = pre
				cases[i] = ir.SwitchCase{Value: c.Value, Body: p.walk(c.Body), FallThrough: c.FallThrough}
				in = append(in, ir.PhiIncoming{PredKey: ir.PhiPredSwitchCase, CaseIdx: uint32(i), Value: p.cur})
				differ = differ || p.cur != pre
			}
			out = append(out, ir.Statement{Kind: ir.StmtSwitch{Selector: k.Selector, Cases: cases}})
			p.cur = pre
			if differ {
				h, st := p.phi(in)
				p.cur = h
				out = append(out, st)
			}
		default:
			out = append(out, s)
		}
	}
	return out
}

func localByName(fn *ir.Function, name string) uint32 {
	for i, l := range fn.LocalVars {
		if l.Name == name {
			return uint32(i)
		}
	}
	panic("no local " + name)
}

func TestExecAliasPhi(t *testing.T) {
	src := hdrI + inI + cs + `fn main() {
  var r = 5;
  var q: i32;
  if (a[0] > 0) { r = a[1]; if (a[0] > 10) { r = r * 2; } } else { q = 3; }
  o[0] = r + q;
  switch a[2] { case 1: { r = 100; } case 2, 3: { r = r + 1; } default: { } }
  o[1] = r;
  if (a[3] > 0) { r = 7; }
  o[2] = r;
}`
	inputs := [][]int32{{1, 9, 1, 0}, {20, 9, 2, 1}, {-1, 9, 3, 0}, {0, 0, 7, 5}, {11, -4, 1, -1}}
	for _, in := range inputs {
		orig := lower(t, src)
		ssa := Clone(orig)
		fn := &ssa.EntryPoints[0].Function
		promoteLocal(ssa, fn, localByName(fn, "r"))
		promoteLocal(ssa, fn, localByName(fn, "q"))
		nPhi, nAlias := 0, 0
		for _, e := range fn.Expressions {
			switch e.Kind.(type) {
			case ir.ExprPhi:
				nPhi++
			case ir.ExprAlias:
				nAlias++
			}
		}
		if nPhi < 4 || nAlias < 4 {
			t.Fatalf("promotion produced %d phis, %d aliases", nPhi, nAlias)
		}
		walkBlocks(fn.Body, func(s ir.Statement) {
			if st, ok := s.Kind.(ir.StmtStore); ok {
				if _, ok := fn.Expressions[st.Pointer].Kind.(ir.ExprLocalVariable); ok {
					t.Fatalf("store to promoted local survived")
				}
			}
		})
		b1 := xrt.Buffers{bnd(0, 0): make([]byte, 12), bnd(0, 1): i32buf(in...)}
		b2 := b1.Clone()
		if err := Exec(orig, b1, xrt.Opts{}); err != nil {
			t.Fatal(err)
		}
		if err := Exec(ssa, b2, xrt.Opts{}); err != nil {
			t.Fatalf("ssa exec: %v", err)
		}
		g1, g2 := rdI32(b1[bnd(0, 0)]), rdI32(b2[bnd(0, 0)])
		for i := range g1 {
			if g1[i] != g2[i] {
				t.Fatalf("input %v: original %v, ssa %v", in, g1, g2)
			}
		}
		if rep := Validate(ssa, ValidateOpts{AllowSSA: true}); !rep.OK() {
			t.Fatalf("ssa module must validate with AllowSSA: %v", rep.Findings)
		}
		if rep := Validate(ssa, ValidateOpts{}); rep.OK() {
			t.Fatalf("ssa kinds must be rejected without AllowSSA")
		}
	}
	// hand-derived expectation for one input: a = {20, 9, 2, 1}: r = 9*2 = 18, q = 0 -> o0 = 18; case 2: r = 19; then r = 7
	orig := lower(t, src)
	ssa := Clone(orig)
	fn := &ssa.EntryPoints[0].Function
	promoteLocal(ssa, fn, localByName(fn, "r"))
	b := xrt.Buffers{bnd(0, 0): make([]byte, 12), bnd(0, 1): i32buf(20, 9, 2, 1)}
	if err := Exec(ssa, b, xrt.Opts{}); err != nil {
		t.Fatal(err)
	}
	if g := rdI32(b[bnd(0, 0)]); g[0] != 18 || g[1] != 19 || g[2] != 7 {
		t.Fatalf("o = %v", g)
	}
}

// A phi whose selected edge has no incoming value is malformed, not silently zero.
func TestExecPhiMissingEdge(t *testing.T) {
	m := lower(t, hdrI+inI+cs+"fn main() { var r = 5; if (a[0] > 0) { r = 1; } else { r = 2; } o[0] = r; }")
	fn := &m.EntryPoints[0].Function
	promoteLocal(m, fn, 0)
	for i, e := range fn.Expressions {
		if ph, ok := e.Kind.(ir.ExprPhi); ok {
			fn.Expressions[i].Kind = ir.ExprPhi{Incoming: ph.Incoming[:1]}
		}
	}
	err := Exec(m, xrt.Buffers{bnd(0, 0): make([]byte, 4), bnd(0, 1): i32buf(-1)}, xrt.Opts{})
	if _, ok := err.(*xrt.Malformed); !ok {
		t.Fatalf("err = %v", err)
	}
}

func TestExecUseBeforeEmit(t *testing.T) {
	m := lower(t, hdrI+inI+cs+"fn main() { o[0] = a[0] + 1; }")
	fn := &m.EntryPoints[0].Function
	// drop the first Emit
	for i, s := range fn.Body {
		if _, ok := s.Kind.(ir.StmtEmit); ok {
			fn.Body = append(fn.Body[:i:i], fn.Body[i+1:]...)
			break
		}
	}
	err := Exec(m, xrt.Buffers{bnd(0, 0): make([]byte, 4), bnd(0, 1): i32buf(1)}, xrt.Opts{})
	if _, ok := err.(*xrt.Malformed); !ok {
		t.Fatalf("err = %v, want malformed (use before emit)", err)
	}
	if rep := Validate(m, ValidateOpts{SkipNagaValidate: true}); rep.Count(RuleEmitCover)+rep.Count(RuleEmitDominates) == 0 {
		t.Fatalf("validator must flag the missing Emit: %v", rep.Findings)
	}
}

// Loads see memory as of their Emit, not as of their use.
func TestExecEmitTiming(t *testing.T) {
	wantI(t, hdrI+inI+cs+"fn main() { var x = a[0]; let before = x; x = 9; o[0] = before; o[1] = x; }", []int32{4}, 4, 9)
}

// Known front-end gap (also upstream): `var z: T;` without initialiser inside a loop body is not
// re-zeroed per iteration. The interpreter follows the IR (one variable per function).
func TestExecVarInLoopZeroInit(t *testing.T) {
	src := hdrI + cs + "fn main() { var t = 0; for (var i = 0; i < 3; i++) { var z: i32; z += 1; t += z; } o[0] = t; }"
	bufs, err := run(t, src, 1, nil)
	if err != nil {
		t.Fatal(err)
	}
	switch g := rdI32(bufs[bnd(0, 0)])[0]; g {
	case 3:
		t.Log("front end re-zeroes the variable per iteration (WGSL semantics)")
	case 6:
		t.Log("naga defect present: uninitialised var in loop body is not re-zeroed per iteration (WGSL expects 3, IR computes 6)")
	default:
		t.Fatalf("o[0] = %d", g)
	}
}
