package irx

import (
	"encoding/binary"
	"fmt"

	"github.com/gogpu/naga/ir"

	"verif/internal/xrt"
)

// Value model of the interpreter.
//
// A value of a data type is a sequence of 32-bit words in a *packed* layout that is private to the
// interpreter: scalar = 1 word (bool = 0/1), vecN = N words, matCxR = C*R words (column-major),
// array = count * element, struct = concatenation of the members. Variables in the function,
// private and workgroup address spaces are stored in that packed form. Buffers (uniform/storage) are
// raw bytes addressed with the IR's own layout: StructMember.Offset, ArrayType.Stride, and for
// matrices the column stride rule of ir/type_size.go (vec2 columns: 2 scalars, vec3/vec4: 4 scalars).

type xkind uint8

const (
	xScalar xkind = iota
	xVector
	xMatrix
	xArray
	xStruct
	xAtomic
	xPointer
	xOpaque // image, sampler, ray query, ...: never evaluated
)

type xmember struct {
	ty   *xtype
	off  int // byte offset (IR layout)
	woff int // word offset (packed layout)
}

type xtype struct {
	kind    xkind
	sk      ir.ScalarKind
	n       int    // vector size / matrix rows
	cols    int    // matrix columns
	elem    *xtype // array element, pointer pointee, matrix column, vector/atomic scalar
	count   int    // array length, -1 for runtime-sized
	stride  int    // array stride / matrix column stride, in bytes
	members []xmember
	words   int // packed size; -1 for runtime-sized arrays (and structs ending in one)
	size    int // byte size in a buffer; -1 for runtime-sized
	space   ir.AddressSpace
	err     error // why values of this type cannot be handled (Unsupported), nil otherwise
	nobuf   bool  // contains bool: cannot live in a buffer
	name    string
}

func (t *xtype) String() string {
	if t == nil {
		return "<nil>"
	}
	switch t.kind {
	case xScalar:
		return scalarName(ir.ScalarType{Kind: t.sk, Width: 4})
	case xVector:
		return fmt.Sprintf("vec%d<%d>", t.n, t.sk)
	case xMatrix:
		return fmt.Sprintf("mat%dx%d", t.cols, t.n)
	case xArray:
		return fmt.Sprintf("array<%s,%d>", t.elem, t.count)
	case xStruct:
		return "struct " + t.name
	case xAtomic:
		return "atomic"
	case xPointer:
		return fmt.Sprintf("ptr<%d,%s>", t.space, t.elem)
	}
	return "opaque"
}

type inlineKey struct {
	kind  xkind
	sk    ir.ScalarKind
	width uint8
	n     int
	cols  int
	base  *xtype
	space ir.AddressSpace
}

type typeTable struct {
	m      *ir.Module
	byH    []*xtype
	inline map[inlineKey]*xtype
}

func newTypeTable(m *ir.Module) *typeTable {
	tt := &typeTable{m: m, byH: make([]*xtype, len(m.Types)), inline: map[inlineKey]*xtype{}}
	for i := range m.Types {
		tt.handle(ir.TypeHandle(i), 0)
	}
	return tt
}

func unsupportedType(what string) *xtype {
	return &xtype{kind: xOpaque, words: 0, size: 0, err: &xrt.Unsupported{What: what}}
}

func (tt *typeTable) handle(h ir.TypeHandle, depth int) *xtype {
	if int(h) >= len(tt.byH) {
		return &xtype{kind: xOpaque, err: &xrt.Malformed{What: fmt.Sprintf("type handle %d out of range", h)}}
	}
	if t := tt.byH[h]; t != nil {
		return t
	}
	if depth > 64 {
		return &xtype{kind: xOpaque, err: &xrt.Malformed{What: "recursive type"}}
	}
	// Guard against self reference while building.
	tt.byH[h] = &xtype{kind: xOpaque, err: &xrt.Malformed{What: "recursive type"}}
	t := tt.build(tt.m.Types[h].Inner, depth)
	t.name = tt.m.Types[h].Name
	tt.byH[h] = t
	return t
}

func (tt *typeTable) scalar(s ir.ScalarType) *xtype {
	k := inlineKey{kind: xScalar, sk: s.Kind, width: s.Width}
	if t, ok := tt.inline[k]; ok {
		return t
	}
	var t *xtype
	switch {
	case s.Kind == ir.ScalarBool:
		t = &xtype{kind: xScalar, sk: s.Kind, words: 1, size: 4, nobuf: true}
	case (s.Kind == ir.ScalarSint || s.Kind == ir.ScalarUint || s.Kind == ir.ScalarFloat) && s.Width == 4:
		t = &xtype{kind: xScalar, sk: s.Kind, words: 1, size: 4}
	case s.Kind == ir.ScalarAbstractInt || s.Kind == ir.ScalarAbstractFloat:
		t = &xtype{kind: xOpaque, err: &xrt.Malformed{What: "abstract scalar type in module"}}
	default:
		t = unsupportedType(fmt.Sprintf("scalar %s", scalarName(s)))
	}
	tt.inline[k] = t
	return t
}

func (tt *typeTable) vector(n ir.VectorSize, s ir.ScalarType) *xtype {
	k := inlineKey{kind: xVector, sk: s.Kind, width: s.Width, n: int(n)}
	if t, ok := tt.inline[k]; ok {
		return t
	}
	sc := tt.scalar(s)
	var t *xtype
	if sc.err != nil {
		t = &xtype{kind: xOpaque, err: sc.err}
	} else if n < 2 || n > 4 {
		t = &xtype{kind: xOpaque, err: &xrt.Malformed{What: fmt.Sprintf("vector size %d", n)}}
	} else {
		t = &xtype{kind: xVector, sk: s.Kind, n: int(n), elem: sc, words: int(n), size: 4 * int(n), nobuf: sc.nobuf}
	}
	tt.inline[k] = t
	return t
}

func colStrideBytes(rows int) int {
	if rows == 2 {
		return 8
	}
	return 16
}

func (tt *typeTable) matrix(cols, rows ir.VectorSize, s ir.ScalarType) *xtype {
	k := inlineKey{kind: xMatrix, sk: s.Kind, width: s.Width, n: int(rows), cols: int(cols)}
	if t, ok := tt.inline[k]; ok {
		return t
	}
	col := tt.vector(rows, s)
	var t *xtype
	if col.err != nil {
		t = &xtype{kind: xOpaque, err: col.err}
	} else if cols < 2 || cols > 4 || s.Kind != ir.ScalarFloat {
		t = &xtype{kind: xOpaque, err: &xrt.Malformed{What: "matrix shape"}}
	} else {
		st := colStrideBytes(int(rows))
		t = &xtype{kind: xMatrix, sk: s.Kind, n: int(rows), cols: int(cols), elem: col, stride: st,
			words: int(rows) * int(cols), size: st * int(cols)}
	}
	tt.inline[k] = t
	return t
}

func (tt *typeTable) pointer(base *xtype, space ir.AddressSpace) *xtype {
	k := inlineKey{kind: xPointer, base: base, space: space}
	if t, ok := tt.inline[k]; ok {
		return t
	}
	t := &xtype{kind: xPointer, elem: base, space: space}
	tt.inline[k] = t
	return t
}

func (tt *typeTable) build(in ir.TypeInner, depth int) *xtype {
	switch x := in.(type) {
	case ir.ScalarType:
		c := *tt.scalar(x)
		return &c
	case ir.VectorType:
		c := *tt.vector(x.Size, x.Scalar)
		return &c
	case ir.MatrixType:
		c := *tt.matrix(x.Columns, x.Rows, x.Scalar)
		return &c
	case ir.AtomicType:
		sc := tt.scalar(x.Scalar)
		if sc.err != nil {
			return &xtype{kind: xOpaque, err: sc.err}
		}
		if x.Scalar.Kind != ir.ScalarSint && x.Scalar.Kind != ir.ScalarUint {
			return unsupportedType("atomic<" + scalarName(x.Scalar) + ">")
		}
		return &xtype{kind: xAtomic, sk: x.Scalar.Kind, elem: sc, words: 1, size: 4}
	case ir.ArrayType:
		el := tt.handle(x.Base, depth+1)
		if el.err != nil {
			return &xtype{kind: xOpaque, err: el.err}
		}
		if el.words < 0 {
			return &xtype{kind: xOpaque, err: &xrt.Malformed{What: "array of runtime-sized elements"}}
		}
		t := &xtype{kind: xArray, elem: el, stride: int(x.Stride), nobuf: el.nobuf}
		if x.Size.Constant == nil {
			t.count, t.words, t.size = -1, -1, -1
		} else {
			t.count = int(*x.Size.Constant)
			if t.count > 1<<20 {
				return unsupportedType("array larger than 2^20 elements")
			}
			t.words = t.count * el.words
			t.size = t.count * t.stride
			if t.count > 0 && (t.count-1)*t.stride+el.size > t.size {
				t.size = (t.count-1)*t.stride + el.size
			}
		}
		return t
	case ir.StructType:
		t := &xtype{kind: xStruct, size: int(x.Span)}
		w := 0
		for i, mem := range x.Members {
			mt := tt.handle(mem.Type, depth+1)
			if mt.err != nil {
				return &xtype{kind: xOpaque, err: mt.err}
			}
			t.members = append(t.members, xmember{ty: mt, off: int(mem.Offset), woff: w})
			if mt.words < 0 {
				if i != len(x.Members)-1 {
					return &xtype{kind: xOpaque, err: &xrt.Malformed{What: "runtime-sized member is not last"}}
				}
				w = -1
				t.size = -1
			} else {
				w += mt.words
				if t.size >= 0 && int(mem.Offset)+mt.size > t.size {
					t.size = int(mem.Offset) + mt.size
				}
			}
			t.nobuf = t.nobuf || mt.nobuf
		}
		t.words = w
		return t
	case ir.PointerType:
		b := tt.handle(x.Base, depth+1)
		c := *tt.pointer(b, x.Space)
		return &c
	case nil:
		return &xtype{kind: xOpaque, err: &xrt.Malformed{What: "nil type"}}
	}
	return unsupportedType(fmt.Sprintf("type %T", in))
}

// fromR converts an inferred type.
func (tt *typeTable) fromR(r rtype) *xtype {
	if r.H >= 0 {
		return tt.handle(ir.TypeHandle(r.H), 0)
	}
	switch x := r.In.(type) {
	case ir.ScalarType:
		return tt.scalar(x)
	case ir.VectorType:
		return tt.vector(x.Size, x.Scalar)
	case ir.MatrixType:
		return tt.matrix(x.Columns, x.Rows, x.Scalar)
	case ir.PointerType:
		return tt.pointer(tt.handle(x.Base, 0), x.Space)
	case ir.ValuePointerType:
		if x.Size != nil {
			return tt.pointer(tt.vector(*x.Size, x.Scalar), x.Space)
		}
		return tt.pointer(tt.scalar(x.Scalar), x.Space)
	}
	return unsupportedType(fmt.Sprintf("inline type %T", r.In))
}

// ---------------------------------------------------------------------------------------------
// memory

type xmem struct {
	isBuf    bool
	buf      []byte
	binding  xrt.Binding
	readonly bool
	words    []uint32
	name     string
}

type xptr struct {
	mem *xmem
	off int    // byte offset (buffer) or word offset (packed)
	ty  *xtype // pointee
	oob bool   // derived through an out-of-bounds index: any access traps
}

type memCtx struct {
	trace *[]xrt.Access
}

func (c *memCtx) note(m *xmem, off, n int, write bool) {
	if c.trace != nil {
		*c.trace = append(*c.trace, xrt.Access{B: m.binding, Off: off, Len: n, Write: write})
	}
}

func oobTrap(write bool, p xptr, detail string) error {
	k := "oob-read"
	if write {
		k = "oob-write"
	}
	name := ""
	if p.mem != nil {
		name = p.mem.name
	}
	return &xrt.Trap{Kind: k, Detail: fmt.Sprintf("%s (%s, offset %d)", detail, name, p.off)}
}

// load reads the value p points at into dst (len = p.ty.words; an atomic yields its scalar).
func (c *memCtx) load(p xptr, dst []uint32) error {
	if p.mem == nil {
		return &xrt.Malformed{What: "load through invalid pointer"}
	}
	if p.oob {
		return oobTrap(false, p, "index out of bounds")
	}
	t := p.ty
	if t.words < 0 {
		return &xrt.Unsupported{What: "load of runtime-sized value"}
	}
	if !p.mem.isBuf {
		if p.off < 0 || p.off+t.words > len(p.mem.words) {
			return oobTrap(false, p, "outside variable")
		}
		copy(dst, p.mem.words[p.off:p.off+t.words])
		return nil
	}
	if t.nobuf {
		return &xrt.Unsupported{What: "bool in a buffer"}
	}
	if p.off < 0 || p.off+t.size > len(p.mem.buf) {
		return oobTrap(false, p, fmt.Sprintf("%d bytes at %d of %d-byte buffer", t.size, p.off, len(p.mem.buf)))
	}
	c.gather(p.mem, p.off, t, dst)
	return nil
}

func (c *memCtx) gather(m *xmem, off int, t *xtype, dst []uint32) {
	switch t.kind {
	case xScalar, xAtomic:
		dst[0] = binary.LittleEndian.Uint32(m.buf[off:])
		c.note(m, off, 4, false)
	case xVector:
		for i := 0; i < t.n; i++ {
			dst[i] = binary.LittleEndian.Uint32(m.buf[off+4*i:])
		}
		c.note(m, off, 4*t.n, false)
	case xMatrix:
		for col := 0; col < t.cols; col++ {
			o := off + col*t.stride
			for i := 0; i < t.n; i++ {
				dst[col*t.n+i] = binary.LittleEndian.Uint32(m.buf[o+4*i:])
			}
			c.note(m, o, 4*t.n, false)
		}
	case xArray:
		w := t.elem.words
		for i := 0; i < t.count; i++ {
			c.gather(m, off+i*t.stride, t.elem, dst[i*w:(i+1)*w])
		}
	case xStruct:
		for _, mem := range t.members {
			c.gather(m, off+mem.off, mem.ty, dst[mem.woff:mem.woff+mem.ty.words])
		}
	}
}

// store writes src through p. Padding bytes of the IR layout are never touched.
func (c *memCtx) store(p xptr, src []uint32) error {
	if p.mem == nil {
		return &xrt.Malformed{What: "store through invalid pointer"}
	}
	if p.oob {
		return oobTrap(true, p, "index out of bounds")
	}
	if p.mem.readonly {
		return &xrt.Malformed{What: "store into read-only memory " + p.mem.name}
	}
	t := p.ty
	if t.words < 0 {
		return &xrt.Unsupported{What: "store of runtime-sized value"}
	}
	if len(src) != t.words {
		return &xrt.Malformed{What: fmt.Sprintf("store of %d words into %s", len(src), t)}
	}
	if !p.mem.isBuf {
		if p.off < 0 || p.off+t.words > len(p.mem.words) {
			return oobTrap(true, p, "outside variable")
		}
		copy(p.mem.words[p.off:], src)
		return nil
	}
	if t.nobuf {
		return &xrt.Unsupported{What: "bool in a buffer"}
	}
	if p.off < 0 || p.off+t.size > len(p.mem.buf) {
		return oobTrap(true, p, fmt.Sprintf("%d bytes at %d of %d-byte buffer", t.size, p.off, len(p.mem.buf)))
	}
	c.scatter(p.mem, p.off, t, src)
	return nil
}

func (c *memCtx) scatter(m *xmem, off int, t *xtype, src []uint32) {
	switch t.kind {
	case xScalar, xAtomic:
		binary.LittleEndian.PutUint32(m.buf[off:], src[0])
		c.note(m, off, 4, true)
	case xVector:
		for i := 0; i < t.n; i++ {
			binary.LittleEndian.PutUint32(m.buf[off+4*i:], src[i])
		}
		c.note(m, off, 4*t.n, true)
	case xMatrix:
		for col := 0; col < t.cols; col++ {
			o := off + col*t.stride
			for i := 0; i < t.n; i++ {
				binary.LittleEndian.PutUint32(m.buf[o+4*i:], src[col*t.n+i])
			}
			c.note(m, o, 4*t.n, true)
		}
	case xArray:
		w := t.elem.words
		for i := 0; i < t.count; i++ {
			c.scatter(m, off+i*t.stride, t.elem, src[i*w:(i+1)*w])
		}
	case xStruct:
		for _, mem := range t.members {
			c.scatter(m, off+mem.off, mem.ty, src[mem.woff:mem.woff+mem.ty.words])
		}
	}
}

// index derives the pointer to component idx of the value p points at. dynamic selects the
// out-of-bounds behaviour (a constant index was already checked by inference; a dynamic one marks
// the pointer as oob).
func (tt *typeTable) index(p xptr, idx int64) (xptr, error) {
	t := p.ty
	q := xptr{mem: p.mem, oob: p.oob}
	if p.mem == nil {
		return q, &xrt.Malformed{What: "index through invalid pointer"}
	}
	buf := p.mem.isBuf
	bad := func(n int) bool { return idx < 0 || idx >= int64(n) }
	switch t.kind {
	case xVector:
		q.ty = t.elem
		if bad(t.n) {
			q.oob, idx = true, 0
		}
		if buf {
			q.off = p.off + 4*int(idx)
		} else {
			q.off = p.off + int(idx)
		}
	case xMatrix:
		q.ty = t.elem
		if bad(t.cols) {
			q.oob, idx = true, 0
		}
		if buf {
			q.off = p.off + t.stride*int(idx)
		} else {
			q.off = p.off + t.n*int(idx)
		}
	case xArray:
		q.ty = t.elem
		n := t.count
		if n < 0 {
			if !buf {
				return q, &xrt.Malformed{What: "runtime-sized array outside a buffer"}
			}
			n = 0
			if t.stride > 0 && p.off <= len(p.mem.buf) {
				n = (len(p.mem.buf) - p.off) / t.stride
			}
		}
		if bad(n) {
			q.oob, idx = true, 0
		}
		if buf {
			q.off = p.off + t.stride*int(idx)
		} else {
			q.off = p.off + t.elem.words*int(idx)
		}
	case xStruct:
		if bad(len(t.members)) {
			return q, &xrt.Malformed{What: "struct member index out of range"}
		}
		mem := t.members[idx]
		q.ty = mem.ty
		if buf {
			q.off = p.off + mem.off
		} else {
			q.off = p.off + mem.woff
		}
	default:
		return q, &xrt.Malformed{What: fmt.Sprintf("index into %s", t)}
	}
	return q, nil
}
