package irx

import (
	"strings"
	"testing"

	"github.com/gogpu/naga/ir"

	"verif/internal/xrt"
)

const valSrc = `
struct S { a: i32, v: vec3<f32>, arr: array<u32, 4> }
struct VOut { @builtin(position) pos: vec4<f32>, @location(0) c: vec4<f32>, @location(1) d: vec2<f32> }
@group(0) @binding(0) var<storage, read_write> out: array<i32>;
@group(0) @binding(1) var<uniform> u: S;
@group(0) @binding(2) var<storage, read_write> cnt: atomic<u32>;
var<private> pc: i32 = 3;
var<workgroup> wg: array<atomic<u32>, 4>;
const K = array<i32,3>(10,20,30);
fn helper(p: ptr<function, i32>, q: i32) -> i32 {
  if (q > 2) { *p = q; return 1; }
  switch q { case 1, 2: { *p = *p + 1; } default: { return 5; } }
  return *p;
}
fn side(x: f32) { pc = pc + i32(x); }
@compute @workgroup_size(2,1,1)
fn main(@builtin(global_invocation_id) gid: vec3<u32>, @builtin(local_invocation_index) li: u32) {
  var x = i32(gid.x) + pc;
  var y: i32;
  let r = helper(&x, 2);
  side(1.5);
  var v = vec3<f32>(1.0, 2.0, 3.0);
  v.y = u.v.x;
  let old = atomicAdd(&wg[li], 1u);
  let old2 = atomicMax(&cnt, 7u);
  workgroupBarrier();
  for (var i = 0; i < 3; i++) { y += K[i]; if (i == 1) { continue; } }
  loop { y += 1; if (y > 10) { break; } continuing { x = x + 41; } }
  if (v.y > 1.0) { out[gid.x] = x + y + r + i32(old + old2) + i32(arrayLength(&out)); }
}
@vertex fn vs(@builtin(vertex_index) vi: u32, @location(0) p: vec2<f32>) -> VOut {
  var o: VOut; o.pos = vec4<f32>(p, 0.0, 1.0); o.c = vec4<f32>(f32(vi)); return o;
}
@fragment fn fs(i: VOut) -> @location(0) vec4<f32> { return i.c + vec4<f32>(i.d, 0.0, 0.0); }
`

func epByName(m *ir.Module, n string) *ir.EntryPoint {
	for i := range m.EntryPoints {
		if m.EntryPoints[i].Name == n {
			return &m.EntryPoints[i]
		}
	}
	panic(n)
}

func findExpr[T ir.ExpressionKind](fn *ir.Function, pred func(T) bool) int {
	for i, e := range fn.Expressions {
		if k, ok := e.Kind.(T); ok && (pred == nil || pred(k)) {
			return i
		}
	}
	panic("expression not found")
}

// editStmt applies f to the first statement (in pre-order) for which it returns true.
func editStmt(b *[]ir.Statement, f func(blk *[]ir.Statement, i int) bool) bool {
	for i := range *b {
		if f(b, i) {
			return true
		}
		switch k := (*b)[i].Kind.(type) {
		case ir.StmtBlock:
			if editStmt((*[]ir.Statement)(&k.Block), f) {
				(*b)[i].Kind = k
				return true
			}
		case ir.StmtIf:
			if editStmt((*[]ir.Statement)(&k.Accept), f) || editStmt((*[]ir.Statement)(&k.Reject), f) {
				(*b)[i].Kind = k
				return true
			}
		case ir.StmtLoop:
			if editStmt((*[]ir.Statement)(&k.Body), f) || editStmt((*[]ir.Statement)(&k.Continuing), f) {
				(*b)[i].Kind = k
				return true
			}
		case ir.StmtSwitch:
			for c := range k.Cases {
				if editStmt((*[]ir.Statement)(&k.Cases[c].Body), f) {
					return true
				}
			}
		}
	}
	return false
}

func TestValidateBaseClean(t *testing.T) {
	m := lower(t, valSrc)
	rep := Validate(m, ValidateOpts{})
	if !rep.OK() {
		t.Fatalf("base module has findings: %v", rep.Findings)
	}
	for _, r := range Rules() {
		if rep.Fired[r] == 0 {
			t.Errorf("rule %s was never exercised by the base module", r)
		}
	}
	if len(Rules()) != len(rep.Fired) {
		t.Errorf("Fired has %d entries, Rules %d", len(rep.Fired), len(Rules()))
	}
}

func TestValidateMutations(t *testing.T) {
	type mut struct {
		name string
		rule string
		f    func(m *ir.Module)
	}
	mainFn := func(m *ir.Module) *ir.Function { return &epByName(m, "main").Function }
	muts := []mut{
		{"load pointer out of range", RuleHandleRange, func(m *ir.Module) {
			fn := mainFn(m)
			i := findExpr[ir.ExprLoad](fn, nil)
			fn.Expressions[i].Kind = ir.ExprLoad{Pointer: 99999}
		}},
		{"global type out of range", RuleHandleRange, func(m *ir.Module) { m.GlobalVariables[0].Type = 999 }},
		{"emit range beyond arena", RuleHandleRange, func(m *ir.Module) {
			fn := mainFn(m)
			fn.Body = append(ir.Block{{Kind: ir.StmtEmit{Range: ir.Range{Start: 0, End: 100000}}}}, fn.Body...)
		}},
		{"forward operand", RuleHandleBackward, func(m *ir.Module) {
			fn := mainFn(m)
			i := findExpr[ir.ExprBinary](fn, nil)
			b := fn.Expressions[i].Kind.(ir.ExprBinary)
			b.Left = ir.ExpressionHandle(i + 1)
			fn.Expressions[i].Kind = b
		}},
		{"self-referential operand", RuleHandleBackward, func(m *ir.Module) {
			fn := mainFn(m)
			i := findExpr[ir.ExprLoad](fn, nil)
			fn.Expressions[i].Kind = ir.ExprLoad{Pointer: ir.ExpressionHandle(i)}
		}},
		{"type refers forwards", RuleHandleBackward, func(m *ir.Module) {
			for i, ty := range m.Types {
				if a, ok := ty.Inner.(ir.ArrayType); ok {
					a.Base = ir.TypeHandle(len(m.Types) - 1)
					m.Types[i].Inner = a
					return
				}
			}
		}},
		{"global expression refers forwards", RuleHandleBackward, func(m *ir.Module) {
			for i, e := range m.GlobalExpressions {
				if c, ok := e.Kind.(ir.ExprCompose); ok {
					c.Components = append([]ir.ExpressionHandle(nil), c.Components...)
					c.Components[0] = ir.ExpressionHandle(i)
					m.GlobalExpressions[i].Kind = c
					return
				}
			}
		}},
		{"abstract literal", RuleNoAbstract, func(m *ir.Module) {
			fn := mainFn(m)
			i := findExpr[ir.Literal](fn, func(l ir.Literal) bool { _, ok := l.Value.(ir.LiteralI32); return ok })
			fn.Expressions[i].Kind = ir.Literal{Value: ir.LiteralAbstractInt(1)}
		}},
		{"abstract type", RuleNoAbstract, func(m *ir.Module) {
			m.Types = append(m.Types, ir.Type{Inner: ir.VectorType{Size: 2, Scalar: ir.ScalarType{Kind: ir.ScalarAbstractFloat, Width: 8}}})
		}},
		{"abstract global literal", RuleNoAbstract, func(m *ir.Module) {
			m.GlobalExpressions[0].Kind = ir.Literal{Value: ir.LiteralAbstractFloat(1)}
		}},
		{"duplicate anonymous type", RuleTypeUnique, func(m *ir.Module) { m.Types = append(m.Types, ir.Type{Inner: m.Types[0].Inner}) }},
		{"duplicate named struct", RuleTypeUnique, func(m *ir.Module) {
			for _, ty := range m.Types {
				if _, ok := ty.Inner.(ir.StructType); ok {
					m.Types = append(m.Types, ty)
					return
				}
			}
		}},
		{"bool + int", RuleExprOperand, func(m *ir.Module) {
			fn := mainFn(m)
			i := findExpr[ir.ExprBinary](fn, func(b ir.ExprBinary) bool { return b.Op == ir.BinaryAdd })
			b := fn.Expressions[i].Kind.(ir.ExprBinary)
			b.Right = ir.ExpressionHandle(findExpr[ir.ExprBinary](fn, func(b ir.ExprBinary) bool { return b.Op == ir.BinaryLess }))
			fn.Expressions[i].Kind = b
		}},
		{"load of non-pointer", RuleExprOperand, func(m *ir.Module) {
			fn := mainFn(m)
			i := findExpr[ir.ExprLoad](fn, nil)
			fn.Expressions[i].Kind = ir.ExprLoad{Pointer: 0} // argument gid: a value
		}},
		{"recorded type changed", RuleExprType, func(m *ir.Module) {
			fn := mainFn(m)
			i := findExpr[ir.ExprBinary](fn, func(b ir.ExprBinary) bool { return b.Op == ir.BinaryAdd })
			fn.ExpressionTypes[i] = ir.TypeResolution{Value: ir.ScalarType{Kind: ir.ScalarUint, Width: 4}}
		}},
		{"recorded pointer space changed", RuleExprType, func(m *ir.Module) {
			fn := mainFn(m)
			i := findExpr[ir.ExprLocalVariable](fn, nil)
			p := fn.ExpressionTypes[i].Value.(ir.PointerType)
			p.Space = ir.SpacePrivate
			fn.ExpressionTypes[i] = ir.TypeResolution{Value: p}
		}},
		{"recorded type missing", RuleExprType, func(m *ir.Module) { mainFn(m).ExpressionTypes[5] = ir.TypeResolution{} }},
		{"types slice short", RuleExprType, func(m *ir.Module) {
			fn := mainFn(m)
			fn.ExpressionTypes = fn.ExpressionTypes[:len(fn.ExpressionTypes)-1]
		}},
		{"emit removed", RuleEmitCover, func(m *ir.Module) {
			fn := mainFn(m)
			for i, s := range fn.Body {
				if _, ok := s.Kind.(ir.StmtEmit); ok {
					fn.Body = append(fn.Body[:i:i], fn.Body[i+1:]...)
					return
				}
			}
		}},
		{"emit duplicated", RuleEmitCover, func(m *ir.Module) {
			fn := mainFn(m)
			for i, s := range fn.Body {
				if _, ok := s.Kind.(ir.StmtEmit); ok {
					nb := append(ir.Block{}, fn.Body[:i+1]...)
					nb = append(nb, s)
					fn.Body = append(nb, fn.Body[i+1:]...)
					return
				}
			}
		}},
		{"emit covers literal", RuleEmitNever, func(m *ir.Module) {
			fn := mainFn(m)
			editStmt(&fn.Body, func(b *[]ir.Statement, i int) bool {
				e, ok := (*b)[i].Kind.(ir.StmtEmit)
				if !ok || int(e.Range.End) >= len(fn.Expressions) {
					return false
				}
				if _, lit := fn.Expressions[e.Range.End].Kind.(ir.Literal); !lit {
					return false
				}
				e.Range.End++
				(*b)[i].Kind = e
				return true
			})
		}},
		{"emit covers call result", RuleEmitNever, func(m *ir.Module) {
			fn := mainFn(m)
			h := ir.ExpressionHandle(findExpr[ir.ExprCallResult](fn, nil))
			fn.Body = append(fn.Body, ir.Statement{Kind: ir.StmtEmit{Range: ir.Range{Start: h, End: h + 1}}})
		}},
		{"use before emit", RuleEmitDominates, func(m *ir.Module) {
			fn := mainFn(m)
			for i := 0; i+1 < len(fn.Body); i++ {
				_, e := fn.Body[i].Kind.(ir.StmtEmit)
				_, s := fn.Body[i+1].Kind.(ir.StmtStore)
				if e && s {
					fn.Body[i], fn.Body[i+1] = fn.Body[i+1], fn.Body[i]
					return
				}
			}
			panic("no emit/store pair")
		}},
		{"emit inside branch, use after", RuleEmitDominates, func(m *ir.Module) {
			fn := mainFn(m)
			for i := 0; i+1 < len(fn.Body); i++ {
				_, e := fn.Body[i].Kind.(ir.StmtEmit)
				_, s := fn.Body[i+1].Kind.(ir.StmtStore)
				if e && s {
					cond := ir.ExpressionHandle(findExpr[ir.Literal](fn, nil)) // type irrelevant here
					fn.Body[i] = ir.Statement{Kind: ir.StmtIf{Condition: cond, Accept: ir.Block{fn.Body[i]}}}
					return
				}
			}
		}},
		{"call result used before the call", RuleEmitDominates, func(m *ir.Module) {
			fn := mainFn(m)
			for i, s := range fn.Body {
				if c, ok := s.Kind.(ir.StmtCall); ok && c.Result != nil {
					// move the call to the end of the body
					nb := append(ir.Block{}, fn.Body[:i]...)
					nb = append(nb, fn.Body[i+1:]...)
					fn.Body = append(nb, s)
					return
				}
			}
		}},
		{"statement after return", RuleAfterTerm, func(m *ir.Module) {
			fn := &m.Functions[0]
			fn.Body = append(fn.Body, ir.Statement{Kind: ir.StmtBarrier{}})
		}},
		{"statement after break", RuleAfterTerm, func(m *ir.Module) {
			editStmt(&mainFn(m).Body, func(b *[]ir.Statement, i int) bool {
				if _, ok := (*b)[i].Kind.(ir.StmtBreak); ok {
					*b = append(*b, ir.Statement{Kind: ir.StmtBarrier{}})
					return true
				}
				return false
			})
		}},
		{"missing final return", RuleReturnPaths, func(m *ir.Module) {
			fn := &m.Functions[0]
			fn.Body = fn.Body[:len(fn.Body)-1]
		}},
		{"switch default without return", RuleReturnPaths, func(m *ir.Module) {
			fn := &m.Functions[0]
			fn.Body = fn.Body[:len(fn.Body)-2] // drop `return *p` and its emit: only the switch's default returns
		}},
		{"return without value", RuleReturnType, func(m *ir.Module) {
			editStmt(&m.Functions[0].Body, func(b *[]ir.Statement, i int) bool {
				if _, ok := (*b)[i].Kind.(ir.StmtReturn); ok {
					(*b)[i].Kind = ir.StmtReturn{}
					return true
				}
				return false
			})
		}},
		{"return of wrong type", RuleReturnType, func(m *ir.Module) {
			fn := &m.Functions[0]
			h := ir.ExpressionHandle(findExpr[ir.ExprBinary](fn, func(b ir.ExprBinary) bool { return b.Op == ir.BinaryGreater }))
			editStmt(&fn.Body, func(b *[]ir.Statement, i int) bool {
				if _, ok := (*b)[i].Kind.(ir.StmtReturn); ok {
					(*b)[i].Kind = ir.StmtReturn{Value: &h}
					return true
				}
				return false
			})
		}},
		{"value returned from void function", RuleReturnType, func(m *ir.Module) {
			fn := mainFn(m)
			h := ir.ExpressionHandle(findExpr[ir.Literal](fn, nil))
			fn.Body = append(ir.Block{{Kind: ir.StmtReturn{Value: &h}}}, fn.Body...)
		}},
		{"break outside loop", RuleBreakContinue, func(m *ir.Module) {
			fn := mainFn(m)
			fn.Body = append(fn.Body[:len(fn.Body):len(fn.Body)], ir.Statement{Kind: ir.StmtIf{Condition: 0, Accept: ir.Block{{Kind: ir.StmtBreak{}}}}})
		}},
		{"continue in switch outside loop", RuleBreakContinue, func(m *ir.Module) {
			editStmt(&m.Functions[0].Body, func(b *[]ir.Statement, i int) bool {
				if sw, ok := (*b)[i].Kind.(ir.StmtSwitch); ok {
					sw.Cases[0].Body = ir.Block{{Kind: ir.StmtContinue{}}}
					sw.Cases[0].FallThrough = false
					return true
				}
				return false
			})
		}},
		{"continue in continuing", RuleBreakContinue, func(m *ir.Module) {
			editStmt(&mainFn(m).Body, func(b *[]ir.Statement, i int) bool {
				if l, ok := (*b)[i].Kind.(ir.StmtLoop); ok && len(l.Continuing) > 0 {
					l.Continuing = append(l.Continuing[:len(l.Continuing):len(l.Continuing)], ir.Statement{Kind: ir.StmtContinue{}})
					(*b)[i].Kind = l
					return true
				}
				return false
			})
		}},
		{"break in continuing", RuleBreakContinue, func(m *ir.Module) {
			editStmt(&mainFn(m).Body, func(b *[]ir.Statement, i int) bool {
				if l, ok := (*b)[i].Kind.(ir.StmtLoop); ok && len(l.Continuing) > 0 {
					l.Continuing = append(l.Continuing[:len(l.Continuing):len(l.Continuing)], ir.Statement{Kind: ir.StmtBreak{}})
					(*b)[i].Kind = l
					return true
				}
				return false
			})
		}},
		{"integer if condition", RuleCondType, func(m *ir.Module) {
			fn := mainFn(m)
			lit := ir.ExpressionHandle(findExpr[ir.Literal](fn, func(l ir.Literal) bool { _, ok := l.Value.(ir.LiteralI32); return ok }))
			editStmt(&fn.Body, func(b *[]ir.Statement, i int) bool {
				if s, ok := (*b)[i].Kind.(ir.StmtIf); ok {
					s.Condition = lit
					(*b)[i].Kind = s
					return true
				}
				return false
			})
		}},
		{"switch case of other signedness", RuleCondType, func(m *ir.Module) {
			editStmt(&m.Functions[0].Body, func(b *[]ir.Statement, i int) bool {
				if sw, ok := (*b)[i].Kind.(ir.StmtSwitch); ok {
					sw.Cases[0].Value = ir.SwitchValueU32(1)
					return true
				}
				return false
			})
		}},
		{"store of wrong type", RuleStore, func(m *ir.Module) {
			fn := mainFn(m)
			cond := ir.ExpressionHandle(findExpr[ir.ExprBinary](fn, func(b ir.ExprBinary) bool { return b.Op == ir.BinaryLess }))
			editStmt(&fn.Body, func(b *[]ir.Statement, i int) bool {
				if s, ok := (*b)[i].Kind.(ir.StmtStore); ok {
					s.Value = cond
					(*b)[i].Kind = s
					return true
				}
				return false
			})
		}},
		{"store into uniform", RuleStore, func(m *ir.Module) {
			for i := range m.GlobalVariables {
				if m.GlobalVariables[i].Name == "out" {
					m.GlobalVariables[i].Space = ir.SpaceUniform
				}
			}
			fn := mainFn(m)
			for i, e := range fn.Expressions { // keep the recorded types consistent so that only the store rule fires
				if g, ok := e.Kind.(ir.ExprGlobalVariable); ok && m.GlobalVariables[g.Variable].Name == "out" {
					_ = i
				}
			}
		}},
		{"store into read-only storage", RuleStore, func(m *ir.Module) {
			for i := range m.GlobalVariables {
				if m.GlobalVariables[i].Name == "out" {
					m.GlobalVariables[i].Access = ir.StorageRead
				}
			}
		}},
		{"store through value", RuleStore, func(m *ir.Module) {
			fn := mainFn(m)
			editStmt(&fn.Body, func(b *[]ir.Statement, i int) bool {
				if s, ok := (*b)[i].Kind.(ir.StmtStore); ok {
					s.Pointer = s.Value
					(*b)[i].Kind = s
					return true
				}
				return false
			})
		}},
		{"call with missing argument", RuleCall, func(m *ir.Module) {
			editStmt(&mainFn(m).Body, func(b *[]ir.Statement, i int) bool {
				if c, ok := (*b)[i].Kind.(ir.StmtCall); ok && len(c.Arguments) == 2 {
					c.Arguments = c.Arguments[:1]
					(*b)[i].Kind = c
					return true
				}
				return false
			})
		}},
		{"call with swapped arguments", RuleCall, func(m *ir.Module) {
			editStmt(&mainFn(m).Body, func(b *[]ir.Statement, i int) bool {
				if c, ok := (*b)[i].Kind.(ir.StmtCall); ok && len(c.Arguments) == 2 {
					c.Arguments = []ir.ExpressionHandle{c.Arguments[1], c.Arguments[0]}
					(*b)[i].Kind = c
					return true
				}
				return false
			})
		}},
		{"call result dropped", RuleCall, func(m *ir.Module) {
			editStmt(&mainFn(m).Body, func(b *[]ir.Statement, i int) bool {
				if c, ok := (*b)[i].Kind.(ir.StmtCall); ok && c.Result != nil {
					c.Result = nil
					(*b)[i].Kind = c
					return true
				}
				return false
			})
		}},
		{"result for void call", RuleCall, func(m *ir.Module) {
			fn := mainFn(m)
			h := ir.ExpressionHandle(findExpr[ir.ExprCallResult](fn, nil))
			editStmt(&fn.Body, func(b *[]ir.Statement, i int) bool {
				if c, ok := (*b)[i].Kind.(ir.StmtCall); ok && c.Result == nil {
					c.Result = &h
					(*b)[i].Kind = c
					return true
				}
				return false
			})
		}},
		{"call result of other function", RuleCall, func(m *ir.Module) {
			fn := mainFn(m)
			i := findExpr[ir.ExprCallResult](fn, nil)
			m.Functions[1].Result = &ir.FunctionResult{Type: m.Functions[0].Result.Type} // keep types inferable
			fn.Expressions[i].Kind = ir.ExprCallResult{Function: 1}
		}},
		{"atomic value type", RuleAtomic, func(m *ir.Module) {
			fn := mainFn(m)
			lit := ir.ExpressionHandle(findExpr[ir.Literal](fn, func(l ir.Literal) bool { _, ok := l.Value.(ir.LiteralF32); return ok }))
			editStmt(&fn.Body, func(b *[]ir.Statement, i int) bool {
				if a, ok := (*b)[i].Kind.(ir.StmtAtomic); ok {
					a.Value = lit
					(*b)[i].Kind = a
					return true
				}
				return false
			})
		}},
		{"atomic on non-atomic", RuleAtomic, func(m *ir.Module) {
			fn := mainFn(m)
			lv := ir.ExpressionHandle(findExpr[ir.ExprLocalVariable](fn, nil))
			editStmt(&fn.Body, func(b *[]ir.Statement, i int) bool {
				if a, ok := (*b)[i].Kind.(ir.StmtAtomic); ok {
					a.Pointer = lv
					(*b)[i].Kind = a
					return true
				}
				return false
			})
		}},
		{"atomic result flag", RuleAtomic, func(m *ir.Module) {
			fn := mainFn(m)
			i := findExpr[ir.ExprAtomicResult](fn, nil)
			k := fn.Expressions[i].Kind.(ir.ExprAtomicResult)
			k.Comparison = true
			fn.Expressions[i].Kind = k
		}},
		{"zero workgroup size", RuleEPStage, func(m *ir.Module) { epByName(m, "main").Workgroup[1] = 0 }},
		{"compute with result", RuleEPStage, func(m *ir.Module) {
			epByName(m, "main").Function.Result = &ir.FunctionResult{Type: 0}
		}},
		{"vertex without position", RuleEPStage, func(m *ir.Module) {
			for i, ty := range m.Types {
				if st, ok := ty.Inner.(ir.StructType); ok && ty.Name == "VOut" {
					var b ir.Binding = ir.LocationBinding{Location: 7}
					st.Members = append([]ir.StructMember(nil), st.Members...)
					st.Members[0].Binding = &b
					m.Types[i].Inner = st
				}
			}
		}},
		{"argument without binding", RuleEPBinding, func(m *ir.Module) { epByName(m, "main").Function.Arguments[0].Binding = nil }},
		{"struct member without binding", RuleEPBinding, func(m *ir.Module) {
			for i, ty := range m.Types {
				if st, ok := ty.Inner.(ir.StructType); ok && ty.Name == "VOut" {
					st.Members = append([]ir.StructMember(nil), st.Members...)
					st.Members[2].Binding = nil
					m.Types[i].Inner = st
				}
			}
		}},
		{"outputs share a location", RuleEPLocation, func(m *ir.Module) {
			for i, ty := range m.Types {
				if st, ok := ty.Inner.(ir.StructType); ok && ty.Name == "VOut" {
					var b ir.Binding = ir.LocationBinding{Location: 0}
					st.Members = append([]ir.StructMember(nil), st.Members...)
					st.Members[2].Binding = &b
					m.Types[i].Inner = st
				}
			}
		}},
		{"vertex builtin on compute", RuleEPBuiltin, func(m *ir.Module) {
			var b ir.Binding = ir.BuiltinBinding{Builtin: ir.BuiltinVertexIndex}
			epByName(m, "main").Function.Arguments[1].Binding = &b
		}},
		{"builtin of wrong type", RuleEPBuiltin, func(m *ir.Module) {
			var b ir.Binding = ir.BuiltinBinding{Builtin: ir.BuiltinLocalInvocationIndex}
			epByName(m, "main").Function.Arguments[0].Binding = &b
		}},
		{"builtin bound twice", RuleEPBuiltin, func(m *ir.Module) {
			fn := &epByName(m, "vs").Function
			fn.Arguments[1] = fn.Arguments[0]
		}},
		{"output builtin as input", RuleEPBuiltin, func(m *ir.Module) {
			var b ir.Binding = ir.BuiltinBinding{Builtin: ir.BuiltinFragDepth}
			epByName(m, "vs").Function.Arguments[0].Binding = &b
		}},
		{"storage global unbound", RuleResBinding, func(m *ir.Module) { m.GlobalVariables[0].Binding = nil }},
		{"private global bound", RuleResBinding, func(m *ir.Module) {
			for i := range m.GlobalVariables {
				if m.GlobalVariables[i].Space == ir.SpacePrivate {
					m.GlobalVariables[i].Binding = &ir.ResourceBinding{Group: 3, Binding: 3}
				}
			}
		}},
		{"two resources, one binding", RuleBindingClash, func(m *ir.Module) {
			*m.GlobalVariables[1].Binding = *m.GlobalVariables[0].Binding
		}},
		{"ir.Validate complains", RuleNagaValidate, func(m *ir.Module) { m.EntryPoints[1].Name = m.EntryPoints[0].Name }},
		// (the statement rules have their own base module and mutations in validate_stmt_test.go)
		{"call statement removed: its result has no producer", RuleStmtResult, func(m *ir.Module) {
			fn := mainFn(m)
			editStmt((*[]ir.Statement)(&fn.Body), func(b *[]ir.Statement, i int) bool {
				if c, ok := (*b)[i].Kind.(ir.StmtCall); ok && c.Result != nil {
					*b = append((*b)[:i:i], (*b)[i+1:]...)
					return true
				}
				return false
			})
		}},
		{"barrier with unknown flags", RuleStmtOperand, func(m *ir.Module) {
			fn := mainFn(m)
			editStmt((*[]ir.Statement)(&fn.Body), func(b *[]ir.Statement, i int) bool {
				if k, ok := (*b)[i].Kind.(ir.StmtBarrier); ok {
					k.Flags |= 1 << 9
					(*b)[i].Kind = k
					return true
				}
				return false
			})
		}},
	}
	base := lower(t, valSrc)
	h := Hash(base)
	seen := map[string]bool{}
	for _, mu := range muts {
		t.Run(mu.name, func(t *testing.T) {
			m := Clone(base)
			mu.f(m)
			if Hash(m) == h {
				t.Fatalf("mutation did not change the module")
			}
			rep := Validate(m, ValidateOpts{})
			if rep.Count(mu.rule) == 0 {
				t.Fatalf("rule %s did not fire; findings: %v", mu.rule, rep.Findings)
			}
		})
		seen[mu.rule] = true
	}
	for _, r := range Rules() {
		if !seen[r] {
			t.Errorf("no mutation exercises rule %s", r)
		}
	}
	if Hash(base) != h {
		t.Fatal("base module was modified")
	}
}

// A value emitted after a `continue` does not dominate the continuing block.
func TestValidateContinueDominance(t *testing.T) {
	m := lower(t, hdrI+inI+cs+`fn main() {
  var i = 0;
  loop {
    if (i > 5) { break; }
    let v = a[i] * 2;
    if (v == 4) { continue; }
    o[i] = v;
    continuing { i = i + 1; }
  }
}`)
	if rep := Validate(m, ValidateOpts{}); !rep.OK() {
		t.Fatalf("clean loop has findings: %v", rep.Findings)
	}
	// Make the continuing block use `v`'s expression, but move the inner `continue` in front of v's Emit.
	fn := &m.EntryPoints[0].Function
	vh := -1
	for h, n := range fn.NamedExpressions {
		if n == "v" {
			vh = int(h)
		}
	}
	if vh < 0 {
		t.Fatal("no named expression v")
	}
	vhh := ir.ExpressionHandle(vh)
	editStmt(&fn.Body, func(b *[]ir.Statement, i int) bool {
		l, ok := (*b)[i].Kind.(ir.StmtLoop)
		if !ok {
			return false
		}
		// continuing: store v somewhere (reuse the existing store's pointer expression)
		var ptr ir.ExpressionHandle
		for _, s := range l.Continuing {
			if st, ok := s.Kind.(ir.StmtStore); ok {
				ptr = st.Pointer
			}
		}
		l.Continuing = append(l.Continuing[:len(l.Continuing):len(l.Continuing)], ir.Statement{Kind: ir.StmtStore{Pointer: ptr, Value: vhh}})
		(*b)[i].Kind = l
		return true
	})
	if rep := Validate(m, ValidateOpts{SkipNagaValidate: true}); rep.Count(RuleEmitDominates) != 0 {
		t.Fatalf("v is emitted before every continue; no dominance finding expected: %v", rep.Findings)
	}
	// now put a `continue` at the very top of the body: v's Emit no longer dominates the continuing block
	editStmt(&fn.Body, func(b *[]ir.Statement, i int) bool {
		l, ok := (*b)[i].Kind.(ir.StmtLoop)
		if !ok {
			return false
		}
		c := ir.ExpressionHandle(findExpr[ir.ExprBinary](fn, func(b ir.ExprBinary) bool { return b.Op == ir.BinaryEqual }))
		_ = c
		lit := ir.ExpressionHandle(findExpr[ir.Literal](fn, nil))
		l.Body = append(ir.Block{{Kind: ir.StmtIf{Condition: lit, Accept: ir.Block{{Kind: ir.StmtContinue{}}}}}}, l.Body...)
		(*b)[i].Kind = l
		return true
	})
	rep := Validate(m, ValidateOpts{SkipNagaValidate: true})
	found := false
	for _, f := range rep.Findings {
		if f.Rule == RuleEmitDominates && strings.Contains(f.Detail, "StmtStore") {
			found = true
		}
	}
	if !found {
		t.Fatalf("use in continuing of a value emitted after a continue must be flagged: %v", rep.Findings)
	}
}

// The genuine contract violations of the pinned tree, each with a minimal reproducer.
func TestValidateKnownNagaDefects(t *testing.T) {
	cases := []struct {
		name, rule, src string
	}{
		{"compound assignment through pointer parameter adds to the pointer", RuleExprOperand,
			hdrI + "fn bump(p: ptr<function, i32>) { *p += 1; }\n" + cs + "fn main() { var x = 3; bump(&x); o[0] = x; }"},
		{"abstract float literal survives in matrix * literal", RuleNoAbstract,
			"@group(0) @binding(0) var<storage, read_write> o: array<vec2<f32>>;\n" + cs + "fn main() { let m = mat2x2<f32>(1.0, 2.0, 3.0, 4.0); let s = m * 2.0; o[0] = s[0]; }"},
		{"recorded types stale after concretising an assignment's literals", RuleExprType,
			"@group(0) @binding(0) var<storage, read_write> o: array<vec2<u32>>;\n" + cs + "fn main() { var a: vec2<i32> = vec2(42, 43); var b: vec2<u32> = vec2(44, 45); a = vec2(42, 43); b = vec2(44, 45); o[0] = b + vec2<u32>(a); }"},
		{"splat has no recorded type when its vector type is not in the arena", RuleExprType,
			hdrF + "struct Baz { m: mat3x2<f32> }\n" + cs + "fn main() { var t = Baz(mat3x2<f32>(vec2<f32>(1.0), vec2<f32>(2.0), vec2<f32>(3.0))); o[0] = t.m[1].x; }"},
		{"literals inside an Emit range", RuleEmitNever,
			"@group(0) @binding(0) var<storage, read_write> o: array<vec4<i32>>;\n" + cs + "fn main() { var v = vec4(vec2(1, 2), vec2(3, 4)).wzyx; o[0] = v; }"},
		{"constant index into const array of vectors folds to a scalar", RuleStore,
			"const positions = array(vec4(0.,1.,0.,1.), vec4(-1.,-1.,0.,1.));\n@group(0) @binding(0) var<storage, read_write> o: array<vec4<f32>>;\n" + cs + "fn main() { o[0] = positions[1]; }"},
		{"override initialiser literal has the wrong type", RuleExprType,
			"override ov: u32 = 0;\n" + hdrU + cs + "fn main() { o[0] = ov; }"},
		{"transpose of a non-square matrix keeps the argument's type", RuleExprType,
			hdrF + inF + cs + "fn main() { let m = mat3x2<f32>(a[0], a[1], a[2], a[3], a[4], a[5]); let t = transpose(m); o[0] = t[1].y; }"},
		{"ir.Validate: break in switch of a helper", RuleNagaValidate,
			hdrI + "fn h(x: i32) -> i32 { var r = 0; switch x { case 1: { r = 1; break; } default: { r = 2; } } return r; }\n" + cs + "fn main() { o[0] = h(1); }"},
		{"ir.Validate: one binding used by two entry points", RuleNagaValidate,
			"@group(0) @binding(0) var<storage, read_write> o1: array<i32>;\n@group(0) @binding(0) var<storage, read_write> o2: array<i32>;\n" + cs + "fn m1() { o1[0] = 1; }\n" + cs + "fn m2() { o2[0] = 1; }"},
	}
	for _, c := range cases {
		m, err := lowerErr(c.src)
		if err != nil {
			t.Errorf("%s: reproducer no longer lowers: %v", c.name, err)
			continue
		}
		rep := Validate(m, ValidateOpts{})
		if rep.Count(c.rule) == 0 {
			t.Logf("FIXED? %s: rule %s no longer fires (findings %v)", c.name, c.rule, rep.Findings)
		} else {
			t.Logf("present: %s [%s]", c.name, c.rule)
		}
	}
}

// The conformance programs are valid WGSL of the shapes the generators produce: the strict validator
// must have nothing to say about them beyond the known naga defects.
func TestValidateConformancePrograms(t *testing.T) {
	var srcs []string
	for _, c := range confInt {
		srcs = append(srcs, confIntPrelude+cs+"fn main() { "+c.src+" }")
	}
	for _, c := range confUint {
		srcs = append(srcs, confUintPrelude+cs+"fn main() { "+c.src+" }")
	}
	for _, c := range confFloat {
		srcs = append(srcs, confFloatPrelude+cs+"fn main() { "+c.src+" }")
	}
	n := 0
	for _, s := range srcs {
		m := lower(t, s)
		rep := Validate(m, ValidateOpts{})
		for _, f := range rep.Findings {
			n++
			t.Logf("finding: %s\n   in: %s", f, s[strings.LastIndex(s, "fn main"):])
		}
	}
	t.Logf("%d programs, %d findings", len(srcs), n)
}

func TestConcurrentUse(t *testing.T) {
	m := lower(t, valSrc)
	p, err := Compile(m)
	if err != nil {
		t.Fatal(err)
	}
	h := Hash(m)
	done := make(chan string, 8)
	for g := 0; g < 8; g++ {
		go func() {
			msg := ""
			for i := 0; i < 50; i++ {
				if Hash(m) != h || HashOpts(m, HashOptions{IgnoreNames: true}) == "" {
					msg = "hash unstable"
				}
				if !Validate(m, ValidateOpts{}).OK() {
					msg = "validate unstable"
				}
				b := generousBuffers(m)
				if err := p.Run(b, xrt.Opts{EntryPoint: "main"}); err != nil {
					msg = err.Error()
				}
				if Hash(Clone(m)) != h {
					msg = "clone unstable"
				}
			}
			done <- msg
		}()
	}
	for g := 0; g < 8; g++ {
		if msg := <-done; msg != "" {
			t.Error(msg)
		}
	}
}
