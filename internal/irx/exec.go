package irx

import (
	"fmt"
	"iter"
	"sync"

	"github.com/gogpu/naga/ir"

	"verif/internal/xrt"
)

// Exec runs the compute entry point o.EntryPoint of m (empty = first compute entry point) on bufs.
// It is Compile followed by Run; callers that execute one module on many inputs should keep the
// Program.
func Exec(m *ir.Module, bufs xrt.Buffers, o xrt.Opts) error {
	p, err := Compile(m)
	if err != nil {
		return err
	}
	return p.Run(bufs, o)
}

// Program is a module prepared for execution. It refers to (and must not outlive changes of) the
// module it was compiled from.
type Program struct {
	// EvalUnemittedAtUse relaxes the Emit discipline the way naga's backends do: an expression that
	// no Emit range covers is evaluated at each use instead of being reported as "used before it was
	// emitted". Off by default (strict IR semantics). Set it before Run.
	EvalUnemittedAtUse bool

	m       *ir.Module
	tt      *typeTable
	garena  *xfunc // Module.GlobalExpressions
	gframe  *frame // evaluated global expressions
	consts  []cval // per constant
	globals []xglobal
	funcs   []*xfunc
	eps     []*xfunc
	hasSync []bool // per entry point: reachable code contains barriers
	cx      *inv   // evaluation context for constant expressions
	nfuncs  int
	mu      sync.Mutex
	scratch []*shared // recycled per-dispatch state
}

type cval struct {
	w     []uint32
	err   error
	state uint8
}

type xglobal struct {
	ty   *xtype
	init []uint32 // nil = zero
	err  error
}

// xexpr is the per-expression static information.
type xexpr struct {
	k   ir.ExpressionKind
	ty  *xtype
	off int // first word of the value slot in the frame
	n   int // words (0 for pointers / opaque)
	err error
	pre bool // available without Emit
}

type xfunc struct {
	f      *ir.Function
	name   string
	ex     []xexpr
	nwords int
	image  []uint32 // initial frame contents (literals, constants, zero values)
	locals []xlocal
	lazy   []bool // expression is covered by no Emit and is neither pre-emitted nor a statement result
	result *xtype
	args   []*xtype
	id     int
}

type xlocal struct {
	ty   *xtype
	init []uint32
	err  error
}

type edge struct {
	key ir.PhiPredKey
	idx uint32
	set bool
}

type frame struct {
	fn     *xfunc
	w      []uint32
	p      []xptr
	done   []bool
	locals []xmem
	last   edge
	argW   [][]uint32
	argP   []xptr
}

// Compile prepares m. Constructs that cannot be executed do not fail compilation; they fail when
// (and only when) they are reached at run time.
func Compile(m *ir.Module) (p *Program, err error) {
	if m == nil {
		return nil, &xrt.Malformed{What: "nil module"}
	}
	defer func() {
		if r := recover(); r != nil {
			p, err = nil, &xrt.Malformed{What: fmt.Sprintf("module cannot be prepared: %v", r)}
		}
	}()
	p = &Program{m: m, tt: newTypeTable(m)}
	// Global expressions and constants are evaluated on demand (a constant's value is its init
	// expression, which may mention earlier constants).
	p.consts = make([]cval, len(m.Constants))
	p.garena = p.newFunc(nil, "<global expressions>")
	p.garena.fillImage(p)
	p.gframe = p.garena.newFrame(nil)
	p.cx = &inv{p: p}
	for i := range m.GlobalExpressions {
		if err := p.cx.evalTree(p.gframe, ir.ExpressionHandle(i), 0); err != nil {
			p.garena.ex[i].err = err
		}
	}
	for i := range m.Constants {
		p.constVal(i)
	}
	p.globals = make([]xglobal, len(m.GlobalVariables))
	for i, g := range m.GlobalVariables {
		xg := xglobal{ty: p.tt.handle(g.Type, 0)}
		xg.err = xg.ty.err
		if xg.err == nil {
			switch {
			case g.InitExpr != nil:
				xg.init, xg.err = p.globalExprValue(*g.InitExpr, xg.ty)
			case g.Init != nil:
				cv := p.constVal(int(*g.Init))
				xg.init, xg.err = cv.w, cv.err
				if xg.err == nil && len(xg.init) != xg.ty.words {
					xg.err = &xrt.Malformed{What: "global init constant size mismatch"}
				}
			}
		}
		p.globals[i] = xg
	}
	p.funcs = make([]*xfunc, len(m.Functions))
	for i := range m.Functions {
		p.funcs[i] = p.newFunc(&m.Functions[i], m.Functions[i].Name)
	}
	p.eps = make([]*xfunc, len(m.EntryPoints))
	for i := range m.EntryPoints {
		p.eps[i] = p.newFunc(&m.EntryPoints[i].Function, m.EntryPoints[i].Name)
	}
	for _, f := range p.funcs {
		f.fillImage(p)
		f.fillLocals(p)
	}
	for _, f := range p.eps {
		f.fillImage(p)
		f.fillLocals(p)
	}
	p.hasSync = make([]bool, len(m.EntryPoints))
	for i := range m.EntryPoints {
		p.hasSync[i] = p.scanSync(i)
	}
	return p, nil
}

func (p *Program) globalExprValue(h ir.ExpressionHandle, want *xtype) ([]uint32, error) {
	if int(h) >= len(p.garena.ex) {
		return nil, &xrt.Malformed{What: "global expression handle out of range"}
	}
	e := &p.garena.ex[h]
	if e.err != nil {
		return nil, e.err
	}
	if err := p.cx.evalTree(p.gframe, h, 0); err != nil {
		return nil, err
	}
	if want != nil && want.words != e.n {
		return nil, &xrt.Malformed{What: fmt.Sprintf("init expression has %d words, declared type %s has %d", e.n, want, want.words)}
	}
	return p.gframe.w[e.off : e.off+e.n], nil
}

// constVal returns (computing it on first use) the value of constant i.
func (p *Program) constVal(i int) cval {
	if i < 0 || i >= len(p.consts) {
		return cval{err: &xrt.Malformed{What: "constant out of range"}}
	}
	c := &p.consts[i]
	switch c.state {
	case 2:
		return *c
	case 1:
		return cval{err: &xrt.Malformed{What: "constant depends on itself"}}
	}
	c.state = 1
	w, err := p.computeConst(i)
	*c = cval{w: w, err: err, state: 2}
	return *c
}

func (p *Program) computeConst(i int) ([]uint32, error) {
	m := p.m
	k := m.Constants[i]
	ty := p.tt.handle(k.Type, 0)
	if ty.err != nil {
		return nil, ty.err
	}
	if ty.words < 0 {
		return nil, &xrt.Malformed{What: "constant of runtime-sized type"}
	}
	var initErr error
	if int(k.Init) < len(m.GlobalExpressions) {
		e := &p.garena.ex[k.Init]
		if err := p.cx.evalTree(p.gframe, k.Init, 0); err != nil {
			initErr = err
		} else if e.ty == nil || e.ty.kind != ty.kind || e.n != ty.words || e.ty.sk != ty.sk {
			initErr = &xrt.Malformed{What: fmt.Sprintf("constant %d: init expression does not have the declared type", i)}
		} else {
			return p.gframe.w[e.off : e.off+e.n], nil
		}
	}
	switch v := k.Value.(type) {
	case ir.ScalarValue:
		if ty.kind != xScalar {
			return nil, &xrt.Malformed{What: "scalar constant value of non-scalar type"}
		}
		if v.Kind == ir.ScalarBool {
			return []uint32{b2w(v.Bits != 0)}, nil
		}
		return []uint32{uint32(v.Bits)}, nil
	case ir.ZeroConstantValue:
		return make([]uint32, ty.words), nil
	case ir.CompositeValue:
		var w []uint32
		for _, ch := range v.Components {
			if int(ch) >= i {
				return nil, &xrt.Malformed{What: "composite constant component not earlier"}
			}
			cv := p.constVal(int(ch))
			if cv.err != nil {
				return nil, cv.err
			}
			w = append(w, cv.w...)
		}
		if len(w) != ty.words {
			return nil, &xrt.Malformed{What: "composite constant size mismatch"}
		}
		return w, nil
	}
	if initErr != nil {
		return nil, initErr
	}
	return nil, &xrt.Malformed{What: fmt.Sprintf("constant %d has no usable value", i)}
}

func (p *Program) newFunc(f *ir.Function, name string) *xfunc {
	xf := &xfunc{f: f, name: name, id: p.nfuncs}
	p.nfuncs++
	var exprs []ir.Expression
	if f != nil {
		exprs = f.Expressions
	} else {
		exprs = p.m.GlobalExpressions
	}
	ty := newTyper(p.m, f)
	ty.inferAll()
	xf.ex = make([]xexpr, len(exprs))
	off := 0
	for i := range exprs {
		e := &xf.ex[i]
		e.k = exprs[i].Kind
		e.off = off
		if err := ty.errs[i]; err != nil {
			e.err = &xrt.Malformed{What: fmt.Sprintf("%s e%d (%T): %v", name, i, e.k, err)}
			continue
		}
		e.ty = p.tt.fromR(ty.types[i])
		if e.ty.err != nil {
			e.err = e.ty.err
			continue
		}
		switch e.ty.kind {
		case xPointer, xOpaque:
			e.n = 0
		default:
			if e.ty.words < 0 {
				e.err = &xrt.Unsupported{What: "runtime-sized value"}
				continue
			}
			e.n = e.ty.words
		}
		off += e.n
		switch e.k.(type) {
		case ir.Literal, ir.ExprConstant, ir.ExprZeroValue, ir.ExprOverride, ir.ExprFunctionArgument,
			ir.ExprGlobalVariable, ir.ExprLocalVariable:
			e.pre = true
		}
	}
	xf.nwords = off
	if f != nil {
		if f.Result != nil {
			xf.result = p.tt.handle(f.Result.Type, 0)
		}
		for _, a := range f.Arguments {
			xf.args = append(xf.args, p.tt.handle(a.Type, 0))
		}
		covered := make([]bool, len(exprs))
		walkBlocks(f.Body, func(s ir.Statement) {
			if e, ok := s.Kind.(ir.StmtEmit); ok && e.Range.Start <= e.Range.End && int(e.Range.End) <= len(exprs) {
				for h := e.Range.Start; h < e.Range.End; h++ {
					covered[h] = true
				}
			}
		})
		xf.lazy = make([]bool, len(exprs))
		for i := range exprs {
			xf.lazy[i] = !covered[i] && !xf.ex[i].pre && exprs[i].Kind != nil && !statementResult(exprs[i].Kind)
		}
	}
	return xf
}

// fillImage evaluates literals, constants and zero values into the initial frame image.
func (xf *xfunc) fillImage(p *Program) {
	xf.image = make([]uint32, xf.nwords)
	for i := range xf.ex {
		e := &xf.ex[i]
		if e.err != nil {
			continue
		}
		dst := xf.image[e.off : e.off+e.n]
		switch k := e.k.(type) {
		case ir.Literal:
			switch v := k.Value.(type) {
			case ir.LiteralF32:
				dst[0] = w32(float32(v))
			case ir.LiteralI32:
				dst[0] = uint32(int32(v))
			case ir.LiteralU32:
				dst[0] = uint32(v)
			case ir.LiteralBool:
				dst[0] = b2w(bool(v))
			default:
				e.err = &xrt.Unsupported{What: fmt.Sprintf("literal %T", k.Value)}
			}
		case ir.ExprConstant:
			if xf.f == nil {
				continue // global arena: evaluated on demand
			}
			c := p.constVal(int(k.Constant))
			if c.err != nil {
				e.err = c.err
			} else if len(c.w) != e.n {
				e.err = &xrt.Malformed{What: "constant size mismatch"}
			} else {
				copy(dst, c.w)
			}
		case ir.ExprOverride:
			e.err = &xrt.Unsupported{What: "unresolved override"}
		}
	}
}

func (xf *xfunc) fillLocals(p *Program) {
	if xf.f == nil {
		return
	}
	xf.locals = make([]xlocal, len(xf.f.LocalVars))
	if len(xf.f.LocalVars) == 0 {
		return
	}
	// Initialisers are constant expressions of the function arena: evaluate them once.
	var fr *frame
	x := &inv{p: p}
	for i, l := range xf.f.LocalVars {
		xl := xlocal{ty: p.tt.handle(l.Type, 0)}
		xl.err = xl.ty.err
		if xl.err == nil && xl.ty.words < 0 {
			xl.err = &xrt.Malformed{What: "runtime-sized local"}
		}
		if xl.err == nil && l.Init != nil {
			if fr == nil {
				fr = xf.newFrame(nil)
			}
			h := *l.Init
			if int(h) >= len(xf.ex) {
				xl.err = &xrt.Malformed{What: "local init out of range"}
			} else if err := x.constTree(fr, h, 0); err != nil {
				xl.err = err
			} else if xf.ex[h].n != xl.ty.words {
				xl.err = &xrt.Malformed{What: "local init size mismatch"}
			} else {
				xl.init = append([]uint32(nil), fr.w[xf.ex[h].off:xf.ex[h].off+xf.ex[h].n]...)
			}
		}
		xf.locals[i] = xl
	}
}

func (xf *xfunc) newFrame(sh *shared) *frame {
	if sh != nil {
		if l := sh.pool[xf.id]; len(l) > 0 {
			fr := l[len(l)-1]
			sh.pool[xf.id] = l[:len(l)-1]
			copy(fr.w, xf.image)
			clear(fr.done)
			fr.last = edge{}
			return fr
		}
	}
	fr := &frame{fn: xf, w: make([]uint32, xf.nwords), p: make([]xptr, len(xf.ex)), done: make([]bool, len(xf.ex))}
	copy(fr.w, xf.image)
	if xf.f != nil {
		fr.locals = make([]xmem, len(xf.f.LocalVars))
		for i := range fr.locals {
			n := xf.locals0(i)
			fr.locals[i] = xmem{words: make([]uint32, n), name: "local " + xf.f.LocalVars[i].Name}
		}
	}
	return fr
}

func (xf *xfunc) locals0(i int) int {
	if i < len(xf.locals) && xf.locals[i].err == nil && xf.locals[i].ty != nil && xf.locals[i].ty.words > 0 {
		return xf.locals[i].ty.words
	}
	return 0
}

func (sh *shared) release(fr *frame) {
	id := fr.fn.id
	if len(sh.pool[id]) < 16 {
		sh.pool[id] = append(sh.pool[id], fr)
	}
}

// ---------------------------------------------------------------------------------------------
// running

// shared is the state common to all invocations of one dispatch.
type shared struct {
	p      *Program
	o      xrt.Opts
	mc     memCtx
	steps  int64
	limit  int64
	gmem   []*xmem // per global: buffers and workgroup variables (private ones live in inv)
	wg     [3]uint32
	groups [3]uint32
	pool   [][]*frame // per xfunc id: free frames
	mems   []xmem     // storage for gmem entries
	seq    *inv       // recycled invocation object for barrier-free dispatches
}

// inv is one invocation.
type inv struct {
	p      *Program
	sh     *shared
	priv   []*xmem // per global, private address space
	yield  func(struct{}) bool
	depth  int
	ret    []uint32
	lid    [3]uint32
	wgid   [3]uint32
	lindex uint32
	argBuf []uint32
}

// argWords carves n zeroed words out of the invocation's argument buffer.
func (x *inv) argWords(n int) []uint32 {
	if len(x.argBuf)+n > cap(x.argBuf) {
		x.argBuf = make([]uint32, 0, 64+n) // earlier slices keep the old backing array
	}
	s := len(x.argBuf)
	x.argBuf = x.argBuf[:s+n]
	w := x.argBuf[s : s+n : s+n]
	clear(w)
	return w
}

type sig uint8

const (
	sNext sig = iota
	sBreak
	sContinue
	sReturn
	sKill
)

type abortErr struct{}

func (abortErr) Error() string { return "invocation aborted" }

// Run executes one dispatch.
func (p *Program) Run(bufs xrt.Buffers, o xrt.Opts) (err error) {
	defer func() {
		if r := recover(); r != nil {
			err = &xrt.Malformed{What: fmt.Sprintf("interpreter fault: %v", r)}
		}
	}()
	m := p.m
	epi := -1
	for i := range m.EntryPoints {
		ep := &m.EntryPoints[i]
		if ep.Stage != ir.StageCompute {
			continue
		}
		if o.EntryPoint == "" || o.EntryPoint == ep.Name {
			epi = i
			break
		}
	}
	if epi < 0 {
		for i := range m.EntryPoints {
			if m.EntryPoints[i].Name == o.EntryPoint {
				return &xrt.Unsupported{What: "entry point " + o.EntryPoint + " is not a compute entry point"}
			}
		}
		return &xrt.Unsupported{What: "no compute entry point " + o.EntryPoint}
	}
	ep := &m.EntryPoints[epi]
	if ep.Workgroup[0] == 0 || ep.Workgroup[1] == 0 || ep.Workgroup[2] == 0 {
		return &xrt.Malformed{What: "zero workgroup size"}
	}
	nInv := uint64(ep.Workgroup[0]) * uint64(ep.Workgroup[1]) * uint64(ep.Workgroup[2])
	if nInv > 1024 {
		return &xrt.Unsupported{What: "workgroup larger than 1024 invocations"}
	}
	// Per-dispatch scratch state (frames, variable storage) is recycled between runs.
	var sh *shared
	p.mu.Lock()
	if n := len(p.scratch); n > 0 {
		sh = p.scratch[n-1]
		p.scratch = p.scratch[:n-1]
	}
	p.mu.Unlock()
	if sh == nil {
		sh = &shared{p: p, pool: make([][]*frame, p.nfuncs), gmem: make([]*xmem, len(m.GlobalVariables)),
			mems: make([]xmem, len(m.GlobalVariables))}
	}
	defer func() {
		sh.o = xrt.Opts{}
		sh.mc.trace = nil
		for i := range sh.mems {
			sh.mems[i].buf = nil
		}
		p.mu.Lock()
		if len(p.scratch) < 32 {
			p.scratch = append(p.scratch, sh)
		}
		p.mu.Unlock()
	}()
	sh.o, sh.limit, sh.steps, sh.wg, sh.groups = o, o.Steps(), 0, ep.Workgroup, o.Groups()
	sh.mc.trace = o.Trace
	for i, g := range m.GlobalVariables {
		sh.gmem[i] = nil
		switch g.Space {
		case ir.SpaceUniform, ir.SpaceStorage:
			if g.Binding == nil {
				continue
			}
			b := xrt.Binding{Group: g.Binding.Group, Binding: g.Binding.Binding}
			sh.mems[i] = xmem{isBuf: true, buf: bufs[b], binding: b, name: g.Name,
				readonly: g.Space == ir.SpaceUniform || g.Access == ir.StorageRead}
			sh.gmem[i] = &sh.mems[i]
		}
	}
	barriers := p.hasSync[epi]
	for gz := uint32(0); gz < sh.groups[2]; gz++ {
		for gy := uint32(0); gy < sh.groups[1]; gy++ {
			for gx := uint32(0); gx < sh.groups[0]; gx++ {
				if err := sh.runGroup(epi, [3]uint32{gx, gy, gz}, int(nInv), barriers); err != nil {
					return err
				}
			}
		}
	}
	return nil
}

// scanSync reports whether code reachable from the entry point contains barriers.
func (p *Program) scanSync(epi int) bool {
	seen := map[ir.FunctionHandle]bool{}
	found := false
	var scan func(f *ir.Function)
	scan = func(f *ir.Function) {
		walkBlocks(f.Body, func(s ir.Statement) {
			switch k := s.Kind.(type) {
			case ir.StmtBarrier, ir.StmtWorkGroupUniformLoad:
				found = true
			case ir.StmtCall:
				if !seen[k.Function] && int(k.Function) < len(p.m.Functions) {
					seen[k.Function] = true
					scan(&p.m.Functions[k.Function])
				}
			}
		})
	}
	scan(&p.m.EntryPoints[epi].Function)
	return found
}

func (sh *shared) runGroup(epi int, wgid [3]uint32, nInv int, barriers bool) error {
	p := sh.p
	m := p.m
	// fresh workgroup memory
	for i, g := range m.GlobalVariables {
		if g.Space == ir.SpaceWorkGroup {
			xg := &p.globals[i]
			if xg.err != nil || xg.ty.words < 0 {
				sh.gmem[i] = nil
				continue
			}
			w := sh.mems[i].words
			if len(w) != xg.ty.words {
				w = make([]uint32, xg.ty.words)
			} else {
				clear(w)
			}
			sh.mems[i] = xmem{words: w, name: g.Name}
			sh.gmem[i] = &sh.mems[i]
		}
	}
	// mk prepares invocation idx; reuse (may be nil) is an invocation object that is no longer running.
	mk := func(idx int, reuse *inv) *inv {
		x := reuse
		if x == nil {
			x = &inv{p: p, priv: make([]*xmem, len(m.GlobalVariables))}
		}
		x.sh, x.wgid, x.lindex, x.yield, x.depth = sh, wgid, uint32(idx), nil, 0
		x.lid[0] = uint32(idx) % sh.wg[0]
		x.lid[1] = (uint32(idx) / sh.wg[0]) % sh.wg[1]
		x.lid[2] = uint32(idx) / (sh.wg[0] * sh.wg[1])
		for i, g := range m.GlobalVariables {
			if g.Space == ir.SpacePrivate {
				xg := &p.globals[i]
				if xg.err != nil || xg.ty.words < 0 {
					x.priv[i] = nil
					continue
				}
				mem := x.priv[i]
				if mem == nil || len(mem.words) != xg.ty.words {
					mem = &xmem{words: make([]uint32, xg.ty.words), name: g.Name}
					x.priv[i] = mem
				} else {
					clear(mem.words)
				}
				copy(mem.words, xg.init)
			}
		}
		return x
	}
	if nInv == 1 || !barriers {
		for i := 0; i < nInv; i++ {
			sh.seq = mk(i, sh.seq)
			if err := sh.seq.runEntry(epi); err != nil {
				return err
			}
		}
		return nil
	}
	// Barriers: every invocation is a coroutine that yields at each barrier; invocations are
	// resumed in invocation-index order, phase by phase.
	type co struct {
		next func() (struct{}, bool)
		stop func()
		done bool
		err  error
	}
	cos := make([]*co, nInv)
	for i := range cos {
		c := &co{}
		x := mk(i, nil)
		seq := iter.Seq[struct{}](func(yield func(struct{}) bool) {
			x.yield = yield
			c.err = x.runEntry(epi)
		})
		c.next, c.stop = iter.Pull(seq)
		cos[i] = c
	}
	defer func() {
		for _, c := range cos {
			c.stop()
		}
	}()
	for {
		waiting, finished := 0, 0
		for _, c := range cos {
			if c.done {
				finished++
				continue
			}
			if _, ok := c.next(); ok {
				waiting++
			} else {
				c.done = true
				finished++
				if c.err != nil {
					if _, aborted := c.err.(abortErr); !aborted {
						return c.err
					}
				}
			}
		}
		if waiting == 0 {
			return nil
		}
		if finished > 0 && waiting > 0 {
			// Some invocations ended while others wait at a barrier: only legal if the ended ones
			// finished in an earlier phase; finishing in the same phase as others wait means the
			// barrier was not reached uniformly.
			return &xrt.Trap{Kind: "barrier-nonuniform", Detail: "some invocations ended while others wait at a barrier"}
		}
	}
}

func (x *inv) step() error {
	x.sh.steps++
	if x.sh.steps > x.sh.limit {
		return &xrt.StepLimit{Steps: x.sh.limit}
	}
	return nil
}

func (x *inv) barrier() error {
	if x.yield == nil {
		return nil
	}
	if !x.yield(struct{}{}) {
		return abortErr{}
	}
	return nil
}

func (x *inv) runEntry(epi int) error {
	p := x.p
	ep := &p.m.EntryPoints[epi]
	xf := p.eps[epi]
	fr := xf.newFrame(x.sh)
	defer x.sh.release(fr)
	fr.argW = fr.argW[:0]
	fr.argP = fr.argP[:0]
	x.argBuf = x.argBuf[:0]
	for i, a := range ep.Function.Arguments {
		at := xf.args[i]
		if at.err != nil {
			return at.err
		}
		w := x.argWords(max(at.words, 0))
		if a.Binding != nil && *a.Binding != nil {
			if err := x.builtin(*a.Binding, at, w); err != nil {
				return err
			}
		} else if at.kind == xStruct {
			st, _ := p.m.Types[a.Type].Inner.(ir.StructType)
			for j, mem := range at.members {
				if j >= len(st.Members) || st.Members[j].Binding == nil {
					return &xrt.Malformed{What: "entry point argument member without binding"}
				}
				if err := x.builtin(*st.Members[j].Binding, mem.ty, w[mem.woff:mem.woff+mem.ty.words]); err != nil {
					return err
				}
			}
		} else {
			return &xrt.Malformed{What: "entry point argument without binding"}
		}
		fr.argW = append(fr.argW, w)
		fr.argP = append(fr.argP, xptr{})
	}
	s, err := x.runFrame(fr)
	_ = s
	return err
}

func (x *inv) builtin(b ir.Binding, ty *xtype, dst []uint32) error {
	bb, ok := b.(ir.BuiltinBinding)
	if !ok {
		return &xrt.Unsupported{What: "compute entry point input with @location"}
	}
	sh := x.sh
	vec3 := func(v [3]uint32) error {
		if ty.kind != xVector || ty.n != 3 || ty.sk != ir.ScalarUint {
			return &xrt.Malformed{What: fmt.Sprintf("builtin %d has type %s", bb.Builtin, ty)}
		}
		copy(dst, v[:])
		return nil
	}
	switch bb.Builtin {
	case ir.BuiltinLocalInvocationID:
		return vec3(x.lid)
	case ir.BuiltinWorkGroupID:
		return vec3(x.wgid)
	case ir.BuiltinNumWorkGroups:
		return vec3(sh.groups)
	case ir.BuiltinGlobalInvocationID:
		return vec3([3]uint32{x.wgid[0]*sh.wg[0] + x.lid[0], x.wgid[1]*sh.wg[1] + x.lid[1], x.wgid[2]*sh.wg[2] + x.lid[2]})
	case ir.BuiltinLocalInvocationIndex:
		if ty.kind != xScalar || ty.sk != ir.ScalarUint {
			return &xrt.Malformed{What: "local_invocation_index type"}
		}
		dst[0] = x.lindex
		return nil
	}
	return &xrt.Unsupported{What: fmt.Sprintf("builtin %d", bb.Builtin)}
}

// runFrame initialises the frame (argument values in fr.argW/argP are already set) and runs the body.
func (x *inv) runFrame(fr *frame) (sig, error) {
	xf := fr.fn
	if x.depth > 200 {
		return sNext, &xrt.Unsupported{What: "call depth > 200 (recursion)"}
	}
	for i := range xf.locals {
		l := &xf.locals[i]
		if l.err != nil {
			continue // reported when the variable is referenced
		}
		mem := &fr.locals[i]
		if l.init != nil {
			copy(mem.words, l.init)
		} else {
			clear(mem.words)
		}
	}
	for i := range xf.ex {
		e := &xf.ex[i]
		if !e.pre || e.err != nil {
			continue
		}
		switch k := e.k.(type) {
		case ir.ExprFunctionArgument:
			if int(k.Index) >= len(fr.argW) {
				return sNext, &xrt.Malformed{What: "missing argument"}
			}
			if e.ty.kind == xPointer {
				fr.p[i] = fr.argP[k.Index]
			} else {
				if len(fr.argW[k.Index]) != e.n {
					return sNext, &xrt.Malformed{What: "argument size mismatch"}
				}
				copy(fr.w[e.off:e.off+e.n], fr.argW[k.Index])
			}
		case ir.ExprGlobalVariable:
			g := &x.p.globals[k.Variable]
			var mem *xmem
			if x.priv != nil && x.priv[k.Variable] != nil {
				mem = x.priv[k.Variable]
			} else if x.sh != nil {
				mem = x.sh.gmem[k.Variable]
			}
			if e.ty.kind == xPointer {
				fr.p[i] = xptr{mem: mem, ty: g.ty}
			}
		case ir.ExprLocalVariable:
			fr.p[i] = xptr{mem: &fr.locals[k.Variable], ty: xf.locals[k.Variable].ty}
		}
		fr.done[i] = true
	}
	x.depth++
	s, err := x.block(fr, xf.f.Body)
	x.depth--
	return s, err
}

// ---------------------------------------------------------------------------------------------
// statements

func (x *inv) block(fr *frame, b ir.Block) (sig, error) {
	for i := range b {
		s, err := x.stmt(fr, &b[i])
		if err != nil || s != sNext {
			return s, err
		}
	}
	return sNext, nil
}

func (x *inv) boolOf(fr *frame, h ir.ExpressionHandle) (bool, error) {
	w, err := x.val(fr, h)
	if err != nil {
		return false, err
	}
	if len(w) != 1 || fr.fn.ex[h].ty.sk != ir.ScalarBool {
		return false, &xrt.Malformed{What: "condition is not a bool"}
	}
	return w[0] != 0, nil
}

func (x *inv) stmt(fr *frame, s *ir.Statement) (sig, error) {
	if err := x.step(); err != nil {
		return sNext, err
	}
	switch k := s.Kind.(type) {
	case ir.StmtEmit:
		if k.Range.Start > k.Range.End || int(k.Range.End) > len(fr.fn.ex) {
			return sNext, &xrt.Malformed{What: "emit range out of bounds"}
		}
		for h := k.Range.Start; h < k.Range.End; h++ {
			if fr.fn.ex[h].pre {
				continue
			}
			if err := x.step(); err != nil {
				return sNext, err
			}
			if err := x.eval(fr, h); err != nil {
				return sNext, err
			}
		}
		return sNext, nil
	case ir.StmtBlock:
		return x.block(fr, k.Block)
	case ir.StmtIf:
		c, err := x.boolOf(fr, k.Condition)
		if err != nil {
			return sNext, err
		}
		var sg sig
		if c {
			sg, err = x.block(fr, k.Accept)
			fr.last = edge{key: ir.PhiPredIfAccept, set: true}
		} else {
			sg, err = x.block(fr, k.Reject)
			fr.last = edge{key: ir.PhiPredIfReject, set: true}
		}
		return sg, err
	case ir.StmtSwitch:
		w, err := x.val(fr, k.Selector)
		if err != nil {
			return sNext, err
		}
		if len(w) != 1 {
			return sNext, &xrt.Malformed{What: "switch selector is not a scalar"}
		}
		sel := w[0]
		ci, def := -1, -1
		for i, c := range k.Cases {
			switch v := c.Value.(type) {
			case ir.SwitchValueI32:
				if uint32(int32(v)) == sel && ci < 0 {
					ci = i
				}
			case ir.SwitchValueU32:
				if uint32(v) == sel && ci < 0 {
					ci = i
				}
			case ir.SwitchValueDefault:
				if def < 0 {
					def = i
				}
			}
		}
		if ci < 0 {
			ci = def
		}
		if ci < 0 {
			return sNext, nil // no case and no default: nothing executes
		}
		for ; ci < len(k.Cases); ci++ {
			sg, err := x.block(fr, k.Cases[ci].Body)
			fr.last = edge{key: ir.PhiPredSwitchCase, idx: uint32(ci), set: true}
			if err != nil {
				return sNext, err
			}
			switch sg {
			case sBreak:
				return sNext, nil
			case sNext:
				if k.Cases[ci].FallThrough {
					continue
				}
				return sNext, nil
			default:
				return sg, nil
			}
		}
		return sNext, nil
	case ir.StmtLoop:
		first := true
		for {
			if err := x.step(); err != nil {
				return sNext, err
			}
			if first {
				fr.last = edge{key: ir.PhiPredLoopInit, set: true}
				first = false
			} else {
				fr.last = edge{key: ir.PhiPredLoopBackEdge, set: true}
			}
			sg, err := x.block(fr, k.Body)
			if err != nil {
				return sNext, err
			}
			switch sg {
			case sBreak:
				return sNext, nil
			case sReturn, sKill:
				return sg, nil
			}
			sg, err = x.block(fr, k.Continuing)
			if err != nil {
				return sNext, err
			}
			switch sg {
			case sBreak:
				return sNext, nil
			case sReturn, sKill:
				return sg, nil
			case sContinue:
				return sNext, &xrt.Malformed{What: "continue inside continuing block"}
			}
			if k.BreakIf != nil {
				c, err := x.boolOf(fr, *k.BreakIf)
				if err != nil {
					return sNext, err
				}
				if c {
					return sNext, nil
				}
			}
		}
	case ir.StmtBreak:
		return sBreak, nil
	case ir.StmtContinue:
		return sContinue, nil
	case ir.StmtReturn:
		if k.Value != nil {
			w, err := x.val(fr, *k.Value)
			if err != nil {
				return sNext, err
			}
			x.ret = append(x.ret[:0], w...)
		} else {
			x.ret = x.ret[:0]
		}
		return sReturn, nil
	case ir.StmtKill:
		return sKill, nil
	case ir.StmtBarrier:
		if k.Flags&ir.BarrierSubGroup != 0 {
			return sNext, &xrt.Unsupported{What: "subgroup barrier"}
		}
		return sNext, x.barrier()
	case ir.StmtStore:
		p, err := x.ptr(fr, k.Pointer)
		if err != nil {
			return sNext, err
		}
		w, err := x.val(fr, k.Value)
		if err != nil {
			return sNext, err
		}
		return sNext, x.sh.mc.store(p, w)
	case ir.StmtCall:
		return sNext, x.call(fr, k)
	case ir.StmtAtomic:
		return sNext, x.atomic(fr, k)
	case ir.StmtWorkGroupUniformLoad:
		if err := x.barrier(); err != nil {
			return sNext, err
		}
		p, err := x.ptr(fr, k.Pointer)
		if err != nil {
			return sNext, err
		}
		if int(k.Result) >= len(fr.fn.ex) {
			return sNext, &xrt.Malformed{What: "result out of range"}
		}
		e := &fr.fn.ex[k.Result]
		if e.err != nil {
			return sNext, e.err
		}
		if p.ty == nil || p.ty.words != e.n {
			return sNext, &xrt.Malformed{What: "workgroupUniformLoad result size"}
		}
		if err := x.sh.mc.load(p, fr.w[e.off:e.off+e.n]); err != nil {
			return sNext, err
		}
		fr.done[k.Result] = true
		return sNext, x.barrier()
	case nil:
		return sNext, &xrt.Malformed{What: "nil statement"}
	}
	return sNext, &xrt.Unsupported{What: fmt.Sprintf("statement %T", s.Kind)}
}

func (x *inv) call(fr *frame, k ir.StmtCall) error {
	p := x.p
	if int(k.Function) >= len(p.funcs) {
		return &xrt.Malformed{What: "call of unknown function"}
	}
	callee := p.funcs[k.Function]
	if len(k.Arguments) != len(callee.args) {
		return &xrt.Malformed{What: "call argument count"}
	}
	nf := callee.newFrame(x.sh)
	defer x.sh.release(nf)
	nf.argW = nf.argW[:0]
	nf.argP = nf.argP[:0]
	for i, a := range k.Arguments {
		at := callee.args[i]
		if at.err != nil {
			return at.err
		}
		if int(a) >= len(fr.fn.ex) {
			return &xrt.Malformed{What: "argument out of range"}
		}
		if at.kind == xPointer {
			ap, err := x.ptr(fr, a)
			if err != nil {
				return err
			}
			nf.argP = append(nf.argP, ap)
			nf.argW = append(nf.argW, nil)
			continue
		}
		w, err := x.val(fr, a)
		if err != nil {
			return err
		}
		if len(w) != at.words {
			return &xrt.Malformed{What: "argument type mismatch"}
		}
		nf.argW = append(nf.argW, w)
		nf.argP = append(nf.argP, xptr{})
	}
	sg, err := x.runFrame(nf)
	if err != nil {
		return err
	}
	if sg == sKill {
		return &xrt.Unsupported{What: "discard in a called function"}
	}
	if callee.result != nil {
		if k.Result == nil {
			return nil
		}
		if int(*k.Result) >= len(fr.fn.ex) {
			return &xrt.Malformed{What: "call result out of range"}
		}
		e := &fr.fn.ex[*k.Result]
		if e.err != nil {
			return e.err
		}
		if sg != sReturn || len(x.ret) != e.n {
			return &xrt.Malformed{What: fmt.Sprintf("function %s ended without returning a value of the result type", callee.name)}
		}
		copy(fr.w[e.off:e.off+e.n], x.ret)
		fr.done[*k.Result] = true
	} else if k.Result != nil {
		return &xrt.Malformed{What: "result expression for a call of a function without result"}
	}
	return nil
}

func (x *inv) atomic(fr *frame, k ir.StmtAtomic) error {
	p, err := x.ptr(fr, k.Pointer)
	if err != nil {
		return err
	}
	if p.ty == nil || p.ty.kind != xAtomic {
		return &xrt.Malformed{What: "atomic statement on non-atomic"}
	}
	signed := p.ty.sk == ir.ScalarSint
	var cur [1]uint32
	if err := x.sh.mc.load(p, cur[:]); err != nil {
		return err
	}
	old := cur[0]
	var v uint32
	if _, isLoad := k.Fun.(ir.AtomicLoad); !isLoad {
		w, err := x.val(fr, k.Value)
		if err != nil {
			return err
		}
		if len(w) != 1 {
			return &xrt.Malformed{What: "atomic value is not a scalar"}
		}
		v = w[0]
	}
	nv := old
	write := true
	exchanged := false
	comparison := false
	switch f := k.Fun.(type) {
	case ir.AtomicAdd:
		nv = old + v
	case ir.AtomicSubtract:
		nv = old - v
	case ir.AtomicAnd:
		nv = old & v
	case ir.AtomicExclusiveOr:
		nv = old ^ v
	case ir.AtomicInclusiveOr:
		nv = old | v
	case ir.AtomicMin:
		if signed {
			nv = uint32(min(int32(old), int32(v)))
		} else {
			nv = min(old, v)
		}
	case ir.AtomicMax:
		if signed {
			nv = uint32(max(int32(old), int32(v)))
		} else {
			nv = max(old, v)
		}
	case ir.AtomicExchange:
		if f.Compare != nil {
			comparison = true
			cw, err := x.val(fr, *f.Compare)
			if err != nil {
				return err
			}
			if len(cw) != 1 {
				return &xrt.Malformed{What: "atomic compare is not a scalar"}
			}
			if old == cw[0] {
				nv, exchanged = v, true
			} else {
				write = false
			}
		} else {
			nv = v
		}
	case ir.AtomicStore:
		nv = v
	case ir.AtomicLoad:
		write = false
	default:
		return &xrt.Unsupported{What: fmt.Sprintf("atomic function %T", k.Fun)}
	}
	if write {
		cur[0] = nv
		if err := x.sh.mc.store(p, cur[:]); err != nil {
			return err
		}
	}
	if k.Result == nil {
		return nil
	}
	if int(*k.Result) >= len(fr.fn.ex) {
		return &xrt.Malformed{What: "atomic result out of range"}
	}
	e := &fr.fn.ex[*k.Result]
	if e.err != nil {
		return e.err
	}
	dst := fr.w[e.off : e.off+e.n]
	if comparison {
		if e.n != 2 {
			return &xrt.Malformed{What: "compare-exchange result type"}
		}
		dst[0], dst[1] = old, b2w(exchanged)
	} else {
		if e.n != 1 {
			return &xrt.Malformed{What: "atomic result type"}
		}
		dst[0] = old
	}
	fr.done[*k.Result] = true
	return nil
}
