// Package nagax is the thin adapter between the checks and gogpu/naga's public API: panic-safe
// wrappers and deviation-bounded option-set enumeration. It contains no oracle logic.
package nagax

import (
	"fmt"
	"runtime/debug"

	"github.com/gogpu/naga"
	"github.com/gogpu/naga/dxil"
	"github.com/gogpu/naga/glsl"
	"github.com/gogpu/naga/hlsl"
	"github.com/gogpu/naga/ir"
	"github.com/gogpu/naga/msl"
	"github.com/gogpu/naga/spirv"
)

// Panic describes a recovered panic inside naga.
type Panic struct {
	Value string
	Stack string
}

func (p *Panic) Error() string { return "panic: " + p.Value }

func guard(pp **Panic) {
	if r := recover(); r != nil {
		*pp = &Panic{Value: fmt.Sprint(r), Stack: string(debug.Stack())}
	}
}

// Front parses and lowers. stage is "parse" or "lower" when err != nil.
func Front(src string) (m *ir.Module, stage string, err error, pn *Panic) {
	defer guard(&pn)
	ast, e := naga.Parse(src)
	if e != nil {
		return nil, "parse", e, nil
	}
	mod, e := naga.LowerWithSource(ast, src)
	if e != nil {
		return nil, "lower", e, nil
	}
	return mod, "", nil, nil
}

// Validate runs naga's validator.
func Validate(m *ir.Module) (errs []ir.ValidationError, err error, pn *Panic) {
	defer guard(&pn)
	errs, err = naga.Validate(m)
	return
}

func CompileDefault(src string) (b []byte, err error, pn *Panic) {
	defer guard(&pn)
	b, err = naga.Compile(src)
	return
}

// ---------------------------------------------------------------- SPIR-V

type SPIRVConfig struct {
	Label string
	Dev   int // number of deviations from the default
	Opts  spirv.Options
}

func SPIRV(m *ir.Module, o spirv.Options) (b []byte, err error, pn *Panic) {
	defer guard(&pn)
	b, err = naga.GenerateSPIRV(m, o)
	return
}

type dev[T any] struct {
	label string
	apply func(*T)
}

func enumerate[T any](base T, baseLabel string, devs [][]dev[T], d int) []struct {
	Label string
	Dev   int
	O     T
} {
	type item = struct {
		Label string
		Dev   int
		O     T
	}
	out := []item{{baseLabel, 0, base}}
	if d >= 1 {
		for _, field := range devs {
			for _, a := range field {
				o := base
				a.apply(&o)
				out = append(out, item{a.label, 1, o})
			}
		}
	}
	if d >= 2 {
		for i := 0; i < len(devs); i++ {
			for j := i + 1; j < len(devs); j++ {
				for _, a := range devs[i] {
					for _, b := range devs[j] {
						o := base
						a.apply(&o)
						b.apply(&o)
						out = append(out, item{a.label + "+" + b.label, 2, o})
					}
				}
			}
		}
	}
	return out
}

// SPIRVConfigs enumerates option sets within d deviations of spirv.DefaultOptions().
func SPIRVConfigs(d int) []SPIRVConfig {
	base := spirv.DefaultOptions()
	var vers []dev[spirv.Options]
	for _, v := range []spirv.Version{spirv.Version1_0, spirv.Version1_2, spirv.Version1_3, spirv.Version1_4, spirv.Version1_5, spirv.Version1_6} {
		v := v
		vers = append(vers, dev[spirv.Options]{fmt.Sprintf("v%d.%d", v.Major, v.Minor), func(o *spirv.Options) { o.Version = v }})
	}
	devs := [][]dev[spirv.Options]{
		vers,
		{{"debug", func(o *spirv.Options) { o.Debug = true }}},
		{{"noloopbound", func(o *spirv.Options) { o.ForceLoopBounding = false }}},
		{{"noio16", func(o *spirv.Options) { o.UseStorageInputOutput16 = false }}},
		{{"pointsize", func(o *spirv.Options) { o.ForcePointSize = true }}},
		{{"adjustcoord", func(o *spirv.Options) { o.AdjustCoordinateSpace = true }}},
	}
	var out []SPIRVConfig
	for _, it := range enumerate(base, "default", devs, d) {
		out = append(out, SPIRVConfig{it.Label, it.Dev, it.O})
	}
	return out
}

// ---------------------------------------------------------------- HLSL

type HLSLConfig struct {
	Label string
	Dev   int
	Opts  hlsl.Options
}

func HLSL(m *ir.Module, o hlsl.Options) (s string, info any, err error, pn *Panic) {
	defer guard(&pn)
	oo := o
	if o.BindingMap != nil {
		oo.BindingMap = map[hlsl.ResourceBinding]hlsl.BindTarget{}
		for k, v := range o.BindingMap {
			oo.BindingMap[k] = v
		}
	}
	s, i, e := hlsl.Compile(m, &oo)
	return s, i, e, nil
}

func HLSLConfigs(d int) []HLSLConfig {
	base := *hlsl.DefaultOptions()
	var sms []dev[hlsl.Options]
	for _, v := range []struct {
		n string
		v hlsl.ShaderModel
	}{{"sm5.0", hlsl.ShaderModel5_0}, {"sm6.0", hlsl.ShaderModel6_0}, {"sm6.2", hlsl.ShaderModel6_2}, {"sm6.6", hlsl.ShaderModel6_6}} {
		v := v
		sms = append(sms, dev[hlsl.Options]{v.n, func(o *hlsl.Options) { o.ShaderModel = v.v }})
	}
	devs := [][]dev[hlsl.Options]{
		sms,
		{{"norestrict", func(o *hlsl.Options) { o.RestrictIndexing = false }}},
		{{"noloopbound", func(o *hlsl.Options) { o.ForceLoopBounding = false }}},
		{{"nozeroinit", func(o *hlsl.Options) { o.ZeroInitializeWorkgroupMemory = false }}},
	}
	var out []HLSLConfig
	for _, it := range enumerate(base, "default", devs, d) {
		out = append(out, HLSLConfig{it.Label, it.Dev, it.O})
	}
	return out
}

// ---------------------------------------------------------------- MSL

type MSLConfig struct {
	Label string
	Dev   int
	Opts  msl.Options
}

func MSL(m *ir.Module, o msl.Options) (s string, info msl.TranslationInfo, err error, pn *Panic) {
	defer guard(&pn)
	s, info, err = msl.Compile(m, o)
	return
}

func MSLConfigs(d int) []MSLConfig {
	base := msl.DefaultOptions()
	base.FakeMissingBindings = true
	var vers []dev[msl.Options]
	for _, v := range []msl.Version{msl.Version1_2, msl.Version2_0, msl.Version2_4, msl.Version3_1} {
		v := v
		vers = append(vers, dev[msl.Options]{fmt.Sprintf("msl%d.%d", v.Major, v.Minor), func(o *msl.Options) { o.LangVersion = v }})
	}
	devs := [][]dev[msl.Options]{
		vers,
		{
			{"idx=restrict", func(o *msl.Options) { o.BoundsCheckPolicies.Index = msl.BoundsCheckRestrict }},
			{"idx=rzsw", func(o *msl.Options) { o.BoundsCheckPolicies.Index = msl.BoundsCheckReadZeroSkipWrite }},
			{"idx=unchecked", func(o *msl.Options) { o.BoundsCheckPolicies.Index = msl.BoundsCheckUnchecked }},
		},
		{
			{"buf=restrict", func(o *msl.Options) { o.BoundsCheckPolicies.Buffer = msl.BoundsCheckRestrict }},
			{"buf=rzsw", func(o *msl.Options) { o.BoundsCheckPolicies.Buffer = msl.BoundsCheckReadZeroSkipWrite }},
			{"buf=unchecked", func(o *msl.Options) { o.BoundsCheckPolicies.Buffer = msl.BoundsCheckUnchecked }},
		},
		{{"noloopbound", func(o *msl.Options) { o.ForceLoopBounding = false }}},
		{{"nozeroinit", func(o *msl.Options) { o.ZeroInitializeWorkgroupMemory = false }}},
	}
	var out []MSLConfig
	def := base.BoundsCheckPolicies
	for _, it := range enumerate(base, "default", devs, d) {
		// drop "deviations" that equal the default
		if it.Dev > 0 && it.O.BoundsCheckPolicies == def && (contains(it.Label, "idx=") || contains(it.Label, "buf=")) {
			continue
		}
		out = append(out, MSLConfig{it.Label, it.Dev, it.O})
	}
	return out
}

func contains(s, sub string) bool {
	for i := 0; i+len(sub) <= len(s); i++ {
		if s[i:i+len(sub)] == sub {
			return true
		}
	}
	return false
}

// ---------------------------------------------------------------- GLSL

type GLSLConfig struct {
	Label string
	Dev   int
	Opts  glsl.Options
}

func GLSL(m *ir.Module, o glsl.Options) (s string, info glsl.TranslationInfo, err error, pn *Panic) {
	defer guard(&pn)
	s, info, err = glsl.Compile(m, o)
	return
}

// GLSLConfigs: the base is 4.50 core (the default 3.30 cannot express storage buffers).
func GLSLConfigs(d int) []GLSLConfig {
	base := glsl.DefaultOptions()
	base.LangVersion = glsl.Version450
	var vers []dev[glsl.Options]
	for _, v := range []struct {
		n string
		v glsl.Version
	}{{"430", glsl.Version430}, {"460", glsl.Version460}, {"es310", glsl.Version{Major: 3, Minor: 10, ES: true}}, {"es320", glsl.Version{Major: 3, Minor: 20, ES: true}}} {
		v := v
		vers = append(vers, dev[glsl.Options]{v.n, func(o *glsl.Options) { o.LangVersion = v.v }})
	}
	devs := [][]dev[glsl.Options]{
		vers,
		{{"explicit", func(o *glsl.Options) { o.WriterFlags |= glsl.WriterFlagExplicitTypes }},
			{"dbg", func(o *glsl.Options) { o.WriterFlags |= glsl.WriterFlagDebugInfo }}},
		{{"nohighp", func(o *glsl.Options) { o.ForceHighPrecision = false }}},
	}
	var out []GLSLConfig
	for _, it := range enumerate(base, "450", devs, d) {
		out = append(out, GLSLConfig{it.Label, it.Dev, it.O})
	}
	return out
}

// ---------------------------------------------------------------- DXIL

func DXIL(m *ir.Module, o dxil.Options) (b []byte, err error, pn *Panic) {
	defer guard(&pn)
	b, err = dxil.Compile(m, o)
	return
}
