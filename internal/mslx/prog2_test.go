package mslx

import "testing"

// Group 2: control flow, helper functions, pointer parameters, private globals, shadowing.
var progsGroup2 = []confProg{
	{name: "if_else_chain", wgsl: `
@group(0) @binding(0) var<storage, read> a: array<i32, 4>;
@group(0) @binding(1) var<storage, read_write> o: array<i32, 4>;
fn classify(x: i32) -> i32 {
  if x < 0 { return -1; } else if x == 0 { return 0; } else if x < 10 { return 1; } else { return 2; }
}
@compute @workgroup_size(1) fn main() {
  for (var i = 0u; i < 4u; i++) { o[i] = classify(a[i]); }
}`,
		in:   map[B][]byte{b0(0): bs(-5, 0, 7, 100), b0(1): zeros(16)},
		want: map[B][]any{b0(1): {-1, 0, 1, 2}}},

	{name: "switch_grouped_default_middle", wgsl: `
@group(0) @binding(0) var<storage, read> a: array<i32, 6>;
@group(0) @binding(1) var<storage, read_write> o: array<i32, 6>;
fn sw(x: i32) -> i32 {
  var r = 0;
  switch x {
    case 1, 2: { r = 10; }
    default: { r = 99; }
    case 3: { r = 30; }
    case -1: { r = -10; }
  }
  return r;
}
@compute @workgroup_size(1) fn main() {
  for (var i = 0u; i < 6u; i++) { o[i] = sw(a[i]); }
}`,
		in:   map[B][]byte{b0(0): bs(1, 2, 3, -1, 0, 7), b0(1): zeros(24)},
		want: map[B][]any{b0(1): {10, 10, 30, -10, 99, 99}}},

	{name: "switch_u32_default_first_returns", wgsl: `
@group(0) @binding(0) var<storage, read> a: array<u32, 4>;
@group(0) @binding(1) var<storage, read_write> o: array<u32, 4>;
fn su(x: u32) -> u32 {
  switch x { default: { return 7u; } case 0u: { return 1u; } case 4294967295u, 5u: { return 2u; } }
}
@compute @workgroup_size(1) fn main() {
  for (var i = 0u; i < 4u; i++) { o[i] = su(a[i]); }
}`,
		in:   map[B][]byte{b0(0): bs(uint32(0), uint32(5), uint32(0xFFFFFFFF), uint32(9)), b0(1): zeros(16)},
		want: map[B][]any{b0(1): {uint32(1), uint32(2), uint32(2), uint32(7)}}},

	{name: "loop_continuing_break_if", wgsl: `
@group(0) @binding(0) var<storage, read_write> o: array<i32, 2>;
@compute @workgroup_size(1) fn main() {
  var i = 0; var s = 0;
  loop {
    if i == 2 { continue; }
    s += i;
    continuing { i++; break if i >= 5; }
  }
  o[0] = s; o[1] = i;
}`,
		in:   map[B][]byte{b0(0): zeros(8)},
		want: map[B][]any{b0(0): {8, 5}}},

	{name: "for_break_continue_nested", wgsl: `
@group(0) @binding(0) var<storage, read_write> o: array<u32, 2>;
@compute @workgroup_size(1) fn main() {
  var s = 0u;
  for (var i = 0u; i < 10u; i++) { if i % 2u == 0u { continue; } if i > 7u { break; } s += i; }
  var c = 0u;
  for (var i = 0u; i < 3u; i++) { for (var j = 0u; j < 3u; j++) { if j > i { break; } c += 10u * i + j; } }
  o[0] = s; o[1] = c;
}`,
		in:   map[B][]byte{b0(0): zeros(8)},
		want: map[B][]any{b0(0): {uint32(16), uint32(84)}}},

	{name: "while_collatz", wgsl: `
@group(0) @binding(0) var<storage, read> a: array<u32, 2>;
@group(0) @binding(1) var<storage, read_write> o: array<u32, 2>;
fn collatz(n0: u32) -> u32 {
  var n = n0; var steps = 0u;
  while n != 1u { if n % 2u == 0u { n = n / 2u; } else { n = 3u * n + 1u; } steps++; }
  return steps;
}
@compute @workgroup_size(1) fn main() { o[0] = collatz(a[0]); o[1] = collatz(a[1]); }`,
		in:   map[B][]byte{b0(0): bs(uint32(6), uint32(1)), b0(1): zeros(8)},
		want: map[B][]any{b0(1): {uint32(8), uint32(0)}}},

	{name: "early_return_nested_loops", wgsl: `
@group(0) @binding(0) var<storage, read> a: array<i32, 4>;
@group(0) @binding(1) var<storage, read_write> o: array<i32, 4>;
fn find(x: i32) -> i32 {
  for (var i = 0; i < 4; i++) {
    for (var j = 0; j < 4; j++) {
      if i * 4 + j == x { return i * 10 + j; }
    }
  }
  return -1;
}
@compute @workgroup_size(1) fn main() { for (var k = 0u; k < 4u; k++) { o[k] = find(a[k]); } }`,
		in:   map[B][]byte{b0(0): bs(6, 15, 16, 0), b0(1): zeros(16)},
		want: map[B][]any{b0(1): {12, 33, -1, 0}}},

	{name: "pointer_params_function_private", wgsl: `
var<private> g: i32 = 3;
var<private> garr: array<i32, 3>;
@group(0) @binding(0) var<storage, read_write> o: array<i32, 8>;
fn bump(p: ptr<function, i32>, d: i32) -> i32 { let old = *p; *p = *p + d; return old; }
fn bump_priv(p: ptr<private, i32>) { *p = *p * 2; }
fn fill(p: ptr<private, array<i32, 3>>, v: i32) { (*p)[0] = v; (*p)[2] = v + 2; }
fn setv(p: ptr<function, vec3<i32>>) { (*p).y = 7; (*p)[2] = 8; }
@compute @workgroup_size(1) fn main() {
  var x = 10; let r = bump(&x, 5);
  bump_priv(&g);
  fill(&garr, 4);
  var v = vec3<i32>(1, 2, 3); setv(&v);
  o[0] = r; o[1] = x; o[2] = g; o[3] = garr[0]; o[4] = garr[1]; o[5] = garr[2]; o[6] = v.x + v.y + v.z; o[7] = v.z;
}`,
		in:   map[B][]byte{b0(0): zeros(32)},
		want: map[B][]any{b0(0): {10, 15, 6, 4, 0, 6, 16, 8}}},

	{name: "private_globals_and_shadowing", wgsl: `
var<private> counter: u32 = 5u;
const C = 3u;
@group(0) @binding(0) var<storage, read_write> o: array<u32, 5>;
fn inc() -> u32 { counter += C; return counter; }
@compute @workgroup_size(1) fn main() {
  let a = inc();
  var counter2 = counter;
  { let counter2 = 100u; o[2] = counter2; }
  o[0] = a; o[1] = counter2;
  let b = inc() + inc();
  o[3] = b; o[4] = counter;
}`,
		in:   map[B][]byte{b0(0): zeros(20)},
		want: map[B][]any{b0(0): {uint32(8), uint32(8), uint32(100), uint32(25), uint32(14)}}},

	{name: "struct_param_and_return", wgsl: `
struct P { a: i32, b: vec2<f32> }
@group(0) @binding(0) var<storage, read> a: i32;
@group(0) @binding(1) var<storage, read_write> o: array<f32, 2>;
fn mk(x: i32) -> P { var p: P; p.a = x * 2; p.b = vec2<f32>(f32(x), 0.5); return p; }
fn sum(p: P) -> f32 { return f32(p.a) + p.b.x + p.b.y; }
@compute @workgroup_size(1) fn main() {
  o[0] = sum(mk(a));
  let q = mk(-a + 2); o[1] = q.b.x;
}`,
		in:   map[B][]byte{b0(0): bs(3), b0(1): zeros(8)},
		want: map[B][]any{b0(1): {9.5, -1.0}}},

	{name: "switch_in_loop_continue_break", wgsl: `
@group(0) @binding(0) var<storage, read_write> o: array<i32, 2>;
fn f(n: i32) -> i32 {
  var i = 0;
  loop {
    switch i { case 3: { return i * n; } default: {} }
    i++;
    if i > 10 { break; }
  }
  return -1;
}
@compute @workgroup_size(1) fn main() {
  var s = 0;
  for (var i = 0; i < 6; i++) {
    switch i { case 1, 3: { continue; } case 4: { break; } default: { s += i; } }
    s += 100;
  }
  o[0] = s; o[1] = f(5);
}`,
		in:   map[B][]byte{b0(0): zeros(8)},
		want: map[B][]any{b0(0): {407, 15}}},

	{name: "nested_loop_break_if", wgsl: `
@group(0) @binding(0) var<storage, read_write> o: array<u32, 2>;
@compute @workgroup_size(1) fn main() {
  var acc = 0u; var i = 0u;
  loop {
    var j = 0u;
    loop { acc += 1u; continuing { j++; break if j > i; } }
    continuing { i++; break if i == 4u; }
  }
  o[0] = acc; o[1] = i;
}`,
		in:   map[B][]byte{b0(0): zeros(8)},
		want: map[B][]any{b0(0): {uint32(10), uint32(4)}}},

	{name: "nested_block_shadowing", wgsl: `
@group(0) @binding(0) var<storage, read_write> o: array<i32, 4>;
@compute @workgroup_size(1) fn main() {
  var x = 1;
  { var x = 2; { var x = 3; o[0] = x; } o[1] = x; x = 20; o[2] = x; }
  o[3] = x;
}`,
		in:   map[B][]byte{b0(0): zeros(16)},
		want: map[B][]any{b0(0): {3, 2, 20, 1}}},

	{name: "evaluation_order_side_effects", wgsl: `
var<private> t: i32 = 0;
@group(0) @binding(0) var<storage, read_write> o: array<i32, 4>;
fn tick(v: i32) -> i32 { t = t * 10 + v; return v; }
@compute @workgroup_size(1) fn main() {
  let r = tick(1) + tick(2) * tick(3);
  o[0] = r; o[1] = t;
  let z = select(tick(4), tick(5), tick(6) > 0);
  o[2] = z; o[3] = t;
}`,
		in:   map[B][]byte{b0(0): zeros(16)},
		want: map[B][]any{b0(0): {7, 123, 5, 123456}}},

	{name: "void_early_return_and_unused_let", wgsl: `
@group(0) @binding(0) var<storage, read> a: array<i32, 2>;
@group(0) @binding(1) var<storage, read_write> o: array<i32, 3>;
fn store_if(i: u32, v: i32) { if v < 0 { return; } o[i] = v; let unused = v * 2; }
@compute @workgroup_size(1) fn main() {
  store_if(0u, a[0]); store_if(1u, a[1]);
  if a[0] > 0 { o[2] = 1; return; }
  o[2] = 2;
}`,
		in:   map[B][]byte{b0(0): bs(4, -4), b0(1): bs(50, 51, 52)},
		want: map[B][]any{b0(1): {4, 51, 1}}},
}

func TestConformanceGroup2(t *testing.T) {
	for _, cp := range progsGroup2 {
		cp := cp
		t.Run(cp.name, func(t *testing.T) { runConf(t, cp) })
	}
}
