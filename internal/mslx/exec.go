package mslx

import (
	"encoding/binary"
	"fmt"
	"math"

	"verif/internal/xrt"
)

type frame struct {
	mem  Mem
	refs []Ref
}

type ctl uint8

const (
	ctlNone ctl = iota
	ctlBreak
	ctlContinue
	ctlReturn
)

// exec is the state of one invocation (thread).
type exec struct {
	prog        *Program
	steps       int64 // remaining budget (shared through *sh when running a workgroup)
	sh          *shared
	fr          *frame
	gmem        *Mem
	wg          *Mem
	ph          []Value
	depth       int
	retv        Value
	poison      bool
	strictShift bool
	inv         *invocation
	scratch     [1]cell
}

type shared struct {
	steps int64
	limit int64
	trace *[]xrt.Access
}

func trap(kind, format string, a ...any) {
	panic(&xrt.Trap{Kind: kind, Detail: fmt.Sprintf(format, a...)})
}

func (x *exec) step(line int) {
	if x.sh != nil {
		x.sh.steps--
		if x.sh.steps < 0 {
			panic(&xrt.StepLimit{Steps: x.sh.limit})
		}
		return
	}
	x.steps--
	if x.steps < 0 {
		panic(&xrt.StepLimit{Steps: 0})
	}
}

// ---------------------------------------------------------------- values

func (v *Value) cells(n int) []cell {
	if n <= 4 {
		return v.a[:n]
	}
	return v.x
}

func mkValue(n int) Value {
	var v Value
	if n > 4 {
		v.x = make([]cell, n)
	}
	return v
}

func chk(c cell, line int) uint32 {
	if c&poisonBit != 0 {
		trap("poison", "line %d: use of an uninitialised value", line)
	}
	return uint32(c)
}

func f32(c uint32) float32   { return math.Float32frombits(c) }
func fbits(f float32) uint32 { return math.Float32bits(f) }
func fcell(f float32) cell   { return cell(math.Float32bits(f)) }
func boolCell(b bool) cell {
	if b {
		return 1
	}
	return 0
}

// ---------------------------------------------------------------- memory access

func (x *exec) access(m *Mem, off, n int, write bool, line int) {
	if off < 0 || off+n > len(m.bytes) || off+n < off {
		kind := "oob-read"
		if write {
			kind = "oob-write"
		}
		trap(kind, "line %d: access of %d bytes at offset %d of buffer %s (%d bytes)", line, n, off, m.bind, len(m.bytes))
	}
	if write && m.ro {
		panic(&xrt.Malformed{What: fmt.Sprintf("line %d: write to read-only buffer %s", line, m.bind)})
	}
	if x.sh != nil && x.sh.trace != nil {
		*x.sh.trace = append(*x.sh.trace, xrt.Access{B: m.bind, Off: off, Len: n, Write: write})
	}
}

func loadScalarBytes(b []byte, t *Type) cell {
	switch t.Kind {
	case KBool:
		return boolCell(b[0] != 0)
	case KChar:
		return cell(uint32(int32(int8(b[0]))))
	case KUChar:
		return cell(b[0])
	case KShort:
		return cell(uint32(int32(int16(binary.LittleEndian.Uint16(b)))))
	case KUShort, KHalf:
		return cell(binary.LittleEndian.Uint16(b))
	}
	return cell(binary.LittleEndian.Uint32(b))
}

func storeScalarBytes(b []byte, t *Type, c cell) {
	switch t.Size {
	case 1:
		b[0] = byte(c)
	case 2:
		binary.LittleEndian.PutUint16(b, uint16(c))
	default:
		binary.LittleEndian.PutUint32(b, uint32(c))
	}
}

func (x *exec) loadBytes(m *Mem, off int, t *Type, dst []cell, line int) {
	switch t.Kind {
	case KVec, KPackedVec:
		es := t.Elem.Size
		x.access(m, off, es*t.N, false, line)
		for i := 0; i < t.N; i++ {
			dst[i] = loadScalarBytes(m.bytes[off+i*es:], t.Elem)
		}
	case KMat:
		for c := 0; c < t.N; c++ {
			x.loadBytes(m, off+c*t.Elem.Size, t.Elem, dst[c*t.Rows:(c+1)*t.Rows], line)
		}
	case KArray:
		if t.Elem.Kind == KChar || t.Elem.Kind == KUChar {
			x.access(m, off, t.N, false, line)
			for i := 0; i < t.N; i++ {
				dst[i] = loadScalarBytes(m.bytes[off+i:], t.Elem)
			}
			return
		}
		ec := t.Elem.Cells
		for i := 0; i < t.N; i++ {
			x.loadBytes(m, off+i*t.Elem.Size, t.Elem, dst[i*ec:(i+1)*ec], line)
		}
	case KStruct:
		for i := range t.Fields {
			f := &t.Fields[i]
			x.loadBytes(m, off+f.Off, f.T, dst[f.cellOff:f.cellOff+f.T.Cells], line)
		}
	case KAtomic:
		x.access(m, off, 4, false, line)
		dst[0] = cell(binary.LittleEndian.Uint32(m.bytes[off:]))
	default:
		x.access(m, off, t.Size, false, line)
		dst[0] = loadScalarBytes(m.bytes[off:], t)
	}
}

func (x *exec) storeBytes(m *Mem, off int, t *Type, src []cell, line int) {
	switch t.Kind {
	case KVec, KPackedVec:
		es := t.Elem.Size
		x.access(m, off, es*t.N, true, line)
		for i := 0; i < t.N; i++ {
			chk(src[i], line)
			storeScalarBytes(m.bytes[off+i*es:], t.Elem, src[i])
		}
	case KMat:
		for c := 0; c < t.N; c++ {
			x.storeBytes(m, off+c*t.Elem.Size, t.Elem, src[c*t.Rows:(c+1)*t.Rows], line)
		}
	case KArray:
		if t.Elem.Kind == KChar || t.Elem.Kind == KUChar {
			x.access(m, off, t.N, true, line)
			for i := 0; i < t.N; i++ {
				// padding bytes: poison is not observable through them; store zero for poison
				m.bytes[off+i] = byte(src[i])
			}
			return
		}
		ec := t.Elem.Cells
		for i := 0; i < t.N; i++ {
			x.storeBytes(m, off+i*t.Elem.Size, t.Elem, src[i*ec:(i+1)*ec], line)
		}
	case KStruct:
		for i := range t.Fields {
			f := &t.Fields[i]
			x.storeBytes(m, off+f.Off, f.T, src[f.cellOff:f.cellOff+f.T.Cells], line)
		}
	default:
		x.access(m, off, t.Size, true, line)
		chk(src[0], line)
		storeScalarBytes(m.bytes[off:], t, src[0])
	}
}

func (x *exec) load(r Ref, t *Type, line int) Value {
	n := t.Cells
	v := mkValue(n)
	dst := v.cells(n)
	if r.m == nil {
		trap("poison", "line %d: access through an unbound reference", line)
	}
	if !r.m.isBuf {
		copy(dst, r.m.cells[r.off:r.off+n])
		return v
	}
	x.loadBytes(r.m, r.off, t, dst, line)
	return v
}

func (x *exec) store(r Ref, t *Type, v *Value, line int) {
	n := t.Cells
	if r.m == nil {
		trap("poison", "line %d: access through an unbound reference", line)
	}
	if !r.m.isBuf {
		if r.m.ro {
			panic(&xrt.Malformed{What: fmt.Sprintf("line %d: write to constant memory", line)})
		}
		copy(r.m.cells[r.off:r.off+n], v.cells(n))
		return
	}
	x.storeBytes(r.m, r.off, t, v.cells(n), line)
}

// ---------------------------------------------------------------- lvalues

func (x *exec) indexValue(e *Expr) int64 {
	v := x.eval(e)
	u := chk(v.a[0], e.line)
	if e.t.Kind == KUInt {
		return int64(u)
	}
	return int64(int32(u))
}

func oobKind(write bool) string {
	if write {
		return "oob-write"
	}
	return "oob-read"
}

func (x *exec) ref(e *Expr, write bool) Ref {
	switch e.op {
	case xLocal:
		return Ref{&x.fr.mem, e.slot}
	case xLocalRef:
		r := x.fr.refs[e.slot]
		if r.m == nil {
			trap("poison", "line %d: use of an unbound reference", e.line)
		}
		return r
	case xGlobal:
		return Ref{x.gmem, e.slot}
	case xTG:
		return Ref{x.wg, e.slot}
	case xField:
		r := x.ref(e.a, write)
		if r.m.isBuf {
			r.off += e.fld.Off
		} else {
			r.off += e.fld.cellOff
		}
		return r
	case xIndex:
		r := x.ref(e.a, write)
		i := x.indexValue(e.b)
		bt := e.a.t
		limit := int64(bt.N)
		if bt.Kind == KArray && bt.Flexible && r.m.isBuf {
			// runtime-sized array: only the buffer's byte length bounds it (checked at the access)
			if i < 0 || i > int64(len(r.m.bytes)) {
				trap(oobKind(write), "line %d: index %d into a runtime-sized array of buffer %s (%d bytes)", e.line, i, r.m.bind, len(r.m.bytes))
			}
		} else if i < 0 || i >= limit {
			trap(oobKind(write), "line %d: index %d out of range for %s", e.line, i, bt)
		}
		var stride int
		if r.m.isBuf {
			switch bt.Kind {
			case KVec, KPackedVec:
				stride = bt.Elem.Size
			default:
				stride = bt.Elem.Size
			}
		} else {
			stride = bt.Elem.Cells
			if bt.Kind == KMat {
				stride = bt.Rows
			}
		}
		r.off += int(i) * stride
		return r
	case xSwizzle:
		r := x.ref(e.a, write)
		if e.nswz != 1 {
			return r
		}
		if r.m.isBuf {
			r.off += int(e.swz[0]) * e.a.t.Elem.Size
		} else {
			r.off += int(e.swz[0])
		}
		return r
	case xCond:
		cv := x.eval(e.a)
		if chk(cv.a[0], e.line) != 0 {
			return x.ref(e.b, write)
		}
		return x.ref(e.c, write)
	case xDeref:
		v := x.eval(e.a)
		if v.r.m == nil {
			trap("poison", "line %d: dereference of an invalid pointer", e.line)
		}
		return v.r
	}
	panic(&xrt.Unsupported{What: fmt.Sprintf("line %d: expression kind %d used as an lvalue", e.line, e.op)})
}

// ---------------------------------------------------------------- expressions

func (x *exec) eval(e *Expr) Value {
	x.step(e.line)
	switch e.op {
	case xLit:
		var v Value
		v.a[0] = e.lit
		return v
	case xLocal:
		n := e.t.Cells
		if n == 1 {
			var v Value
			v.a[0] = x.fr.mem.cells[e.slot]
			return v
		}
		v := mkValue(n)
		copy(v.cells(n), x.fr.mem.cells[e.slot:e.slot+n])
		return v
	case xLocalRef:
		if e.t.Kind == KPtr && !e.lv {
			return Value{r: x.fr.refs[e.slot]}
		}
		return x.load(x.ref(e, false), e.t, e.line)
	case xGlobal, xTG, xDeref:
		return x.load(x.ref(e, false), e.t, e.line)
	case xField:
		if e.a.lv {
			return x.load(x.ref(e, false), e.t, e.line)
		}
		base := x.eval(e.a)
		n := e.t.Cells
		v := mkValue(n)
		copy(v.cells(n), base.cells(e.a.t.Cells)[e.fld.cellOff:e.fld.cellOff+n])
		return v
	case xIndex:
		if e.a.lv {
			return x.load(x.ref(e, false), e.t, e.line)
		}
		base := x.eval(e.a)
		i := x.indexValue(e.b)
		if i < 0 || i >= int64(e.a.t.N) {
			trap("oob-read", "line %d: index %d out of range for %s", e.line, i, e.a.t)
		}
		n := e.t.Cells
		v := mkValue(n)
		copy(v.cells(n), base.cells(e.a.t.Cells)[int(i)*n:int(i)*n+n])
		return v
	case xSwizzle:
		if e.a.lv && e.nswz == 1 {
			return x.load(x.ref(e, false), e.t, e.line)
		}
		base := x.eval(e.a)
		var v Value
		for i := 0; i < int(e.nswz); i++ {
			v.a[i] = base.a[e.swz[i]]
		}
		return v
	case xConv:
		return x.evalConv(e)
	case xBitcast:
		return x.evalBitcast(e)
	case xConstruct:
		n := e.t.Cells
		v := mkValue(n)
		dst := v.cells(n)
		off := 0
		for _, a := range e.args {
			av := x.eval(a)
			k := a.t.Cells
			copy(dst[off:off+k], av.cells(k))
			off += k
		}
		return v
	case xZero:
		return mkValue(e.t.Cells)
	case xUnary:
		return x.evalUnary(e)
	case xBinary:
		return x.evalBinary(e)
	case xLogAnd:
		a := x.eval(e.a)
		if chk(a.a[0], e.line) == 0 {
			return Value{}
		}
		b := x.eval(e.b)
		chk(b.a[0], e.line)
		return b
	case xLogOr:
		a := x.eval(e.a)
		if chk(a.a[0], e.line) != 0 {
			return a
		}
		b := x.eval(e.b)
		chk(b.a[0], e.line)
		return b
	case xCond:
		c := x.eval(e.a)
		if e.lv {
			if chk(c.a[0], e.line) != 0 {
				return x.load(x.ref(e.b, false), e.t, e.line)
			}
			return x.load(x.ref(e.c, false), e.t, e.line)
		}
		if chk(c.a[0], e.line) != 0 {
			return x.eval(e.b)
		}
		return x.eval(e.c)
	case xAssign:
		v := x.eval(e.b)
		x.assignTo(e.a, &v)
		return v
	case xCompound:
		var r Ref
		var cur Value
		if e.a.op == xSwizzle && e.a.nswz > 1 {
			cur = x.eval(e.a)
		} else {
			r = x.ref(e.a, true)
			cur = x.load(r, e.a.t, e.line)
		}
		x.ph = append(x.ph, cur)
		v := x.eval(e.b)
		x.ph = x.ph[:len(x.ph)-1]
		if e.a.op == xSwizzle && e.a.nswz > 1 {
			x.assignTo(e.a, &v)
		} else {
			x.store(r, e.a.t, &v, e.line)
		}
		return v
	case xPlaceholder:
		return x.ph[len(x.ph)-1]
	case xIncDec:
		r := x.ref(e.a, true)
		cur := x.load(r, e.t, e.line)
		c := chk(cur.a[0], e.line)
		var nv Value
		switch e.t.Kind {
		case KInt:
			s := int64(int32(c)) + int64(e.inc)
			if s > math.MaxInt32 || s < math.MinInt32 {
				trap("signed-overflow", "line %d: ++/-- overflows int", e.line)
			}
			nv.a[0] = cell(uint32(int32(s)))
		case KUInt:
			nv.a[0] = cell(c + uint32(int32(e.inc)))
		case KFloat:
			nv.a[0] = fcell(float32(f32(c) + float32(e.inc)))
		}
		x.store(r, e.t, &nv, e.line)
		if e.post {
			return cur
		}
		return nv
	case xCall:
		return x.call(e)
	case xBuiltin:
		return x.evalBuiltin(e)
	case xAddrOf:
		return Value{r: x.ref(e.a, false)}
	case xEnum:
		return Value{}
	}
	panic(&xrt.Unsupported{What: fmt.Sprintf("line %d: cannot evaluate expression kind %d", e.line, e.op)})
}

// assignTo stores v into the lvalue expression lhs (handles multi-component swizzles).
func (x *exec) assignTo(lhs *Expr, v *Value) {
	if lhs.op == xSwizzle && lhs.nswz > 1 {
		base := x.ref(lhs.a, true)
		et := lhs.a.t.Elem
		for i := 0; i < int(lhs.nswz); i++ {
			r := base
			if r.m.isBuf {
				r.off += int(lhs.swz[i]) * et.Size
			} else {
				r.off += int(lhs.swz[i])
			}
			var c Value
			c.a[0] = v.a[i]
			x.store(r, et, &c, lhs.line)
		}
		return
	}
	r := x.ref(lhs, true)
	x.store(r, lhs.t, v, lhs.line)
}

// convScalar converts one scalar between arithmetic types with C++ semantics.
func convScalar(c uint32, from, to Kind, line int) uint32 {
	if from == to {
		return c
	}
	// source value as float or integer
	switch from {
	case KFloat, KHalf:
		var f float32
		if from == KFloat {
			f = f32(c)
		} else {
			f = halfToFloat(uint16(c))
		}
		switch to {
		case KBool:
			if f != 0 { // NaN != 0 is true
				return 1
			}
			return 0
		case KFloat:
			return fbits(f)
		case KHalf:
			return uint32(floatToHalf(f))
		}
		// float -> integer: the truncated value must be representable (C++14 [conv.fpint])
		tr := math.Trunc(float64(f))
		lo, hi := intRange(to)
		if tr != tr || tr < lo || tr > hi {
			trap("f2i-range", "line %d: conversion of %g to %s is undefined", line, f, kindName(to))
		}
		if lo < 0 {
			return normInt(uint32(int32(tr)), to)
		}
		return normInt(uint32(tr), to)
	case KBool:
		switch to {
		case KFloat:
			return fbits(float32(c))
		case KHalf:
			return uint32(floatToHalf(float32(c)))
		}
		return c
	}
	// integer source (cells hold the sign/zero-extended value)
	switch to {
	case KBool:
		if c != 0 {
			return 1
		}
		return 0
	case KFloat, KHalf:
		var f float32
		if from == KUInt || from == KUChar || from == KUShort {
			f = float32(c)
		} else {
			f = float32(int32(c))
		}
		if to == KHalf {
			return uint32(floatToHalf(f))
		}
		return fbits(f)
	}
	return normInt(c, to)
}

// normInt truncates to the width of kind k and re-extends to the 32-bit cell form.
func normInt(c uint32, k Kind) uint32 {
	switch k {
	case KChar:
		return uint32(int32(int8(c)))
	case KUChar:
		return c & 0xFF
	case KShort:
		return uint32(int32(int16(c)))
	case KUShort:
		return c & 0xFFFF
	}
	return c
}

func intRange(k Kind) (lo, hi float64) {
	switch k {
	case KChar:
		return -128, 127
	case KUChar:
		return 0, 255
	case KShort:
		return -32768, 32767
	case KUShort:
		return 0, 65535
	case KInt:
		return -2147483648, 2147483647
	}
	return 0, 4294967295
}

func kindName(k Kind) string {
	for n, t := range scalarByName {
		if t.Kind == k {
			return n
		}
	}
	return "?"
}

func (x *exec) evalConv(e *Expr) Value {
	v := x.eval(e.a)
	switch e.cv {
	case cvRelabel:
		return v
	case cvSplat:
		c := v.a[0]
		var r Value
		for i := 0; i < e.t.N; i++ {
			r.a[i] = c
		}
		return r
	}
	fk, tk := e.a.t.scalarOf().Kind, e.t.scalarOf().Kind
	n := e.t.comps()
	var r Value
	for i := 0; i < n; i++ {
		r.a[i] = cell(convScalar(chk(v.a[i], e.line), fk, tk, e.line))
	}
	return r
}

func (x *exec) evalBitcast(e *Expr) Value {
	v := x.eval(e.a)
	ft, tt := e.a.t, e.t
	fs, ts := ft.scalarOf().Size, tt.scalarOf().Size
	fn, tn := ft.comps(), tt.comps()
	if fs == ts {
		if fs != 4 {
			// same width small types: renormalise
			var r Value
			for i := 0; i < tn; i++ {
				if v.a[i]&poisonBit != 0 {
					r.a[i] = poisonBit
					continue
				}
				r.a[i] = cell(normInt(uint32(v.a[i]), tt.scalarOf().Kind))
			}
			return r
		}
		return v
	}
	var buf [16]byte
	pois := false
	for i := 0; i < fn; i++ {
		if v.a[i]&poisonBit != 0 {
			pois = true
		}
		switch fs {
		case 1:
			buf[i] = byte(v.a[i])
		case 2:
			binary.LittleEndian.PutUint16(buf[i*2:], uint16(v.a[i]))
		default:
			binary.LittleEndian.PutUint32(buf[i*4:], uint32(v.a[i]))
		}
	}
	var r Value
	for i := 0; i < tn; i++ {
		if pois {
			r.a[i] = poisonBit
			continue
		}
		r.a[i] = loadScalarBytes(buf[i*ts:], tt.scalarOf())
	}
	return r
}

func (x *exec) evalUnary(e *Expr) Value {
	v := x.eval(e.a)
	t := e.t
	if t.Kind == KMat {
		n := t.Cells
		r := mkValue(n)
		src, dst := v.cells(n), r.cells(n)
		for i := range dst {
			dst[i] = cell(chk(src[i], e.line) ^ 0x80000000)
		}
		return r
	}
	k := e.a.t.scalarOf().Kind
	n := e.a.t.comps()
	var r Value
	for i := 0; i < n; i++ {
		c := chk(v.a[i], e.line)
		switch e.uop {
		case '!':
			r.a[i] = boolCell(c == 0)
		case '~':
			if k == KBool {
				r.a[i] = boolCell(c == 0)
			} else {
				r.a[i] = cell(^c)
			}
		case '-':
			switch k {
			case KFloat:
				r.a[i] = cell(c ^ 0x80000000)
			case KInt:
				if c == 0x80000000 {
					trap("signed-overflow", "line %d: negation of INT_MIN", e.line)
				}
				r.a[i] = cell(-c)
			default:
				r.a[i] = cell(-c)
			}
		}
	}
	return r
}

func (x *exec) evalBinary(e *Expr) Value {
	a := x.eval(e.a)
	b := x.eval(e.b)
	if e.bop >= bMatAdd {
		return x.evalMatrix(e, &a, &b)
	}
	ot := e.a.t
	k := ot.scalarOf().Kind
	n := ot.comps()
	var r Value
	if e.bop == bShl || e.bop == bShr {
		ck := e.b.t.scalarOf().Kind
		for i := 0; i < n; i++ {
			r.a[i] = cell(shiftOp(e.bop, k, chk(a.a[i], e.line), ck, chk(b.a[i], e.line), e.line, x.strictShift))
		}
		return r
	}
	for i := 0; i < n; i++ {
		r.a[i] = cell(scalarBin(e.bop, k, chk(a.a[i], e.line), chk(b.a[i], e.line), e.line))
	}
	return r
}

// shiftOp implements << and >>. The MSL specification (Scalar and Vector Operators) defines both
// for every count: E1 is shifted by the log2(N) least significant bits of E2 viewed as unsigned, N the
// bit width of (promoted) E1; >> fills with the sign bit for signed E1. With strict (Opts.
// StrictShifts) the C++14 rule is applied instead: a negative count or one >= N is undefined.
func shiftOp(op binOp, k Kind, v uint32, ck Kind, cnt uint32, line int, strict bool) uint32 {
	if (ck == KInt && int32(cnt) < 0) || cnt >= 32 {
		if strict {
			trap("shift-range", "line %d: shift count %d out of range", line, int64(int32(cnt)))
		}
		cnt &= 31
	}
	if op == bShl {
		return v << cnt
	}
	if k == KInt {
		return uint32(int32(v) >> cnt)
	}
	return v >> cnt
}

func scalarBin(op binOp, k Kind, a, b uint32, line int) uint32 {
	switch k {
	case KFloat:
		fa, fb := f32(a), f32(b)
		switch op {
		case bAdd:
			return fbits(float32(fa + fb))
		case bSub:
			return fbits(float32(fa - fb))
		case bMul:
			return fbits(float32(fa * fb))
		case bDiv:
			return fbits(float32(fa / fb))
		case bEq:
			return b2u(fa == fb)
		case bNe:
			return b2u(fa != fb)
		case bLt:
			return b2u(fa < fb)
		case bLe:
			return b2u(fa <= fb)
		case bGt:
			return b2u(fa > fb)
		case bGe:
			return b2u(fa >= fb)
		}
	case KInt:
		sa, sb := int32(a), int32(b)
		switch op {
		case bAdd:
			s := int64(sa) + int64(sb)
			if s != int64(int32(s)) {
				trap("signed-overflow", "line %d: %d + %d overflows int", line, sa, sb)
			}
			return uint32(int32(s))
		case bSub:
			s := int64(sa) - int64(sb)
			if s != int64(int32(s)) {
				trap("signed-overflow", "line %d: %d - %d overflows int", line, sa, sb)
			}
			return uint32(int32(s))
		case bMul:
			s := int64(sa) * int64(sb)
			if s != int64(int32(s)) {
				trap("signed-overflow", "line %d: %d * %d overflows int", line, sa, sb)
			}
			return uint32(int32(s))
		case bDiv, bRem:
			if sb == 0 {
				trap("div0", "line %d: integer division by zero", line)
			}
			if sa == math.MinInt32 && sb == -1 {
				trap("sdiv-overflow", "line %d: INT_MIN / -1", line)
			}
			if op == bDiv {
				return uint32(sa / sb)
			}
			return uint32(sa % sb)
		case bEq:
			return b2u(sa == sb)
		case bNe:
			return b2u(sa != sb)
		case bLt:
			return b2u(sa < sb)
		case bLe:
			return b2u(sa <= sb)
		case bGt:
			return b2u(sa > sb)
		case bGe:
			return b2u(sa >= sb)
		}
	case KUInt:
		switch op {
		case bAdd:
			return a + b
		case bSub:
			return a - b
		case bMul:
			return a * b
		case bDiv, bRem:
			if b == 0 {
				trap("div0", "line %d: integer division by zero", line)
			}
			if op == bDiv {
				return a / b
			}
			return a % b
		case bEq:
			return b2u(a == b)
		case bNe:
			return b2u(a != b)
		case bLt:
			return b2u(a < b)
		case bLe:
			return b2u(a <= b)
		case bGt:
			return b2u(a > b)
		case bGe:
			return b2u(a >= b)
		}
	case KBool:
		switch op {
		case bEq:
			return b2u(a == b)
		case bNe:
			return b2u(a != b)
		case bAnd, bLAnd:
			return a & b
		case bOr, bLOr:
			return a | b
		case bXor:
			return a ^ b
		}
	}
	switch op {
	case bAnd:
		return a & b
	case bOr:
		return a | b
	case bXor:
		return a ^ b
	}
	panic(&xrt.Unsupported{What: fmt.Sprintf("line %d: binary operator %d on %s", line, op, kindName(k))})
}

func b2u(b bool) uint32 {
	if b {
		return 1
	}
	return 0
}

// evalMatrix: column-major linear algebra, float32 with one rounding per operation.
func (x *exec) evalMatrix(e *Expr, a, b *Value) Value {
	at, bt := e.a.t, e.b.t
	n := e.t.Cells
	r := mkValue(n)
	dst := r.cells(n)
	ac, bc := a.cells(at.Cells), b.cells(bt.Cells)
	for _, c := range ac {
		chk(c, e.line)
	}
	for _, c := range bc {
		chk(c, e.line)
	}
	g := func(c cell) float32 { return f32(uint32(c)) }
	switch e.bop {
	case bMatAdd:
		for i := range dst {
			dst[i] = fcell(float32(g(ac[i]) + g(bc[i])))
		}
	case bMatSub:
		for i := range dst {
			dst[i] = fcell(float32(g(ac[i]) - g(bc[i])))
		}
	case bMatScalar:
		for i := range dst {
			dst[i] = fcell(float32(g(ac[i]) * g(bc[0])))
		}
	case bMatDivScalar:
		for i := range dst {
			dst[i] = fcell(float32(g(ac[i]) / g(bc[0])))
		}
	case bScalarMat:
		for i := range dst {
			dst[i] = fcell(float32(g(ac[0]) * g(bc[i])))
		}
	case bMatVec:
		// result[r] = sum_k M[k][r] * v[k]
		rows, cols := at.Rows, at.N
		for rr := 0; rr < rows; rr++ {
			var s float32
			for k := 0; k < cols; k++ {
				p := float32(g(ac[k*rows+rr]) * g(bc[k]))
				if k == 0 {
					s = p
				} else {
					s = float32(s + p)
				}
			}
			dst[rr] = fcell(s)
		}
	case bVecMat:
		// result[c] = dot(v, M[c])
		rows, cols := bt.Rows, bt.N
		for c := 0; c < cols; c++ {
			var s float32
			for k := 0; k < rows; k++ {
				p := float32(g(ac[k]) * g(bc[c*rows+k]))
				if k == 0 {
					s = p
				} else {
					s = float32(s + p)
				}
			}
			dst[c] = fcell(s)
		}
	case bMatMat:
		// (A*B)[c][r] = sum_k A[k][r] * B[c][k]
		ar, ak := at.Rows, at.N
		bcols := bt.N
		for c := 0; c < bcols; c++ {
			for rr := 0; rr < ar; rr++ {
				var s float32
				for k := 0; k < ak; k++ {
					p := float32(g(ac[k*ar+rr]) * g(bc[c*bt.Rows+k]))
					if k == 0 {
						s = p
					} else {
						s = float32(s + p)
					}
				}
				dst[c*ar+rr] = fcell(s)
			}
		}
	}
	return r
}

// ---------------------------------------------------------------- calls and statements

const maxDepth = 200

func (x *exec) call(e *Expr) Value {
	f := e.fn
	if f.unsup != nil {
		panic(f.unsup)
	}
	if x.depth >= maxDepth {
		panic(&xrt.StepLimit{Steps: x.limit()})
	}
	nf := &frame{}
	nf.mem.cells = make([]cell, f.frameCells)
	nf.mem.name = f.name
	if f.frameRefs > 0 {
		nf.refs = make([]Ref, f.frameRefs)
	}
	for i, a := range e.args {
		pv := f.params[i]
		switch pv.kind {
		case vRef:
			nf.refs[pv.slot] = x.ref(a, false)
		case vPtr:
			nf.refs[pv.slot] = x.eval(a).r
		default:
			v := x.eval(a)
			copy(nf.mem.cells[pv.slot:pv.slot+pv.t.Cells], v.cells(pv.t.Cells))
		}
	}
	saved := x.fr
	x.fr = nf
	x.depth++
	c := x.block(f.body)
	x.depth--
	x.fr = saved
	if f.ret.Kind == KVoid {
		return Value{}
	}
	if c != ctlReturn {
		trap("missing-return", "function %s flows off its end without returning a value", f.name)
	}
	v := x.retv
	x.retv = Value{}
	return v
}

func (x *exec) limit() int64 {
	if x.sh != nil {
		return x.sh.limit
	}
	return 0
}

func (x *exec) block(ss []*Stmt) ctl {
	for _, s := range ss {
		if c := x.stmt(s); c != ctlNone {
			return c
		}
	}
	return ctlNone
}

func (x *exec) cond(e *Expr) bool {
	v := x.eval(e)
	return chk(v.a[0], e.line) != 0
}

func (x *exec) stmt(s *Stmt) ctl {
	x.step(s.line)
	switch s.kind {
	case sExpr:
		x.eval(s.e)
	case sDecl:
		x.decl(s.v, s.line)
	case sBlock:
		return x.block(s.body)
	case sIf:
		if x.cond(s.e) {
			return x.block(s.body)
		}
		return x.block(s.els)
	case sWhile:
		for x.cond(s.e) {
			c := x.block(s.body)
			if c == ctlBreak {
				break
			}
			if c == ctlReturn {
				return c
			}
			x.step(s.line)
		}
	case sDoWhile:
		for {
			c := x.block(s.body)
			if c == ctlBreak {
				break
			}
			if c == ctlReturn {
				return c
			}
			x.step(s.line)
			if !x.cond(s.e) {
				break
			}
		}
	case sFor:
		if s.init != nil {
			x.stmt(s.init)
		}
		for s.e == nil || x.cond(s.e) {
			c := x.block(s.body)
			if c == ctlBreak {
				break
			}
			if c == ctlReturn {
				return c
			}
			if s.post != nil {
				x.eval(s.post)
			}
			x.step(s.line)
		}
	case sSwitch:
		v := x.eval(s.e)
		sel := chk(v.a[0], s.line)
		start := s.defIdx
		for _, c := range s.cases {
			if c.val == sel {
				start = c.idx
				break
			}
		}
		if start < 0 {
			return ctlNone
		}
		for i := start; i < len(s.body); i++ {
			c := x.stmt(s.body[i])
			if c == ctlBreak {
				return ctlNone
			}
			if c != ctlNone {
				return c
			}
		}
	case sBreak:
		return ctlBreak
	case sContinue:
		return ctlContinue
	case sReturn:
		if s.e != nil {
			x.retv = x.eval(s.e)
		}
		return ctlReturn
	}
	return ctlNone
}

func (x *exec) decl(v *Var, line int) {
	switch v.kind {
	case vLocal:
		n := v.t.Cells
		dst := x.fr.mem.cells[v.slot : v.slot+n]
		if v.init != nil {
			val := x.eval(v.init)
			copy(dst, val.cells(n))
			return
		}
		fill := cell(0)
		if x.poison {
			fill = poisonBit
		}
		for i := range dst {
			dst[i] = fill
		}
	case vRef:
		x.fr.refs[v.slot] = x.ref(v.init, false)
	case vPtr:
		if v.init != nil {
			x.fr.refs[v.slot] = x.eval(v.init).r
		} else {
			x.fr.refs[v.slot] = Ref{}
		}
	}
}
