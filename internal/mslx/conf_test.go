package mslx

import (
	"bytes"
	"encoding/binary"
	"errors"
	"fmt"
	"math"
	"sort"
	"strings"
	"testing"

	"github.com/gogpu/naga/ir"
	"github.com/gogpu/naga/msl"

	"verif/internal/xrt"
)

// ---- byte-buffer construction helpers -------------------------------------------------------

type anyPad int // n don't-care bytes in an expectation (WGSL padding)
type approx float32

// bs builds a little-endian byte buffer from int (i32), uint32, float32/float64 (as f32), anyPad.
func bs(vals ...any) []byte {
	var out []byte
	for _, v := range vals {
		var w [4]byte
		switch x := v.(type) {
		case int:
			binary.LittleEndian.PutUint32(w[:], uint32(int32(x)))
		case int32:
			binary.LittleEndian.PutUint32(w[:], uint32(x))
		case uint32:
			binary.LittleEndian.PutUint32(w[:], x)
		case uint:
			binary.LittleEndian.PutUint32(w[:], uint32(x))
		case float32:
			binary.LittleEndian.PutUint32(w[:], math.Float32bits(x))
		case float64:
			binary.LittleEndian.PutUint32(w[:], math.Float32bits(float32(x)))
		case approx:
			binary.LittleEndian.PutUint32(w[:], math.Float32bits(float32(x)))
		case anyPad:
			out = append(out, bytes.Repeat([]byte{0xAA}, int(x))...)
			continue
		default:
			panic(fmt.Sprintf("bs: %T", v))
		}
		out = append(out, w[:]...)
	}
	return out
}

// mask returns, for the same argument list, 1 = compare exactly, 0 = ignore, 2 = compare as f32 with tolerance.
func mask(vals ...any) []byte {
	var out []byte
	for _, v := range vals {
		switch x := v.(type) {
		case anyPad:
			out = append(out, make([]byte, int(x))...)
		case approx:
			out = append(out, 2, 2, 2, 2)
		default:
			out = append(out, 1, 1, 1, 1)
		}
	}
	return out
}

func zeros(n int) []byte { return make([]byte, n) }

type B = xrt.Binding

type confProg struct {
	name   string
	wgsl   string
	in     map[B][]byte // initial contents
	want   map[B][]any  // expected contents after the run, as bs() argument lists
	wg     [3]uint32
	groups [3]uint32
	skip   string // "naga defect: ..." when the expectation is known to fail because of naga
	// skipCfg skips single configurations (by name) with a reason
	skipCfg map[string]string
}

type confCfg struct {
	name     string
	opts     func(bindings []B) (msl.Options, Opts)
	poison   bool
	explicit bool
}

func slotOf(b B) uint8 { return uint8(b.Binding + 1 + 8*b.Group) }

func explicitMap(ep string, bindings []B, sizes uint8) (map[string]msl.EntryPointResources, map[int]xrt.Binding) {
	res := map[ir.ResourceBinding]msl.BindTarget{}
	slots := map[int]xrt.Binding{}
	for _, b := range bindings {
		s := slotOf(b)
		res[ir.ResourceBinding{Group: b.Group, Binding: b.Binding}] = msl.BindTarget{Buffer: &s, Mutable: true}
		slots[int(s)] = b
	}
	return map[string]msl.EntryPointResources{ep: {Resources: res, SizesBuffer: &sizes}}, slots
}

var confCfgs = []confCfg{
	{name: "default-fake", poison: true, opts: func(bd []B) (msl.Options, Opts) {
		o := msl.DefaultOptions()
		o.FakeMissingBindings = true
		return o, Opts{FakeOrder: bd}
	}},
	{name: "v12-unchecked-map", poison: false, explicit: true, opts: func(bd []B) (msl.Options, Opts) {
		o := msl.Options{LangVersion: msl.Version1_2}
		m, slots := explicitMap("main", bd, 30)
		o.PerEntryPointMap = m
		return o, Opts{BufferSlots: slots}
	}},
	{name: "v31-restrict-map", poison: true, explicit: true, opts: func(bd []B) (msl.Options, Opts) {
		o := msl.DefaultOptions()
		o.LangVersion = msl.Version3_1
		o.BoundsCheckPolicies = msl.BoundsCheckPolicies{Index: msl.BoundsCheckRestrict, Buffer: msl.BoundsCheckRestrict, Image: msl.BoundsCheckRestrict}
		m, slots := explicitMap("main", bd, 30)
		o.PerEntryPointMap = m
		return o, Opts{BufferSlots: slots}
	}},
	{name: "v21-rzsw-nozero-fake", poison: false, opts: func(bd []B) (msl.Options, Opts) {
		o := msl.DefaultOptions()
		o.FakeMissingBindings = true
		o.ZeroInitializeWorkgroupMemory = false
		o.ForceLoopBounding = false
		return o, Opts{FakeOrder: bd}
	}},
}

func sortedBindings(m map[B][]byte) []B {
	var ks []B
	for k := range m {
		ks = append(ks, k)
	}
	sort.Slice(ks, func(i, j int) bool {
		if ks[i].Group != ks[j].Group {
			return ks[i].Group < ks[j].Group
		}
		return ks[i].Binding < ks[j].Binding
	})
	return ks
}

func f32near(got, want uint32) bool {
	g, w := float64(math.Float32frombits(got)), float64(math.Float32frombits(want))
	if g == w || (g != g && w != w) {
		return true
	}
	d := math.Abs(g - w)
	return d <= 1e-5*math.Max(1, math.Abs(w))
}

// compare got with the expectation list; returns "" if equal.
func compareBuf(got []byte, want []any) string {
	wb, mk := bs(want...), mask(want...)
	if len(got) != len(wb) {
		return fmt.Sprintf("length %d, want %d", len(got), len(wb))
	}
	for i := 0; i < len(got); i++ {
		switch mk[i] {
		case 1:
			if got[i] != wb[i] {
				w := i &^ 3
				return fmt.Sprintf("byte %d (word at %d): got % x want % x\n   got  % x\n   want % x", i, w, got[w:min(w+4, len(got))], wb[w:min(w+4, len(wb))], got, wb)
			}
		case 2:
			if i%4 == 0 {
				if !f32near(binary.LittleEndian.Uint32(got[i:]), binary.LittleEndian.Uint32(wb[i:])) {
					return fmt.Sprintf("f32 at %d: got %v want ~%v", i, math.Float32frombits(binary.LittleEndian.Uint32(got[i:])), math.Float32frombits(binary.LittleEndian.Uint32(wb[i:])))
				}
			}
		}
	}
	return ""
}

func runConf(t *testing.T, cp confProg) {
	t.Helper()
	if cp.skip != "" && !*runDefects {
		t.Skip(cp.skip)
	}
	bd := sortedBindings(cp.in)
	for _, cfg := range confCfgs {
		cfg := cfg
		t.Run(cfg.name, func(t *testing.T) {
			if r, ok := cp.skipCfg[cfg.name]; ok && !*runDefects {
				t.Skip(r)
			}
			mo, xo := cfg.opts(bd)
			text, info, err := compileMSL(t, cp.wgsl, mo)
			if err != nil {
				t.Fatalf("naga: %v", err)
			}
			prog, err := Parse(text)
			if err != nil {
				t.Fatalf("Parse: %v\n%s", err, text)
			}
			bufs := xrt.Buffers{}
			for b, d := range cp.in {
				bufs[b] = append([]byte(nil), d...)
			}
			xo.EntryPoint = info.EntryPointNames["main"]
			xo.WorkgroupSize = cp.wg
			xo.NumWorkgroups = cp.groups
			xo.PoisonLocals = cfg.poison
			var trace []xrt.Access
			xo.Trace = &trace
			if err := prog.Exec(bufs, xo); err != nil {
				t.Fatalf("Exec: %v\n%s", err, numbered(text))
			}
			for b, w := range cp.want {
				if d := compareBuf(bufs[b], w); d != "" {
					t.Errorf("buffer %s: %s\n%s", b, d, numbered(text))
				}
			}
			for _, a := range trace {
				if a.Off < 0 || a.Off+a.Len > len(bufs[a.B]) {
					t.Errorf("trace: access outside buffer %v", a)
				}
			}
		})
	}
}

func numbered(s string) string {
	var sb strings.Builder
	for i, l := range strings.Split(s, "\n") {
		fmt.Fprintf(&sb, "%3d| %s\n", i+1, l)
	}
	return sb.String()
}

// execMSL parses and runs hand-written MSL.
func execMSL(t testing.TB, src string, bufs xrt.Buffers, o Opts) error {
	t.Helper()
	p, err := Parse(src)
	if err != nil {
		return err
	}
	return p.Exec(bufs, o)
}

func wantTrap(t *testing.T, err error, kind string) {
	t.Helper()
	var tr *xrt.Trap
	if !errors.As(err, &tr) || tr.Kind != kind {
		t.Errorf("want trap %q, got %v", kind, err)
	}
}
