package mslx

import (
	"flag"
	"testing"
)

var runDefects = flag.Bool("defects", false, "also run expectations that are skipped because of a known naga defect")

const (
	iMin = -2147483648
	iMax = 2147483647
)

func b0(n uint32) B { return B{Group: 0, Binding: n} }

// Group 1: scalars, vectors, operators, conversions, matrices. Expected bytes are derived by hand
// from the WGSL specification.
var progsGroup1 = []confProg{
	{name: "int_arith", wgsl: `
@group(0) @binding(0) var<storage, read> a: array<i32, 4>;
@group(0) @binding(1) var<storage, read_write> o: array<i32, 8>;
@compute @workgroup_size(1) fn main() {
  o[0] = a[0] + a[1]; o[1] = a[0] - a[1]; o[2] = a[0] * a[1]; o[3] = a[0] / a[1]; o[4] = a[0] % a[1];
  o[5] = -a[0]; o[6] = a[2] / a[3]; o[7] = a[2] % a[3];
}`,
		in:   map[B][]byte{b0(0): bs(7, -3, -7, 2), b0(1): zeros(32)},
		want: map[B][]any{b0(1): {4, 10, -21, -2, 1, -7, -3, -1}}},

	{name: "int_wrap_and_div_edge", wgsl: `
@group(0) @binding(0) var<storage, read> a: array<i32, 4>;
@group(0) @binding(1) var<storage, read_write> o: array<i32, 8>;
@compute @workgroup_size(1) fn main() {
  o[0] = a[0] + a[1]; o[1] = a[2] - a[1]; o[2] = a[0] * 2; o[3] = a[2] / a[3]; o[4] = a[2] % a[3];
  o[5] = -a[2]; o[6] = a[0] / (a[1] - a[1]); o[7] = a[0] % (a[1] - a[1]);
}`,
		in:   map[B][]byte{b0(0): bs(iMax, 1, iMin, -1), b0(1): zeros(32)},
		want: map[B][]any{b0(1): {iMin, iMax, -2, iMin, 0, iMin, iMax, 0}}},

	{name: "uint_arith", wgsl: `
@group(0) @binding(0) var<storage, read> a: array<u32, 4>;
@group(0) @binding(1) var<storage, read_write> o: array<u32, 8>;
@compute @workgroup_size(1) fn main() {
  o[0] = a[0] + a[2]; o[1] = a[1] - a[0]; o[2] = a[2] * a[1]; o[3] = a[0] / a[1]; o[4] = a[0] % a[1];
  o[5] = a[0] / a[3]; o[6] = a[0] % a[3]; o[7] = a[2] / a[1];
}`,
		in:   map[B][]byte{b0(0): bs(uint32(10), uint32(3), uint32(0xFFFFFFFF), uint32(0)), b0(1): zeros(32)},
		want: map[B][]any{b0(1): {uint32(9), uint32(0xFFFFFFF9), uint32(0xFFFFFFFD), uint32(3), uint32(1), uint32(10), uint32(0), uint32(0x55555555)}}},

	{name: "bit_ops_u32", wgsl: `
@group(0) @binding(0) var<storage, read> u: array<u32, 4>;
@group(0) @binding(1) var<storage, read_write> o: array<u32, 8>;
@compute @workgroup_size(1) fn main() {
  o[0] = u[0] & u[1]; o[1] = u[0] | u[1]; o[2] = u[0] ^ u[1]; o[3] = ~u[0];
  o[4] = u[0] << u[2]; o[5] = u[0] >> u[2]; o[6] = u[1] << u[3]; o[7] = u[0] >> u[3];
}`,
		in:   map[B][]byte{b0(0): bs(uint32(0xF0F0F0F0), uint32(0x0FF00FF0), uint32(4), uint32(31)), b0(1): zeros(32)},
		want: map[B][]any{b0(1): {uint32(0x00F000F0), uint32(0xFFF0FFF0), uint32(0xFF00FF00), uint32(0x0F0F0F0F), uint32(0x0F0F0F00), uint32(0x0F0F0F0F), uint32(0), uint32(1)}}},

	{name: "shift_i32", wgsl: `
@group(0) @binding(0) var<storage, read> a: array<i32, 4>;
@group(0) @binding(1) var<storage, read_write> o: array<i32, 6>;
@compute @workgroup_size(1) fn main() {
  o[0] = a[0] >> u32(a[1]); o[1] = a[0] << u32(a[1]); o[2] = a[2] << u32(a[3]); o[3] = a[0] >> 31u;
  o[4] = ~a[0]; o[5] = (a[0] & 0xFF) | (a[2] ^ 3);
}`,
		in:   map[B][]byte{b0(0): bs(-16, 2, 1, 31), b0(1): zeros(24)},
		want: map[B][]any{b0(1): {-4, -64, iMin, -1, 15, 0xF0 | 2}}},

	{name: "comparisons", wgsl: `
@group(0) @binding(0) var<storage, read> a: array<i32, 2>;
@group(0) @binding(1) var<storage, read_write> o: array<u32, 8>;
@compute @workgroup_size(1) fn main() {
  o[0] = select(0u, 1u, a[0] < a[1]);
  o[1] = select(0u, 1u, u32(a[0]) < u32(a[1]));
  o[2] = select(0u, 1u, a[0] <= a[0]);
  o[3] = select(0u, 1u, a[1] > a[0]);
  o[4] = select(0u, 1u, a[0] >= a[1]);
  o[5] = select(0u, 1u, a[0] == a[1]);
  o[6] = select(0u, 1u, a[0] != a[1]);
  o[7] = select(0u, 1u, bitcast<u32>(a[0]) > bitcast<u32>(a[1]));
}`,
		in:   map[B][]byte{b0(0): bs(-1, 1), b0(1): zeros(32)},
		want: map[B][]any{b0(1): {uint32(1), uint32(0), uint32(1), uint32(1), uint32(0), uint32(0), uint32(1), uint32(1)}}},

	{name: "float_arith", wgsl: `
@group(0) @binding(0) var<storage, read> f: array<f32, 4>;
@group(0) @binding(1) var<storage, read_write> o: array<f32, 8>;
@compute @workgroup_size(1) fn main() {
  o[0] = f[0] + f[1]; o[1] = f[0] - f[1]; o[2] = f[0] * f[2]; o[3] = f[0] / f[1]; o[4] = f[2] % f[3];
  o[5] = -f[0]; o[6] = f[3] % f[0]; o[7] = (f[0] + f[1]) * f[3] - f[2];
}`,
		in:   map[B][]byte{b0(0): bs(1.5, 0.25, -7.5, 2.0), b0(1): zeros(32)},
		want: map[B][]any{b0(1): {1.75, 1.25, -11.25, approx(6), -1.5, -1.5, 0.5, 11.0}}},

	{name: "logical_ops", wgsl: `
@group(0) @binding(0) var<storage, read> a: array<i32, 2>;
@group(0) @binding(1) var<storage, read_write> o: array<u32, 8>;
@compute @workgroup_size(1) fn main() {
  let t = a[1] > 0; let f = a[0] > 0;
  o[0] = u32(t && f); o[1] = u32(t || f); o[2] = u32(!f); o[3] = u32(t & f); o[4] = u32(t | f);
  o[5] = u32(t != f); o[6] = u32(f && (a[1] / a[0] > 0)); o[7] = u32(t) + u32(f) * 2u;
}`,
		in:   map[B][]byte{b0(0): bs(0, 5), b0(1): zeros(32)},
		want: map[B][]any{b0(1): {uint32(0), uint32(1), uint32(1), uint32(0), uint32(1), uint32(1), uint32(0), uint32(1)}}},

	{name: "conversions", wgsl: `
@group(0) @binding(0) var<storage, read> f: array<f32, 4>;
@group(0) @binding(1) var<storage, read> i: array<i32, 2>;
@group(0) @binding(2) var<storage, read_write> o: array<u32, 12>;
@compute @workgroup_size(1) fn main() {
  o[0] = u32(i32(f[0])); o[1] = u32(i32(f[1])); o[2] = u32(f[0]); o[3] = u32(i32(f[3]));
  o[4] = u32(f[1]); o[5] = u32(f[2]);
  o[6] = bitcast<u32>(f32(i[0])); o[7] = bitcast<u32>(f32(u32(i[1])));
  o[8] = u32(i[0]); o[9] = u32(i32(u32(i[1])));
  o[10] = u32(i[0] < 0); o[11] = bitcast<u32>(f32(i[0] > 0));
}`,
		in: map[B][]byte{b0(0): bs(3.7, -3.7, 4e9, -4e9), b0(1): bs(-5, uint32(4000000000)), b0(2): zeros(48)},
		want: map[B][]any{b0(2): {uint32(3), uint32(0xFFFFFFFD), uint32(3), uint32(0x80000000), uint32(0), uint32(4000000000),
			float32(-5), float32(4e9), uint32(0xFFFFFFFB), uint32(4000000000), uint32(1), float32(0)}}},

	{name: "bitcast", wgsl: `
@group(0) @binding(0) var<storage, read> f: array<f32, 2>;
@group(0) @binding(1) var<storage, read_write> o: array<u32, 6>;
@compute @workgroup_size(1) fn main() {
  o[0] = bitcast<u32>(f[0]);
  o[1] = bitcast<u32>(bitcast<f32>(0x40400000u) + f[0]);
  o[2] = u32(bitcast<i32>(0xFFFFFFFFu) + 3);
  let v = bitcast<vec2<u32>>(vec2<f32>(f[0], f[1]));
  o[3] = v.x; o[4] = v.y;
  o[5] = bitcast<u32>(bitcast<vec2<i32>>(v).y);
}`,
		in:   map[B][]byte{b0(0): bs(1.0, -2.0), b0(1): zeros(24)},
		want: map[B][]any{b0(1): {uint32(0x3F800000), float32(4), uint32(2), uint32(0x3F800000), uint32(0xC0000000), uint32(0xC0000000)}}},

	{name: "select_vec", wgsl: `
@group(0) @binding(0) var<storage, read> a: vec4<i32>;
@group(0) @binding(1) var<storage, read_write> o: array<vec4<i32>, 3>;
@compute @workgroup_size(1) fn main() {
  o[0] = select(a, vec4<i32>(10, 20, 30, 40), a > vec4<i32>(2));
  o[1] = select(a, vec4<i32>(9), a.x == 1);
  o[2] = select(a, vec4<i32>(9), a.x == 2);
}`,
		in:   map[B][]byte{b0(0): bs(1, 2, 3, 4), b0(1): zeros(48)},
		want: map[B][]any{b0(1): {1, 2, 30, 40, 9, 9, 9, 9, 1, 2, 3, 4}}},

	{name: "vec4f_arith", wgsl: `
@group(0) @binding(0) var<storage, read> a: array<vec4<f32>, 2>;
@group(0) @binding(1) var<storage, read_write> o: array<vec4<f32>, 6>;
@compute @workgroup_size(1) fn main() {
  let v = a[0]; let w = a[1];
  o[0] = v + w; o[1] = v * w; o[2] = v - 1.0; o[3] = 2.0 * v; o[4] = v / w; o[5] = -v;
}`,
		in: map[B][]byte{b0(0): bs(1.0, 2.0, 3.0, 4.0, 0.5, 0.5, 2.0, 2.0), b0(1): zeros(96)},
		want: map[B][]any{b0(1): {1.5, 2.5, 5.0, 6.0, 0.5, 1.0, 6.0, 8.0, 0.0, 1.0, 2.0, 3.0, 2.0, 4.0, 6.0, 8.0,
			approx(2), approx(4), approx(1.5), approx(2), -1.0, -2.0, -3.0, -4.0}}},

	{name: "vec4i_ops", wgsl: `
@group(0) @binding(0) var<storage, read> a: array<vec4<i32>, 2>;
@group(0) @binding(1) var<storage, read_write> o: array<vec4<i32>, 6>;
@compute @workgroup_size(1) fn main() {
  let x = a[0]; let y = a[1];
  o[0] = x / y; o[1] = x % y; o[2] = x << vec4<u32>(1u); o[3] = x >> vec4<u32>(1u); o[4] = x & y; o[5] = -x + (x | y);
}`,
		in: map[B][]byte{b0(0): bs(7, -7, 8, -8, 2, 2, -3, 0), b0(1): zeros(96)},
		// 7|2=7, -7|2=-5, 8|-3=-3, -8|0=-8  ->  -x + (x|y) = 0, 2, -11, 0
		want: map[B][]any{b0(1): {3, -3, -2, -8, 1, -1, 2, 0, 14, -14, 16, -16, 3, -4, 4, -4, 2, 0, 8, 0, 0, 2, -11, 0}}},

	{name: "swizzle_rw", wgsl: `
@group(0) @binding(0) var<storage, read> a: vec4<f32>;
@group(0) @binding(1) var<storage, read> idx: u32;
@group(0) @binding(2) var<storage, read_write> o: array<vec4<f32>, 4>;
@compute @workgroup_size(1) fn main() {
  let v = a;
  o[0] = v.wzyx;
  o[1] = vec4<f32>(v.xx, v.zy);
  var w = v; w.y = 9.0; w[2] = 7.0;
  o[2] = w;
  o[3] = vec4<f32>(v[idx], w[idx - 1u], v.zyx.x, v.rgba.a);
}`,
		in:   map[B][]byte{b0(0): bs(1.0, 2.0, 3.0, 4.0), b0(1): bs(uint32(3)), b0(2): zeros(64)},
		want: map[B][]any{b0(2): {4.0, 3.0, 2.0, 1.0, 1.0, 1.0, 3.0, 2.0, 1.0, 9.0, 7.0, 4.0, 4.0, 7.0, 3.0, 4.0}}},

	{name: "mat2x2_ops", wgsl: `
struct O { mv: vec2<f32>, vm: vec2<f32>, mm: mat2x2<f32>, t: mat2x2<f32>, s: mat2x2<f32>, add: mat2x2<f32>, sub: mat2x2<f32>, det: f32 }
@group(0) @binding(0) var<storage, read> m: mat2x2<f32>;
@group(0) @binding(1) var<storage, read_write> o: O;
@compute @workgroup_size(1) fn main() {
  let v = vec2<f32>(1.0, 1.0);
  o.mv = m * v; o.vm = v * m; o.mm = m * m; o.t = transpose(m); o.s = m * 2.0; o.add = m + m; o.sub = m - o.t;
  o.det = determinant(m);
}`,
		in: map[B][]byte{b0(0): bs(1.0, 2.0, 3.0, 4.0), b0(1): zeros(104)},
		// struct O: mv@0 vm@8 mm@16 t@32 s@48 add@64 sub@80 det@96, size 104 (align 8)
		want: map[B][]any{b0(1): {4.0, 6.0, 3.0, 7.0, 7.0, 10.0, 15.0, 22.0, 1.0, 3.0, 2.0, 4.0, 2.0, 4.0, 6.0, 8.0, 2.0, 4.0, 6.0, 8.0,
			0.0, -1.0, 1.0, 0.0, approx(-2), anyPad(4)}}},

	{name: "mat_nonsquare", wgsl: `
struct O { mv: vec2<f32>, vm: vec3<f32>, mm: mat2x2<f32>, t: mat2x3<f32> }
@group(0) @binding(0) var<storage, read> m: mat3x2<f32>;
@group(0) @binding(1) var<storage, read> n: mat2x3<f32>;
@group(0) @binding(2) var<storage, read_write> o: O;
@compute @workgroup_size(1) fn main() {
  o.mv = m * vec3<f32>(1.0, 0.0, -1.0);
  o.vm = vec2<f32>(1.0, 1.0) * m;
  o.mm = m * n;
  o.t = transpose(m);
}`,
		// m columns (1,2) (3,4) (5,6): 24 bytes. n columns (1,0,1) (0,1,0): column stride 16, 32 bytes.
		in: map[B][]byte{b0(0): bs(1.0, 2.0, 3.0, 4.0, 5.0, 6.0), b0(1): bs(1.0, 0.0, 1.0, 0.0, 0.0, 1.0, 0.0, 0.0), b0(2): zeros(80)},
		// O: mv@0(8) vm@16(12) mm@32(16) t@48(32) size 80
		want: map[B][]any{b0(2): {-4.0, -4.0, anyPad(8), 3.0, 7.0, 11.0, anyPad(4), 6.0, 8.0, 3.0, 4.0,
			1.0, 3.0, 5.0, anyPad(4), 2.0, 4.0, 6.0, anyPad(4)}}},

	{name: "mat4x3_times_vec4", wgsl: `
@group(0) @binding(0) var<storage, read> m: mat4x3<f32>;
@group(0) @binding(1) var<storage, read_write> o: array<vec4<f32>, 2>;
@compute @workgroup_size(1) fn main() {
  let r = m * vec4<f32>(1.0, 2.0, 3.0, 4.0);
  o[0] = vec4<f32>(r, 0.0);
  o[1] = vec3<f32>(1.0, 2.0, 3.0) * m;
}`,
		// columns (1,0,0) (0,1,0) (0,0,1) (1,1,1), stride 16
		in:   map[B][]byte{b0(0): bs(1.0, 0.0, 0.0, 0.0, 0.0, 1.0, 0.0, 0.0, 0.0, 0.0, 1.0, 0.0, 1.0, 1.0, 1.0, 0.0), b0(1): zeros(32)},
		want: map[B][]any{b0(1): {5.0, 6.0, 7.0, 0.0, 1.0, 2.0, 3.0, 6.0}}},

	{name: "compound_assign_incdec", wgsl: `
@group(0) @binding(0) var<storage, read> a: i32;
@group(0) @binding(1) var<storage, read_write> o: array<i32, 14>;
@compute @workgroup_size(1) fn main() {
  var x = a;
  x += 5; o[0] = x; x -= 3; o[1] = x; x *= 2; o[2] = x; x /= 5; o[3] = x; x %= 3; o[4] = x;
  x <<= 2u; o[5] = x; x >>= 1u; o[6] = x; x &= 6; o[7] = x; x |= 9; o[8] = x; x ^= 5; o[9] = x;
  x++; o[10] = x; x--; x--; o[11] = x;
  var v = vec2<i32>(1, 2); v *= 3; v.x += 10; o[12] = v.x; o[13] = v.y;
}`,
		in:   map[B][]byte{b0(0): bs(10), b0(1): zeros(56)},
		want: map[B][]any{b0(1): {15, 12, 24, 4, 1, 4, 2, 2, 11, 14, 15, 13, 13, 6}}},

	{name: "zero_values_const_let", wgsl: `
const K = 5;
const KV = vec2<u32>(3u, 4u);
@group(0) @binding(0) var<storage, read_write> o: array<u32, 8>;
@compute @workgroup_size(1) fn main() {
  var v = vec3<i32>(); let z = i32(); var f: f32; var b: bool; var arr: array<u32, 2>;
  let m = mat2x2<f32>();
  o[0] = u32(v.x + v.y + v.z + z) + 7u; o[1] = u32(f) + 1u; o[2] = u32(b); o[3] = arr[1] + u32(K);
  o[4] = KV.x * KV.y; o[5] = u32(m[1][1]); o[6] = u32(K * K - 1); o[7] = u32(vec2<f32>().y) + 2u;
}`,
		in:   map[B][]byte{b0(0): bs(9, 9, 9, 9, 9, 9, 9, 9)},
		want: map[B][]any{b0(0): {uint32(7), uint32(1), uint32(0), uint32(5), uint32(12), uint32(0), uint32(24), uint32(2)}}},

	{name: "vec_constructors", wgsl: `
@group(0) @binding(0) var<storage, read> a: vec2<f32>;
@group(0) @binding(1) var<storage, read_write> o: array<vec4<f32>, 4>;
@group(0) @binding(2) var<storage, read_write> p: array<vec4<i32>, 2>;
@compute @workgroup_size(1) fn main() {
  o[0] = vec4<f32>(a, 3.0, 4.0);
  o[1] = vec4<f32>(a.y);
  o[2] = vec4<f32>(vec3<f32>(a, 1.0), 0.5);
  o[3] = vec4<f32>(vec2<f32>(vec2<i32>(7, -8)), vec2<f32>(vec2<u32>(1u, 2u)));
  p[0] = vec4<i32>(vec3<i32>(vec3<f32>(1.9, -1.9, 0.5)), 1);
  p[1] = vec4<i32>(vec2<i32>(vec2<u32>(4294967295u, 5u)), vec2<i32>(vec2<bool>(true, false)));
}`,
		in: map[B][]byte{b0(0): bs(1.0, 2.0), b0(1): zeros(64), b0(2): zeros(32)},
		want: map[B][]any{b0(1): {1.0, 2.0, 3.0, 4.0, 2.0, 2.0, 2.0, 2.0, 1.0, 2.0, 1.0, 0.5, 7.0, -8.0, 1.0, 2.0},
			b0(2): {1, -1, 0, 1, -1, 5, 1, 0}}},

	{name: "bool_vec_all_any", wgsl: `
@group(0) @binding(0) var<storage, read> a: vec4<i32>;
@group(0) @binding(1) var<storage, read_write> o: array<u32, 8>;
@compute @workgroup_size(1) fn main() {
  let c = a > vec4<i32>(1);
  o[0] = u32(all(c)); o[1] = u32(any(c)); o[2] = u32(all(!c)); o[3] = u32(any(!c));
  o[4] = u32(all(a == a)); o[5] = u32(any(a.xy == a.zw));
  let d = c & vec4<bool>(true, true, false, false);
  o[6] = u32(d.x) + 2u * u32(d.y) + 4u * u32(d.z) + 8u * u32(d.w);
  let e = c | vec4<bool>(true, false, false, false);
  o[7] = u32(e.x) + 2u * u32(e.y) + 4u * u32(e.z) + 8u * u32(e.w);
}`,
		// a = (1,2,3,1): c = (F,T,T,F)
		in:   map[B][]byte{b0(0): bs(1, 2, 3, 1), b0(1): zeros(32)},
		want: map[B][]any{b0(1): {uint32(0), uint32(1), uint32(0), uint32(1), uint32(1), uint32(0), uint32(2), uint32(7)}}},

	{name: "scalar_vector_int_mix", wgsl: `
@group(0) @binding(0) var<storage, read> a: vec2<i32>;
@group(0) @binding(1) var<storage, read_write> o: array<vec2<i32>, 6>;
@compute @workgroup_size(1) fn main() {
  o[0] = a * 2; o[1] = 10 - a; o[2] = a / 2; o[3] = a % 3; o[4] = a / (a.x - a.x); o[5] = 7 / a;
}`,
		// a = (3,-4)
		in:   map[B][]byte{b0(0): bs(3, -4), b0(1): zeros(48)},
		want: map[B][]any{b0(1): {6, -8, 7, 14, 1, -2, 0, -1, 3, -4, 2, -1}}},

	{name: "vec3_ops_in_storage", wgsl: `
@group(0) @binding(0) var<storage, read> a: array<vec3<f32>, 2>;
@group(0) @binding(1) var<storage, read_write> o: array<vec3<f32>, 3>;
@compute @workgroup_size(1) fn main() {
  o[0] = a[0] + a[1]; o[1] = a[0] * a[1].zyx; o[2] = vec3<f32>(a[0].z, a[1].x, 1.0);
}`,
		in:   map[B][]byte{b0(0): bs(1.0, 2.0, 3.0, anyPad(4), 4.0, 5.0, 6.0, anyPad(4)), b0(1): zeros(48)},
		want: map[B][]any{b0(1): {5.0, 7.0, 9.0, anyPad(4), 6.0, 10.0, 12.0, anyPad(4), 3.0, 4.0, 1.0, anyPad(4)}}},

	{name: "u32_vec_shift_and_bitcast", wgsl: `
@group(0) @binding(0) var<storage, read> a: vec4<u32>;
@group(0) @binding(1) var<storage, read_write> o: array<vec4<u32>, 4>;
@compute @workgroup_size(1) fn main() {
  o[0] = a >> vec4<u32>(4u, 8u, 0u, 31u);
  o[1] = a << vec4<u32>(28u);
  o[2] = bitcast<vec4<u32>>(bitcast<vec4<i32>>(a) >> vec4<u32>(4u));
  o[3] = ~a ^ vec4<u32>(1u);
}`,
		in: map[B][]byte{b0(0): bs(uint32(0x80000010), uint32(0x0000FF00), uint32(7), uint32(0xFFFFFFFF)), b0(1): zeros(64)},
		want: map[B][]any{b0(1): {uint32(0x08000001), uint32(0xFF), uint32(7), uint32(1),
			uint32(0), uint32(0), uint32(0x70000000), uint32(0xF0000000),
			uint32(0xF8000001), uint32(0x00000FF0), uint32(0), uint32(0xFFFFFFFF),
			uint32(0x7FFFFFEE), uint32(0xFFFF00FE), uint32(0xFFFFFFF9), uint32(1)}}},
	{name: "shift_count_modulo_32", wgsl: `
@group(0) @binding(0) var<storage, read> a: array<i32, 2>;
@group(0) @binding(1) var<storage, read> u: array<u32, 2>;
@group(0) @binding(2) var<storage, read_write> o: array<i32, 4>;
@compute @workgroup_size(1) fn main() {
  o[0] = a[0] << u[0]; o[1] = a[0] >> u[0]; o[2] = i32(bitcast<u32>(a[1]) >> u[1]); o[3] = a[1] >> u[1];
}`,
		// WGSL: the shift count is taken modulo 32 at run time: 33 -> 1, 63 -> 31
		in:   map[B][]byte{b0(0): bs(-16, iMin), b0(1): bs(uint32(33), uint32(63)), b0(2): zeros(16)},
		want: map[B][]any{b0(2): {-32, -8, 1, -1}}},
}

func TestConformanceGroup1(t *testing.T) {
	for _, cp := range progsGroup1 {
		cp := cp
		t.Run(cp.name, func(t *testing.T) { runConf(t, cp) })
	}
}
