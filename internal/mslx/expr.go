package mslx

import (
	"math"

	"verif/internal/xrt"
)

// ---------------------------------------------------------------- helpers on typed expressions

func (p *parser) opaqueCheck(e *Expr) {
	if e.t != nil && e.t.Kind == KOpaque {
		panic(unsupported(e.line, "expression of type %s", e.t))
	}
}

// rvalue applies the lvalue-to-rvalue conversion as far as static typing is concerned: packed
// vectors become ordinary vectors. The node stays an lvalue node (eval loads it).
func (p *parser) rvalue(e *Expr) *Expr {
	p.opaqueCheck(e)
	if e.t.Kind == KPackedVec {
		return &Expr{op: xConv, cv: cvRelabel, t: e.t.unpacked(), a: e, line: e.line}
	}
	if e.t.Kind == KAtomic {
		panic(malformed(e.line, "atomic object used as a value"))
	}
	return e
}

func (p *parser) rvalueKeepLv(e *Expr) *Expr { return p.rvalue(e) }

// promote is the C++ integral promotion.
func (p *parser) promote(t *Type) *Type {
	switch t.Kind {
	case KBool, KChar, KUChar, KShort, KUShort:
		return tInt
	}
	return t
}

// arithType: the usual arithmetic conversions on two scalar types.
func arithType(a, b *Type) *Type {
	if a.Kind == KFloat || b.Kind == KFloat {
		return tFloat
	}
	if a.Kind == KHalf || b.Kind == KHalf {
		if a.Kind == KHalf && b.Kind == KHalf {
			return tHalf
		}
		// half op integer -> half
		return tHalf
	}
	if a.Kind == KUInt || b.Kind == KUInt {
		return tUInt
	}
	return tInt
}

func lit(t *Type, bits uint32, line int) *Expr {
	e := &Expr{op: xLit, t: t, line: line}
	e.lit = cell(bits)
	return e
}

// convert performs an implicit conversion of e to type `to` (copy-initialisation semantics).
func (p *parser) convert(e *Expr, to *Type, line int) *Expr { return p.convertX(e, to, line, false) }

func (p *parser) convertX(e *Expr, to *Type, line int, explicit bool) *Expr {
	if to.Kind == KOpaque {
		panic(unsupported(line, "conversion to %s", to))
	}
	switch e.op {
	case xInitList:
		return p.listInit(to, e.args, line)
	case xDefaultCtor:
		if !p.defCtorOK {
			panic(unsupported(line, "DefaultConstructible with a non-standard definition"))
		}
		if to.Kind == KVoid || to.Kind == KPtr {
			panic(unsupported(line, "DefaultConstructible converted to %s", to))
		}
		return &Expr{op: xZero, t: to, line: line}
	}
	e = p.rvalue(e)
	from := e.t
	if sameType(from, to) {
		return e
	}
	switch {
	case to.Kind == KPackedVec && from.Kind == KVec && from.N == to.N && from.Elem == to.Elem:
		return &Expr{op: xConv, cv: cvRelabel, t: to, a: e, line: line}
	case to.Kind == KPackedVec && (from.isScalar() || from.Kind == KVec):
		inner := p.convertX(e, to.unpacked(), line, explicit)
		return &Expr{op: xConv, cv: cvRelabel, t: to, a: inner, line: line}
	case from.isScalar() && to.isScalar():
		if e.op == xLit {
			if v, ok := foldScalarConv(e, to); ok {
				return v
			}
		}
		return &Expr{op: xConv, cv: cvScalar, t: to, a: e, line: line, expl: explicit}
	case from.isScalar() && to.Kind == KVec:
		inner := p.convertX(e, to.Elem, line, explicit)
		return &Expr{op: xConv, cv: cvSplat, t: to, a: inner, line: line}
	case from.Kind == KVec && to.Kind == KVec && from.N == to.N:
		if !explicit {
			panic(unsupported(line, "implicit conversion from %s to %s", from, to))
		}
		return &Expr{op: xConv, cv: cvScalar, t: to, a: e, line: line, expl: true}
	case from.Kind == KPtr && to.Kind == KPtr:
		if from.Space == to.Space && sameType(from.Elem, to.Elem) && (!from.ConstP || to.ConstP) {
			return &Expr{op: xConv, cv: cvRelabel, t: to, a: e, line: line}
		}
	case from.Kind == KEnumConst || to.Kind == KEnumConst:
		panic(unsupported(line, "conversion involving an enumerator"))
	}
	panic(malformed(line, "cannot convert %s to %s", from, to))
}

// foldScalarConv folds conversions of literals whose result cannot trap.
func foldScalarConv(e *Expr, to *Type) (*Expr, bool) {
	from := e.t
	bits := uint32(e.lit)
	if from.isIntLike() && from.Kind != KBool && (to.Kind == KInt || to.Kind == KUInt) {
		return lit(to, bits, e.line), true
	}
	if from.Kind == KInt && to.Kind == KFloat {
		return lit(to, math.Float32bits(float32(int32(bits))), e.line), true
	}
	if from.Kind == KUInt && to.Kind == KFloat {
		return lit(to, math.Float32bits(float32(bits)), e.line), true
	}
	return nil, false
}

// initializer: copy-initialise an object of type t from the operand.
func (p *parser) initializer(t *Type, e *Expr) *Expr {
	return p.convert(e, t, e.line)
}

// listInit implements `T {a, b}` / `T x = {…}`.
func (p *parser) listInit(t *Type, items []*Expr, line int) *Expr {
	if s := t.hasOpaque(); s != "" {
		panic(unsupported(line, "initialisation of %s", s))
	}
	if len(items) == 0 {
		if t.Kind == KVoid || t.Kind == KTParam {
			panic(malformed(line, "cannot value-initialise %s", t))
		}
		return &Expr{op: xZero, t: t, line: line}
	}
	switch t.Kind {
	case KStruct, KArray:
		if len(items) == 1 && items[0].op != xInitList && items[0].op != xDefaultCtor && sameType(items[0].t, t) {
			return p.rvalue(items[0])
		}
		pos := 0
		c := p.aggInit(t, items, &pos, line)
		if pos < len(items) {
			panic(malformed(line, "too many initialisers for %s", t))
		}
		return c
	case KVec, KPackedVec, KMat:
		return p.construct(t, items, line)
	case KAtomic:
		panic(unsupported(line, "initialiser for an atomic"))
	}
	if t.isScalar() {
		if len(items) != 1 {
			panic(malformed(line, "scalar initialised from %d values", len(items)))
		}
		return p.convert(items[0], t, line)
	}
	panic(malformed(line, "cannot list-initialise %s", t))
}

// aggInit performs aggregate initialisation of t from items[*pos:], with C++ brace elision: a
// member that is itself an aggregate and whose initialiser is neither a braced list nor an
// expression of the member's type takes its elements from the enclosing list.
func (p *parser) aggInit(t *Type, items []*Expr, pos *int, line int) *Expr {
	c := &Expr{op: xConstruct, t: t, line: line}
	n := t.N
	if t.Kind == KStruct {
		n = len(t.Fields)
	}
	for i := 0; i < n; i++ {
		ft := t.Elem
		if t.Kind == KStruct {
			ft = t.Fields[i].T
		}
		if *pos >= len(items) {
			if s := ft.hasOpaque(); s != "" {
				panic(unsupported(line, "initialisation of %s", s))
			}
			c.args = append(c.args, &Expr{op: xZero, t: ft, line: line})
			continue
		}
		it := items[*pos]
		isAgg := ft.Kind == KStruct || ft.Kind == KArray
		if isAgg && it.op != xInitList && it.op != xDefaultCtor && !sameType(it.t, ft) {
			c.args = append(c.args, p.aggInit(ft, items, pos, line))
			continue
		}
		*pos++
		c.args = append(c.args, p.convert(it, ft, line))
	}
	return c
}

// construct implements the functional form T(args) for scalar, vector and matrix types.
func (p *parser) construct(t *Type, args []*Expr, line int) *Expr {
	if t.Kind == KOpaque {
		panic(unsupported(line, "construction of %s", t))
	}
	for i, a := range args {
		if a.op == xInitList || a.op == xDefaultCtor {
			panic(unsupported(line, "braced list as constructor argument"))
		}
		args[i] = p.rvalue(a)
	}
	if len(args) == 0 {
		if t.Kind == KVoid {
			panic(malformed(line, "void()"))
		}
		return &Expr{op: xZero, t: t, line: line}
	}
	switch {
	case t.isScalar():
		if len(args) != 1 {
			panic(malformed(line, "%s constructed from %d arguments", t, len(args)))
		}
		a := args[0]
		if a.t.isScalar() {
			return p.convertX(a, t, line, true)
		}
		panic(malformed(line, "cannot convert %s to %s", a.t, t))
	case t.Kind == KPackedVec:
		inner := p.construct(t.unpacked(), args, line)
		return &Expr{op: xConv, cv: cvRelabel, t: t, a: inner, line: line}
	case t.Kind == KVec:
		if len(args) == 1 {
			a := args[0]
			if a.t.isScalar() || (a.t.Kind == KVec && a.t.N == t.N) {
				return p.convertX(a, t, line, true)
			}
			panic(malformed(line, "cannot construct %s from %s", t, a.t))
		}
		c := &Expr{op: xConstruct, t: t, line: line}
		n := 0
		for _, a := range args {
			switch {
			case a.t.isScalar():
				c.args = append(c.args, p.convertX(a, t.Elem, line, true))
				n++
			case a.t.Kind == KVec:
				c.args = append(c.args, p.convertX(a, vecOf(t.Elem, a.t.N), line, true))
				n += a.t.N
			default:
				panic(malformed(line, "cannot construct %s from %s", t, a.t))
			}
		}
		if n != t.N {
			panic(malformed(line, "%s constructed from %d components", t, n))
		}
		return c
	case t.Kind == KMat:
		if len(args) == 1 && sameType(args[0].t, t) {
			return args[0]
		}
		c := &Expr{op: xConstruct, t: t, line: line}
		if len(args) == t.N {
			allCols := true
			for _, a := range args {
				if !(a.t.Kind == KVec && a.t.N == t.Rows) {
					allCols = false
				}
			}
			if allCols {
				for _, a := range args {
					c.args = append(c.args, p.convertX(a, t.Elem, line, true))
				}
				return c
			}
		}
		if len(args) == t.N*t.Rows {
			for _, a := range args {
				if !a.t.isScalar() {
					panic(malformed(line, "cannot construct %s from %s", t, a.t))
				}
				c.args = append(c.args, p.convertX(a, tFloat, line, true))
			}
			return c
		}
		panic(unsupported(line, "matrix constructor %s from %d arguments", t, len(args)))
	case t.Kind == KStruct || t.Kind == KArray:
		if len(args) == 1 && sameType(args[0].t, t) {
			return args[0]
		}
		panic(malformed(line, "no constructor %s(...)", t))
	}
	panic(malformed(line, "cannot construct %s", t))
}

// parseCtorArgs parses `( args )` after a type name.
func (p *parser) parseCtorArgs(t *Type, line int) *Expr {
	p.expect("(")
	var args []*Expr
	for !p.accept(")") {
		if len(args) > 0 {
			p.expect(",")
		}
		args = append(args, p.parseInitOperand())
	}
	if t.Kind == KDefaultCtor {
		if len(args) != 0 {
			panic(malformed(line, "DefaultConstructible takes no arguments"))
		}
		return &Expr{op: xDefaultCtor, t: tDefaultCtor, line: line}
	}
	return p.construct(t, args, line)
}

func (p *parser) parseInitList() *Expr {
	line := p.expect("{").line
	e := &Expr{op: xInitList, t: tInitList, line: line}
	for !p.accept("}") {
		if len(e.args) > 0 {
			p.expect(",")
			if p.accept("}") { // trailing comma
				break
			}
		}
		if p.isP(".") {
			panic(unsupported(p.line(), "designated initialiser"))
		}
		e.args = append(e.args, p.parseInitOperand())
	}
	return e
}

// parseInitOperand: an initializer-clause (assignment-expression or braced-init-list).
func (p *parser) parseInitOperand() *Expr {
	if p.isP("{") {
		return p.parseInitList()
	}
	return p.parseExpr()
}

// constInt evaluates an integer constant expression.
func (p *parser) constInt(e *Expr) (v uint32, ok bool) {
	if !e.t.isIntLike() {
		return 0, false
	}
	if e.op == xLit {
		return uint32(e.lit), true
	}
	if !isConstExpr(e) {
		return 0, false
	}
	defer func() {
		if r := recover(); r != nil {
			switch r.(type) {
			case *xrt.Trap, *xrt.Unsupported, *xrt.Malformed, *xrt.StepLimit:
				ok = false
			default:
				panic(r)
			}
		}
	}()
	x := &exec{steps: 10000}
	val := x.eval(e)
	return uint32(val.a[0]), true
}

func isConstExpr(e *Expr) bool {
	if e == nil {
		return true
	}
	switch e.op {
	case xLit:
		return true
	case xUnary, xBinary, xConv, xCond, xLogAnd, xLogOr:
		if !isConstExpr(e.a) || !isConstExpr(e.b) || !isConstExpr(e.c) {
			return false
		}
		return true
	}
	return false
}

// ---------------------------------------------------------------- expression grammar

var assignOps = map[string]binOp{"+=": bAdd, "-=": bSub, "*=": bMul, "/=": bDiv, "%=": bRem, "&=": bAnd, "|=": bOr, "^=": bXor, "<<=": bShl}

func (p *parser) parseExpr() *Expr {
	lhs := p.parseCond()
	t := p.peek()
	if t.kind != tkPunct {
		return lhs
	}
	line := t.line
	if t.text == "=" {
		p.pos++
		rhs := p.parseInitOperand()
		return p.assign(lhs, rhs, line)
	}
	if op, ok := assignOps[t.text]; ok {
		p.pos++
		rhs := p.parseExpr()
		return p.compound(lhs, op, rhs, line)
	}
	if t.text == ">" && p.isPN(1, ">") && p.peekN(1).adj && p.isPN(2, "=") && p.peekN(2).adj {
		p.pos += 3
		rhs := p.parseExpr()
		return p.compound(lhs, bShr, rhs, line)
	}
	return lhs
}

func (p *parser) checkWritable(lhs *Expr, line int) {
	if !lhs.lv {
		panic(malformed(line, "expression is not assignable"))
	}
	if lhs.cst {
		panic(malformed(line, "assignment to a const-qualified object"))
	}
	if lhs.space == SpConstant {
		panic(malformed(line, "assignment to an object in the constant address space"))
	}
	if lhs.t.Kind == KAtomic {
		panic(malformed(line, "assignment to an atomic object"))
	}
	if lhs.op == xSwizzle && lhs.nswz > 1 {
		var seen [4]bool
		for i := 0; i < int(lhs.nswz); i++ {
			if seen[lhs.swz[i]] {
				panic(malformed(line, "swizzle with repeated components is not assignable"))
			}
			seen[lhs.swz[i]] = true
		}
	}
}

func (p *parser) assign(lhs, rhs *Expr, line int) *Expr {
	p.opaqueCheck(lhs)
	p.checkWritable(lhs, line)
	if lhs.t.Kind == KArray {
		panic(malformed(line, "assignment to a C array"))
	}
	r := p.convert(rhs, lhs.t, line)
	return &Expr{op: xAssign, t: lhs.t, a: lhs, b: r, line: line}
}

func (p *parser) compound(lhs *Expr, op binOp, rhs *Expr, line int) *Expr {
	p.opaqueCheck(lhs)
	p.checkWritable(lhs, line)
	// a op= b  ==  a = T(a op b) with a evaluated once. Type-check `a op b` on a placeholder for a.
	if lhs.t.Kind == KArray || lhs.t.Kind == KStruct {
		panic(malformed(line, "compound assignment to %s", lhs.t))
	}
	ph := &Expr{op: xPlaceholder, t: lhs.t.unpacked(), line: line}
	bin := p.binary(op, ph, p.rvalue(rhs), line)
	if !sameType(bin.t, lhs.t.unpacked()) && !(bin.t.isScalar() && lhs.t.isScalar()) {
		panic(malformed(line, "compound assignment: %s cannot be assigned to %s", bin.t, lhs.t))
	}
	back := p.convert(bin, lhs.t, line)
	return &Expr{op: xCompound, t: lhs.t, a: lhs, b: back, line: line}
}

func (p *parser) parseCond() *Expr {
	c := p.parseBinary(1)
	if !p.isP("?") {
		return c
	}
	line := p.next().line
	c = p.rvalue(c)
	if !c.t.isScalar() {
		panic(unsupported(line, "?: with a condition of type %s", c.t))
	}
	c = p.convert(c, tBool, line)
	a := p.parseExpr()
	p.expect(":")
	b := p.parseExpr() // assignment-expression (right associative)
	return p.conditional(c, a, b, line)
}

func (p *parser) conditional(c, a, b *Expr, line int) *Expr {
	aSpecial := a.op == xDefaultCtor
	bSpecial := b.op == xDefaultCtor
	if a.op == xInitList || b.op == xInitList {
		panic(malformed(line, "braced list in ?:"))
	}
	var t *Type
	switch {
	case aSpecial && bSpecial:
		panic(unsupported(line, "?: with two DefaultConstructible operands"))
	case bSpecial:
		a = p.rvalue(a)
		t = a.t
		b = p.convert(b, t, line)
	case aSpecial:
		b = p.rvalue(b)
		t = b.t
		a = p.convert(a, t, line)
	default:
		p.opaqueCheck(a)
		p.opaqueCheck(b)
		if a.lv && b.lv && sameType(a.t, b.t) && a.space == b.space && a.t.Kind != KAtomic {
			// both operands are lvalues of one type: the result is an lvalue
			return &Expr{op: xCond, t: a.t, a: c, b: a, c: b, lv: true, cst: a.cst || b.cst, space: a.space, line: line}
		}
		a, b = p.rvalue(a), p.rvalue(b)
		switch {
		case sameType(a.t, b.t):
			t = a.t
		case a.t.isScalar() && b.t.isScalar():
			t = arithType(p.promote(a.t), p.promote(b.t))
			a, b = p.convert(a, t, line), p.convert(b, t, line)
		case a.t.Kind == KVec && b.t.isScalar():
			t = a.t
			b = p.convert(b, t, line)
		case b.t.Kind == KVec && a.t.isScalar():
			t = b.t
			a = p.convert(a, t, line)
		default:
			panic(malformed(line, "?: operands of types %s and %s", a.t, b.t))
		}
	}
	if t.Kind == KVoid {
		panic(unsupported(line, "?: of type void"))
	}
	return &Expr{op: xCond, t: t, a: c, b: a, c: b, line: line}
}

type binInfo struct {
	op   binOp
	prec int
	ntok int
	log  int // 1 &&, 2 ||
}

func (p *parser) peekBin() (binInfo, bool) {
	t := p.peek()
	if t.kind != tkPunct {
		return binInfo{}, false
	}
	switch t.text {
	case "||":
		return binInfo{prec: 1, ntok: 1, log: 2}, true
	case "&&":
		return binInfo{prec: 2, ntok: 1, log: 1}, true
	case "|":
		return binInfo{op: bOr, prec: 3, ntok: 1}, true
	case "^":
		return binInfo{op: bXor, prec: 4, ntok: 1}, true
	case "&":
		return binInfo{op: bAnd, prec: 5, ntok: 1}, true
	case "==":
		return binInfo{op: bEq, prec: 6, ntok: 1}, true
	case "!=":
		return binInfo{op: bNe, prec: 6, ntok: 1}, true
	case "<":
		return binInfo{op: bLt, prec: 7, ntok: 1}, true
	case "<=":
		return binInfo{op: bLe, prec: 7, ntok: 1}, true
	case ">":
		n1 := p.peekN(1)
		if n1.kind == tkPunct && n1.adj {
			if n1.text == ">" {
				n2 := p.peekN(2)
				if n2.kind == tkPunct && n2.adj && n2.text == "=" {
					return binInfo{}, false // >>=
				}
				return binInfo{op: bShr, prec: 8, ntok: 2}, true
			}
			if n1.text == "=" {
				return binInfo{op: bGe, prec: 7, ntok: 2}, true
			}
		}
		return binInfo{op: bGt, prec: 7, ntok: 1}, true
	case "<<":
		return binInfo{op: bShl, prec: 8, ntok: 1}, true
	case "+":
		return binInfo{op: bAdd, prec: 9, ntok: 1}, true
	case "-":
		return binInfo{op: bSub, prec: 9, ntok: 1}, true
	case "*":
		return binInfo{op: bMul, prec: 10, ntok: 1}, true
	case "/":
		return binInfo{op: bDiv, prec: 10, ntok: 1}, true
	case "%":
		return binInfo{op: bRem, prec: 10, ntok: 1}, true
	}
	return binInfo{}, false
}

func (p *parser) parseBinary(minPrec int) *Expr {
	lhs := p.parseUnary()
	for {
		bi, ok := p.peekBin()
		if !ok || bi.prec < minPrec {
			return lhs
		}
		line := p.line()
		p.pos += bi.ntok
		rhs := p.parseBinary(bi.prec + 1)
		lhs, rhs = p.rvalue(lhs), p.rvalue(rhs)
		if bi.log != 0 {
			lhs = p.logical(bi.log, lhs, rhs, line)
		} else {
			lhs = p.binary(bi.op, lhs, rhs, line)
		}
	}
}

func (p *parser) logical(kind int, a, b *Expr, line int) *Expr {
	if a.t.isScalar() && b.t.isScalar() {
		a, b = p.convert(a, tBool, line), p.convert(b, tBool, line)
		op := xLogAnd
		if kind == 2 {
			op = xLogOr
		}
		return &Expr{op: op, t: tBool, a: a, b: b, line: line}
	}
	// Vector operands: component-wise, both sides evaluated (clang extended-vector semantics).
	n := a.t.comps()
	if b.t.comps() > n {
		n = b.t.comps()
	}
	if n < 2 || (a.t.Kind != KVec && !a.t.isScalar()) || (b.t.Kind != KVec && !b.t.isScalar()) ||
		(a.t.Kind == KVec && a.t.N != n) || (b.t.Kind == KVec && b.t.N != n) {
		panic(malformed(line, "operands of types %s and %s to a logical operator", a.t, b.t))
	}
	bt := vecOf(tBool, n)
	a, b = p.toBoolVec(a, bt, line), p.toBoolVec(b, bt, line)
	op := bLAnd
	if kind == 2 {
		op = bLOr
	}
	return &Expr{op: xBinary, bop: op, t: bt, a: a, b: b, line: line}
}

func (p *parser) toBoolVec(e *Expr, bt *Type, line int) *Expr {
	if e.t.isScalar() {
		return p.convert(p.convert(e, tBool, line), bt, line)
	}
	if e.t.Elem.Kind == KBool {
		return e
	}
	return p.convertX(e, bt, line, true)
}

// binary types one arithmetic / bitwise / comparison / shift operator.
func (p *parser) binary(op binOp, a, b *Expr, line int) *Expr {
	p.opaqueCheck(a)
	p.opaqueCheck(b)
	at, bt := a.t, b.t
	if at.Kind == KEnumConst && bt.Kind == KEnumConst && op == bOr {
		return &Expr{op: xEnum, t: tEnumConst, line: line}
	}
	// matrices
	if at.Kind == KMat || bt.Kind == KMat {
		return p.matrixBinary(op, a, b, line)
	}
	okA := at.isScalar() || at.Kind == KVec
	okB := bt.isScalar() || bt.Kind == KVec
	if !okA || !okB {
		panic(malformed(line, "invalid operands of types %s and %s to a binary operator", at, bt))
	}
	isCmp := op >= bEq && op <= bGe
	isBit := op == bAnd || op == bOr || op == bXor
	isShift := op == bShl || op == bShr
	ae, be := at.scalarOf(), bt.scalarOf()
	if (isBit || isShift || op == bRem) && (ae.isFloatK() || be.isFloatK()) {
		panic(malformed(line, "invalid floating-point operands (%s, %s) to an integer operator", at, bt))
	}
	n := 1
	if at.Kind == KVec {
		n = at.N
	}
	if bt.Kind == KVec {
		if at.Kind == KVec && bt.N != n {
			panic(malformed(line, "vector operands of different sizes (%s, %s)", at, bt))
		}
		n = bt.N
	}
	if isShift {
		// result has the (promoted) type of the left operand; each operand is promoted on its own
		var lt *Type
		if n == 1 {
			lt = p.promote(ae)
			a = p.convert(a, lt, line)
			b = p.convert(b, p.promote(be), line)
		} else {
			if at.Kind != KVec {
				panic(unsupported(line, "scalar shifted by a vector"))
			}
			lt = at
			if bt.Kind == KVec {
				if !be.isIntLike() {
					panic(malformed(line, "bad shift count type %s", bt))
				}
			} else {
				b = p.convert(p.convert(b, p.promote(be), line), vecOf(p.promote(be), n), line)
			}
			if ae.Kind == KBool {
				panic(unsupported(line, "shift of a bool vector"))
			}
		}
		return &Expr{op: xBinary, bop: op, t: lt, a: a, b: b, line: line}
	}
	var et *Type // element type the operation is carried out in
	switch {
	case n == 1:
		et = arithType(p.promote(ae), p.promote(be))
	case at.Kind == KVec && bt.Kind == KVec:
		if ae != be {
			panic(unsupported(line, "vector operands of different element types (%s, %s)", at, bt))
		}
		et = ae
	case at.Kind == KVec:
		et = ae // the scalar is converted to the vector's element type
	default:
		et = be
	}
	if et.Kind == KHalf {
		panic(unsupported(line, "half arithmetic"))
	}
	if n > 1 && et.Kind == KBool && !(isBit || op == bEq || op == bNe) {
		panic(unsupported(line, "arithmetic on bool vectors"))
	}
	if n > 1 && (et.Kind == KChar || et.Kind == KUChar || et.Kind == KShort || et.Kind == KUShort) {
		panic(unsupported(line, "arithmetic on 8/16-bit integer vectors"))
	}
	ot := vecOf(et, n)
	a, b = p.convert(a, ot, line), p.convert(b, ot, line)
	rt := ot
	if isCmp {
		rt = vecOf(tBool, n)
	}
	e := &Expr{op: xBinary, bop: op, t: rt, a: a, b: b, line: line}
	return e
}

func (p *parser) matrixBinary(op binOp, a, b *Expr, line int) *Expr {
	at, bt := a.t, b.t
	mk := func(bop binOp, t *Type) *Expr { return &Expr{op: xBinary, bop: bop, t: t, a: a, b: b, line: line} }
	switch op {
	case bAdd, bSub:
		if at.Kind == KMat && sameType(at, bt) {
			if op == bAdd {
				return mk(bMatAdd, at)
			}
			return mk(bMatSub, at)
		}
	case bMul:
		switch {
		case at.Kind == KMat && bt.isScalar():
			b = p.convert(b, tFloat, line)
			return mk(bMatScalar, at)
		case at.isScalar() && bt.Kind == KMat:
			a = p.convert(a, tFloat, line)
			return mk(bScalarMat, bt)
		case at.Kind == KMat && bt.Kind == KVec && bt.Elem.Kind == KFloat:
			if bt.N != at.N {
				panic(malformed(line, "%s * %s: size mismatch", at, bt))
			}
			return mk(bMatVec, vecTypes[KFloat][at.Rows])
		case at.Kind == KVec && at.Elem.Kind == KFloat && bt.Kind == KMat:
			if at.N != bt.Rows {
				panic(malformed(line, "%s * %s: size mismatch", at, bt))
			}
			return mk(bVecMat, vecTypes[KFloat][bt.N])
		case at.Kind == KMat && bt.Kind == KMat:
			// (R x K) * (K x C): a has K columns of R rows, b has C columns of K rows
			if at.N != bt.Rows {
				panic(malformed(line, "%s * %s: size mismatch", at, bt))
			}
			return mk(bMatMat, matTypes[bt.N][at.Rows])
		}
	case bDiv:
		if at.Kind == KMat && bt.isScalar() {
			b = p.convert(b, tFloat, line)
			return mk(bMatDivScalar, at)
		}
	case bEq, bNe:
		panic(unsupported(line, "matrix comparison"))
	}
	panic(malformed(line, "invalid operands of types %s and %s to a matrix operator", at, bt))
}

func (p *parser) parseUnary() *Expr {
	t := p.peek()
	line := t.line
	if t.kind == tkPunct {
		switch t.text {
		case "-", "+", "!", "~":
			p.pos++
			a := p.rvalue(p.parseUnary())
			return p.unary(t.text[0], a, line)
		case "++", "--":
			p.pos++
			a := p.parseUnary()
			return p.incdec(a, t.text == "++", false, line)
		case "&":
			p.pos++
			a := p.parseUnary()
			p.opaqueCheck(a)
			if !a.lv {
				panic(malformed(line, "cannot take the address of an rvalue"))
			}
			if a.op == xSwizzle || (a.op == xIndex && a.a.t.isVec()) {
				panic(unsupported(line, "address of a vector component"))
			}
			pt := &Type{Kind: KPtr, Elem: a.t, Space: a.space, ConstP: a.cst || a.space == SpConstant}
			return &Expr{op: xAddrOf, t: pt, a: a, line: line}
		case "*":
			p.pos++
			a := p.rvalue(p.parseUnary())
			if a.t.Kind != KPtr {
				panic(malformed(line, "indirection requires a pointer operand (%s)", a.t))
			}
			return &Expr{op: xDeref, t: a.t.Elem, a: a, lv: true, cst: a.t.ConstP, space: a.t.Space, line: line}
		case "(":
			// C-style cast?
			if p.startsType(1) {
				save := p.pos
				p.pos++
				ct, _, _ := p.parseTypeSpec()
				if ct != nil && p.accept(")") && ct.Kind != KDefaultCtor {
					a := p.rvalue(p.parseUnary())
					return p.explicitCast(ct, a, line)
				}
				p.pos = save
			}
		}
	}
	if t.kind == tkIdent && (t.text == "sizeof" || t.text == "alignof" || t.text == "new" || t.text == "delete" || t.text == "throw") {
		panic(unsupported(line, "%s expression", t.text))
	}
	return p.parsePostfix()
}

func (p *parser) explicitCast(t *Type, a *Expr, line int) *Expr {
	if t.Kind == KOpaque {
		panic(unsupported(line, "cast to %s", t))
	}
	if a.op == xDefaultCtor || a.op == xInitList {
		return p.convert(a, t, line)
	}
	if sameType(a.t, t) {
		return a
	}
	if t.isScalar() || t.isVec() {
		return p.construct(t, []*Expr{a}, line)
	}
	return p.convertX(a, t, line, true)
}

func (p *parser) unary(op byte, a *Expr, line int) *Expr {
	p.opaqueCheck(a)
	t := a.t
	switch {
	case t.Kind == KMat:
		if op == '-' {
			return &Expr{op: xUnary, uop: op, t: t, a: a, line: line}
		}
		panic(malformed(line, "invalid matrix operand to unary %c", op))
	case t.isScalar():
		if op == '!' {
			return &Expr{op: xUnary, uop: op, t: tBool, a: p.convert(a, tBool, line), line: line}
		}
		if op == '~' && t.isFloatK() {
			panic(malformed(line, "~ on a floating-point operand"))
		}
		pt := p.promote(t)
		if pt.Kind == KHalf {
			panic(unsupported(line, "half arithmetic"))
		}
		a = p.convert(a, pt, line)
		if op == '+' {
			return a
		}
		return &Expr{op: xUnary, uop: op, t: pt, a: a, line: line}
	case t.Kind == KVec:
		el := t.Elem
		switch op {
		case '!':
			bt := vecOf(tBool, t.N)
			return &Expr{op: xUnary, uop: op, t: bt, a: p.toBoolVec(a, bt, line), line: line}
		case '~':
			if el.isFloatK() {
				panic(malformed(line, "~ on a floating-point operand"))
			}
		}
		if el.Kind != KInt && el.Kind != KUInt && el.Kind != KFloat && !(el.Kind == KBool && op == '~') {
			panic(unsupported(line, "unary %c on %s", op, t))
		}
		if op == '+' {
			return a
		}
		return &Expr{op: xUnary, uop: op, t: t, a: a, line: line}
	}
	panic(malformed(line, "invalid operand of type %s to unary %c", t, op))
}

func (p *parser) incdec(a *Expr, inc, post bool, line int) *Expr {
	p.opaqueCheck(a)
	p.checkWritable(a, line)
	if !(a.t.Kind == KInt || a.t.Kind == KUInt || a.t.Kind == KFloat) {
		panic(unsupported(line, "++/-- on %s", a.t))
	}
	d := int8(1)
	if !inc {
		d = -1
	}
	e := &Expr{op: xIncDec, t: a.t, a: a, inc: d, post: post, line: line}
	return e
}

const swzXYZW = "xyzw"
const swzRGBA = "rgba"

func (p *parser) parsePostfix() *Expr {
	e := p.parsePrimary()
	for {
		t := p.peek()
		if t.kind != tkPunct {
			return e
		}
		line := t.line
		switch t.text {
		case "[":
			if p.isPN(1, "[") {
				return e
			}
			p.pos++
			idx := p.rvalue(p.parseExpr())
			p.expect("]")
			e = p.index(e, idx, line)
		case ".":
			p.pos++
			n := p.ident()
			e = p.member(e, n.text, line)
		case "->":
			panic(unsupported(line, "-> operator"))
		case "++", "--":
			p.pos++
			e = p.incdec(e, t.text == "++", true, line)
		case "(":
			panic(malformed(line, "expression of type %s is not callable", e.t))
		default:
			return e
		}
	}
}

func (p *parser) index(e, idx *Expr, line int) *Expr {
	p.opaqueCheck(e)
	if !idx.t.isIntLike() {
		panic(malformed(line, "array subscript of type %s", idx.t))
	}
	idx = p.convert(idx, p.promote(idx.t), line)
	if e.op == xSwizzle && e.nswz > 1 && e.lv {
		// index into a multi-component swizzle: operate on its value
		c := *e
		c.lv = false
		e = &c
	}
	var et *Type
	switch e.t.Kind {
	case KArray:
		et = e.t.Elem
	case KVec, KPackedVec:
		et = e.t.Elem
	case KMat:
		et = e.t.Elem
	case KPtr:
		panic(unsupported(line, "pointer subscript"))
	default:
		panic(malformed(line, "subscripted value of type %s", e.t))
	}
	return &Expr{op: xIndex, t: et, a: e, b: idx, lv: e.lv, cst: e.cst, space: e.space, line: line}
}

func (p *parser) member(e *Expr, name string, line int) *Expr {
	p.opaqueCheck(e)
	switch e.t.Kind {
	case KStruct:
		f := e.t.field(name)
		if f == nil {
			panic(malformed(line, "no member named %q in %s", name, e.t))
		}
		return &Expr{op: xField, t: f.T, a: e, fld: f, lv: e.lv, cst: e.cst, space: e.space, line: line}
	case KVec, KPackedVec:
		if len(name) < 1 || len(name) > 4 {
			panic(malformed(line, "bad swizzle %q on %s", name, e.t))
		}
		x := &Expr{op: xSwizzle, a: e, lv: e.lv, cst: e.cst, space: e.space, line: line}
		set := swzXYZW
		if indexByte(swzRGBA, name[0]) >= 0 {
			set = swzRGBA
		}
		for i := 0; i < len(name); i++ {
			k := indexByte(set, name[i])
			if k < 0 || k >= e.t.N {
				panic(malformed(line, "bad swizzle %q on %s", name, e.t))
			}
			x.swz[i] = uint8(k)
		}
		x.nswz = uint8(len(name))
		x.t = vecOf(e.t.Elem, len(name))
		if e.op == xSwizzle {
			// a swizzle of a swizzle selects from the underlying vector
			for i := 0; i < int(x.nswz); i++ {
				x.swz[i] = e.swz[x.swz[i]]
			}
			x.a = e.a
		}
		return x
	case KPtr:
		panic(malformed(line, "member access on a pointer (%s)", e.t))
	}
	panic(malformed(line, "member reference base type %s is not a structure", e.t))
}

func indexByte(s string, c byte) int {
	for i := 0; i < len(s); i++ {
		if s[i] == c {
			return i
		}
	}
	return -1
}

func (p *parser) parsePrimary() *Expr {
	t := p.peek()
	line := t.line
	switch t.kind {
	case tkInt:
		p.pos++
		return p.intLiteral(t)
	case tkFloat:
		p.pos++
		if t.isHalf {
			panic(unsupported(line, "half literal"))
		}
		return lit(tFloat, math.Float32bits(t.f32), line)
	case tkPunct:
		if t.text == "(" {
			p.pos++
			e := p.parseExpr()
			if p.isP(",") {
				panic(unsupported(line, "comma operator"))
			}
			p.expect(")")
			return e
		}
		panic(malformed(line, "unexpected %q in expression", t.text))
	case tkEOF:
		panic(malformed(line, "unexpected end of file in expression"))
	}
	// identifier
	switch t.text {
	case "true":
		p.pos++
		return lit(tBool, 1, line)
	case "false":
		p.pos++
		return lit(tBool, 0, line)
	case "INFINITY":
		p.pos++
		return lit(tFloat, 0x7f800000, line)
	case "NAN":
		p.pos++
		return lit(tFloat, 0x7fc00000, line)
	case "nullptr", "this":
		panic(unsupported(line, "%s", t.text))
	case "static_cast", "as_type", "reinterpret_cast", "const_cast", "dynamic_cast":
		if sym := p.lookup(t.text); sym != nil {
			break
		}
		p.pos++
		if t.text != "static_cast" && t.text != "as_type" {
			panic(unsupported(line, "%s", t.text))
		}
		if t.text == "as_type" {
			p.prog.usedUnqual["as_type"] = true
		}
		p.expect("<")
		ct, _, _ := p.parseTypeSpec()
		if ct == nil {
			panic(malformed(line, "auto in a cast"))
		}
		p.expect(">")
		p.expect("(")
		a := p.parseExpr()
		p.expect(")")
		if t.text == "static_cast" {
			return p.explicitCast(ct, a, line)
		}
		return p.bitcast(ct, p.rvalue(a), line)
	case "metal":
		if p.isPN(1, "::") {
			if p.isMetalTypeName(2) {
				return p.typeExpr(line)
			}
			p.pos += 2
			return p.metalName(line, true)
		}
	}
	if p.startsType(0) && !isQualifierWord(t.text) {
		return p.typeExpr(line)
	}
	if isQualifierWord(t.text) {
		panic(malformed(line, "unexpected %q in expression", t.text))
	}
	p.pos++
	sym := p.lookup(t.text)
	if sym == nil {
		if p.usingAll {
			if _, ok := builtinByName[t.text]; ok {
				p.pos--
				return p.metalName(line, false)
			}
		}
		panic(malformed(line, "use of undeclared identifier %q", t.text))
	}
	switch sym.kind {
	case symVar:
		return p.varRef(sym.v, line)
	case symFunc:
		if !p.isP("(") {
			panic(unsupported(line, "function name %s used as a value", t.text))
		}
		return p.call(t.text, sym.fns, line)
	}
	panic(malformed(line, "unexpected type name %q", t.text))
}

func isQualifierWord(s string) bool {
	switch s {
	case "const", "constexpr", "volatile", "static", "device", "constant", "thread", "threadgroup", "auto", "struct":
		return true
	}
	return false
}

// typeExpr parses `T(args)` / `T{args}` where the cursor is at a type name.
func (p *parser) typeExpr(line int) *Expr {
	t, sp, _ := p.parseTypeSpec()
	if t == nil || sp != SpNone {
		panic(malformed(line, "unexpected type in expression"))
	}
	if t.Kind == KOpaque {
		panic(unsupported(line, "expression naming %s", t))
	}
	switch {
	case p.isP("("):
		return p.parseCtorArgs(t, line)
	case p.isP("{"):
		l := p.parseInitList()
		if t.Kind == KDefaultCtor {
			if len(l.args) != 0 {
				panic(malformed(line, "DefaultConstructible takes no arguments"))
			}
			return &Expr{op: xDefaultCtor, t: tDefaultCtor, line: line}
		}
		return p.listInit(t, l.args, line)
	case p.isP("::"):
		panic(unsupported(line, "qualified name %s::", t))
	}
	panic(malformed(line, "expected ( or { after type name %s", t))
}

func (p *parser) intLiteral(t *token) *Expr {
	if t.isL {
		panic(unsupported(t.line, "64-bit integer literal %s", t.text))
	}
	v := t.ival
	// C++14 [lex.icon]: decimal without suffix: int, long, long long; with u: unsigned int, ...;
	// hex/octal without suffix: int, unsigned int, long, ...
	switch {
	case t.isU:
		if v > math.MaxUint32 {
			panic(unsupported(t.line, "64-bit integer literal %s", t.text))
		}
		return lit(tUInt, uint32(v), t.line)
	case v <= math.MaxInt32:
		return lit(tInt, uint32(v), t.line)
	case t.isHex && v <= math.MaxUint32:
		return lit(tUInt, uint32(v), t.line)
	}
	panic(unsupported(t.line, "integer literal %s has a 64-bit type", t.text))
}

func (p *parser) varRef(v *Var, line int) *Expr {
	e := &Expr{t: v.t, slot: v.slot, lv: true, cst: v.cst, space: v.space, line: line}
	switch v.kind {
	case vLocal:
		e.op = xLocal
	case vRef:
		e.op = xLocalRef
	case vPtr:
		e.op = xLocalRef
		e.lv = false // the pointer value itself; pointer variables are not assignable here
	case vGlobal:
		if v.t.Kind == KOpaque {
			panic(unsupported(line, "use of constant %s: %s", v.name, v.t.Name))
		}
		e.op = xGlobal
	case vTG:
		e.op = xTG
	}
	return e
}

func (p *parser) bitcast(to *Type, a *Expr, line int) *Expr {
	p.opaqueCheck(a)
	if to.Kind == KOpaque {
		panic(unsupported(line, "as_type<%s>", to))
	}
	okT := func(t *Type) bool { return t.isScalar() || t.isVec() }
	if !okT(to) || !okT(a.t) {
		panic(malformed(line, "as_type<%s>(%s)", to, a.t))
	}
	szOf := func(t *Type) int {
		if t.isScalar() {
			return t.Size
		}
		return t.Elem.Size * t.N // vec3 reinterprets as 3 elements here; sizes must agree below
	}
	if to.Size != a.t.Size || to.scalarOf().Kind == KBool || a.t.scalarOf().Kind == KBool {
		panic(malformed(line, "as_type<%s>(%s): operand sizes differ", to, a.t))
	}
	if szOf(to) != szOf(a.t) {
		panic(unsupported(line, "as_type between 3-component vectors of different element sizes"))
	}
	return &Expr{op: xBitcast, t: to, a: a, line: line}
}
