// Package mslx is an independent parser and interpreter for the Metal Shading Language (C++14
// subset) compute-kernel text that gogpu/naga's MSL backend emits. It is written from the C++14 and
// MSL language rules, not from naga's code generator, and is used as an oracle: it computes struct
// layouts with C++ sizeof/alignof, applies C++ integer-literal typing and the usual arithmetic
// conversions, and traps (xrt.Trap) on what C++/MSL leave undefined.
package mslx

import (
	"fmt"
	"strings"
)

// Kind classifies a Type.
type Kind uint8

const (
	KVoid Kind = iota
	KBool
	KChar
	KUChar
	KShort
	KUShort
	KInt
	KUInt
	KFloat
	KHalf
	KVec       // Elem scalar, N components
	KPackedVec // Elem scalar, N components, alignment of the scalar
	KMat       // N columns of Rows floats (column-major)
	KArray     // Elem, N
	KStruct
	KAtomic // Elem = KInt or KUInt
	KPtr    // Elem pointee, Space, ConstPointee
	KOpaque // textures, samplers, 64-bit scalars, anything outside the subset
	KTParam // template type parameter (only inside an un-instantiated template signature)
	KInitList
	KDefaultCtor // the DefaultConstructible helper
	KEnumConst   // metal::memory_order_relaxed, metal::mem_flags::...
)

// Space is an MSL address space.
type Space uint8

const (
	SpNone Space = iota
	SpThread
	SpThreadgroup
	SpDevice
	SpConstant
)

func (s Space) String() string {
	switch s {
	case SpThread:
		return "thread"
	case SpThreadgroup:
		return "threadgroup"
	case SpDevice:
		return "device"
	case SpConstant:
		return "constant"
	}
	return ""
}

// Type is an MSL type with both its C++ byte layout (Size/Align, Field.Off) and its flattened cell
// layout (Cells, Field.cellOff) used for non-buffer memory.
type Type struct {
	Kind     Kind
	Name     string
	Elem     *Type
	N        int // vector components / array length / matrix columns
	Rows     int // matrix rows
	Flexible bool
	Fields   []Field
	Size     int
	Align    int
	Cells    int
	Space    Space // KPtr
	ConstP   bool  // KPtr: pointee is const
	scope    *scope
	line     int
	hasFlex  int8 // cache: 0 unknown, 1 no, 2 yes
	unsup    string
}

// Field is one struct member.
type Field struct {
	Name    string
	T       *Type
	Off     int
	cellOff int
	Attrs   []string
	Line    int
}

// MemberLayout is the exported view of a struct member's C++ layout.
type MemberLayout struct {
	Name   string
	Type   string
	Offset int
	Size   int
	Align  int
}

func (t *Type) String() string {
	if t == nil {
		return "<nil>"
	}
	switch t.Kind {
	case KArray:
		return fmt.Sprintf("%s[%d]", t.Elem, t.N)
	case KPtr:
		c := ""
		if t.ConstP {
			c = " const"
		}
		return fmt.Sprintf("%s %s%s*", t.Space, t.Elem, c)
	}
	if t.Name != "" {
		return t.Name
	}
	return fmt.Sprintf("kind%d", t.Kind)
}

var (
	tVoid   = &Type{Kind: KVoid, Name: "void"}
	tBool   = &Type{Kind: KBool, Name: "bool", Size: 1, Align: 1, Cells: 1}
	tChar   = &Type{Kind: KChar, Name: "char", Size: 1, Align: 1, Cells: 1}
	tUChar  = &Type{Kind: KUChar, Name: "uchar", Size: 1, Align: 1, Cells: 1}
	tShort  = &Type{Kind: KShort, Name: "short", Size: 2, Align: 2, Cells: 1}
	tUShort = &Type{Kind: KUShort, Name: "ushort", Size: 2, Align: 2, Cells: 1}
	tInt    = &Type{Kind: KInt, Name: "int", Size: 4, Align: 4, Cells: 1}
	tUInt   = &Type{Kind: KUInt, Name: "uint", Size: 4, Align: 4, Cells: 1}
	tFloat  = &Type{Kind: KFloat, Name: "float", Size: 4, Align: 4, Cells: 1}
	tHalf   = &Type{Kind: KHalf, Name: "half", Size: 2, Align: 2, Cells: 1}

	tAtomicInt  = &Type{Kind: KAtomic, Name: "atomic_int", Elem: tInt, Size: 4, Align: 4, Cells: 1}
	tAtomicUInt = &Type{Kind: KAtomic, Name: "atomic_uint", Elem: tUInt, Size: 4, Align: 4, Cells: 1}

	tInitList    = &Type{Kind: KInitList, Name: "<braced-init-list>"}
	tDefaultCtor = &Type{Kind: KDefaultCtor, Name: "DefaultConstructible"}
	tEnumConst   = &Type{Kind: KEnumConst, Name: "<enum>"}
)

var scalarByName = map[string]*Type{
	"bool": tBool, "char": tChar, "uchar": tUChar, "short": tShort, "ushort": tUShort,
	"int": tInt, "uint": tUInt, "float": tFloat, "half": tHalf,
}

// vecTypes[kind][n], packedTypes[kind][n], matTypes[c][r]
var (
	vecTypes    = map[Kind]*[5]*Type{}
	packedTypes = map[Kind]*[5]*Type{}
	matTypes    [5][5]*Type
	// typesByName maps the unqualified spelling (float3, packed_uint3, float3x2, ...) to the type.
	typesByName = map[string]*Type{}
)

func init() {
	for name, st := range scalarByName {
		typesByName[name] = st
		var v, p [5]*Type
		for n := 2; n <= 4; n++ {
			// MSL: a 3-component vector has the size and alignment of the 4-component one.
			sz := st.Size * n
			if n == 3 {
				sz = st.Size * 4
			}
			v[n] = &Type{Kind: KVec, Name: fmt.Sprintf("%s%d", name, n), Elem: st, N: n, Size: sz, Align: sz, Cells: n}
			p[n] = &Type{Kind: KPackedVec, Name: fmt.Sprintf("packed_%s%d", name, n), Elem: st, N: n, Size: st.Size * n, Align: st.Align, Cells: n}
			typesByName[v[n].Name] = v[n]
			typesByName[p[n].Name] = p[n]
		}
		vv, pp := v, p
		vecTypes[st.Kind] = &vv
		packedTypes[st.Kind] = &pp
	}
	for c := 2; c <= 4; c++ {
		for r := 2; r <= 4; r++ {
			col := vecTypes[KFloat][r]
			m := &Type{Kind: KMat, Name: fmt.Sprintf("float%dx%d", c, r), Elem: col, N: c, Rows: r,
				Size: c * col.Size, Align: col.Align, Cells: c * r}
			matTypes[c][r] = m
			typesByName[m.Name] = m
		}
	}
	typesByName["atomic_int"] = tAtomicInt
	typesByName["atomic_uint"] = tAtomicUInt
}

func vecOf(el *Type, n int) *Type {
	if n == 1 {
		return el
	}
	return vecTypes[el.Kind][n]
}

func (t *Type) isScalar() bool  { return t.Kind >= KBool && t.Kind <= KHalf }
func (t *Type) isInteger() bool { return t.Kind >= KChar && t.Kind <= KUInt }
func (t *Type) isIntLike() bool { return t.Kind >= KBool && t.Kind <= KUInt } // incl. bool
func (t *Type) isVec() bool     { return t.Kind == KVec || t.Kind == KPackedVec }
func (t *Type) isFloatK() bool  { return t.Kind == KFloat || t.Kind == KHalf }
func (t *Type) isSigned() bool {
	return t.Kind == KChar || t.Kind == KShort || t.Kind == KInt
}

// scalarOf returns the scalar component type of a scalar/vector/matrix type (nil otherwise).
func (t *Type) scalarOf() *Type {
	switch t.Kind {
	case KVec, KPackedVec:
		return t.Elem
	case KMat:
		return tFloat
	}
	if t.isScalar() {
		return t
	}
	return nil
}

// comps is the component count of a scalar (1) or vector; 0 for everything else.
func (t *Type) comps() int {
	if t.isScalar() {
		return 1
	}
	if t.isVec() {
		return t.N
	}
	return 0
}

// unpacked maps packed_float3 -> float3 (the type of the value after the lvalue-to-rvalue conversion).
func (t *Type) unpacked() *Type {
	if t.Kind == KPackedVec {
		return vecTypes[t.Elem.Kind][t.N]
	}
	return t
}

func newArray(el *Type, n int, flexible bool) *Type {
	return &Type{Kind: KArray, Elem: el, N: n, Flexible: flexible, Size: el.Size * n, Align: el.Align, Cells: el.Cells * n}
}

func opaque(name string) *Type {
	return &Type{Kind: KOpaque, Name: name, unsup: name}
}

func roundUp(n, a int) int {
	if a <= 1 {
		return n
	}
	return (n + a - 1) / a * a
}

// layoutStruct applies the C++ standard-layout rule: each member at the next multiple of its
// alignment, struct alignment = max member alignment, size rounded up to it (an empty struct has
// size 1).
func layoutStruct(t *Type) {
	off, cell, al := 0, 0, 1
	for i := range t.Fields {
		f := &t.Fields[i]
		a := f.T.Align
		if a < 1 {
			a = 1
		}
		off = roundUp(off, a)
		f.Off = off
		f.cellOff = cell
		off += f.T.Size
		cell += f.T.Cells
		if a > al {
			al = a
		}
	}
	t.Align = al
	t.Size = roundUp(off, al)
	if t.Size == 0 {
		t.Size = 1
	}
	t.Cells = cell
}

// containsFlexible reports whether a buffer of this type ends in (or is) a runtime-sized array,
// spelled by the emitter as `typedef T name[1];`.
func (t *Type) containsFlexible() bool {
	if t.hasFlex != 0 {
		return t.hasFlex == 2
	}
	r := false
	switch t.Kind {
	case KArray:
		r = t.Flexible
	case KStruct:
		for i := range t.Fields {
			if t.Fields[i].T.Kind == KArray && t.Fields[i].T.Flexible {
				r = true
			}
		}
	}
	if r {
		t.hasFlex = 2
	} else {
		t.hasFlex = 1
	}
	return r
}

func (t *Type) field(name string) *Field {
	for i := range t.Fields {
		if t.Fields[i].Name == name {
			return &t.Fields[i]
		}
	}
	return nil
}

// sameType is type identity (structs by declaration, arrays structurally).
func sameType(a, b *Type) bool {
	if a == b {
		return true
	}
	if a == nil || b == nil || a.Kind != b.Kind {
		return false
	}
	switch a.Kind {
	case KArray:
		return a.N == b.N && sameType(a.Elem, b.Elem)
	case KPtr:
		return a.Space == b.Space && a.ConstP == b.ConstP && sameType(a.Elem, b.Elem)
	}
	return false
}

// hasOpaque reports whether the type contains anything outside the supported subset.
func (t *Type) hasOpaque() string {
	switch t.Kind {
	case KOpaque:
		return t.Name
	case KArray, KPtr:
		return t.Elem.hasOpaque()
	case KStruct:
		for i := range t.Fields {
			if s := t.Fields[i].T.hasOpaque(); s != "" {
				return s
			}
		}
	}
	return ""
}

// StructLayout returns the C++/MSL layout of a struct declared in the program.
func (p *Program) StructLayout(name string) (size, align int, members []MemberLayout, ok bool) {
	t := p.structs[name]
	if t == nil {
		return 0, 0, nil, false
	}
	for _, f := range t.Fields {
		members = append(members, MemberLayout{Name: f.Name, Type: f.T.String(), Offset: f.Off, Size: f.T.Size, Align: f.T.Align})
	}
	return t.Size, t.Align, members, true
}

func isMetalOpaqueTypeName(n string) bool {
	switch n {
	case "sampler", "array", "array_ref", "vec", "atomic", "atomic_bool", "atomic_long", "atomic_ulong",
		"atomic_float", "mesh", "acceleration_structure", "visible_function_table", "intersection_function_table",
		"command_buffer", "render_command", "compute_command", "render_pipeline_state", "compute_pipeline_state",
		"imageblock", "simdgroup_float8x8", "simdgroup_half8x8", "simdgroup_matrix", "patch_control_point",
		"long", "ulong", "double", "size_t", "ptrdiff_t", "bfloat":
		return true
	}
	for _, p := range []string{"texture", "depth", "long", "ulong", "double", "packed_long", "packed_ulong", "half2x", "half3x", "half4x", "bfloat", "packed_bfloat"} {
		if strings.HasPrefix(n, p) {
			return true
		}
	}
	return false
}
