package mslx

import (
	"errors"
	"os"
	"path/filepath"
	"strings"
	"testing"

	"github.com/gogpu/naga/msl"

	"verif/internal/xrt"
)

// TestCorpusExec runs every kernel of every corpus shader that parses, over zero-filled 4 KiB
// buffers: any outcome is fine except a panic or an internal interpreter failure.
func TestCorpusExec(t *testing.T) {
	files, _ := filepath.Glob("/repo/snapshot/testdata/in/*.wgsl")
	if len(files) == 0 {
		t.Skip("corpus not found")
	}
	ran, ok, traps, unsup := 0, 0, 0, 0
	for _, f := range files {
		src, _ := os.ReadFile(f)
		for _, pol := range []msl.BoundsCheckPolicy{msl.BoundsCheckReadZeroSkipWrite, msl.BoundsCheckUnchecked} {
			o := fakeOpts()
			o.BoundsCheckPolicies = msl.BoundsCheckPolicies{Index: pol, Buffer: pol, Image: pol}
			var text string
			var cerr error
			func() {
				defer func() {
					if r := recover(); r != nil {
						cerr = errors.New("naga panic")
					}
				}()
				text, _, cerr = compileMSL(t, string(src), o)
			}()
			if cerr != nil {
				continue
			}
			prog, err := Parse(text)
			if err != nil {
				continue
			}
			for _, k := range prog.Kernels() {
				bufs := xrt.Buffers{}
				xo := Opts{ParamBindings: map[string]xrt.Binding{}}
				n := uint32(0)
				var order []xrt.Binding
				for _, p := range k.Params {
					if p.Ref && p.Type != "_mslBufferSizes" {
						b := xrt.Binding{Group: 0, Binding: n}
						n++
						bufs[b] = make([]byte, 4096)
						xo.ParamBindings[p.Name] = b
						order = append(order, b)
					}
				}
				xo.SizesOrder = append(order, order...)
				xo.EntryPoint = k.Name
				xo.WorkgroupSize = [3]uint32{2, 1, 1}
				xo.StepLimit = 200000
				err := prog.Exec(bufs, xo)
				ran++
				var tr *xrt.Trap
				var us *xrt.Unsupported
				switch {
				case err == nil:
					ok++
				case errors.As(err, &tr):
					traps++
				case errors.As(err, &us):
					unsup++
					if strings.Contains(us.What, "internal") {
						t.Errorf("%s/%s: %v", filepath.Base(f), k.Name, err)
					}
				}
			}
		}
	}
	t.Logf("kernels run: %d (ok %d, trap %d, unsupported %d)", ran, ok, traps, unsup)
}

const benchWGSL = `
struct S { v: vec3<f32>, s: f32, arr: array<i32, 4> }
struct R { cnt: atomic<u32>, data: array<i32> }
@group(0) @binding(0) var<storage, read> inp: S;
@group(0) @binding(1) var<storage, read_write> out: R;
@group(0) @binding(2) var<uniform> u: vec4<u32>;
var<private> cnt: i32;
fn helper(p: ptr<function, i32>, x: i32) -> i32 { *p = *p + x; return *p / x; }
@compute @workgroup_size(1)
fn main(@builtin(global_invocation_id) gid: vec3<u32>) {
  var v: i32 = 3;
  let q = helper(&v, i32(u.x));
  let n = arrayLength(&out.data);
  out.data[gid.x] = q + i32(n) + inp.arr[u.y];
  atomicAdd(&out.cnt, 1u);
  var i = 0;
  loop { if i >= 3 { break; } cnt += i; continuing { i++; } }
  switch v { case 1, 2: { cnt = 1; } default: { cnt = 2; } case 3: { cnt = 3; } }
  out.data[1] = cnt + i32(inp.v.x + inp.s);
}`

func benchText(b testing.TB) (string, string) {
	text, info, err := compileMSL(b, benchWGSL, fakeOpts())
	if err != nil {
		b.Fatal(err)
	}
	return text, info.EntryPointNames["main"]
}

func BenchmarkParse(b *testing.B) {
	text, _ := benchText(b)
	b.ReportMetric(float64(strings.Count(text, "\n")), "lines")
	b.ResetTimer()
	for i := 0; i < b.N; i++ {
		if _, err := Parse(text); err != nil {
			b.Fatal(err)
		}
	}
}

func BenchmarkExec(b *testing.B) {
	text, ep := benchText(b)
	p, err := Parse(text)
	if err != nil {
		b.Fatal(err)
	}
	bufs := xrt.Buffers{b0(0): make([]byte, 48), b0(1): make([]byte, 36), b0(2): bs(u(2), u(1), u(0), u(0))}
	o := Opts{FakeOrder: []xrt.Binding{b0(0), b0(1), b0(2)}}
	o.EntryPoint = ep
	o.PoisonLocals = true
	if err := p.Exec(bufs, o); err != nil {
		b.Fatal(err)
	}
	b.ResetTimer()
	for i := 0; i < b.N; i++ {
		if err := p.Exec(bufs, o); err != nil {
			b.Fatal(err)
		}
	}
}
