package mslx

import "testing"

// sparse builds an expectation of `size` bytes: words given by byte offset, padding ranges ignored,
// everything else must be zero.
func sparse(size int, pads [][2]int, vals map[int]any) []any {
	isPad := make([]bool, size)
	for _, p := range pads {
		for i := p[0]; i < p[1]; i++ {
			isPad[i] = true
		}
	}
	var out []any
	for off := 0; off < size; off += 4 {
		if v, ok := vals[off]; ok {
			out = append(out, v)
		} else if isPad[off] {
			out = append(out, anyPad(4))
		} else {
			out = append(out, 0)
		}
	}
	return out
}

func seqWords(n, base int) []byte {
	var v []any
	for i := 0; i < n; i++ {
		v = append(v, base+i)
	}
	return bs(v...)
}

// Group 3: memory - layouts, arrays, structs, runtime arrays, workgroup memory, atomics, builtins ids.
var progsGroup3 = []confProg{
	{name: "struct_vec3_then_scalar", wgsl: `
struct S { v: vec3<f32>, s: f32, w: vec3<f32>, u: vec3<f32> }
@group(0) @binding(0) var<storage, read> inp: S;
@group(0) @binding(1) var<storage, read_write> out: S;
@compute @workgroup_size(1) fn main() {
  out.s = inp.s + 1.0; out.v = inp.v * 2.0; out.w = inp.w + inp.u; out.u = vec3<f32>(inp.s);
}`,
		// v@0 s@12 w@16 u@32, size 48
		in:   map[B][]byte{b0(0): bs(1.0, 2.0, 3.0, 4.0, 5.0, 6.0, 7.0, anyPad(4), 8.0, 9.0, 10.0, anyPad(4)), b0(1): zeros(48)},
		want: map[B][]any{b0(1): {2.0, 4.0, 6.0, 5.0, 13.0, 15.0, 17.0, anyPad(4), 4.0, 4.0, 4.0, anyPad(4)}}},

	{name: "nested_structs_align_size", wgsl: `
struct Inner { a: u32, @size(12) c: u32, d: vec2<u32> }
struct Outer { x: u32, inner: Inner, @align(16) y: u32, arr: array<Inner, 2>, @size(8) z: u32, w: u32 }
@group(0) @binding(0) var<storage, read> inp: Outer;
@group(0) @binding(1) var<storage, read_write> out: Outer;
@compute @workgroup_size(1) fn main() {
  out.inner.c = inp.x + 1u; out.arr[1].d = inp.inner.d * 2u; out.z = inp.arr[0].a + inp.y;
  out.y = inp.arr[1].c; out.x = inp.inner.a; out.arr[0] = inp.inner; out.w = inp.z + inp.w;
}`,
		// Inner: a@0 c@4(size 12) d@16 -> size 24 align 8.
		// Outer: x@0 inner@8 y@32 arr@40 (stride 24) z@88(size 8) w@96, align 16, size 112
		in: map[B][]byte{b0(0): seqWords(28, 100), b0(1): zeros(112)},
		want: map[B][]any{b0(1): sparse(112,
			[][2]int{{4, 8}, {16, 24}, {36, 40}, {48, 56}, {72, 80}, {92, 96}, {100, 112}},
			map[int]any{0: 102, 12: 101, 32: 117, 40: 102, 44: 103, 56: 106, 60: 107, 80: 212, 84: 214, 88: 218, 96: 246})}},

	{name: "member_struct_with_align_attr", skip: "naga defect: no padding is emitted before/after a struct-typed member whose alignment comes from an @align attribute inside it (MSL struct O1_ { uint x; I1_ inner; uint y; } puts inner at 4, WGSL at 16)", wgsl: `
struct I1 { @align(16) b: u32 }
struct O1 { x: u32, inner: I1, y: u32 }
@group(0) @binding(0) var<storage, read> inp: O1;
@group(0) @binding(1) var<storage, read_write> out: O1;
@compute @workgroup_size(1) fn main() {
  out.y = inp.inner.b; out.inner.b = inp.y; out.x = inp.x;
}`,
		// I1: size 16 align 16. O1: x@0 inner@16 y@32 size 48
		in:   map[B][]byte{b0(0): seqWords(12, 100), b0(1): zeros(48)},
		want: map[B][]any{b0(1): sparse(48, [][2]int{{4, 16}, {20, 32}, {36, 48}}, map[int]any{0: 100, 16: 108, 32: 104})}},

	{name: "mat3x3_mat2x2_members", wgsl: `
struct M { a: f32, m3: mat3x3<f32>, m2: mat2x2<f32>, b: f32 }
@group(0) @binding(0) var<storage, read> inp: M;
@group(0) @binding(1) var<storage, read_write> out: M;
@compute @workgroup_size(1) fn main() {
  out.m3 = transpose(inp.m3); out.m2 = inp.m2 * inp.a; out.a = inp.m3[2][1]; out.b = inp.m2[1].x + inp.b;
  out.m3[1].z = 42.0;
}`,
		// a@0 m3@16 (3 columns, stride 16) m2@64 (stride 8) b@80 size 96
		in: map[B][]byte{b0(0): bs(2.0, anyPad(12), 1.0, 2.0, 3.0, anyPad(4), 4.0, 5.0, 6.0, anyPad(4), 7.0, 8.0, 9.0, anyPad(4),
			10.0, 11.0, 12.0, 13.0, 0.5, anyPad(12)), b0(1): zeros(96)},
		want: map[B][]any{b0(1): {8.0, anyPad(12), 1.0, 4.0, 7.0, anyPad(4), 2.0, 5.0, 42.0, anyPad(4), 3.0, 6.0, 9.0, anyPad(4),
			20.0, 22.0, 24.0, 26.0, 12.5, anyPad(12)}}},

	{name: "array_of_vec3", wgsl: `
@group(0) @binding(0) var<storage, read> a: array<vec3<u32>, 3>;
@group(0) @binding(1) var<storage, read_write> o: array<vec3<u32>, 3>;
@compute @workgroup_size(1) fn main() {
  for (var i = 0u; i < 3u; i++) { o[2u - i] = a[i] + vec3<u32>(i); }
  o[1].y = 77u;
}`,
		in:   map[B][]byte{b0(0): bs(uint32(1), uint32(2), uint32(3), anyPad(4), uint32(4), uint32(5), uint32(6), anyPad(4), uint32(7), uint32(8), uint32(9), anyPad(4)), b0(1): zeros(48)},
		want: map[B][]any{b0(1): {uint32(9), uint32(10), uint32(11), anyPad(4), uint32(5), uint32(77), uint32(7), anyPad(4), uint32(1), uint32(2), uint32(3), anyPad(4)}}},

	{name: "runtime_array_whole_buffer", wgsl: `
@group(0) @binding(0) var<storage, read_write> d: array<u32>;
@compute @workgroup_size(1) fn main() {
  let n = arrayLength(&d);
  d[0] = n;
  for (var i = 1u; i < n; i++) { d[i] = d[i] * 2u + i; }
}`,
		in:   map[B][]byte{b0(0): bs(uint32(9), uint32(1), uint32(2), uint32(3), uint32(4))},
		want: map[B][]any{b0(0): {uint32(5), uint32(3), uint32(6), uint32(9), uint32(12)}}},

	{name: "runtime_array_struct_tail", wgsl: `
struct Hdr { count: u32, scale: f32, items: array<vec2<f32>> }
@group(0) @binding(0) var<storage, read_write> h: Hdr;
@compute @workgroup_size(1) fn main() {
  h.count = arrayLength(&h.items);
  let i = h.count - 1u;
  h.items[i] = h.items[0] * h.scale;
  h.items[1].y = 7.0;
}`,
		in:   map[B][]byte{b0(0): bs(uint32(0), 2.0, 1.0, 2.0, 3.0, 4.0, 5.0, 6.0)},
		want: map[B][]any{b0(0): {uint32(3), 2.0, 1.0, 2.0, 3.0, 7.0, 2.0, 4.0}}},

	{name: "two_runtime_arrays_sizes", wgsl: `
@group(0) @binding(0) var<storage, read> a: array<u32>;
@group(0) @binding(1) var<storage, read_write> b: array<u32>;
@compute @workgroup_size(1) fn main() {
  b[0] = arrayLength(&a); b[1] = arrayLength(&b); b[2] = a[arrayLength(&a) - 1u];
}`,
		in:   map[B][]byte{b0(0): bs(uint32(5), uint32(6), uint32(7)), b0(1): zeros(16)},
		want: map[B][]any{b0(1): {uint32(3), uint32(4), uint32(7), uint32(0)}}},

	{name: "runtime_array_plain_indexing", wgsl: `
@group(0) @binding(0) var<storage, read> idx: u32;
@group(0) @binding(1) var<storage, read_write> d: array<i32>;
@compute @workgroup_size(1) fn main() {
  d[idx] = d[idx + 1u] - 1; d[0] = 5;
}`,
		in:   map[B][]byte{b0(0): bs(uint32(1)), b0(1): bs(0, 10, 20, 30)},
		want: map[B][]any{b0(1): {5, 19, 20, 30}}},

	{name: "array_of_structs_dynamic", wgsl: `
struct E { id: u32, pos: vec3<f32>, w: f32 }
@group(0) @binding(0) var<storage, read> idx: array<u32, 2>;
@group(0) @binding(1) var<storage, read_write> es: array<E, 3>;
@compute @workgroup_size(1) fn main() {
  let i = idx[0]; let j = idx[1];
  es[i].pos = es[j].pos + vec3<f32>(1.0); es[i].w = es[j].w * 2.0; es[j].id = es[i].id + 10u; es[i].pos.y = -1.0;
}`,
		// E: id@0 pos@16 w@28 size 32
		in: map[B][]byte{b0(0): bs(uint32(2), uint32(0)), b0(1): bs(
			uint32(1), anyPad(12), 1.0, 2.0, 3.0, 0.5,
			uint32(2), anyPad(12), 4.0, 5.0, 6.0, 1.5,
			uint32(3), anyPad(12), 7.0, 8.0, 9.0, 2.5)},
		want: map[B][]any{b0(1): {
			uint32(13), anyPad(12), 1.0, 2.0, 3.0, 0.5,
			uint32(2), anyPad(12), 4.0, 5.0, 6.0, 1.5,
			uint32(3), anyPad(12), 2.0, -1.0, 4.0, 1.0}}},

	{name: "whole_value_copies", wgsl: `
struct S { a: array<i32, 3>, v: vec2<u32>, f: f32 }
@group(0) @binding(0) var<storage, read> src: S;
@group(0) @binding(1) var<storage, read_write> dst: array<S, 2>;
var<private> ps: S;
@compute @workgroup_size(1) fn main() {
  var ls = src; ls.a[1] = -ls.a[1]; ps = ls; ps.f = 9.0;
  dst[0] = ls; dst[1] = ps; dst[1].a = array<i32, 3>(7, 8, 9);
}`,
		// a@0 v@16 f@24 size 32
		in: map[B][]byte{b0(0): bs(1, 2, 3, anyPad(4), uint32(4), uint32(5), 6.5, anyPad(4)), b0(1): zeros(64)},
		want: map[B][]any{b0(1): {1, -2, 3, anyPad(4), uint32(4), uint32(5), 6.5, anyPad(4),
			7, 8, 9, anyPad(4), uint32(4), uint32(5), 9.0, anyPad(4)}}},

	{name: "uniform_struct_read", wgsl: `
struct U { scale: vec4<f32>, offs: vec2<i32>, n: u32, arr: array<vec4<u32>, 2> }
@group(0) @binding(0) var<uniform> u: U;
@group(0) @binding(1) var<storage, read_write> o: array<f32, 6>;
@compute @workgroup_size(1) fn main() {
  o[0] = u.scale.x * f32(u.offs.x); o[1] = u.scale.w + f32(u.offs.y); o[2] = f32(u.n);
  o[3] = f32(u.arr[1].z + u.arr[0].x);
  let i = u.n; o[4] = f32(u.arr[i % 2u][i]); o[5] = u.scale[i];
}`,
		in:   map[B][]byte{b0(0): bs(1.5, 2.0, 3.0, 4.0, -2, 7, uint32(3), anyPad(4), uint32(10), uint32(11), uint32(12), uint32(13), uint32(20), uint32(21), uint32(22), uint32(23)), b0(1): zeros(24)},
		want: map[B][]any{b0(1): {-3.0, 11.0, 3.0, 32.0, 23.0, 4.0}}},

	{name: "workgroup_array_barrier", wg: [3]uint32{4, 1, 1}, wgsl: `
var<workgroup> tile: array<u32, 4>;
@group(0) @binding(0) var<storage, read> a: array<u32, 4>;
@group(0) @binding(1) var<storage, read_write> o: array<u32, 4>;
@compute @workgroup_size(4) fn main(@builtin(local_invocation_index) li: u32) {
  tile[li] = a[li] * 10u;
  workgroupBarrier();
  o[li] = tile[(li + 1u) % 4u] + tile[3u - li];
}`,
		in:   map[B][]byte{b0(0): bs(uint32(1), uint32(2), uint32(3), uint32(4)), b0(1): zeros(16)},
		want: map[B][]any{b0(1): {uint32(60), uint32(60), uint32(60), uint32(20)}}},

	{name: "workgroup_zero_init", wg: [3]uint32{2, 1, 1}, wgsl: `
var<workgroup> w: array<i32, 2>;
var<workgroup> s: u32;
@group(0) @binding(0) var<storage, read_write> o: array<u32, 3>;
@compute @workgroup_size(2) fn main(@builtin(local_invocation_index) li: u32) {
  if li == 0u { o[0] = u32(w[1] + 5); }
  workgroupBarrier();
  if li == 1u { s = 7u; }
  workgroupBarrier();
  o[1u + li] = s + li;
}`,
		in:   map[B][]byte{b0(0): bs(9, 9, 9)},
		want: map[B][]any{b0(0): {uint32(5), uint32(7), uint32(8)}}},

	{name: "atomics_storage", wgsl: `
struct A { c: atomic<u32>, s: atomic<i32> }
@group(0) @binding(0) var<storage, read_write> a: A;
@group(0) @binding(1) var<storage, read_write> o: array<u32, 12>;
@compute @workgroup_size(1) fn main() {
  o[0] = atomicAdd(&a.c, 5u); o[1] = atomicSub(&a.c, 20u); o[2] = atomicMax(&a.c, 3u); o[3] = atomicMin(&a.c, 7u);
  o[4] = atomicAnd(&a.c, 5u); o[5] = atomicOr(&a.c, 8u); o[6] = atomicXor(&a.c, 1u); o[7] = atomicExchange(&a.c, 100u);
  o[8] = atomicLoad(&a.c);
  atomicStore(&a.s, -5);
  o[9] = u32(atomicMin(&a.s, -7)); o[10] = u32(atomicMax(&a.s, 2)); o[11] = u32(atomicAdd(&a.s, 2147483647));
}`,
		in: map[B][]byte{b0(0): bs(uint32(10), 0), b0(1): zeros(48)},
		want: map[B][]any{b0(0): {uint32(100), uint32(0x80000001)},
			b0(1): {uint32(10), uint32(15), uint32(0xFFFFFFFB), uint32(0xFFFFFFFB), uint32(7), uint32(5), uint32(13), uint32(12), uint32(100), -5, -7, 2}}},

	{name: "atomic_compare_exchange", wgsl: `
@group(0) @binding(0) var<storage, read_write> a: atomic<u32>;
@group(0) @binding(1) var<storage, read_write> o: array<u32, 4>;
@compute @workgroup_size(1) fn main() {
  let r1 = atomicCompareExchangeWeak(&a, 1u, 9u);
  o[0] = r1.old_value; o[1] = u32(r1.exchanged);
  var old = 0u; var ok = false; var n = 0u;
  loop {
    let r = atomicCompareExchangeWeak(&a, 5u, 9u);
    old = r.old_value; ok = r.exchanged; n++;
    if ok || n > 10u { break; }
  }
  o[2] = old; o[3] = u32(ok);
}`,
		in:   map[B][]byte{b0(0): bs(uint32(5)), b0(1): zeros(16)},
		want: map[B][]any{b0(0): {uint32(9)}, b0(1): {uint32(5), uint32(0), uint32(5), uint32(1)}}},

	{name: "atomics_workgroup", wg: [3]uint32{4, 1, 1}, wgsl: `
var<workgroup> cnt: atomic<u32>;
var<workgroup> mx: atomic<i32>;
@group(0) @binding(0) var<storage, read_write> o: array<u32, 2>;
@compute @workgroup_size(4) fn main(@builtin(local_invocation_index) li: u32) {
  atomicAdd(&cnt, li + 1u);
  atomicMax(&mx, i32(li) * 3 - 4);
  workgroupBarrier();
  if li == 0u { o[0] = atomicLoad(&cnt); o[1] = u32(atomicLoad(&mx)); }
}`,
		in:   map[B][]byte{b0(0): zeros(8)},
		want: map[B][]any{b0(0): {uint32(10), uint32(5)}}},

	{name: "let_pointer_alias", wgsl: `
struct S { a: array<i32, 4>, k: u32 }
@group(0) @binding(0) var<storage, read_write> s: S;
@group(0) @binding(1) var<storage, read_write> o: array<i32, 3>;
@compute @workgroup_size(1) fn main() {
  let i = s.k; let p = &s.a[i]; *p = *p + 100;
  let q = &s.a; (*q)[0] = (*q)[3];
  var loc = vec4<i32>(1, 2, 3, 4); let pl = &loc; (*pl).w = 9;
  var arr: array<i32, 3>; let pa = &arr[1]; *pa = 5;
  o[0] = loc.w; o[1] = arr[1]; o[2] = arr[0];
}`,
		in:   map[B][]byte{b0(0): bs(1, 2, 3, 4, uint32(2)), b0(1): bs(7, 7, 7)},
		want: map[B][]any{b0(0): {4, 2, 103, 4, uint32(2)}, b0(1): {9, 5, 0}}},

	{name: "builtin_ids", wg: [3]uint32{2, 2, 1}, groups: [3]uint32{2, 1, 1}, wgsl: `
@group(0) @binding(0) var<storage, read_write> o: array<vec4<u32>, 8>;
@compute @workgroup_size(2, 2, 1)
fn main(@builtin(global_invocation_id) gid: vec3<u32>, @builtin(local_invocation_id) lid: vec3<u32>,
        @builtin(local_invocation_index) li: u32, @builtin(workgroup_id) wid: vec3<u32>, @builtin(num_workgroups) nwg: vec3<u32>) {
  let idx = gid.y * 4u + gid.x;
  o[idx] = vec4<u32>(gid.x * 100u + gid.y * 10u + gid.z, lid.x * 10u + lid.y, li, wid.x * 100u + nwg.x * 10u + nwg.y);
}`,
		in: map[B][]byte{b0(0): zeros(128)},
		want: map[B][]any{b0(0): {
			uint32(0), uint32(0), uint32(0), uint32(21), uint32(100), uint32(10), uint32(1), uint32(21),
			uint32(200), uint32(0), uint32(0), uint32(121), uint32(300), uint32(10), uint32(1), uint32(121),
			uint32(10), uint32(1), uint32(2), uint32(21), uint32(110), uint32(11), uint32(3), uint32(21),
			uint32(210), uint32(1), uint32(2), uint32(121), uint32(310), uint32(11), uint32(3), uint32(121)}}},

	{name: "private_array_copy", wgsl: `
var<private> pa: array<vec2<i32>, 2> = array<vec2<i32>, 2>(vec2<i32>(1, 2), vec2<i32>(3, 4));
@group(0) @binding(0) var<storage, read_write> o: array<vec2<i32>, 2>;
@group(0) @binding(1) var<storage, read> k: u32;
@compute @workgroup_size(1) fn main() {
  pa[k].y = 40; o = pa; var la = o; la[0] = la[1]; o[1] = la[0] + la[1];
}`,
		in:   map[B][]byte{b0(0): zeros(16), b0(1): bs(uint32(1))},
		want: map[B][]any{b0(0): {1, 2, 6, 80}}},

	{name: "matrix_column_dynamic_write", wgsl: `
@group(0) @binding(0) var<storage, read> k: vec2<u32>;
@group(0) @binding(1) var<storage, read_write> m: mat3x3<f32>;
@group(0) @binding(2) var<storage, read_write> o: array<f32, 3>;
@compute @workgroup_size(1) fn main() {
  let c = k.x; let r = k.y;
  m[c] = vec3<f32>(1.0, 2.0, 3.0); m[2u - c][r] = 9.0;
  var lm = m; lm[c][r] = lm[c][r] * 10.0;
  o[0] = lm[c][r]; o[1] = lm[0][0]; o[2] = m[c].z;
}`,
		in:   map[B][]byte{b0(0): bs(uint32(1), uint32(2)), b0(1): bs(10.0, 11.0, 12.0, anyPad(4), 13.0, 14.0, 15.0, anyPad(4), 16.0, 17.0, 18.0, anyPad(4)), b0(2): zeros(12)},
		want: map[B][]any{b0(1): {10.0, 11.0, 12.0, anyPad(4), 1.0, 2.0, 9.0, anyPad(4), 16.0, 17.0, 18.0, anyPad(4)}, b0(2): {90.0, 10.0, 9.0}}},

	{name: "uniform_mat2x2_and_vec4_array", wgsl: `
struct U { m: mat2x2<f32>, v: array<vec4<f32>, 2> }
@group(0) @binding(0) var<uniform> u: U;
@group(0) @binding(1) var<storage, read_write> o: vec4<f32>;
@compute @workgroup_size(1) fn main() {
  o = vec4<f32>(u.m * u.v[1].xy, u.m[1][0], u.v[0].w);
}`,
		in:   map[B][]byte{b0(0): bs(1.0, 2.0, 3.0, 4.0, 5.0, 6.0, 7.0, 8.0, 1.0, -1.0, 0.0, 0.0), b0(1): zeros(16)},
		want: map[B][]any{b0(1): {-2.0, -2.0, 3.0, 8.0}}},

	{name: "nested_struct_array_vec3", wgsl: `
struct In { p: vec3<f32>, t: u32 }
struct Mid { items: array<In, 2>, n: f32 }
struct Top { pre: f32, mid: Mid, post: vec3<i32> }
@group(0) @binding(0) var<storage, read_write> t: Top;
@compute @workgroup_size(1) fn main() {
  t.mid.items[1].p = t.mid.items[0].p.zyx; t.mid.items[1].t = u32(t.pre);
  t.post = vec3<i32>(t.mid.items[0].p) + vec3<i32>(i32(t.mid.n));
  t.mid.items[0].p.x = t.mid.n;
}`,
		// In: 16 bytes. Mid: items@0 n@32 size 48. Top: pre@0 mid@16 post@64 size 80
		in:   map[B][]byte{b0(0): bs(7.0, anyPad(12), 1.0, 2.0, 3.0, uint32(11), 4.0, 5.0, 6.0, uint32(12), 2.0, anyPad(12), 0, 0, 0, anyPad(4))},
		want: map[B][]any{b0(0): {7.0, anyPad(12), 2.0, 2.0, 3.0, uint32(11), 3.0, 2.0, 1.0, uint32(7), 2.0, anyPad(12), 3, 4, 5, anyPad(4)}}},

	{name: "storage_and_workgroup_barriers", wg: [3]uint32{4, 1, 1}, wgsl: `
@group(0) @binding(0) var<storage, read_write> o: array<u32, 4>;
@compute @workgroup_size(4) fn main(@builtin(local_invocation_index) li: u32) {
  o[li] = li + 1u;
  storageBarrier(); workgroupBarrier();
  let v = o[3u - li];
  workgroupBarrier();
  o[li] = v * 2u;
}`,
		in:   map[B][]byte{b0(0): zeros(16)},
		want: map[B][]any{b0(0): {uint32(8), uint32(6), uint32(4), uint32(2)}}},

	{name: "nested_arrays_function_scope", wgsl: `
@group(0) @binding(0) var<storage, read> k: array<u32, 2>;
@group(0) @binding(1) var<storage, read_write> o: array<array<i32, 2>, 3>;
@compute @workgroup_size(1) fn main() {
  var g: array<array<i32, 2>, 3>;
  for (var i = 0u; i < 3u; i++) { for (var j = 0u; j < 2u; j++) { g[i][j] = i32(i * 10u + j); } }
  g[k[0]][k[1]] = -1;
  o = g;
  o[k[1]][k[0] % 2u] += 5;
}`,
		in:   map[B][]byte{b0(0): bs(uint32(2), uint32(1)), b0(1): zeros(24)},
		want: map[B][]any{b0(1): {0, 1, 15, 11, 20, -1}}},
	{name: "workgroup_4x2_barrier", wg: [3]uint32{4, 2, 1}, wgsl: `
var<workgroup> t: array<u32, 8>;
@group(0) @binding(0) var<storage, read_write> o: array<u32, 8>;
@compute @workgroup_size(4, 2, 1) fn main(@builtin(local_invocation_id) lid: vec3<u32>, @builtin(local_invocation_index) li: u32) {
  t[li] = lid.x + 10u * lid.y;
  workgroupBarrier();
  o[li] = t[7u - li];
}`,
		in:   map[B][]byte{b0(0): zeros(32)},
		want: map[B][]any{b0(0): {uint32(13), uint32(12), uint32(11), uint32(10), uint32(3), uint32(2), uint32(1), uint32(0)}}},
}

func TestConformanceGroup3(t *testing.T) {
	for _, cp := range progsGroup3 {
		cp := cp
		t.Run(cp.name, func(t *testing.T) { runConf(t, cp) })
	}
}
