package mslx

import (
	"encoding/binary"
	"fmt"
	"math"
	"math/bits"

	"verif/internal/xrt"
)

// ---------------------------------------------------------------- half

func halfToFloat(h uint16) float32 {
	sign := uint32(h>>15) << 31
	exp := int(h>>10) & 0x1F
	man := uint32(h & 0x3FF)
	switch {
	case exp == 0:
		if man == 0 {
			return math.Float32frombits(sign)
		}
		// subnormal: man * 2^-24
		f := float32(man) * float32(math.Ldexp(1, -24))
		if sign != 0 {
			f = -f
		}
		return f
	case exp == 0x1F:
		if man == 0 {
			return math.Float32frombits(sign | 0x7F800000)
		}
		return math.Float32frombits(sign | 0x7FC00000 | man<<13)
	}
	return math.Float32frombits(sign | uint32(exp-15+127)<<23 | man<<13)
}

// floatToHalf converts with round-to-nearest-even (IEEE 754 binary32 -> binary16).
func floatToHalf(f float32) uint16 {
	b := math.Float32bits(f)
	sign := uint16(b>>16) & 0x8000
	exp := int(b>>23) & 0xFF
	man := b & 0x7FFFFF
	if exp == 0xFF {
		if man != 0 {
			return sign | 0x7E00
		}
		return sign | 0x7C00
	}
	e := exp - 127 + 15
	if e >= 0x1F {
		return sign | 0x7C00
	}
	if e <= 0 {
		if e < -10 {
			return sign
		}
		man |= 0x800000
		shift := uint(14 - e)
		h := man >> shift
		rem := man & (1<<shift - 1)
		half := uint32(1) << (shift - 1)
		if rem > half || (rem == half && h&1 == 1) {
			h++
		}
		return sign | uint16(h)
	}
	h := uint32(e)<<10 | man>>13
	rem := man & 0x1FFF
	if rem > 0x1000 || (rem == 0x1000 && h&1 == 1) {
		h++
	}
	return sign | uint16(h)
}

// ---------------------------------------------------------------- float helpers

func isNaN32(f float32) bool { return f != f }

func fminf(a, b float32) float32 {
	switch {
	case isNaN32(a):
		return b
	case isNaN32(b):
		return a
	case a < b:
		return a
	case b < a:
		return b
	case a == 0 && b == 0 && math.Signbit(float64(a)):
		return a
	}
	return b
}

func fmaxf(a, b float32) float32 {
	switch {
	case isNaN32(a):
		return b
	case isNaN32(b):
		return a
	case a > b:
		return a
	case b > a:
		return b
	case a == 0 && b == 0 && !math.Signbit(float64(a)):
		return a
	}
	return b
}

func via64(f func(float64) float64, a float32) float32 { return float32(f(float64(a))) }

func unaryFloat(id biID, a float32) float32 {
	switch id {
	case biSin:
		return via64(math.Sin, a)
	case biCos:
		return via64(math.Cos, a)
	case biTan:
		return via64(math.Tan, a)
	case biAsin:
		return via64(math.Asin, a)
	case biAcos:
		return via64(math.Acos, a)
	case biAtan:
		return via64(math.Atan, a)
	case biSinh:
		return via64(math.Sinh, a)
	case biCosh:
		return via64(math.Cosh, a)
	case biTanh:
		return via64(math.Tanh, a)
	case biAsinh:
		return via64(math.Asinh, a)
	case biAcosh:
		return via64(math.Acosh, a)
	case biAtanh:
		return via64(math.Atanh, a)
	case biExp:
		return via64(math.Exp, a)
	case biExp2:
		return via64(math.Exp2, a)
	case biExp10:
		return float32(math.Pow(10, float64(a)))
	case biLog:
		return via64(math.Log, a)
	case biLog2:
		return via64(math.Log2, a)
	case biLog10:
		return via64(math.Log10, a)
	case biSqrt:
		return float32(math.Sqrt(float64(a))) // correctly rounded: double sqrt rounded once is exact for binary32
	case biRsqrt:
		return float32(1 / math.Sqrt(float64(a)))
	case biFloor:
		return via64(math.Floor, a)
	case biCeil:
		return via64(math.Ceil, a)
	case biRound: // MSL round: halfway cases away from zero
		return via64(math.Round, a)
	case biRint: // MSL rint: round to nearest even
		return via64(math.RoundToEven, a)
	case biTrunc:
		return via64(math.Trunc, a)
	case biFract:
		// MSL: fract(x) = fmin(x - floor(x), 0x1.fffffep-1f)
		if isNaN32(a) {
			return a
		}
		if math.IsInf(float64(a), 0) {
			return float32(math.Copysign(0, float64(a)))
		}
		r := float32(a - float32(math.Floor(float64(a))))
		return fminf(r, math.Float32frombits(0x3F7FFFFF))
	case biFabs:
		return math.Float32frombits(math.Float32bits(a) &^ 0x80000000)
	case biSaturate:
		return fminf(fmaxf(a, 0), 1)
	case biSign:
		switch {
		case isNaN32(a):
			return 0
		case a > 0:
			return 1
		case a < 0:
			return -1
		}
		return a // +-0
	}
	panic(&xrt.Unsupported{What: fmt.Sprintf("builtin %d", id)})
}

func binaryFloat(id biID, a, b float32) float32 {
	switch id {
	case biAtan2:
		return float32(math.Atan2(float64(a), float64(b)))
	case biPow:
		return float32(math.Pow(float64(a), float64(b)))
	case biFmod:
		return float32(math.Mod(float64(a), float64(b))) // exact
	case biFmin:
		return fminf(a, b)
	case biFmax:
		return fmaxf(a, b)
	case biStep: // step(edge, x) = x < edge ? 0 : 1
		if b < a {
			return 0
		}
		return 1
	case biCopysign:
		return float32(math.Copysign(float64(a), float64(b)))
	}
	panic(&xrt.Unsupported{What: fmt.Sprintf("builtin %d", id)})
}

func fma32(a, b, c float32) float32 {
	// a*b is exact in float64; the sum may round twice (float64 then float32). Use FMA in float64,
	// which is exact enough except for rare double-rounding ties; handle via math.FMA.
	return float32(math.FMA(float64(a), float64(b), float64(c)))
}

func ternaryFloat(id biID, a, b, c float32) float32 {
	switch id {
	case biFma:
		return fma32(a, b, c)
	case biMix: // mix(x, y, a) = x + (y - x) * a
		return float32(a + float32(float32(b-a)*c))
	case biSmoothstep:
		// t = clamp((x - e0)/(e1 - e0), 0, 1); t*t*(3 - 2t)
		t := float64(c-a) / float64(b-a)
		t = math.Min(math.Max(t, 0), 1)
		if t != t {
			return float32(t)
		}
		return float32(t * t * (3 - 2*t))
	}
	panic(&xrt.Unsupported{What: fmt.Sprintf("builtin %d", id)})
}

// ---------------------------------------------------------------- evaluation

func (x *exec) argVals(e *Expr) [5]Value {
	var vs [5]Value
	for i, a := range e.args {
		if i >= len(vs) {
			break
		}
		vs[i] = x.eval(a)
	}
	return vs
}

func (x *exec) evalBuiltin(e *Expr) Value {
	id := e.bi.id
	line := e.line
	if id >= biAtomicLoad && id <= biAtomicXor {
		return x.evalAtomic(e)
	}
	if id == biBarrier {
		x.barrier(line)
		return Value{}
	}
	if id == biFrexp || id == biModf {
		return x.evalFrexpModf(e)
	}
	vs := x.argVals(e)
	n := e.t.comps()
	var r Value
	ck := func(v *Value, i int) uint32 { return chk(v.a[i], line) }
	switch {
	case id >= biSin && id <= biSign:
		for i := 0; i < n; i++ {
			r.a[i] = fcell(unaryFloat(id, f32(ck(&vs[0], i))))
		}
		return r
	case id >= biAtan2 && id <= biCopysign:
		for i := 0; i < n; i++ {
			r.a[i] = fcell(binaryFloat(id, f32(ck(&vs[0], i)), f32(ck(&vs[1], i))))
		}
		return r
	case id >= biFma && id <= biSmoothstep:
		for i := 0; i < n; i++ {
			r.a[i] = fcell(ternaryFloat(id, f32(ck(&vs[0], i)), f32(ck(&vs[1], i)), f32(ck(&vs[2], i))))
		}
		return r
	}
	k := KVoid
	if len(e.args) > 0 && e.args[0].t.scalarOf() != nil {
		k = e.args[0].t.scalarOf().Kind
	}
	switch id {
	case biAbs:
		for i := 0; i < n; i++ {
			c := ck(&vs[0], i)
			switch k {
			case KFloat:
				c &^= 0x80000000
			case KInt:
				if c == 0x80000000 {
					// |INT_MIN| is not representable; MSL does not define the result
					trap("signed-overflow", "line %d: metal::abs(INT_MIN)", line)
				}
				if int32(c) < 0 {
					c = -c
				}
			}
			r.a[i] = cell(c)
		}
	case biMin, biMax:
		for i := 0; i < n; i++ {
			a, b := ck(&vs[0], i), ck(&vs[1], i)
			r.a[i] = cell(minMax(id == biMin, k, a, b))
		}
	case biClamp:
		for i := 0; i < n; i++ {
			v, lo, hi := ck(&vs[0], i), ck(&vs[1], i), ck(&vs[2], i)
			// clamp(x, lo, hi) = min(max(x, lo), hi)
			r.a[i] = cell(minMax(true, k, minMax(false, k, v, lo), hi))
		}
	case biPopcount:
		for i := 0; i < n; i++ {
			r.a[i] = cell(bits.OnesCount32(ck(&vs[0], i)))
		}
	case biClz:
		for i := 0; i < n; i++ {
			r.a[i] = cell(bits.LeadingZeros32(ck(&vs[0], i)))
		}
	case biCtz:
		for i := 0; i < n; i++ {
			r.a[i] = cell(bits.TrailingZeros32(ck(&vs[0], i)))
		}
	case biReverseBits:
		for i := 0; i < n; i++ {
			r.a[i] = cell(bits.Reverse32(ck(&vs[0], i)))
		}
	case biExtractBits:
		off, cnt := ck(&vs[1], 0), ck(&vs[2], 0)
		if uint64(off)+uint64(cnt) > 32 {
			trap("bitfield-range", "line %d: extract_bits offset %d + bits %d > 32", line, off, cnt)
		}
		for i := 0; i < n; i++ {
			v := ck(&vs[0], i)
			var out uint32
			switch {
			case cnt == 0:
				out = 0
			case k == KInt:
				out = uint32(int32(v<<(32-off-cnt)) >> (32 - cnt))
			default:
				out = v << (32 - off - cnt) >> (32 - cnt)
			}
			r.a[i] = cell(out)
		}
	case biInsertBits:
		off, cnt := ck(&vs[2], 0), ck(&vs[3], 0)
		if uint64(off)+uint64(cnt) > 32 {
			trap("bitfield-range", "line %d: insert_bits offset %d + bits %d > 32", line, off, cnt)
		}
		var mask uint32
		if cnt == 32 {
			mask = 0xFFFFFFFF
		} else {
			mask = (uint32(1)<<cnt - 1) << off
		}
		for i := 0; i < n; i++ {
			base, ins := ck(&vs[0], i), ck(&vs[1], i)
			r.a[i] = cell(base&^mask | (ins<<off)&mask)
		}
	case biMulhi:
		for i := 0; i < n; i++ {
			a, b := ck(&vs[0], i), ck(&vs[1], i)
			if k == KInt {
				r.a[i] = cell(uint32(uint64(int64(int32(a))*int64(int32(b))) >> 32))
			} else {
				r.a[i] = cell(uint32(uint64(a) * uint64(b) >> 32))
			}
		}
	case biSelect:
		cn := e.args[2].t.comps()
		for i := 0; i < n; i++ {
			ci := i
			if cn == 1 {
				ci = 0
			}
			// select(a, b, c) = c ? b : a, component-wise. The unselected operand may be poison.
			if ck(&vs[2], ci) != 0 {
				r.a[i] = vs[1].a[i]
			} else {
				r.a[i] = vs[0].a[i]
			}
		}
	case biAll, biAny:
		an := e.args[0].t.comps()
		all, any := true, false
		for i := 0; i < an; i++ {
			if ck(&vs[0], i) != 0 {
				any = true
			} else {
				all = false
			}
		}
		if id == biAll {
			r.a[0] = boolCell(all)
		} else {
			r.a[0] = boolCell(any)
		}
	case biIsnan, biIsinf, biIsfinite:
		for i := 0; i < n; i++ {
			f := float64(f32(ck(&vs[0], i)))
			switch id {
			case biIsnan:
				r.a[i] = boolCell(f != f)
			case biIsinf:
				r.a[i] = boolCell(math.IsInf(f, 0))
			default:
				r.a[i] = boolCell(f == f && !math.IsInf(f, 0))
			}
		}
	case biDot:
		r.a[0] = fcell(dotN(&vs[0], &vs[1], e.args[0].t.comps(), line))
	case biLength:
		r.a[0] = fcell(float32(math.Sqrt(dot64(&vs[0], &vs[0], e.args[0].t.comps(), line))))
	case biLengthSquared:
		r.a[0] = fcell(dotN(&vs[0], &vs[0], e.args[0].t.comps(), line))
	case biDistance:
		an := e.args[0].t.comps()
		var d Value
		for i := 0; i < an; i++ {
			d.a[i] = fcell(float32(f32(ck(&vs[0], i)) - f32(ck(&vs[1], i))))
		}
		r.a[0] = fcell(float32(math.Sqrt(dot64(&d, &d, an, line))))
	case biNormalize:
		l := math.Sqrt(dot64(&vs[0], &vs[0], n, line))
		for i := 0; i < n; i++ {
			r.a[i] = fcell(float32(float64(f32(ck(&vs[0], i))) / l))
		}
	case biCross:
		g := func(v *Value, i int) float32 { return f32(ck(v, i)) }
		a, b := &vs[0], &vs[1]
		r.a[0] = fcell(float32(float32(g(a, 1)*g(b, 2)) - float32(g(a, 2)*g(b, 1))))
		r.a[1] = fcell(float32(float32(g(a, 2)*g(b, 0)) - float32(g(a, 0)*g(b, 2))))
		r.a[2] = fcell(float32(float32(g(a, 0)*g(b, 1)) - float32(g(a, 1)*g(b, 0))))
	case biFaceforward:
		// faceforward(N, I, Nref) = dot(Nref, I) < 0 ? N : -N
		d := dot64(&vs[2], &vs[1], n, line)
		for i := 0; i < n; i++ {
			c := ck(&vs[0], i)
			if !(d < 0) {
				c ^= 0x80000000
			}
			r.a[i] = cell(c)
		}
	case biReflect:
		// reflect(I, N) = I - 2 * dot(N, I) * N
		d := dot64(&vs[1], &vs[0], n, line)
		for i := 0; i < n; i++ {
			r.a[i] = fcell(float32(float64(f32(ck(&vs[0], i))) - 2*d*float64(f32(ck(&vs[1], i)))))
		}
	case biRefract:
		// k = 1 - eta^2 (1 - dot(N,I)^2); k < 0 ? 0 : eta*I - (eta*dot(N,I) + sqrt(k)) * N
		eta := float64(f32(ck(&vs[2], 0)))
		d := dot64(&vs[1], &vs[0], n, line)
		kk := 1 - eta*eta*(1-d*d)
		for i := 0; i < n; i++ {
			if kk < 0 {
				r.a[i] = 0
				continue
			}
			r.a[i] = fcell(float32(eta*float64(f32(ck(&vs[0], i))) - (eta*d+math.Sqrt(kk))*float64(f32(ck(&vs[1], i)))))
		}
	case biTranspose:
		mt := e.args[0].t
		out := mkValue(e.t.Cells)
		src, dst := vs[0].cells(mt.Cells), out.cells(e.t.Cells)
		for c := 0; c < mt.N; c++ {
			for rr := 0; rr < mt.Rows; rr++ {
				// result has mt.Rows columns of mt.N rows
				dst[rr*mt.N+c] = cell(chk(src[c*mt.Rows+rr], line))
			}
		}
		return out
	case biDeterminant:
		mt := e.args[0].t
		src := vs[0].cells(mt.Cells)
		m := make([]float64, mt.Cells)
		for i, c := range src {
			m[i] = float64(f32(chk(c, line)))
		}
		r.a[0] = fcell(float32(det(m, mt.N)))
	case biLdexp:
		for i := 0; i < n; i++ {
			f := float64(f32(ck(&vs[0], i)))
			k := int(int32(ck(&vs[1], i)))
			r.a[i] = fcell(float32(math.Ldexp(f, k)))
		}
	case biPackSnorm4x8, biPackUnorm4x8, biPackSnorm2x16, biPackUnorm2x16:
		r.a[0] = cell(packNorm(id, &vs[0], line))
	case biUnpackSnorm4x8, biUnpackUnorm4x8, biUnpackSnorm2x16, biUnpackUnorm2x16:
		u := ck(&vs[0], 0)
		for i := 0; i < n; i++ {
			var f float64
			switch id {
			case biUnpackSnorm4x8:
				f = math.Max(float64(int8(u>>(8*uint(i))))/127, -1)
			case biUnpackUnorm4x8:
				f = float64(uint8(u>>(8*uint(i)))) / 255
			case biUnpackSnorm2x16:
				f = math.Max(float64(int16(u>>(16*uint(i))))/32767, -1)
			case biUnpackUnorm2x16:
				f = float64(uint16(u>>(16*uint(i)))) / 65535
			}
			r.a[i] = fcell(float32(f))
		}
	default:
		panic(&xrt.Unsupported{What: fmt.Sprintf("line %d: metal::%s", line, e.bi.name)})
	}
	return r
}

func minMax(isMin bool, k Kind, a, b uint32) uint32 {
	switch k {
	case KFloat:
		if isMin {
			return fbits(fminf(f32(a), f32(b)))
		}
		return fbits(fmaxf(f32(a), f32(b)))
	case KInt:
		if (int32(a) < int32(b)) == isMin {
			return a
		}
		return b
	}
	if (a < b) == isMin {
		return a
	}
	return b
}

func dot64(a, b *Value, n, line int) float64 {
	var s float64
	for i := 0; i < n; i++ {
		s += float64(f32(chk(a.a[i], line))) * float64(f32(chk(b.a[i], line)))
	}
	return s
}

func dotN(a, b *Value, n, line int) float32 { return float32(dot64(a, b, n, line)) }

// det computes the determinant of a column-major n x n matrix.
func det(m []float64, n int) float64 {
	at := func(c, r int) float64 { return m[c*n+r] }
	switch n {
	case 2:
		return at(0, 0)*at(1, 1) - at(1, 0)*at(0, 1)
	case 3:
		return at(0, 0)*(at(1, 1)*at(2, 2)-at(2, 1)*at(1, 2)) -
			at(1, 0)*(at(0, 1)*at(2, 2)-at(2, 1)*at(0, 2)) +
			at(2, 0)*(at(0, 1)*at(1, 2)-at(1, 1)*at(0, 2))
	}
	// 4x4 by cofactor expansion along the first column-major row
	var d float64
	for c := 0; c < 4; c++ {
		sub := make([]float64, 9)
		k := 0
		for cc := 0; cc < 4; cc++ {
			if cc == c {
				continue
			}
			for r := 1; r < 4; r++ {
				sub[k] = at(cc, r)
				k++
			}
		}
		s := det(sub, 3) * at(c, 0)
		if c%2 == 1 {
			s = -s
		}
		d += s
	}
	return d
}

func packNorm(id biID, v *Value, line int) uint32 {
	var out uint32
	conv := func(f float32, lo, hi, scale float64) float64 {
		x := float64(f)
		if x != x {
			x = lo // NaN: any result is allowed; pick the lower bound
		}
		x = math.Min(math.Max(x, lo), hi)
		return math.RoundToEven(x * scale)
	}
	switch id {
	case biPackSnorm4x8:
		for i := 0; i < 4; i++ {
			out |= uint32(uint8(int8(conv(f32(chk(v.a[i], line)), -1, 1, 127)))) << (8 * uint(i))
		}
	case biPackUnorm4x8:
		for i := 0; i < 4; i++ {
			out |= uint32(uint8(conv(f32(chk(v.a[i], line)), 0, 1, 255))) << (8 * uint(i))
		}
	case biPackSnorm2x16:
		for i := 0; i < 2; i++ {
			out |= uint32(uint16(int16(conv(f32(chk(v.a[i], line)), -1, 1, 32767)))) << (16 * uint(i))
		}
	case biPackUnorm2x16:
		for i := 0; i < 2; i++ {
			out |= uint32(uint16(conv(f32(chk(v.a[i], line)), 0, 1, 65535))) << (16 * uint(i))
		}
	}
	return out
}

func (x *exec) evalFrexpModf(e *Expr) Value {
	line := e.line
	v := x.eval(e.args[0])
	out := x.ref(e.args[1], true)
	n := e.t.comps()
	var r, o Value
	for i := 0; i < n; i++ {
		f := float64(f32(chk(v.a[i], line)))
		if e.bi.id == biModf {
			ip, fr := math.Modf(f)
			if math.IsInf(f, 0) {
				ip, fr = f, math.Copysign(0, f)
			}
			r.a[i] = fcell(float32(fr))
			o.a[i] = fcell(float32(ip))
		} else {
			fr, ex := math.Frexp(f)
			if f != f || math.IsInf(f, 0) {
				ex = 0
			}
			r.a[i] = fcell(float32(fr))
			o.a[i] = cell(uint32(int32(ex)))
		}
	}
	x.store(out, e.args[1].t, &o, line)
	return r
}

// ---------------------------------------------------------------- atomics

func (x *exec) atomicCell(r Ref, write bool, line int) (get func() uint32, set func(uint32)) {
	if r.m == nil {
		trap("poison", "line %d: atomic operation through an invalid pointer", line)
	}
	if r.m.isBuf {
		if r.off%4 != 0 {
			trap("misaligned", "line %d: atomic at byte offset %d", line, r.off)
		}
		return func() uint32 {
				x.access(r.m, r.off, 4, false, line)
				return binary.LittleEndian.Uint32(r.m.bytes[r.off:])
			}, func(v uint32) {
				x.access(r.m, r.off, 4, true, line)
				binary.LittleEndian.PutUint32(r.m.bytes[r.off:], v)
			}
	}
	return func() uint32 { return chk(r.m.cells[r.off], line) }, func(v uint32) { r.m.cells[r.off] = cell(v) }
}

func (x *exec) evalAtomic(e *Expr) Value {
	line := e.line
	id := e.bi.id
	pv := x.eval(e.args[0])
	get, set := x.atomicCell(pv.r, id != biAtomicLoad, line)
	signed := e.args[0].t.Elem.Elem.Kind == KInt
	var r Value
	switch id {
	case biAtomicLoad:
		r.a[0] = cell(get())
		return r
	case biAtomicStore:
		v := x.eval(e.args[1])
		set(chk(v.a[0], line))
		return r
	case biAtomicCmpXchg:
		ep := x.eval(e.args[1])
		des := x.eval(e.args[2])
		d := chk(des.a[0], line)
		if ep.r.m == nil {
			trap("poison", "line %d: compare-exchange through an invalid pointer", line)
		}
		et := e.args[1].t.Elem
		expv := x.load(ep.r, et, line)
		exp := chk(expv.a[0], line)
		old := get()
		if old == exp {
			// The weak form may fail spuriously; the interpreter models the strong outcome.
			set(d)
			r.a[0] = 1
			return r
		}
		var ov Value
		ov.a[0] = cell(old)
		x.store(ep.r, et, &ov, line)
		return r
	}
	v := x.eval(e.args[1])
	opnd := chk(v.a[0], line)
	old := get()
	var nv uint32
	switch id {
	case biAtomicExchange:
		nv = opnd
	case biAtomicAdd:
		nv = old + opnd // atomic arithmetic wraps (two's complement), also for atomic_int
	case biAtomicSub:
		nv = old - opnd
	case biAtomicAnd:
		nv = old & opnd
	case biAtomicOr:
		nv = old | opnd
	case biAtomicXor:
		nv = old ^ opnd
	case biAtomicMin, biAtomicMax:
		k := KUInt
		if signed {
			k = KInt
		}
		nv = minMax(id == biAtomicMin, k, old, opnd)
	}
	set(nv)
	r.a[0] = cell(old)
	return r
}
