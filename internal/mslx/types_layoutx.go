package mslx

// Additive observations for the static layout check (C07/F3x): 16-bit matrix types and access to
// the laid-out type of a struct or of a kernel's buffer parameter. Nothing here changes parsing or
// execution of programs that do not mention the half matrix types.

import "fmt"

func init() {
	// (this file sorts after types.go, whose init fills vecTypes; the guard keeps it order-independent)
	if vecTypes[KHalf] == nil {
		return
	}
	// MSL: halfCxR is C columns of halfR (so half3x3 is 24/8, half2x2 8/4, half4x2 16/4).
	for c := 2; c <= 4; c++ {
		for r := 2; r <= 4; r++ {
			col := vecTypes[KHalf][r]
			m := &Type{Kind: KMat, Name: fmt.Sprintf("half%dx%d", c, r), Elem: col, N: c, Rows: r,
				Size: c * col.Size, Align: col.Align, Cells: c * r}
			if _, dup := typesByName[m.Name]; !dup {
				typesByName[m.Name] = m
			}
		}
	}
}

// StructType returns the laid-out type of a struct declared in the program (nil if none). The
// exported fields of Type/Field (Kind, Name, Elem, N, Rows, Flexible, Fields, Size, Align, Off) are
// the C++ layout computed by this package.
func (p *Program) StructType(name string) *Type { return p.structs[name] }

// BufferParamTypes returns, for the named kernel, the referenced (or pointed-to) type of every
// parameter that carries [[buffer(n)]], keyed by n.
func (p *Program) BufferParamTypes(kernel string) map[int]*Type {
	out := map[int]*Type{}
	for _, f := range p.kernels {
		if f.name != kernel {
			continue
		}
		for _, v := range f.params {
			pi := paramInfo(v)
			if pi.Buffer < 0 {
				continue
			}
			t := v.t
			if v.kind == vPtr {
				t = v.t.Elem
			}
			out[pi.Buffer] = t
		}
	}
	return out
}
