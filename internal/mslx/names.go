package mslx

import (
	"fmt"
	"sort"
	"strings"
)

// C++14 keywords and alternative tokens ([lex.key]).
var cxxKeywords = strings.Fields(`
alignas alignof asm auto bool break case catch char char16_t char32_t class const constexpr const_cast
continue decltype default delete do double dynamic_cast else enum explicit export extern false float for
friend goto if inline int long mutable namespace new noexcept nullptr operator private protected public
register reinterpret_cast return short signed sizeof static static_assert static_cast struct switch template
this thread_local throw true try typedef typeid typename union unsigned using virtual void volatile wchar_t
while and and_eq bitand bitor compl not not_eq or or_eq xor xor_eq`)

// MSL additions: function and address-space qualifiers, scalar types that are keywords or predeclared
// at global scope, and the names the emitted text relies on.
var mslKeywords = strings.Fields(`
kernel vertex fragment device constant thread threadgroup threadgroup_imageblock
half uint ushort uchar size_t ptrdiff_t
as_type metal
texture1d texture1d_array texture2d texture2d_array texture2d_ms texture3d texturecube texturecube_array
depth2d depth2d_array depth2d_ms depthcube depthcube_array texture_buffer sampler
atomic_int atomic_uint atomic_bool`)

var keywordSet map[string]bool

func init() {
	keywordSet = map[string]bool{}
	for _, k := range cxxKeywords {
		keywordSet[k] = true
	}
	for _, k := range mslKeywords {
		keywordSet[k] = true
	}
	// vector, packed vector and matrix type names
	for _, s := range []string{"bool", "char", "uchar", "short", "ushort", "int", "uint", "half", "float", "long", "ulong"} {
		for n := 2; n <= 4; n++ {
			keywordSet[fmt.Sprintf("%s%d", s, n)] = true
			if s != "bool" {
				keywordSet[fmt.Sprintf("packed_%s%d", s, n)] = true
			}
		}
	}
	for _, s := range []string{"half", "float"} {
		for c := 2; c <= 4; c++ {
			for r := 2; r <= 4; r++ {
				keywordSet[fmt.Sprintf("%s%dx%d", s, c, r)] = true
			}
		}
	}
}

// Keywords returns this package's own list of C++14 and MSL reserved words and predeclared type names.
func Keywords() []string {
	out := make([]string, 0, len(keywordSet))
	for k := range keywordSet {
		out = append(out, k)
	}
	sort.Strings(out)
	return out
}

func reservedPattern(name string) bool {
	if strings.HasPrefix(name, "__") {
		return true
	}
	return len(name) >= 2 && name[0] == '_' && name[1] >= 'A' && name[1] <= 'Z'
}

// computeProblems fills p.problems:
//
//	duplicate:   two declarations with one spelling in one scope (function overloads with different
//	             parameter lists excepted)
//	keyword:     a declared identifier that is a C++14 / MSL keyword or predeclared type name
//	reserved:    a declared identifier beginning with "__" or "_" + uppercase letter
//	hides-metal: a declaration at global scope of a metal:: name that the text also uses unqualified
func (p *Program) computeProblems() {
	type key struct {
		scope int
		name  string
	}
	count := make(map[key]int, len(p.decls))
	var order []key
	for _, d := range p.decls {
		k := key{d.ScopeID, d.Name}
		count[k]++
		if count[k] == 2 {
			order = append(order, k)
		}
	}
	for _, k := range order {
		var ds []Decl
		for _, d := range p.decls {
			if d.ScopeID == k.scope && d.Name == k.name {
				ds = append(ds, d)
			}
		}
		allFuncs := true
		sigs := map[string]bool{}
		dupSig := false
		for _, d := range ds {
			if d.Kind != "function" {
				allFuncs = false
			}
			if sigs[d.sig] {
				dupSig = true
			}
			sigs[d.sig] = true
		}
		if allFuncs && !dupSig {
			continue
		}
		var lines []string
		for _, d := range ds {
			lines = append(lines, fmt.Sprintf("%s@%d", d.Kind, d.Line))
		}
		p.problems = append(p.problems, fmt.Sprintf("duplicate: %q declared %d times in scope %d (%s)", k.name, len(ds), k.scope, strings.Join(lines, ", ")))
	}
	type dk struct {
		kind, name string
		scope      int
	}
	seen := make(map[dk]bool, len(p.decls))
	for _, d := range p.decls {
		id := dk{d.Kind, d.Name, d.ScopeID}
		if seen[id] {
			continue
		}
		seen[id] = true
		if keywordSet[d.Name] {
			p.problems = append(p.problems, fmt.Sprintf("keyword: %s %q (line %d) is a C++14/MSL reserved word or predeclared type name", d.Kind, d.Name, d.Line))
		}
		if reservedPattern(d.Name) {
			p.problems = append(p.problems, fmt.Sprintf("reserved: %s %q (line %d) is an identifier reserved to the implementation", d.Kind, d.Name, d.Line))
		}
		if d.ScopeID == 0 && p.usedUnqual[d.Name] {
			p.problems = append(p.problems, fmt.Sprintf("hides-metal: global %s %q (line %d) hides the metal:: name used unqualified in the text", d.Kind, d.Name, d.Line))
		}
		if d.ScopeID == 0 && p.usingNames[d.Name] {
			p.problems = append(p.problems, fmt.Sprintf("hides-metal: global %s %q (line %d) conflicts with `using metal::%s`", d.Kind, d.Name, d.Line, d.Name))
		}
	}
}
