package mslx

import (
	"fmt"
	"testing"

	"verif/internal/xrt"
)

// TestWholeValueCopies: for several host-shareable types, copy a value storage/uniform -> {function,
// private, workgroup} -> storage. The result must equal the input on every non-padding byte (WGSL
// layout: the data byte ranges are listed by hand per type).
func TestWholeValueCopies(t *testing.T) {
	type ty struct {
		name, decl, wgslType string
		size                 int
		data                 [][2]int // data byte ranges; everything else is padding
		uniformOK            bool
	}
	types := []ty{
		{"f32", "", "f32", 4, [][2]int{{0, 4}}, true},
		{"vec3f", "", "vec3<f32>", 12, [][2]int{{0, 12}}, true},
		{"mat3x2", "", "mat3x2<f32>", 24, [][2]int{{0, 24}}, true},
		{"mat2x3", "", "mat2x3<f32>", 32, [][2]int{{0, 12}, {16, 28}}, true},
		{"mat4x4", "", "mat4x4<f32>", 64, [][2]int{{0, 64}}, true},
		{"arr_vec3i", "", "array<vec3<i32>, 2>", 32, [][2]int{{0, 12}, {16, 28}}, true},
		{"arr_u32", "", "array<u32, 3>", 12, [][2]int{{0, 12}}, false},
		// S: a@0(12) b@12 m@16(16) arr@32(3 x vec4<u32> = 48) c@80(12) -> size 96
		{"struct", "struct S { a: vec3<f32>, b: f32, m: mat2x2<f32>, arr: array<vec4<u32>, 3>, c: vec3<i32> }\n", "S", 96,
			[][2]int{{0, 16}, {16, 32}, {32, 80}, {80, 92}}, true},
		// N: i@0 inner@16 (S2: v@0(8) w@8 -> size 16 align 8 ... placed at 8) -> see below
		{"nested", "struct S2 { v: vec2<f32>, w: u32 }\nstruct N { i: u32, inner: S2, arr: array<S2, 2>, t: f32 }\n", "N", 56,
			// i@0 pad 4..8 inner@8 (v 8..16, w 16..20, pad 20..24) arr@24: [24..32 v,32..36 w,pad 36..40] [40..48,48..52,pad] t@56?
			nil, false},
	}
	// N layout by hand: S2 align 8 size 16 (v@0, w@8, 12..16 padding). N: i@0, inner@8..24, arr@24..56, t@56 -> size 64 (align 8)
	types[len(types)-1].size = 64
	types[len(types)-1].data = [][2]int{{0, 4}, {8, 20}, {24, 36}, {40, 52}, {56, 60}}

	spaces := []string{"function", "private", "workgroup"}
	for _, ty := range types {
		for _, src := range []string{"storage", "uniform"} {
			if src == "uniform" && !ty.uniformOK {
				continue
			}
			for _, mid := range spaces {
				name := fmt.Sprintf("%s/%s-%s", ty.name, src, mid)
				t.Run(name, func(t *testing.T) {
					srcDecl := "var<storage, read> src: " + ty.wgslType + ";"
					if src == "uniform" {
						srcDecl = "var<uniform> src: " + ty.wgslType + ";"
					}
					var midDecl, body string
					switch mid {
					case "function":
						body = "var m: " + ty.wgslType + "; m = src; var m2 = m; dst = m2;"
					case "private":
						midDecl = "var<private> m: " + ty.wgslType + ";"
						body = "m = src; let c = m; dst = c;"
					case "workgroup":
						midDecl = "var<workgroup> m: " + ty.wgslType + ";"
						body = "m = src; workgroupBarrier(); dst = m;"
					}
					wgsl := ty.decl + "@group(0) @binding(0) " + srcDecl + "\n@group(0) @binding(1) var<storage, read_write> dst: " + ty.wgslType + ";\n" +
						midDecl + "\n@compute @workgroup_size(1) fn main() { " + body + " }"
					in := make([]byte, ty.size)
					for i := range in {
						in[i] = byte(i*7 + 1)
					}
					// keep every f32 finite and every word distinct: set the top byte of each word
					for i := 3; i < len(in); i += 4 {
						in[i] = 0x40
					}
					for _, cfg := range confCfgs {
						mo, xo := cfg.opts([]B{b0(0), b0(1)})
						text, info, err := compileMSL(t, wgsl, mo)
						if err != nil {
							t.Fatalf("%s: naga: %v", cfg.name, err)
						}
						prog, err := Parse(text)
						if err != nil {
							t.Fatalf("%s: Parse: %v\n%s", cfg.name, err, numbered(text))
						}
						bufs := xrt.Buffers{b0(0): append([]byte(nil), in...), b0(1): make([]byte, ty.size)}
						xo.EntryPoint = info.EntryPointNames["main"]
						xo.PoisonLocals = cfg.poison
						if err := prog.Exec(bufs, xo); err != nil {
							t.Fatalf("%s: Exec: %v\n%s", cfg.name, err, numbered(text))
						}
						out := bufs[b0(1)]
						for _, r := range ty.data {
							for i := r[0]; i < r[1]; i++ {
								if out[i] != in[i] {
									t.Fatalf("%s: byte %d: got %#x want %#x\n%s", cfg.name, i, out[i], in[i], numbered(text))
								}
							}
						}
					}
				})
			}
		}
	}
}
