package mslx

import "strings"

// ---------------------------------------------------------------- user function calls

func (p *parser) parseArgs() []*Expr {
	p.expect("(")
	var args []*Expr
	for !p.accept(")") {
		if len(args) > 0 {
			p.expect(",")
		}
		args = append(args, p.parseInitOperand())
	}
	return args
}

// argRank: 0 exact, 1 trivial relabel, 2 standard conversion, -1 not viable.
func (p *parser) argRank(a *Expr, v *Var) int {
	switch v.kind {
	case vRef:
		if !a.lv || a.t == nil {
			return -1
		}
		if !sameType(a.t, v.t) {
			return -1
		}
		if a.space != v.space {
			return -1
		}
		if (a.cst || a.space == SpConstant) && !v.cst {
			return -1
		}
		return 0
	case vPtr:
		if a.t.Kind != KPtr || a.t.Space != v.t.Space || !sameType(a.t.Elem, v.t.Elem) {
			return -1
		}
		if a.t.ConstP && !v.t.ConstP {
			return -1
		}
		return 0
	}
	to := v.t
	if a.op == xInitList || a.op == xDefaultCtor {
		if to.Kind == KStruct || to.Kind == KArray || to.isScalar() || to.isVec() || to.Kind == KMat {
			return 2
		}
		return -1
	}
	from := a.t
	if from.Kind == KOpaque || to.Kind == KOpaque {
		if from == to {
			return 0
		}
		return -1
	}
	if sameType(from, to) {
		return 0
	}
	if from.Kind == KPackedVec && sameType(from.unpacked(), to) || to.Kind == KPackedVec && sameType(to.unpacked(), from) {
		return 1
	}
	if from.isScalar() && to.isScalar() {
		return 2
	}
	if from.isScalar() && to.Kind == KVec {
		return 3
	}
	return -1
}

func (p *parser) call(name string, fns []*Func, line int) *Expr {
	args := p.parseArgs()
	for _, a := range args {
		if a.op != xInitList && a.op != xDefaultCtor {
			p.opaqueCheck(a)
		}
	}
	var best *Func
	var bestBound *Type
	bestScore := 1 << 30
	ambiguous := false
	for _, f := range fns {
		if f.unsup != nil && f.params == nil && f.sig == "?" {
			panic(unsupported(line, "call of %s whose signature is unsupported: %v", name, f.unsup))
		}
		cand := f
		var bound *Type
		params := f.params
		if f.tmpl != nil {
			bound = p.deduce(f, args, line)
			if bound == nil {
				continue
			}
			params = substParams(f.params, bound)
		}
		if len(params) != len(args) {
			continue
		}
		score := 0
		ok := true
		for i, a := range args {
			r := p.argRank(a, params[i])
			if r < 0 {
				ok = false
				break
			}
			score += r
		}
		if !ok {
			continue
		}
		if score < bestScore {
			best, bestScore, ambiguous, bestBound = cand, score, false, bound
		} else if score == bestScore {
			ambiguous = true
		}
	}
	if best == nil {
		var ts []string
		for _, a := range args {
			ts = append(ts, a.t.String())
		}
		panic(malformed(line, "no matching function for call to %s(%s)", name, strings.Join(ts, ", ")))
	}
	if ambiguous {
		panic(malformed(line, "call to %s is ambiguous", name))
	}
	if best.tmpl != nil {
		// the body of a function template is instantiated only for the selected overload
		best = p.instantiate(best, bestBound, line)
	}
	if best.stage != "" {
		panic(malformed(line, "call of the %s function %s", best.stage, name))
	}
	e := &Expr{op: xCall, t: best.ret, fn: best, line: line}
	for i, a := range args {
		v := best.params[i]
		switch v.kind {
		case vRef:
			e.args = append(e.args, a)
		case vPtr:
			e.args = append(e.args, p.convert(a, v.t, line))
		default:
			if v.t.Kind == KOpaque {
				panic(unsupported(line, "argument of type %s", v.t))
			}
			e.args = append(e.args, p.convert(a, v.t, line))
		}
	}
	if p.fn != nil {
		p.fn.calls = append(p.fn.calls, best)
	}
	if best.ret.Kind == KOpaque {
		panic(unsupported(line, "call returning %s", best.ret))
	}
	return e
}

// deduce finds the template argument of tf for the call arguments (nil if deduction fails).
func (p *parser) deduce(tf *Func, args []*Expr, line int) *Type {
	if len(tf.params) != len(args) {
		return nil
	}
	var bound *Type
	for i, v := range tf.params {
		a := args[i]
		var pt, at *Type
		switch v.kind {
		case vPtr:
			if a.t == nil || a.t.Kind != KPtr || a.t.Space != v.t.Space {
				if v.t.Elem.Kind == KTParam {
					return nil
				}
				continue
			}
			pt, at = v.t.Elem, a.t.Elem
		case vRef:
			if !a.lv || a.space != v.space {
				if v.t.Kind == KTParam {
					return nil
				}
				continue
			}
			pt, at = v.t, a.t
		default:
			pt, at = v.t, a.t
			if at != nil {
				at = at.unpacked()
			}
		}
		if pt.Kind != KTParam {
			continue
		}
		if at == nil || at.Kind == KInitList || at.Kind == KDefaultCtor {
			return nil
		}
		if bound != nil && !sameType(bound, at) {
			return nil
		}
		bound = at
	}
	return bound
}

// substParams substitutes the deduced template argument into the parameter types.
func substParams(ps []*Var, bound *Type) []*Var {
	out := make([]*Var, len(ps))
	for i, v := range ps {
		nv := *v
		switch {
		case v.kind == vPtr && v.t.Elem.Kind == KTParam:
			pt := *v.t
			pt.Elem = bound
			nv.t = &pt
		case v.kind != vPtr && v.t.Kind == KTParam:
			nv.t = bound
		}
		out[i] = &nv
	}
	return out
}

// ---------------------------------------------------------------- metal:: names

type biID uint16

const (
	biNone biID = iota
	// float unary
	biSin
	biCos
	biTan
	biAsin
	biAcos
	biAtan
	biSinh
	biCosh
	biTanh
	biAsinh
	biAcosh
	biAtanh
	biExp
	biExp2
	biExp10
	biLog
	biLog2
	biLog10
	biSqrt
	biRsqrt
	biFloor
	biCeil
	biRound
	biRint
	biTrunc
	biFract
	biFabs
	biSaturate
	biSign
	// float binary
	biAtan2
	biPow
	biFmod
	biFmin
	biFmax
	biStep
	biCopysign
	// float ternary
	biFma
	biMix
	biSmoothstep
	// numeric
	biAbs
	biMin
	biMax
	biClamp
	// integer
	biPopcount
	biClz
	biCtz
	biReverseBits
	biExtractBits
	biInsertBits
	biMulhi
	// logic
	biSelect
	biAll
	biAny
	biIsnan
	biIsinf
	biIsfinite
	// geometric
	biDot
	biCross
	biLength
	biLengthSquared
	biDistance
	biNormalize
	biFaceforward
	biReflect
	biRefract
	// matrix
	biTranspose
	biDeterminant
	// float/int
	biLdexp
	biFrexp
	biModf
	// packing
	biPackSnorm4x8
	biPackUnorm4x8
	biPackSnorm2x16
	biPackUnorm2x16
	biUnpackSnorm4x8
	biUnpackUnorm4x8
	biUnpackSnorm2x16
	biUnpackUnorm2x16
	// atomics
	biAtomicLoad
	biAtomicStore
	biAtomicExchange
	biAtomicCmpXchg
	biAtomicAdd
	biAtomicSub
	biAtomicMin
	biAtomicMax
	biAtomicAnd
	biAtomicOr
	biAtomicXor
	// sync
	biBarrier
)

type builtin struct {
	name string
	id   biID
}

var builtinByName = map[string]*builtin{}

func init() {
	for name, id := range map[string]biID{
		"sin": biSin, "cos": biCos, "tan": biTan, "asin": biAsin, "acos": biAcos, "atan": biAtan,
		"sinh": biSinh, "cosh": biCosh, "tanh": biTanh, "asinh": biAsinh, "acosh": biAcosh, "atanh": biAtanh,
		"exp": biExp, "exp2": biExp2, "exp10": biExp10, "log": biLog, "log2": biLog2, "log10": biLog10,
		"sqrt": biSqrt, "rsqrt": biRsqrt, "floor": biFloor, "ceil": biCeil, "round": biRound, "rint": biRint,
		"trunc": biTrunc, "fract": biFract, "fabs": biFabs, "saturate": biSaturate, "sign": biSign,
		"atan2": biAtan2, "pow": biPow, "powr": biPow, "fmod": biFmod, "fmin": biFmin, "fmax": biFmax, "step": biStep,
		"copysign": biCopysign, "fma": biFma, "mix": biMix, "smoothstep": biSmoothstep,
		"abs": biAbs, "min": biMin, "max": biMax, "clamp": biClamp,
		"popcount": biPopcount, "clz": biClz, "ctz": biCtz, "reverse_bits": biReverseBits,
		"extract_bits": biExtractBits, "insert_bits": biInsertBits, "mulhi": biMulhi,
		"select": biSelect, "all": biAll, "any": biAny, "isnan": biIsnan, "isinf": biIsinf, "isfinite": biIsfinite,
		"dot": biDot, "cross": biCross, "length": biLength, "length_squared": biLengthSquared, "distance": biDistance,
		"normalize": biNormalize, "faceforward": biFaceforward, "reflect": biReflect, "refract": biRefract,
		"transpose": biTranspose, "determinant": biDeterminant,
		"ldexp": biLdexp, "frexp": biFrexp, "modf": biModf,
		"pack_float_to_snorm4x8": biPackSnorm4x8, "pack_float_to_unorm4x8": biPackUnorm4x8,
		"pack_float_to_snorm2x16": biPackSnorm2x16, "pack_float_to_unorm2x16": biPackUnorm2x16,
		"unpack_snorm4x8_to_float": biUnpackSnorm4x8, "unpack_unorm4x8_to_float": biUnpackUnorm4x8,
		"unpack_snorm2x16_to_float": biUnpackSnorm2x16, "unpack_unorm2x16_to_float": biUnpackUnorm2x16,
		"atomic_load_explicit": biAtomicLoad, "atomic_store_explicit": biAtomicStore,
		"atomic_exchange_explicit": biAtomicExchange, "atomic_compare_exchange_weak_explicit": biAtomicCmpXchg,
		"atomic_fetch_add_explicit": biAtomicAdd, "atomic_fetch_sub_explicit": biAtomicSub,
		"atomic_fetch_min_explicit": biAtomicMin, "atomic_fetch_max_explicit": biAtomicMax,
		"atomic_fetch_and_explicit": biAtomicAnd, "atomic_fetch_or_explicit": biAtomicOr,
		"atomic_fetch_xor_explicit": biAtomicXor,
		"threadgroup_barrier":       biBarrier,
	} {
		builtinByName[name] = &builtin{name: name, id: id}
	}
}

// knownUnsupportedMetalFns are metal:: functions that exist but are outside the subset.
func isUnsupportedMetalFn(n string) bool {
	for _, p := range []string{"simd_", "quad_", "simdgroup_", "dfdx", "dfdy", "fwidth", "discard_fragment", "atomic_",
		"get_", "wait_", "async_", "unpack_", "pack_", "fast_", "half_", "native_", "mad", "fdim", "sincos", "erf", "absdiff",
		"addsat", "subsat", "hadd", "rhadd", "madhi", "madsat", "rotate", "mul24", "mad24", "median3", "min3", "max3", "cospi", "sinpi", "tanpi",
		"nextafter", "ilogb", "log1p", "expm1", "cbrt", "hypot", "inverse", "divide", "distance_squared", "numeric_limits", "level", "bias", "gradient", "min_lod_clamp", "bool"} {
		if strings.HasPrefix(n, p) {
			return true
		}
	}
	return false
}

// metalName parses what follows `metal::`; the cursor is at the identifier.
func (p *parser) metalName(line int, qualified bool) *Expr {
	n := p.ident()
	name := n.text
	// nested namespaces / scoped enumerations
	for p.isP("::") {
		switch name {
		case "precise", "fast":
			// metal::precise::f / metal::fast::f: same mathematical function
			p.pos++
			name = p.ident().text
			continue
		case "mem_flags", "memory_order", "memory_scope", "thread_scope":
			p.pos++
			p.ident()
			return &Expr{op: xEnum, t: tEnumConst, line: line}
		}
		panic(unsupported(line, "metal::%s::", name))
	}
	if !qualified {
		p.prog.usedUnqual[name] = true
	}
	if strings.HasPrefix(name, "memory_order_") || strings.HasPrefix(name, "memory_scope_") {
		return &Expr{op: xEnum, t: tEnumConst, line: line}
	}
	if !p.isP("(") {
		if p.isP("<") {
			panic(unsupported(line, "metal::%s<...>", name))
		}
		panic(unsupported(line, "metal::%s used as a value", name))
	}
	bi := builtinByName[name]
	if bi == nil {
		if isUnsupportedMetalFn(name) {
			panic(unsupported(line, "metal::%s", name))
		}
		panic(malformed(line, "no function metal::%s", name))
	}
	args := p.parseArgs()
	for i, a := range args {
		if a.op == xInitList || a.op == xDefaultCtor {
			panic(unsupported(line, "braced list passed to metal::%s", name))
		}
		p.opaqueCheck(a)
		if a.t.Kind == KPtr && a.t.Elem.Kind == KTParam {
			panic(unsupported(line, "dependent argument"))
		}
		_ = i
	}
	return p.resolveBuiltin(bi, args, line)
}

func (p *parser) wantArgs(bi *builtin, args []*Expr, n int, line int) {
	if len(args) != n {
		panic(malformed(line, "metal::%s expects %d arguments, got %d", bi.name, n, len(args)))
	}
}

// genericT determines the common operand type T of the arguments at idxs (scalar or vector),
// converting scalars to the element type of a vector argument when one is present.
func (p *parser) genericT(bi *builtin, args []*Expr, idxs []int, line int) *Type {
	var vt *Type
	for _, i := range idxs {
		args[i] = p.rvalue(args[i])
		t := args[i].t
		if t.Kind == KVec {
			if vt == nil {
				vt = t
			} else if !sameType(vt, t) {
				if vt.N != t.N {
					panic(malformed(line, "metal::%s: vector arguments of different sizes", bi.name))
				}
				panic(unsupported(line, "metal::%s: vector arguments %s and %s", bi.name, vt, t))
			}
		} else if !t.isScalar() {
			panic(malformed(line, "metal::%s: argument of type %s", bi.name, t))
		}
	}
	if vt == nil {
		var st *Type
		same := true
		for _, i := range idxs {
			if st == nil {
				st = args[i].t
			} else if st != args[i].t {
				same = false
			}
		}
		if !same {
			st = nil
			for _, i := range idxs {
				t := p.promote(args[i].t)
				if st == nil {
					st = t
				} else if st != t {
					panic(unsupported(line, "metal::%s: ambiguous scalar overload (%s, %s)", bi.name, st, t))
				}
			}
		}
		vt = st
	}
	for _, i := range idxs {
		args[i] = p.convert(args[i], vt, line)
	}
	return vt
}

func (p *parser) needFloat(bi *builtin, t *Type, line int) {
	if t.scalarOf() == nil || t.scalarOf().Kind != KFloat {
		if t.scalarOf() != nil && t.scalarOf().Kind == KHalf {
			panic(unsupported(line, "metal::%s on half", bi.name))
		}
		panic(unsupported(line, "metal::%s on %s", bi.name, t))
	}
}

func (p *parser) needInt(bi *builtin, t *Type, line int) {
	s := t.scalarOf()
	if s == nil || (s.Kind != KInt && s.Kind != KUInt) {
		panic(unsupported(line, "metal::%s on %s", bi.name, t))
	}
}

func (p *parser) resolveBuiltin(bi *builtin, args []*Expr, line int) *Expr {
	e := &Expr{op: xBuiltin, bi: bi, line: line}
	fin := func(t *Type) *Expr { e.t, e.args = t, args; return e }
	id := bi.id
	switch {
	case id >= biSin && id <= biSign:
		p.wantArgs(bi, args, 1, line)
		t := p.genericT(bi, args, []int{0}, line)
		if id == biSign && t.scalarOf().Kind != KFloat {
			panic(unsupported(line, "metal::sign on %s", t))
		}
		if args[0].t.scalarOf().Kind != KFloat && args[0].t.isIntLike() {
			panic(unsupported(line, "metal::%s on an integer (ambiguous overload)", bi.name))
		}
		p.needFloat(bi, t, line)
		return fin(t)
	case id >= biAtan2 && id <= biCopysign:
		p.wantArgs(bi, args, 2, line)
		t := p.genericT(bi, args, []int{0, 1}, line)
		p.needFloat(bi, t, line)
		return fin(t)
	case id >= biFma && id <= biSmoothstep:
		p.wantArgs(bi, args, 3, line)
		t := p.genericT(bi, args, []int{0, 1, 2}, line)
		p.needFloat(bi, t, line)
		return fin(t)
	case id == biAbs:
		p.wantArgs(bi, args, 1, line)
		t := p.genericT(bi, args, []int{0}, line)
		if k := t.scalarOf().Kind; k != KInt && k != KUInt && k != KFloat {
			panic(unsupported(line, "metal::abs on %s", t))
		}
		return fin(t)
	case id == biMin || id == biMax:
		p.wantArgs(bi, args, 2, line)
		t := p.genericT(bi, args, []int{0, 1}, line)
		if k := t.scalarOf().Kind; k != KInt && k != KUInt && k != KFloat {
			panic(unsupported(line, "metal::%s on %s", bi.name, t))
		}
		return fin(t)
	case id == biClamp:
		p.wantArgs(bi, args, 3, line)
		t := p.genericT(bi, args, []int{0, 1, 2}, line)
		if k := t.scalarOf().Kind; k != KInt && k != KUInt && k != KFloat {
			panic(unsupported(line, "metal::clamp on %s", t))
		}
		return fin(t)
	case id >= biPopcount && id <= biReverseBits:
		p.wantArgs(bi, args, 1, line)
		t := p.genericT(bi, args, []int{0}, line)
		p.needInt(bi, t, line)
		return fin(t)
	case id == biExtractBits:
		p.wantArgs(bi, args, 3, line)
		t := p.genericT(bi, args, []int{0}, line)
		p.needInt(bi, t, line)
		args[1] = p.scalarArg(bi, args[1], tUInt, line)
		args[2] = p.scalarArg(bi, args[2], tUInt, line)
		return fin(t)
	case id == biInsertBits:
		p.wantArgs(bi, args, 4, line)
		t := p.genericT(bi, args, []int{0, 1}, line)
		p.needInt(bi, t, line)
		args[2] = p.scalarArg(bi, args[2], tUInt, line)
		args[3] = p.scalarArg(bi, args[3], tUInt, line)
		return fin(t)
	case id == biMulhi:
		p.wantArgs(bi, args, 2, line)
		t := p.genericT(bi, args, []int{0, 1}, line)
		p.needInt(bi, t, line)
		return fin(t)
	case id == biSelect:
		p.wantArgs(bi, args, 3, line)
		args[2] = p.rvalue(args[2])
		if args[2].t.isScalar() && args[2].t.Kind != KBool {
			args[2] = p.convert(args[2], tBool, line)
		}
		ct := args[2].t
		if ct.scalarOf() == nil || ct.scalarOf().Kind != KBool || ct.Kind == KMat {
			panic(malformed(line, "metal::select: condition of type %s", ct))
		}
		t := p.genericT(bi, args, []int{0, 1}, line)
		if t.comps() != ct.comps() {
			if t.comps() == 1 && ct.comps() > 1 {
				// scalar values selected by a vector condition: the values are splatted
				t = vecOf(t, ct.comps())
				args[0], args[1] = p.convert(args[0], t, line), p.convert(args[1], t, line)
			} else {
				panic(malformed(line, "metal::select(%s, %s, %s)", args[0].t, args[1].t, ct))
			}
		}
		if t.scalarOf().Kind == KHalf {
			panic(unsupported(line, "select on half"))
		}
		return fin(t)
	case id == biAll || id == biAny:
		p.wantArgs(bi, args, 1, line)
		args[0] = p.rvalue(args[0])
		t := args[0].t
		if t.scalarOf() == nil || t.scalarOf().Kind != KBool || t.Kind == KMat {
			panic(malformed(line, "metal::%s(%s)", bi.name, t))
		}
		return fin(tBool)
	case id >= biIsnan && id <= biIsfinite:
		p.wantArgs(bi, args, 1, line)
		t := p.genericT(bi, args, []int{0}, line)
		p.needFloat(bi, t, line)
		return fin(vecOf(tBool, t.comps()))
	case id == biDot || id == biDistance:
		p.wantArgs(bi, args, 2, line)
		t := p.genericT(bi, args, []int{0, 1}, line)
		p.needFloat(bi, t, line)
		if id == biDot && t.Kind != KVec {
			panic(malformed(line, "metal::dot on %s", t))
		}
		return fin(tFloat)
	case id == biCross:
		p.wantArgs(bi, args, 2, line)
		t := p.genericT(bi, args, []int{0, 1}, line)
		if !sameType(t, vecTypes[KFloat][3]) {
			panic(malformed(line, "metal::cross on %s", t))
		}
		return fin(t)
	case id == biLength || id == biLengthSquared:
		p.wantArgs(bi, args, 1, line)
		t := p.genericT(bi, args, []int{0}, line)
		p.needFloat(bi, t, line)
		return fin(tFloat)
	case id == biNormalize:
		p.wantArgs(bi, args, 1, line)
		t := p.genericT(bi, args, []int{0}, line)
		p.needFloat(bi, t, line)
		return fin(t)
	case id == biFaceforward:
		p.wantArgs(bi, args, 3, line)
		t := p.genericT(bi, args, []int{0, 1, 2}, line)
		p.needFloat(bi, t, line)
		return fin(t)
	case id == biReflect:
		p.wantArgs(bi, args, 2, line)
		t := p.genericT(bi, args, []int{0, 1}, line)
		p.needFloat(bi, t, line)
		return fin(t)
	case id == biRefract:
		p.wantArgs(bi, args, 3, line)
		t := p.genericT(bi, args, []int{0, 1}, line)
		p.needFloat(bi, t, line)
		args[2] = p.scalarArg(bi, args[2], tFloat, line)
		return fin(t)
	case id == biTranspose:
		p.wantArgs(bi, args, 1, line)
		args[0] = p.rvalue(args[0])
		if args[0].t.Kind != KMat {
			panic(malformed(line, "metal::transpose(%s)", args[0].t))
		}
		return fin(matTypes[args[0].t.Rows][args[0].t.N])
	case id == biDeterminant:
		p.wantArgs(bi, args, 1, line)
		args[0] = p.rvalue(args[0])
		if args[0].t.Kind != KMat || args[0].t.N != args[0].t.Rows {
			panic(malformed(line, "metal::determinant(%s)", args[0].t))
		}
		return fin(tFloat)
	case id == biLdexp:
		p.wantArgs(bi, args, 2, line)
		t := p.genericT(bi, args, []int{0}, line)
		p.needFloat(bi, t, line)
		args[1] = p.rvalue(args[1])
		it := vecOf(tInt, t.comps())
		if args[1].t.comps() != t.comps() && args[1].t.comps() != 1 {
			panic(malformed(line, "metal::ldexp(%s, %s)", t, args[1].t))
		}
		if !args[1].t.scalarOf().isIntLike() {
			panic(unsupported(line, "metal::ldexp exponent of type %s", args[1].t))
		}
		args[1] = p.convertX(args[1], it, line, true)
		return fin(t)
	case id == biFrexp || id == biModf:
		p.wantArgs(bi, args, 2, line)
		t := p.genericT(bi, args, []int{0}, line)
		p.needFloat(bi, t, line)
		out := args[1]
		want := t
		if id == biFrexp {
			want = vecOf(tInt, t.comps())
		}
		if !out.lv || !sameType(out.t, want) {
			panic(malformed(line, "metal::%s: second argument must be an lvalue of type %s", bi.name, want))
		}
		if out.cst || out.space == SpConstant {
			panic(malformed(line, "metal::%s writes through a const reference", bi.name))
		}
		if out.space != SpThread {
			panic(unsupported(line, "metal::%s out-parameter in address space %s", bi.name, out.space))
		}
		return fin(t)
	case id == biPackSnorm4x8 || id == biPackUnorm4x8:
		p.wantArgs(bi, args, 1, line)
		args[0] = p.convert(args[0], vecTypes[KFloat][4], line)
		return fin(tUInt)
	case id == biPackSnorm2x16 || id == biPackUnorm2x16:
		p.wantArgs(bi, args, 1, line)
		args[0] = p.convert(args[0], vecTypes[KFloat][2], line)
		return fin(tUInt)
	case id == biUnpackSnorm4x8 || id == biUnpackUnorm4x8:
		p.wantArgs(bi, args, 1, line)
		args[0] = p.scalarArg(bi, args[0], tUInt, line)
		return fin(vecTypes[KFloat][4])
	case id == biUnpackSnorm2x16 || id == biUnpackUnorm2x16:
		p.wantArgs(bi, args, 1, line)
		args[0] = p.scalarArg(bi, args[0], tUInt, line)
		return fin(vecTypes[KFloat][2])
	case id >= biAtomicLoad && id <= biAtomicXor:
		return p.resolveAtomic(bi, e, args, line)
	case id == biBarrier:
		p.wantArgs(bi, args, 1, line)
		if args[0].t.Kind != KEnumConst {
			panic(malformed(line, "metal::threadgroup_barrier: argument must be metal::mem_flags"))
		}
		if p.fn != nil {
			p.fn.barrier = true
		}
		return fin(tVoid)
	}
	panic(unsupported(line, "metal::%s", bi.name))
}

func (p *parser) scalarArg(bi *builtin, a *Expr, t *Type, line int) *Expr {
	a = p.rvalue(a)
	if !a.t.isScalar() {
		panic(malformed(line, "metal::%s: argument of type %s where a scalar is required", bi.name, a.t))
	}
	return p.convert(a, t, line)
}

func (p *parser) resolveAtomic(bi *builtin, e *Expr, args []*Expr, line int) *Expr {
	n := 3
	switch bi.id {
	case biAtomicLoad:
		n = 2
	case biAtomicCmpXchg:
		n = 5
	}
	p.wantArgs(bi, args, n, line)
	pt := args[0].t
	if pt.Kind != KPtr || pt.Elem.Kind != KAtomic {
		if pt.Kind == KPtr && pt.Elem.Kind == KOpaque {
			panic(unsupported(line, "atomic operation on %s", pt.Elem))
		}
		panic(malformed(line, "metal::%s: first argument of type %s is not a pointer to an atomic", bi.name, pt))
	}
	if pt.Space != SpDevice && pt.Space != SpThreadgroup {
		panic(malformed(line, "metal::%s: atomic object in address space %s", bi.name, pt.Space))
	}
	if pt.ConstP && bi.id != biAtomicLoad {
		panic(malformed(line, "metal::%s modifies an atomic through a pointer to const", bi.name))
	}
	vt := pt.Elem.Elem
	for i := n - 1; i >= 1; i-- {
		if (bi.id == biAtomicCmpXchg && i >= 3) || (bi.id != biAtomicCmpXchg && i == n-1) {
			if args[i].t.Kind != KEnumConst {
				panic(malformed(line, "metal::%s: memory order argument expected", bi.name))
			}
		}
	}
	switch bi.id {
	case biAtomicLoad:
		e.t = vt
	case biAtomicStore:
		args[1] = p.scalarArg(bi, args[1], vt, line)
		e.t = tVoid
	case biAtomicCmpXchg:
		et := args[1].t
		if et.Kind != KPtr || et.Space != SpThread || et.ConstP || !sameType(et.Elem, vt) {
			panic(malformed(line, "metal::%s: expected-value argument of type %s", bi.name, et))
		}
		args[2] = p.scalarArg(bi, args[2], vt, line)
		e.t = tBool
	default:
		args[1] = p.scalarArg(bi, args[1], vt, line)
		e.t = vt
	}
	e.args = args
	return e
}
