package mslx

// ---------------------------------------------------------------- statements

func (p *parser) parseStmtsUntilClose() []*Stmt {
	var out []*Stmt
	for !p.accept("}") {
		if p.peek().kind == tkEOF {
			panic(malformed(p.line(), "unexpected end of file in block"))
		}
		out = append(out, p.parseStmt())
	}
	return out
}

func (p *parser) parseBlockOrStmt() []*Stmt {
	if p.isP("{") {
		p.pos++
		p.pushScope()
		b := p.parseStmtsUntilClose()
		p.popScope()
		return b
	}
	p.pushScope()
	s := p.parseStmt()
	p.popScope()
	return []*Stmt{s}
}

func (p *parser) condition() *Expr {
	e := p.rvalue(p.parseExpr())
	if !e.t.isScalar() {
		panic(malformed(e.line, "condition of type %s is not contextually convertible to bool", e.t))
	}
	return p.convert(e, tBool, e.line)
}

func (p *parser) parseStmt() *Stmt {
	t := p.peek()
	line := t.line
	if t.kind == tkPunct {
		switch t.text {
		case "{":
			p.pos++
			p.pushScope()
			b := p.parseStmtsUntilClose()
			p.popScope()
			return &Stmt{kind: sBlock, body: b, line: line}
		case ";":
			p.pos++
			return &Stmt{kind: sEmpty, line: line}
		}
	}
	if t.kind == tkIdent {
		switch t.text {
		case "if":
			p.pos++
			p.expect("(")
			c := p.condition()
			p.expect(")")
			s := &Stmt{kind: sIf, e: c, line: line}
			s.body = p.parseBlockOrStmt()
			if p.acceptId("else") {
				s.els = p.parseBlockOrStmt()
			}
			return s
		case "while":
			p.pos++
			p.expect("(")
			c := p.condition()
			p.expect(")")
			p.loopDepth++
			b := p.parseBlockOrStmt()
			p.loopDepth--
			return &Stmt{kind: sWhile, e: c, body: b, line: line}
		case "do":
			p.pos++
			p.loopDepth++
			b := p.parseBlockOrStmt()
			p.loopDepth--
			if !p.acceptId("while") {
				panic(malformed(p.line(), "expected while after do body"))
			}
			p.expect("(")
			c := p.condition()
			p.expect(")")
			p.expect(";")
			return &Stmt{kind: sDoWhile, e: c, body: b, line: line}
		case "for":
			p.pos++
			p.expect("(")
			p.pushScope()
			s := &Stmt{kind: sFor, line: line}
			if !p.accept(";") {
				if p.startsDecl() {
					s.init = p.parseDecl()
				} else {
					s.init = &Stmt{kind: sExpr, e: p.parseExpr(), line: line}
					p.expect(";")
				}
			}
			if !p.isP(";") {
				s.e = p.condition()
			}
			p.expect(";")
			if !p.isP(")") {
				s.post = p.parseExpr()
				if p.isP(",") {
					panic(unsupported(line, "comma operator"))
				}
			}
			p.expect(")")
			p.loopDepth++
			s.body = p.parseBlockOrStmt()
			p.loopDepth--
			p.popScope()
			return s
		case "switch":
			return p.parseSwitch()
		case "break":
			p.pos++
			p.expect(";")
			if p.loopDepth == 0 && p.swDepth == 0 {
				panic(malformed(line, "break outside of a loop or switch"))
			}
			return &Stmt{kind: sBreak, line: line}
		case "continue":
			p.pos++
			p.expect(";")
			if p.loopDepth == 0 {
				panic(malformed(line, "continue outside of a loop"))
			}
			return &Stmt{kind: sContinue, line: line}
		case "return":
			p.pos++
			s := &Stmt{kind: sReturn, line: line}
			if !p.isP(";") {
				if p.fn == nil || p.fn.ret.Kind == KVoid {
					panic(malformed(line, "return with a value in a void function"))
				}
				s.e = p.initializer(p.fn.ret, p.parseInitOperand())
			} else if p.fn != nil && p.fn.ret.Kind != KVoid {
				panic(malformed(line, "return without a value in a non-void function"))
			}
			p.expect(";")
			return s
		case "case", "default":
			panic(malformed(line, "%s label outside of a switch", t.text))
		case "goto", "try", "throw", "asm", "static_assert", "using", "typedef", "struct", "class", "enum", "union", "namespace", "template":
			panic(unsupported(line, "statement starting with %q", t.text))
		}
		if p.startsDecl() {
			return p.parseDecl()
		}
	}
	e := p.parseExpr()
	if p.isP(",") {
		panic(unsupported(line, "comma operator"))
	}
	p.expect(";")
	return &Stmt{kind: sExpr, e: e, line: line}
}

// startsDecl: the statement at the cursor is a declaration.
func (p *parser) startsDecl() bool {
	if !p.startsType(0) {
		return false
	}
	t := p.peek()
	// `T(` and `T{` at statement start are expressions (functional cast / temporary).
	if _, isSpace := spaceByName[t.text]; isSpace {
		return true
	}
	switch t.text {
	case "const", "constexpr", "static", "volatile", "auto", "struct", "unsigned", "signed":
		return true
	}
	// find the token after the type name
	n := 1
	if t.text == "metal" {
		n = 3
		for p.isPN(n, "::") {
			n += 2
		}
	}
	if p.isPN(n, "<") {
		n = p.matchCloseAngle(p.pos+n) - p.pos + 1
	}
	nt := p.peekN(n)
	if nt.kind == tkIdent {
		return true
	}
	if nt.kind == tkPunct && (nt.text == "&" || nt.text == "*") && p.peekN(n+1).kind == tkIdent &&
		(p.isPN(n+2, "=") || p.isPN(n+2, ";") || p.isPN(n+2, "{") || p.isPN(n+2, "[")) {
		return true
	}
	return false
}

func (p *parser) parseDecl() *Stmt {
	line := p.line()
	bt, sp, isConst := p.parseTypeSpec()
	var first *Stmt
	var all []*Stmt
	for {
		s := p.parseDeclarator(bt, sp, isConst, line)
		if first == nil {
			first = s
		}
		all = append(all, s)
		if !p.accept(",") {
			break
		}
	}
	p.expect(";")
	if len(all) == 1 {
		return first
	}
	// several declarators in one declaration execute like consecutive statements
	return &Stmt{kind: sBlock, body: all, line: line}
}

func (p *parser) parseDeclarator(bt *Type, sp Space, isConst bool, line int) *Stmt {
	f := p.fn
	if f == nil {
		panic(malformed(line, "declaration outside of a function"))
	}
	isRef, isPtr := false, false
	if p.accept("&") {
		isRef = true
	} else if p.accept("*") {
		isPtr = true
		for p.isId("const") {
			p.pos++
		}
	} else if p.isP("&&") {
		panic(unsupported(line, "rvalue reference"))
	}
	name := p.ident()
	v := &Var{name: name.text, line: name.line, cst: isConst}
	var t *Type
	if bt != nil {
		t = p.parseArraySuffix(bt, false)
	}
	attrs := p.parseAttrs()
	v.attrs = attrs

	// initialiser operand
	var initOp *Expr
	hasInit := false
	switch {
	case p.accept("="):
		initOp = p.parseInitOperand()
		hasInit = true
	case p.isP("{"):
		initOp = p.parseInitList()
		hasInit = true
	case p.isP("("):
		if t == nil || isRef || isPtr {
			panic(unsupported(line, "parenthesised initialiser"))
		}
		initOp = p.parseCtorArgs(t, line)
		hasInit = true
	}
	if t == nil { // auto
		if !hasInit || initOp.op == xInitList || initOp.op == xDefaultCtor {
			panic(malformed(line, "cannot deduce auto"))
		}
		initOp = p.rvalueKeepLv(initOp)
		t = initOp.t.unpacked()
		if isRef || isPtr {
			panic(unsupported(line, "auto reference"))
		}
	}
	if s := t.hasOpaque(); s != "" {
		panic(unsupported(line, "local of type %s", s))
	}
	if t.Kind == KVoid || t.Kind == KTParam {
		panic(malformed(line, "variable %s has invalid type %s", v.name, t))
	}
	st := &Stmt{kind: sDecl, v: v, line: line}
	switch {
	case isRef:
		if !hasInit {
			panic(malformed(line, "reference %s is not initialised", v.name))
		}
		if !initOp.lv {
			panic(unsupported(line, "reference bound to a temporary"))
		}
		if !sameType(initOp.t, t) {
			panic(malformed(line, "reference to %s cannot bind to %s", t, initOp.t))
		}
		if sp == SpNone {
			panic(malformed(line, "reference without an address space"))
		}
		if sp != initOp.space {
			panic(malformed(line, "reference in address space %s cannot bind to an object in %s", sp, initOp.space))
		}
		if initOp.cst && !isConst && sp != SpConstant {
			panic(malformed(line, "non-const reference cannot bind to a const object"))
		}
		v.kind, v.t, v.space = vRef, t, sp
		v.cst = isConst || sp == SpConstant
		v.slot = f.frameRefs
		f.frameRefs++
		v.init = initOp
	case isPtr:
		if sp == SpNone {
			panic(malformed(line, "pointer without an address space"))
		}
		pt := &Type{Kind: KPtr, Elem: t, Space: sp, ConstP: isConst || sp == SpConstant}
		v.kind, v.t, v.space, v.cst = vPtr, pt, SpThread, false
		v.slot = f.frameRefs
		f.frameRefs++
		if hasInit {
			v.init = p.convert(p.rvalue(initOp), pt, line)
		} else {
			v.noInit = true
		}
	case sp == SpThreadgroup:
		if f.stage != "kernel" {
			panic(unsupported(line, "threadgroup variable outside a kernel body"))
		}
		if hasInit {
			panic(malformed(line, "threadgroup variable %s cannot have an initialiser", v.name))
		}
		v.kind, v.t, v.space = vTG, t, SpThreadgroup
		v.slot = f.tgCells
		f.tgCells += t.Cells
		f.tgVars = append(f.tgVars, v)
		v.noInit = true
	case sp == SpDevice || sp == SpConstant:
		panic(unsupported(line, "local variable in address space %s", sp))
	default:
		v.kind, v.t, v.space = vLocal, t, SpThread
		v.slot = f.frameCells
		f.frameCells += t.Cells
		if hasInit {
			if initOp.op == xCall && initOp.t == nil {
				panic(malformed(line, "bad initialiser"))
			}
			v.init = p.initializer(t, initOp)
		} else {
			v.noInit = true
		}
	}
	p.declareVar(v, "local")
	return st
}

func (p *parser) parseSwitch() *Stmt {
	line := p.next().line
	p.expect("(")
	sel := p.rvalue(p.parseExpr())
	p.expect(")")
	if !sel.t.isIntLike() {
		panic(malformed(line, "switch selector of type %s", sel.t))
	}
	st := p.promote(sel.t)
	sel = p.convert(sel, st, line)
	s := &Stmt{kind: sSwitch, e: sel, defIdx: -1, line: line}
	p.expect("{")
	p.pushScope()
	p.swDepth++
	seen := map[uint32]bool{}
	for !p.accept("}") {
		t := p.peek()
		if t.kind == tkEOF {
			panic(malformed(line, "unterminated switch"))
		}
		if t.kind == tkIdent && t.text == "case" {
			p.pos++
			ce := p.rvalue(p.parseCond())
			p.expect(":")
			if !ce.t.isIntLike() {
				panic(malformed(t.line, "case label of type %s", ce.t))
			}
			ce = p.convert(ce, st, t.line)
			v, ok := p.constInt(ce)
			if !ok {
				panic(malformed(t.line, "case label is not a constant expression"))
			}
			if seen[v] {
				panic(malformed(t.line, "duplicate case value %d", int32(v)))
			}
			seen[v] = true
			s.cases = append(s.cases, swCase{val: v, idx: len(s.body)})
			continue
		}
		if t.kind == tkIdent && t.text == "default" && p.isPN(1, ":") {
			p.pos += 2
			if s.defIdx >= 0 {
				panic(malformed(t.line, "two default labels"))
			}
			s.defIdx = len(s.body)
			continue
		}
		if len(s.cases) == 0 && s.defIdx < 0 {
			panic(unsupported(t.line, "statement before the first case label"))
		}
		s.body = append(s.body, p.parseStmt())
	}
	p.swDepth--
	p.popScope()
	return s
}
