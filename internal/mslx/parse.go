package mslx

import (
	"fmt"
	"strings"
	"sync"

	"verif/internal/xrt"
)

type symKind uint8

const (
	symVar symKind = iota
	symFunc
	symType
)

type symbol struct {
	kind symKind
	v    *Var
	fns  []*Func
	t    *Type
}

type scope struct {
	id     int
	parent *scope
	syms   map[string]*symbol
}

var tokPool sync.Pool

type parser struct {
	toks      []token
	pos       int
	prog      *Program
	global    *scope
	cur       *scope
	nextScope int
	fn        *Func
	record    bool
	forceID   int // when >0 the next newScope uses this id (template instantiation)

	defCtorSeen bool
	defCtorOK   bool
	usingUint   bool
	usingAll    bool
	loopDepth   int
	swDepth     int
	instDepth   int
}

// Parse parses an MSL translation unit. It returns *xrt.Malformed for syntax errors, unresolved
// identifiers and C++ type errors, *xrt.Unsupported when the file uses top-level constructs outside
// the subset. Functions whose bodies use unsupported constructs parse successfully; executing a
// kernel that can reach one returns *xrt.Unsupported.
func Parse(src string) (prog *Program, err error) {
	defer func() {
		if r := recover(); r != nil {
			prog = nil
			switch e := r.(type) {
			case *xrt.Malformed:
				err = e
			case *xrt.Unsupported:
				err = e
			default:
				err = &xrt.Unsupported{What: fmt.Sprintf("internal parser failure: %v", r)}
			}
		}
	}()
	var buf []token
	if b, ok := tokPool.Get().(*[]token); ok && b != nil {
		buf = *b
	}
	toks, lerr := lex(src, buf)
	if lerr != nil {
		return nil, lerr
	}
	defer func() {
		// the token array is only needed while parsing
		t := toks[:0]
		tokPool.Put(&t)
	}()
	p := &parser{toks: toks, record: true}
	p.prog = &Program{structs: map[string]*Type{}, usedUnqual: map[string]bool{}, usingNames: map[string]bool{}}
	p.global = &scope{id: 0, syms: map[string]*symbol{}}
	p.nextScope = 1
	p.cur = p.global
	p.parseTop()
	p.prog.computeProblems()
	return p.prog, nil
}

// ---------------------------------------------------------------- token helpers

func (p *parser) peek() *token { return &p.toks[p.pos] }
func (p *parser) peekN(n int) *token {
	if p.pos+n >= len(p.toks) {
		return &p.toks[len(p.toks)-1]
	}
	return &p.toks[p.pos+n]
}
func (p *parser) next() *token {
	t := &p.toks[p.pos]
	if t.kind != tkEOF {
		p.pos++
	}
	return t
}
func (p *parser) isP(s string) bool {
	t := p.peek()
	return t.kind == tkPunct && t.text == s
}
func (p *parser) isPN(n int, s string) bool {
	t := p.peekN(n)
	return t.kind == tkPunct && t.text == s
}
func (p *parser) isId(s string) bool {
	t := p.peek()
	return t.kind == tkIdent && t.text == s
}
func (p *parser) accept(s string) bool {
	if p.isP(s) {
		p.pos++
		return true
	}
	return false
}
func (p *parser) acceptId(s string) bool {
	if p.isId(s) {
		p.pos++
		return true
	}
	return false
}
func (p *parser) expect(s string) *token {
	t := p.peek()
	if t.kind != tkPunct || t.text != s {
		panic(malformed(t.line, "expected %q, found %q", s, t.text))
	}
	p.pos++
	return t
}
func (p *parser) ident() *token {
	t := p.peek()
	if t.kind != tkIdent {
		panic(malformed(t.line, "expected identifier, found %q", t.text))
	}
	p.pos++
	return t
}
func (p *parser) line() int { return p.peek().line }

// matchClose returns the index of the token closing the bracket at index i.
func (p *parser) matchClose(i int) int {
	open := p.toks[i].text
	var cl string
	switch open {
	case "{":
		cl = "}"
	case "(":
		cl = ")"
	case "[":
		cl = "]"
	case "<":
		cl = ">"
	}
	depth := 0
	for j := i; j < len(p.toks); j++ {
		t := &p.toks[j]
		if t.kind == tkEOF {
			break
		}
		if t.kind != tkPunct {
			continue
		}
		if t.text == open {
			depth++
		} else if t.text == cl {
			depth--
			if depth == 0 {
				return j
			}
		}
	}
	panic(malformed(p.toks[i].line, "unbalanced %q", open))
}

// ---------------------------------------------------------------- scopes and declarations

func (p *parser) pushScope() *scope {
	id := p.nextScope
	if p.forceID > 0 {
		id = p.forceID
		p.forceID = 0
	} else {
		p.nextScope++
	}
	s := &scope{id: id, parent: p.cur, syms: map[string]*symbol{}}
	p.cur = s
	return s
}
func (p *parser) popScope() { p.cur = p.cur.parent }

func (p *parser) lookup(name string) *symbol {
	for s := p.cur; s != nil; s = s.parent {
		if sym := s.syms[name]; sym != nil {
			return sym
		}
	}
	return nil
}

func (p *parser) recordDecl(name, kind string, sc *scope, line int, sig string) {
	if !p.record {
		return
	}
	parent := -1
	if sc.parent != nil {
		parent = sc.parent.id
	}
	p.prog.decls = append(p.prog.decls, Decl{Name: name, Kind: kind, ScopeID: sc.id, ParentScopeID: parent, Line: line, sig: sig})
}

func (p *parser) declareVar(v *Var, kind string) {
	p.recordDecl(v.name, kind, p.cur, v.line, "")
	// A redeclaration in the same scope is reported by Problems(); the later one wins for lookup.
	p.cur.syms[v.name] = &symbol{kind: symVar, v: v}
}

func (p *parser) declareType(name string, t *Type, kind string, line int) {
	p.recordDecl(name, kind, p.cur, line, "")
	p.cur.syms[name] = &symbol{kind: symType, t: t}
}

func (p *parser) declareFunc(f *Func) {
	p.recordDecl(f.name, "function", p.cur, f.line, f.sig)
	if sym := p.cur.syms[f.name]; sym != nil && sym.kind == symFunc {
		sym.fns = append(sym.fns, f)
		return
	}
	p.cur.syms[f.name] = &symbol{kind: symFunc, fns: []*Func{f}}
}

// ---------------------------------------------------------------- top level

func (p *parser) parseTop() {
	for {
		t := p.peek()
		if t.kind == tkEOF {
			return
		}
		if t.kind == tkPunct {
			if t.text == ";" {
				p.pos++
				continue
			}
			if t.text == "[" && p.isPN(1, "[") {
				p.parseFunctionOrGlobal()
				continue
			}
			panic(malformed(t.line, "unexpected %q at top level", t.text))
		}
		if t.kind != tkIdent {
			panic(malformed(t.line, "unexpected %q at top level", t.text))
		}
		switch t.text {
		case "using":
			p.parseUsing()
		case "struct":
			if p.peekN(1).kind == tkIdent && (p.isPN(2, "{") || p.isPN(2, ";")) {
				p.parseStruct()
			} else {
				p.parseFunctionOrGlobal()
			}
		case "typedef":
			p.parseTypedef()
		case "template":
			p.parseTemplate()
		case "enum", "class", "namespace", "union", "extern", "static_assert", "inline", "operator":
			panic(unsupported(t.line, "top-level %q", t.text))
		default:
			p.parseFunctionOrGlobal()
		}
	}
}

func (p *parser) parseUsing() {
	t := p.next() // using
	if p.acceptId("namespace") {
		n := p.ident()
		if n.text != "metal" {
			panic(unsupported(n.line, "using namespace %s", n.text))
		}
		p.expect(";")
		p.usingAll = true
		return
	}
	n := p.ident()
	if n.text != "metal" || !p.accept("::") {
		panic(unsupported(t.line, "using-declaration of %s", n.text))
	}
	m := p.ident()
	p.expect(";")
	if _, ok := typesByName[m.text]; !ok {
		panic(unsupported(t.line, "using metal::%s", m.text))
	}
	p.prog.usingNames[m.text] = true
	if m.text == "uint" {
		p.usingUint = true
	}
}

var defaultCtorTokens = strings.Fields("struct DefaultConstructible { template < typename T > operator T ( ) && { return T { } ; } } ;")

func (p *parser) parseStruct() {
	st := p.next() // struct
	name := p.ident()
	if name.text == "DefaultConstructible" {
		p.parseDefaultCtor(st, name)
		return
	}
	t := &Type{Kind: KStruct, Name: name.text, line: name.line}
	if p.isP(";") {
		panic(unsupported(name.line, "forward declaration of struct %s", name.text))
	}
	// The struct name is visible inside its own body.
	p.declareType(name.text, t, "struct", name.line)
	p.prog.structs[name.text] = t
	bodyEnd := p.matchClose(p.pos)
	saveCur := p.cur
	defer func() {
		if r := recover(); r != nil {
			u, ok := r.(*xrt.Unsupported)
			if !ok {
				panic(r)
			}
			// a struct outside the subset: its name stays declared, as an opaque type
			p.cur = saveCur
			p.pos = bodyEnd + 1
			p.expect(";")
			delete(p.prog.structs, name.text)
			p.cur.syms[name.text] = &symbol{kind: symType, t: opaque("struct " + name.text + " (" + u.What + ")")}
		}
	}()
	p.expect("{")
	sc := p.pushScope()
	t.scope = sc
	for !p.accept("}") {
		if p.peek().kind == tkEOF {
			panic(malformed(name.line, "unterminated struct %s", name.text))
		}
		if p.isId("template") || p.isId("operator") || p.isId("static") || p.isId("using") || p.isId("typedef") ||
			p.isId("struct") || p.isId("enum") || p.isId("union") || p.isId("public") || p.isId("private") {
			panic(unsupported(p.line(), "struct member declaration starting with %q", p.peek().text))
		}
		bt, _, _ := p.parseTypeSpec()
		for {
			ft := bt
			if p.isP("*") || p.isP("&") {
				p.pos++
				ft = opaque("pointer/reference member")
			}
			mn := p.ident()
			if p.isP("(") {
				panic(unsupported(mn.line, "member function %s", mn.text))
			}
			ft = p.parseArraySuffix(ft, false)
			attrs := p.parseAttrs()
			if p.isP("=") || p.isP("{") {
				panic(unsupported(mn.line, "default member initialiser"))
			}
			if p.isP(":") {
				panic(unsupported(mn.line, "bit-field"))
			}
			if ft.Kind == KVoid {
				panic(malformed(mn.line, "member %s has type void", mn.text))
			}
			t.Fields = append(t.Fields, Field{Name: mn.text, T: ft, Attrs: attrs, Line: mn.line})
			p.recordDecl(mn.text, "member", sc, mn.line, "")
			if !p.accept(",") {
				break
			}
		}
		p.expect(";")
	}
	p.popScope()
	p.expect(";")
	layoutStruct(t)
	if name.text == "_mslBufferSizes" {
		p.prog.sizesStruct = t
	}
}

func (p *parser) parseDefaultCtor(st, name *token) {
	// Match the definition token for token (DESIGN §2.5); anything else makes uses unsupported.
	start := p.pos - 2
	ok := true
	for i, w := range defaultCtorTokens {
		if start+i >= len(p.toks) {
			ok = false
			break
		}
		tt := p.toks[start+i].text
		if w == "&&" {
			if tt != "&&" {
				ok = false
				break
			}
			continue
		}
		if tt != w {
			ok = false
			break
		}
	}
	p.defCtorSeen = true
	p.defCtorOK = ok
	// skip the struct
	for !p.isP("{") && !p.isP(";") && p.peek().kind != tkEOF {
		p.pos++
	}
	if p.isP("{") {
		p.pos = p.matchClose(p.pos) + 1
	}
	p.expect(";")
	p.recordDecl(name.text, "struct", p.cur, name.line, "")
	p.cur.syms[name.text] = &symbol{kind: symType, t: tDefaultCtor}
}

func (p *parser) parseTypedef() {
	td := p.next()
	bt, _, _ := p.parseTypeSpec()
	if p.isP("*") || p.isP("&") {
		panic(unsupported(td.line, "typedef of pointer/reference"))
	}
	name := p.ident()
	t := bt
	if p.isP("[") {
		t = p.parseArraySuffix(bt, true)
	}
	p.expect(";")
	p.declareType(name.text, t, "typedef", name.line)
}

// parseArraySuffix parses zero or more [N] suffixes. flexible marks the `typedef T name[1]` spelling
// of a runtime-sized array.
func (p *parser) parseArraySuffix(el *Type, typedef bool) *Type {
	if !p.isP("[") || p.isPN(1, "[") {
		return el
	}
	var dims []int
	for p.isP("[") && !p.isPN(1, "[") {
		p.pos++
		if p.isP("]") {
			panic(unsupported(p.line(), "array of unknown bound"))
		}
		e := p.parseCond()
		v, ok := p.constInt(e)
		if !ok || int32(v) <= 0 {
			panic(malformed(e.line, "array bound is not a positive integer constant"))
		}
		if v > 1<<24 {
			panic(unsupported(e.line, "array bound %d too large", v))
		}
		dims = append(dims, int(v))
		p.expect("]")
	}
	t := el
	for i := len(dims) - 1; i >= 0; i-- {
		if t.Kind == KVoid {
			panic(malformed(p.line(), "array of void"))
		}
		t = newArray(t, dims[i], typedef && len(dims) == 1 && dims[0] == 1)
	}
	return t
}

func (p *parser) parseAttrs() []string {
	var out []string
	for p.isP("[") && p.isPN(1, "[") {
		p.pos += 2
		var sb strings.Builder
		depth := 0
		for {
			t := p.peek()
			if t.kind == tkEOF {
				panic(malformed(t.line, "unterminated attribute"))
			}
			if depth == 0 && t.kind == tkPunct && t.text == "]" && p.isPN(1, "]") {
				p.pos += 2
				break
			}
			if t.kind == tkPunct && (t.text == "(" || t.text == "[") {
				depth++
			}
			if t.kind == tkPunct && (t.text == ")" || t.text == "]") {
				depth--
			}
			if depth == 0 && t.kind == tkPunct && t.text == "," {
				out = append(out, sb.String())
				sb.Reset()
				p.pos++
				continue
			}
			sb.WriteString(t.text)
			p.pos++
		}
		if sb.Len() > 0 {
			out = append(out, sb.String())
		}
	}
	return out
}

// ---------------------------------------------------------------- types

var spaceByName = map[string]Space{"device": SpDevice, "constant": SpConstant, "thread": SpThread, "threadgroup": SpThreadgroup}

// startsType reports whether the token at pos+n begins a type-specifier.
func (p *parser) startsType(n int) bool {
	t := p.peekN(n)
	if t.kind != tkIdent {
		return false
	}
	switch t.text {
	case "const", "constexpr", "volatile", "static", "device", "constant", "thread", "threadgroup", "unsigned", "signed",
		"auto", "struct", "void", "bool", "char", "short", "int", "float", "half", "long", "double",
		"threadgroup_imageblock", "ray_data", "object_data":
		return true
	case "metal":
		if !p.isPN(n+1, "::") {
			return false
		}
		m := p.peekN(n + 2)
		if m.kind != tkIdent {
			return false
		}
		return p.isMetalTypeName(n + 2)
	}
	if sym := p.lookup(t.text); sym != nil {
		return sym.kind == symType
	}
	if _, ok := typesByName[t.text]; ok {
		return true
	}
	return isMetalOpaqueTypeName(t.text) && t.text != "array" && t.text != "vec" && t.text != "mesh" && t.text != "atomic"
}

// isMetalTypeName: the identifier at pos+n follows `metal::`.
func (p *parser) isMetalTypeName(n int) bool {
	m := p.peekN(n)
	if _, ok := typesByName[m.text]; ok {
		return true
	}
	if isMetalOpaqueTypeName(m.text) {
		return true
	}
	if m.text == "raytracing" {
		// metal::raytracing::X is a type unless it is used as an enumerator (X::y)
		return true
	}
	return false
}

// parseTypeSpec parses qualifiers and a type name (no declarator).
func (p *parser) parseTypeSpec() (t *Type, sp Space, isConst bool) {
	for {
		tk := p.peek()
		if tk.kind != tkIdent {
			break
		}
		if s, ok := spaceByName[tk.text]; ok {
			if sp != SpNone {
				panic(malformed(tk.line, "two address-space qualifiers"))
			}
			sp = s
			p.pos++
			continue
		}
		switch tk.text {
		case "const", "constexpr":
			isConst = true
			p.pos++
			continue
		case "volatile", "static":
			p.pos++
			continue
		case "threadgroup_imageblock", "ray_data", "object_data":
			panic(unsupported(tk.line, "address space %s", tk.text))
		}
		break
	}
	tk := p.peek()
	if tk.kind != tkIdent {
		panic(malformed(tk.line, "expected a type, found %q", tk.text))
	}
	switch tk.text {
	case "unsigned", "signed":
		p.pos++
		base := "int"
		if n := p.peek(); n.kind == tkIdent && (n.text == "int" || n.text == "char" || n.text == "short" || n.text == "long") {
			base = n.text
			p.pos++
		}
		switch {
		case base == "long":
			t = opaque("64-bit integer")
		case tk.text == "unsigned":
			t = map[string]*Type{"int": tUInt, "char": tUChar, "short": tUShort}[base]
		default:
			t = map[string]*Type{"int": tInt, "char": tChar, "short": tShort}[base]
		}
	case "auto":
		p.pos++
		t = nil // caller deduces
	case "struct":
		p.pos++
		n := p.ident()
		sym := p.lookup(n.text)
		if sym == nil || sym.kind != symType {
			panic(malformed(n.line, "unknown struct %s", n.text))
		}
		t = sym.t
	case "void":
		p.pos++
		t = tVoid
	case "metal":
		p.pos++
		p.expect("::")
		t = p.parseMetalType()
	default:
		sym := p.lookup(tk.text)
		if sym != nil {
			if sym.kind != symType {
				panic(malformed(tk.line, "%s is not a type", tk.text))
			}
			p.pos++
			t = sym.t
			if t.Kind == KOpaque && p.isP("<") {
				p.pos = p.matchCloseAngle(p.pos) + 1
			}
			break
		}
		if bt, ok := typesByName[tk.text]; ok {
			p.pos++
			if tk.text == "uint" && !p.usingUint && !p.usingAll {
				panic(malformed(tk.line, "uint used unqualified without `using metal::uint`"))
			}
			if bt.Kind != KBool && bt.Kind != KChar && bt.Kind != KShort && bt.Kind != KInt && bt.Kind != KFloat && bt.Kind != KHalf {
				p.prog.usedUnqual[tk.text] = true
			}
			t = bt
			break
		}
		if isMetalOpaqueTypeName(tk.text) || tk.text == "long" || tk.text == "double" {
			p.pos++
			if p.isP("<") {
				p.pos = p.matchCloseAngle(p.pos) + 1
			}
			t = opaque(tk.text)
			break
		}
		panic(malformed(tk.line, "unknown type name %q", tk.text))
	}
	for p.isId("const") || p.isId("volatile") {
		if p.isId("const") {
			isConst = true
		}
		p.pos++
	}
	return t, sp, isConst
}

// matchCloseAngle finds the '>' closing the '<' at i (nesting on <, (, [ only).
func (p *parser) matchCloseAngle(i int) int {
	depth := 0
	for j := i; j < len(p.toks); j++ {
		t := &p.toks[j]
		if t.kind == tkEOF {
			break
		}
		if t.kind != tkPunct {
			continue
		}
		switch t.text {
		case "<":
			depth++
		case ">":
			depth--
			if depth == 0 {
				return j
			}
		case "(":
			j = p.matchClose(j)
		case ";", "{", "}":
			panic(malformed(t.line, "unterminated template argument list"))
		}
	}
	panic(malformed(p.toks[i].line, "unterminated template argument list"))
}

// parseMetalType parses the part after `metal::` of a type name.
func (p *parser) parseMetalType() *Type {
	n := p.ident()
	if t, ok := typesByName[n.text]; ok {
		return t
	}
	name := n.text
	for p.isP("::") && p.peekN(1).kind == tkIdent {
		p.pos++
		name += "::" + p.ident().text
	}
	if p.isP("<") {
		p.pos = p.matchCloseAngle(p.pos) + 1
	}
	for p.isP("::") && p.peekN(1).kind == tkIdent {
		p.pos++
		name += "::" + p.ident().text
	}
	return opaque("metal::" + name)
}

// ---------------------------------------------------------------- functions and globals

func (p *parser) parseTemplate() {
	tt := p.next() // template
	p.expect("<")
	if !p.acceptId("typename") && !p.acceptId("class") {
		panic(unsupported(tt.line, "template parameter list"))
	}
	pn := p.ident()
	if !p.isP(">") {
		panic(unsupported(tt.line, "template with more than one parameter"))
	}
	p.pos++
	if p.isId("struct") && p.peekN(1).kind == tkIdent {
		// class template: its specialisations are outside the subset
		p.pos++
		name := p.ident()
		for !p.isP("{") && !p.isP(";") && p.peek().kind != tkEOF {
			p.pos++
		}
		if p.isP("{") {
			p.pos = p.matchClose(p.pos) + 1
		}
		p.expect(";")
		p.declareType(name.text, opaque("template "+name.text), "struct", name.line)
		return
	}
	tm := &template{param: pn.text, bodyStart: p.pos, insts: map[*Type]*Func{}}
	// Parse the signature with the parameter bound to a placeholder; skip the body.
	p.pushScope()
	p.cur.syms[pn.text] = &symbol{kind: symType, t: &Type{Kind: KTParam, Name: pn.text}}
	f := p.parseFunctionHeader(tm)
	p.popScope()
	if f == nil {
		panic(unsupported(tt.line, "template that is not a function"))
	}
}

// parseFunctionOrGlobal handles `[attrs] [stage] type name (params) {body}` and
// `constant type name = init;`.
func (p *parser) parseFunctionOrGlobal() { p.parseFunctionHeader(nil) }

// parseFunctionHeader parses a function definition (or, when it turns out to be one, a global
// variable). For templates (tm != nil) only the signature is parsed and the body skipped.
func (p *parser) parseFunctionHeader(tm *template) *Func {
	start := p.pos
	p.parseAttrs()
	stage := ""
	if t := p.peek(); t.kind == tkIdent {
		switch t.text {
		case "kernel", "vertex", "fragment":
			stage = t.text
			p.pos++
		case "mesh", "object", "visible", "intersection":
			if p.peekN(1).kind == tkIdent || p.isPN(1, "[") {
				stage = t.text
				p.pos++
			}
		}
	}
	for p.isP("[") && p.isPN(1, "[") {
		p.parseAttrs()
	}
	line := p.line()
	rt, sp, isConst := p.parseTypeSpec()
	if rt == nil {
		panic(unsupported(line, "auto at top level"))
	}
	retPtr := false
	for p.isP("*") || p.isP("&") {
		p.pos++
		retPtr = true
	}
	name := p.ident()
	if !p.isP("(") {
		if tm != nil || stage != "" {
			panic(malformed(name.line, "expected a function definition"))
		}
		p.parseGlobalVar(rt, sp, isConst, name, retPtr)
		return nil
	}
	if retPtr {
		rt = opaque("pointer/reference return type")
	}
	f := &Func{name: name.text, ret: rt, stage: stage, line: name.line, tmpl: tm}
	if tm != nil {
		tm.scopeID = p.cur.id
	}
	// parameters
	if tm == nil {
		p.pushScope()
	}
	saveFn := p.fn
	p.fn = f
	func() {
		defer func() {
			if r := recover(); r != nil {
				if u, ok := r.(*xrt.Unsupported); ok {
					// signature outside the subset: keep the name, skip to the body
					f.unsup = u
					f.params = nil
					f.sig = "?"
					i := start
					for ; i < len(p.toks); i++ {
						if p.toks[i].kind == tkPunct && p.toks[i].text == "(" && i > 0 && &p.toks[i-1] == name {
							break
						}
					}
					p.pos = p.matchClose(i) + 1
					return
				}
				panic(r)
			}
		}()
		p.parseParams(f)
	}()
	var sb strings.Builder
	for _, v := range f.params {
		if v.kind == vRef {
			fmt.Fprintf(&sb, "%s %s&,", v.space, v.t)
		} else {
			fmt.Fprintf(&sb, "%s,", v.t)
		}
	}
	if f.sig == "" {
		f.sig = "(" + sb.String() + ")"
	}
	for p.isP("[") && p.isPN(1, "[") {
		p.parseAttrs()
	}
	if p.accept(";") {
		panic(unsupported(name.line, "function declaration without body (%s)", name.text))
	}
	if !p.isP("{") {
		panic(malformed(p.line(), "expected function body, found %q", p.peek().text))
	}
	end := p.matchClose(p.pos)
	// declare in the enclosing (global) scope before the body so that the (WGSL-forbidden, but
	// accepted by naga) recursive call resolves.
	encl := p.cur.parent
	if tm != nil {
		encl = p.global
	}
	cur := p.cur
	p.cur = encl
	p.declareFunc(f)
	p.cur = cur
	p.prog.funcs = append(p.prog.funcs, f)
	if stage == "kernel" && tm == nil {
		p.prog.kernels = append(p.prog.kernels, f)
	}
	if tm != nil {
		p.pos = end + 1
		p.fn = saveFn
		return f
	}
	if f.unsup != nil {
		p.pos = end + 1
	} else {
		p.parseBodyProtected(f, end)
	}
	p.popScope()
	p.fn = saveFn
	return f
}

// parseBodyProtected parses `{ ... }` of f; an *xrt.Unsupported inside marks the function
// unsupported and skips the body.
func (p *parser) parseBodyProtected(f *Func, end int) {
	saveScope := p.cur
	ld, sd := p.loopDepth, p.swDepth
	p.loopDepth, p.swDepth = 0, 0
	defer func() {
		p.loopDepth, p.swDepth = ld, sd
		if r := recover(); r != nil {
			if u, ok := r.(*xrt.Unsupported); ok {
				f.unsup = u
				f.body = nil
				p.cur = saveScope
				p.pos = end + 1
				return
			}
			panic(r)
		}
	}()
	p.expect("{")
	f.body = p.parseStmtsUntilClose()
	if f.ret.Kind == KOpaque {
		panic(unsupported(f.line, "function %s returns %s", f.name, f.ret))
	}
}

func (p *parser) parseParams(f *Func) {
	p.expect("(")
	if p.isId("void") && p.isPN(1, ")") {
		p.pos++
	}
	for !p.accept(")") {
		if len(f.params) > 0 {
			p.expect(",")
		}
		line := p.line()
		bt, sp, isConst := p.parseTypeSpec()
		if bt == nil {
			panic(unsupported(line, "auto parameter"))
		}
		v := &Var{t: bt, space: sp, cst: isConst, line: line, isParm: true}
		switch {
		case p.accept("&"):
			v.kind = vRef
			if p.isP("&") {
				panic(unsupported(line, "rvalue reference parameter"))
			}
			if sp == SpNone {
				panic(malformed(line, "reference parameter without an address space"))
			}
			if sp == SpConstant {
				v.cst = true
			}
			v.slot = f.frameRefs
			f.frameRefs++
		case p.accept("&&"):
			panic(unsupported(line, "rvalue reference parameter"))
		case p.accept("*"):
			v.kind = vPtr
			if p.isP("*") {
				panic(unsupported(line, "pointer to pointer"))
			}
			if sp == SpNone {
				panic(malformed(line, "pointer parameter without an address space"))
			}
			v.t = &Type{Kind: KPtr, Elem: bt, Space: sp, ConstP: isConst || sp == SpConstant}
			v.cst = false
			for p.isId("const") {
				p.pos++
			}
			v.slot = f.frameRefs
			f.frameRefs++
		default:
			v.kind = vLocal
			v.space = SpThread
			if sp != SpNone && sp != SpThread {
				panic(unsupported(line, "by-value parameter in address space %s", sp))
			}
		}
		if p.peek().kind == tkIdent {
			n := p.ident()
			v.name, v.line = n.text, n.line
		}
		if v.kind == vLocal {
			v.t = p.parseArraySuffix(v.t, false)
			if v.t.Kind == KArray {
				panic(unsupported(line, "array parameter"))
			}
			if v.t.Kind == KVoid {
				panic(malformed(line, "parameter of type void"))
			}
			v.slot = f.frameCells
			f.frameCells += v.t.Cells
		} else if p.isP("[") && !p.isPN(1, "[") {
			panic(unsupported(line, "reference/pointer to array declarator"))
		}
		v.attrs = p.parseAttrs()
		if p.isP("=") {
			panic(unsupported(line, "default argument"))
		}
		f.params = append(f.params, v)
		if v.name != "" {
			p.declareVar(v, "param")
		}
	}
}

func (p *parser) parseGlobalVar(t *Type, sp Space, isConst bool, name *token, ptr bool) {
	if ptr {
		panic(unsupported(name.line, "global pointer/reference %s", name.text))
	}
	t = p.parseArraySuffix(t, false)
	p.parseAttrs()
	if sp != SpConstant && !isConst {
		panic(unsupported(name.line, "global variable %s outside the constant address space", name.text))
	}
	v := &Var{name: name.text, t: t, kind: vGlobal, space: SpConstant, cst: true, line: name.line}
	if sp == SpNone {
		v.space = SpThread
	}
	// The initialiser is parsed as a function-less expression.
	var init *Expr
	perr := func() (err error) {
		defer func() {
			if r := recover(); r != nil {
				if u, ok := r.(*xrt.Unsupported); ok {
					err = u
					return
				}
				panic(r)
			}
		}()
		switch {
		case p.accept("="):
			init = p.initializer(t, p.parseInitOperand())
		case p.isP("{"):
			init = p.initializer(t, p.parseInitList())
		case p.isP("("):
			init = p.parseCtorArgs(t, name.line)
		default:
			panic(malformed(name.line, "constant %s has no initialiser", name.text))
		}
		return nil
	}()
	if perr != nil {
		// skip to the terminating ';'
		for !p.isP(";") && p.peek().kind != tkEOF {
			if p.isP("{") || p.isP("(") || p.isP("[") {
				p.pos = p.matchClose(p.pos)
			}
			p.pos++
		}
		v.t = opaque(perr.Error())
	}
	p.expect(";")
	if s := v.t.hasOpaque(); s != "" && perr == nil {
		v.t = opaque(s)
	}
	v.init = init
	v.slot = p.prog.globalCells
	p.prog.globalCells += v.t.Cells
	p.prog.globals = append(p.prog.globals, v)
	p.declareVar(v, "global")
}

// instantiate parses the template function with its parameter bound to arg.
func (p *parser) instantiate(tf *Func, arg *Type, line int) *Func {
	tm := tf.tmpl
	if f := tm.insts[arg]; f != nil {
		return f
	}
	if p.instDepth > 8 {
		panic(unsupported(line, "template instantiation depth"))
	}
	save := *p
	p.instDepth++
	p.pos = tm.bodyStart
	p.cur = p.global
	p.forceID = tm.scopeID // the instantiation's declarations belong to the template's scope
	p.pushScope()
	p.cur.syms[tm.param] = &symbol{kind: symType, t: arg}
	p.record = false
	p.fn = nil

	p.parseAttrs()
	rt, _, _ := p.parseTypeSpec()
	name := p.ident()
	f := &Func{name: name.text, ret: rt, line: name.line}
	p.fn = f
	p.parseParams(f)
	f.sig = tf.sig
	end := p.matchClose(p.pos)
	tm.insts[arg] = f
	p.record = save.record && !tm.recorded
	tm.recorded = true
	p.parseBodyProtected(f, end)
	p.prog.funcs = append(p.prog.funcs, f)
	// restore
	nextScope := p.nextScope
	prog := p.prog
	*p = save
	p.nextScope = nextScope
	p.prog = prog
	return f
}
