package mslx

import "verif/internal/xrt"

// cell is one scalar slot of non-buffer memory: the low 32 bits hold the scalar's bit pattern
// (bool 0/1, 8/16-bit integers sign- or zero-extended to 32 bits, half as its 16-bit pattern), bit 32
// marks poison (uninitialised).
type cell = uint64

const poisonBit cell = 1 << 32

// Value is an rvalue: n cells (n = Type.Cells) held inline when n <= 4, otherwise in x. Pointer values
// use r.
type Value struct {
	a [4]cell
	x []cell
	r Ref
}

// Ref designates an object: a cell offset in cell memory or a byte offset in buffer memory.
type Ref struct {
	m   *Mem
	off int
}

// Mem is one region of memory. Exactly one of cells/bytes is used.
type Mem struct {
	cells []cell
	bytes []byte
	isBuf bool
	ro    bool
	bind  xrt.Binding
	name  string
}

type opKind uint8

const (
	xLit opKind = iota
	xLocal
	xLocalRef // reference or pointer variable held in frame.refs
	xGlobal
	xTG
	xField
	xIndex
	xSwizzle
	xUnary
	xIncDec
	xBinary
	xLogAnd
	xLogOr
	xAssign
	xCompound
	xCond
	xConv
	xBitcast
	xConstruct
	xZero
	xCall
	xBuiltin
	xAddrOf
	xDeref
	xDefaultCtor
	xInitList
	xEnum
	xPlaceholder // left operand of the arithmetic inside a compound assignment
)

type binOp uint8

const (
	bAdd binOp = iota
	bSub
	bMul
	bDiv
	bRem
	bAnd
	bOr
	bXor
	bShl
	bShr
	bEq
	bNe
	bLt
	bLe
	bGt
	bGe
	bLAnd // component-wise && on bool vectors
	bLOr
	// matrix forms
	bMatAdd
	bMatSub
	bMatScalar // matrix * scalar (a matrix, b scalar)
	bScalarMat // scalar * matrix
	bMatVec    // matrix * column vector
	bVecMat    // row vector * matrix
	bMatMat
	bMatDivScalar
)

type convKind uint8

const (
	cvRelabel convKind = iota // same cells, different static type (packed<->vector, int<->int identity)
	cvScalar                  // component-wise scalar conversion (vector to vector of same size, or scalar to scalar)
	cvSplat                   // scalar converted to the element type and replicated
)

// Expr is a typed expression node.
type Expr struct {
	op    opKind
	t     *Type
	lv    bool
	cst   bool // lvalue is const-qualified
	space Space
	a, b  *Expr
	c     *Expr
	args  []*Expr
	lit   cell // xLit: the scalar's bit pattern
	slot  int
	fld   *Field
	swz   [4]uint8
	nswz  uint8
	bop   binOp
	uop   byte // '-', '!', '~', '+'
	cv    convKind
	inc   int8 // xIncDec: +1/-1
	post  bool
	expl  bool // explicit conversion (cast) - affects nothing at run time, kept for diagnostics
	fn    *Func
	bi    *builtin
	ct    *Type // xCompound: type the arithmetic is done in
	line  int
}

type stmtKind uint8

const (
	sExpr stmtKind = iota
	sDecl
	sBlock
	sIf
	sWhile
	sDoWhile
	sFor
	sSwitch
	sBreak
	sContinue
	sReturn
	sEmpty
)

type swCase struct {
	val uint32
	idx int
}

// Stmt is a statement node.
type Stmt struct {
	kind   stmtKind
	e      *Expr
	init   *Stmt
	post   *Expr
	body   []*Stmt
	els    []*Stmt
	v      *Var
	cases  []swCase
	defIdx int
	line   int
}

type varKind uint8

const (
	vLocal  varKind = iota
	vRef            // reference (parameter or local) stored in frame.refs
	vPtr            // pointer variable stored in frame.refs
	vGlobal         // module-scope constant
	vTG             // threadgroup variable declared in a kernel body
)

// Var is a declared variable or parameter.
type Var struct {
	name   string
	t      *Type // for vRef: the referenced type; for vPtr: the pointer type
	kind   varKind
	slot   int
	space  Space
	cst    bool
	init   *Expr
	noInit bool
	attrs  []string
	line   int
	isParm bool
}

// Func is a function definition.
type Func struct {
	name       string
	ret        *Type
	params     []*Var
	body       []*Stmt
	frameCells int
	frameRefs  int
	stage      string
	unsup      error
	calls      []*Func
	barrier    bool
	tgCells    int // kernel: cells of threadgroup variables declared in its body
	tgVars     []*Var
	line       int
	sig        string
	tmpl       *template
}

type template struct {
	param     string
	bodyStart int // token index of the first token after template<...>
	insts     map[*Type]*Func
	scopeID   int
	recorded  bool
}

// Kernel describes one `kernel` function of the program.
type Kernel struct {
	Name   string
	Params []Param
	Line   int
}

// Param is one kernel parameter.
type Param struct {
	Name    string
	Type    string
	Space   string // "device", "constant", "threadgroup", "thread" or "" (by value)
	Const   bool   // the referenced object is const (or in the constant address space)
	Ref     bool
	Ptr     bool
	Attrs   []string // attribute texts, e.g. "buffer(0)", "thread_position_in_grid", "user(fake0)"
	Buffer  int      // n of [[buffer(n)]], -1 if absent
	Builtin string   // thread_position_in_grid etc., "" if none
}

// Decl is one declared identifier.
type Decl struct {
	Name          string
	Kind          string // "struct","member","function","param","local","global","typedef"
	ScopeID       int
	ParentScopeID int
	Line          int
	sig           string
}

// Program is a parsed MSL translation unit.
type Program struct {
	funcs       []*Func
	kernels     []*Func
	structs     map[string]*Type
	decls       []Decl
	globals     []*Var
	globalCells int
	problems    []string
	usedUnqual  map[string]bool // metal:: names used without qualification
	usingNames  map[string]bool
	sizesStruct *Type
}
