package mslx

import (
	"math"
	"testing"
)

func u(x uint32) uint32 { return x }

// Group 4: builtin functions. Expected values from the WGSL definitions of the builtins.
var progsGroup4 = []confProg{
	{name: "int_abs_min_max_clamp", wgsl: `
@group(0) @binding(0) var<storage, read> a: array<i32, 4>;
@group(0) @binding(1) var<storage, read> w: array<u32, 2>;
@group(0) @binding(2) var<storage, read_write> o: array<i32, 12>;
@compute @workgroup_size(1) fn main() {
  o[0] = abs(a[0]); o[1] = abs(a[2]); o[2] = min(a[0], a[1]); o[3] = max(a[0], a[1]);
  o[4] = clamp(a[3], a[0], a[1]); o[5] = clamp(a[0], 0, 9);
  o[6] = i32(min(w[0], w[1])); o[7] = i32(max(w[0], w[1])); o[8] = i32(clamp(w[1], 1u, 100u));
  let v = abs(vec2<i32>(a[0], a[2])); o[9] = v.x; o[10] = v.y;
  o[11] = i32(abs(w[1]));
}`,
		in:   map[B][]byte{b0(0): bs(-5, 3, iMin, 10), b0(1): bs(u(7), u(0xFFFFFFF0)), b0(2): zeros(48)},
		want: map[B][]any{b0(2): {5, iMin, -5, 3, 3, 0, 7, -16, 100, 5, iMin, -16}}},

	{name: "float_floor_ceil_trunc_fract_sign", wgsl: `
@group(0) @binding(0) var<storage, read> f: array<f32, 6>;
@group(0) @binding(1) var<storage, read_write> o: array<f32, 18>;
@compute @workgroup_size(1) fn main() {
  o[0] = floor(f[2]); o[1] = ceil(f[2]); o[2] = floor(f[3]); o[3] = ceil(f[3]);
  o[4] = trunc(f[3]); o[5] = trunc(f[2]); o[6] = fract(f[2]); o[7] = fract(f[3]);
  o[8] = sign(f[1]); o[9] = sign(f[5]); o[10] = abs(f[1]); o[11] = saturate(f[2]); o[12] = saturate(f[3]); o[13] = saturate(f[5] + 0.25);
  o[14] = min(f[0], f[1]); o[15] = max(f[0], f[1]); o[16] = clamp(f[4], f[3], f[2]); o[17] = sign(f[0]);
}`,
		in: map[B][]byte{b0(0): bs(2.5, -2.5, 1.7, -1.2, 3.5, 0.0), b0(1): zeros(72)},
		want: map[B][]any{b0(1): {1.0, 2.0, -2.0, -1.0, -1.0, 1.0, approx(0.7), approx(0.8), -1.0, approx(0), 2.5, 1.0, 0.0, 0.25,
			-2.5, 2.5, float32(1.7), 1.0}}},

	{name: "round_half_even", skip: "naga defect: WGSL round() (ties to even) is emitted as metal::round (ties away from zero); metal::rint is the ties-to-even function", wgsl: `
@group(0) @binding(0) var<storage, read> f: array<f32, 6>;
@group(0) @binding(1) var<storage, read_write> o: array<f32, 8>;
@compute @workgroup_size(1) fn main() {
  o[0] = round(f[0]); o[1] = round(f[1]); o[2] = round(f[2]); o[3] = round(f[3]); o[4] = round(f[4]); o[5] = round(f[5]);
  let v = round(vec2<f32>(f[5], f[0])); o[6] = v.x; o[7] = v.y;
}`,
		in:   map[B][]byte{b0(0): bs(2.5, -2.5, 1.7, -1.2, 3.5, 0.5), b0(1): zeros(32)},
		want: map[B][]any{b0(1): {2.0, -2.0, 2.0, -1.0, 4.0, approx(0), approx(0), 2.0}}},

	{name: "round_non_ties", wgsl: `
@group(0) @binding(0) var<storage, read> f: array<f32, 4>;
@group(0) @binding(1) var<storage, read_write> o: array<f32, 4>;
@compute @workgroup_size(1) fn main() {
  o[0] = round(f[0]); o[1] = round(f[1]); o[2] = round(f[2]); o[3] = round(f[3]);
}`,
		in:   map[B][]byte{b0(0): bs(1.7, -1.2, 2.4999, -7.75), b0(1): zeros(16)},
		want: map[B][]any{b0(1): {2.0, -1.0, 2.0, -8.0}}},

	{name: "float_transcendental", wgsl: `
@group(0) @binding(0) var<storage, read> f: array<f32, 8>;
@group(0) @binding(1) var<storage, read_write> o: array<f32, 22>;
@compute @workgroup_size(1) fn main() {
  o[0] = sqrt(f[0]); o[1] = inverseSqrt(f[1]); o[2] = exp(f[2]); o[3] = exp2(f[3]); o[4] = log(f[4]); o[5] = log2(f[7]);
  o[6] = pow(f[5], f[6]); o[7] = sin(f[2]); o[8] = cos(f[2]); o[9] = tan(f[2]); o[10] = asin(f[4]); o[11] = acos(f[4]);
  o[12] = atan(f[4]); o[13] = atan2(f[4], f[4]); o[14] = sinh(f[2]); o[15] = cosh(f[2]); o[16] = tanh(f[2]);
  o[17] = asinh(f[2]); o[18] = acosh(f[4]); o[19] = atanh(f[2]); o[20] = degrees(f[4]); o[21] = radians(f[6] * 18.0);
}`,
		in: map[B][]byte{b0(0): bs(16.0, 4.0, 0.0, 3.0, 1.0, 2.0, 10.0, 8.0), b0(1): zeros(88)},
		want: map[B][]any{b0(1): {approx(4), approx(0.5), approx(1), approx(8), approx(0), approx(3), approx(1024), approx(0), approx(1), approx(0),
			approx(math.Pi / 2), approx(0), approx(math.Pi / 4), approx(math.Pi / 4), approx(0), approx(1), approx(0), approx(0), approx(0), approx(0),
			approx(57.29578), approx(math.Pi)}}},

	{name: "geometric", wgsl: `
struct O { dotf: f32, len: f32, dist: f32, doti: i32, cr: vec3<f32>, nrm: vec3<f32>, ff: vec3<f32>, rf: vec3<f32>, rr: vec3<f32>, dotu: u32 }
@group(0) @binding(0) var<storage, read> v: array<vec3<f32>, 2>;
@group(0) @binding(1) var<storage, read_write> o: O;
@compute @workgroup_size(1) fn main() {
  let a = v[0]; let b = v[1];
  o.dotf = dot(a, b); o.len = length(a); o.dist = distance(a, b);
  o.doti = dot(vec2<i32>(i32(a.y), 3), vec2<i32>(4, -5));
  o.cr = cross(a, b); o.nrm = normalize(b); o.ff = faceForward(a, b, a);
  o.rf = reflect(vec3<f32>(a.x, -a.x, 0.0), vec3<f32>(0.0, 1.0, 0.0));
  o.rr = refract(vec3<f32>(0.0, -a.x, 0.0), vec3<f32>(0.0, 1.0, 0.0), 0.5);
  o.dotu = dot(vec4<u32>(1u, 2u, 3u, u32(b.z)), vec4<u32>(10u, 20u, 30u, 40u));
}`,
		// O: dotf@0 len@4 dist@8 doti@12 cr@16 nrm@32 ff@48 rf@64 rr@80 dotu@92 size 96
		in: map[B][]byte{b0(0): bs(1.0, 2.0, 2.0, anyPad(4), 0.0, 3.0, 4.0, anyPad(4)), b0(1): zeros(96)},
		want: map[B][]any{b0(1): {approx(14), approx(3), approx(2.4494898), -7, approx(2), approx(-4), approx(3), anyPad(4),
			approx(0), approx(0.6), approx(0.8), anyPad(4), approx(-1), approx(-2), approx(-2), anyPad(4),
			approx(1), approx(1), approx(0), anyPad(4), approx(0), approx(-1), approx(0), u(300)}}},

	{name: "bit_counting", wgsl: `
@group(0) @binding(0) var<storage, read> a: array<u32, 5>;
@group(0) @binding(1) var<storage, read_write> o: array<u32, 24>;
@compute @workgroup_size(1) fn main() {
  for (var i = 0u; i < 5u; i++) {
    o[i] = countOneBits(a[i]); o[5u + i] = countLeadingZeros(a[i]); o[10u + i] = countTrailingZeros(a[i]); o[15u + i] = reverseBits(a[i]);
  }
  o[20] = u32(countOneBits(i32(a[3]))); o[21] = u32(countLeadingZeros(i32(a[3]))); o[22] = u32(countTrailingZeros(i32(a[2])));
  o[23] = u32(reverseBits(i32(a[1])));
}`,
		in: map[B][]byte{b0(0): bs(u(0), u(1), u(0x80000000), u(0xFFFFFFFF), u(0xF0)), b0(1): zeros(96)},
		want: map[B][]any{b0(1): {u(0), u(1), u(1), u(32), u(4), u(32), u(31), u(0), u(0), u(24), u(32), u(0), u(31), u(0), u(4),
			u(0), u(0x80000000), u(1), u(0xFFFFFFFF), u(0x0F000000), u(32), u(0), u(31), u(0x80000000)}}},

	{name: "first_bits", wgsl: `
@group(0) @binding(0) var<storage, read> a: array<u32, 4>;
@group(0) @binding(1) var<storage, read> s: array<i32, 6>;
@group(0) @binding(2) var<storage, read_write> o: array<u32, 20>;
@compute @workgroup_size(1) fn main() {
  for (var i = 0u; i < 4u; i++) { o[i] = firstLeadingBit(a[i]); o[4u + i] = firstTrailingBit(a[i]); }
  for (var i = 0u; i < 6u; i++) { o[8u + i] = u32(firstLeadingBit(s[i])); o[14u + i] = u32(firstTrailingBit(s[i])); }
}`,
		in: map[B][]byte{b0(0): bs(u(0), u(1), u(0x80000000), u(0xF0)), b0(1): bs(0, -1, 1, iMin, -2, iMax), b0(2): zeros(80)},
		want: map[B][]any{b0(2): {u(0xFFFFFFFF), u(0), u(31), u(7), u(0xFFFFFFFF), u(0), u(31), u(4),
			-1, -1, 0, 30, 0, 30, -1, 0, 0, 31, 1, 0}}},

	{name: "first_leading_bit_u32_all_ones", skip: "naga defect: firstLeadingBit(u32) is emitted as select(31 - clz(x), uint(-1), x == 0 || x == -1): for x = 0xFFFFFFFF the unsigned comparison x == -1 holds and the result is 0xFFFFFFFF instead of 31", wgsl: `
@group(0) @binding(0) var<storage, read> a: array<u32, 2>;
@group(0) @binding(1) var<storage, read_write> o: array<u32, 4>;
@compute @workgroup_size(1) fn main() {
  o[0] = firstLeadingBit(a[0]); o[1] = firstLeadingBit(a[1]);
  let v = firstLeadingBit(vec2<u32>(a[0], a[1])); o[2] = v.x; o[3] = v.y;
}`,
		in:   map[B][]byte{b0(0): bs(u(0xFFFFFFFF), u(0xFFFFFFFE)), b0(1): zeros(16)},
		want: map[B][]any{b0(1): {u(31), u(31), u(31), u(31)}}},

	{name: "extract_insert_bits", wgsl: `
@group(0) @binding(0) var<storage, read> a: array<u32, 4>;
@group(0) @binding(1) var<storage, read_write> o: array<u32, 10>;
@compute @workgroup_size(1) fn main() {
  let x = a[0];
  o[0] = extractBits(x, a[1], 8u); o[1] = u32(extractBits(i32(x), 28u, a[1])); o[2] = extractBits(x, 0u, a[2]);
  o[3] = extractBits(x, a[2], 5u); o[4] = extractBits(x, 30u, a[3]);
  o[5] = insertBits(0xFFFFFFFFu, 0u, 8u, a[1]); o[6] = insertBits(0u, 0xABCu, a[1], 8u); o[7] = insertBits(x, 0x55u, 0u, a[2]);
  o[8] = insertBits(0x11111111u, 0xFu, 30u, a[3]);
  o[9] = u32(extractBits(vec2<i32>(-256, 255), 4u, 8u).x);
}`,
		// a = (0xABCD1234, 4, 32, 10)
		in:   map[B][]byte{b0(0): bs(u(0xABCD1234), u(4), u(32), u(10)), b0(1): zeros(40)},
		want: map[B][]any{b0(1): {u(0x23), -6, u(0xABCD1234), u(0), u(2), u(0xFFFFF0FF), u(0xBC0), u(0x55), u(0xD1111111), -16}}},

	{name: "pack_unpack_norm_float", wgsl: `
@group(0) @binding(0) var<storage, read> f: array<f32, 4>;
@group(0) @binding(1) var<storage, read_write> o: array<u32, 5>;
@group(0) @binding(2) var<storage, read_write> r: array<vec4<f32>, 4>;
@compute @workgroup_size(1) fn main() {
  o[0] = pack4x8snorm(vec4<f32>(f[0], -f[0], f[1], f[2]));
  o[1] = pack4x8unorm(vec4<f32>(f[0], f[2], f[1], f[3]));
  o[2] = pack2x16snorm(vec2<f32>(f[0], -f[0]));
  o[3] = pack2x16unorm(vec2<f32>(f[0], f[1]));
  o[4] = pack2x16float(vec2<f32>(f[0], -f[3]));
  r[0] = unpack4x8snorm(o[0]); r[1] = unpack4x8unorm(o[1]);
  r[2] = vec4<f32>(unpack2x16snorm(o[2]), unpack2x16unorm(o[3]));
  r[3] = vec4<f32>(unpack2x16float(o[4]), 0.0, 0.0);
}`,
		// f = (1, 0.5, 0, 2)
		in: map[B][]byte{b0(0): bs(1.0, 0.5, 0.0, 2.0), b0(1): zeros(20), b0(2): zeros(64)},
		want: map[B][]any{b0(1): {u(0x0040817F), u(0xFF8000FF), u(0x80017FFF), u(0x8000FFFF), u(0xC0003C00)},
			b0(2): {approx(1), approx(-1), approx(64.0 / 127), approx(0), approx(1), approx(0), approx(128.0 / 255), approx(1),
				approx(1), approx(-1), approx(1), approx(32768.0 / 65535), approx(1), approx(-2), approx(0), approx(0)}}},

	{name: "modf_frexp_ldexp", wgsl: `
@group(0) @binding(0) var<storage, read> f: array<f32, 4>;
@group(0) @binding(1) var<storage, read_write> o: array<f32, 14>;
@compute @workgroup_size(1) fn main() {
  let m = modf(f[0]); o[0] = m.fract; o[1] = m.whole;
  let n = modf(-f[0]); o[2] = n.fract; o[3] = n.whole;
  let e = frexp(f[1]); o[4] = e.fract; o[5] = f32(e.exp);
  let z = frexp(f[2]); o[6] = z.fract; o[7] = f32(z.exp);
  o[8] = ldexp(f[3], 4); o[9] = ldexp(1.0, i32(f[2]) - 2);
  let mv = modf(vec2<f32>(1.5, -0.25)); o[10] = mv.fract.x; o[11] = mv.fract.y; o[12] = mv.whole.x; o[13] = mv.whole.y;
}`,
		in:   map[B][]byte{b0(0): bs(2.75, 12.0, 0.0, 0.75), b0(1): zeros(56)},
		want: map[B][]any{b0(1): {0.75, 2.0, -0.75, -2.0, 0.75, 4.0, approx(0), approx(0), 12.0, 0.25, 0.5, -0.25, 1.0, approx(0)}}},

	{name: "mix_step_smoothstep_fma", wgsl: `
@group(0) @binding(0) var<storage, read> f: array<f32, 4>;
@group(0) @binding(1) var<storage, read_write> o: array<f32, 14>;
@compute @workgroup_size(1) fn main() {
  o[0] = mix(f[0], f[1], f[2]);
  let a = mix(vec2<f32>(0.0, f[1]), vec2<f32>(f[1], 20.0), vec2<f32>(0.5)); o[1] = a.x; o[2] = a.y;
  let b = mix(vec2<f32>(0.0, f[1]), vec2<f32>(f[1], 20.0), 0.5); o[3] = b.x; o[4] = b.y;
  o[5] = step(1.0, f[2]); o[6] = step(1.0, f[2] * 4.0); o[7] = step(f[0], f[1]);
  o[8] = smoothstep(0.0, f[1], 5.0); o[9] = smoothstep(0.0, f[1], -3.0); o[10] = smoothstep(0.0, f[1], 20.0);
  o[11] = fma(f[0], 3.0, 4.0);
  let c = step(vec2<f32>(1.0), vec2<f32>(f[2], f[0])); o[12] = c.x; o[13] = c.y;
}`,
		// f = (2, 10, 0.25, _)
		in:   map[B][]byte{b0(0): bs(2.0, 10.0, 0.25, 0.0), b0(1): zeros(56)},
		want: map[B][]any{b0(1): {approx(4), approx(5), approx(15), approx(5), approx(15), 0.0, 1.0, 1.0, approx(0.5), approx(0), approx(1), approx(10), 0.0, 1.0}}},

	{name: "dot4_packed", wgsl: `
@group(0) @binding(0) var<storage, read> a: array<u32, 4>;
@group(0) @binding(1) var<storage, read_write> o: array<u32, 4>;
@compute @workgroup_size(1) fn main() {
  o[0] = dot4U8Packed(a[0], a[1]); o[1] = u32(dot4I8Packed(a[2], a[1]));
  o[2] = dot4U8Packed(a[3], a[3]); o[3] = u32(dot4I8Packed(0x80808080u, 0x80808080u + a[0] - a[0]));
}`,
		in:   map[B][]byte{b0(0): bs(u(0x01020304), u(0x05060708), u(0xFF020304), u(0xFFFFFFFF)), b0(1): zeros(16)},
		want: map[B][]any{b0(1): {u(70), u(60), u(260100), u(65536)}}},

	{name: "quantize_to_f16", wgsl: `
@group(0) @binding(0) var<storage, read> f: array<f32, 5>;
@group(0) @binding(1) var<storage, read_write> o: array<f32, 7>;
@compute @workgroup_size(1) fn main() {
  for (var i = 0u; i < 5u; i++) { o[i] = quantizeToF16(f[i]); }
  let v = quantizeToF16(vec2<f32>(f[1], f[4])); o[5] = v.x; o[6] = v.y;
}`,
		in:   map[B][]byte{b0(0): bs(1.0, 0.1, 65504.0, 1.0009765625, 1.00048828125), b0(1): zeros(28)},
		want: map[B][]any{b0(1): {1.0, 0.0999755859375, 65504.0, 1.0009765625, 1.0, 0.0999755859375, 1.0}}},

	{name: "transpose_determinant", wgsl: `
@group(0) @binding(0) var<storage, read> m3: mat3x3<f32>;
@group(0) @binding(1) var<storage, read_write> o: array<f32, 6>;
@compute @workgroup_size(1) fn main() {
  o[0] = determinant(m3);
  let m4 = mat4x4<f32>(vec4<f32>(1.0, 0.0, 0.0, 0.0), vec4<f32>(0.0, m3[0][0], 0.0, 0.0), vec4<f32>(0.0, 0.0, 3.0, 0.0), vec4<f32>(5.0, 6.0, 7.0, 4.0));
  o[1] = determinant(m4);
  let t = transpose(m4); o[2] = t[0][3]; o[3] = t[3][0]; o[4] = t[1][3];
  o[5] = transpose(m3)[0][2];
}`,
		// m3 columns (2,0,0) (0,3,0) (1,0,4): upper triangular, det 24. m4: det 1*2*3*4 = 24.
		in: map[B][]byte{b0(0): bs(2.0, 0.0, 0.0, anyPad(4), 0.0, 3.0, 0.0, anyPad(4), 1.0, 0.0, 4.0, anyPad(4)), b0(1): zeros(24)},
		// t = transpose(m4): t[c][r] = m4[r][c].  t[0][3] = m4[3][0] = 5; t[3][0] = m4[0][3] = 0; t[1][3] = m4[3][1] = 6.
		// transpose(m3)[0][2] = m3[2][0] = 1
		want: map[B][]any{b0(1): {approx(24), approx(24), 5.0, 0.0, 6.0, 1.0}}},

	{name: "transpose_nonsquare_let", skip: "naga defect: the result of transpose(mat2x4) bound to a let is typed mat2x4 instead of mat4x2 (MSL: `metal::float2x4 t2_ = metal::transpose(metal::float2x4(...))` does not compile; indexing is bounds-checked against 2 columns)", wgsl: `
@group(0) @binding(0) var<storage, read> v: array<vec4<f32>, 2>;
@group(0) @binding(1) var<storage, read_write> o: array<f32, 2>;
@compute @workgroup_size(1) fn main() {
  let t2 = transpose(mat2x4<f32>(v[0], v[1]));
  o[0] = t2[3][1]; o[1] = t2[2][0];
}`,
		in:   map[B][]byte{b0(0): bs(1.0, 2.0, 3.0, 4.0, 5.0, 6.0, 7.0, 8.0), b0(1): zeros(8)},
		want: map[B][]any{b0(1): {8.0, 3.0}}},

	{name: "pack_unpack_4x8_int", wgsl: `
@group(0) @binding(0) var<storage, read> a: array<i32, 4>;
@group(0) @binding(1) var<storage, read_write> o: array<u32, 4>;
@group(0) @binding(2) var<storage, read_write> r: array<vec4<i32>, 2>;
@compute @workgroup_size(1) fn main() {
  o[0] = pack4xI8(vec4<i32>(a[0], a[1], a[2], a[3]));
  o[1] = pack4xU8(vec4<u32>(1u, 2u, 255u, u32(a[2]) + 129u));
  o[2] = pack4xI8Clamp(vec4<i32>(200, -200, 5, a[0] - 1));
  o[3] = pack4xU8Clamp(vec4<u32>(300u, 4u, 255u, u32(a[0]) - 1u));
  r[0] = unpack4xI8(o[0]);
  r[1] = vec4<i32>(unpack4xU8(o[0]));
}`,
		// a = (1, -1, 127, -128)
		in: map[B][]byte{b0(0): bs(1, -1, 127, -128), b0(1): zeros(16), b0(2): zeros(32)},
		want: map[B][]any{b0(1): {u(0x807FFF01), u(0x00FF0201), u(0x0005807F), u(0x00FF04FF)},
			b0(2): {1, -1, 127, -128, 1, 255, 127, 128}}},

	{name: "vector_min_max_clamp_abs", wgsl: `
@group(0) @binding(0) var<storage, read> a: array<vec4<f32>, 2>;
@group(0) @binding(1) var<storage, read_write> o: array<vec4<f32>, 6>;
@compute @workgroup_size(1) fn main() {
  o[0] = min(a[0], a[1]); o[1] = max(a[0], a[1]); o[2] = clamp(a[0], vec4<f32>(0.0), vec4<f32>(1.0)); o[3] = abs(a[1]);
  o[4] = vec4<f32>(clamp(vec4<i32>(a[0]), vec4<i32>(0), vec4<i32>(4)));
  o[5] = vec4<f32>(floor(a[1].xy), ceil(a[1].zw));
}`,
		// a0 = (1, 5, -3, 0.5) a1 = (2, 4, -4.5, -0.25)
		in: map[B][]byte{b0(0): bs(1.0, 5.0, -3.0, 0.5, 2.0, 4.0, -4.5, -0.25), b0(1): zeros(96)},
		want: map[B][]any{b0(1): {1.0, 4.0, -4.5, -0.25, 2.0, 5.0, -3.0, 0.5, 1.0, 1.0, 0.0, 0.5, 2.0, 4.0, 4.5, 0.25,
			1.0, 4.0, 0.0, 0.0, 2.0, 4.0, -4.0, approx(0)}}},
	{name: "determinant_let", skip: "naga defect: the result of determinant(matNxN) bound to a let is typed as the matrix (MSL: `metal::float3x3 r = metal::determinant(...)`; `o.inner[0] = r` does not compile)", wgsl: `
@group(0) @binding(0) var<storage, read> m: mat3x3<f32>;
@group(0) @binding(1) var<storage, read_write> o: array<f32, 2>;
@compute @workgroup_size(1) fn main() {
  let r = determinant(m);
  o[0] = r; o[1] = r * 2.0;
}`,
		in:   map[B][]byte{b0(0): bs(2.0, 0.0, 0.0, anyPad(4), 0.0, 3.0, 0.0, anyPad(4), 1.0, 0.0, 4.0, anyPad(4)), b0(1): zeros(8)},
		want: map[B][]any{b0(1): {approx(24), approx(48)}}},
}

func TestConformanceGroup4(t *testing.T) {
	for _, cp := range progsGroup4 {
		cp := cp
		t.Run(cp.name, func(t *testing.T) { runConf(t, cp) })
	}
}
