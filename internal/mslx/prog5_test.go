package mslx

import "testing"

// Compositions (parenthesisation, baking) and reproducers of naga defects found with this package.
var progsGroup5 = []confProg{
	{name: "parenthesisation_int", wgsl: `
@group(0) @binding(0) var<storage, read> x: array<i32, 3>;
@group(0) @binding(1) var<storage, read_write> o: array<i32, 16>;
@compute @workgroup_size(1) fn main() {
  let a = x[0]; let b = x[1]; let c = x[2];
  o[0] = -(a + b); o[1] = (a + b) * c; o[2] = a - (b - c); o[3] = a / (b * c); o[4] = ~(a | b); o[5] = a - -b; o[6] = -(-a);
  o[7] = (a % b) * c; o[8] = a % (b * c); o[9] = a << u32(b - c); o[10] = (a << 1u) + 1; o[11] = a << (1u + 1u);
  o[12] = select(0, 1, (a & 8) == 0); o[13] = select(0, 1, (a ^ b) != 0 && ((a | b) > 8 || c == 2));
  o[14] = (a + b) / (a - b) % c; o[15] = -a * -b - -c;
}`,
		in:   map[B][]byte{b0(0): bs(7, 3, 2), b0(1): zeros(64)},
		want: map[B][]any{b0(1): {-10, 20, 6, 1, -8, 10, 7, 2, 1, 14, 15, 28, 1, 1, 0, 23}}},

	{name: "parenthesisation_float_vec", wgsl: `
@group(0) @binding(0) var<storage, read> a: vec2<f32>;
@group(0) @binding(1) var<storage, read> b: vec2<f32>;
@group(0) @binding(2) var<storage, read_write> o: array<f32, 8>;
@compute @workgroup_size(1) fn main() {
  o[0] = (a + b).x * 2.0; o[1] = (a * b).y; o[2] = -(a - b).x; o[3] = (a / b).y - 1.0;
  o[4] = (a.x + a.y) * (b.x - b.y); o[5] = a.x - (a.y - b.x); o[6] = (-a).y; o[7] = (a + b * 2.0).x;
}`,
		// a = (1,2) b = (4,8)
		in:   map[B][]byte{b0(0): bs(1.0, 2.0), b0(1): bs(4.0, 8.0), b0(2): zeros(32)},
		want: map[B][]any{b0(2): {10.0, 16.0, 3.0, approx(-0.75), -12.0, 3.0, -2.0, 9.0}}},

	{name: "swizzle_of_binary_expression", skip: "naga defect: a multi-component swizzle of a binary expression loses its parentheses, (a * b).yx is emitted as a * b.yx", wgsl: `
@group(0) @binding(0) var<storage, read> a: vec2<f32>;
@group(0) @binding(1) var<storage, read> b: vec2<f32>;
@group(0) @binding(2) var<storage, read_write> o: array<vec2<f32>, 2>;
@compute @workgroup_size(1) fn main() {
  o[0] = (a * b).yx;
  o[1] = (a - b).yx;
}`,
		// a = (1,2) b = (3,5): a*b = (3,10) -> yx = (10,3); a-b = (-2,-3) -> (-3,-2)
		in:   map[B][]byte{b0(0): bs(1.0, 2.0), b0(1): bs(3.0, 5.0), b0(2): zeros(16)},
		want: map[B][]any{b0(2): {10.0, 3.0, -3.0, -2.0}}},

	{name: "product_of_two_dynamic_reads", wgsl: `
@group(0) @binding(0) var<storage, read> k: array<i32, 2>;
@group(0) @binding(1) var<storage, read_write> o: array<f32, 2>;
@compute @workgroup_size(1) fn main() {
  let b = array<vec3<f32>, 2>(vec3<f32>(1.0, 2.0, 3.0), vec3<f32>(4.0, 5.0, 6.0));
  var j = k[0]; var i = k[1];
  o[0] = b[j].y * b[i].z;
  o[1] = b[j].x - b[i].x;
}`,
		in:   map[B][]byte{b0(0): bs(1, 0), b0(1): zeros(8)},
		want: map[B][]any{b0(1): {15.0, 3.0}},
		skipCfg: map[string]string{
			"default-fake":         "naga defect: under read-zero-skip-write two bounds-checked reads are joined by an operator without parentheses (c1 ? a : DefaultConstructible() * c2 ? b : DefaultConstructible()), which is not valid MSL",
			"v21-rzsw-nozero-fake": "naga defect: same as default-fake",
		}},

	{name: "atomic_compare_exchange_array_element", wgsl: `
@group(0) @binding(0) var<storage, read_write> arr: array<atomic<u32>, 4>;
@group(0) @binding(1) var<storage, read> k: u32;
@group(0) @binding(2) var<storage, read_write> o: array<u32, 2>;
@compute @workgroup_size(1) fn main() {
  let r = atomicCompareExchangeWeak(&arr[k], 7u, 9u);
  o[0] = r.old_value; o[1] = u32(r.exchanged);
}`,
		in:   map[B][]byte{b0(0): bs(u(5), u(6), u(7), u(8)), b0(1): bs(u(2)), b0(2): zeros(8)},
		want: map[B][]any{b0(0): {u(5), u(6), u(9), u(8)}, b0(2): {u(7), u(1)}},
		skipCfg: map[string]string{
			"default-fake":         "naga defect: under read-zero-skip-write the pointer argument becomes `&uint(i) < 4 ? arr.inner[i] : DefaultConstructible()` (invalid MSL)",
			"v21-rzsw-nozero-fake": "naga defect: same as default-fake",
		}},

	{name: "let_baking_and_reuse", wgsl: `
@group(0) @binding(0) var<storage, read_write> s: array<i32, 4>;
@compute @workgroup_size(1) fn main() {
  let a = s[0];          // value as of now
  s[0] = 100;
  let b = s[0] + a;      // 100 + 1
  var v = s[1];
  let c = v * 2;         // 4
  v = 50;
  let d = v + c;         // 54
  s[1] = b; s[2] = d; s[3] = a + c;
}`,
		in:   map[B][]byte{b0(0): bs(1, 2, 0, 0)},
		want: map[B][]any{b0(0): {100, 101, 54, 5}}},

	{name: "pointer_let_into_private_matrix", wgsl: `
var<private> pm: mat2x2<f32>;
@group(0) @binding(0) var<storage, read> k: u32;
@group(0) @binding(1) var<storage, read_write> o: vec4<f32>;
@compute @workgroup_size(1) fn main() {
  pm = mat2x2<f32>(1.0, 2.0, 3.0, 4.0);
  let col = &pm[k];
  (*col).y = 9.0;
  let whole = &pm;
  (*whole)[1u - k] = vec2<f32>(7.0, 8.0);
  o = vec4<f32>(pm[0], pm[1]);
}`,
		in:   map[B][]byte{b0(0): bs(u(1)), b0(1): zeros(16)},
		want: map[B][]any{b0(1): {7.0, 8.0, 3.0, 9.0}}},

	{name: "workgroup_struct_and_copy", wg: [3]uint32{2, 1, 1}, wgsl: `
struct W { a: array<vec2<u32>, 2>, n: u32 }
var<workgroup> w: W;
@group(0) @binding(0) var<storage, read_write> o: array<u32, 6>;
@compute @workgroup_size(2) fn main(@builtin(local_invocation_index) li: u32) {
  w.a[li] = vec2<u32>(li + 1u, (li + 1u) * 10u);
  if li == 1u { w.n = 5u; }
  workgroupBarrier();
  if li == 0u {
    var c = w;
    c.a[0].x += c.n;
    o[0] = c.a[0].x; o[1] = c.a[0].y; o[2] = c.a[1].x; o[3] = c.a[1].y; o[4] = c.n; o[5] = w.a[0].x;
  }
}`,
		in:   map[B][]byte{b0(0): zeros(24)},
		want: map[B][]any{b0(0): {u(6), u(10), u(2), u(20), u(5), u(1)}}},

	{name: "uniform_vec3_and_scalar_packing", wgsl: `
struct U { a: vec3<f32>, b: f32, c: vec3<u32>, d: u32, e: vec2<f32> }
@group(0) @binding(0) var<uniform> u: U;
@group(0) @binding(1) var<storage, read_write> o: array<f32, 6>;
@compute @workgroup_size(1) fn main() {
  o[0] = u.a.z + u.b; o[1] = f32(u.c.y + u.d); o[2] = u.e.y; o[3] = dot(u.a, vec3<f32>(u.c)); o[4] = u.a[u.d]; o[5] = f32(u.c[u.d + 1u]);
}`,
		// U: a@0 b@12 c@16 d@28 e@32 size 48 (align 16)
		in:   map[B][]byte{b0(0): bs(1.0, 2.0, 3.0, 4.0, u(5), u(6), u(7), u(1), 0.5, 0.25, anyPad(8)), b0(1): zeros(24)},
		want: map[B][]any{b0(1): {7.0, 7.0, 0.25, approx(38), 2.0, 7.0}}},

	{name: "array_of_mat_and_column_ops", wgsl: `
@group(0) @binding(0) var<storage, read_write> ms: array<mat2x3<f32>, 2>;
@group(0) @binding(1) var<storage, read> k: u32;
@compute @workgroup_size(1) fn main() {
  let m = ms[k];
  ms[1u - k] = mat2x3<f32>(m[1], m[0] * 2.0);
  ms[k][1].y = -1.0;
}`,
		// mat2x3: 2 columns of vec3, stride 16, size 32
		in:   map[B][]byte{b0(0): bs(1.0, 2.0, 3.0, anyPad(4), 4.0, 5.0, 6.0, anyPad(4), 0.0, 0.0, 0.0, anyPad(4), 0.0, 0.0, 0.0, anyPad(4)), b0(1): bs(u(0))},
		want: map[B][]any{b0(0): {1.0, 2.0, 3.0, anyPad(4), 4.0, -1.0, 6.0, anyPad(4), 4.0, 5.0, 6.0, anyPad(4), 2.0, 4.0, 6.0, anyPad(4)}}},
}

func TestConformanceGroup5(t *testing.T) {
	for _, cp := range progsGroup5 {
		cp := cp
		t.Run(cp.name, func(t *testing.T) { runConf(t, cp) })
	}
}
