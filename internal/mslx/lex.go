package mslx

import (
	"fmt"
	"math"
	"strconv"
	"strings"

	"verif/internal/xrt"
)

type tokKind uint8

const (
	tkEOF tokKind = iota
	tkIdent
	tkInt   // integer literal
	tkFloat // floating literal
	tkPunct
)

type token struct {
	text   string
	line   int
	kind   tokKind
	adj    bool // no whitespace between this token and the previous one
	isU    bool // u suffix
	isL    bool // l suffix
	isHex  bool // hex or octal literal
	isHalf bool
	// literals
	ival uint64
	f32  float32
}

func malformed(line int, format string, a ...any) *xrt.Malformed {
	return &xrt.Malformed{What: fmt.Sprintf("line %d: ", line) + fmt.Sprintf(format, a...)}
}

func unsupported(line int, format string, a ...any) *xrt.Unsupported {
	return &xrt.Unsupported{What: fmt.Sprintf("line %d: ", line) + fmt.Sprintf(format, a...)}
}

func isIdentStart(c byte) bool {
	return c == '_' || (c >= 'a' && c <= 'z') || (c >= 'A' && c <= 'Z') || c >= 0x80
}
func isDigit(c byte) bool { return c >= '0' && c <= '9' }

// Multi-character punctuators. '>' is always lexed alone (the parser joins ">>", ">=", ">>=" using
// the adj flag) so that template argument lists close correctly.
func punctLen(s string) int {
	c := s[0]
	var d, e byte
	if len(s) > 1 {
		d = s[1]
	}
	if len(s) > 2 {
		e = s[2]
	}
	switch c {
	case '{', '}', '[', ']', '(', ')', ';', ',', '?', '~', '>':
		return 1
	case '.':
		if d == '.' && e == '.' {
			return 3
		}
		return 1
	case '<':
		if d == '<' {
			if e == '=' {
				return 3
			}
			return 2
		}
		if d == '=' {
			return 2
		}
		return 1
	case ':':
		if d == ':' {
			return 2
		}
		return 1
	case '=', '!', '*', '/', '%', '^':
		if d == '=' {
			return 2
		}
		return 1
	case '&', '|', '+':
		if d == c || d == '=' {
			return 2
		}
		return 1
	case '-':
		if d == '-' || d == '=' || d == '>' {
			return 2
		}
		return 1
	}
	return 0
}

func lex(src string, buf []token) ([]token, error) {
	toks := buf[:0]
	if cap(toks) < len(src)/4+16 {
		toks = make([]token, 0, len(src)/3+16)
	}
	line := 1
	i := 0
	n := len(src)
	lastEnd := -1
	atLineStart := true
	for i < n {
		c := src[i]
		switch {
		case c == '\n':
			line++
			i++
			atLineStart = true
			continue
		case c == ' ' || c == '\t' || c == '\r' || c == '\f' || c == '\v':
			i++
			continue
		case c == '/' && i+1 < n && src[i+1] == '/':
			for i < n && src[i] != '\n' {
				i++
			}
			continue
		case c == '/' && i+1 < n && src[i+1] == '*':
			j := strings.Index(src[i+2:], "*/")
			if j < 0 {
				return nil, malformed(line, "unterminated comment")
			}
			line += strings.Count(src[i:i+2+j+2], "\n")
			i += 2 + j + 2
			continue
		case c == '#' && atLineStart:
			// preprocessor line: only #include / #pragma are tolerated
			j := i
			for j < n && src[j] != '\n' {
				j++
			}
			d := strings.TrimSpace(src[i+1 : j])
			if !(strings.HasPrefix(d, "include") || strings.HasPrefix(d, "pragma")) {
				return nil, unsupported(line, "preprocessor directive #%s", d)
			}
			i = j
			continue
		}
		atLineStart = false
		t := token{line: line, adj: i == lastEnd}
		start := i
		switch {
		case isIdentStart(c):
			for i < n && (isIdentStart(src[i]) || isDigit(src[i])) {
				i++
			}
			t.kind = tkIdent
			t.text = src[start:i]
		case isDigit(c) || (c == '.' && i+1 < n && isDigit(src[i+1])):
			var err error
			i, err = lexNumber(src, i, &t)
			if err != nil {
				return nil, err
			}
		case c == '"' || c == '\'':
			return nil, unsupported(line, "string/character literal")
		default:
			t.kind = tkPunct
			n := punctLen(src[i:])
			if n == 0 {
				return nil, malformed(line, "unexpected character %q", c)
			}
			t.text = src[i : i+n]
			i += n
		}
		lastEnd = i
		toks = append(toks, t)
	}
	toks = append(toks, token{kind: tkEOF, line: line, text: "<eof>"})
	return toks, nil
}

func lexNumber(src string, i int, t *token) (int, error) {
	n := len(src)
	start := i
	isFloat := false
	if src[i] == '0' && i+1 < n && (src[i+1] == 'x' || src[i+1] == 'X') {
		i += 2
		ds := i
		for i < n && (isDigit(src[i]) || (src[i] >= 'a' && src[i] <= 'f') || (src[i] >= 'A' && src[i] <= 'F')) {
			i++
		}
		if i == ds {
			return i, malformed(t.line, "bad hex literal")
		}
		v, err := strconv.ParseUint(src[ds:i], 16, 64)
		if err != nil {
			return i, malformed(t.line, "bad hex literal %q", src[start:i])
		}
		t.kind, t.ival, t.isHex = tkInt, v, true
	} else {
		for i < n && isDigit(src[i]) {
			i++
		}
		if i < n && src[i] == '.' {
			isFloat = true
			i++
			for i < n && isDigit(src[i]) {
				i++
			}
		}
		if i < n && (src[i] == 'e' || src[i] == 'E') {
			j := i + 1
			if j < n && (src[j] == '+' || src[j] == '-') {
				j++
			}
			if j < n && isDigit(src[j]) {
				isFloat = true
				i = j
				for i < n && isDigit(src[i]) {
					i++
				}
			}
		}
		digits := src[start:i]
		if isFloat {
			t.kind = tkFloat
			// MSL has no double: an unsuffixed floating literal is a float. Round the decimal text
			// once, directly to binary32 (out-of-range literals become infinity).
			f32, err := strconv.ParseFloat(digits, 32)
			if err != nil && !math.IsInf(f32, 0) {
				return i, malformed(t.line, "bad floating literal %q", digits)
			}
			t.f32 = float32(f32)
		} else {
			t.kind = tkInt
			if len(digits) > 1 && digits[0] == '0' {
				v, err := strconv.ParseUint(digits[1:], 8, 64)
				if err != nil {
					return i, malformed(t.line, "bad octal literal %q", digits)
				}
				t.ival, t.isHex = v, true
			} else {
				v, err := strconv.ParseUint(digits, 10, 64)
				if err != nil {
					return i, malformed(t.line, "integer literal %q too large", digits)
				}
				t.ival = v
			}
		}
	}
	// suffixes
	for i < n && (isIdentStart(src[i]) || isDigit(src[i])) {
		c := src[i]
		switch {
		case t.kind == tkInt && (c == 'u' || c == 'U') && !t.isU:
			t.isU = true
		case t.kind == tkInt && (c == 'l' || c == 'L'):
			t.isL = true
		case t.kind == tkFloat && (c == 'f' || c == 'F'):
		case t.kind == tkFloat && (c == 'h' || c == 'H'):
			t.isHalf = true
		case t.kind == tkInt && (c == 'f' || c == 'F' || c == 'h' || c == 'H') && !t.isHex:
			return i, malformed(t.line, "bad literal suffix in %q", src[start:i+1])
		default:
			return i, malformed(t.line, "bad literal suffix in %q", src[start:i+1])
		}
		i++
	}
	t.text = src[start:i]
	return i, nil
}
