package mslx

import (
	"fmt"
	"strconv"
	"strings"

	"verif/internal/xrt"
)

// Opts configures one execution of a kernel.
//
// Binding convention. naga's MSL backend gives every storage/uniform global that the entry point
// uses one kernel parameter, `device T& name [[buffer(n)]]` / `constant T& name [[buffer(n)]]`, where n
// is the slot from msl.Options.PerEntryPointMap[ep].Resources[{group,binding}].Buffer (or, with
// neither a map nor FakeMissingBindings, a slot naga assigns itself). With FakeMissingBindings every
// unmapped resource carries `[[user(fake0)]]` instead of a slot. The interpreter therefore resolves
// a buffer parameter, in this order, through ParamBindings[name], BufferSlots[n] (only when the
// parameter has [[buffer(n)]]) and FakeOrder (the k-th buffer parameter that has no [[buffer(n)]]
// attribute, the sizes buffer excluded). A buffer parameter that resolves to nothing makes Exec
// return *xrt.Malformed.
//
// Sizes buffer convention (read from /repo/msl: Options.PerEntryPointMap[ep].SizesBuffer,
// TranslationInfo.RequiresSizesBuffer). The text declares `struct _mslBufferSizes { uint sizeN; … }`
// with one member per module-scope variable whose type is, or ends in, a runtime-sized array; N is
// that variable's index in ir.Module.GlobalVariables and the members appear in ascending N. The
// kernel receives it as `constant _mslBufferSizes& _buffer_sizes [[buffer(SizesBuffer)]]` (or
// [[user(fake0)]]); the host is expected to store, in member order, the byte length of the buffer
// bound to each such variable. The text alone does not say which binding variable N has, so:
//   - SizesOrder, when given, names the binding of the k-th *member in declaration order*
//     (callers holding the IR use module.GlobalVariables[N].Binding for member sizeN);
//   - otherwise, if the number of members equals the number of kernel buffer parameters whose type
//     is or ends in a runtime-sized array (`typedef T name[1]`), member k belongs to the k-th such
//     parameter (naga emits parameters in global-variable order, so both sequences are ascending N);
//   - otherwise Exec returns *xrt.Unsupported (an entry point that does not use every runtime-sized
//     global: pass SizesOrder).
//
// A member whose binding has no buffer in bufs is poison (reading it traps).
type Opts struct {
	xrt.Opts
	// BufferSlots maps a [[buffer(n)]] slot to the WGSL binding backing it.
	BufferSlots map[int]xrt.Binding
	// ParamBindings maps a kernel parameter name to a WGSL binding (takes precedence).
	ParamBindings map[string]xrt.Binding
	// FakeOrder lists bindings for the buffer parameters without a [[buffer(n)]] attribute, in
	// parameter order (the _mslBufferSizes parameter does not count).
	FakeOrder []xrt.Binding
	// SizesOrder overrides the derived order of bindings for the members of _mslBufferSizes.
	SizesOrder []xrt.Binding
	// WorkgroupSize is the threadgroup size (not part of the MSL text); zero components mean 1.
	WorkgroupSize [3]uint32
	// StrictShifts makes << and >> with a negative count or a count >= 32 a "shift-range" trap (the
	// C++14 rule). By default the MSL rule applies: the count is taken modulo 32.
	StrictShifts bool
}

// Kernels lists the kernel functions of the program.
func (p *Program) Kernels() []Kernel {
	var out []Kernel
	for _, f := range p.kernels {
		k := Kernel{Name: f.name, Line: f.line}
		for _, v := range f.params {
			k.Params = append(k.Params, paramInfo(v))
		}
		out = append(out, k)
	}
	return out
}

func paramInfo(v *Var) Param {
	pr := Param{Name: v.name, Attrs: append([]string(nil), v.attrs...), Buffer: -1}
	switch v.kind {
	case vRef:
		pr.Ref = true
		pr.Type = v.t.String()
		pr.Space = v.space.String()
		pr.Const = v.cst || v.space == SpConstant
	case vPtr:
		pr.Ptr = true
		pr.Type = v.t.Elem.String()
		pr.Space = v.t.Space.String()
		pr.Const = v.t.ConstP
	default:
		pr.Type = v.t.String()
	}
	for _, a := range v.attrs {
		if strings.HasPrefix(a, "buffer(") && strings.HasSuffix(a, ")") {
			if n, err := strconv.Atoi(a[7 : len(a)-1]); err == nil {
				pr.Buffer = n
			}
			continue
		}
		switch a {
		case "thread_position_in_grid", "thread_position_in_threadgroup", "thread_index_in_threadgroup",
			"threadgroup_position_in_grid", "threadgroups_per_grid", "threads_per_threadgroup", "threads_per_grid",
			"thread_index_in_simdgroup", "simdgroup_index_in_threadgroup", "threads_per_simdgroup", "simdgroups_per_threadgroup":
			pr.Builtin = a
		}
	}
	return pr
}

// Decls lists every declared identifier.
func (p *Program) Decls() []Decl { return append([]Decl(nil), p.decls...) }

// Problems lists naming problems found in the text (see computeProblems).
func (p *Program) Problems() []string { return append([]string(nil), p.problems...) }

// reachable returns f and every function it can call.
func reachable(f *Func) []*Func {
	seen := map[*Func]bool{}
	var out []*Func
	var walk func(g *Func)
	walk = func(g *Func) {
		if seen[g] {
			return
		}
		seen[g] = true
		out = append(out, g)
		for _, c := range g.calls {
			walk(c)
		}
	}
	walk(f)
	return out
}

type boundParam struct {
	v   *Var
	mem *Mem
}

// Exec runs one kernel over bufs (modified in place).
func (p *Program) Exec(bufs xrt.Buffers, o Opts) (err error) {
	defer func() {
		if r := recover(); r != nil {
			err = asError(r)
		}
	}()
	var k *Func
	if o.EntryPoint == "" {
		if len(p.kernels) != 1 {
			return &xrt.Malformed{What: fmt.Sprintf("program has %d kernels; EntryPoint must be given", len(p.kernels))}
		}
		k = p.kernels[0]
	} else {
		for _, f := range p.kernels {
			if f.name == o.EntryPoint {
				k = f
			}
		}
		if k == nil {
			return &xrt.Malformed{What: fmt.Sprintf("no kernel named %q in the text", o.EntryPoint)}
		}
	}
	usesBarrier := false
	for _, f := range reachable(k) {
		if f.unsup != nil {
			return f.unsup
		}
		if f.barrier {
			usesBarrier = true
		}
	}
	wgs := o.WorkgroupSize
	for i := range wgs {
		if wgs[i] == 0 {
			wgs[i] = 1
		}
	}
	groups := o.Groups()
	nInv := int(wgs[0]) * int(wgs[1]) * int(wgs[2])
	if nInv > 1024 {
		return &xrt.Unsupported{What: "workgroup size above 1024"}
	}

	sh := &shared{steps: o.Steps(), limit: o.Steps(), trace: o.Trace}

	// module-scope constants
	gmem := &Mem{cells: make([]cell, p.globalCells), name: "constants"}
	gx := &exec{prog: p, sh: sh, gmem: gmem, poison: o.PoisonLocals, strictShift: o.StrictShifts}
	gx.fr = &frame{}
	for _, g := range p.globals {
		if g.t.Kind == KOpaque || g.init == nil {
			continue
		}
		v := gx.eval(g.init)
		copy(gmem.cells[g.slot:g.slot+g.t.Cells], v.cells(g.t.Cells))
	}
	gmem.ro = true

	// bind buffer parameters
	refs := make([]Ref, k.frameRefs)
	type builtinParm struct {
		v    *Var
		what string
	}
	var bps []builtinParm
	var flexParams []xrt.Binding
	var sizesVar *Var
	fakeIdx := 0
	mems := map[xrt.Binding]*Mem{}
	for _, v := range k.params {
		pi := paramInfo(v)
		switch v.kind {
		case vLocal:
			if pi.Builtin == "" {
				return &xrt.Unsupported{What: fmt.Sprintf("kernel parameter %s passed by value without a supported builtin attribute %v", v.name, v.attrs)}
			}
			bps = append(bps, builtinParm{v, pi.Builtin})
		case vPtr:
			return &xrt.Unsupported{What: fmt.Sprintf("pointer kernel parameter %s", v.name)}
		case vRef:
			if v.space != SpDevice && v.space != SpConstant {
				return &xrt.Unsupported{What: fmt.Sprintf("kernel parameter %s in address space %s", v.name, v.space)}
			}
			if s := v.t.hasOpaque(); s != "" {
				return &xrt.Unsupported{What: fmt.Sprintf("kernel parameter %s of type %s", v.name, s)}
			}
			if p.sizesStruct != nil && v.t == p.sizesStruct {
				sizesVar = v
				continue
			}
			var b xrt.Binding
			found := false
			if pb, ok := o.ParamBindings[v.name]; ok {
				b, found = pb, true
			}
			if !found && pi.Buffer >= 0 {
				if sb, ok := o.BufferSlots[pi.Buffer]; ok {
					b, found = sb, true
				}
			}
			if pi.Buffer < 0 {
				if !found && fakeIdx < len(o.FakeOrder) {
					b, found = o.FakeOrder[fakeIdx], true
				}
				fakeIdx++
			}
			if !found {
				return &xrt.Malformed{What: fmt.Sprintf("kernel buffer parameter %s %v is not mapped to a WGSL binding (BufferSlots/ParamBindings/FakeOrder)", v.name, v.attrs)}
			}
			data, ok := bufs[b]
			if !ok {
				return &xrt.Malformed{What: fmt.Sprintf("no buffer supplied for binding %s (parameter %s)", b, v.name)}
			}
			m := mems[b]
			if m == nil {
				m = &Mem{bytes: data, isBuf: true, bind: b, name: v.name}
				mems[b] = m
			}
			if v.cst || v.space == SpConstant {
				// A second, writable view of the same binding may exist; keep one Mem per view.
				m = &Mem{bytes: data, isBuf: true, bind: b, name: v.name, ro: true}
			}
			refs[v.slot] = Ref{m, 0}
			if v.t.containsFlexible() {
				flexParams = append(flexParams, b)
			}
		}
	}
	if sizesVar != nil {
		st := p.sizesStruct
		order := o.SizesOrder
		if order == nil {
			if len(flexParams) != len(st.Fields) {
				return &xrt.Unsupported{What: fmt.Sprintf("_mslBufferSizes has %d members but the kernel has %d runtime-sized buffer parameters; pass Opts.SizesOrder", len(st.Fields), len(flexParams))}
			}
			order = flexParams
		}
		sm := &Mem{cells: make([]cell, st.Cells), name: "_mslBufferSizes", ro: true}
		for i := range st.Fields {
			f := &st.Fields[i]
			if f.T.Kind != KUInt {
				return &xrt.Unsupported{What: "_mslBufferSizes member " + f.Name + " is not uint"}
			}
			sm.cells[f.cellOff] = poisonBit
			if i < len(order) {
				if data, ok := bufs[order[i]]; ok {
					sm.cells[f.cellOff] = cell(uint32(len(data)))
				}
			}
		}
		refs[sizesVar.slot] = Ref{sm, 0}
	}

	total := [3]uint32{groups[0] * wgs[0], groups[1] * wgs[1], groups[2] * wgs[2]}
	_ = total
	for gz := uint32(0); gz < groups[2]; gz++ {
		for gy := uint32(0); gy < groups[1]; gy++ {
			for gx := uint32(0); gx < groups[0]; gx++ {
				wg := &Mem{cells: make([]cell, k.tgCells), name: "threadgroup"}
				if o.PoisonLocals {
					for i := range wg.cells {
						wg.cells[i] = poisonBit
					}
				}
				invs := make([]*exec, 0, nInv)
				for lz := uint32(0); lz < wgs[2]; lz++ {
					for ly := uint32(0); ly < wgs[1]; ly++ {
						for lx := uint32(0); lx < wgs[0]; lx++ {
							x := &exec{prog: p, sh: sh, gmem: gmem, wg: wg, poison: o.PoisonLocals, strictShift: o.StrictShifts}
							fr := &frame{refs: append([]Ref(nil), refs...)}
							fr.mem.cells = make([]cell, k.frameCells)
							fr.mem.name = k.name
							x.fr = fr
							lid := [3]uint32{lx, ly, lz}
							gid := [3]uint32{gx, gy, gz}
							for _, bp := range bps {
								var val [3]uint32
								scalar := false
								switch bp.what {
								case "thread_position_in_grid":
									val = [3]uint32{gid[0]*wgs[0] + lid[0], gid[1]*wgs[1] + lid[1], gid[2]*wgs[2] + lid[2]}
								case "thread_position_in_threadgroup":
									val = lid
								case "thread_index_in_threadgroup":
									val[0] = lid[0] + lid[1]*wgs[0] + lid[2]*wgs[0]*wgs[1]
									scalar = true
								case "threadgroup_position_in_grid":
									val = gid
								case "threadgroups_per_grid":
									val = groups
								case "threads_per_threadgroup":
									val = wgs
								case "threads_per_grid":
									val = [3]uint32{groups[0] * wgs[0], groups[1] * wgs[1], groups[2] * wgs[2]}
								default:
									return &xrt.Unsupported{What: "kernel builtin attribute " + bp.what}
								}
								t := bp.v.t
								el := t.scalarOf()
								if el == nil || (el.Kind != KUInt && el.Kind != KUShort) || t.Kind == KMat {
									return &xrt.Malformed{What: fmt.Sprintf("kernel parameter %s [[%s]] has type %s", bp.v.name, bp.what, t)}
								}
								if el.Kind == KUShort {
									return &xrt.Unsupported{What: "ushort kernel builtin parameter"}
								}
								n := t.comps()
								if scalar && n != 1 {
									return &xrt.Malformed{What: fmt.Sprintf("kernel parameter %s [[%s]] must be a scalar", bp.v.name, bp.what)}
								}
								for i := 0; i < n && i < 3; i++ {
									fr.mem.cells[bp.v.slot+i] = cell(val[i])
								}
							}
							invs = append(invs, x)
						}
					}
				}
				if err := runGroup(k, invs, usesBarrier && nInv > 1); err != nil {
					return err
				}
			}
		}
	}
	return nil
}

func asError(r any) error {
	switch e := r.(type) {
	case *xrt.Trap:
		return e
	case *xrt.Unsupported:
		return e
	case *xrt.Malformed:
		return e
	case *xrt.StepLimit:
		return e
	case abortSignal:
		return &xrt.Unsupported{What: "internal: aborted invocation"}
	case error:
		return &xrt.Unsupported{What: "internal interpreter failure: " + e.Error()}
	}
	return &xrt.Unsupported{What: fmt.Sprintf("internal interpreter failure: %v", r)}
}

// ---------------------------------------------------------------- workgroup scheduling

type abortSignal struct{}

type invocation struct {
	resume chan bool // true = continue, false = abort
	yield  chan invState
}

type invState struct {
	done bool
	err  error
}

// runGroup runs the invocations of one workgroup. Without barriers (or with a single invocation)
// they run to completion one after another in invocation-index order. With barriers every invocation
// is a goroutine that runs until its next threadgroup_barrier (or its end); the scheduler resumes them
// round-robin in index order, one at a time, so execution is deterministic.
func runGroup(k *Func, invs []*exec, concurrent bool) error {
	if !concurrent {
		for _, x := range invs {
			if err := runOne(k, x); err != nil {
				return err
			}
		}
		return nil
	}
	for _, x := range invs {
		x.inv = &invocation{resume: make(chan bool), yield: make(chan invState)}
		go func(x *exec) {
			if !<-x.inv.resume {
				x.inv.yield <- invState{done: true}
				return
			}
			err := runOne(k, x)
			x.inv.yield <- invState{done: true, err: err}
		}(x)
	}
	alive := make([]bool, len(invs))
	for i := range alive {
		alive[i] = true
	}
	abort := func() {
		for i, x := range invs {
			if alive[i] {
				x.inv.resume <- false
				<-x.inv.yield
			}
		}
	}
	for {
		nDone, nBar := 0, 0
		for i, x := range invs {
			if !alive[i] {
				nDone++
				continue
			}
			x.inv.resume <- true
			st := <-x.inv.yield
			if st.done {
				alive[i] = false
				nDone++
				if st.err != nil {
					abort()
					return st.err
				}
			} else {
				nBar++
			}
		}
		if nBar == 0 {
			return nil
		}
		if nDone > 0 {
			abort()
			return &xrt.Trap{Kind: "barrier-divergence", Detail: "threadgroup_barrier not reached by every invocation of the threadgroup"}
		}
	}
}

func runOne(k *Func, x *exec) (err error) {
	defer func() {
		if r := recover(); r != nil {
			if _, ok := r.(abortSignal); ok {
				err = nil
				return
			}
			err = asError(r)
		}
	}()
	x.block(k.body)
	return nil
}

func (x *exec) barrier(line int) {
	if x.inv == nil {
		return
	}
	x.inv.yield <- invState{}
	if !<-x.inv.resume {
		panic(abortSignal{})
	}
}
