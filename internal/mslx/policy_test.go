package mslx

import (
	"errors"
	"fmt"
	"testing"

	"github.com/gogpu/naga"
	"github.com/gogpu/naga/ir"
	"github.com/gogpu/naga/msl"

	"verif/internal/xrt"
)

func policyOpts(p msl.BoundsCheckPolicy) msl.Options {
	o := msl.DefaultOptions()
	o.FakeMissingBindings = true
	o.BoundsCheckPolicies = msl.BoundsCheckPolicies{Index: p, Buffer: p, Image: p, BindingArray: p}
	return o
}

func runPolicy(t *testing.T, wgsl string, p msl.BoundsCheckPolicy, in map[B][]byte) (xrt.Buffers, error, string) {
	t.Helper()
	text, info, err := compileMSL(t, wgsl, policyOpts(p))
	if err != nil {
		t.Fatalf("naga: %v", err)
	}
	prog, err := Parse(text)
	if err != nil {
		t.Fatalf("Parse: %v\n%s", err, numbered(text))
	}
	bufs := xrt.Buffers{}
	for b, d := range in {
		bufs[b] = append([]byte(nil), d...)
	}
	xo := Opts{FakeOrder: sortedBindings(in)}
	xo.EntryPoint = info.EntryPointNames["main"]
	xo.PoisonLocals = true
	return bufs, prog.Exec(bufs, xo), text
}

const fixedOOB = `
@group(0) @binding(0) var<storage, read> idx: array<u32, 2>;
@group(0) @binding(1) var<storage, read_write> a: array<i32, 4>;
@group(0) @binding(2) var<storage, read_write> o: array<i32, 4>;
@compute @workgroup_size(1) fn main() {
  o[0] = a[idx[0]];
  a[idx[1]] = 77;
  var loc = array<i32, 3>(1, 2, 3);
  o[1] = loc[idx[0]];
  var v = vec4<i32>(10, 20, 30, 40);
  o[2] = v[idx[0]];
  var m = mat2x2<f32>(1.0, 2.0, 3.0, 4.0);
  o[3] = i32(m[idx[1]][1]);
}`

func fixedOOBIn() map[B][]byte {
	return map[B][]byte{b0(0): bs(u(9), u(4)), b0(1): bs(1, 2, 3, 4), b0(2): bs(-1, -1, -1, -1)}
}

func TestPolicyFixedArrays(t *testing.T) {
	t.Run("read-zero-skip-write", func(t *testing.T) {
		bufs, err, text := runPolicy(t, fixedOOB, msl.BoundsCheckReadZeroSkipWrite, fixedOOBIn())
		if err != nil {
			t.Fatalf("Exec: %v\n%s", err, numbered(text))
		}
		if d := compareBuf(bufs[b0(2)], []any{0, 0, 0, 0}); d != "" {
			t.Errorf("o: %s", d)
		}
		if d := compareBuf(bufs[b0(1)], []any{1, 2, 3, 4}); d != "" {
			t.Errorf("a: %s", d)
		}
	})
	t.Run("restrict", func(t *testing.T) {
		bufs, err, text := runPolicy(t, fixedOOB, msl.BoundsCheckRestrict, fixedOOBIn())
		if err != nil {
			t.Fatalf("Exec: %v\n%s", err, numbered(text))
		}
		// every index is clamped to the last element
		if d := compareBuf(bufs[b0(2)], []any{4, 3, 40, 4}); d != "" {
			t.Errorf("o: %s\n%s", d, numbered(text))
		}
		if d := compareBuf(bufs[b0(1)], []any{1, 2, 3, 77}); d != "" {
			t.Errorf("a: %s", d)
		}
	})
	t.Run("unchecked-traps", func(t *testing.T) {
		_, err, _ := runPolicy(t, fixedOOB, msl.BoundsCheckUnchecked, fixedOOBIn())
		wantTrap(t, err, "oob-read")
	})
}

const runtimeOOB = `
@group(0) @binding(0) var<storage, read> idx: u32;
@group(0) @binding(1) var<storage, read_write> d: array<i32>;
@group(0) @binding(2) var<storage, read_write> o: array<i32, 2>;
@compute @workgroup_size(1) fn main() {
  o[0] = d[idx];
  d[idx + 1u] = 55;
  o[1] = i32(arrayLength(&d));
}`

func runtimeOOBIn() map[B][]byte {
	return map[B][]byte{b0(0): bs(u(7)), b0(1): bs(1, 2, 3, 4), b0(2): bs(-1, -1)}
}

func TestPolicyRuntimeArray(t *testing.T) {
	t.Run("read-zero-skip-write", func(t *testing.T) {
		bufs, err, text := runPolicy(t, runtimeOOB, msl.BoundsCheckReadZeroSkipWrite, runtimeOOBIn())
		if err != nil {
			t.Fatalf("Exec: %v\n%s", err, numbered(text))
		}
		if d := compareBuf(bufs[b0(2)], []any{0, 4}); d != "" {
			t.Errorf("o: %s", d)
		}
		if d := compareBuf(bufs[b0(1)], []any{1, 2, 3, 4}); d != "" {
			t.Errorf("d: %s", d)
		}
	})
	t.Run("restrict", func(t *testing.T) {
		bufs, err, text := runPolicy(t, runtimeOOB, msl.BoundsCheckRestrict, runtimeOOBIn())
		if err != nil {
			var tr *xrt.Trap
			if errors.As(err, &tr) && !*runDefects {
				t.Skipf("naga defect: with BoundsCheckPolicies{Index,Buffer}=Restrict an index into a runtime-sized storage array is not clamped (%v)", err)
			}
			t.Fatalf("Exec: %v\n%s", err, numbered(text))
		}
		if d := compareBuf(bufs[b0(2)], []any{4, 4}); d != "" {
			t.Errorf("o: %s\n%s", d, numbered(text))
		}
		if d := compareBuf(bufs[b0(1)], []any{1, 2, 3, 55}); d != "" {
			t.Errorf("d: %s", d)
		}
	})
}

const runtimeTailOOB = `
struct H { n: u32, items: array<i32> }
@group(0) @binding(0) var<storage, read> idx: u32;
@group(0) @binding(1) var<storage, read_write> h: H;
@group(0) @binding(2) var<storage, read_write> o: array<i32, 2>;
@compute @workgroup_size(1) fn main() {
  o[0] = h.items[idx];
  h.items[idx + 1u] = 55;
  o[1] = i32(arrayLength(&h.items));
}`

// Restrict on a runtime-sized array that is the last member of a struct.
func TestPolicyRuntimeTailRestrict(t *testing.T) {
	in := map[B][]byte{b0(0): bs(u(7)), b0(1): bs(u(0), 1, 2, 3), b0(2): bs(-1, -1)}
	bufs, err, text := runPolicy(t, runtimeTailOOB, msl.BoundsCheckRestrict, in)
	if err != nil {
		t.Fatalf("Exec: %v\n%s", err, numbered(text))
	}
	if d := compareBuf(bufs[b0(2)], []any{3, 3}); d != "" {
		t.Errorf("o: %s\n%s", d, numbered(text))
	}
	if d := compareBuf(bufs[b0(1)], []any{u(0), 1, 2, 55}); d != "" {
		t.Errorf("h: %s", d)
	}
}

// The workgroup scheduler: a barrier inside a loop, 4 invocations.
func TestBarrierInLoop(t *testing.T) {
	wgsl := `
var<workgroup> acc: array<u32, 4>;
@group(0) @binding(0) var<storage, read_write> o: array<u32, 4>;
@compute @workgroup_size(4) fn main(@builtin(local_invocation_index) li: u32) {
  acc[li] = li + 1u;
  for (var r = 0u; r < 2u; r++) {
    workgroupBarrier();
    let nb = acc[(li + 1u) % 4u];
    workgroupBarrier();
    acc[li] = acc[li] + nb;
  }
  workgroupBarrier();
  o[li] = acc[li];
}`
	// round 0: acc = (1+2, 2+3, 3+4, 4+1) = (3,5,7,5); round 1: (3+5, 5+7, 7+5, 5+3) = (8,12,12,8)
	cp := confProg{name: "barrier_in_loop", wgsl: wgsl, wg: [3]uint32{4, 1, 1},
		in: map[B][]byte{b0(0): zeros(16)}, want: map[B][]any{b0(0): {u(8), u(12), u(12), u(8)}}}
	runConf(t, cp)
}

// An entry point that does not use every runtime-sized global: the sizes struct is module-wide, so the
// mapping cannot be derived from the kernel's parameters; the caller derives SizesOrder from the IR
// (member sizeN belongs to module.GlobalVariables[N]).
func TestSizesOrderFromIR(t *testing.T) {
	wgsl := `
@group(0) @binding(0) var<storage, read> a: array<u32>;
@group(0) @binding(1) var<storage, read> unused: array<u32>;
@group(0) @binding(2) var<storage, read_write> c: array<u32>;
@compute @workgroup_size(1) fn other() { c[0] = unused[0]; }
@compute @workgroup_size(1) fn main() { c[0] = arrayLength(&a); c[1] = arrayLength(&c); }
`
	ast, err := naga.Parse(wgsl)
	if err != nil {
		t.Fatal(err)
	}
	m, err := naga.LowerWithSource(ast, wgsl)
	if err != nil {
		t.Fatal(err)
	}
	mo := msl.DefaultOptions()
	sizes := uint8(20)
	res := map[ir.ResourceBinding]msl.BindTarget{}
	slots := map[int]xrt.Binding{}
	for i := uint32(0); i < 3; i++ {
		s := uint8(5 - i)
		res[ir.ResourceBinding{Group: 0, Binding: i}] = msl.BindTarget{Buffer: &s, Mutable: true}
		slots[int(s)] = b0(i)
	}
	mo.PerEntryPointMap = map[string]msl.EntryPointResources{
		"main":  {Resources: res, SizesBuffer: &sizes},
		"other": {Resources: res, SizesBuffer: &sizes},
	}
	text, info, err := msl.Compile(m, mo)
	if err != nil {
		t.Fatal(err)
	}
	if !info.RequiresSizesBuffer {
		t.Error("RequiresSizesBuffer is false")
	}
	prog, err := Parse(text)
	if err != nil {
		t.Fatalf("%v\n%s", err, numbered(text))
	}
	// the sizes struct, member k named sizeN, N = global variable index
	_, _, members, ok := prog.StructLayout("_mslBufferSizes")
	if !ok {
		t.Fatalf("no _mslBufferSizes\n%s", numbered(text))
	}
	var order []xrt.Binding
	for _, mem := range members {
		var n int
		if _, err := fmt.Sscanf(mem.Name, "size%d", &n); err != nil || n >= len(m.GlobalVariables) || m.GlobalVariables[n].Binding == nil {
			t.Fatalf("member %q does not name a bound global", mem.Name)
		}
		b := m.GlobalVariables[n].Binding
		order = append(order, xrt.Binding{Group: b.Group, Binding: b.Binding})
	}
	bufs := xrt.Buffers{b0(0): make([]byte, 12), b0(1): make([]byte, 4), b0(2): make([]byte, 20)}
	xo := Opts{BufferSlots: slots}
	xo.EntryPoint = info.EntryPointNames["main"]
	if len(members) != 2 {
		// not derivable from the parameters alone
		var us *xrt.Unsupported
		if err := prog.Exec(bufs, xo); !errors.As(err, &us) {
			t.Errorf("want Unsupported without SizesOrder, got %v", err)
		}
	}
	xo.SizesOrder = order
	if err := prog.Exec(bufs, xo); err != nil {
		t.Fatalf("%v\n%s", err, numbered(text))
	}
	if d := compareBuf(bufs[b0(2)], []any{u(3), u(5), u(0), u(0), u(0)}); d != "" {
		t.Errorf("c: %s\n%s", d, numbered(text))
	}
	// the kernel's sizes parameter carries the configured slot
	for _, k := range prog.Kernels() {
		for _, p := range k.Params {
			if p.Type == "_mslBufferSizes" && p.Buffer != 20 {
				t.Errorf("%s: sizes buffer at slot %d, want 20", k.Name, p.Buffer)
			}
		}
	}
}

// A runtime-sized array with an explicit binding map that names no sizes buffer: naga still declares
// the _buffer_sizes parameter (without attribute); with the Unchecked policy and no arrayLength it is
// never read.
func TestRuntimeArrayWithoutSizesSlot(t *testing.T) {
	wgsl := `
@group(0) @binding(0) var<storage, read> idx: u32;
@group(0) @binding(1) var<storage, read_write> d: array<i32>;
@compute @workgroup_size(1) fn main() { d[idx] = d[idx + 1u] - 1; d[0] = 5; }
`
	mo := msl.Options{LangVersion: msl.Version2_1}
	res := map[ir.ResourceBinding]msl.BindTarget{}
	slots := map[int]xrt.Binding{}
	for i := uint32(0); i < 2; i++ {
		s := uint8(i)
		res[ir.ResourceBinding{Group: 0, Binding: i}] = msl.BindTarget{Buffer: &s, Mutable: true}
		slots[int(s)] = b0(i)
	}
	mo.PerEntryPointMap = map[string]msl.EntryPointResources{"main": {Resources: res}}
	text, info, err := compileMSL(t, wgsl, mo)
	if err != nil {
		t.Fatal(err)
	}
	prog, err := Parse(text)
	if err != nil {
		t.Fatalf("%v\n%s", err, numbered(text))
	}
	bufs := xrt.Buffers{b0(0): bs(u(1)), b0(1): bs(0, 10, 20, 30)}
	xo := Opts{BufferSlots: slots}
	xo.EntryPoint = info.EntryPointNames["main"]
	if err := prog.Exec(bufs, xo); err != nil {
		t.Fatalf("%v\n%s", err, numbered(text))
	}
	if d := compareBuf(bufs[b0(1)], []any{5, 19, 20, 30}); d != "" {
		t.Error(d)
	}
	_ = info
}
