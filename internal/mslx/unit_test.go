package mslx

import (
	"encoding/binary"
	"errors"
	"fmt"
	"math"
	"strings"
	"testing"

	"verif/internal/xrt"
)

const hdr = `#include <metal_stdlib>
using metal::uint;
struct DefaultConstructible {
    template<typename T>
    operator T() && {
        return T {};
    }
};
struct Out { int v[16]; };
struct In { int v[16]; };
`

// runBody runs `kernel void k(device Out& o [[buffer(0)]], device In const& a [[buffer(1)]]) { body }`.
func runBody(t *testing.T, pre, body string, in []any, poison bool) ([]byte, error) {
	t.Helper()
	return runBodyOpts(t, pre, body, in, poison, false)
}

func runBodyOpts(t *testing.T, pre, body string, in []any, poison, strictShifts bool) ([]byte, error) {
	t.Helper()
	src := hdr + pre + "\nkernel void k(device Out& o [[buffer(0)]], device In const& a [[buffer(1)]]) {\n" + body + "\n}\n"
	inb := make([]byte, 64)
	copy(inb, bs(in...))
	bufs := xrt.Buffers{b0(0): make([]byte, 64), b0(1): inb}
	o := Opts{BufferSlots: map[int]xrt.Binding{0: b0(0), 1: b0(1)}}
	o.PoisonLocals = poison
	o.StrictShifts = strictShifts
	err := execMSL(t, src, bufs, o)
	return bufs[b0(0)], err
}

func wantWords(t *testing.T, got []byte, want ...any) {
	t.Helper()
	wb := bs(want...)
	for i := 0; i+4 <= len(wb); i += 4 {
		if binary.LittleEndian.Uint32(got[i:]) != binary.LittleEndian.Uint32(wb[i:]) {
			t.Errorf("word %d: got %#x (%d) want %#x", i/4, binary.LittleEndian.Uint32(got[i:]), int32(binary.LittleEndian.Uint32(got[i:])), binary.LittleEndian.Uint32(wb[i:]))
		}
	}
}

// ---------------------------------------------------------------- layout calculator

func TestStructLayout(t *testing.T) {
	src := `#include <metal_stdlib>
using metal::uint;
struct A { float a; metal::float3 b; float c; };
struct P { metal::packed_float3 a; float b; metal::packed_float3 c; };
struct M { float x; metal::float3x3 m3; metal::float2x2 m2; metal::float4x2 m42; metal::float2x4 m24; float y; };
struct W { uint inner[5]; };
struct V { metal::float3 inner[2]; };
struct N { char c; W w; bool b; char _pad3[3]; metal::atomic_uint at; V v; };
struct E { };
struct H { metal::int2 a; metal::uint4 b; char _pad2[4]; int c; metal::packed_int3 d; short s; char t; };
typedef int rt[1];
struct R { uint n; rt data; char _pad2[8]; };
kernel void k() {}
`
	p, err := Parse(src)
	if err != nil {
		t.Fatal(err)
	}
	type m struct {
		name    string
		off, sz int
		al      int
	}
	check := func(name string, size, align int, ms ...m) {
		t.Helper()
		s, a, mem, ok := p.StructLayout(name)
		if !ok {
			t.Fatalf("%s: not found", name)
		}
		if s != size || a != align {
			t.Errorf("%s: size/align = %d/%d, want %d/%d", name, s, a, size, align)
		}
		if len(mem) != len(ms) {
			t.Fatalf("%s: %d members, want %d", name, len(mem), len(ms))
		}
		for i, w := range ms {
			g := mem[i]
			if g.Name != w.name || g.Offset != w.off || g.Size != w.sz || g.Align != w.al {
				t.Errorf("%s.%s: off/size/align = %d/%d/%d, want %s %d/%d/%d", name, g.Name, g.Offset, g.Size, g.Align, w.name, w.off, w.sz, w.al)
			}
		}
	}
	// C++: float3 is 16/16
	check("A", 48, 16, m{"a", 0, 4, 4}, m{"b", 16, 16, 16}, m{"c", 32, 4, 4})
	// packed_float3 is 12/4
	check("P", 28, 4, m{"a", 0, 12, 4}, m{"b", 12, 4, 4}, m{"c", 16, 12, 4})
	check("M", 160, 16, m{"x", 0, 4, 4}, m{"m3", 16, 48, 16}, m{"m2", 64, 16, 8}, m{"m42", 80, 32, 8}, m{"m24", 112, 32, 16}, m{"y", 144, 4, 4})
	check("W", 20, 4, m{"inner", 0, 20, 4})
	check("V", 32, 16, m{"inner", 0, 32, 16})
	check("N", 64, 16, m{"c", 0, 1, 1}, m{"w", 4, 20, 4}, m{"b", 24, 1, 1}, m{"_pad3", 25, 3, 1}, m{"at", 28, 4, 4}, m{"v", 32, 32, 16})
	check("E", 1, 1)
	check("H", 64, 16, m{"a", 0, 8, 8}, m{"b", 16, 16, 16}, m{"_pad2", 32, 4, 1}, m{"c", 36, 4, 4}, m{"d", 40, 12, 4}, m{"s", 52, 2, 2}, m{"t", 54, 1, 1})
	check("R", 16, 4, m{"n", 0, 4, 4}, m{"data", 4, 4, 4}, m{"_pad2", 8, 8, 1})
	if _, _, _, ok := p.StructLayout("nope"); ok {
		t.Error("StructLayout of an unknown struct")
	}
}

// ---------------------------------------------------------------- C++ typing rules

func TestUsualArithmeticConversions(t *testing.T) {
	got, err := runBody(t, "", `
    uint n = 4294967295u;
    o.v[0] = n == -1;                       // -1 converts to 0xFFFFFFFF: true
    o.v[1] = -1 < 1u;                       // false: -1 converts to unsigned
    int i = -1;
    o.v[2] = i < 1;                         // true (both int)
    o.v[3] = (i + 1u) == 0u;                // int + uint -> uint, wraps to 0
    uint sz = 20u;
    o.v[4] = 1 + (sz - 0 - 4) / 4;          // the idiom of arrayLength: 5
    o.v[5] = (3 - sz) / 2 > 0;              // 3 - 20u wraps: huge positive
    o.v[6] = (-2147483647 - 1) == a.v[0];   // INT_MIN literal idiom
    o.v[7] = uint(-1) >> 28;                // 15
    o.v[8] = -16 >> 2;                      // arithmetic shift: -4
    o.v[9] = true + true;                   // bool promotes to int: 2
    bool b = 5;                             // int -> bool
    o.v[10] = b;
    int x = 3000000000u;                    // uint -> int: modular
    o.v[11] = x;
    float f = 7;                            // int -> float
    o.v[12] = as_type<int>(f);
    int y = 2.9;                            // float -> int truncates
    o.v[13] = y + (true ? 1 : 2u);          // ?: int/uint -> uint
    o.v[14] = (a.v[1] > 0 ? -1 : 1u) == 4294967295u;
    o.v[15] = 5 / 2 * 2.0;                  // (5/2)=2 int, then *2.0 -> 4.0 -> 4
`, []any{iMin, 1}, true)
	if err != nil {
		t.Fatal(err)
	}
	wantWords(t, got, 1, 0, 1, 1, 5, 1, 1, 15, -4, 2, 1, int32(-1294967296), float32(7), 3, 1, 4)
}

func TestCharPromotionAndPacked(t *testing.T) {
	got, err := runBody(t, "", `
    uint u = 0x80FF0201u;
    packed_uchar4 p = as_type<packed_uchar4>(u);
    o.v[0] = p[0] * p[1] + p[2];            // uchar promotes to int: 1*2+255
    o.v[1] = p[3];                          // 128, zero-extended
    packed_char4 q = as_type<packed_char4>(u);
    o.v[2] = q[3] + q[2];                   // -128 + -1
    o.v[3] = ( + p[0] * p[0] + p[2] * p[2]);
    metal::int4 w = (metal::int4(u, u >> 8, u >> 16, u >> 24) << 24 >> 24);
    o.v[4] = w.x; o.v[5] = w.y; o.v[6] = w.z; o.v[7] = w.w;
    metal::packed_float3 pf = metal::float3(1.0, 2.0, 3.0);
    metal::float3 ff = pf * 2.0;
    o.v[8] = static_cast<int>(ff.z + pf[1]);
    o.v[9] = as_type<uint>(half2(metal::float2(1.0, -2.0)));
    o.v[10] = static_cast<int>(float2(as_type<half2>(0xC0003C00u)).y);
    o.v[11] = static_cast<int>(float(half(2049.0)));   // ties-to-even in binary16: 2048
`, nil, true)
	if err != nil {
		t.Fatal(err)
	}
	wantWords(t, got, 257, 128, -129, 1+255*255, 1, 2, -1, -128, 8, u(0xC0003C00), -2, 2048)
}

func TestVectorSemantics(t *testing.T) {
	got, err := runBody(t, "", `
    metal::uint3 n = metal::uint3(0u, 4294967295u, 7u);
    metal::bool3 c = n == 0 || n == -1;     // component-wise, -1 converted to uint
    o.v[0] = c.x; o.v[1] = c.y; o.v[2] = c.z;
    metal::uint3 s = metal::select(31 - metal::clz(n), uint3(-1), c);
    o.v[3] = s.x; o.v[4] = s.y; o.v[5] = s.z;
    metal::int2 v = metal::int2(3, -4);
    metal::int2 r = metal::select(v, 1, (v == (-2147483647 - 1) & v == -1) | (v == 0));
    o.v[6] = r.x; o.v[7] = r.y;
    metal::float2x2 m = metal::float2x2(metal::float2(1.0, 2.0), metal::float2(3.0, 4.0));
    metal::float2 mv = m * metal::float2(1.0, 1.0);
    metal::float2 vm = metal::float2(1.0, 1.0) * m;
    o.v[8] = static_cast<int>(mv.x * 10.0 + mv.y); o.v[9] = static_cast<int>(vm.x * 10.0 + vm.y);
    m[1].x = 9.0; m[0][1] = 8.0;
    o.v[10] = static_cast<int>(m[1][0] + m[0].y);
    metal::float4 sw = metal::float4(1.0, 2.0, 3.0, 4.0);
    sw.zw = sw.xy; sw.x = 7.0;
    o.v[11] = static_cast<int>(sw.x * 1000.0 + sw.y * 100.0 + sw.z * 10.0 + sw.w);
    o.v[12] = metal::all(metal::bool2(true, false)) + 2 * metal::any(metal::bool2(true, false));
    metal::int3 z = {};
    metal::float3x2 zm = metal::float3x2 {};
    o.v[13] = z.x + z.y + z.z + static_cast<int>(zm[2].y) + 5;
    metal::uint2 lb = uint2(4294967295u);
    lb -= uint2(lb.y == 0u, 1u);
    o.v[14] = lb.x == 4294967295u && lb.y == 4294967294u;
    o.v[15] = static_cast<metal::int2>(metal::float2(-1.5, 2.5)).x - static_cast<metal::int2>(metal::float2(-1.5, 2.5)).y;
`, nil, true)
	if err != nil {
		t.Fatal(err)
	}
	wantWords(t, got, 1, 1, 0, -1, -1, 2, 3, -4, 46, 37, 17, 7212, 2, 5, 1, -3)
}

func TestControlFlowC(t *testing.T) {
	got, err := runBody(t, `
int fall(int x) {
    int r = 0;
    switch (x) {
        case 1: r += 1;
        case 2: r += 10; break;
        default: r += 100;
        case 3: r += 1000;
    }
    return r;
}
void bump(thread int& p, int d) { p += d; }
int viaPtr(thread int* p) { *p = *p * 2; return *p; }
`, `
    o.v[0] = fall(1); o.v[1] = fall(2); o.v[2] = fall(3); o.v[3] = fall(9);
    int i = 0; int s = 0;
    do { s += i; i++; } while (i < 4);
    o.v[4] = s;
    for (int k = 0; k < 5; k++) { if (k == 1) continue; if (k == 4) break; s += k * 10; }
    o.v[5] = s;
    while (true) { if (s > 1000) { break; } s *= 3; }
    o.v[6] = s;
    int q = 5; bump(q, 4); o.v[7] = q; o.v[8] = viaPtr(&q); o.v[9] = q++ + ++q;
    int arr[3] = {1, 2};
    o.v[10] = arr[0] + arr[1] * 10 + arr[2] * 100;
    thread int& ref = arr[1]; ref = 7; o.v[11] = arr[1];
    o.v[12] = a.v[2] ? 11 : 22;
`, []any{0, 0, 0}, true)
	if err != nil {
		t.Fatal(err)
	}
	// fall(1)=11 fall(2)=10 fall(3)=1000 fall(9)=1100; s=6; s=6+0+20+30=56; 56*3=168,504,1512
	wantWords(t, got, 11, 10, 1000, 1100, 6, 56, 1512, 9, 18, 18+20, 21, 7, 22)
}

// ---------------------------------------------------------------- undefined behaviour

func TestTraps(t *testing.T) {
	cases := []struct {
		name, body, kind string
		in               []any
	}{
		{"add-overflow", `o.v[0] = a.v[0] + 1;`, "signed-overflow", []any{iMax}},
		{"sub-overflow", `o.v[0] = a.v[0] - 1;`, "signed-overflow", []any{iMin}},
		{"mul-overflow", `o.v[0] = a.v[0] * 2;`, "signed-overflow", []any{1 << 30}},
		{"neg-overflow", `o.v[0] = -a.v[0];`, "signed-overflow", []any{iMin}},
		{"inc-overflow", `int x = a.v[0]; x++; o.v[0] = x;`, "signed-overflow", []any{iMax}},
		{"vec-overflow", `metal::int2 v = metal::int2(a.v[0]); v = v + v; o.v[0] = v.x;`, "signed-overflow", []any{iMax}},
		{"div0", `o.v[0] = 5 / a.v[0];`, "div0", []any{0}},
		{"rem0", `o.v[0] = 5 % a.v[0];`, "div0", []any{0}},
		{"udiv0", `o.v[0] = 5u / uint(a.v[0]);`, "div0", []any{0}},
		{"sdiv-overflow", `o.v[0] = a.v[0] / a.v[1];`, "sdiv-overflow", []any{iMin, -1}},
		{"srem-overflow", `o.v[0] = a.v[0] % a.v[1];`, "sdiv-overflow", []any{iMin, -1}},
		{"shift-32", `o.v[0] = 1 << a.v[0];`, "shift-range", []any{32}},
		{"shift-neg", `o.v[0] = 1 >> a.v[0];`, "shift-range", []any{-1}},
		{"shift-u-32", `o.v[0] = 1u >> uint(a.v[0]);`, "shift-range", []any{40}},
		{"f2i-big", `o.v[0] = static_cast<int>(as_type<float>(a.v[0]));`, "f2i-range", []any{float32(3e9)}},
		{"f2i-nan", `o.v[0] = int(as_type<float>(a.v[0]));`, "f2i-range", []any{float32(math.NaN())}},
		{"f2u-neg", `o.v[0] = static_cast<uint>(as_type<float>(a.v[0]));`, "f2i-range", []any{float32(-1.0)}},
		{"f2i-inf", `o.v[0] = static_cast<int>(as_type<float>(a.v[0]));`, "f2i-range", []any{float32(math.Inf(1))}},
		{"array-oob-read", `int arr[3] = {}; o.v[0] = arr[a.v[0]];`, "oob-read", []any{3}},
		{"array-oob-neg", `int arr[3] = {}; o.v[0] = arr[a.v[0]];`, "oob-read", []any{-1}},
		{"array-oob-write", `int arr[3] = {}; arr[a.v[0]] = 1;`, "oob-write", []any{3}},
		{"vector-oob", `metal::float3 v = {}; o.v[0] = v[a.v[0]];`, "oob-read", []any{3}},
		{"matrix-oob", `metal::float2x2 m = {}; m[a.v[0]] = metal::float2(1.0);`, "oob-write", []any{2}},
		{"buffer-array-oob", `o.v[a.v[0]] = 1;`, "oob-write", []any{16}},
		{"buffer-array-oob-read", `o.v[0] = a.v[a.v[0]];`, "oob-read", []any{16}},
		{"poison-scalar", `int x; o.v[0] = x + 1;`, "poison", nil},
		{"poison-store", `int x; o.v[0] = x;`, "poison", nil},
		{"poison-array", `int arr[2]; arr[0] = 1; o.v[0] = arr[1] * 2;`, "poison", nil},
		{"poison-cond", `bool b; if (b) { o.v[0] = 1; }`, "poison", nil},
		{"poison-threadgroup", `threadgroup int tg; o.v[0] = tg;`, "poison", nil},
		{"missing-return", `o.v[0] = noret(a.v[0]);`, "missing-return", []any{0}},
		{"abs-intmin", `o.v[0] = metal::abs(a.v[0]);`, "signed-overflow", []any{iMin}},
	}
	for _, c := range cases {
		t.Run(c.name, func(t *testing.T) {
			_, err := runBodyOpts(t, "int noret(int x) { if (x > 0) { return 1; } }\n", c.body, c.in, true, true)
			wantTrap(t, err, c.kind)
		})
	}
}

// MSL defines shifts for every count (modulo the bit width).
func TestShiftCountsMSL(t *testing.T) {
	got, err := runBody(t, "", `
    o.v[0] = 1 << a.v[0];          // 33 & 31 = 1
    o.v[1] = -16 >> a.v[1];        // -1 & 31 = 31 : arithmetic
    o.v[2] = 256u >> uint(a.v[2]); // 40 & 31 = 8
    metal::int2 v = metal::int2(3, -8) << metal::uint2(uint(a.v[0]), 32u);
    o.v[3] = v.x; o.v[4] = v.y;
`, []any{33, -1, 40}, true)
	if err != nil {
		t.Fatal(err)
	}
	wantWords(t, got, 2, -1, 1, 6, -8)
}

func TestNoTrapWhereDefined(t *testing.T) {
	got, err := runBody(t, "", `
    uint u = uint(a.v[0]);
    o.v[0] = u + 1u;                                           // unsigned wraps
    o.v[1] = as_type<int>(as_type<uint>(a.v[1]) + as_type<uint>(1));   // naga's wrapping add
    o.v[2] = as_type<int>(-as_type<uint>(a.v[2]));             // naga_neg
    o.v[3] = a.v[2] << 1;                                      // left shift of a negative value: no trap in this model
    o.v[4] = static_cast<int>(metal::clamp(as_type<float>(a.v[3]), -2147483600.0, 2147483500.0));
    int x = {}; int y {}; metal::float2 z = {};
    o.v[5] = x + y + static_cast<int>(z.y);
    o.v[6] = metal::select(a.v[2], 5, false) == a.v[2];
    o.v[7] = static_cast<int>(metal::clamp(as_type<float>(a.v[4]), -2147483600.0, 2147483500.0)); // NaN: any value, no trap
    int unused;                                                // never read
    o.v[8] = static_cast<uint>(metal::clamp(as_type<float>(a.v[3]), 0.0, 4294967000.0)) == 4294967040u;
`, []any{-1, iMax, iMin, float32(1e30), float32(math.NaN())}, true)
	if err != nil {
		t.Fatal(err)
	}
	wantWords(t, got, 0, iMin, iMin, 0, 2147483520, 0, 1)
	if g := binary.LittleEndian.Uint32(got[32:]); g != 1 {
		t.Errorf("clamped f2u: got %d", g)
	}
}

// ---------------------------------------------------------------- static errors

func TestMalformed(t *testing.T) {
	cases := []struct{ name, pre, body string }{
		{"write-const-ref", "", `a.v[0] = 1;`},
		{"write-constant", "constant int K = 3;", `K = 4;`},
		{"compound-const", "", `a.v[0] += 1;`},
		{"inc-const", "", `a.v[1]++;`},
		{"pass-const-to-nonconst-ref", "void f(device In& p) { p.v[0] = 1; }", `f(a);`},
		{"undeclared", "", `o.v[0] = nope;`},
		{"undeclared-fn", "", `o.v[0] = nope(1);`},
		{"unknown-metal-fn", "", `o.v[0] = metal::frobnicate(1);`},
		{"struct-plus-int", "", `o.v[0] = o + 1;`},
		{"assign-struct-to-int", "", `o.v[0] = o;`},
		{"wrong-arg-count", "int f(int x) { return x; }", `o.v[0] = f(1, 2);`},
		{"no-member", "", `o.v[0] = o.w;`},
		{"bad-swizzle", "", `metal::float2 v = {}; o.v[0] = static_cast<int>(v.z);`},
		{"syntax", "", `o.v[0] = (1 + ;`},
		{"missing-semicolon", "", `o.v[0] = 1`},
		{"float-mod", "", `o.v[0] = static_cast<int>(1.5 % 2.0);`},
		{"vec-size-mismatch", "", `metal::float2 a2 = {}; metal::float4 a4 = {}; a4 = a2 * a4;`},
		{"uint-without-using", "", ``}, // handled below
		{"address-space-mismatch", "void f(threadgroup int& p) { p = 1; }", `int x = 0; f(x);`},
		{"atomic-store-const", "struct AT { metal::atomic_uint c; };\nvoid f(device AT const& s) { metal::atomic_store_explicit(&s.c, 1u, metal::memory_order_relaxed); }", ``},
		{"return-value-in-void", "void f() { return 1; }", ``},
		{"break-outside", "", `break;`},
		{"duplicate-case", "", `switch (a.v[0]) { case 1: break; case 1: break; }`},
	}
	for _, c := range cases {
		t.Run(c.name, func(t *testing.T) {
			var err error
			if c.name == "uint-without-using" {
				_, err = Parse("#include <metal_stdlib>\nkernel void k() { uint x = 1u; }\n")
			} else {
				_, err = runBody(t, c.pre, c.body, nil, false)
			}
			var mf *xrt.Malformed
			if !errors.As(err, &mf) {
				t.Errorf("want Malformed, got %v", err)
			}
		})
	}
}

func TestUnsupported(t *testing.T) {
	cases := []struct{ name, src string }{
		{"texture", `#include <metal_stdlib>
kernel void k(metal::texture2d<float, metal::access::sample> t [[texture(0)]]) { metal::float4 c = t.read(metal::uint2(0u)); }`},
		{"half-arith", `#include <metal_stdlib>
kernel void k() { half h = half(1.0); h = h + h; }`},
		{"half-literal", `#include <metal_stdlib>
kernel void k() { half h = 1.0h; }`},
		{"long", `#include <metal_stdlib>
kernel void k() { long l = 1L; }`},
		{"default-ctor-other-body", `#include <metal_stdlib>
struct DefaultConstructible { template<typename T> operator T() && { return T {1}; } };
kernel void k() { int x = true ? 1 : DefaultConstructible(); }`},
		{"simd", `#include <metal_stdlib>
using metal::uint;
kernel void k() { uint x = metal::simd_sum(1u); }`},
		{"by-value-param-no-builtin", `#include <metal_stdlib>
kernel void k(int x [[user(loc0)]]) { }`},
	}
	for _, c := range cases {
		t.Run(c.name, func(t *testing.T) {
			p, err := Parse(c.src)
			if err == nil {
				err = p.Exec(xrt.Buffers{}, Opts{})
			}
			var us *xrt.Unsupported
			if !errors.As(err, &us) {
				t.Errorf("want Unsupported, got %v", err)
			}
		})
	}
	// vertex/fragment functions in the same file do not prevent running a kernel
	src := `#include <metal_stdlib>
using metal::uint;
struct VO { metal::float4 pos [[position]]; };
vertex VO vs(uint vi [[vertex_id]], metal::texture2d<float, metal::access::sample> t [[texture(0)]]) { return VO { t.read(metal::uint2(vi)) }; }
fragment metal::float4 fs() { return metal::float4(1.0h); }
struct O { int v; };
kernel void k(device O& o [[buffer(3)]]) { o.v = 42; }
`
	bufs := xrt.Buffers{b0(5): make([]byte, 4)}
	if err := execMSL(t, src, bufs, Opts{BufferSlots: map[int]xrt.Binding{3: b0(5)}}); err != nil {
		t.Fatalf("kernel next to unsupported functions: %v", err)
	}
	if binary.LittleEndian.Uint32(bufs[b0(5)]) != 42 {
		t.Error("kernel did not run")
	}
}

func TestStepLimitAndRecursion(t *testing.T) {
	_, err := runBody(t, "", `while (true) { o.v[0] = o.v[0] + 1; if (o.v[0] < 0) { break; } o.v[0] = 0; }`, nil, false)
	var sl *xrt.StepLimit
	if !errors.As(err, &sl) {
		t.Errorf("want StepLimit, got %v", err)
	}
	_, err = runBody(t, "int rec(int x) { return rec(x + 0) + 0; }", `o.v[0] = rec(1);`, nil, false)
	if !errors.As(err, &sl) {
		t.Errorf("recursion: want StepLimit, got %v", err)
	}
}

// ---------------------------------------------------------------- names

func TestDeclsAndProblems(t *testing.T) {
	src := `#include <metal_stdlib>
using metal::uint;
struct S { int a; float a; int kernel; };
struct S2 { int a; };
typedef int type_1[1];
constant int K = 1;
constant int K = 2;
int f(int x) { return x; }
int f(float x) { return 1; }
int f(int y) { return y; }
int float3(int device) { int __x = 1; int _Y = 2; int ok = 3; { int ok = 4; } int ok2 = 1; return __x + _Y + ok; }
struct uint2 { int q; };
kernel void k(metal::uint3 gid [[thread_position_in_grid]]) { int gid2 = 0; int gid2 = 1; uint w = 1u; }
`
	p, err := Parse(src)
	if err != nil {
		t.Fatal(err)
	}
	probs := strings.Join(p.Problems(), "\n")
	for _, want := range []string{
		`duplicate: "a"`, `duplicate: "K"`, `duplicate: "f"`, `duplicate: "gid2"`,
		`keyword: member "kernel"`, `keyword: function "float3"`, `keyword: param "device"`, `keyword: struct "uint2"`,
		`reserved: local "__x"`, `reserved: local "_Y"`,
	} {
		if !strings.Contains(probs, want) {
			t.Errorf("Problems() lacks %q\n%s", want, probs)
		}
	}
	for _, bad := range []string{`"ok"`, `"S2"`, `"type_1"`, `duplicate: "x"`} {
		if strings.Contains(probs, bad) {
			t.Errorf("Problems() reports %s\n%s", bad, probs)
		}
	}
	kinds := map[string]int{}
	for _, d := range p.Decls() {
		kinds[d.Kind]++
		if d.Name == "ok" && d.ParentScopeID < 0 {
			t.Error("local without parent scope")
		}
	}
	for _, k := range []string{"struct", "member", "function", "param", "local", "global", "typedef"} {
		if kinds[k] == 0 {
			t.Errorf("no declaration of kind %s recorded: %v", k, kinds)
		}
	}
	// hiding a metal:: name that is used unqualified
	src2 := `#include <metal_stdlib>
using metal::uint;
struct Q { int z; };
int as_type(int x) { return x; }
constant int uint3_ = 1;
kernel void k() { uint2 lb = uint2(1u); }
`
	p2, err := Parse(src2)
	if err != nil {
		t.Fatal(err)
	}
	if s := strings.Join(p2.Problems(), "\n"); s != "" && strings.Contains(s, "hides-metal") {
		t.Errorf("unexpected hides-metal: %s", s)
	}
	src3 := "#include <metal_stdlib>\nusing metal::uint;\nstruct uint { int z; };\nkernel void k() { }\n"
	if p3, err := Parse(src3); err == nil {
		if !strings.Contains(strings.Join(p3.Problems(), "\n"), "hides-metal") {
			t.Errorf("global `uint` with using metal::uint not reported: %v", p3.Problems())
		}
	}
	kw := map[string]bool{}
	for _, k := range Keywords() {
		kw[k] = true
	}
	for _, k := range []string{"kernel", "device", "threadgroup", "constant", "thread", "float3", "half", "texture2d", "sampler", "template", "alignas", "uint", "packed_float3", "float4x4", "xor_eq"} {
		if !kw[k] {
			t.Errorf("Keywords() lacks %q", k)
		}
	}
	if kw["main"] || kw["inner"] {
		t.Error("Keywords() contains ordinary identifiers")
	}
}

func TestKernelsInfo(t *testing.T) {
	src := `#include <metal_stdlib>
using metal::uint;
struct S { int a; };
struct _mslBufferSizes { uint size0; };
typedef int rt[1];
kernel void main_(
  metal::uint3 gid [[thread_position_in_grid]]
, uint li [[thread_index_in_threadgroup]]
, device S const& inp [[buffer(0)]]
, device rt& out [[buffer(1)]]
, constant S& u [[user(fake0)]]
, constant _mslBufferSizes& _buffer_sizes [[buffer(24)]]
) { }
kernel void other() { }
`
	p, err := Parse(src)
	if err != nil {
		t.Fatal(err)
	}
	ks := p.Kernels()
	if len(ks) != 2 || ks[0].Name != "main_" || ks[1].Name != "other" {
		t.Fatalf("kernels: %+v", ks)
	}
	ps := ks[0].Params
	want := []Param{
		{Name: "gid", Type: "uint3", Builtin: "thread_position_in_grid", Buffer: -1},
		{Name: "li", Type: "uint", Builtin: "thread_index_in_threadgroup", Buffer: -1},
		{Name: "inp", Type: "S", Space: "device", Const: true, Ref: true, Buffer: 0},
		{Name: "out", Type: "int[1]", Space: "device", Ref: true, Buffer: 1},
		{Name: "u", Type: "S", Space: "constant", Const: true, Ref: true, Buffer: -1},
		{Name: "_buffer_sizes", Type: "_mslBufferSizes", Space: "constant", Const: true, Ref: true, Buffer: 24},
	}
	if len(ps) != len(want) {
		t.Fatalf("params: %+v", ps)
	}
	for i, w := range want {
		g := ps[i]
		if g.Name != w.Name || g.Type != w.Type || g.Space != w.Space || g.Const != w.Const || g.Ref != w.Ref || g.Buffer != w.Buffer || g.Builtin != w.Builtin {
			t.Errorf("param %d: %+v want %+v", i, g, w)
		}
	}
	if err := p.Exec(xrt.Buffers{}, Opts{}); err == nil {
		t.Error("Exec without EntryPoint on a two-kernel program must fail")
	}
	var mf *xrt.Malformed
	o := Opts{}
	o.EntryPoint = "main_"
	if err := p.Exec(xrt.Buffers{}, o); !errors.As(err, &mf) {
		t.Errorf("unmapped buffers: want Malformed, got %v", err)
	}
}

// ---------------------------------------------------------------- sizes buffer

func TestSizesBufferConvention(t *testing.T) {
	src := `#include <metal_stdlib>
using metal::uint;
struct _mslBufferSizes { uint size1; uint size4; };
typedef uint rt[1];
struct O { uint v[4]; };
kernel void k(device rt const& a [[buffer(0)]], device rt& b [[buffer(1)]], device O& o [[buffer(2)]], constant _mslBufferSizes& _buffer_sizes [[buffer(9)]]) {
    o.v[0] = _buffer_sizes.size1; o.v[1] = _buffer_sizes.size4;
    o.v[2] = 1 + (_buffer_sizes.size4 - 0 - 4) / 4;
}
kernel void k2(device rt& b [[buffer(1)]], device O& o [[buffer(2)]], constant _mslBufferSizes& _buffer_sizes [[buffer(9)]]) {
    o.v[0] = _buffer_sizes.size4;
}
kernel void k3(device rt& b [[buffer(1)]], device O& o [[buffer(2)]], constant _mslBufferSizes& _buffer_sizes [[buffer(9)]]) {
    o.v[0] = _buffer_sizes.size1;
}
`
	p, err := Parse(src)
	if err != nil {
		t.Fatal(err)
	}
	slots := map[int]xrt.Binding{0: {Group: 1, Binding: 7}, 1: {Group: 0, Binding: 3}, 2: b0(0)}
	mk := func() xrt.Buffers {
		return xrt.Buffers{{Group: 1, Binding: 7}: make([]byte, 12), {Group: 0, Binding: 3}: make([]byte, 40), b0(0): make([]byte, 16)}
	}
	// derived: member k <-> k-th runtime-sized parameter
	bufs := mk()
	o := Opts{BufferSlots: slots}
	o.EntryPoint = "k"
	if err := p.Exec(bufs, o); err != nil {
		t.Fatal(err)
	}
	wantWords(t, bufs[b0(0)], u(12), u(40), u(10))
	// explicit order (reversed)
	bufs = mk()
	o.SizesOrder = []xrt.Binding{{Group: 0, Binding: 3}, {Group: 1, Binding: 7}}
	if err := p.Exec(bufs, o); err != nil {
		t.Fatal(err)
	}
	wantWords(t, bufs[b0(0)], u(40), u(12), u(3))
	// an entry point that uses only one of the two runtime-sized globals: not derivable
	o.SizesOrder = nil
	o.EntryPoint = "k2"
	var us *xrt.Unsupported
	if err := p.Exec(mk(), o); !errors.As(err, &us) {
		t.Errorf("want Unsupported for an underivable sizes mapping, got %v", err)
	}
	o.SizesOrder = []xrt.Binding{{Group: 1, Binding: 7}, {Group: 0, Binding: 3}}
	bufs = mk()
	if err := p.Exec(bufs, o); err != nil {
		t.Fatal(err)
	}
	wantWords(t, bufs[b0(0)], u(40))
	// a member whose binding has no buffer is poison
	o.EntryPoint = "k3"
	bufs = mk()
	delete(bufs, xrt.Binding{Group: 1, Binding: 7})
	wantTrap(t, p.Exec(bufs, o), "poison")
}

func TestTraceAndReadOnly(t *testing.T) {
	src := `#include <metal_stdlib>
struct S { metal::packed_float3 a; float b; metal::float2x2 m; char _pad3[4]; int c[2]; };
kernel void k(device S const& s [[buffer(0)]], device S& d [[buffer(1)]]) {
    d.b = s.a[1];
    d.m = s.m;
    d.c[1] = s.c[0];
    d.a = s.a;
}
`
	var trace []xrt.Access
	bufs := xrt.Buffers{b0(0): make([]byte, 48), b0(1): make([]byte, 48)}
	o := Opts{BufferSlots: map[int]xrt.Binding{0: b0(0), 1: b0(1)}}
	o.Trace = &trace
	if err := execMSL(t, src, bufs, o); err != nil {
		t.Fatal(err)
	}
	want := []xrt.Access{
		{B: b0(0), Off: 4, Len: 4}, {B: b0(1), Off: 12, Len: 4, Write: true},
		{B: b0(0), Off: 16, Len: 8}, {B: b0(0), Off: 24, Len: 8}, {B: b0(1), Off: 16, Len: 8, Write: true}, {B: b0(1), Off: 24, Len: 8, Write: true},
		{B: b0(0), Off: 36, Len: 4}, {B: b0(1), Off: 40, Len: 4, Write: true},
		{B: b0(0), Off: 0, Len: 12}, {B: b0(1), Off: 0, Len: 12, Write: true},
	}
	if fmt.Sprint(trace) != fmt.Sprint(want) {
		t.Errorf("trace:\n got %v\nwant %v", trace, want)
	}
	// a buffer shorter than the accessed member
	bufs = xrt.Buffers{b0(0): make([]byte, 48), b0(1): make([]byte, 40)}
	o.Trace = nil
	wantTrap(t, execMSL(t, src, bufs, o), "oob-write")
}

func TestBarrierDivergence(t *testing.T) {
	src := `#include <metal_stdlib>
using metal::uint;
struct O { uint v[4]; };
kernel void k(uint li [[thread_index_in_threadgroup]], device O& o [[buffer(0)]]) {
    if (li < 2u) { metal::threadgroup_barrier(metal::mem_flags::mem_threadgroup); }
    o.v[li] = li;
}
`
	bufs := xrt.Buffers{b0(0): make([]byte, 16)}
	o := Opts{BufferSlots: map[int]xrt.Binding{0: b0(0)}, WorkgroupSize: [3]uint32{4, 1, 1}}
	wantTrap(t, execMSL(t, src, bufs, o), "barrier-divergence")
}
