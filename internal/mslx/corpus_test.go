package mslx

import (
	"errors"
	"os"
	"path/filepath"
	"sort"
	"strings"
	"testing"

	"github.com/gogpu/naga"
	"github.com/gogpu/naga/msl"

	"verif/internal/xrt"
)

func compileMSL(t testing.TB, src string, o msl.Options) (string, msl.TranslationInfo, error) {
	t.Helper()
	ast, err := naga.Parse(src)
	if err != nil {
		return "", msl.TranslationInfo{}, err
	}
	m, err := naga.LowerWithSource(ast, src)
	if err != nil {
		return "", msl.TranslationInfo{}, err
	}
	return msl.Compile(m, o)
}

// knownCorpusMalformed lists corpus shaders whose emitted MSL this package rejects as Malformed,
// after triage (see the final report). Everything else must parse or be Unsupported.
var knownCorpusMalformed = map[string]string{
	// naga defect: two bounds-checked (read-zero-skip-write) accesses are joined by `*` without
	// parentheses: `c1 ? a : DefaultConstructible() * uint(k) < 2 ? b : DefaultConstructible()`.
	"7048-multiple-dynamic-1": "RZSW ternaries not parenthesised inside a binary expression",
	// naga defect: `(a * b).xxyy` is emitted as `a * b.xxyy` (float2 * float4 does not compile).
	"7048-multiple-dynamic-2": "multi-component swizzle of a binary expression loses its parentheses",
	// naga defect: under read-zero-skip-write the pointer operand of atomicCompareExchangeWeak becomes
	// `&uint(i) < 128 ? arr.inner[i] : DefaultConstructible()` (address of a prvalue, ternary as pointer).
	"atomicCompareExchange": "bounds check spliced into the pointer argument of the compare-exchange helper",
	// suspected naga defect: `device constant NagaArgumentBufferWrapper<Foo>* const& storage_array`
	// carries two address-space qualifiers.
	"binding-buffer-arrays": "two address-space qualifiers on one declaration",
	// naga defect (mesh shaders): `taskPayload` is used in the task function but never declared.
	"mesh-shader": "undeclared identifier taskPayload",
}

// TestCorpusParse parses the MSL naga emits for every corpus shader that compiles: no panic, and
// Malformed only for triaged cases.
func TestCorpusParse(t *testing.T) {
	files, _ := filepath.Glob("/repo/snapshot/testdata/in/*.wgsl")
	if len(files) == 0 {
		t.Skip("corpus not found")
	}
	sort.Strings(files)
	var parsed, unsup, skipped, malformed int
	for _, f := range files {
		name := strings.TrimSuffix(filepath.Base(f), ".wgsl")
		src, _ := os.ReadFile(f)
		for oi, o := range []msl.Options{fakeOpts(), func() msl.Options {
			o := fakeOpts()
			o.BoundsCheckPolicies = msl.BoundsCheckPolicies{}
			o.ZeroInitializeWorkgroupMemory = false
			o.ForceLoopBounding = false
			o.LangVersion = msl.Version3_1
			return o
		}()} {
			var text string
			var cerr error
			func() {
				defer func() {
					if r := recover(); r != nil {
						cerr = errors.New("naga panic")
					}
				}()
				text, _, cerr = compileMSL(t, string(src), o)
			}()
			if cerr != nil {
				skipped++
				continue
			}
			prog, err := Parse(text)
			var mf *xrt.Malformed
			var us *xrt.Unsupported
			switch {
			case err == nil:
				parsed++
				_ = prog.Kernels()
				_ = prog.Decls()
				_ = prog.Problems()
			case errors.As(err, &us):
				unsup++
				if testing.Verbose() {
					t.Logf("%s[%d]: %v", name, oi, err)
				}
			case errors.As(err, &mf):
				malformed++
				if _, ok := knownCorpusMalformed[name]; !ok {
					t.Errorf("%s[%d]: %v", name, oi, err)
				}
			default:
				t.Errorf("%s[%d]: unexpected error type %T: %v", name, oi, err, err)
			}
		}
	}
	t.Logf("corpus: %d parsed, %d unsupported, %d malformed, %d not compiled by naga", parsed, unsup, malformed, skipped)
}

// TestGoldenParse parses naga's golden MSL files (they were produced with per-shader options).
func TestGoldenParse(t *testing.T) {
	files, _ := filepath.Glob("/repo/snapshot/testdata/golden/msl/*.msl")
	if len(files) == 0 {
		t.Skip("goldens not found")
	}
	var parsed, unsup int
	unsupFns := 0
	for _, f := range files {
		src, _ := os.ReadFile(f)
		prog, err := Parse(string(src))
		var mf *xrt.Malformed
		var us *xrt.Unsupported
		switch {
		case err == nil:
			parsed++
			for _, fn := range prog.funcs {
				if fn.unsup != nil {
					unsupFns++
					if testing.Verbose() {
						t.Logf("%s: %s: %v", filepath.Base(f), fn.name, fn.unsup)
					}
				}
			}
		case errors.As(err, &us):
			unsup++
			if testing.Verbose() {
				t.Logf("%s: %v", filepath.Base(f), err)
			}
		case errors.As(err, &mf):
			if _, ok := knownCorpusMalformed[strings.TrimSuffix(filepath.Base(f), ".msl")]; !ok {
				t.Errorf("%s: %v", filepath.Base(f), err)
			}
		}
	}
	t.Logf("goldens: %d parsed (%d functions unsupported), %d files unsupported", parsed, unsupFns, unsup)
}

func fakeOpts() msl.Options {
	o := msl.DefaultOptions()
	o.FakeMissingBindings = true
	return o
}
