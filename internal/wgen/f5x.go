package wgen

import (
	"fmt"
	"strings"
)

// F5X: attribute-order interface programs (never executed). WGSL gives the order of the attributes
// written in front of one declaration no meaning, so the interface of a module must be the same for
// every permutation of every attribute list. Each program comes with the interface model of F5,
// extended by @blend_src, @size/@align on IO-struct members and overrides, and records the order in
// which the attributes of every item were written.
//
// Sub-families (all index-enumerated, stable order):
//   loc    one user-defined IO item (vertex output + fragment input) x every legal @interpolate
//          combination x 8 types x {struct member of separate structs, member of one struct shared by
//          both stages, bare fragment parameter} x {no extra, @size, @align, @size+@align} member
//          attributes x ALL permutations of the attribute list
//   vin    vertex inputs (struct member with extras / bare) x 4 types x all permutations
//   fout   fragment outputs (struct member with extras / bare return) x 4 types x all permutations
//   blend  dual-source outputs: both members x all permutations of [@location, @blend_src, extras]
//   inv    @builtin(position) @invariant (vertex output, fragment input; bare and member) x all permutations
//   bi     every builtin valid in an IO struct x extras x all permutations
//   res    @group/@binding order for every resource kind, @compute/@workgroup_size order, @must_use helper
//   wg     @compute x @workgroup_size (1-3 arguments, literal and const-expression) x both orders
//   ovr    @id overrides in every declaration order (IR level only)

type F5XIO struct {
	F5IO
	BlendSrc int      // -1: none
	Size     int      // @size (struct members), 0: none
	Align    int      // @align (struct members), 0: none
	Attrs    []string // attribute spellings in the order written
}

type F5XEntry struct {
	Name      string
	Stage     string
	Workgroup [3]int
	Uses      []string
	Inputs    []F5XIO
	Outputs   []F5XIO
	InStruct  string // name of the struct carrying the inputs ("" = bare parameters)
	NStruct   int    // with InStruct: number of leading inputs that are members of it, the rest being bare parameters (0 = all)
	OutStruct string // name of the struct carrying the outputs ("" = bare return)
	WgText    string // spelling of the @workgroup_size attribute (compute)
	StageLast bool   // the stage attribute is written after @workgroup_size
}

type F5XOverride struct {
	Name string
	Type string
	ID   int // -1: no @id
}

type F5XResource struct {
	F5Resource
	BindingFirst bool // written `@binding(b) @group(g)`
}

type F5XProgram struct {
	Sub       string // sub-family
	Class     string // construct class (part of violation keys): position + attribute kinds, not the order
	Sig       string
	Src       string
	Resources []F5XResource
	Entries   []F5XEntry
	Overrides []F5XOverride
	Dual      bool // uses `enable dual_source_blending;`
	IROnly    bool // not compiled by the backends (overrides need pipeline constants)
	Light     bool // member of the subset presented to C02/C08/C09 through the shared family hook
}

// Base converts the model to the F5 form (drops what F5 does not model).
func (p *F5XProgram) Base() *F5Program {
	b := &F5Program{Sig: p.Sig, Src: p.Src}
	for _, r := range p.Resources {
		b.Resources = append(b.Resources, r.F5Resource)
	}
	for _, e := range p.Entries {
		be := F5Entry{Name: e.Name, Stage: e.Stage, Workgroup: e.Workgroup, Uses: e.Uses}
		for _, io := range e.Inputs {
			be.Inputs = append(be.Inputs, io.F5IO)
		}
		for _, io := range e.Outputs {
			be.Outputs = append(be.Outputs, io.F5IO)
		}
		b.Entries = append(b.Entries, be)
	}
	return b
}

// f5xPerms returns all permutations of 0..n-1 in lexicographic order.
func f5xPerms(n int) [][]int {
	var out [][]int
	var rec func(cur []int, used int)
	rec = func(cur []int, used int) {
		if len(cur) == n {
			out = append(out, append([]int(nil), cur...))
			return
		}
		for i := 0; i < n; i++ {
			if used&(1<<i) == 0 {
				rec(append(cur, i), used|1<<i)
			}
		}
	}
	rec(nil, 0)
	return out
}

func f5xPermute(xs []string, perm []int) []string {
	out := make([]string, len(xs))
	for i, j := range perm {
		out[i] = xs[j]
	}
	return out
}

// canonical attribute list of an item (the order every test-suite shader uses); Attrs is a permutation of it.
func f5xCanon(io F5XIO) []string {
	var a []string
	if io.Builtin != "" {
		a = append(a, "@builtin("+io.Builtin+")")
		if io.Invariant {
			a = append(a, "@invariant")
		}
	} else {
		a = append(a, fmt.Sprintf("@location(%d)", io.Location))
		if io.BlendSrc >= 0 {
			a = append(a, fmt.Sprintf("@blend_src(%d)", io.BlendSrc))
		}
		if io.Interp != "" {
			if io.Sampling != "" {
				a = append(a, "@interpolate("+io.Interp+", "+io.Sampling+")")
			} else {
				a = append(a, "@interpolate("+io.Interp+")")
			}
		}
	}
	if io.Size != 0 {
		a = append(a, fmt.Sprintf("@size(%d)", io.Size))
	}
	if io.Align != 0 {
		a = append(a, fmt.Sprintf("@align(%d)", io.Align))
	}
	return a
}

// attribute kinds of an item, for construct classes
func f5xKinds(io F5XIO) string {
	var a []string
	if io.Builtin != "" {
		a = append(a, "builtin("+io.Builtin+")")
		if io.Invariant {
			a = append(a, "invariant")
		}
	} else {
		a = append(a, "location")
		if io.BlendSrc >= 0 {
			a = append(a, "blend_src")
		}
		if io.Interp != "" {
			s := "interpolate(" + io.Interp
			if io.Sampling != "" {
				s += "," + io.Sampling
			}
			a = append(a, s+")")
		}
	}
	if io.Size != 0 {
		a = append(a, "size")
	}
	if io.Align != 0 {
		a = append(a, "align")
	}
	return strings.Join(a, "+")
}

func f5xIsInt(t string) bool { return strings.Contains(t, "u32") || strings.Contains(t, "i32") }

// read an input of type t into acc
func f5xRead(expr, t string) string {
	switch t {
	case "f32":
		return "acc.x += " + expr + ";"
	case "vec2<f32>":
		return "acc.x += " + expr + ".y;"
	case "vec3<f32>":
		return "acc.y += " + expr + ".z;"
	case "vec4<f32>":
		return "acc += " + expr + ";"
	case "u32", "i32":
		return "acc.x += f32(" + expr + ");"
	case "bool":
		return "if (" + expr + ") { acc.x += 1.0; }"
	}
	// integer vectors
	return "acc.x += f32(" + expr + ".x);"
}

// a value of type t derived from acc
func f5xValue(t string) string {
	switch t {
	case "f32":
		return "acc.x"
	case "vec2<f32>":
		return "acc.xy"
	case "vec3<f32>":
		return "acc.xyz"
	case "vec4<f32>":
		return "acc"
	case "u32":
		return "u32(acc.x)"
	case "i32":
		return "i32(acc.x)"
	case "vec2<i32>":
		return "vec2<i32>(acc.xy)"
	case "vec2<u32>":
		return "vec2<u32>(acc.xy)"
	case "vec3<u32>":
		return "vec3<u32>(acc.xyz)"
	case "vec4<u32>":
		return "vec4<u32>(acc)"
	case "vec4<i32>":
		return "vec4<i32>(acc)"
	}
	return t + "()"
}

type f5xBuilder struct {
	p       *F5XProgram
	structs map[string]bool
	sb      strings.Builder
	helper  string // resource name routed through a @must_use helper ("" = none)
}

func (b *f5xBuilder) resources() {
	for _, r := range b.p.Resources {
		d := f5Decl(r.F5Resource)
		if r.BindingFirst {
			d = strings.Replace(d, fmt.Sprintf("@group(%d) @binding(%d)", r.Group, r.Binding), fmt.Sprintf("@binding(%d) @group(%d)", r.Binding, r.Group), 1)
		}
		b.sb.WriteString(d + "\n")
	}
	if b.helper != "" {
		for _, r := range b.p.Resources {
			if r.Name == b.helper {
				use := r.Name
				if r.Kind == "storage_ro" {
					use += "[0]"
				}
				b.sb.WriteString("@must_use fn helper0() -> vec4<f32> { return " + use + "; }\n")
			}
		}
	}
}

func (b *f5xBuilder) structDecl(name string, ios []F5XIO) {
	if b.structs[name] {
		return
	}
	b.structs[name] = true
	b.sb.WriteString("struct " + name + " {\n")
	for _, io := range ios {
		b.sb.WriteString("  " + strings.Join(io.Attrs, " ") + " " + io.Name + ": " + io.Type + ",\n")
	}
	b.sb.WriteString("}\n")
}

func (b *f5xBuilder) entry(e F5XEntry) {
	var body strings.Builder
	body.WriteString("  var acc = vec4<f32>(0.0);\n")
	for _, u := range e.Uses {
		for _, r := range b.p.Resources {
			if r.Name != u {
				continue
			}
			switch r.Kind {
			case "sampler":
				tex := ""
				for _, r2 := range b.p.Resources {
					if r2.Kind == "texture" {
						tex = r2.Name
					}
				}
				body.WriteString("  acc += textureSampleLevel(" + tex + ", " + r.Name + ", vec2<f32>(0.5, 0.5), 0.0);\n")
			case "comparison_sampler":
				tex := ""
				for _, r2 := range b.p.Resources {
					if r2.Kind == "depth_texture" {
						tex = r2.Name
					}
				}
				body.WriteString("  acc.y += textureSampleCompareLevel(" + tex + ", " + r.Name + ", vec2<f32>(0.5, 0.5), 0.5);\n")
			default:
				if r.Name == b.helper {
					body.WriteString("  acc += helper0();\n")
				} else {
					body.WriteString("  " + f5Use(r.F5Resource, e.Stage) + "\n")
				}
			}
		}
	}
	var params []string
	if e.InStruct != "" {
		ns := e.NStruct
		if ns == 0 {
			ns = len(e.Inputs)
		}
		b.structDecl(e.InStruct, e.Inputs[:ns])
		params = append(params, "inp: "+e.InStruct)
		for _, io := range e.Inputs[:ns] {
			body.WriteString("  " + f5xRead("inp."+io.Name, io.Type) + "\n")
		}
		for _, io := range e.Inputs[ns:] {
			params = append(params, strings.Join(io.Attrs, " ")+" "+io.Name+": "+io.Type)
			body.WriteString("  " + f5xRead(io.Name, io.Type) + "\n")
		}
	} else {
		for _, io := range e.Inputs {
			params = append(params, strings.Join(io.Attrs, " ")+" "+io.Name+": "+io.Type)
			body.WriteString("  " + f5xRead(io.Name, io.Type) + "\n")
		}
	}
	ret := ""
	if e.OutStruct != "" {
		b.structDecl(e.OutStruct, e.Outputs)
		ret = " -> " + e.OutStruct
		body.WriteString("  var outv: " + e.OutStruct + ";\n")
		for _, io := range e.Outputs {
			body.WriteString("  outv." + io.Name + " = " + f5xValue(io.Type) + ";\n")
		}
		body.WriteString("  return outv;\n")
	} else if len(e.Outputs) == 1 {
		io := e.Outputs[0]
		ret = " -> " + strings.Join(io.Attrs, " ") + " " + io.Type
		body.WriteString("  return " + f5xValue(io.Type) + ";\n")
	}
	attr := "@" + e.Stage
	if e.Stage == "compute" {
		if e.StageLast {
			attr = e.WgText + " @compute"
		} else {
			attr = "@compute " + e.WgText
		}
	}
	b.sb.WriteString(attr + "\nfn " + e.Name + "(" + strings.Join(params, ", ") + ")" + ret + " {\n" + body.String() + "}\n")
}

func (p *F5XProgram) build(helper string, prelude string) {
	b := &f5xBuilder{p: p, structs: map[string]bool{}, helper: helper}
	if p.Dual {
		b.sb.WriteString("enable dual_source_blending;\n")
	}
	b.sb.WriteString(prelude)
	b.resources()
	for _, e := range p.Entries {
		b.entry(e)
	}
	p.Src = b.sb.String()
}

func f5xLoc(name string, loc int, t string) F5XIO {
	io := F5XIO{F5IO: F5IO{Name: name, Location: loc, Type: t}, BlendSrc: -1}
	if f5xIsInt(t) {
		io.Interp = "flat"
	}
	io.Attrs = f5xCanon(io)
	return io
}

func f5xBuiltin(name, bi, t string) F5XIO {
	io := F5XIO{F5IO: F5IO{Name: name, Location: -1, Builtin: bi, Type: t}, BlendSrc: -1}
	io.Attrs = f5xCanon(io)
	return io
}

// extras: 0 none, 1 @size, 2 @align, 3 both
func f5xExtras(io F5XIO, extras int) F5XIO {
	if extras&1 != 0 {
		io.Size = 16
	}
	if extras&2 != 0 {
		io.Align = 16
	}
	io.Attrs = f5xCanon(io)
	return io
}

var f5xFloatTypes = []string{"f32", "vec2<f32>", "vec3<f32>", "vec4<f32>"}
var f5xIntTypes = []string{"u32", "i32", "vec2<i32>", "vec4<u32>"}

type f5xInterp struct{ interp, sampling string }

var f5xFloatInterps = []f5xInterp{{"", ""}, {"perspective", ""}, {"linear", ""}, {"flat", ""},
	{"perspective", "center"}, {"perspective", "centroid"}, {"perspective", "sample"},
	{"linear", "center"}, {"linear", "centroid"}, {"linear", "sample"}, {"flat", "first"}, {"flat", "either"}}
var f5xIntInterps = []f5xInterp{{"flat", ""}, {"flat", "first"}, {"flat", "either"}}

var f5xLocs = []int{0, 1, 2, 15}

func f5xExtraName(x int) string { return []string{"plain", "size", "align", "size+align"}[x] }

func f5xVSIn() []F5XIO  { return []F5XIO{f5xLoc("a", 0, "vec4<f32>")} }
func f5xFSOut() []F5XIO { return []F5XIO{f5xLoc("col", 0, "vec4<f32>")} }
func f5xPos() F5XIO     { return f5xBuiltin("pos", "position", "vec4<f32>") }

// F5XPrograms enumerates the family.
func F5XPrograms(thorough bool) []*F5XProgram {
	var out []*F5XProgram
	add := func(p *F5XProgram, helper, prelude string) {
		p.build(helper, prelude)
		out = append(out, p)
	}
	withPerm := func(io F5XIO, perm []int) F5XIO {
		io.Attrs = f5xPermute(f5xCanon(io), perm)
		return io
	}
	permName := func(io F5XIO) string { return strings.Join(io.Attrs, "") }

	// ---- loc
	type spec struct {
		t  string
		ip f5xInterp
	}
	var specs []spec
	for _, ip := range f5xFloatInterps {
		for _, t := range f5xFloatTypes {
			specs = append(specs, spec{t, ip})
		}
	}
	for _, ip := range f5xIntInterps {
		for _, t := range f5xIntTypes {
			specs = append(specs, spec{t, ip})
		}
	}
	for _, pc := range []string{"separate", "shared", "bare", "mixed-bare", "mixed-member"} {
		for si, sp := range specs {
			nx := 4
			if pc == "bare" || pc == "mixed-bare" || pc == "mixed-member" && !thorough {
				nx = 1
			}
			for extras := 0; extras < nx; extras++ {
				if extras != 0 && !thorough && sp.t != "f32" && sp.t != "vec4<f32>" && sp.t != "u32" && sp.t != "vec2<i32>" {
					continue // quick: the member-layout attributes are combined with two float and two integer types
				}
				loc := f5xLocs[(si+extras)%4]
				item := F5XIO{F5IO: F5IO{Name: "x", Location: loc, Type: sp.t, Interp: sp.ip.interp, Sampling: sp.ip.sampling}, BlendSrc: -1}
				item = f5xExtras(item, extras)
				comp := f5xLoc("y", (loc+3)%16, "vec2<f32>")
				for _, perm := range f5xPerms(len(item.Attrs)) {
					for _, last := range []bool{false, true} {
						if last && (pc == "bare" || strings.HasPrefix(pc, "mixed")) {
							continue
						}
						it := withPerm(item, perm)
						p := &F5XProgram{Sub: "loc", Class: "F5X/loc/" + pc + "/" + f5xKinds(it)}
						p.Sig = p.Class + "/" + sp.t + "/" + permName(it) + map[bool]string{true: "/last"}[last]
						// the item is the first or the last member (a later member is preceded by padding when it is over-aligned)
						members := []F5XIO{it, f5xPos(), comp}
						fmembers := []F5XIO{it, comp}
						if last {
							members = []F5XIO{comp, f5xPos(), it}
							fmembers = []F5XIO{comp, it}
						}
						vs := F5XEntry{Name: "vs_main", Stage: "vertex", Inputs: f5xVSIn(), Outputs: members, OutStruct: "VOut"}
						fs := F5XEntry{Name: "fs_main", Stage: "fragment", Outputs: f5xFSOut()}
						switch pc {
						case "separate":
							fs.Inputs, fs.InStruct = fmembers, "FIn"
						case "shared":
							fs.Inputs, fs.InStruct = vs.Outputs, "VOut"
						case "bare":
							fs.Inputs = fmembers
						case "mixed-bare": // a struct parameter followed by the item as a bare parameter
							fs.Inputs, fs.InStruct, fs.NStruct = []F5XIO{comp, f5xPos(), it}, "FIn", 2
						case "mixed-member": // the item in a struct parameter, followed by a bare parameter
							fs.Inputs, fs.InStruct, fs.NStruct = []F5XIO{it, comp}, "FIn", 1
						}
						p.Entries = []F5XEntry{vs, fs}
						p.Light = extras == 0 && !last && (pc == "separate" || pc == "bare") && sp.ip.sampling != "first" && sp.ip.sampling != "either"
						add(p, "", "")
					}
				}
			}
		}
	}

	// ---- vin / fout
	ioTypes := []string{"f32", "vec4<f32>", "u32", "vec2<i32>"}
	for ti, t := range ioTypes {
		for extras := 0; extras < 5; extras++ { // 4 = bare
			for _, dir := range []string{"vin", "fout"} {
				loc := []int{0, 1, 2, 7}[(ti+extras)%4]
				item := F5XIO{F5IO: F5IO{Name: "x", Location: loc, Type: t}, BlendSrc: -1}
				pc := "bare"
				if extras < 4 {
					item = f5xExtras(item, extras)
					pc = "member"
				} else {
					item.Attrs = f5xCanon(item)
				}
				for _, perm := range f5xPerms(len(item.Attrs)) {
					it := withPerm(item, perm)
					p := &F5XProgram{Sub: dir, Class: "F5X/" + dir + "/" + pc + "/" + f5xKinds(it)}
					p.Sig = p.Class + "/" + t + "/" + permName(it)
					if dir == "vin" {
						vi := f5xExtras(f5xBuiltin("vi", "vertex_index", "u32"), extras&3)
						vi.Attrs = f5xPermute(vi.Attrs, f5xPerms(len(vi.Attrs))[len(f5xPerms(len(vi.Attrs)))-1]) // reversed canonical order
						vs := F5XEntry{Name: "vs_main", Stage: "vertex", Inputs: []F5XIO{it, vi}, Outputs: []F5XIO{f5xPos()}}
						if extras < 4 {
							vs.InStruct = "VIn"
						} else {
							vs.Inputs[1] = f5xBuiltin("vi", "vertex_index", "u32")
						}
						p.Entries = []F5XEntry{vs}
					} else {
						fs := F5XEntry{Name: "fs_main", Stage: "fragment", Inputs: []F5XIO{f5xLoc("uv", 0, "vec2<f32>")}, Outputs: []F5XIO{it}}
						if extras < 4 {
							fs.OutStruct = "FOut"
							fs.Outputs = append(fs.Outputs, f5xBuiltin("depth", "frag_depth", "f32"))
						}
						p.Entries = []F5XEntry{fs}
					}
					p.Light = extras == 0 || extras == 4
					add(p, "", "")
				}
			}
		}
	}

	// ---- blend: both members of a dual-source output struct
	for _, t := range []string{"vec4<f32>", "f32", "vec4<u32>"} {
		for extras := 0; extras < 4; extras++ {
			a := F5XIO{F5IO: F5IO{Name: "a", Location: 0, Type: t}, BlendSrc: 0}
			b := F5XIO{F5IO: F5IO{Name: "b", Location: 0, Type: t}, BlendSrc: 1}
			a, b = f5xExtras(a, extras), f5xExtras(b, extras)
			perms := f5xPerms(len(a.Attrs))
			for pa := range perms {
				for pb := range perms {
					if len(perms) > 6 && !thorough && pb != pa && pb != (pa+1)%len(perms) && pb != len(perms)-1-pa {
						continue // quick: equal, successor and mirrored orders for the 24 x 24 product
					}
					ia, ib := withPerm(a, perms[pa]), withPerm(b, perms[pb])
					p := &F5XProgram{Sub: "blend", Class: "F5X/blend/member/" + f5xKinds(ia), Dual: true}
					p.Sig = p.Class + "/" + t + "/" + permName(ia) + "/" + permName(ib)
					fs := F5XEntry{Name: "fs_main", Stage: "fragment", Inputs: []F5XIO{f5xLoc("uv", 0, "vec2<f32>")}, Outputs: []F5XIO{ia, ib}, OutStruct: "FOut"}
					p.Entries = []F5XEntry{fs}
					p.Light = extras == 0
					add(p, "", "")
				}
			}
		}
	}

	// ---- inv: @builtin(position) @invariant
	for _, where := range []string{"vs-out", "fs-in"} {
		for extras := 0; extras < 5; extras++ { // 4 = bare
			item := F5XIO{F5IO: F5IO{Name: "pos", Location: -1, Builtin: "position", Type: "vec4<f32>", Invariant: true}, BlendSrc: -1}
			pc := "bare"
			if extras < 4 {
				item = f5xExtras(item, extras)
				pc = "member"
			} else {
				item.Attrs = f5xCanon(item)
			}
			for _, perm := range f5xPerms(len(item.Attrs)) {
				it := withPerm(item, perm)
				p := &F5XProgram{Sub: "inv", Class: "F5X/inv/" + where + "/" + pc + "/" + f5xKinds(it)}
				p.Sig = p.Class + "/" + permName(it)
				if where == "vs-out" {
					vs := F5XEntry{Name: "vs_main", Stage: "vertex", Inputs: f5xVSIn(), Outputs: []F5XIO{it}}
					if extras < 4 {
						vs.OutStruct = "VOut"
						vs.Outputs = append(vs.Outputs, f5xLoc("uv", 1, "vec2<f32>"))
					}
					p.Entries = []F5XEntry{vs}
				} else {
					fs := F5XEntry{Name: "fs_main", Stage: "fragment", Inputs: []F5XIO{it, f5xLoc("uv", 1, "vec2<f32>")}, Outputs: f5xFSOut()}
					if extras < 4 {
						fs.InStruct = "FIn"
					}
					p.Entries = []F5XEntry{fs}
				}
				p.Light = extras == 0 || extras == 4
				add(p, "", "")
			}
		}
	}

	// ---- bi: builtins as struct members with extra member attributes
	type bi struct{ stage, dir, name, t string }
	for _, b := range []bi{{"vertex", "in", "vertex_index", "u32"}, {"vertex", "in", "instance_index", "u32"}, {"vertex", "out", "position", "vec4<f32>"},
		{"fragment", "in", "position", "vec4<f32>"}, {"fragment", "in", "front_facing", "bool"}, {"fragment", "in", "sample_index", "u32"}, {"fragment", "in", "sample_mask", "u32"},
		{"fragment", "out", "frag_depth", "f32"}, {"fragment", "out", "sample_mask", "u32"},
		{"compute", "in", "global_invocation_id", "vec3<u32>"}, {"compute", "in", "local_invocation_id", "vec3<u32>"}, {"compute", "in", "local_invocation_index", "u32"},
		{"compute", "in", "workgroup_id", "vec3<u32>"}, {"compute", "in", "num_workgroups", "vec3<u32>"}} {
		for extras := 0; extras < 4; extras++ {
			if b.t == "bool" && extras != 0 {
				continue
			}
			item := f5xExtras(f5xBuiltin("bv", b.name, b.t), extras)
			for _, perm := range f5xPerms(len(item.Attrs)) {
				it := withPerm(item, perm)
				p := &F5XProgram{Sub: "bi", Class: "F5X/bi/" + b.stage + "-" + b.dir + "/member/" + f5xKinds(it)}
				p.Sig = p.Class + "/" + permName(it)
				var e F5XEntry
				switch b.stage + b.dir {
				case "vertexin":
					e = F5XEntry{Name: "vs_main", Stage: "vertex", Inputs: []F5XIO{f5xLoc("a", 0, "vec4<f32>"), it}, InStruct: "VIn", Outputs: []F5XIO{f5xPos()}}
				case "vertexout":
					e = F5XEntry{Name: "vs_main", Stage: "vertex", Inputs: f5xVSIn(), Outputs: []F5XIO{f5xLoc("uv", 0, "vec2<f32>"), it}, OutStruct: "VOut"}
				case "fragmentin":
					e = F5XEntry{Name: "fs_main", Stage: "fragment", Inputs: []F5XIO{f5xLoc("uv", 0, "vec2<f32>"), it}, InStruct: "FIn", Outputs: f5xFSOut()}
				case "fragmentout":
					e = F5XEntry{Name: "fs_main", Stage: "fragment", Inputs: []F5XIO{f5xLoc("uv", 0, "vec2<f32>")}, Outputs: []F5XIO{f5xLoc("col", 0, "vec4<f32>"), it}, OutStruct: "FOut"}
				case "computein":
					e = F5XEntry{Name: "cs_main", Stage: "compute", Workgroup: [3]int{2, 1, 1}, WgText: "@workgroup_size(2)", Inputs: []F5XIO{it}, InStruct: "CIn", Uses: []string{"res0"}}
					p.Resources = []F5XResource{{F5Resource: F5Resource{Name: "res0", Kind: "storage_rw", Group: 0, Binding: 1}}}
				}
				p.Entries = []F5XEntry{e}
				add(p, "", "")
			}
		}
	}

	// ---- res: @group/@binding order for every resource kind; @compute/@workgroup_size order; @must_use helper
	gb := [][2]int{{1, 2}, {2, 0}, {0, 3}}
	for k := 0; k < len(f5Kinds); k++ {
		kinds := []string{f5Kinds[k], f5Kinds[(k+1)%len(f5Kinds)], f5Kinds[(k+3)%len(f5Kinds)]}
		for _, stage := range []string{"compute", "fragment"} {
			for mask := 0; mask < 8; mask++ {
				p := &F5XProgram{Sub: "res", Class: "F5X/res/" + strings.Join(kinds, ",") + "/" + stage}
				p.Sig = fmt.Sprintf("%s/binding-first=%03b", p.Class, mask)
				has := map[string]string{}
				for i, kd := range kinds {
					r := F5XResource{F5Resource: F5Resource{Name: fmt.Sprintf("res%d", i), Kind: kd, Group: gb[i][0], Binding: gb[i][1]}, BindingFirst: mask&(1<<i) != 0}
					p.Resources = append(p.Resources, r)
					has[kd] = r.Name
				}
				e := F5XEntry{Name: "ep_main", Stage: stage}
				for _, r := range p.Resources {
					if r.Kind == "sampler" && has["texture"] == "" || r.Kind == "comparison_sampler" && has["depth_texture"] == "" {
						continue // a sampler is only usable together with a texture of the matching class
					}
					e.Uses = append(e.Uses, r.Name)
				}
				if stage == "compute" {
					e.Workgroup, e.WgText, e.StageLast = [3]int{4, 2, 1}, "@workgroup_size(4, 2)", mask&1 != 0
					e.Inputs = []F5XIO{f5xBuiltin("gid", "global_invocation_id", "vec3<u32>")}
				} else {
					e.Inputs, e.Outputs = []F5XIO{f5xLoc("uv", 0, "vec2<f32>")}, f5xFSOut()
				}
				p.Entries = []F5XEntry{e}
				helper := ""
				if (kinds[0] == "uniform" || kinds[0] == "storage_ro") && mask&2 != 0 {
					helper = "res0"
				}
				p.Light = true
				add(p, helper, "")
			}
		}
	}

	// ---- wg: @compute x @workgroup_size
	for _, wg := range []struct {
		text    string
		size    [3]int
		prelude string
	}{{"@workgroup_size(8)", [3]int{8, 1, 1}, ""}, {"@workgroup_size(4, 2)", [3]int{4, 2, 1}, ""}, {"@workgroup_size(2, 3, 4)", [3]int{2, 3, 4}, ""},
		{"@workgroup_size(WX)", [3]int{16, 1, 1}, "const WX = 16u;\n"}, {"@workgroup_size(WX, WY)", [3]int{16, 2, 1}, "const WX = 16u;\nconst WY = WX / 8u;\n"},
		{"@workgroup_size(WX, 1, WZ)", [3]int{4, 1, 3}, "const WX: i32 = 4;\nconst WZ: i32 = 3;\n"}} {
		for _, last := range []bool{false, true} {
			p := &F5XProgram{Sub: "wg", Class: "F5X/wg/" + wg.text}
			p.Sig = fmt.Sprintf("%s/stage-last=%v", p.Class, last)
			p.Resources = []F5XResource{{F5Resource: F5Resource{Name: "res0", Kind: "storage_rw", Group: 0, Binding: 1}, BindingFirst: last}}
			p.Entries = []F5XEntry{{Name: "cs_main", Stage: "compute", Workgroup: wg.size, WgText: wg.text, StageLast: last, Uses: []string{"res0"},
				Inputs: []F5XIO{f5xBuiltin("lid", "local_invocation_id", "vec3<u32>")}}}
			p.Light = true
			add(p, "", wg.prelude)
		}
	}

	// ---- ovr: @id overrides in every declaration order (IR level)
	ov := []F5XOverride{{"oa", "f32", 7}, {"ob", "u32", -1}, {"oc", "bool", 0}}
	decl := map[string]string{"oa": "@id(7) override oa: f32 = 1.5;", "ob": "override ob: u32 = 2u;", "oc": "@id(0) override oc: bool = true;"}
	for _, perm := range f5xPerms(3) {
		p := &F5XProgram{Sub: "ovr", Class: "F5X/ovr", IROnly: true}
		prelude := ""
		for _, i := range perm {
			p.Overrides = append(p.Overrides, ov[i])
			prelude += decl[ov[i].Name] + "\n"
		}
		p.Sig = fmt.Sprintf("F5X/ovr/order=%v", perm)
		p.Resources = []F5XResource{{F5Resource: F5Resource{Name: "res0", Kind: "storage_rw", Group: 0, Binding: 1}}}
		p.Entries = []F5XEntry{{Name: "cs_main", Stage: "compute", Workgroup: [3]int{2, 1, 1}, WgText: "@workgroup_size(2)", Uses: []string{"res0"},
			Inputs: []F5XIO{f5xBuiltin("lid", "local_invocation_id", "vec3<u32>")}}}
		p.build("", prelude)
		// the overrides are read in the body so that they are part of the module
		p.Src = strings.Replace(p.Src, "  var acc = vec4<f32>(0.0);\n", "  var acc = vec4<f32>(0.0);\n  acc.x += oa + f32(ob);\n  if (oc) { acc.y += 1.0; }\n", 1)
		out = append(out, p)
	}
	return out
}

// F5XLight is the subset of F5X presented to the checks that consume the shared valid-program
// families (canonical and permuted orders of the plain attribute lists; no member-layout attributes).
func F5XLight() *Family {
	var ps []*F5XProgram
	for _, p := range F5XPrograms(false) {
		if p.Light && !p.IROnly {
			ps = append(ps, p)
		}
	}
	return &Family{Name: "F5Xlight", Count: len(ps), At: func(i int) *Case {
		return &Case{Family: "F5Xlight", Index: i, Sig: ps[i].Sig, Mod: &Module{Raw: ps[i].Src}, NoExec: true}
	}}
}
