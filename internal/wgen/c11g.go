package wgen

// C11G — generated family for property C11 (diagnosed classes of invalid programs are rejected at the
// right place). A case is a complete WGSL program assembled from text templates:
//
//	host = statement form (with a hole) x block context x position in the statement list
//	       x enclosing function kind x order of the support declarations
//	construct = one member of a construct group placed in the hole: the group's *valid control*
//	       (the program must be accepted, otherwise the host is not live for that group) or one of its
//	       *offenders* (each breaks exactly one diagnosed rule; the program must be rejected).
//
// The generator knows the byte offset of the construct and the extent of the module-scope declaration
// that contains it, because it places both. Everything is index-based and deterministic.

import "strings"

// C11Off is one rule-breaking construct.
type C11Off struct {
	Rule string // the property's rule
	Var  string // variant of the offending construct
	Text string
}

// C11Group is a set of offenders that share one valid control and the same support declarations.
type C11Group struct {
	Name     string
	Kind     byte     // 'e' i32-valued expression, 's' statement, 't' type
	Needs    []string // support declarations (module scope)
	Prelude  string   // statements at the top of the host function
	Param    string   // extra parameter of the helper host function ("" = none; group not applicable to entry points)
	Arg      string   // matching argument
	Control  string
	Offs     []C11Off
	ConstOK  bool // control and offenders are const-expressions (usable in function-scope const contexts)
	ModOK    bool // usable in module-scope const-expression hosts (no prelude, no parameter)
	OrderDep bool // refers to module-scope support declarations: their position (before/after the host) is varied
	Light    bool // quick tier: placed in one third of the (form, context) hosts (rotating), thorough: in all
}

// C11Form is a statement with one hole '§'.
type C11Form struct {
	Name       string
	Kind       byte // kind of the hole: 'e', 's', 't'
	Text       string
	Prelude    string
	Needs      []string
	Const      bool // the hole is a const-expression context
	HelperOnly bool // needs a return value
	Last       bool // must be the last statement of its list
	Basic      bool // also placed in the depth-2 block contexts in the quick tier
}

// C11Ctx is a block context: Pre + statement list + Post.
type C11Ctx struct {
	Name      string
	Pre, Post string
	Depth     int
}

// Support declarations, in dependency order.
var c11Support = []struct{ Key, Text string }{
	{"SI", "struct SI { a: i32, b: i32 }"},
	{"SJ", "struct SJ { p: i32, q: i32 }"},
	{"SN", "struct SN { inner: SI, n: i32 }"},
	{"SO", "struct SO { mem_a: i32, mem_b: i32 }"},
	{"KC", "const KC: i32 = 4;"},
	{"KZ", "const KZ: i32 = 0;"},
	{"KN", "const KN: i32 = -1;"},
	{"gp", "var<private> gp: i32 = 1;"},
	{"garr", "var<private> garr: array<i32, 8>;"},
	{"gs", "var<private> gs: SI;"},
	{"gv2", "var<private> gv2: vec2<i32>;"},
	{"gv3", "var<private> gv3: vec3<i32>;"},
	{"gv4", "var<private> gv4: vec4<i32>;"},
	{"f1", "fn f1(a: i32) -> i32 {\n    return a + 1;\n}"},
	{"f2", "fn f2(a: i32, b: f32) -> i32 {\n    return a + i32(b);\n}"},
	{"fv", "fn fv(v: vec3<f32>) -> i32 {\n    return i32(v.x);\n}"},
	{"fs", "fn fs(s: SI) -> i32 {\n    return s.a;\n}"},
	{"fp", "fn fp(p: ptr<function, i32>) -> i32 {\n    return *p;\n}"},
	{"id1", "fn id1(a: i32) -> i32 {\n    return a;\n}"},
	{"id2", "fn id2(a: i32, b: i32) -> i32 {\n    return a + b;\n}"},
	{"sink", "fn sink(a: i32) {\n    var sunk = a;\n    sunk += 1;\n}"},
	{"mk", "fn mk() -> SI {\n    return SI(4, 2);\n}"},
	{"mkj", "fn mkj(a: i32) -> SJ {\n    return SJ(a, 2);\n}"},
	{"mu", "@must_use\nfn mu(a: i32) -> i32 {\n    return a;\n}"},
	{"oth", "fn oth(oth_param: i32) -> i32 {\n    let oth_let = oth_param + 1;\n    var oth_var = oth_let;\n    {\n        let oth_inner = 2;\n        oth_var += oth_inner;\n    }\n    return oth_var;\n}"},
}

var c11Deps = map[string][]string{"SN": {"SI"}, "gs": {"SI"}, "fs": {"SI"}, "mk": {"SI"}, "mkj": {"SJ"}}

// c11SupportList returns the texts of the needed support declarations (transitively closed), in
// dependency order, or reversed (dependents first) when rev is set.
func c11SupportList(needs []string, rev bool) []string {
	want := map[string]bool{}
	var add func(k string)
	add = func(k string) {
		if want[k] {
			return
		}
		want[k] = true
		for _, d := range c11Deps[k] {
			add(d)
		}
	}
	for _, k := range needs {
		add(k)
	}
	var out []string
	for _, s := range c11Support {
		if want[s.Key] {
			out = append(out, s.Text)
		}
	}
	if rev {
		for i, j := 0, len(out)-1; i < j; i, j = i+1, j-1 {
			out[i], out[j] = out[j], out[i]
		}
	}
	return out
}

// ---------------------------------------------------------------- forms

var C11Forms = []C11Form{
	// declarations and assignments
	{Name: "let-init", Kind: 'e', Text: "let t = §;", Basic: true},
	{Name: "let-typed", Kind: 'e', Text: "let t: i32 = §;"},
	{Name: "var-init", Kind: 'e', Text: "var t = §;"},
	{Name: "var-typed", Kind: 'e', Text: "var t: i32 = §;"},
	{Name: "const-init", Kind: 'e', Text: "const t = §;", Const: true},
	{Name: "const-typed", Kind: 'e', Text: "const t: i32 = §;", Const: true},
	{Name: "assign", Kind: 'e', Text: "acc = §;", Basic: true},
	{Name: "compound-add", Kind: 'e', Text: "acc += §;"},
	{Name: "compound-mul", Kind: 'e', Text: "acc *= §;"},
	{Name: "paren", Kind: 'e', Text: "acc = (§);"},
	{Name: "phony", Kind: 'e', Text: "_ = §;"},
	{Name: "global-store", Kind: 'e', Text: "gp = §;", Needs: []string{"gp"}},
	{Name: "member-store", Kind: 'e', Text: "sj.p = §;", Prelude: "var sj = SJ(1, 2);", Needs: []string{"SJ"}},
	{Name: "component-store", Kind: 'e', Text: "vv.x = §;", Prelude: "var vv = vec2<i32>(1, 2);"},
	{Name: "deref-store", Kind: 'e', Text: "*pacc = §;", Prelude: "let pacc = &acc;"},
	// control-flow headers
	{Name: "if-cond", Kind: 'e', Text: "if § > 0 {\n    acc = 1;\n}"},
	{Name: "elif-cond", Kind: 'e', Text: "if acc > 100 {\n    acc = 1;\n} else if § > 0 {\n    acc = 2;\n}", Basic: true},
	{Name: "elif2-cond", Kind: 'e', Text: "if acc > 100 {\n    acc = 1;\n} else if acc > 50 {\n    acc = 2;\n} else if § > 0 {\n    acc = 3;\n}"},
	{Name: "elif-cond-else", Kind: 'e', Text: "if acc > 100 {\n    acc = 1;\n} else if § > 0 {\n    acc = 2;\n} else {\n    acc = 3;\n}"},
	{Name: "while-cond", Kind: 'e', Text: "while § > 100 {\n    acc += 1;\n}"},
	{Name: "for-init", Kind: 'e', Text: "for (var i = §; i < 4; i++) {\n    acc += i;\n}"},
	{Name: "for-init-assign", Kind: 'e', Text: "for (acc = §; acc < 4; acc++) {\n    acc += 2;\n}"},
	{Name: "for-cond", Kind: 'e', Text: "for (var i = 0; i < §; i++) {\n    acc += i;\n}"},
	{Name: "for-update", Kind: 'e', Text: "for (var i = 0; i < 4; i += §) {\n    acc += i;\n}"},
	{Name: "for-update-assign", Kind: 'e', Text: "for (var i = 0; i < 4; i = i + §) {\n    acc += i;\n}"},
	{Name: "break-if", Kind: 'e', Text: "loop {\n    acc += 1;\n    continuing {\n        break if § > 0;\n    }\n}"},
	{Name: "switch-selector", Kind: 'e', Text: "switch § {\n    case 1: {\n        acc = 1;\n    }\n    default: {\n        acc = 2;\n    }\n}"},
	{Name: "case-selector", Kind: 'e', Text: "switch acc {\n    case §: {\n        acc = 1;\n    }\n    default: {\n        acc = 2;\n    }\n}", Const: true},
	{Name: "case-selector-2nd", Kind: 'e', Text: "switch acc {\n    case 1, §: {\n        acc = 1;\n    }\n    default: {\n        acc = 2;\n    }\n}", Const: true},
	{Name: "return-value", Kind: 'e', Text: "return §;", HelperOnly: true, Last: true, Basic: true},
	{Name: "return-early", Kind: 'e', Text: "if acc > 5 {\n    return §;\n}", HelperOnly: true},
	// calls
	{Name: "call-arg", Kind: 'e', Text: "acc = id1(§);", Needs: []string{"id1"}, Basic: true},
	{Name: "call-arg-2nd", Kind: 'e', Text: "acc = id2(1, §);", Needs: []string{"id2"}},
	{Name: "call-stmt-arg", Kind: 'e', Text: "sink(§);", Needs: []string{"sink"}},
	{Name: "call-nested-arg", Kind: 'e', Text: "acc = id1(id1(§));", Needs: []string{"id1"}},
	{Name: "member-of-call", Kind: 'e', Text: "acc = mkj(§).p;", Needs: []string{"mkj"}},
	{Name: "builtin-abs", Kind: 'e', Text: "acc = abs(§);"},
	{Name: "builtin-min", Kind: 'e', Text: "acc = min(§, 3);"},
	{Name: "builtin-max", Kind: 'e', Text: "acc = max(3, §);"},
	{Name: "builtin-clamp", Kind: 'e', Text: "acc = clamp(acc, 0, §);"},
	{Name: "select-false", Kind: 'e', Text: "acc = select(§, 2, acc > 0);"},
	{Name: "select-true", Kind: 'e', Text: "acc = select(1, §, acc > 0);"},
	{Name: "select-cond", Kind: 'e', Text: "acc = select(1, 2, § > 0);"},
	{Name: "convert", Kind: 'e', Text: "acc = i32(f32(§));"},
	{Name: "bitcast", Kind: 'e', Text: "acc = bitcast<i32>(§);"},
	// indexing and reference contexts
	{Name: "index-rhs", Kind: 'e', Text: "acc = arr[§];", Prelude: "var arr = array<i32, 8>(1, 2, 3, 4, 5, 6, 7, 8);"},
	{Name: "index-lhs", Kind: 'e', Text: "arr[§] = 1;", Prelude: "var arr = array<i32, 8>(1, 2, 3, 4, 5, 6, 7, 8);"},
	{Name: "index-compound", Kind: 'e', Text: "arr[§] += 1;", Prelude: "var arr = array<i32, 8>(1, 2, 3, 4, 5, 6, 7, 8);"},
	{Name: "index-increment", Kind: 'e', Text: "arr[§]++;", Prelude: "var arr = array<i32, 8>(1, 2, 3, 4, 5, 6, 7, 8);"},
	{Name: "index-decrement", Kind: 'e', Text: "arr[§]--;", Prelude: "var arr = array<i32, 8>(1, 2, 3, 4, 5, 6, 7, 8);"},
	{Name: "index-nested", Kind: 'e', Text: "acc = arr[arr[§]];", Prelude: "var arr = array<i32, 8>(1, 2, 3, 4, 5, 6, 7, 0);"},
	{Name: "index-global", Kind: 'e', Text: "acc = garr[§];", Needs: []string{"garr"}},
	{Name: "index-let-array", Kind: 'e', Text: "acc = larr[§];", Prelude: "let larr = array<i32, 8>(1, 2, 3, 4, 5, 6, 7, 8);"},
	{Name: "ref-index", Kind: 'e', Text: "let p = &arr[§];\nacc = *p;", Prelude: "var arr = array<i32, 8>(1, 2, 3, 4, 5, 6, 7, 8);"},
	{Name: "pointer-arg-index", Kind: 'e', Text: "acc = fp(&arr[§]);", Prelude: "var arr = array<i32, 8>(1, 2, 3, 4, 5, 6, 7, 8);", Needs: []string{"fp"}},
	// constructors
	{Name: "vec-ctor-arg", Kind: 'e', Text: "let v = vec3<i32>(1, §, 3);"},
	{Name: "vec-ctor-inferred", Kind: 'e', Text: "let v = vec2(§, 1);"},
	{Name: "struct-ctor-arg", Kind: 'e', Text: "let s = SJ(§, 2);", Needs: []string{"SJ"}},
	{Name: "array-ctor-arg", Kind: 'e', Text: "let a = array<i32, 2>(§, 2);"},
	{Name: "array-ctor-inferred", Kind: 'e', Text: "let a = array(§, 2);"},
	// operators
	{Name: "binary-left", Kind: 'e', Text: "acc = § + 1;"},
	{Name: "binary-right", Kind: 'e', Text: "acc = 1 + §;"},
	{Name: "binary-mul-right", Kind: 'e', Text: "acc = acc * §;"},
	{Name: "binary-compare", Kind: 'e', Text: "let b = § == 1;"},
	{Name: "binary-shift", Kind: 'e', Text: "acc = acc << u32(§);"},
	{Name: "unary-neg", Kind: 'e', Text: "acc = -§;"},
	{Name: "unary-complement", Kind: 'e', Text: "acc = ~§;"},
	{Name: "logical-not", Kind: 'e', Text: "let b = !(§ > 0);"},
	{Name: "and-left", Kind: 'e', Text: "let b = § > 0 && acc > 0;"},
	{Name: "and-right", Kind: 'e', Text: "let b = acc > 0 && § > 0;"},
	{Name: "or-right", Kind: 'e', Text: "let b = acc > 0 || § > 0;"},
	// const-expression holes inside a function
	{Name: "local-array-size", Kind: 'e', Text: "var t: array<i32, §>;", Const: true},
	{Name: "const-assert-stmt", Kind: 'e', Text: "const_assert § > 0;", Const: true},
	// statement hole
	{Name: "stmt", Kind: 's', Text: "§", Basic: true},
	// type holes
	{Name: "var-type", Kind: 't', Text: "var t: §;", Basic: true},
	{Name: "let-type", Kind: 't', Text: "let t: § = array<i32, 4>(1, 2, 3, 4);"},
	{Name: "var-ctor-type", Kind: 't', Text: "var t = §();"},
	{Name: "let-ctor-type", Kind: 't', Text: "let t = §();"},
	{Name: "const-ctor-type", Kind: 't', Text: "const t = §();"},
}

// ---------------------------------------------------------------- block contexts

var c11Ctx1 = []C11Ctx{
	{Name: "body"},
	{Name: "then", Pre: "if acc > 0 {", Post: "}"},
	{Name: "else", Pre: "if acc > 0 {\n    acc = 1;\n} else {", Post: "}"},
	{Name: "elif", Pre: "if acc > 0 {\n    acc = 1;\n} else if acc > 1 {", Post: "}"},
	{Name: "elif2", Pre: "if acc > 0 {\n    acc = 1;\n} else if acc > 1 {\n    acc = 2;\n} else if acc > 2 {", Post: "}"},
	{Name: "elif-else", Pre: "if acc > 0 {\n    acc = 1;\n} else if acc > 1 {\n    acc = 2;\n} else {", Post: "}"},
	{Name: "then-with-elif", Pre: "if acc > 0 {", Post: "} else if acc > 1 {\n    acc = 2;\n} else {\n    acc = 3;\n}"},
	{Name: "while", Pre: "while acc < 4 {", Post: "}"},
	{Name: "for", Pre: "for (var i = 0; i < 4; i++) {", Post: "}"},
	{Name: "loop", Pre: "loop {\n    if acc > 9 {\n        break;\n    }", Post: "}"},
	{Name: "loop-before-continuing", Pre: "loop {\n    if acc > 9 {\n        break;\n    }", Post: "    continuing {\n        acc += 3;\n    }\n}"},
	{Name: "continuing", Pre: "loop {\n    if acc > 9 {\n        break;\n    }\n    continuing {", Post: "    }\n}"},
	{Name: "continuing-break-if", Pre: "loop {\n    acc += 3;\n    continuing {", Post: "        break if acc > 9;\n    }\n}"},
	{Name: "case1", Pre: "switch acc {\n    case 1: {", Post: "    }\n    case 2: {\n        acc = 2;\n    }\n    default: {\n        acc = 3;\n    }\n}"},
	{Name: "case2", Pre: "switch acc {\n    case 1: {\n        acc = 1;\n    }\n    case 2: {", Post: "    }\n    default: {\n        acc = 3;\n    }\n}"},
	{Name: "case3-multi", Pre: "switch acc {\n    case 1: {\n        acc = 1;\n    }\n    case 2: {\n        acc = 2;\n    }\n    case 3, 4: {", Post: "    }\n    default: {\n        acc = 3;\n    }\n}"},
	{Name: "default-last", Pre: "switch acc {\n    case 1: {\n        acc = 1;\n    }\n    case 2: {\n        acc = 2;\n    }\n    default: {", Post: "    }\n}"},
	{Name: "default-first", Pre: "switch acc {\n    default: {", Post: "    }\n    case 1: {\n        acc = 1;\n    }\n}"},
	{Name: "case-after-default", Pre: "switch acc {\n    default: {\n        acc = 3;\n    }\n    case 1: {", Post: "    }\n}"},
	{Name: "case-with-default", Pre: "switch acc {\n    case 1: {\n        acc = 1;\n    }\n    case 5, default: {", Post: "    }\n}"},
	{Name: "block", Pre: "{", Post: "}"},
	{Name: "block2", Pre: "{\n{", Post: "}\n}"},
	{Name: "block3", Pre: "{\n{\n{", Post: "}\n}\n}"},
}

// contexts composed at depth 2 (outer x inner)
var c11CtxCore = []string{"then", "else", "elif", "while", "for", "loop", "continuing", "case2", "default-last", "block"}

// C11Ctxs returns the depth-1 contexts followed by every depth-2 composition of the core contexts
// (and, when deep is set, every depth-3 composition as well).
func C11Ctxs(deep bool) []C11Ctx {
	out := make([]C11Ctx, 0, 200)
	byName := map[string]C11Ctx{}
	for _, c := range c11Ctx1 {
		c.Depth = 1
		out = append(out, c)
		byName[c.Name] = c
	}
	comp := func(a, b C11Ctx) C11Ctx {
		return C11Ctx{Name: a.Name + ">" + b.Name, Pre: a.Pre + "\n" + b.Pre, Post: b.Post + "\n" + a.Post, Depth: a.Depth + b.Depth}
	}
	var d2 []C11Ctx
	for _, a := range c11CtxCore {
		for _, b := range c11CtxCore {
			d2 = append(d2, comp(byName[a], byName[b]))
		}
	}
	out = append(out, d2...)
	if deep {
		for _, a := range c11CtxCore {
			for _, b := range d2 {
				out = append(out, comp(byName[a], b))
			}
		}
	}
	return out
}

// ---------------------------------------------------------------- groups

func offs(rule string, kv ...string) []C11Off {
	var o []C11Off
	for i := 0; i+1 < len(kv); i += 2 {
		o = append(o, C11Off{Rule: rule, Var: kv[i], Text: kv[i+1]})
	}
	return o
}

func cat(a ...[]C11Off) []C11Off {
	var o []C11Off
	for _, x := range a {
		o = append(o, x...)
	}
	return o
}

const c11VecPrelude = "let v2 = vec2<i32>(4, 2);\nlet v3 = vec3<i32>(4, 2, 3);\nlet v4 = vec4<i32>(4, 2, 3, 1);"
const c11VecVarPrelude = "var w2 = vec2<i32>(4, 2);\nvar w3 = vec3<i32>(4, 2, 3);\nvar w4 = vec4<i32>(4, 2, 3, 1);"

func swizzleOffs(v2, v3, v4 string) []C11Off {
	return cat(
		offs("swizzle-mixed", "xg", v4+".xg.x", "rgbx", v4+".rgbx.x", "rx", v4+".rx.x", "yb", v3+".yb.x", "xyb", v3+".xyb.x"),
		offs("swizzle-too-wide", "xyzwx", v4+".xyzwx.x", "rgbar", v4+".rgbar.x"),
		offs("swizzle-beyond-width", "vec2.z", v2+".z", "vec3.w", v3+".w", "vec2.xz", v2+".xz.x", "vec2.b", v2+".b", "vec3.a", v3+".a", "vec3.xw", v3+".xw.x", "vec2.zz", v2+".zz.x"),
	)
}

// swizzleFew: one offender per rule class plus the two width errors named by the property.
func swizzleFew(v2, v3, v4 string) []C11Off {
	return cat(offs("swizzle-mixed", "xg", v4+".xg.x"), offs("swizzle-too-wide", "xyzwx", v4+".xyzwx.x"),
		offs("swizzle-beyond-width", "vec2.z", v2+".z", "vec3.w", v3+".w", "vec2.xz", v2+".xz.x"))
}

var C11Groups = []C11Group{
	// ---- undeclared identifier
	{Name: "ident", Kind: 'e', Needs: []string{"oth", "SO"}, Control: "acc", OrderDep: true,
		Offs: offs("undeclared-identifier", "unknown", "zz_undeclared", "other-fn-let", "oth_let", "other-fn-var", "oth_var", "other-fn-param", "oth_param", "other-fn-inner-let", "oth_inner", "member-name", "mem_a")},
	{Name: "ident-const", Kind: 'e', Needs: []string{"KC", "oth", "SO"}, Control: "KC", OrderDep: true, ConstOK: true, ModOK: true,
		Offs: offs("undeclared-identifier", "unknown", "zz_undeclared", "other-fn-let", "oth_let", "other-fn-var", "oth_var", "other-fn-param", "oth_param", "member-name", "mem_a")},
	// ---- unknown function
	{Name: "unknown-fn", Kind: 'e', Needs: []string{"f1"}, Control: "f1(1)", OrderDep: true,
		Offs: offs("unknown-function", "unknown", "zz_unknown_fn(1)", "unknown-noargs", "zz_unknown_fn()", "variable-called", "acc(1)")},
	{Name: "unknown-fn-const", Kind: 'e', Control: "abs(4)", ConstOK: true, ModOK: true,
		Offs: offs("unknown-function", "unknown", "zz_unknown_fn(4)")},
	// ---- user calls: argument count and types
	{Name: "call-i32", Kind: 'e', Needs: []string{"f1"}, Control: "f1(1)", OrderDep: true,
		Offs: cat(offs("call-arg-count", "too-few", "f1()", "too-many", "f1(1, 2)"),
			offs("call-arg-type", "i32<-f32", "f1(1.5f)", "i32<-u32", "f1(1u)", "i32<-bool", "f1(true)", "i32<-vec2i", "f1(vec2<i32>(1, 2))", "i32<-absfloat", "f1(1.5)"))},
	{Name: "call-i32-f32", Kind: 'e', Needs: []string{"f2"}, Control: "f2(1, 2.0f)", OrderDep: true,
		Offs: cat(offs("call-arg-count", "too-few", "f2(1)", "too-many", "f2(1, 2.0f, 3)"),
			offs("call-arg-type", "i32<-f32", "f2(1.5f, 2.0f)", "f32<-u32", "f2(1, 1u)", "f32<-i32", "f2(1, 3i)", "f32<-bool", "f2(1, true)", "f32<-vec2f", "f2(1, vec2<f32>(1.0, 2.0))"))},
	{Name: "call-vec", Kind: 'e', Light: true, Needs: []string{"fv"}, Control: "fv(vec3<f32>(1.0, 2.0, 3.0))", OrderDep: true,
		Offs: cat(offs("call-arg-count", "too-few", "fv()", "too-many", "fv(vec3<f32>(1.0, 2.0, 3.0), 1.0f)"),
			offs("call-arg-type", "vec3f<-f32", "fv(1.0f)", "vec3f<-vec2f", "fv(vec2<f32>(1.0, 2.0))", "vec3f<-vec3i", "fv(vec3<i32>(1, 2, 3))", "vec3f<-vec4f", "fv(vec4<f32>(1.0, 2.0, 3.0, 4.0))", "vec3f<-bool", "fv(true)"))},
	{Name: "call-struct", Kind: 'e', Light: true, Needs: []string{"fs", "SJ"}, Control: "fs(SI(1, 2))", OrderDep: true,
		Offs: cat(offs("call-arg-count", "too-few", "fs()", "too-many", "fs(SI(1, 2), 1)"),
			offs("call-arg-type", "struct<-i32", "fs(1)", "struct<-other-struct", "fs(SJ(1, 2))", "struct<-bool", "fs(true)"))},
	{Name: "call-ptr", Kind: 'e', Light: true, Needs: []string{"fp"}, Control: "fp(&acc)", OrderDep: true,
		Offs: cat(offs("call-arg-count", "too-few", "fp()", "too-many", "fp(&acc, 1)"),
			offs("call-arg-type", "ptr<-i32", "fp(acc)", "ptr<-literal", "fp(1)"))},
	// ---- unknown struct member
	{Name: "member-global", Kind: 'e', Needs: []string{"gs"}, Control: "gs.a", OrderDep: true,
		Offs: offs("unknown-member", "global", "gs.zz_nomember", "global-other-struct-member", "gs.p")},
	{Name: "member-let", Kind: 'e', Light: true, Needs: []string{"SI"}, Prelude: "let sl = SI(4, 2);", Control: "sl.a", OrderDep: true,
		Offs: offs("unknown-member", "let", "sl.zz_nomember", "let-swizzle-like", "sl.x")},
	{Name: "member-var", Kind: 'e', Light: true, Needs: []string{"SI"}, Prelude: "var sv = SI(4, 2);", Control: "sv.a", OrderDep: true,
		Offs: offs("unknown-member", "var", "sv.zz_nomember", "var-through-pointer", "(*(&sv)).zz_nomember")},
	{Name: "member-param", Kind: 'e', Light: true, Needs: []string{"SI"}, Param: "ps: SI", Arg: "SI(4, 2)", Control: "ps.a", OrderDep: true,
		Offs: offs("unknown-member", "param", "ps.zz_nomember")},
	{Name: "member-returned", Kind: 'e', Light: true, Needs: []string{"mk"}, Control: "mk().a", OrderDep: true,
		Offs: offs("unknown-member", "returned", "mk().zz_nomember")},
	{Name: "member-ctor", Kind: 'e', Light: true, Needs: []string{"SI"}, Control: "SI(4, 2).a", OrderDep: true, ConstOK: true, ModOK: true,
		Offs: offs("unknown-member", "constructed", "SI(4, 2).zz_nomember")},
	{Name: "member-nested", Kind: 'e', Light: true, Needs: []string{"SN"}, Prelude: "var sn = SN(SI(4, 2), 3);", Control: "sn.inner.a", OrderDep: true,
		Offs: offs("unknown-member", "nested-inner", "sn.inner.zz_nomember", "nested-outer", "sn.zz_nomember.a")},
	// ---- swizzles
	{Name: "swizzle-let", Kind: 'e', Light: true, Prelude: c11VecPrelude, Control: "(v4.xy.x + v2.y + v3.z + v4.w)", Offs: swizzleOffs("v2", "v3", "v4")},
	{Name: "swizzle-var", Kind: 'e', Light: true, Prelude: c11VecVarPrelude, Control: "(w4.xy.x + w2.y + w3.z + w4.a)", Offs: swizzleFew("w2", "w3", "w4")},
	{Name: "swizzle-global", Kind: 'e', Light: true, Needs: []string{"gv2", "gv3", "gv4"}, Control: "(gv4.xy.x + gv2.y + gv3.z)", OrderDep: true, Offs: swizzleFew("gv2", "gv3", "gv4")},
	{Name: "swizzle-param", Kind: 'e', Light: true, Param: "pv2: vec2<i32>, pv3: vec3<i32>, pv4: vec4<i32>", Arg: "vec2<i32>(4, 2), vec3<i32>(4, 2, 3), vec4<i32>(4, 2, 3, 1)", Control: "(pv4.xy.x + pv2.y + pv3.z)", Offs: swizzleFew("pv2", "pv3", "pv4")},
	{Name: "swizzle-const", Kind: 'e', Light: true, Control: "vec4<i32>(4, 2, 3, 1).xy.x", ConstOK: true, ModOK: true, Offs: swizzleOffs("vec2<i32>(4, 2)", "vec3<i32>(4, 2, 3)", "vec4<i32>(4, 2, 3, 1)")},
	// ---- constant division by zero
	{Name: "const-div-literal", Kind: 'e', Light: true, Control: "(8 / 2)", ConstOK: true, ModOK: true,
		Offs: offs("const-div-zero", "i32-div", "(1 / 0)", "i32-rem", "(1 % 0)", "i32-div-folded-zero", "(1 / (2 - 2))", "i32-rem-folded-zero", "(1 % (2 - 2))", "i32-suffixed-div", "(1i / 0i)", "i32-suffixed-rem", "(1i % 0i)", "u32-div", "i32(1u / 0u)", "u32-rem", "i32(1u % 0u)")},
	{Name: "const-div-module-const", Kind: 'e', Needs: []string{"KC", "KZ"}, Control: "(KC / 1)", ConstOK: true, ModOK: true, OrderDep: true,
		Offs: offs("const-div-zero", "module-const-div", "(KC / KZ)", "module-const-rem", "(KC % KZ)", "literal-by-module-const", "(1 / KZ)")},
	{Name: "const-div-local-const", Kind: 'e', Light: true, Prelude: "const LZ = 0;\nconst LC = 4;", Control: "(LC / 1)", ConstOK: true,
		Offs: offs("const-div-zero", "local-const-div", "(LC / LZ)", "local-const-rem", "(LC % LZ)")},
	// ---- statements
	{Name: "must-use", Kind: 's', Needs: []string{"mu"}, Control: "_ = mu(1);", OrderDep: true,
		Offs: offs("must-use-discarded", "user-fn", "mu(1);", "builtin", "min(1, 2);")},
	{Name: "const-assert", Kind: 's', ModOK: true, Control: "const_assert 2 > 1;",
		Offs: offs("const-assert-false", "false", "const_assert false;", "1>2", "const_assert 1 > 2;", "parenthesised", "const_assert(1 == 2);")},
	{Name: "const-assert-const", Kind: 's', ModOK: true, Needs: []string{"KC"}, Control: "const_assert KC == 4;", OrderDep: true,
		Offs: offs("const-assert-false", "module-const", "const_assert KC == 1;")},
	{Name: "stmt-call", Kind: 's', Needs: []string{"sink"}, Control: "sink(1);", OrderDep: true,
		Offs: cat(offs("call-arg-count", "stmt-too-few", "sink();", "stmt-too-many", "sink(1, 2);"),
			offs("call-arg-type", "stmt-i32<-f32", "sink(1.5f);", "stmt-i32<-bool", "sink(true);"),
			offs("unknown-function", "stmt-unknown", "zz_unknown_fn(1);"))},
	{Name: "stmt-ident", Kind: 's', Needs: []string{"oth"}, Control: "acc = 1;", OrderDep: true,
		Offs: offs("undeclared-identifier", "assign-target", "zz_undeclared = 1;", "increment-target", "zz_undeclared++;", "compound-target", "zz_undeclared += 1;", "other-fn-var-target", "oth_var = 1;", "index-target", "zz_undeclared[0] = 1;", "member-target", "zz_undeclared.a = 1;")},
	// ---- types
	{Name: "type", Kind: 't', Control: "array<i32, 4>",
		Offs: cat(offs("unknown-type", "plain", "ZzUnknownType", "array-element", "array<ZzUnknownType, 4>", "vector-element", "vec2<ZzUnknownType>"),
			offs("array-size-zero", "literal", "array<i32, 0>", "literal-u32", "array<i32, 0u>", "nested-element", "array<array<i32, 0>, 2>", "expression", "array<i32, 1 - 1>"),
			offs("array-size-negative", "literal", "array<i32, -1>", "expression", "array<i32, 1 - 2>", "nested-element", "array<array<i32, -1>, 2>"))},
	{Name: "type-const-size", Kind: 't', Needs: []string{"KC", "KZ", "KN"}, Control: "array<i32, KC>", OrderDep: true,
		Offs: cat(offs("array-size-zero", "module-const", "array<i32, KZ>", "module-const-expression", "array<i32, KC - 4>"),
			offs("array-size-negative", "module-const", "array<i32, KN>"))},
}

// ---------------------------------------------------------------- rendering

// C11Prog is one rendered program.
type C11Prog struct {
	Src    string
	Site   int // byte offset of the construct placed in the hole
	Lo, Hi int // extent [Lo,Hi) of the module-scope declaration containing the construct
}

const (
	C11FnEntry        = 0
	C11FnHelperBefore = 1 // helper declared before its caller
	C11FnHelperAfter  = 2 // helper declared after its caller
)

var C11FnKindNames = []string{"entry", "helper-before-caller", "helper-after-caller"}
var C11OrderNames = []string{"decls-before", "decls-after"}

func indent(s, pad string) string {
	if s == "" {
		return ""
	}
	ls := strings.Split(s, "\n")
	for i := range ls {
		if ls[i] != "" {
			ls[i] = pad + ls[i]
		}
	}
	return strings.Join(ls, "\n")
}

// C11Applicable: does (form, group, fnkind) make sense at all (before any control is compiled)?
func C11Applicable(f *C11Form, g *C11Group, fnk int) bool {
	if f.Kind != g.Kind {
		return false
	}
	if f.Const && !g.ConstOK {
		return false
	}
	if fnk == C11FnEntry && (f.HelperOnly || g.Param != "") {
		return false
	}
	return true
}

// C11Render assembles the program: construct `text` placed in the hole of form f, the statement at
// position pos (0 first, 1 middle, 2 last) of the statement list of context c, inside a function of
// kind fnk, with the support declarations before (ord 0) or after (ord 1) the functions.
func C11Render(f *C11Form, c *C11Ctx, pos, fnk, ord int, g *C11Group, text string) C11Prog {
	if f.Last {
		pos = 2
	}
	hole := strings.Index(f.Text, "§")
	stmt := f.Text[:hole] + text + f.Text[hole+len("§"):]
	fill := []string{"acc += 1;", "acc += 2;"}
	var list []string
	switch pos {
	case 0:
		list = []string{stmt, fill[0], fill[1]}
	case 1:
		list = []string{fill[0], stmt, fill[1]}
	default:
		list = []string{fill[0], fill[1], stmt}
	}
	var body strings.Builder
	w := func(s string) {
		if s != "" {
			body.WriteString(indent(s, "    "))
			body.WriteString("\n")
		}
	}
	var head, tail string
	if fnk == C11FnEntry {
		head = "@compute @workgroup_size(1)\nfn main() {\n"
		w("var acc = 1;")
		tail = "}"
	} else {
		p := ""
		if g.Param != "" {
			p = ", " + g.Param
		}
		head = "fn host(x: i32" + p + ") -> i32 {\n"
		w("var acc = x;")
		tail = "    return acc;\n}"
	}
	w(f.Prelude)
	w(g.Prelude)
	w(c.Pre)
	siteInBody := -1
	for i, s := range list {
		if (pos == 0 && i == 0) || (pos == 1 && i == 1) || (pos >= 2 && i == 2) {
			// offset of the construct: the statement is indented by 8 on every line; the hole is on
			// the line it is on, so compute it from the rendered text
			r := indent(s, "        ")
			// number of pad bytes inserted before the hole = 8 * (number of non-empty lines up to and including the hole's line)
			pre := f.Text[:hole]
			lines := strings.Count(pre, "\n") + 1
			siteInBody = body.Len() + len(pre) + 8*lines
			body.WriteString(r)
			body.WriteString("\n")
			continue
		}
		body.WriteString(indent(s, "        "))
		body.WriteString("\n")
	}
	w(c.Post)
	hostDecl := head + body.String() + tail
	siteInHost := len(head) + siteInBody

	var fns []string
	hostIdx := 0
	switch fnk {
	case C11FnEntry:
		fns = []string{hostDecl}
	case C11FnHelperBefore, C11FnHelperAfter:
		a := "1"
		if g.Arg != "" {
			a += ", " + g.Arg
		}
		mainDecl := "@compute @workgroup_size(1)\nfn main() {\n    _ = host(" + a + ");\n}"
		if fnk == C11FnHelperBefore {
			fns = []string{hostDecl, mainDecl}
		} else {
			fns = []string{mainDecl, hostDecl}
			hostIdx = 1
		}
	}
	needs := append(append([]string{}, f.Needs...), g.Needs...)
	sup := c11SupportList(needs, ord == 1)
	var decls []string
	if ord == 0 {
		decls = append(append(decls, sup...), fns...)
		hostIdx += len(sup)
	} else {
		decls = append(append(decls, fns...), sup...)
	}
	var sb strings.Builder
	var p C11Prog
	for i, d := range decls {
		if i == hostIdx {
			p.Lo = sb.Len()
			p.Site = p.Lo + siteInHost
			p.Hi = p.Lo + len(d)
		}
		sb.WriteString(d)
		sb.WriteString("\n\n")
	}
	p.Src = sb.String()
	return p
}
