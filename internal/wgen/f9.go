package wgen

import (
	"fmt"
	"sort"
	"strings"
	"sync"
)

// F9: statement-lowered builtins x compaction triggers.
//
// WGSL builtins whose lowering is an IR *statement* that carries expression handles (atomic*,
// textureStore, textureAtomic*, workgroupUniformLoad, subgroupBallot, the subgroup collective and
// gather operations, the quad operations, the barriers, the ray-query calls, user function calls with
// and without result) are written
//   - for every operand type the builtin admits (scalar / vector, i32 / u32 / f32 / bool) and every
//     pointer shape of its memory operand (plain global, struct member, constant index, dynamic index,
//     pointer `let`), in storage and workgroup space,
//   - with operands taken from `let`s (mode L), written inline in the call (mode I), or with the whole
//     call inline in the statement that consumes its result (mode X),
//   - next to a *compaction trigger*: a construct whose lowering leaves expressions in the function's
//     arena that a compaction pass removes (constant-index access, unused let, phony assignment,
//     const-foldable expression, swizzle of a constructor, discarded call result, function-scope
//     const, member of a constructed struct, unused local variable), placed before the operation (B),
//     between its operand lets and the call (P), after the call and before the use of its result (A),
//     between two different operations (M), outside the enclosing compound statement (O), or absent (Z),
//   - in the entry point, in a helper function, and nested in if / else / for / continuing (with
//     break-if) / switch case / switch default / block bodies (all under uniform conditions).
//
// Programs are text (the AST does not model textures, directives or pointers to atomics); they are
// structural-only (NoExec). Names are fixed by construction so that an oracle can find the operation:
// operand lets of operation k are a<k>, b<k>, c<k> (pointer let p<k>), its result is r<k>; Case.Tags
// carries "f9fn=<function holding the body>" and one "f9op=<k>:<builtin>:<operands,>:<result>" per
// operation.

type f9Ty struct {
	S string // u32 i32 f32 bool
	N int    // 1 = scalar
}

func (t f9Ty) String() string {
	if t.N <= 1 {
		return t.S
	}
	return fmt.Sprintf("vec%d<%s>", t.N, t.S)
}

func (t f9Ty) tag() string {
	if t.N <= 1 {
		return t.S
	}
	return fmt.Sprintf("v%d%s", t.N, t.S)
}

// f9Scalar: a run-time scalar expression over the function parameters lid: u32 and q: vec3<u32>.
func f9Scalar(s string, v int) string {
	v &= 3
	switch s {
	case "u32":
		return []string{"lid + 1u", "q.y ^ 2u", "lid * 3u", "q.y + 5u"}[v]
	case "i32":
		return []string{"i32(lid) - 3i", "i32(q.y) + 1i", "i32(lid) * 2i", "7i - i32(q.y)"}[v]
	case "f32":
		return []string{"f32(lid) * 0.5", "f32(q.y) + 1.5", "f32(lid) - 2.25", "1.0 / (f32(q.y) + 1.0)"}[v]
	}
	return []string{"lid > 1u", "(q.y & 1u) == 1u", "lid != q.y", "q.y < 3u"}[v]
}

func f9Value(t f9Ty, v int) string {
	if t.N <= 1 {
		return f9Scalar(t.S, v)
	}
	lit := map[string]string{"u32": "7u", "i32": "-2i", "f32": "0.25", "bool": "true"}[t.S]
	switch t.N {
	case 2:
		return fmt.Sprintf("%s(%s, %s)", t, f9Scalar(t.S, v), f9Scalar(t.S, v+1))
	case 3:
		return fmt.Sprintf("%s(%s, %s, %s)", t, f9Scalar(t.S, v), f9Scalar(t.S, v+1), lit)
	}
	return fmt.Sprintf("%s(%s, %s, %s, %s)", t, f9Scalar(t.S, v), lit, f9Scalar(t.S, v+1), lit)
}

// f9ToU32: an u32-valued expression that uses r (of type t) exactly once.
func f9ToU32(t f9Ty, r string) string {
	if t.N > 1 {
		r += ".x"
	}
	if t.S == "u32" {
		return r
	}
	return "u32(" + r + ")"
}

type f9Arg struct {
	Ty  f9Ty
	Lit string // fixed text written in the call in every mode (constant-expression operands)
	Var int    // which run-time expression
	Raw string // run-time expression given explicitly (%K = instance number)
}

type f9Op struct {
	Builtin string
	Kind    string // atomic texstore texatomic wgul ballot collective gather barrier rayquery call
	Variant string
	Std     bool // standard WGSL (eligible for the shared valid-program families)
	Enables []string
	Globals []string // names in f9GlobalDecl
	Structs []string
	Helpers []string
	Locals  []string // declarations before the operand lets (%K = instance number)
	Handle  string   // first argument: pointer or texture (%K = instance number); "" none
	PtrLet  bool     // mode L binds Handle to `let p<k>`
	Args    []f9Arg
	Res     func(r string) string // u32 expression using the result once; nil: no result
	Discard bool                  // call used as a statement although it has a result
	Post    []string              // statements after the call (%K)
}

func (o *f9Op) name() string { return o.Builtin + "/" + o.Variant }

func (o *f9Op) hasOperands() bool {
	for _, a := range o.Args {
		if a.Lit == "" {
			return true
		}
	}
	return o.PtrLet
}

var f9GlobalDecl = map[string]string{
	"sau":  "var<storage, read_write> sau: atomic<u32>;",
	"sai":  "var<storage, read_write> sai: atomic<i32>;",
	"sa":   "var<storage, read_write> sa: SA;",
	"wau":  "var<workgroup> wau: atomic<u32>;",
	"wai":  "var<workgroup> wai: atomic<i32>;",
	"wsa":  "var<workgroup> wsa: SA;",
	"wu":   "var<workgroup> wu: u32;",
	"wi":   "var<workgroup> wi: i32;",
	"wf":   "var<workgroup> wf: f32;",
	"wb":   "var<workgroup> wb: bool;",
	"wv4":  "var<workgroup> wv4: vec4<f32>;",
	"wv3i": "var<workgroup> wv3i: vec3<i32>;",
	"warr": "var<workgroup> warr: array<u32, 4>;",
	"wst":  "var<workgroup> wst: WS;",
	"wat":  "var<workgroup> wat: atomic<u32>;",
	"acc":  "var acc: acceleration_structure;",
}

var f9StructDecl = map[string]string{
	"SA": "struct SA { au: atomic<u32>, ai: atomic<i32>, arru: array<atomic<u32>, 4>, arri: array<atomic<i32>, 4> }",
	"WS": "struct WS { a: u32, v: vec2<f32> }",
	"P2": "struct P2 { a: u32, b: u32 }",
}

var f9HelperDecl = map[string]string{
	"hres":  "fn hres(x: u32) -> u32 {\n  return x * 2u + 1u;\n}",
	"hvoid": "fn hvoid(x: u32) {\n  tso[x & 7u] = x;\n}",
	"hadd":  "fn hadd(x: u32, y: vec2<f32>) -> vec2<f32> {\n  return y * f32(x);\n}",
	"hptr":  "fn hptr(p: ptr<function, u32>) {\n  *p = *p + 3u;\n}",
	"hpres": "fn hpres(p: ptr<function, u32>, y: i32) -> i32 {\n  *p = *p + 1u;\n  return y - 1i;\n}",
}

func f9TexName(prefix, dim, k string) string {
	return prefix + "_" + strings.ReplaceAll(dim, "_", "") + "_" + k
}

func init() {
	for _, dim := range []string{"1d", "2d", "2d_array", "3d"} {
		for k, f := range map[string]string{"f": "rgba8unorm", "u": "rgba32uint", "i": "rgba32sint"} {
			n := f9TexName("ts", dim, k)
			f9GlobalDecl[n] = fmt.Sprintf("var %s: texture_storage_%s<%s, write>;", n, dim, f)
		}
		for k, f := range map[string]string{"u": "r32uint", "i": "r32sint"} {
			n := f9TexName("ta", dim, k)
			f9GlobalDecl[n] = fmt.Sprintf("var %s: texture_storage_%s<%s, atomic>;", n, dim, f)
		}
	}
}

func f9Types(kinds []string, thorough bool) []f9Ty {
	var out []f9Ty
	for _, k := range kinds {
		if thorough || k == "bool" {
			for n := 1; n <= 4; n++ {
				if k == "bool" && n > 1 {
					continue
				}
				out = append(out, f9Ty{k, n})
			}
			continue
		}
		// quick: the scalar and one vector width per kind (widths 2, 3, 4 spread over the kinds)
		out = append(out, f9Ty{k, 1})
		out = append(out, f9Ty{k, map[string]int{"f32": 2, "i32": 3, "u32": 4}[k]})
	}
	return out
}

func f9Ops(thorough bool) []*f9Op {
	var ops []*f9Op
	add := func(o *f9Op) { ops = append(ops, o) }
	sub := []string{"subgroups"}

	// ---- atomics
	type ptr struct {
		name, space, expr string
		globals, structs  []string
		plet              bool
	}
	for _, s := range []string{"u32", "i32"} {
		x := s[:1]
		ptrs := []ptr{
			{"plain", "storage", "&sa" + x, []string{"sa" + x}, nil, false},
			{"member", "storage", "&sa.a" + x, []string{"sa"}, []string{"SA"}, false},
			{"cidx", "storage", "&sa.arr" + x + "[1]", []string{"sa"}, []string{"SA"}, false},
			{"didx", "storage", "&sa.arr" + x + "[lid & 3u]", []string{"sa"}, []string{"SA"}, false},
			{"plet", "storage", "&sa.a" + x, []string{"sa"}, []string{"SA"}, true},
			{"plain", "workgroup", "&wa" + x, []string{"wa" + x}, nil, false},
			{"didx", "workgroup", "&wsa.arr" + x + "[lid & 3u]", []string{"wsa"}, []string{"SA"}, false},
		}
		if thorough {
			ptrs = append(ptrs,
				ptr{"cidx", "workgroup", "&wsa.arr" + x + "[2]", []string{"wsa"}, []string{"SA"}, false},
				ptr{"member", "workgroup", "&wsa.a" + x, []string{"wsa"}, []string{"SA"}, false},
				ptr{"plet", "workgroup", "&wsa.arr" + x + "[lid & 3u]", []string{"wsa"}, []string{"SA"}, true})
		}
		t := f9Ty{s, 1}
		for pi, p := range ptrs {
			mk := func(b string, args []f9Arg, res func(string) string, discard bool) {
				v := s + "/" + p.space + "/" + p.name
				if discard {
					v += "/discard"
				}
				add(&f9Op{Builtin: b, Kind: "atomic", Variant: v, Std: true, Globals: p.globals, Structs: p.structs,
					Handle: p.expr, PtrLet: p.plet, Args: args, Res: res, Discard: discard})
			}
			resT := func(r string) string { return f9ToU32(t, r) }
			// quick: every function on two shapes (plain storage global, dynamically indexed workgroup
			// array); Add / CompareExchangeWeak / Load / Store on every shape (the function is an
			// enumerator of the statement, the shape decides which expressions the pointer is made of)
			wide := pi == 0 || pi == 6 || thorough
			for _, b := range []string{"atomicAdd", "atomicSub", "atomicAnd", "atomicOr", "atomicXor", "atomicMin", "atomicMax", "atomicExchange"} {
				if !wide && b != "atomicAdd" {
					continue
				}
				mk(b, []f9Arg{{Ty: t}}, resT, false)
				if wide {
					mk(b, []f9Arg{{Ty: t}}, resT, true)
				}
			}
			cx := func(r string) string { return f9ToU32(t, r+".old_value") }
			mk("atomicCompareExchangeWeak", []f9Arg{{Ty: t}, {Ty: t, Var: 1}}, cx, false)
			if wide {
				mk("atomicCompareExchangeWeak", []f9Arg{{Ty: t}, {Ty: t, Var: 1}}, cx, true)
			}
			mk("atomicLoad", nil, resT, false)
			mk("atomicStore", []f9Arg{{Ty: t}}, nil, false)
		}
	}

	// ---- textureStore
	for _, dim := range []string{"1d", "2d", "2d_array", "3d"} {
		for _, fk := range []string{"f", "u", "i"} {
			for _, ck := range []string{"u32", "i32"} {
				n := map[string]int{"1d": 1, "2d": 2, "2d_array": 2, "3d": 3}[dim]
				vt := f9Ty{map[string]string{"f": "f32", "u": "u32", "i": "i32"}[fk], 4}
				args := []f9Arg{{Ty: f9Ty{ck, n}}}
				if dim == "2d_array" {
					args = append(args, f9Arg{Ty: f9Ty{ck, 1}, Var: 2})
				}
				args = append(args, f9Arg{Ty: vt, Var: 1})
				g := f9TexName("ts", dim, fk)
				add(&f9Op{Builtin: "textureStore", Kind: "texstore", Variant: dim + "/" + vt.S + "/" + ck, Std: true, Globals: []string{g}, Handle: g, Args: args})
			}
		}
	}

	// ---- textureAtomic* (texture_storage_*<r32uint|r32sint, atomic>: a naga/wgpu extension)
	for _, b := range []string{"textureAtomicMin", "textureAtomicMax", "textureAtomicAdd", "textureAtomicAnd", "textureAtomicOr", "textureAtomicXor"} {
		for _, dim := range []string{"1d", "2d", "2d_array", "3d"} {
			if !thorough && dim != "2d" && b != "textureAtomicAdd" {
				continue
			}
			for _, fk := range []string{"u", "i"} {
				for _, ck := range []string{"u32", "i32"} {
					n := map[string]int{"1d": 1, "2d": 2, "2d_array": 2, "3d": 3}[dim]
					vt := f9Ty{map[string]string{"u": "u32", "i": "i32"}[fk], 1}
					args := []f9Arg{{Ty: f9Ty{ck, n}}}
					if dim == "2d_array" {
						args = append(args, f9Arg{Ty: f9Ty{ck, 1}, Var: 2})
					}
					args = append(args, f9Arg{Ty: vt, Var: 1})
					g := f9TexName("ta", dim, fk)
					add(&f9Op{Builtin: b, Kind: "texatomic", Variant: dim + "/" + vt.S + "/" + ck, Globals: []string{g}, Handle: g, Args: args})
				}
			}
		}
	}

	// ---- workgroupUniformLoad
	wg := func(variant, handle string, globals, structs []string, plet bool, res func(string) string, std bool) {
		add(&f9Op{Builtin: "workgroupUniformLoad", Kind: "wgul", Variant: variant, Std: std, Globals: globals, Structs: structs, Handle: handle, PtrLet: plet, Res: res})
	}
	wg("u32/plain", "&wu", []string{"wu"}, nil, false, func(r string) string { return r }, true)
	wg("i32/plain", "&wi", []string{"wi"}, nil, false, func(r string) string { return "u32(" + r + ")" }, true)
	wg("f32/plain", "&wf", []string{"wf"}, nil, false, func(r string) string { return "u32(" + r + ")" }, true)
	wg("bool/plain", "&wb", []string{"wb"}, nil, false, func(r string) string { return "u32(" + r + ")" }, true)
	wg("v4f32/plain", "&wv4", []string{"wv4"}, nil, false, func(r string) string { return "u32(" + r + ".x)" }, true)
	wg("v3i32/plain", "&wv3i", []string{"wv3i"}, nil, false, func(r string) string { return "u32(" + r + ".z)" }, true)
	wg("array/plain", "&warr", []string{"warr"}, nil, false, func(r string) string { return r + "[lid & 3u]" }, true)
	wg("struct/plain", "&wst", []string{"wst"}, []string{"WS"}, false, func(r string) string { return r + ".a" }, true)
	wg("u32/cidx", "&warr[1]", []string{"warr"}, nil, false, func(r string) string { return r }, true)
	wg("u32/didx", "&warr[cfg.m & 3u]", []string{"warr"}, nil, false, func(r string) string { return r }, true)
	wg("v2f32/member", "&wst.v", []string{"wst"}, []string{"WS"}, false, func(r string) string { return "u32(" + r + ".y)" }, true)
	wg("u32/plet", "&warr[cfg.m & 3u]", []string{"warr"}, nil, true, func(r string) string { return r }, true)
	wg("atomic/plain", "&wat", []string{"wat"}, nil, false, func(r string) string { return r }, true)

	// ---- subgroup ballot
	v4u := func(r string) string { return r + ".x" }
	add(&f9Op{Builtin: "subgroupBallot", Kind: "ballot", Variant: "pred", Std: true, Enables: sub, Args: []f9Arg{{Ty: f9Ty{"bool", 1}}}, Res: v4u})
	add(&f9Op{Builtin: "subgroupBallot", Kind: "ballot", Variant: "nopred", Std: true, Enables: sub, Res: v4u})

	// ---- subgroup collective operations
	res := func(t f9Ty) func(string) string { return func(r string) string { return f9ToU32(t, r) } }
	for _, b := range []string{"subgroupAdd", "subgroupMul", "subgroupMin", "subgroupMax", "subgroupExclusiveAdd", "subgroupExclusiveMul", "subgroupInclusiveAdd", "subgroupInclusiveMul"} {
		for _, t := range f9Types([]string{"u32", "i32", "f32"}, thorough) {
			add(&f9Op{Builtin: b, Kind: "collective", Variant: t.tag(), Std: true, Enables: sub, Args: []f9Arg{{Ty: t}}, Res: res(t)})
		}
	}
	for _, b := range []string{"subgroupAnd", "subgroupOr", "subgroupXor"} {
		for _, t := range f9Types([]string{"u32", "i32"}, thorough) {
			add(&f9Op{Builtin: b, Kind: "collective", Variant: t.tag(), Std: true, Enables: sub, Args: []f9Arg{{Ty: t}}, Res: res(t)})
		}
	}
	for _, b := range []string{"subgroupAll", "subgroupAny"} {
		t := f9Ty{"bool", 1}
		add(&f9Op{Builtin: b, Kind: "collective", Variant: "bool", Std: true, Enables: sub, Args: []f9Arg{{Ty: t}}, Res: res(t)})
	}

	// ---- subgroup gather and quad operations
	u1 := f9Ty{"u32", 1}
	i1 := f9Ty{"i32", 1}
	for _, t := range f9Types([]string{"u32", "i32", "f32"}, thorough) {
		g := func(b, variant string, extra ...f9Arg) {
			v := t.tag()
			if variant != "" {
				v += "/" + variant
			}
			add(&f9Op{Builtin: b, Kind: "gather", Variant: v, Std: true, Enables: sub, Args: append([]f9Arg{{Ty: t}}, extra...), Res: res(t)})
		}
		g("subgroupBroadcastFirst", "")
		g("subgroupBroadcast", "u32", f9Arg{Ty: u1, Lit: "2u"})
		g("subgroupShuffle", "u32", f9Arg{Ty: u1, Raw: "q.y & 3u"})
		g("subgroupShuffleXor", "u32", f9Arg{Ty: u1, Raw: "lid & 1u"})
		g("subgroupShuffleUp", "u32", f9Arg{Ty: u1, Raw: "q.z & 1u"})
		g("subgroupShuffleDown", "u32", f9Arg{Ty: u1, Raw: "(q.z + 1u) & 1u"})
		g("quadBroadcast", "u32", f9Arg{Ty: u1, Lit: "1u"})
		g("quadSwapX", "")
		g("quadSwapY", "")
		g("quadSwapDiagonal", "")
		if t.N == 1 && t.S == "u32" {
			g("subgroupBroadcast", "i32", f9Arg{Ty: i1, Lit: "3i"})
			g("subgroupBroadcast", "const", f9Arg{Ty: u1, Lit: "LANE"})
			g("subgroupShuffle", "i32", f9Arg{Ty: i1, Raw: "i32(q.y & 3u)"})
			g("quadBroadcast", "i32", f9Arg{Ty: i1, Lit: "2i"})
		}
	}

	// ---- barriers
	add(&f9Op{Builtin: "workgroupBarrier", Kind: "barrier", Variant: "-", Std: true})
	add(&f9Op{Builtin: "storageBarrier", Kind: "barrier", Variant: "-", Std: true})
	add(&f9Op{Builtin: "textureBarrier", Kind: "barrier", Variant: "-", Std: true})
	add(&f9Op{Builtin: "subgroupBarrier", Kind: "barrier", Variant: "-", Std: true, Enables: sub})

	// ---- ray queries (naga/wgpu extension)
	rq := []string{"wgpu_ray_query"}
	rqInit := "rayQueryInitialize(&rq%K, acc, RayDesc(4u, 255u, 0.1, 100.0, vec3<f32>(0.0), vec3<f32>(0.0, 1.0, 0.0)));"
	add(&f9Op{Builtin: "rayQueryInitialize", Kind: "rayquery", Variant: "-", Enables: rq, Globals: []string{"acc"}, Locals: []string{"var rq%K: ray_query;"}, Handle: "&rq%K",
		Args: []f9Arg{{Lit: "acc"}, {Raw: "RayDesc(4u, 255u, 0.1, 100.0, vec3<f32>(f32(lid)), vec3<f32>(0.0, 1.0, 0.0))"}},
		Post: []string{"out[lid + 256u] = rayQueryGetCommittedIntersection(&rq%K).kind;"}})
	add(&f9Op{Builtin: "rayQueryProceed", Kind: "rayquery", Variant: "-", Enables: rq, Globals: []string{"acc"}, Locals: []string{"var rq%K: ray_query;", rqInit}, Handle: "&rq%K",
		Res: func(r string) string { return "u32(" + r + ")" }})
	add(&f9Op{Builtin: "rayQueryGenerateIntersection", Kind: "rayquery", Variant: "-", Enables: rq, Globals: []string{"acc"}, Locals: []string{"var rq%K: ray_query;", rqInit}, Handle: "&rq%K",
		Args: []f9Arg{{Ty: f9Ty{"f32", 1}}}, Post: []string{"out[lid + 256u] = rayQueryGetCandidateIntersection(&rq%K).kind;"}})
	add(&f9Op{Builtin: "rayQueryConfirmIntersection", Kind: "rayquery", Variant: "-", Enables: rq, Globals: []string{"acc"}, Locals: []string{"var rq%K: ray_query;", rqInit}, Handle: "&rq%K"})
	add(&f9Op{Builtin: "rayQueryTerminate", Kind: "rayquery", Variant: "-", Enables: rq, Globals: []string{"acc"}, Locals: []string{"var rq%K: ray_query;", rqInit}, Handle: "&rq%K"})

	// ---- user function calls
	v2f := f9Ty{"f32", 2}
	add(&f9Op{Builtin: "hres", Kind: "call", Variant: "result", Std: true, Helpers: []string{"hres"}, Args: []f9Arg{{Ty: u1}}, Res: res(u1)})
	add(&f9Op{Builtin: "hres", Kind: "call", Variant: "result/discard", Std: true, Helpers: []string{"hres"}, Args: []f9Arg{{Ty: u1}}, Res: res(u1), Discard: true})
	add(&f9Op{Builtin: "hres", Kind: "call", Variant: "nested", Std: true, Helpers: []string{"hres"}, Args: []f9Arg{{Ty: u1, Raw: "hres(lid + 2u)"}}, Res: res(u1)})
	add(&f9Op{Builtin: "hvoid", Kind: "call", Variant: "void", Std: true, Helpers: []string{"hvoid"}, Args: []f9Arg{{Ty: u1}}})
	add(&f9Op{Builtin: "hadd", Kind: "call", Variant: "two-args", Std: true, Helpers: []string{"hadd"}, Args: []f9Arg{{Ty: u1}, {Ty: v2f, Var: 1}}, Res: res(v2f)})
	add(&f9Op{Builtin: "hptr", Kind: "call", Variant: "ptr-arg", Std: true, Helpers: []string{"hptr"}, Locals: []string{"var lv%K = lid + 1u;"}, Handle: "&lv%K",
		Post: []string{"out[lid + 256u] = lv%K;"}})
	add(&f9Op{Builtin: "hpres", Kind: "call", Variant: "ptr-arg-result", Std: true, Helpers: []string{"hpres"}, Locals: []string{"var lv%K = lid + 1u;"}, Handle: "&lv%K",
		Args: []f9Arg{{Ty: i1}}, Res: res(i1), Post: []string{"out[lid + 256u] = lv%K;"}})
	return ops
}

// ---------------------------------------------------------------- triggers, placements, positions

type f9Trigger struct {
	Name    string
	Lines   []string
	Helpers []string
	Structs []string
}

var f9Triggers = []f9Trigger{
	{Name: "cidx", Lines: []string{"let t = buf[2];", "tso[lid] = t;"}},
	{Name: "ulet", Lines: []string{"let t = lid * 3u + 1u;"}},
	{Name: "uarith", Lines: []string{"_ = lid * 3u + 1u;"}},
	{Name: "cfold", Lines: []string{"let t = (2u + 3u) * 4u;", "tso[lid] = t;"}},
	{Name: "swz", Lines: []string{"let t = vec4<u32>(1u, 2u, 3u, 4u).zw;", "tso[lid] = t.x;"}},
	{Name: "swzd", Lines: []string{"let t = vec4<u32>(lid, 2u, 3u, 4u).zw;", "tso[lid] = t.y;"}},
	{Name: "ucall", Lines: []string{"hres(lid);"}, Helpers: []string{"hres"}},
	{Name: "lconst", Lines: []string{"const C = 5;", "let t = lid + C;", "tso[lid] = t;"}},
	{Name: "cstruct", Lines: []string{"let t = P2(1u, 2u).b;", "tso[lid] = t;"}, Structs: []string{"P2"}},
	{Name: "uvar", Lines: []string{"var uv = 1u;"}},
}

var f9Placements = []string{"B", "P", "A", "M", "O", "Z"}

var f9Positions = []string{"entry", "helper", "ifthen", "ifelse", "for", "cont", "case", "default", "block", "forif", "ifswitch"}

const f9QuickPositions = 9 // forif / ifswitch (two levels) only in the thorough tier

var f9Modes = []string{"L", "I", "X"}

type f9Desc struct {
	op, op2                int // op2 < 0: none
	trig, place, pos, mode int
}

type f9Inst struct {
	pre, stmt, sink []string
	operands        []string
	result          string
}

func f9K(s string, k int) string { return strings.ReplaceAll(s, "%K", fmt.Sprint(k)) }

// instance renders operation o as the k-th operation of the program.
func (o *f9Op) instance(k int, mode string) f9Inst {
	var in f9Inst
	for _, l := range o.Locals {
		in.pre = append(in.pre, f9K(l, k))
	}
	var args []string
	if o.Handle != "" {
		h := f9K(o.Handle, k)
		if o.PtrLet && mode == "L" {
			n := fmt.Sprintf("p%d", k)
			in.pre = append(in.pre, fmt.Sprintf("let %s = %s;", n, h))
			in.operands = append(in.operands, n)
			h = n
		}
		args = append(args, h)
	}
	names := "abc"
	for j, a := range o.Args {
		if a.Lit != "" {
			args = append(args, a.Lit)
			continue
		}
		e := a.Raw
		if e == "" {
			e = f9Value(a.Ty, a.Var+2*k)
		}
		e = f9K(e, k)
		if mode == "L" {
			n := fmt.Sprintf("%c%d", names[j], k)
			in.pre = append(in.pre, fmt.Sprintf("let %s = %s;", n, e))
			in.operands = append(in.operands, n)
			e = n
		}
		args = append(args, e)
	}
	call := o.Builtin + "(" + strings.Join(args, ", ") + ")"
	idx := "lid"
	if k > 0 {
		idx = fmt.Sprintf("lid + %du", 64*k)
	}
	switch {
	case o.Res == nil || o.Discard:
		in.stmt = []string{call + ";"}
	case mode == "X":
		in.sink = []string{fmt.Sprintf("out[%s] = %s;", idx, o.Res(call))}
	default:
		in.result = fmt.Sprintf("r%d", k)
		in.stmt = []string{fmt.Sprintf("let %s = %s;", in.result, call)}
		in.sink = []string{fmt.Sprintf("out[%s] = %s;", idx, o.Res(in.result))}
	}
	for _, l := range o.Post {
		in.sink = append(in.sink, f9K(l, k))
	}
	return in
}

func f9Indent(lines []string, n int) []string {
	out := make([]string, len(lines))
	for i, l := range lines {
		out[i] = strings.Repeat("  ", n) + l
	}
	return out
}

// f9Wrap places body (and the statements that stay outside the compound statement) at a position;
// it returns the helper function holding the body ("" = the entry point) and the entry point's body.
func f9Wrap(pos string, outer, body []string) (work []string, main []string) {
	in := func(head string, tail ...string) []string {
		out := append(append([]string{}, outer...), head)
		out = append(out, f9Indent(body, 1)...)
		return append(out, tail...)
	}
	switch pos {
	case "entry":
		return nil, append(append([]string{}, outer...), body...)
	case "helper":
		return append(append([]string{}, outer...), body...), []string{"work(lid, q);"}
	case "ifthen":
		return nil, in("if cfg.n > 0u {", "}")
	case "ifelse":
		return nil, in("if cfg.n == 0u {\n  } else {", "}")
	case "for":
		return nil, in("for (var i = 0u; i < cfg.n; i++) {", "}")
	case "cont":
		out := append(append([]string{}, outer...), "var i = 0u;", "loop {", "  continuing {")
		out = append(out, f9Indent(body, 2)...)
		return nil, append(out, "    i++;", "    break if i >= cfg.n;", "  }", "}")
	case "case":
		return nil, in("switch cfg.n {\n  case 1u: {", "  }\n  default: {\n  }\n}")
	case "default":
		return nil, in("switch cfg.n {\n  case 1u, 2u: {\n  }\n  default: {", "  }\n}")
	case "block":
		return nil, in("{", "}")
	case "forif":
		return nil, in("for (var i = 0u; i < cfg.n; i++) {\n  if cfg.m > i {", "  }\n}")
	case "ifswitch":
		return nil, in("if cfg.n > 0u {\n  switch cfg.m {\n  case 3u: {", "  }\n  default: {\n  }\n  }\n}")
	}
	panic("f9 position " + pos)
}

func f9Uniq(xs []string) []string {
	seen := map[string]bool{}
	var out []string
	for _, x := range xs {
		if !seen[x] {
			seen[x] = true
			out = append(out, x)
		}
	}
	return out
}

func f9Build(ops []*f9Op, d f9Desc, family string, index int) *Case {
	o := ops[d.op]
	mode := f9Modes[d.mode]
	place := f9Placements[d.place]
	pos := f9Positions[d.pos]
	used := []*f9Op{o}
	i0 := o.instance(0, mode)
	var trig *f9Trigger
	var tl []string
	if place != "Z" {
		trig = &f9Triggers[d.trig]
		tl = trig.Lines
	}
	var outer, body []string
	cat := func(parts ...[]string) []string {
		var out []string
		for _, p := range parts {
			out = append(out, p...)
		}
		return out
	}
	tags := []string{}
	opTag := func(k int, op *f9Op, in f9Inst) string {
		return fmt.Sprintf("f9op=%d:%s:%s:%s:%s", k, op.Kind, op.Builtin, strings.Join(in.operands, ","), in.result)
	}
	switch place {
	case "B":
		body = cat(tl, i0.pre, i0.stmt, i0.sink)
	case "P":
		body = cat(i0.pre, tl, i0.stmt, i0.sink)
	case "A":
		body = cat(i0.pre, i0.stmt, tl, i0.sink)
	case "M":
		o2 := ops[d.op2]
		used = append(used, o2)
		i1 := o2.instance(1, mode)
		body = cat(i0.pre, i0.stmt, tl, i1.pre, i1.stmt, i0.sink, i1.sink)
		tags = append(tags, opTag(1, o2, i1))
	case "O":
		outer = tl
		body = cat(i0.pre, i0.stmt, i0.sink)
	case "Z":
		body = cat(i0.pre, i0.stmt, i0.sink)
	}
	tags = append(tags, opTag(0, o, i0))
	work, main := f9Wrap(pos, outer, body)
	fn := "main"
	if work != nil {
		fn = "work"
	}
	fkey := "F9/" + o.Kind + "/" + o.Builtin + "/" + mode
	if len(used) > 1 {
		fkey += "+" + used[1].Builtin
	}
	tags = append(tags, "f9fn="+fn, "f9key="+fkey)

	var enables, globals, structs, helpers []string
	std := true
	for _, u := range used {
		enables = append(enables, u.Enables...)
		globals = append(globals, u.Globals...)
		structs = append(structs, u.Structs...)
		helpers = append(helpers, u.Helpers...)
		std = std && u.Std
	}
	if trig != nil {
		structs = append(structs, trig.Structs...)
		helpers = append(helpers, trig.Helpers...)
	}
	enables = f9Uniq(enables)
	sort.Strings(enables)
	var sb strings.Builder
	for _, e := range enables {
		fmt.Fprintf(&sb, "enable %s;\n", e)
	}
	// declarations nothing refers to come first, so that a pass that drops unused types, constants,
	// globals or functions has to renumber every handle the operations carry
	sb.WriteString("struct UnusedS { z: f32 }\nconst UNUSED_C = 7u;\nconst LANE = 2u;\nvar<private> unused_g: u32;\n")
	sb.WriteString("struct Cfg { n: u32, m: u32 }\n")
	for _, s := range f9Uniq(structs) {
		sb.WriteString(f9StructDecl[s] + "\n")
	}
	binding := 0
	bound := func(decl string) {
		if strings.HasPrefix(decl, "var<workgroup>") || strings.HasPrefix(decl, "var<private>") {
			sb.WriteString(decl + "\n")
			return
		}
		fmt.Fprintf(&sb, "@group(0) @binding(%d) %s\n", binding, decl)
		binding++
	}
	bound("var<storage, read_write> buf: array<u32, 8>;")
	bound("var<uniform> cfg: Cfg;")
	bound("var<storage, read_write> out: array<u32>;")
	bound("var<storage, read_write> tso: array<u32>;")
	for _, g := range f9Uniq(globals) {
		bound(f9GlobalDecl[g])
	}
	sb.WriteString("fn unused_fn(x: u32) -> u32 {\n  return x + UNUSED_C;\n}\n")
	for _, h := range f9Uniq(helpers) {
		sb.WriteString(f9HelperDecl[h] + "\n")
	}
	if work != nil {
		sb.WriteString("fn work(lid: u32, q: vec3<u32>) {\n" + strings.Join(f9Indent(work, 1), "\n") + "\n}\n")
	}
	sb.WriteString("@compute @workgroup_size(64)\nfn main(@builtin(local_invocation_index) lid: u32, @builtin(local_invocation_id) q: vec3<u32>) {\n")
	sb.WriteString(strings.Join(f9Indent(main, 1), "\n") + "\n}\n")

	sig := fmt.Sprintf("%s/%s/%s/%s/%s/%s", "F9", o.name(), mode, pos, place, "-")
	if trig != nil {
		sig = fmt.Sprintf("%s/%s/%s/%s/%s/%s", "F9", o.name(), mode, pos, place, trig.Name)
	}
	if d.op2 >= 0 && place == "M" {
		sig += "/+" + ops[d.op2].name()
	}
	if !std {
		tags = append(tags, "f9ext")
	}
	return &Case{Family: family, Index: index, Sig: sig, Mod: &Module{Raw: sb.String()}, NoExec: true, Tags: tags}
}

// f9Descs enumerates the descriptor table of a tier.
//
//	quick:    (A) in the entry point: every operation x every trigger x placements {B,P,A,M} with operand
//	              lets (mode L), x placements {B,A} with inline operands (I) and inline call (X), plus
//	              the trigger-free baseline (Z) of every mode;
//	          (B) in every other position, with the first trigger (constant-index access): every
//	              operation x placements {B,A,M,O,Z} in mode L and placement B in modes I and X;
//	thorough: the full product operation x trigger x placement x position x mode.
func f9Descs(ops []*f9Op, thorough bool) []f9Desc {
	var out []f9Desc
	cidx := 0
	npos := f9QuickPositions
	if thorough {
		npos = len(f9Positions)
	}
	for oi, o := range ops {
		op2 := (oi + 1) % len(ops)
		for mi, mode := range f9Modes {
			if mode == "I" && !o.hasOperands() {
				continue // identical to L
			}
			if mode == "X" && (o.Res == nil || o.Discard) {
				continue // no result to consume inline
			}
			for pi := 0; pi < npos; pi++ {
				for pl, place := range f9Placements {
					if place == "P" && (mode != "L" || !o.hasOperands()) {
						continue // identical to B
					}
					if place == "O" && pi == 0 {
						continue // no compound statement to be outside of
					}
					if !thorough && mode != "L" {
						if pi == 0 && (place == "P" || place == "M" || place == "O") {
							continue
						}
						if pi != 0 && place != "B" {
							continue
						}
					}
					if !thorough && pi != 0 && place == "P" {
						continue
					}
					trigs := []int{cidx}
					if place != "Z" && (thorough || pi == 0) {
						trigs = trigs[:0]
						for ti := range f9Triggers {
							trigs = append(trigs, ti)
						}
					}
					for _, ti := range trigs {
						d := f9Desc{op: oi, op2: -1, trig: ti, place: pl, pos: pi, mode: mi}
						if place == "M" {
							d.op2 = op2
						}
						out = append(out, d)
					}
				}
			}
		}
	}
	return out
}

type f9Table struct {
	ops   []*f9Op
	descs []f9Desc
}

var f9Once [2]sync.Once
var f9Tables [2]*f9Table

func f9Get(thorough bool) *f9Table {
	i := 0
	if thorough {
		i = 1
	}
	f9Once[i].Do(func() {
		ops := f9Ops(thorough)
		f9Tables[i] = &f9Table{ops: ops, descs: f9Descs(ops, thorough)}
	})
	return f9Tables[i]
}

// F9 is the full family of a tier (name F9 / F9T).
func F9(thorough bool) *Family {
	t := f9Get(thorough)
	name := "F9"
	if thorough {
		name = "F9T"
	}
	return &Family{Name: name, Count: len(t.descs), At: func(i int) *Case { return f9Build(t.ops, t.descs[i], name, i) }}
}

// F9Lite: one program per standard-WGSL operation variant of the quick table (operands from lets, the
// constant-index trigger before the operation, in the entry point): the part of F9 contributed to the
// shared valid-program families, so that every backend sees every statement-lowered builtin with every
// operand type.
func F9Lite() *Family {
	t := f9Get(false)
	var descs []f9Desc
	for oi, o := range t.ops {
		if o.Std {
			descs = append(descs, f9Desc{op: oi, op2: -1, trig: 0, place: 0, pos: 0, mode: 0})
		}
	}
	return &Family{Name: "F9lite", Count: len(descs), At: func(i int) *Case { return f9Build(t.ops, descs[i], "F9lite", i) }}
}

// F9Stats: sizes of the dimensions (for the evidence).
func F9Stats(thorough bool) map[string]int {
	t := f9Get(thorough)
	kinds := map[string]bool{}
	builtins := map[string]bool{}
	for _, o := range t.ops {
		kinds[o.Kind] = true
		builtins[o.Builtin] = true
	}
	npos := f9QuickPositions
	if thorough {
		npos = len(f9Positions)
	}
	return map[string]int{"operation_variants": len(t.ops), "builtins": len(builtins), "statement_classes": len(kinds), "triggers": len(f9Triggers),
		"placements": len(f9Placements), "positions": npos, "modes": len(f9Modes), "programs": len(t.descs)}
}
