package wgen

import (
	"fmt"
	"strings"
	"sync"
)

// F4c: compositions. Every depth-2 expression O(.., I(..), ..): each outer operator O of a pool of
// total operators (arithmetic, bitwise, shifts by in-range counts, comparisons, logical, unary,
// conversions, bitcasts, select, abs/min/max, swizzle, component index, vector construction, a user
// function with a side effect) with each of its operand positions filled by each inner operator I
// of the pool whose result type fits, over scalars and 2-component vectors of i32/u32/f32/bool.
// What the family observes is how an operator is emitted *inside another one*: parenthesisation and
// precedence in the text backends, naming/baking of intermediate values, operand order, evaluation
// order of calls with side effects. Operand alphabets are small benign values (the boundary values
// belong to F1), chosen so that no target language leaves any of the compositions undefined.

var f4cOnce sync.Once
var f4cSpecs []opSpec
var f4cQuickN int

func f4cAlpha(k SK) []uint32 {
	switch k {
	case Bool:
		return []uint32{0, 1}
	case I32:
		return []uint32{0, 1, 2, 0xFFFFFFFD, 7}
	case U32:
		return []uint32{0, 1, 2, 7, 31}
	}
	return fbits(0, 1, -1.5, 2.5)
}

type f4cOp struct {
	opSpec
	class    string // "arith", "div", "shift", "cmp", ...
	onlyPos0 bool   // as outer operator, only operand 0 may be replaced (the others have restricted domains)
	smooth   bool   // continuous in its float operands: an approximate inner result may feed it
}

func f4cTypeOK(t *Type) bool {
	return t.K == TScalar || (t.K == TVec && t.N == 2)
}

func f4cPool() []f4cOp {
	var pool []f4cOp
	if f1Idx == nil {
		f1Idx = f1Index()
	}
	for i := range f1Specs {
		s := f1Specs[i]
		ok := f4cTypeOK(s.ret)
		for _, a := range s.args {
			ok = ok && f4cTypeOK(a)
		}
		if !ok {
			continue
		}
		p := strings.Split(s.sig, "/")
		op := f4cOp{opSpec: s}
		isF32 := s.args[0].S == F32
		switch p[0] {
		case "bin":
			switch p[1] {
			case "+", "-", "*":
				op.class, op.smooth = "arith", true
			case "/":
				op.class, op.onlyPos0, op.smooth = "div", true, true
			case "%":
				if isF32 {
					continue
				}
				op.class, op.onlyPos0 = "div", true
			case "&", "|", "^":
				op.class = "bit"
			case "<<inrange", ">>inrange":
				op.class, op.onlyPos0 = "shift", true
			case "==", "!=", "<", "<=", ">", ">=":
				op.class = "cmp"
			case "&&", "||":
				op.class = "logic"
			default:
				continue
			}
		case "un":
			op.class, op.smooth = "unary", p[1] == "-"
		case "conv":
			op.class = "conv"
		case "bitcast":
			// integer -> float bitcasts: the operand alphabet is the bit patterns of ordinary floats (small
			// integers would give subnormals, which WGSL lets flush; computed operands that do are masked by
			// the comparison, which skips subnormal/inf/nan expectations)
			op.class = "bitcast"
		case "call":
			switch p[1] {
			case "select":
				op.class = "select"
			case "abs", "min", "max":
				op.class, op.smooth = "call", true
			default:
				continue
			}
		default:
			continue
		}
		// small benign alphabets; division and remainder keep a non-zero (and, for i32, positive) divisor
		op.alpha = nil
		for _, a := range s.args {
			op.alpha = append(op.alpha, f4cAlpha(a.S))
		}
		op.keep = nil
		if op.class == "div" {
			k := s.args[1].S
			switch k {
			case I32:
				op.alpha[1] = []uint32{1, 2, 7}
			case U32:
				op.alpha[1] = []uint32{1, 2, 7, 31}
			default:
				op.alpha[1] = fbits(1, -1.5, 2.5)
			}
			// `%` with a negative dividend is undefined in GLSL; both signs stay in (GLSL excuses itself)
		}
		if op.class == "bitcast" && s.ret.S == F32 && s.args[0].S != F32 {
			op.alpha[0] = []uint32{0x3F800000, 0x40200000, 0xBFC00000, 0x41700000, 0}
		}
		if op.class == "shift" {
			op.alpha[1] = []uint32{0, 1, 5} // no overflow into the sign bit: INT_MIN operands are C15's subject
		}
		if op.class == "conv" && s.args[0].S == F32 && (s.ret.S == U32) {
			op.alpha[0] = fbits(0, 1, 2.5, 7.75) // negative -> u32 is clamped by WGSL but undefined in the targets' casts: C15's subject
		}
		pool = append(pool, op)
	}
	// structural operators that F1 does not have
	for _, k := range []SK{I32, U32, F32, Bool} {
		k := k
		st, vt := Scalar(k), Vec(k, 2)
		a := f4cAlpha(k)
		pool = append(pool,
			f4cOp{opSpec: opSpec{sig: fmt.Sprintf("swz/y/%s", vt), args: []*Type{vt}, ret: st, alpha: [][]uint32{a},
				build: func(xs []Expr) Expr { return Swizzle(xs[0], "y") }}, class: "swz", smooth: true},
			f4cOp{opSpec: opSpec{sig: fmt.Sprintf("swz/yx/%s", vt), args: []*Type{vt}, ret: vt, alpha: [][]uint32{a},
				build: func(xs []Expr) Expr { return Swizzle(xs[0], "yx") }}, class: "swz", smooth: true},
			f4cOp{opSpec: opSpec{sig: fmt.Sprintf("idx/1/%s", vt), args: []*Type{vt}, ret: st, alpha: [][]uint32{a},
				build: func(xs []Expr) Expr { return Idx(xs[0], LitU(1)) }}, class: "idx", smooth: true},
			f4cOp{opSpec: opSpec{sig: fmt.Sprintf("cons/%s", vt), args: []*Type{st, st}, ret: vt, alpha: [][]uint32{a, a},
				build: func(xs []Expr) Expr { return &Cons{Ty: vt, Args: []Expr{xs[0], xs[1]}} }}, class: "cons", smooth: true},
		)
	}
	for _, k := range []SK{I32, U32} {
		st := Scalar(k)
		pool = append(pool, f4cOp{opSpec: opSpec{sig: fmt.Sprintf("ucall/bump/%s", st), args: []*Type{st}, ret: st, alpha: [][]uint32{f4cAlpha(k)},
			build: func(xs []Expr) Expr { return &Call{Fn: "bump_" + st.String(), Args: []Expr{xs[0]}, Ty: st, User: true} }}, class: "ucall"})
	}
	// a user function without parameters and with a side effect: each call returns the next value of a counter
	for _, k := range []SK{I32, U32} {
		st := Scalar(k)
		pool = append(pool, f4cOp{opSpec: opSpec{sig: fmt.Sprintf("ucall0/next/%s", st), args: nil, ret: st, alpha: nil,
			build: func(xs []Expr) Expr { return &Call{Fn: "next_" + st.String(), Args: nil, Ty: st, User: true} }}, class: "ucall0"})
	}
	return pool
}

// f4cNext is the parameterless user function with a side effect: nxt = nxt * 3 + 1; return nxt.
func f4cNext(st *Type) (*Func, Global) {
	cnt := "nxt_" + st.String()
	c := func() Expr { return V(cnt, st) }
	three, one := Expr(LitU(3)), Expr(LitU(1))
	if st.S == I32 {
		three, one = LitI(3), LitI(1)
	}
	f := &Func{Name: "next_" + st.String(), Ret: st, Body: []Stmt{
		&Assign{LHS: c(), Op: "=", RHS: &Bin{Op: "+", L: &Bin{Op: "*", L: c(), R: three, Ty: st}, R: one, Ty: st}},
		&Return{X: c()},
	}}
	return f, Global{Name: cnt, Space: "private", Ty: st}
}

// f4cBump is the user function with a side effect: cnt = cnt * 3 + v; return v + cnt.
func f4cBump(st *Type) (*Func, Global) {
	cnt := "cnt_" + st.String()
	c := func() Expr { return V(cnt, st) }
	three := Expr(LitU(3))
	if st.S == I32 {
		three = LitI(3)
	}
	f := &Func{Name: "bump_" + st.String(), Params: []Param{{Name: "v", Ty: st}}, Ret: st, Body: []Stmt{
		&Assign{LHS: c(), Op: "=", RHS: &Bin{Op: "+", L: &Bin{Op: "*", L: c(), R: three, Ty: st}, R: L("v", st), Ty: st}},
		&Return{X: &Bin{Op: "+", L: L("v", st), R: c(), Ty: st}},
	}}
	return f, Global{Name: cnt, Space: "private", Ty: st}
}

// f4cStructural: operators whose emission depends on the shape of their operands rather than on arithmetic —
// their vector forms are part of the quick tier.
func f4cStructural(op *f4cOp) bool {
	switch op.class {
	case "select", "bitcast", "conv", "swz", "idx", "cons":
		return true
	}
	return false
}

func f4cCompose(o, in *f4cOp, p int, both bool) opSpec {
	s := opSpec{ret: o.ret, approx: o.approx || in.approx}
	nIn := len(in.args)
	// argument list: outer operands with position p (and, if both, position 1-p) replaced by the inner operands
	type slot struct {
		inner bool
		idx   int // outer operand index, or first composite operand of the inner copy
	}
	var slots []slot
	for ai := range o.args {
		if ai == p || (both && ai == 1-p) {
			slots = append(slots, slot{inner: true, idx: len(s.args)})
			s.args = append(s.args, in.args...)
			s.alpha = append(s.alpha, in.alpha...)
		} else {
			slots = append(slots, slot{idx: len(s.args)})
			s.args = append(s.args, o.args[ai])
			s.alpha = append(s.alpha, o.alpha[ai])
		}
	}
	// keep the number of input tuples bounded: trim the longest alphabets
	for {
		prod := 1
		for _, a := range s.alpha {
			prod *= len(a)
		}
		if prod <= 400 {
			break
		}
		li := 0
		for i, a := range s.alpha {
			if len(a) > len(s.alpha[li]) {
				li = i
			}
		}
		s.alpha = append([][]uint32{}, s.alpha...)
		s.alpha[li] = s.alpha[li][:len(s.alpha[li])-1]
	}
	ob, ib := o.build, in.build
	s.build = func(xs []Expr) Expr {
		var oa []Expr
		for _, sl := range slots {
			if sl.inner {
				oa = append(oa, ib(xs[sl.idx:sl.idx+nIn]))
			} else {
				oa = append(oa, xs[sl.idx])
			}
		}
		return ob(oa)
	}
	tag := fmt.Sprint(p)
	if both {
		tag = "both"
	}
	s.sig = fmt.Sprintf("%s@%s(%s)", strings.ReplaceAll(o.sig, "/", ":"), tag, strings.ReplaceAll(in.sig, "/", ":"))
	return s
}

func f4cBuildAll() {
	pool := f4cPool()
	scalarOnly := func(op *f4cOp) bool {
		if op.ret.K != TScalar {
			return false
		}
		for _, a := range op.args {
			if a.K != TScalar {
				return false
			}
		}
		return true
	}
	var quick, rest []opSpec
	for oi := range pool {
		o := &pool[oi]
		for p := range o.args {
			if o.onlyPos0 && p != 0 {
				continue
			}
			for ii := range pool {
				in := &pool[ii]
				if !in.ret.Equal(o.args[p]) {
					continue
				}
				if o.class == "conv" && o.ret.S == U32 && o.args[0].S == F32 {
					continue // a computed negative float converted to u32 is hardened-conversion territory (C15)
				}
				if in.approx && !o.smooth {
					continue // an approximate value must not feed a discontinuous operator (tolerance would not carry over)
				}
				if o.class == "bitcast" && (in.approx || in.ret.S == F32 && in.class != "swz" && in.class != "idx" && in.class != "cons" && in.class != "select" && in.class != "bitcast") {
					continue // bit patterns of computed floats (-0.0 vs 0.0) are not pinned down by WGSL
				}
				c := f4cCompose(o, in, p, false)
				if (scalarOnly(o) && scalarOnly(in)) || f4cStructural(o) || f4cStructural(in) {
					quick = append(quick, c)
				} else {
					rest = append(rest, c)
				}
				// both operands of a binary outer operator filled by the same inner operator
				if p == 0 && len(o.args) == 2 && !o.onlyPos0 && o.args[0].Equal(o.args[1]) {
					c2 := f4cCompose(o, in, 0, true)
					if scalarOnly(o) && scalarOnly(in) {
						quick = append(quick, c2)
					} else {
						rest = append(rest, c2)
					}
				}
			}
		}
	}
	f4cSpecs = append(quick, rest...)
	f4cQuickN = len(quick)
}

var f4cSources = []string{"buf", "fn"}

// F4c returns the composition family; all=false restricts it to compositions of scalar operators.
func F4c(all bool) *Family {
	f4cOnce.Do(f4cBuildAll)
	n := f4cQuickN
	name := "F4c"
	if all {
		n = len(f4cSpecs)
		name = "F4call"
	}
	return &Family{Name: name, Count: n * len(f4cSources), At: func(i int) *Case {
		s := &f4cSpecs[i/len(f4cSources)]
		c := buildF1(s, f4cSources[i%len(f4cSources)])
		c.Sig = "F4c/" + s.sig + "/" + f4cSources[i%len(f4cSources)]
		// user functions with side effects, if referenced
		for _, k := range []SK{I32, U32} {
			st := Scalar(k)
			if strings.Contains(s.sig, "ucall:bump:"+st.String()) {
				f, g := f4cBump(st)
				c.Mod.Globals = append(c.Mod.Globals, g)
				c.Mod.Funcs = append([]*Func{f}, c.Mod.Funcs...)
			}
			if strings.Contains(s.sig, "ucall0:next:"+st.String()) {
				f, g := f4cNext(st)
				c.Mod.Globals = append(c.Mod.Globals, g)
				c.Mod.Funcs = append([]*Func{f}, c.Mod.Funcs...)
			}
		}
		c.Family, c.Index = name, i
		return c
	}}
}
