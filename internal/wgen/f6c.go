package wgen

import (
	"fmt"

	"verif/internal/xrt"
)

// F6c: compile-time evaluation. Every F1 operator/builtin/conversion applied to literal operands
// (suffixed, bare abstract, or named constants) in the compile-time contexts the property names.
// The expected value of `E(literals)` is what the reference evaluator computes for the same
// expression at run time (WGSL defines both to agree for concrete types on the alphabets used).

var f6cContexts = []string{"let", "modconst", "fnconst", "named"}

func litOf(t *Type, vals []uint32, bare bool) Expr {
	mk := func(k SK, v uint32) Expr {
		l := &Lit{Ty: Scalar(k), Bits: v}
		if bare && k != Bool && k != U32 && !(k == I32 && v == 0x80000000) {
			l.Bare = true
		}
		return l
	}
	switch t.K {
	case TScalar:
		return mk(t.S, vals[0])
	case TVec:
		args := make([]Expr, t.N)
		for i := range args {
			args[i] = mk(t.S, vals[i])
		}
		return &Cons{Ty: t, Args: args}
	case TMat:
		args := make([]Expr, t.N*t.C)
		for i := range args {
			args[i] = mk(F32, vals[i])
		}
		return &Cons{Ty: t, Args: args}
	}
	panic("litOf")
}

// constSafe: specs whose compile-time evaluation WGSL defines to agree with run time on the F1
// alphabets (shifts and out-of-range conversions have additional compile-time error rules and are
// restricted to clearly valid operands).
func constSpecs(bare bool) []opSpec {
	var out []opSpec
	for _, s := range f1Specs {
		s := s
		sig := s.sig
		switch {
		case len(sig) > 7 && (sig[:7] == "bin/<</" || sig[:7] == "bin/>>/"):
			continue // unrestricted shift counts: compile-time errors by rule; the in-range variants below remain
		case len(sig) > 14 && sig[:14] == "bin/<<inrange/":
			// left shift at compile time must not lose bits: small left operands only
			s.alpha = [][]uint32{{0, 1, 2, 7}, {0, 1, 5, 16}}
		}
		if len(sig) > 17 && (sig[:17] == "call/extractBits/" || sig[:16] == "call/insertBits/") {
			// at compile time offset + count > 32 is a shader-creation error: keep to valid operands
			n := len(s.args)
			s.keep = func(v []uint32) bool { return uint64(v[n-2])+uint64(v[n-1]) <= 32 }
		}
		if bare {
			// abstract literals: operands small enough that abstract and concrete arithmetic coincide
			ok := true
			for ai, a := range s.args {
				switch a.S {
				case I32:
					s.alpha = cloneAlpha(s.alpha)
					s.alpha[ai] = []uint32{0, 1, 2, 7, 0xFFFFFFF9, 31, 0xFFFFFFFF}
				case F32:
					s.alpha = cloneAlpha(s.alpha)
					s.alpha[ai] = fbits(0.5, -0.5, 1, -1.5, 2.5, 7.5, 3)
				case U32, Bool:
				}
				if a.K == TMat {
					ok = false // matrix of abstract floats: concretisation path of its own; kept to suffixed literals
				}
			}
			if !ok || s.approx {
				continue
			}
			if len(sig) > 8 && sig[:8] == "bitcast/" {
				continue // bitcast of an abstract literal is typed by the literal's default type
			}
			if len(sig) > 5 && sig[:5] == "conv/" && s.args[0].S == F32 && s.ret.S != F32 {
				continue
			}
			// u32 operands stay suffixed; a mix of bare and suffixed operands is exactly the "mixed
			// abstract/concrete" case of the property
		}
		out = append(out, s)
	}
	return out
}

func cloneAlpha(a [][]uint32) [][]uint32 {
	o := make([][]uint32, len(a))
	copy(o, a)
	return o
}

// BuildF6c builds the literal program for one spec in one context.
func BuildF6c(s *opSpec, ctx string, bare bool) *Case {
	tup := tuples(s)
	n := len(tup)
	if n == 0 {
		return nil
	}
	if n > 160 {
		// keep programs readable: a fixed stride subset that still visits every alphabet value of every argument
		var sub [][]uint32
		step := n / 160
		for i := 0; i < n; i += step + 1 {
			sub = append(sub, tup[i])
		}
		tup, n = sub, len(sub)
	}
	maxW := 1
	for _, at := range s.args {
		if k := at.NumScalars(); k > maxW {
			maxW = k
		}
	}
	m := &Module{}
	ost := storageType(s.ret)
	oarr := Array(ost, 0)
	m.Globals = append(m.Globals, Global{Name: "o", Space: "storage", RW: true, Ty: oarr, Group: 0, Binding: 0})
	var body []Stmt
	for j := 0; j < n; j++ {
		mix := true
		if s.keep != nil {
			eff := make([]uint32, len(s.args))
			for c := 0; c < maxW && mix; c++ {
				for ai, at := range s.args {
					if at.NumScalars() > 1 {
						eff[ai] = tup[(j+7*c)%n][ai]
					} else {
						eff[ai] = tup[j][ai]
					}
				}
				mix = s.keep(eff)
			}
		}
		var xs []Expr
		for ai, at := range s.args {
			vals := make([]uint32, at.NumScalars())
			for c := range vals {
				t := tup[j]
				if mix {
					t = tup[(j+7*c)%n]
				}
				vals[c] = t[ai]
			}
			lit := litOf(at, vals, bare)
			if ctx == "named" {
				nm := fmt.Sprintf("k%d_%d", j, ai)
				m.Consts = append(m.Consts, ConstDecl{Name: nm, Ty: at, Init: lit, Explicit: !bare})
				xs = append(xs, L(nm, at))
			} else {
				xs = append(xs, lit)
			}
		}
		e := s.build(xs)
		out := Idx(V("o", oarr), LitU(uint32(j)))
		switch ctx {
		case "let", "named":
			body = append(body, &Assign{LHS: out, Op: "=", RHS: toStorage(e, s.ret)})
		case "modconst":
			nm := fmt.Sprintf("c%d", j)
			m.Consts = append(m.Consts, ConstDecl{Name: nm, Ty: s.ret, Init: e})
			body = append(body, &Assign{LHS: out, Op: "=", RHS: toStorage(L(nm, s.ret), s.ret)})
		case "fnconst":
			nm := fmt.Sprintf("c%d", j)
			body = append(body, &VarDecl{Kind: "const", Name: nm, Ty: s.ret, Init: e})
			body = append(body, &Assign{LHS: out, Op: "=", RHS: toStorage(L(nm, s.ret), s.ret)})
		}
	}
	m.Funcs = append(m.Funcs, &Func{Name: "main", Stage: "compute", WG: [3]int{1, 0, 0}, Body: body})
	ob := make([]byte, n*Stride(oarr))
	for i := range ob {
		ob[i] = 0xCD
	}
	k0 := xrt.Binding{Group: 0, Binding: 0}
	lit := "suffixed"
	if bare {
		lit = "abstract"
	}
	return &Case{Sig: "F6c/" + s.sig + "/" + ctx + "/" + lit, Mod: m, Bufs: xrt.Buffers{k0: ob}, Groups: [3]uint32{1, 1, 1}, Approx: s.approx,
		BufTypes: map[xrt.Binding]*Type{k0: Array(ost, n)}}
}

// F6c returns the compile-time evaluation family.
func F6c() *Family {
	type ent struct {
		spec opSpec
		ctx  string
		bare bool
	}
	var ents []ent
	for _, bare := range []bool{false, true} {
		for _, s := range constSpecs(bare) {
			for _, ctx := range f6cContexts {
				ents = append(ents, ent{s, ctx, bare})
			}
		}
	}
	return &Family{Name: "F6c", Count: len(ents), At: func(i int) *Case {
		e := ents[i]
		c := BuildF6c(&e.spec, e.ctx, e.bare)
		if c == nil {
			return nil
		}
		c.Family, c.Index = "F6c", i
		return c
	}}
}

// ConstScalarSpecs: scalar-result integer specs for the non-value contexts (array size, switch
// selector, const_assert, workgroup_size). Returns (signature, expression builder over literal
// operands, operand tuples, argument types, result kind).
type ConstScalar struct {
	Sig  string
	Expr func(vals []uint32) Expr
	Tup  [][]uint32
	Ret  *Type
}

func ConstScalars() []ConstScalar {
	var out []ConstScalar
	for _, s := range constSpecs(false) {
		s := s
		if s.ret.K != TScalar || s.approx {
			continue
		}
		scalarArgs := true
		for _, a := range s.args {
			if a.K != TScalar {
				scalarArgs = false
			}
		}
		if !scalarArgs {
			continue
		}
		out = append(out, ConstScalar{Sig: s.sig, Ret: s.ret, Tup: tuples(&s), Expr: func(vals []uint32) Expr {
			xs := make([]Expr, len(s.args))
			for i, a := range s.args {
				xs[i] = litOf(a, vals[i:i+1], false)
			}
			return s.build(xs)
		}})
	}
	return out
}
