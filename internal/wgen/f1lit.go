package wgen

import (
	"fmt"
	"math"

	"verif/internal/xrt"
)

// F1lit: literal emission. Every value of a per-type literal alphabet (extremes, values that need
// many digits, exponent forms, hexadecimal-looking bit patterns) is written into the program text in
// every context in which a backend formats a constant: direct store, let, var initialiser, module
// const, function const, private-global initialiser, vector constructor, constant array indexed at
// run time, operand of a run-time operator, call argument. The emitted code must reproduce the exact
// bits (floats: exact value; the sign of zero is left to the implementation by WGSL and is not in
// the alphabet).

func litAlphabet(k SK) []uint32 {
	switch k {
	case Bool:
		return []uint32{1, 0}
	case I32:
		return []uint32{0, 1, 0xFFFFFFFF, 7, 0x7FFFFFFF, 0x80000000, 0x80000001, 0x55555555, 305419896, 0xFFFF8000, 1000000007}
	case U32:
		return []uint32{0, 1, 7, 0xFFFFFFFF, 0x80000000, 0x7FFFFFFF, 305419896, 0xAAAAAAAA, 4000000000}
	}
	return fbits(0, 0.5, -0.5, 1, -1.5, 1e-3, math.MaxFloat32, -math.MaxFloat32, 1.17549435e-38, 16777216, 16777218, 0.1, 1e10, 1e-10,
		123456.789, 2147483648.0, 4294967296.0, 6.02e23, 0.33333334, -2147483648.0, 65504, 3.1415927, 1e-30, 9.999999e-5)
}

var f1litContexts = []string{"store", "let", "var", "fnconst", "modconst", "private", "vec", "constarray", "operand", "callarg", "letvec"}

func buildF1lit(k SK, ctx string) *Case {
	st := Scalar(k)
	sst := storageType(st)
	al := litAlphabet(k)
	n := len(al)
	m := &Module{}
	oarr := Array(sst, 0)
	m.Globals = append(m.Globals, Global{Name: "o", Space: "storage", RW: true, Ty: oarr, Group: 0, Binding: 0})
	// a zero-filled input used as a run-time operand
	aarr := Array(sst, 0)
	m.Globals = append(m.Globals, Global{Name: "a", Space: "storage", Ty: aarr, Group: 0, Binding: 1})
	lit := func(i int) Expr { return &Lit{Ty: st, Bits: al[i%n]} }
	out := func(i int) Expr { return Idx(V("o", oarr), LitU(uint32(i))) }
	store := func(i int, e Expr) Stmt { return &Assign{LHS: out(i), Op: "=", RHS: toStorage(e, st)} }
	in := func(i int) Expr { return fromStorage(Idx(V("a", aarr), LitU(uint32(i))), st) }
	var body []Stmt
	switch ctx {
	case "store":
		for i := 0; i < n; i++ {
			body = append(body, store(i, lit(i)))
		}
	case "let", "var", "fnconst":
		kind := map[string]string{"let": "let", "var": "var", "fnconst": "const"}[ctx]
		for i := 0; i < n; i++ {
			nm := fmt.Sprintf("x%d", i)
			body = append(body, &VarDecl{Kind: kind, Name: nm, Ty: st, Init: lit(i), Explicit: i%2 == 0})
			if kind == "var" {
				body = append(body, store(i, V(nm, st)))
			} else {
				body = append(body, store(i, L(nm, st)))
			}
		}
	case "modconst":
		for i := 0; i < n; i++ {
			nm := fmt.Sprintf("C%d", i)
			m.Consts = append(m.Consts, ConstDecl{Name: nm, Ty: st, Init: lit(i), Explicit: i%2 == 0})
			body = append(body, store(i, L(nm, st)))
		}
	case "private":
		for i := 0; i < n; i++ {
			nm := fmt.Sprintf("p%d", i)
			m.Globals = append(m.Globals, Global{Name: nm, Space: "private", Ty: st, Init: lit(i)})
			body = append(body, store(i, V(nm, st)))
		}
	case "vec", "letvec":
		// vec4 / vec3 / vec2 constructors covering the alphabet; components stored one by one
		for i := 0; i < n; i++ {
			w := 2 + i%3
			vt := Vec(k, w)
			var args []Expr
			for c := 0; c < w; c++ {
				args = append(args, lit(i+c))
			}
			var v Expr = &Cons{Ty: vt, Args: args}
			if ctx == "letvec" {
				nm := fmt.Sprintf("v%d", i)
				body = append(body, &VarDecl{Kind: "let", Name: nm, Ty: vt, Init: v})
				v = L(nm, vt)
			}
			// store the last component (each alphabet position appears as a last component for some i)
			body = append(body, store(i, Swizzle(v, string("xyzw"[w-1]))))
		}
	case "constarray":
		at := Array(st, n)
		var args []Expr
		for i := 0; i < n; i++ {
			args = append(args, lit(i))
		}
		m.Consts = append(m.Consts, ConstDecl{Name: "TBL", Ty: at, Init: &Cons{Ty: at, Args: args}})
		// index taken from a run-time value so that the table has to exist in the output
		m.Globals = append(m.Globals, Global{Name: "ix", Space: "storage", Ty: Array(TU32, 0), Group: 0, Binding: 2})
		body = append(body, &VarDecl{Kind: "var", Name: "t", Ty: at, Init: L("TBL", at)})
		for i := 0; i < n; i++ {
			body = append(body, store(i, Idx(V("t", at), Idx(V("ix", Array(TU32, 0)), LitU(uint32(i))))))
		}
	case "operand":
		for i := 0; i < n; i++ {
			var e Expr
			switch k {
			case Bool:
				e = &Bin{Op: "!=", L: in(i), R: lit(i), Ty: TBool} // a[i] is false: false != lit == lit
			case F32:
				e = &Bin{Op: "+", L: in(i), R: lit(i), Ty: st} // 0.0 + lit == lit exactly
			default:
				e = &Bin{Op: "^", L: in(i), R: lit(i), Ty: st}
			}
			body = append(body, store(i, e))
		}
	case "callarg":
		h := &Func{Name: "id", Params: []Param{{Name: "v", Ty: st}, {Name: "z", Ty: st}}, Ret: st}
		switch k {
		case Bool:
			h.Body = []Stmt{&Return{X: &Bin{Op: "!=", L: L("v", st), R: L("z", st), Ty: TBool}}}
		case F32:
			h.Body = []Stmt{&Return{X: &Bin{Op: "+", L: L("v", st), R: L("z", st), Ty: st}}}
		default:
			h.Body = []Stmt{&Return{X: &Bin{Op: "|", L: L("v", st), R: L("z", st), Ty: st}}}
		}
		m.Funcs = append(m.Funcs, h)
		for i := 0; i < n; i++ {
			body = append(body, store(i, &Call{Fn: "id", Args: []Expr{lit(i), in(i)}, Ty: st, User: true}))
		}
	}
	m.Funcs = append(m.Funcs, &Func{Name: "main", Stage: "compute", WG: [3]int{1, 0, 0}, Body: body})
	obuf := make([]byte, 4*n)
	for i := range obuf {
		obuf[i] = 0xCD
	}
	k0, k1, k2 := xrt.Binding{Group: 0, Binding: 0}, xrt.Binding{Group: 0, Binding: 1}, xrt.Binding{Group: 0, Binding: 2}
	bufs := xrt.Buffers{k0: obuf, k1: make([]byte, 4*n)}
	bt := map[xrt.Binding]*Type{k0: Array(sst, n), k1: Array(sst, n)}
	if ctx == "constarray" {
		ib := make([]byte, 4*n)
		for i := 0; i < n; i++ {
			PutU32(ib, 4*i, uint32(i))
		}
		bufs[k2] = ib
		bt[k2] = Array(TU32, n)
	}
	return &Case{Sig: fmt.Sprintf("F1lit/%s/%s", ctx, st), Mod: m, Bufs: bufs, Groups: [3]uint32{1, 1, 1}, BufTypes: bt}
}

// F1lit returns the literal-emission family.
func F1lit() *Family {
	kinds := []SK{I32, U32, F32, Bool}
	return &Family{Name: "F1lit", Count: len(kinds) * len(f1litContexts), At: func(i int) *Case {
		c := buildF1lit(kinds[i/len(f1litContexts)], f1litContexts[i%len(f1litContexts)])
		c.Family, c.Index = "F1lit", i
		return c
	}}
}
