package wgen

import (
	"fmt"
	"math"

	"verif/internal/xrt"
)

// F4idx: the systematic product of dynamic-index forms
//
//	indexed object type x address space x operation x index type x index value
//
// (F15acc/F4acc are a hand-picked subset of it). Objects: arrays, every vector width, every
// matCxR shape (the index selects a column: columns != rows matters), arrays of vectors/matrices
// and nested arrays. Spaces: storage, uniform, private, workgroup, function, value (let).
// Operations: read, write, compound assignment, read/write through `let p = &x[i]`, and `&x[i]`
// passed to a pointer parameter of a void and of a value-returning callee.
// In-bounds indices make the family part of the ordinary semantic space (C01/C03-C05);
// the hostile index partition makes it part of C15 (F15idx, non-pointer operations only).

type idxObj struct {
	name string
	t    *Type
	n    int // number of valid indices
}

func idxObjects() []idxObj {
	var out []idxObj
	add := func(t *Type, n int) { out = append(out, idxObj{t.String(), t, n}) }
	add(Array(TU32, 4), 4)
	for n := 2; n <= 4; n++ {
		add(Vec(U32, n), n)
	}
	add(Vec(F32, 3), 3)
	for c := 2; c <= 4; c++ {
		for r := 2; r <= 4; r++ {
			add(Mat(c, r), c)
		}
	}
	add(Array(Vec(U32, 4), 3), 3)
	add(Array(Vec(F32, 3), 2), 2)
	add(Array(Mat(2, 3), 2), 2)
	add(Array(Array(TU32, 3), 2), 2)
	return out
}

var idxSpaces = []string{"storage", "uniform", "private", "workgroup", "function", "value"}
var idxOps = []string{"read", "write", "compound", "ptrlet-read", "ptrlet-write", "ptrarg-void", "ptrarg-value"}

func elemOf(t *Type) *Type {
	switch t.K {
	case TArray:
		return t.Elem
	case TVec:
		return Scalar(t.S)
	case TMat:
		return Vec(F32, t.N)
	}
	panic("elemOf")
}

// mkVal builds a value of type t from literals base, base+1, ... (f32: the same integers as floats);
// the first leaf is mixed with dyn (a run-time value of type u32) so that nothing is a constant.
func mkVal(t *Type, base *uint32, dyn Expr) Expr {
	leaf := func(k SK) Expr {
		v := *base
		*base = v + 1
		var e Expr
		switch k {
		case F32:
			e = &Lit{Ty: TF32, Bits: math.Float32bits(float32(v))}
			if dyn != nil {
				e = &Bin{Op: "+", L: e, R: &Cons{Ty: TF32, Args: []Expr{dyn}}, Ty: TF32}
			}
		case I32:
			e = LitI(int32(v))
			if dyn != nil {
				e = &Bin{Op: "+", L: e, R: &Cons{Ty: TI32, Args: []Expr{dyn}}, Ty: TI32}
			}
		default:
			e = LitU(v)
			if dyn != nil {
				e = &Bin{Op: "+", L: e, R: dyn, Ty: TU32}
			}
		}
		return e
	}
	switch t.K {
	case TScalar:
		return leaf(t.S)
	case TVec:
		var a []Expr
		for i := 0; i < t.N; i++ {
			a = append(a, leaf(t.S))
			dyn = nil
		}
		return &Cons{Ty: t, Args: a}
	case TMat:
		var a []Expr
		for c := 0; c < t.C; c++ {
			a = append(a, mkVal(Vec(F32, t.N), base, dyn))
			dyn = nil
		}
		return &Cons{Ty: t, Args: a}
	case TArray:
		var a []Expr
		for i := 0; i < t.Len; i++ {
			a = append(a, mkVal(t.Elem, base, dyn))
			dyn = nil
		}
		return &Cons{Ty: t, Args: a}
	}
	panic("mkVal")
}

func asU32(e Expr) Expr {
	if e.T().S == U32 {
		return e
	}
	return &Bitcast{Ty: TU32, X: e}
}

// dumpTo stores every leaf scalar of x (type t) into o[from...], returns the statements and count.
func dumpTo(x Expr, t *Type, from int) ([]Stmt, int) {
	var reads []Expr
	leafPaths(x, t, &reads)
	var out []Stmt
	for k, r := range reads {
		out = append(out, setO(from+k, asU32(r)))
	}
	return out, len(reads)
}

const idxOutWords = 24

// BuildF4Idx builds one form; returns nil when the combination is not valid WGSL.
func BuildF4Idx(ob idxObj, space, op string, idx uint32, signed bool, fam string) *Case {
	t := ob.t
	et := elemOf(t)
	isVec := t.K == TVec
	writes := op != "read" && op != "ptrlet-read"
	ptr := op == "ptrlet-read" || op == "ptrlet-write" || op == "ptrarg-void" || op == "ptrarg-value"
	switch {
	case writes && (space == "uniform" || space == "value"):
		return nil
	case ptr && (isVec || space == "value"):
		return nil // no address of a vector component; no address of a value
	case (op == "ptrarg-void" || op == "ptrarg-value") && space != "function" && space != "private":
		return nil
	case op == "compound" && et.K != TScalar && et.K != TVec:
		return nil
	case space == "uniform" && !UniformValid(t):
		return nil
	}
	m := &Module{}
	idxT := Array(TU32, 0)
	m.Globals = append(m.Globals,
		Global{Name: "idx", Space: "storage", Ty: idxT, Group: 0, Binding: 0},
		Global{Name: "o", Space: "storage", RW: true, Ty: Array(TU32, 0), Group: 0, Binding: 1},
	)
	k := func(n uint32) xrt.Binding { return xrt.Binding{Group: 0, Binding: n} }
	bufs := xrt.Buffers{}
	btypes := map[xrt.Binding]*Type{}
	ib := make([]byte, 8)
	PutU32(ib, 0, idx)
	PutU32(ib, 4, 0) // dyn = idx[1] = 0: keeps initialisers non-constant without changing them
	bufs[k(0)], btypes[k(0)] = ib, Array(TU32, 2)
	ob2 := make([]byte, 4*idxOutWords)
	for i := range ob2 {
		ob2[i] = 0xCD
	}
	bufs[k(1)], btypes[k(1)] = ob2, Array(TU32, idxOutWords)

	var body []Stmt
	var i Expr
	if signed {
		body = append(body, &VarDecl{Kind: "let", Name: "i", Ty: TI32, Init: &Bitcast{Ty: TI32, X: Idx(V("idx", idxT), LitU(0))}})
		i = L("i", TI32)
	} else {
		body = append(body, &VarDecl{Kind: "let", Name: "i", Ty: TU32, Init: Idx(V("idx", idxT), LitU(0))})
		i = L("i", TU32)
	}
	body = append(body, &VarDecl{Kind: "let", Name: "dyn", Ty: TU32, Init: Idx(V("idx", idxT), LitU(1))})
	dyn := L("dyn", TU32)
	base := uint32(11)
	var x Expr
	fill := func(sz int, seed uint32) []byte {
		b := make([]byte, sz)
		for w := 0; w*4 < sz; w++ {
			v := seed + uint32(w)
			if t.Leaf(0) == F32 {
				v = math.Float32bits(float32(seed%1000 + uint32(w)))
			}
			PutU32(b, w*4, v)
		}
		return b
	}
	switch space {
	case "storage":
		m.Globals = append(m.Globals, Global{Name: "x", Space: "storage", RW: true, Ty: t, Group: 0, Binding: 2})
		bufs[k(2)], btypes[k(2)] = fill(SizeOf(t), 101), t
		x = V("x", t)
	case "uniform":
		m.Globals = append(m.Globals, Global{Name: "x", Space: "uniform", Ty: t, Group: 0, Binding: 2})
		bufs[k(2)], btypes[k(2)] = fill(SizeOf(t), 201), t
		x = V("x", t)
	case "private":
		m.Globals = append(m.Globals, Global{Name: "x", Space: "private", Ty: t})
		x = V("x", t)
		body = append(body, &Assign{LHS: x, Op: "=", RHS: mkVal(t, &base, dyn)})
	case "workgroup":
		m.Globals = append(m.Globals, Global{Name: "x", Space: "workgroup", Ty: t})
		x = V("x", t)
		body = append(body, &Assign{LHS: x, Op: "=", RHS: mkVal(t, &base, dyn)}, &Barrier{Kind: "workgroupBarrier"})
	case "function":
		body = append(body, &VarDecl{Kind: "var", Name: "x", Ty: t, Init: mkVal(t, &base, dyn)})
		x = V("x", t)
	case "value":
		body = append(body, &VarDecl{Kind: "let", Name: "x", Ty: t, Init: mkVal(t, &base, dyn)})
		x = L("x", t)
	}
	elem := Idx(x, i)
	nv := uint32(701)
	pt := Ptr(space, et)
	if space == "storage" {
		pt.RW = true
	}
	dumpAll := func(from int) {
		if space == "storage" {
			return // the buffer itself is compared
		}
		s, _ := dumpTo(x, t, from)
		body = append(body, s...)
	}
	switch op {
	case "read":
		s, _ := dumpTo(elem, et, 0)
		body = append(body, s...)
	case "write":
		body = append(body, &Assign{LHS: elem, Op: "=", RHS: mkVal(et, &nv, dyn)})
		dumpAll(0)
	case "compound":
		body = append(body, &Assign{LHS: elem, Op: "+=", RHS: mkVal(et, &nv, dyn)})
		dumpAll(0)
	case "ptrlet-read":
		body = append(body, &VarDecl{Kind: "let", Name: "p", Ty: pt, Init: &AddrOf{X: elem, Ty: pt}})
		s, _ := dumpTo(&Deref{X: L("p", pt), Ty: et}, et, 0)
		body = append(body, s...)
	case "ptrlet-write":
		body = append(body, &VarDecl{Kind: "let", Name: "p", Ty: pt, Init: &AddrOf{X: elem, Ty: pt}})
		d := &Deref{X: L("p", pt), Ty: et}
		body = append(body, &Assign{LHS: d, Op: "=", RHS: mkVal(et, &nv, dyn)})
		if et.K == TVec {
			body = append(body, &Assign{LHS: Swizzle(&Paren{X: d}, "y"), Op: "=", RHS: mkVal(Scalar(et.S), &nv, dyn)})
		}
		dumpAll(0)
	case "ptrarg-void", "ptrarg-value":
		pp := L("p", pt)
		d := &Deref{X: pp, Ty: et}
		f := &Func{Name: "cal", Params: []Param{{Name: "p", Ty: pt}, {Name: "dyn", Ty: TU32}}}
		var first []Expr
		leafPaths(d, et, &first)
		if op == "ptrarg-value" {
			f.Ret = TU32
			f.Body = append(f.Body, &VarDecl{Kind: "let", Name: "old", Ty: TU32, Init: asU32(first[0])})
		}
		f.Body = append(f.Body, &Assign{LHS: d, Op: "=", RHS: mkVal(et, &nv, L("dyn", TU32))})
		if op == "ptrarg-value" {
			f.Body = append(f.Body, &Return{X: L("old", TU32)})
		}
		m.Funcs = append(m.Funcs, f)
		call := &Call{Fn: "cal", Args: []Expr{&AddrOf{X: elem, Ty: pt}, dyn}, Ty: f.Ret, User: true}
		if op == "ptrarg-value" {
			body = append(body, &VarDecl{Kind: "let", Name: "r", Ty: TU32, Init: call}, setO(idxOutWords-1, L("r", TU32)))
		} else {
			body = append(body, &ExprStmt{X: call})
		}
		dumpAll(0)
	}
	m.Funcs = append(m.Funcs, &Func{Name: "main", Stage: "compute", WG: [3]int{1, 0, 0}, Body: body})
	sg := "u32"
	if signed {
		sg = "i32"
	}
	return &Case{Sig: fmt.Sprintf("%s/%s/%s/%s/%s/idx=%#x", fam, op, space, ob.name, sg, idx), Mod: m, Bufs: bufs,
		Groups: [3]uint32{1, 1, 1}, BufTypes: btypes, Approx: false}
}

type idxEnt struct {
	ob     int
	sp, op int
	idx    uint32
	signed bool
}

func f4IdxEnts(hostile bool) []idxEnt {
	obs := idxObjects()
	var ents []idxEnt
	for oi, ob := range obs {
		for si, sp := range idxSpaces {
			for pi, op := range idxOps {
				if hostile && pi > 2 {
					continue // pointer forms: in-bounds only (what an out-of-bounds pointer means is policy-specific)
				}
				if BuildF4Idx(ob, sp, op, 0, false, "probe") == nil {
					continue
				}
				var ixs []uint32
				if hostile {
					ixs = IndexAlphabet(ob.n)
				} else {
					for ix := 0; ix < ob.n; ix++ {
						ixs = append(ixs, uint32(ix))
					}
				}
				for _, ix := range ixs {
					ents = append(ents, idxEnt{oi, si, pi, ix, false}, idxEnt{oi, si, pi, ix, true})
				}
			}
		}
	}
	return ents
}

func f4IdxFamily(name string, hostile bool) *Family {
	obs := idxObjects()
	ents := f4IdxEnts(hostile)
	return &Family{Name: name, Count: len(ents), At: func(i int) *Case {
		e := ents[i]
		c := BuildF4Idx(obs[e.ob], idxSpaces[e.sp], idxOps[e.op], e.idx, e.signed, name)
		c.Family, c.Index = name, i
		return c
	}}
}

// F4Idx: in-bounds indices (ordinary semantic space).
func F4Idx() *Family { return f4IdxFamily("F4idx", false) }

// F15Idx: the hostile index partition (C15), read / write / compound forms.
func F15Idx() *Family { return f4IdxFamily("F15idx", true) }
