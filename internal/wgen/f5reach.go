package wgen

import (
	"fmt"
	"strings"

	"verif/internal/xrt"
)

// F5reach: executable modules with SEVERAL compute entry points that share helper functions and
// module-scope variables (DESIGN §3 C03-C05: "two entry points sharing helpers and globals").
//
// A module has E entry points (main, ep1, ep2) and H helpers h0..h{H-1}. The enumerated dimensions:
//
//   - the call DAG over the helpers: any set of edges h_i -> h_j with i < j (acyclic by construction);
//   - for every entry point, the set of helpers it calls directly (any subset);
//   - the touch relation: a set of sites (function, global kind) - the function reads and writes the
//     global of that kind in its own body. Kinds: S = read_write storage buffer, P = private variable
//     without initialiser (reads as zero), W = workgroup variable, U = uniform buffer, Q = private
//     variable with an initialiser. Only touched kinds are declared;
//   - the declaration order of the functions (callees first / callers first / entry points first /
//     entry points interleaved with helpers).
//
// Every function folds a distinct id into the accumulator it is handed (x = a*31 + id), touches its
// globals, threads the accumulator through its callees in index order, touches its globals again and
// returns it; an entry point seeds the accumulator from its own input cell and stores the result in
// its own output cell. So which functions ran, in which order, and which state they saw is visible in
// the output cell (and in the storage buffer S). The accumulator itself is a value passed by
// parameter and result, so the global-use sets of the functions are exactly the touch relation plus
// {inp, out} for entry points.
//
// One Case = one (module, executed entry point) pair. The harness executes the entry point named
// `main`, which is always the first entry point declared; the other entry points (ep1 with
// @workgroup_size(2), ep2 with @workgroup_size(3)) stay in the module and keep sharing helpers and
// globals. Since the call sets and touch sites of main and of the other entry points are enumerated
// independently, every module is presented with each of its entry points in the role of `main`
// (up to the names).

// ReachSpec describes one program of F5reach.
type ReachSpec struct {
	E, H  uint8
	Dag   uint8    // bit p: p-th pair (i,j), i<j, in lexicographic order: h_i calls h_j
	Calls [3]uint8 // Calls[e] bit k: entry point e calls h_k directly
	Touch [5]uint8 // Touch[kind] bit f: function f touches the global of that kind (f<H: helper f; f>=H: entry point f-H)
	Order uint8    // index into ReachOrders
}

var reachKinds = []string{"S", "P", "W", "U", "Q"}

// ReachOrders names the declaration orders.
//
//	cE : h_{H-1} .. h_0, then the entry points   (every callee before its callers)
//	hE : h_0 .. h_{H-1}, then the entry points   (helpers call helpers declared later)
//	Eh : entry points, then h_0 .. h_{H-1}        (everything is used before it is declared)
//	Ec : entry points, then h_{H-1} .. h_0
//	mix: main, h_0, ep1, h_1, ep2, h_2, ...       (entry points interleaved with helpers)
var ReachOrders = []string{"cE", "hE", "Eh", "Ec", "mix"}

var reachHelperID = []uint32{101, 103, 107, 109}
var reachEntryID = []uint32{211, 223, 227}
var reachInput = []uint32{7, 1000003, 0x80000001, 5}

func reachPairs(h int) [][2]int {
	var ps [][2]int
	for i := 0; i < h; i++ {
		for j := i + 1; j < h; j++ {
			ps = append(ps, [2]int{i, j})
		}
	}
	return ps
}

func reachFuncName(s *ReachSpec, f int) string {
	if f < int(s.H) {
		return fmt.Sprintf("h%d", f)
	}
	if f == int(s.H) {
		return "main"
	}
	return fmt.Sprintf("ep%d", f-int(s.H))
}

// Sig renders the spec: F5reach/E2H3/<order>/d=01.12/c=0.12/t=S@h2+P@main
func (s *ReachSpec) Sig() string {
	var d []string
	for p, pr := range reachPairs(int(s.H)) {
		if s.Dag&(1<<p) != 0 {
			d = append(d, fmt.Sprintf("%d%d", pr[0], pr[1]))
		}
	}
	if len(d) == 0 {
		d = []string{"-"}
	}
	var c []string
	for e := 0; e < int(s.E); e++ {
		cs := ""
		for k := 0; k < int(s.H); k++ {
			if s.Calls[e]&(1<<k) != 0 {
				cs += fmt.Sprint(k)
			}
		}
		if cs == "" {
			cs = "-"
		}
		c = append(c, cs)
	}
	var t []string
	for k := range reachKinds {
		for f := 0; f < int(s.H+s.E); f++ {
			if s.Touch[k]&(1<<f) != 0 {
				t = append(t, reachKinds[k]+"@"+reachFuncName(s, f))
			}
		}
	}
	if len(t) == 0 {
		t = []string{"-"}
	}
	return fmt.Sprintf("F5reach/E%dH%d/%s/d=%s/c=%s/t=%s", s.E, s.H, ReachOrders[s.Order], strings.Join(d, "."), strings.Join(c, "."), strings.Join(t, "+"))
}

func u32bin(op string, l, r Expr) Expr { return &Bin{Op: op, L: l, R: r, Ty: TU32} }

// reachTouch returns the statements by which a function touches the global of kind k; phase 0 is
// placed before the function's calls, phase 1 after them.
func reachTouch(k, phase int) []Stmt {
	x := func() Expr { return V("x", TU32) }
	set := func(lhs, rhs Expr) Stmt { return &Assign{LHS: lhs, Op: "=", RHS: rhs} }
	switch k {
	case 0: // storage read_write: sb: array<u32, 2>
		sbT := Array(TU32, 2)
		c := func(i uint32) Expr { return Idx(V("sb", sbT), LitU(i)) }
		if phase == 0 {
			return []Stmt{set(c(0), u32bin("+", u32bin("*", c(0), LitU(3)), x())), set(x(), u32bin("^", x(), c(1)))}
		}
		return []Stmt{set(c(1), u32bin("+", c(1), x())), set(x(), u32bin("+", x(), c(0)))}
	case 1, 2, 4: // private / workgroup scalar
		name := "pv"
		m1, m2 := uint32(5), uint32(3)
		if k == 2 {
			name, m1, m2 = "wv", 7, 11
		}
		if k == 4 {
			name, m1, m2 = "pq", 13, 17
		}
		g := func() Expr { return V(name, TU32) }
		if phase == 0 {
			return []Stmt{set(g(), u32bin("+", u32bin("*", g(), LitU(m1)), x())), set(x(), u32bin("^", x(), g()))}
		}
		return []Stmt{set(g(), u32bin("+", g(), x())), set(x(), u32bin("+", x(), u32bin("*", g(), LitU(m2))))}
	default: // uniform: uv: vec4<u32>
		uv := func(c string) Expr { return Swizzle(V("uv", Vec(U32, 4)), c) }
		if phase == 0 {
			return []Stmt{set(x(), u32bin("+", x(), uv("y")))}
		}
		return []Stmt{set(x(), u32bin("^", x(), uv("z")))}
	}
}

// BuildReach materialises one spec.
func BuildReach(s *ReachSpec) *Case {
	H, E := int(s.H), int(s.E)
	m := &Module{}
	ioT := Array(TU32, 4)
	m.Globals = append(m.Globals,
		Global{Name: "inp", Space: "storage", Ty: ioT, Group: 0, Binding: 0},
		Global{Name: "out", Space: "storage", RW: true, Ty: ioT, Group: 0, Binding: 1},
	)
	k0, k1, k2, k3 := xrt.Binding{Group: 0, Binding: 0}, xrt.Binding{Group: 0, Binding: 1}, xrt.Binding{Group: 0, Binding: 2}, xrt.Binding{Group: 0, Binding: 3}
	in := make([]byte, 16)
	for i, v := range reachInput {
		PutU32(in, 4*i, v)
	}
	out := make([]byte, 16)
	for i := range out {
		out[i] = 0xCD
	}
	bufs := xrt.Buffers{k0: in, k1: out}
	bt := map[xrt.Binding]*Type{k0: ioT, k1: ioT}
	var tags []string
	if s.Touch[0] != 0 {
		m.Globals = append(m.Globals, Global{Name: "sb", Space: "storage", RW: true, Ty: Array(TU32, 2), Group: 0, Binding: 2})
		b := make([]byte, 8)
		PutU32(b, 0, 5)
		PutU32(b, 4, 11)
		bufs[k2] = b
		bt[k2] = Array(TU32, 2)
	}
	if s.Touch[1] != 0 {
		m.Globals = append(m.Globals, Global{Name: "pv", Space: "private", Ty: TU32})
	}
	if s.Touch[2] != 0 {
		m.Globals = append(m.Globals, Global{Name: "wv", Space: "workgroup", Ty: TU32})
		tags = append(tags, "workgroup")
	}
	if s.Touch[3] != 0 {
		m.Globals = append(m.Globals, Global{Name: "uv", Space: "uniform", Ty: Vec(U32, 4), Group: 0, Binding: 3})
		b := make([]byte, 16)
		for i, v := range []uint32{13, 17, 19, 23} {
			PutU32(b, 4*i, v)
		}
		bufs[k3] = b
		bt[k3] = Vec(U32, 4)
	}
	if s.Touch[4] != 0 {
		m.Globals = append(m.Globals, Global{Name: "pq", Space: "private", Ty: TU32, Init: LitU(3)})
	}
	x := func() Expr { return V("x", TU32) }
	body := func(f int, seed Expr, id uint32, callees []int) []Stmt {
		b := []Stmt{&VarDecl{Kind: "var", Name: "x", Ty: TU32, Init: u32bin("+", u32bin("*", seed, LitU(31)), LitU(id))}}
		for ph := 0; ph < 2; ph++ {
			for k := range reachKinds {
				if s.Touch[k]&(1<<f) != 0 {
					b = append(b, reachTouch(k, ph)...)
				}
			}
			if ph == 0 {
				for _, c := range callees {
					b = append(b, &Assign{LHS: x(), Op: "=", RHS: &Call{Fn: fmt.Sprintf("h%d", c), Args: []Expr{x()}, Ty: TU32, User: true}})
				}
			}
		}
		return b
	}
	pairs := reachPairs(H)
	helpers := make([]*Func, H)
	for k := 0; k < H; k++ {
		var callees []int
		for p, pr := range pairs {
			if pr[0] == k && s.Dag&(1<<p) != 0 {
				callees = append(callees, pr[1])
			}
		}
		b := body(k, L("a", TU32), reachHelperID[k], callees)
		b = append(b, &Return{X: x()})
		helpers[k] = &Func{Name: fmt.Sprintf("h%d", k), Params: []Param{{Name: "a", Ty: TU32}}, Ret: TU32, Body: b}
	}
	entries := make([]*Func, E)
	for e := 0; e < E; e++ {
		var callees []int
		for k := 0; k < H; k++ {
			if s.Calls[e]&(1<<k) != 0 {
				callees = append(callees, k)
			}
		}
		b := body(H+e, Idx(V("inp", ioT), LitU(uint32(e))), reachEntryID[e], callees)
		b = append(b, &Assign{LHS: Idx(V("out", ioT), LitU(uint32(e))), Op: "=", RHS: x()})
		name := "main"
		if e > 0 {
			name = fmt.Sprintf("ep%d", e)
		}
		entries[e] = &Func{Name: name, Stage: "compute", WG: [3]int{1 + e, 0, 0}, Body: b}
	}
	rev := func() []*Func {
		r := make([]*Func, 0, H)
		for k := H - 1; k >= 0; k-- {
			r = append(r, helpers[k])
		}
		return r
	}
	switch ReachOrders[s.Order] {
	case "cE":
		m.Funcs = append(rev(), entries...)
	case "hE":
		m.Funcs = append(append([]*Func{}, helpers...), entries...)
	case "Eh":
		m.Funcs = append(append([]*Func{}, entries...), helpers...)
	case "Ec":
		m.Funcs = append(append([]*Func{}, entries...), rev()...)
	case "mix":
		for i := 0; i < H || i < E; i++ {
			if i < E {
				m.Funcs = append(m.Funcs, entries[i])
			}
			if i < H {
				m.Funcs = append(m.Funcs, helpers[i])
			}
		}
	}
	return &Case{Sig: s.Sig(), Mod: m, Bufs: bufs, Groups: [3]uint32{1, 1, 1}, BufTypes: bt, Tags: tags}
}

// reachTouchSets enumerates every touch relation with at most maxSites sites over nf functions and
// the given kinds, in a fixed order (by size, then lexicographic in (kind, function)). With sameKind,
// relations of two or more sites are restricted to a single kind (one global touched at several places).
func reachTouchSets(nf int, kinds []int, maxSites int, sameKind bool) [][5]uint8 {
	type site struct{ k, f int }
	var sites []site
	for _, k := range kinds {
		for f := 0; f < nf; f++ {
			sites = append(sites, site{k, f})
		}
	}
	var out [][5]uint8
	var rec func(start, left int, cur [5]uint8, kind int)
	rec = func(start, left int, cur [5]uint8, kind int) {
		if left == 0 {
			out = append(out, cur)
			return
		}
		for i := start; i < len(sites); i++ {
			if sameKind && kind >= 0 && sites[i].k != kind {
				continue
			}
			n := cur
			n[sites[i].k] |= 1 << sites[i].f
			rec(i+1, left-1, n, sites[i].k)
		}
	}
	for n := 0; n <= maxSites && n <= len(sites); n++ {
		rec(0, n, [5]uint8{}, -1)
	}
	return out
}

// reachBlock is one rectangular sub-space of F5reach: all call DAGs over H helpers x all direct-call
// sets of E entry points x the listed declaration orders x every touch relation over the listed kinds
// with at most MaxSites sites (SameKind: relations of two or more sites stay within one kind).
// MaxDirect > 0 restricts the direct-call sets to at most MaxDirect helpers per entry point.
type reachBlock struct {
	E, H      int
	Orders    []int
	Kinds     []int
	MaxSites  int
	SameKind  bool
	MaxDirect int
}

func popcount8(x uint8) int {
	n := 0
	for ; x != 0; x &= x - 1 {
		n++
	}
	return n
}

// covers reports whether the block contains the spec.
func (b *reachBlock) covers(s *ReachSpec) bool {
	if int(s.E) != b.E || int(s.H) != b.H {
		return false
	}
	ok := false
	for _, o := range b.Orders {
		ok = ok || o == int(s.Order)
	}
	if !ok {
		return false
	}
	for e := 0; e < b.E; e++ {
		if b.MaxDirect > 0 && popcount8(s.Calls[e]) > b.MaxDirect {
			return false
		}
	}
	sites, kinds := 0, 0
	for k, t := range s.Touch {
		if t == 0 {
			continue
		}
		kinds++
		sites += popcount8(t)
		in := false
		for _, bk := range b.Kinds {
			in = in || bk == k
		}
		if !in {
			return false
		}
	}
	return sites <= b.MaxSites && !(b.SameKind && kinds > 1)
}

// reachEnumerate lists the union of the blocks in a fixed order without repetitions (a spec belongs
// to the first block that covers it).
func reachEnumerate(blocks []reachBlock) []ReachSpec {
	var out []ReachSpec
	for bi := range blocks {
		b := &blocks[bi]
		touches := reachTouchSets(b.E+b.H, b.Kinds, b.MaxSites, b.SameKind)
		nd := 1 << len(reachPairs(b.H))
		nc := 1
		for e := 0; e < b.E; e++ {
			nc <<= b.H
		}
		for d := 0; d < nd; d++ {
		calls:
			for c := 0; c < nc; c++ {
				var calls [3]uint8
				for e := 0; e < b.E; e++ {
					calls[e] = uint8(c>>(e*b.H)) & (1<<b.H - 1)
					if b.MaxDirect > 0 && popcount8(calls[e]) > b.MaxDirect {
						continue calls
					}
				}
				for _, t := range touches {
				orders:
					for _, o := range b.Orders {
						s := ReachSpec{E: uint8(b.E), H: uint8(b.H), Dag: uint8(d), Calls: calls, Touch: t, Order: uint8(o)}
						for pi := 0; pi < bi; pi++ {
							if blocks[pi].covers(&s) {
								continue orders
							}
						}
						out = append(out, s)
					}
				}
			}
		}
	}
	return out
}

// ReachBlocks gives the bounds of the two tiers (orders by index into ReachOrders; kinds by index
// into S P W U Q).
//
// quick:
//
//	(E,H) in {(2,1),(2,2),(2,3),(3,1),(3,2)}: all DAGs x all call sets x orders cE hE Eh mix x every touch
//	    relation with at most ONE site (5 kinds x every function, or none);
//	(2,1),(2,2): the same with at most TWO sites (any two kinds or one);
//	(2,3): in the orders cE and mix, one global (S P W U) touched at any TWO functions;
//	(3,3): all 8 DAGs x entry points calling at most ONE helper each x orders cE hE Eh mix x at most one site (5 kinds);
//	(2,4): all 64 DAGs x entry points calling at most ONE helper each x orders cE mix x at most one site over S W.
//
// thorough:
//
//	E in {2,3}, H <= 3: all five orders, at most one site (5 kinds);
//	E = 2, H <= 3: all five orders, at most two sites over S P W U;
//	E = 2, H = 4: all 64 DAGs x all call sets x orders cE mix x at most one site over S W.
func ReachBlocks(thorough bool) []reachBlock {
	k5 := []int{0, 1, 2, 3, 4}
	k4 := []int{0, 1, 2, 3}
	if thorough {
		o5 := []int{0, 1, 2, 3, 4}
		var bs []reachBlock
		for e := 2; e <= 3; e++ {
			for h := 1; h <= 3; h++ {
				bs = append(bs, reachBlock{E: e, H: h, Orders: o5, Kinds: k5, MaxSites: 1})
			}
		}
		for h := 1; h <= 3; h++ {
			bs = append(bs, reachBlock{E: 2, H: h, Orders: o5, Kinds: k4, MaxSites: 2})
		}
		bs = append(bs, reachBlock{E: 2, H: 4, Orders: []int{0, 4}, Kinds: []int{0, 2}, MaxSites: 1})
		return bs
	}
	o4 := []int{0, 1, 2, 4}
	var bs []reachBlock
	for _, eh := range [][2]int{{2, 1}, {2, 2}, {2, 3}, {3, 1}, {3, 2}} {
		bs = append(bs, reachBlock{E: eh[0], H: eh[1], Orders: o4, Kinds: k5, MaxSites: 1})
	}
	bs = append(bs,
		reachBlock{E: 2, H: 1, Orders: o4, Kinds: k5, MaxSites: 2},
		reachBlock{E: 2, H: 2, Orders: o4, Kinds: k5, MaxSites: 2},
		reachBlock{E: 2, H: 3, Orders: []int{0, 4}, Kinds: k4, MaxSites: 2, SameKind: true},
		reachBlock{E: 3, H: 3, Orders: o4, Kinds: k5, MaxSites: 1, MaxDirect: 1},
		reachBlock{E: 2, H: 4, Orders: []int{0, 4}, Kinds: []int{0, 2}, MaxSites: 1, MaxDirect: 1},
	)
	return bs
}

// F5Reach returns the family (named F5reach in the quick tier, F5reachT in the thorough tier: the
// index spaces differ).
func F5Reach(thorough bool) *Family {
	specs := reachEnumerate(ReachBlocks(thorough))
	name := "F5reach"
	if thorough {
		name = "F5reachT"
	}
	return &Family{Name: name, Count: len(specs), At: func(i int) *Case {
		c := BuildReach(&specs[i])
		c.Family, c.Index = name, i
		return c
	}}
}
