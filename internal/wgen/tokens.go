package wgen

// An independent, deliberately simple WGSL tokenizer used to enumerate edit sites (C10, C11, C19).
// It is not used as an oracle for what naga's lexer should produce.

type Tok struct {
	Kind       string // ident, number, punct, comment, ws
	Text       string
	Start, End int
}

func isIdentStart(c byte) bool { return c == '_' || (c >= 'a' && c <= 'z') || (c >= 'A' && c <= 'Z') || c >= 0x80 }
func isIdentChar(c byte) bool  { return isIdentStart(c) || (c >= '0' && c <= '9') }
func isDigit(c byte) bool      { return c >= '0' && c <= '9' }

var puncts3 = []string{"<<=", ">>="}
var puncts2 = []string{"->", "==", "!=", "<=", ">=", "&&", "||", "<<", ">>", "++", "--", "+=", "-=", "*=", "/=", "%=", "&=", "|=", "^="}

// Tokenize splits src into tokens including whitespace and comments (so that concatenating the
// texts reproduces src). keepTrivia=false drops ws/comment tokens.
func Tokenize(src string, keepTrivia bool) []Tok {
	var out []Tok
	i := 0
	n := len(src)
	emit := func(kind string, j int) {
		if keepTrivia || (kind != "ws" && kind != "comment") {
			out = append(out, Tok{kind, src[i:j], i, j})
		}
		i = j
	}
	for i < n {
		c := src[i]
		switch {
		case c == ' ' || c == '\t' || c == '\n' || c == '\r' || c == '\v' || c == '\f':
			j := i
			for j < n && (src[j] == ' ' || src[j] == '\t' || src[j] == '\n' || src[j] == '\r' || src[j] == '\v' || src[j] == '\f') {
				j++
			}
			emit("ws", j)
		case c == '/' && i+1 < n && src[i+1] == '/':
			j := i
			for j < n && src[j] != '\n' && src[j] != '\r' {
				j++
			}
			emit("comment", j)
		case c == '/' && i+1 < n && src[i+1] == '*':
			depth := 0
			j := i
			for j < n {
				if j+1 < n && src[j] == '/' && src[j+1] == '*' {
					depth++
					j += 2
				} else if j+1 < n && src[j] == '*' && src[j+1] == '/' {
					depth--
					j += 2
					if depth == 0 {
						break
					}
				} else {
					j++
				}
			}
			emit("comment", j)
		case isIdentStart(c):
			j := i
			for j < n && isIdentChar(src[j]) {
				j++
			}
			emit("ident", j)
		case isDigit(c) || (c == '.' && i+1 < n && isDigit(src[i+1])):
			j := i
			hex := c == '0' && i+1 < n && (src[i+1] == 'x' || src[i+1] == 'X')
			if hex {
				j += 2
			}
			for j < n {
				d := src[j]
				if isDigit(d) || d == '.' || (hex && ((d >= 'a' && d <= 'f') || (d >= 'A' && d <= 'F'))) {
					j++
				} else if (!hex && (d == 'e' || d == 'E')) || (hex && (d == 'p' || d == 'P')) {
					j++
					if j < n && (src[j] == '+' || src[j] == '-') {
						j++
					}
				} else if d == 'l' && j+1 < n && (src[j+1] == 'f' || src[j+1] == 'i' || src[j+1] == 'u') {
					j += 2 // naga's 64-bit literal suffixes lf / li / lu
					break
				} else if d == 'u' || d == 'i' || d == 'f' || d == 'h' {
					j++
					break
				} else {
					break
				}
			}
			emit("number", j)
		default:
			l := 1
			for _, p := range puncts3 {
				if i+3 <= n && src[i:i+3] == p {
					l = 3
				}
			}
			if l == 1 {
				for _, p := range puncts2 {
					if i+2 <= n && src[i:i+2] == p {
						l = 2
					}
				}
			}
			emit("punct", i+l)
		}
	}
	return out
}
