package wgen

import (
	"fmt"
	"math"
	"math/bits"
	"strings"
)

// F6c3 "structure": compile-time evaluation of STRUCTURAL expressions — component access into
// constructors. Enumerated: every constructor shape of vecN (every composition of N into scalar and
// vector arguments, each vector argument written flat / splat / zero value / inferred / converted from
// another element type / nested one level deeper / as a named constant; whole-vector splat, zero value,
// conversion, identity, inferred), of matCxR (from columns in the same argument forms, from scalars,
// zero value, identity), of arrays (explicit / inferred / zero value; scalar, vector, array, matrix and
// struct elements) and of structs (incl. nested), crossed with every access form: each single swizzle
// letter (xyzw and rgba), constant index in three literal spellings, every 2-letter swizzle, 3- and
// 4-letter swizzles, swizzle of swizzle, index of swizzle, index of index, member access and their
// compositions. Component values are pairwise distinct boundary values, so that reading the wrong
// component is visible.

type sAcc struct {
	name string
	kind string // access-form class: s<k> swizzle of k letters, i constant index, f member; steps joined by '>'
	ap   func(b Expr) Expr
}

// SGroup is one (type, constructor shape, literal style) of F6c3 with all its access forms.
type SGroup struct {
	Index    int
	Sig      string // F6c3/<type>/<shape>/<style>
	TypeName string
	Shape    string
	Bare     bool
	Style    string // suffixed, abstract, or intlit (f32/u32 vector components written as abstract integer literals)
	Flat     bool // the canonical flat constructor of its type (reference point for attribution)
	Ty       *Type
	cons     Expr
	parts    []ConstDecl // named constants used as constructor arguments
	structs  []*Type
	accs     []sAcc
}

// NumAccesses is the number of access forms of the group.
func (g *SGroup) NumAccesses() int { return len(g.accs) }

// AccessName names access i.
func (g *SGroup) AccessName(i int) string { return g.accs[i].name }

// AccessKind is the access-form class of access i (letters and index values abstracted away).
func (g *SGroup) AccessKind(i int) string { return g.accs[i].kind }

// TypeClass abstracts sizes away: vec<i32>, mat<f32>, array, struct.
func (g *SGroup) TypeClass() string {
	switch g.Ty.K {
	case TVec:
		return "vec<" + g.Ty.S.String() + ">"
	case TMat:
		return "mat<f32>"
	case TArray:
		return "array"
	}
	return "struct"
}

// Item builds access i. named: the constructor is bound to the constant c (shared by the batch) and
// accessed by name; otherwise it is written inline.
func (g *SGroup) Item(i int, named bool) CItem {
	a := g.accs[i]
	it := CItem{Class: g.TypeName + "|" + g.Shape + "|" + a.name, Structs: g.structs}
	it.Binds = append(it.Binds, g.parts...)
	if named {
		it.Binds = append(it.Binds, ConstDecl{Name: "c", Ty: g.Ty, Init: g.cons})
		it.Result = a.ap(L("c", g.Ty))
	} else {
		it.Result = a.ap(g.cons)
	}
	return it
}

// Whole returns the constructor itself as an item (vector and matrix types only; nil otherwise).
func (g *SGroup) Whole(named bool) *CItem {
	if g.Ty.K != TVec && g.Ty.K != TMat {
		return nil
	}
	it := CItem{Class: g.TypeName + "|" + g.Shape + "|whole", Structs: g.structs}
	it.Binds = append(it.Binds, g.parts...)
	if named {
		it.Binds = append(it.Binds, ConstDecl{Name: "c", Ty: g.Ty, Init: g.cons})
		it.Result = L("c", g.Ty)
	} else {
		it.Result = g.cons
	}
	return &it
}

// ---------------------------------------------------------------- component values

var sValI32 = []uint32{0xFFFFFFFD, 7, 0x80000000, 0x7FFFFFFF, 0xFFFFFFFF, 2, 100, 0xFFFFFF9C, 5, 9, 0xFFFFFFF8, 11, 12, 0xFFFFFFF3, 14, 15}
var sValI32Bare = []uint32{0xFFFFFFFD, 7, 31, 0xFFFFFF9C, 0xFFFFFFFF, 2, 100, 9, 5, 0xFFFFFFF8, 11, 12, 0xFFFFFFF3, 14, 15, 16}
var sValU32 = []uint32{3, 0x80000000, 0xFFFFFFFF, 7, 0x7FFFFFFF, 1, 100, 9, 5, 11, 12, 13, 14, 15, 16, 17}
var sValF32 = fbits(0.5, -1.5, 2.5, -7.5, 100.25, 3, -0.25, 16777216, 1, -2, 4.5, 6, -8.5, 10, 12.5, -14)

// conversion sources
var sSrcF32 = fbits(1.5, -2.5, 3.75, -4.25, 100.5, -7.5, 8.25, 0.5, 9.5, -10.5, 11.25, 12.75, -13.5, 14.5, 15.5, 16.5)
var sSrcI32 = []uint32{0xFFFFFFFF, 2, 0x80000000, 7, 0xFFFFFF9C, 5, 0, 12, 0xFFFFFFF3, 1, 3, 4, 6, 8, 9, 10}
var sSrcI32Bool = []uint32{0, 5, 0xFFFFFFFF, 0, 1, 0, 0, 7, 0, 2, 0, 0, 3, 0, 4, 0}

// sVal: the value of flat component p. val: valuation index (booleans need two valuations to make
// every pair of positions differ in one of them).
func sVal(k SK, p int, bare bool, val int) uint32 {
	switch k {
	case I32:
		if bare {
			return sValI32Bare[p%16]
		}
		return sValI32[p%16]
	case U32:
		return sValU32[p%16]
	case F32:
		return sValF32[p%16]
	}
	return uint32(p>>uint(val)) & 1
}

func sSrc(to SK, bare bool) (SK, []uint32) {
	switch to {
	case I32:
		return F32, sSrcF32
	case U32:
		if bare {
			return I32, []uint32{1, 2, 100, 7, 31, 5, 0, 12, 13, 1, 3, 4, 6, 8, 9, 10} // an abstract integer converted to u32 must be representable
		}
		return I32, sSrcI32
	case F32:
		if bare {
			return I32, sValI32Bare
		}
		return I32, []uint32{0xFFFFFFFD, 7, 100, 0xFFFFFF9C, 1, 0, 12, 0xFFFFFFF3, 5, 9, 0xFFFFFFF8, 11, 2, 3, 14, 15}
	}
	return I32, sSrcI32Bool
}

// ---------------------------------------------------------------- argument forms

// sArg: one way of writing a constructor argument that supplies the flat components [p, p+n).
type sArg struct {
	name  string
	e     Expr
	parts []ConstDecl
}

type sCtx struct {
	k      SK
	bare   bool
	intlit bool // components of kind c.k are written as abstract INTEGER literals (f32 and u32 vectors)
	val    int
	np     *int // counter for named parts
}

var sValF32Int = fbits(3, -7, 100, 16777216, -1, 2, 5, 9, -8, 11, 12, -13, 14, 15, 16, 17)

// value of flat component p of kind k
func (c *sCtx) value(k SK, p int) uint32 {
	if c.intlit && k == F32 && k == c.k {
		return sValF32Int[p%16]
	}
	return sVal(k, p, c.bare, c.val)
}

func (c *sCtx) lit(k SK, bits uint32) Expr {
	if c.intlit && k == c.k {
		switch k {
		case F32:
			// an abstract integer literal in a position that requires f32 (value-preserving conversion)
			return &Lit{Ty: TI32, Bits: uint32(int32(math.Float32frombits(bits))), Bare: true}
		case U32:
			return &Lit{Ty: TU32, Bits: bits, Bare: true}
		}
	}
	return litOf(Scalar(k), []uint32{bits}, c.bare)
}

func (c *sCtx) lits(k SK, p, n int, src []uint32) []Expr {
	out := make([]Expr, n)
	for i := range out {
		if src != nil {
			out[i] = c.lit(k, src[(p+i)%16])
		} else {
			out[i] = c.lit(k, c.value(k, p+i))
		}
	}
	return out
}

// vecForms: the ways of writing a vecn<k> argument for flat positions [p, p+n). depth 0 admits one more
// level of nesting.
func (c *sCtx) vecForms(p, n, depth int) []sArg {
	t := Vec(c.k, n)
	var out []sArg
	flat := &Cons{Ty: t, Args: c.lits(c.k, p, n, nil)}
	out = append(out, sArg{name: fmt.Sprintf("v%d", n), e: flat})
	out = append(out, sArg{name: fmt.Sprintf("v%ds", n), e: &Cons{Ty: t, Args: c.lits(c.k, p, 1, nil)}})
	out = append(out, sArg{name: fmt.Sprintf("v%dz", n), e: &Cons{Ty: t}})
	if !c.intlit { // (an inferred constructor over integer literals would be an integer vector)
		out = append(out, sArg{name: fmt.Sprintf("v%di", n), e: &Cons{Ty: t, Args: c.lits(c.k, p, n, nil), Infer: true}})
	}
	sk, src := sSrc(c.k, c.bare)
	out = append(out, sArg{name: fmt.Sprintf("v%dc", n), e: &Cons{Ty: t, Args: []Expr{&Cons{Ty: Vec(sk, n), Args: c.lits(sk, p, n, src)}}}})
	nm := fmt.Sprintf("p%d", *c.np)
	*c.np++
	out = append(out, sArg{name: fmt.Sprintf("v%dN", n), e: L(nm, t), parts: []ConstDecl{{Name: nm, Ty: t, Init: flat}}})
	if depth == 0 && n >= 3 {
		// one level deeper: every composition of n into at least two parts with flat vector parts
		for _, comp := range compositions(n) {
			if len(comp) < 2 || allOnes(comp) {
				continue
			}
			var args []Expr
			var names []string
			q := p
			for _, sz := range comp {
				if sz == 1 {
					args = append(args, c.lit(c.k, c.value(c.k, q)))
					names = append(names, "s")
				} else {
					args = append(args, &Cons{Ty: Vec(c.k, sz), Args: c.lits(c.k, q, sz, nil)})
					names = append(names, fmt.Sprintf("v%d", sz))
				}
				q += sz
			}
			out = append(out, sArg{name: fmt.Sprintf("v%d(%s)", n, strings.Join(names, ",")), e: &Cons{Ty: t, Args: args}})
		}
	}
	return out
}

func allOnes(c []int) bool {
	for _, x := range c {
		if x != 1 {
			return false
		}
	}
	return true
}

// compositions of n into ordered parts >= 1.
func compositions(n int) [][]int {
	if n == 0 {
		return [][]int{{}}
	}
	var out [][]int
	for first := 1; first <= n; first++ {
		for _, rest := range compositions(n - first) {
			out = append(out, append([]int{first}, rest...))
		}
	}
	return out
}

type sShape struct {
	name  string
	e     Expr
	parts []ConstDecl
	flat  bool
}

// vecShapes: every way of writing a vecn<k> value (top level).
func (c *sCtx) vecShapes(p, n int) []sShape {
	t := Vec(c.k, n)
	var out []sShape
	for _, comp := range compositions(n) {
		if len(comp) == 1 {
			continue // a single vector argument: the identity / conversion forms below
		}
		// per-part alternatives
		alts := make([][]sArg, len(comp))
		q := p
		for i, sz := range comp {
			if sz == 1 {
				alts[i] = []sArg{{name: "s", e: c.lit(c.k, c.value(c.k, q))}}
			} else {
				alts[i] = c.vecForms(q, sz, 0)
			}
			q += sz
		}
		idx := make([]int, len(comp))
		for {
			var args []Expr
			var names []string
			var parts []ConstDecl
			for i := range comp {
				a := alts[i][idx[i]]
				args = append(args, a.e)
				names = append(names, a.name)
				parts = append(parts, a.parts...)
			}
			nm := strings.Join(names, ",")
			out = append(out, sShape{name: nm, e: &Cons{Ty: t, Args: args}, parts: parts, flat: allOnes(comp)})
			// the same arguments under an inferred constructor vecN(...): element type from the arguments
			allPlain := true
			for i := range comp {
				if idx[i] != 0 {
					allPlain = false
				}
			}
			if allPlain && !c.intlit {
				out = append(out, sShape{name: "infer:" + nm, e: &Cons{Ty: t, Args: args, Infer: true}, parts: parts})
			}
			// next combination
			i := len(comp) - 1
			for i >= 0 {
				idx[i]++
				if idx[i] < len(alts[i]) {
					break
				}
				idx[i] = 0
				i--
			}
			if i < 0 {
				break
			}
		}
	}
	// whole-vector forms
	out = append(out, sShape{name: "splat", e: &Cons{Ty: t, Args: c.lits(c.k, p, 1, nil)}})
	out = append(out, sShape{name: "zero", e: &Cons{Ty: t}})
	sk, src := sSrc(c.k, c.bare)
	out = append(out, sShape{name: "conv", e: &Cons{Ty: t, Args: []Expr{&Cons{Ty: Vec(sk, n), Args: c.lits(sk, p, n, src)}}}})
	out = append(out, sShape{name: "ident", e: &Cons{Ty: t, Args: []Expr{&Cons{Ty: t, Args: c.lits(c.k, p, n, nil)}}}})
	return out
}

// ---------------------------------------------------------------- access forms

var swzSets = [2]string{"xyzw", "rgba"}

func idxLit(i int, spelling int) Expr {
	switch spelling % 3 {
	case 0:
		return LitI(int32(i))
	case 1:
		return LitU(uint32(i))
	}
	return &Lit{Ty: TI32, Bits: uint32(i), Bare: true}
}

var idxSpell = [3]string{"i", "u", ""}

func accIdx(i, sp int) sAcc {
	return sAcc{name: fmt.Sprintf("[%d%s]", i, idxSpell[sp%3]), kind: "i", ap: func(b Expr) Expr { return Idx(b, idxLit(i, sp)) }}
}

func accSwz(pat string) sAcc {
	return sAcc{name: "." + pat, kind: fmt.Sprintf("s%d", len(pat)), ap: func(b Expr) Expr { return Swizzle(b, pat) }}
}

func accThen(a, b sAcc) sAcc {
	return sAcc{name: a.name + b.name, kind: a.kind + ">" + b.kind, ap: func(x Expr) Expr { return b.ap(a.ap(x)) }}
}

func swzPatterns(n, length int, all bool) []string {
	letters := "xyzw"[:n]
	var out []string
	var rec func(cur string)
	rec = func(cur string) {
		if len(cur) == length {
			out = append(out, cur)
			return
		}
		for i := 0; i < n; i++ {
			rec(cur + string(letters[i]))
		}
	}
	rec("")
	if all || length <= 2 {
		return out
	}
	// bounded subset: patterns of pairwise distinct letters, constant patterns, and patterns with one repeat at the ends
	var sub []string
	for _, p := range out {
		distinct := true
		for i := 0; i < len(p); i++ {
			for j := i + 1; j < len(p); j++ {
				if p[i] == p[j] {
					distinct = false
				}
			}
		}
		constant := strings.Count(p, string(p[0])) == len(p)
		ends := p[0] == p[len(p)-1] && strings.Count(p, string(p[0])) == 2 && length == 3
		if distinct || constant || ends {
			sub = append(sub, p)
		}
	}
	return sub
}

// vecAccesses: the access forms on a vector of n components. full: all 3- and 4-letter swizzles.
func vecAccesses(n int, full bool) []sAcc {
	var out []sAcc
	for s, set := range swzSets {
		for i := 0; i < n; i++ {
			_ = s
			out = append(out, accSwz(string(set[i])))
		}
	}
	for i := 0; i < n; i++ {
		for sp := 0; sp < 3; sp++ {
			out = append(out, accIdx(i, sp))
		}
	}
	for l := 2; l <= 4; l++ {
		for _, p := range swzPatterns(n, l, full) {
			out = append(out, accSwz(p))
		}
	}
	// the colour letters in multi-letter form (one rotation per length)
	for l := 2; l <= 4; l++ {
		p := ""
		for i := 0; i < l; i++ {
			p += string("rgba"[(i+1)%n])
		}
		out = append(out, accSwz(p))
	}
	// swizzle of swizzle, index of swizzle
	for _, p := range swzPatterns(n, 2, true) {
		out = append(out, accThen(accSwz(p), accSwz("x")), accThen(accSwz(p), accSwz("y")), accThen(accSwz(p), accSwz("yx")), accThen(accSwz(p), accIdx(1, len(out))))
	}
	rev := "wzyx"[4-n:]
	for i := 0; i < n; i++ {
		out = append(out, accThen(accSwz(rev), accSwz(string("xyzw"[i]))))
	}
	if n >= 3 {
		out = append(out, accThen(accSwz(rev), accSwz("zx")), accThen(accSwz("zyx"), accSwz("yz")), accThen(accThen(accSwz(rev), accSwz("zy")), accSwz("y")))
	}
	return out
}

// shortVecAccesses: onward access forms for a vector reached through another access.
func shortVecAccesses(n int) []sAcc {
	var out []sAcc
	for i := 0; i < n; i++ {
		out = append(out, accSwz(string("xyzw"[i])), accIdx(i, i))
	}
	out = append(out, accSwz("yx"))
	if n >= 3 {
		out = append(out, accSwz("zxy"), accThen(accSwz("zy"), accSwz("x")))
	}
	return out
}

// ---------------------------------------------------------------- groups

func styleName(bare bool) string {
	if bare {
		return "abstract"
	}
	return "suffixed"
}

func bareKinds(k SK) []bool {
	if k == I32 || k == F32 {
		return []bool{false, true}
	}
	return []bool{false}
}

// F6c3Groups enumerates the groups. full: all 3-/4-letter swizzles and n = 2..4 for every element kind.
func F6c3Groups(full bool) []*SGroup {
	var out []*SGroup
	add := func(g *SGroup) {
		g.Index = len(out)
		if g.Style == "" {
			g.Style = styleName(g.Bare)
		}
		g.Sig = fmt.Sprintf("F6c3/%s/%s/%s", g.TypeName, g.Shape, g.Style)
		out = append(out, g)
	}
	// ---- vectors
	for _, k := range []SK{I32, U32, F32, Bool} {
		type vstyle struct {
			bare, intlit bool
			name         string
		}
		styles := []vstyle{{false, false, "suffixed"}}
		if k == I32 || k == F32 {
			styles = append(styles, vstyle{true, false, "abstract"})
		}
		if k == U32 || k == F32 {
			styles = append(styles, vstyle{false, true, "intlit"})
		}
		for _, st := range styles {
			nval := 1
			if k == Bool {
				nval = 2
			}
			for val := 0; val < nval; val++ {
				for n := 2; n <= 4; n++ {
					np := 0
					c := &sCtx{k: k, bare: st.bare, intlit: st.intlit, val: val, np: &np}
					accs := vecAccesses(n, full)
					tn := Vec(k, n).String()
					if k == Bool {
						tn += fmt.Sprintf("#%d", val)
					}
					for _, sh := range c.vecShapes(0, n) {
						add(&SGroup{TypeName: tn, Shape: sh.name, Bare: st.bare, Style: st.name, Flat: sh.flat, Ty: Vec(k, n), cons: sh.e, parts: sh.parts, accs: accs})
					}
				}
			}
		}
	}
	// ---- matrices
	for _, bare := range []bool{false, true} {
		for cc := 2; cc <= 4; cc++ {
			for rr := 2; rr <= 4; rr++ {
				mt := Mat(cc, rr)
				np := 0
				c := &sCtx{k: F32, bare: bare, np: &np}
				var accs []sAcc
				for ci := 0; ci < cc; ci++ {
					for sp := 0; sp < 3; sp++ {
						accs = append(accs, accIdx(ci, sp))
					}
					for _, a := range shortVecAccesses(rr) {
						accs = append(accs, accThen(accIdx(ci, ci+1), a))
					}
				}
				// columns: each column in each argument form, the others flat
				colForms := make([][]sArg, cc)
				for ci := 0; ci < cc; ci++ {
					colForms[ci] = c.vecForms(ci*rr, rr, 0)
				}
				mk := func(pick []int, infer bool) sShape {
					var args []Expr
					var names []string
					var parts []ConstDecl
					for ci := 0; ci < cc; ci++ {
						a := colForms[ci][pick[ci]]
						args = append(args, a.e)
						names = append(names, a.name)
						parts = append(parts, a.parts...)
					}
					nm := "cols:" + strings.Join(names, ",")
					if infer {
						nm = "infer:" + nm
					}
					return sShape{name: nm, e: &Cons{Ty: mt, Args: args, Infer: infer}, parts: parts}
				}
				base := make([]int, cc)
				shapes := []sShape{mk(base, false), mk(base, true)}
				shapes[0].flat = true
				for ci := 0; ci < cc; ci++ {
					for f := 1; f < len(colForms[ci]); f++ {
						pk := make([]int, cc)
						pk[ci] = f
						shapes = append(shapes, mk(pk, false))
					}
				}
				shapes = append(shapes, sShape{name: "scalars", e: &Cons{Ty: mt, Args: c.lits(F32, 0, cc*rr, nil)}})
				shapes = append(shapes, sShape{name: "zero", e: &Cons{Ty: mt}})
				shapes = append(shapes, sShape{name: "ident", e: &Cons{Ty: mt, Args: []Expr{mk(base, false).e}}})
				for _, sh := range shapes {
					add(&SGroup{TypeName: mt.String(), Shape: sh.name, Bare: bare, Flat: sh.flat, Ty: mt, cons: sh.e, parts: sh.parts, accs: accs})
				}
			}
		}
	}
	// ---- structs (declared once; used by the struct groups and as array elements)
	sa := Struct("SA", Member{Name: "a", T: TI32}, Member{Name: "b", T: Vec(F32, 3)}, Member{Name: "c", T: TU32})
	sb := Struct("SB", Member{Name: "m", T: Vec(U32, 2)}, Member{Name: "n", T: Array(TI32, 3)}, Member{Name: "p", T: TF32}, Member{Name: "q", T: TBool})
	sc := Struct("SC", Member{Name: "s", T: sa}, Member{Name: "t", T: TI32}, Member{Name: "u", T: Vec(I32, 4)})
	sd := Struct("SD", Member{Name: "m", T: Mat(2, 2)}, Member{Name: "v", T: Vec(I32, 4)}, Member{Name: "w", T: Vec(Bool, 2)})
	// ---- arrays
	type elemT struct {
		t  *Type
		ns []int
		st []*Type
	}
	elems := []elemT{
		{TI32, []int{1, 2, 3, 4}, nil}, {TU32, []int{1, 2, 3, 4}, nil}, {TF32, []int{1, 2, 3, 4}, nil}, {TBool, []int{2, 4}, nil},
		{Vec(I32, 2), []int{2, 3}, nil}, {Vec(F32, 3), []int{2, 3}, nil}, {Vec(U32, 4), []int{2}, nil}, {Vec(Bool, 2), []int{2}, nil},
		{Array(TI32, 2), []int{3}, nil}, {Array(TF32, 3), []int{2}, nil}, {Array(Vec(I32, 2), 2), []int{2}, nil},
		{Mat(2, 2), []int{2}, nil}, {Mat(3, 2), []int{2}, nil}, {sa, []int{2}, []*Type{sa}},
	}
	for _, el := range elems {
		for _, n := range el.ns {
			at := Array(el.t, n)
			for _, bare := range []bool{false, true} {
				if bare && !typeHasBareKind(el.t) {
					continue
				}
				np := 0
				elemsE := make([]Expr, n)
				per := el.t.NumScalars()
				for i := range elemsE {
					elemsE[i] = sValue(el.t, i*per, bare, &np)
				}
				var accs []sAcc
				for i := 0; i < n; i++ {
					for _, a := range onward(el.t) {
						if a.name == "" {
							for sp := 0; sp < 3; sp++ {
								accs = append(accs, accIdx(i, sp))
							}
						} else {
							accs = append(accs, accThen(accIdx(i, i), a))
						}
					}
				}
				shapes := []sShape{{name: "typed", e: &Cons{Ty: at, Args: elemsE}, flat: true}, {name: "zero", e: &Cons{Ty: at}}}
				if el.t.K == TScalar || el.t.K == TVec || el.t.K == TMat {
					shapes = append(shapes, sShape{name: "infer", e: &Cons{Ty: at, Args: elemsE, Infer: true}})
				}
				if el.t.K == TVec && el.t.N >= 3 {
					// element 1 written with a nested vector argument
					c := &sCtx{k: el.t.S, bare: bare, np: &np}
					alt := append([]Expr(nil), elemsE...)
					alt[1] = &Cons{Ty: el.t, Args: []Expr{&Cons{Ty: Vec(el.t.S, 2), Args: c.lits(el.t.S, per, 2, nil)}, c.lits(el.t.S, per+2, 1, nil)[0]}}
					if el.t.N == 4 {
						alt[1].(*Cons).Args = append(alt[1].(*Cons).Args, c.lits(el.t.S, per+3, 1, nil)[0])
					}
					shapes = append(shapes, sShape{name: "typed:e1=(v2,s..)", e: &Cons{Ty: at, Args: alt}})
				}
				for _, sh := range shapes {
					add(&SGroup{TypeName: at.String(), Shape: sh.name, Bare: bare, Flat: sh.flat, Ty: at, cons: sh.e, structs: el.st, accs: accs})
				}
			}
		}
	}
	// ---- structs
	for _, st := range []*Type{sa, sb, sc, sd} {
		decl := []*Type{st}
		if st == sc {
			decl = []*Type{sa, sc}
		}
		for _, bare := range []bool{false, true} {
			np := 0
			accs := onward(st)
			shapes := []sShape{{name: "cons", e: sValue(st, 0, bare, &np), flat: true}, {name: "zero", e: &Cons{Ty: st}}}
			// every vector member written with a nested vector argument (v2 first, then scalars)
			alt := sValue(st, 0, bare, &np).(*Cons)
			off := 0
			changed := false
			for mi, mb := range st.Members {
				if mb.T.K == TVec && mb.T.N >= 3 {
					c := &sCtx{k: mb.T.S, bare: bare, np: &np}
					args := []Expr{&Cons{Ty: Vec(mb.T.S, 2), Args: c.lits(mb.T.S, off, 2, nil)}}
					for q := 2; q < mb.T.N; q++ {
						args = append(args, c.lits(mb.T.S, off+q, 1, nil)[0])
					}
					alt.Args[mi] = &Cons{Ty: mb.T, Args: args}
					changed = true
				}
				off += mb.T.NumScalars()
			}
			if changed {
				shapes = append(shapes, sShape{name: "cons:vec=(v2,s..)", e: alt})
			}
			for _, sh := range shapes {
				add(&SGroup{TypeName: st.Name, Shape: sh.name, Bare: bare, Flat: sh.flat, Ty: st, cons: sh.e, structs: decl, accs: accs})
			}
		}
	}
	return out
}

func typeHasBareKind(t *Type) bool {
	switch t.K {
	case TScalar, TVec, TMat:
		return t.S == I32 || t.S == F32
	case TArray:
		return typeHasBareKind(t.Elem)
	case TStruct:
		for _, m := range t.Members {
			if typeHasBareKind(m.T) {
				return true
			}
		}
	}
	return false
}

// sValB: as sVal, with booleans following the parity of popcount(p+1) (aggregates have one valuation).
func sValB(k SK, p int, bare bool) uint32 {
	if k == Bool {
		return uint32(bits.OnesCount(uint(p+1))) & 1
	}
	return sVal(k, p, bare, 0)
}

// sValue: the canonical constructor of a value of type t whose flat components start at position p.
func sValue(t *Type, p int, bare bool, np *int) Expr {
	switch t.K {
	case TScalar:
		return litOf(t, []uint32{sValB(t.S, p, bare)}, bare)
	case TVec:
		args := make([]Expr, t.N)
		for i := range args {
			args[i] = litOf(Scalar(t.S), []uint32{sValB(t.S, p+i, bare)}, bare)
		}
		return &Cons{Ty: t, Args: args}
	case TMat:
		c := &sCtx{k: F32, bare: bare, np: np}
		var cols []Expr
		for ci := 0; ci < t.C; ci++ {
			cols = append(cols, &Cons{Ty: Vec(F32, t.N), Args: c.lits(F32, p+ci*t.N, t.N, nil)})
		}
		return &Cons{Ty: t, Args: cols}
	case TArray:
		var el []Expr
		per := t.Elem.NumScalars()
		for i := 0; i < t.Len; i++ {
			el = append(el, sValue(t.Elem, p+i*per, bare, np))
		}
		return &Cons{Ty: t, Args: el}
	case TStruct:
		var ms []Expr
		off := p
		for _, m := range t.Members {
			ms = append(ms, sValue(m.T, off, bare, np))
			off += m.T.NumScalars()
		}
		return &Cons{Ty: t, Args: ms}
	}
	panic("sValue " + t.String())
}

// onward: every access path from a value of type t down to a scalar or vector ("" = the value itself,
// when it is a scalar or vector).
func onward(t *Type) []sAcc {
	switch t.K {
	case TScalar:
		return []sAcc{{name: "", ap: func(b Expr) Expr { return b }}}
	case TVec:
		out := []sAcc{{name: "", ap: func(b Expr) Expr { return b }}}
		return append(out, shortVecAccesses(t.N)...)
	case TMat:
		var out []sAcc
		for ci := 0; ci < t.C; ci++ {
			for _, a := range onward(Vec(t.S, t.N)) {
				if a.name == "" {
					out = append(out, accIdx(ci, ci))
				} else {
					out = append(out, accThen(accIdx(ci, ci), a))
				}
			}
		}
		return out
	case TArray:
		var out []sAcc
		for i := 0; i < t.Len; i++ {
			for _, a := range onward(t.Elem) {
				if a.name == "" {
					out = append(out, accIdx(i, i+1))
				} else {
					out = append(out, accThen(accIdx(i, i+1), a))
				}
			}
		}
		return out
	case TStruct:
		var out []sAcc
		for _, m := range t.Members {
			name := m.Name
			fa := sAcc{name: "." + name, kind: "f", ap: func(b Expr) Expr { return Fld(b, name) }}
			for _, a := range onward(m.T) {
				if a.name == "" {
					out = append(out, fa)
				} else {
					out = append(out, accThen(fa, a))
				}
			}
		}
		return out
	}
	panic("onward " + t.String())
}
