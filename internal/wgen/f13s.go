package wgen

import (
	"fmt"

	"verif/internal/xrt"
)

// F13s: operation sequences on one function-local aggregate. A local `var s: S` (S = struct {a: u32, b: u32,
// v: vec2<u32>}) receives every sequence of up to `depth` operations from a small alphabet — store to a field,
// store to a vector component of a field, whole-value read into a `let` (folded into the accumulator), whole-value
// write from a constructor, whole-value copy from a second local, field read, update through a pointer argument —
// and the sequence is placed straight-line, with its tail under an `if`, or inside a two-iteration loop. What is
// observed is the accumulator after the sequence: scalar replacement of aggregates, register promotion and
// dead-store elimination must keep every whole-value read consistent with the field stores before it.

var f13Ops = []string{"sa", "sb", "sv", "rd", "wr", "cp", "ra", "pa"}

type f13b struct {
	st  *Type
	nid uint32
	nl  int
}

func (b *f13b) id() Expr { b.nid++; return LitU(b.nid) }

func f13Struct() *Type {
	return Struct("S", Member{Name: "a", T: TU32}, Member{Name: "b", T: TU32}, Member{Name: "v", T: Vec(U32, 2)})
}

func (b *f13b) op(code string) []Stmt {
	s := func() Expr { return V("s", b.st) }
	acc := func() Expr { return V("acc", TU32) }
	mix := func(x Expr) Stmt {
		return &Assign{LHS: acc(), Op: "=", RHS: &Bin{Op: "+", L: &Bin{Op: "*", L: acc(), R: LitU(31), Ty: TU32}, R: x, Ty: TU32}}
	}
	fold := func(x Expr) Expr { // a*7 + b*3 + v.x*5 + v.y
		v := Fld(x, "v")
		t1 := &Bin{Op: "*", L: Fld(x, "a"), R: LitU(7), Ty: TU32}
		t2 := &Bin{Op: "*", L: Fld(x, "b"), R: LitU(3), Ty: TU32}
		t3 := &Bin{Op: "*", L: Swizzle(v, "x"), R: LitU(5), Ty: TU32}
		return &Bin{Op: "+", L: &Bin{Op: "+", L: &Bin{Op: "+", L: t1, R: t2, Ty: TU32}, R: t3, Ty: TU32}, R: Swizzle(v, "y"), Ty: TU32}
	}
	switch code {
	case "sa":
		return []Stmt{&Assign{LHS: Fld(s(), "a"), Op: "=", RHS: &Bin{Op: "+", L: &Bin{Op: "*", L: Fld(s(), "a"), R: LitU(31), Ty: TU32}, R: b.id(), Ty: TU32}}}
	case "sb":
		return []Stmt{&Assign{LHS: Fld(s(), "b"), Op: "=", RHS: &Bin{Op: "+", L: L("c0", TU32), R: b.id(), Ty: TU32}}}
	case "sv":
		return []Stmt{&Assign{LHS: Swizzle(Fld(s(), "v"), "y"), Op: "=", RHS: &Bin{Op: "+", L: Swizzle(Fld(s(), "v"), "x"), R: b.id(), Ty: TU32}}}
	case "rd":
		b.nl++
		n := fmt.Sprintf("t%d", b.nl)
		return []Stmt{&VarDecl{Kind: "let", Name: n, Ty: b.st, Init: s()}, mix(fold(L(n, b.st)))}
	case "wr":
		return []Stmt{&Assign{LHS: s(), Op: "=", RHS: &Cons{Ty: b.st, Args: []Expr{b.id(), L("c1", TU32), &Cons{Ty: Vec(U32, 2), Args: []Expr{L("c0", TU32), b.id()}}}}}}
	case "cp":
		return []Stmt{&Assign{LHS: s(), Op: "=", RHS: V("s2", b.st)}, &Assign{LHS: Fld(V("s2", b.st), "a"), Op: "=", RHS: &Bin{Op: "+", L: Fld(V("s2", b.st), "a"), R: b.id(), Ty: TU32}}}
	case "ra":
		return []Stmt{mix(&Bin{Op: "+", L: Fld(s(), "a"), R: Swizzle(Fld(s(), "v"), "x"), Ty: TU32})}
	case "pa":
		return []Stmt{&ExprStmt{X: &Call{Fn: "bump", Args: []Expr{&AddrOf{X: s(), Ty: Ptr("function", b.st)}, b.id()}, User: true}}}
	}
	panic("f13 op")
}

var f13Wraps = []string{"flat", "tail-if", "loop"}

// f13Seqs enumerates all op sequences of length 1..depth (as index lists into f13Ops).
func f13Seqs(depth int) [][]int {
	var out [][]int
	var cur []int
	var rec func(d int)
	rec = func(d int) {
		if len(cur) > 0 {
			out = append(out, append([]int(nil), cur...))
		}
		if d == depth {
			return
		}
		for i := range f13Ops {
			cur = append(cur, i)
			rec(d + 1)
			cur = cur[:len(cur)-1]
		}
	}
	rec(0)
	return out
}

func buildF13s(seq []int, wrap string) *Case {
	st := f13Struct()
	b := &f13b{st: st}
	m := &Module{Structs: []*Type{st}}
	inT := Array(Vec(U32, 2), 0)
	outT := Array(TU32, 0)
	m.Globals = append(m.Globals,
		Global{Name: "inp", Space: "storage", Ty: inT, Group: 0, Binding: 0},
		Global{Name: "out", Space: "storage", RW: true, Ty: outT, Group: 0, Binding: 1})
	pt := Ptr("function", st)
	bump := &Func{Name: "bump", Params: []Param{{Name: "p", Ty: pt}, {Name: "k", Ty: TU32}}, Body: []Stmt{
		&Assign{LHS: Fld(&Deref{X: L("p", pt), Ty: st}, "b"), Op: "=", RHS: &Bin{Op: "+", L: Fld(&Deref{X: L("p", pt), Ty: st}, "b"), R: L("k", TU32), Ty: TU32}},
	}}
	m.Funcs = append(m.Funcs, bump)
	var ops [][]Stmt
	sig := ""
	for _, i := range seq {
		ops = append(ops, b.op(f13Ops[i]))
		sig += f13Ops[i] + "."
	}
	flat := func(xs [][]Stmt) []Stmt {
		var out []Stmt
		for _, x := range xs {
			out = append(out, x...)
		}
		return out
	}
	gi := L("gi", TU32)
	body := []Stmt{
		&VarDecl{Kind: "let", Name: "gi", Ty: TU32, Init: Swizzle(L("gid", Vec(U32, 3)), "x")},
		&VarDecl{Kind: "let", Name: "c0", Ty: TU32, Init: Swizzle(Idx(V("inp", inT), gi), "x")},
		&VarDecl{Kind: "let", Name: "c1", Ty: TU32, Init: Swizzle(Idx(V("inp", inT), gi), "y")},
		&VarDecl{Kind: "var", Name: "acc", Ty: TU32, Init: LitU(7)},
		&VarDecl{Kind: "var", Name: "s", Ty: st},
		&VarDecl{Kind: "var", Name: "s2", Ty: st, Init: &Cons{Ty: st, Args: []Expr{LitU(11), L("c0", TU32), &Cons{Ty: Vec(U32, 2), Args: []Expr{L("c1", TU32), LitU(13)}}}}},
	}
	switch wrap {
	case "flat":
		body = append(body, flat(ops)...)
	case "tail-if":
		h := (len(ops) + 1) / 2
		body = append(body, flat(ops[:h])...)
		body = append(body, &If{Cond: &Bin{Op: ">", L: L("c0", TU32), R: LitU(1), Ty: TBool}, Then: flat(ops[h:])})
	case "loop":
		kv := V("k", TU32)
		body = append(body, &For{Init: &VarDecl{Kind: "var", Name: "k", Ty: TU32, Init: LitU(0)}, Cond: &Bin{Op: "<", L: kv, R: LitU(2), Ty: TBool},
			Upd: &IncDec{LHS: kv, Inc: true}, Body: flat(ops)})
	}
	// final observation: accumulator and the aggregate itself
	fin := &Bin{Op: "^", L: V("acc", TU32), R: &Bin{Op: "+", L: &Bin{Op: "*", L: Fld(V("s", st), "a"), R: LitU(17), Ty: TU32},
		R: &Bin{Op: "+", L: Fld(V("s", st), "b"), R: Swizzle(Fld(V("s", st), "v"), "y"), Ty: TU32}, Ty: TU32}, Ty: TU32}
	body = append(body, &Assign{LHS: Idx(V("out", outT), gi), Op: "=", RHS: fin})
	m.Funcs = append(m.Funcs, &Func{Name: "main", Stage: "compute", WG: [3]int{1, 0, 0},
		Params: []Param{{Name: "gid", Ty: Vec(U32, 3), Attr: "@builtin(global_invocation_id)"}}, Body: body})
	const n = 4
	in := make([]byte, n*8)
	for i := 0; i < n; i++ {
		PutU32(in, i*8, uint32(i))
		PutU32(in, i*8+4, uint32(3-i))
	}
	out := make([]byte, n*4)
	for i := range out {
		out[i] = 0xCD
	}
	k0, k1 := xrt.Binding{Group: 0, Binding: 0}, xrt.Binding{Group: 0, Binding: 1}
	return &Case{Sig: "F13s/" + wrap + "/" + sig, Mod: m, Bufs: xrt.Buffers{k0: in, k1: out}, Groups: [3]uint32{n, 1, 1},
		BufTypes: map[xrt.Binding]*Type{k0: Array(Vec(U32, 2), n), k1: Array(TU32, n)}}
}

// F13s returns the aggregate-local operation-sequence family with sequences up to the given depth.
func F13s(depth int) *Family {
	seqs := f13Seqs(depth)
	name := fmt.Sprintf("F13sd%d", depth)
	return &Family{Name: name, Count: len(seqs) * len(f13Wraps), At: func(i int) *Case {
		c := buildF13s(seqs[i/len(f13Wraps)], f13Wraps[i%len(f13Wraps)])
		c.Family, c.Index = name, i
		return c
	}}
}
