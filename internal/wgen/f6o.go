package wgen

import (
	"fmt"
	"math"
	"strings"

	"verif/internal/xrt"
)

// F6o: pipeline-overridable constants. Each program has a primary override X (bool/i32/u32/f32,
// with or without @id, with or without a default) and a derived override Y = X op literal. The
// reference is the same program with X replaced by a const holding the supplied value converted
// to X's type (or X's default), evaluated with ordinary WGSL semantics.

type F6oProg struct {
	Sig     string
	XType   *Type
	HasID   bool
	Default *uint32 // bits of the default literal; nil = no default
	DerivOp string  // operator of Y = X <op> lit
	DerivTy *Type
	derive  func(x Expr) Expr
	Site    string // extra use site: "none", "global-init", "nested"
}

func f32b(f float32) uint32 { return math.Float32bits(f) }

// F6oPrograms enumerates the override programs.
func F6oPrograms() []*F6oProg {
	var out []*F6oProg
	type tinfo struct {
		t    *Type
		defs []uint32
	}
	types := []tinfo{{TI32, []uint32{3, 0xFFFFFFFB}}, {TU32, []uint32{3, 0x80000001}}, {TF32, []uint32{f32b(1.5), f32b(-2)}}, {TBool, []uint32{1, 0}}}
	for _, ti := range types {
		t := ti.t
		type dv struct {
			op string
			ty *Type
			f  func(x Expr) Expr
		}
		var derivs []dv
		lit := func(v uint32) Expr { return &Lit{Ty: t, Bits: v} }
		bin := func(op string, r Expr, rt *Type) func(x Expr) Expr {
			return func(x Expr) Expr { return &Bin{Op: op, L: x, R: r, Ty: rt} }
		}
		switch t.S {
		case I32, U32:
			two := lit(2)
			for _, op := range []string{"+", "-", "*", "/", "%", "&", "|", "^"} {
				derivs = append(derivs, dv{op, t, bin(op, two, t)})
			}
			derivs = append(derivs, dv{"<<", t, bin("<<", LitU(1), t)}, dv{">>", t, bin(">>", LitU(1), t)})
			for _, op := range []string{"==", "<", ">="} {
				derivs = append(derivs, dv{op, TBool, bin(op, lit(3), TBool)})
			}
			derivs = append(derivs, dv{"neg", t, func(x Expr) Expr {
				if t.S == U32 {
					return &Un{Op: "~", X: x, Ty: t}
				}
				return &Un{Op: "-", X: x, Ty: t}
			}})
			derivs = append(derivs, dv{"conv-f32", TF32, func(x Expr) Expr { return &Cons{Ty: TF32, Args: []Expr{x}} }})
		case F32:
			h := &Lit{Ty: TF32, Bits: f32b(0.5)}
			for _, op := range []string{"+", "-", "*", "/"} {
				derivs = append(derivs, dv{op, t, bin(op, h, t)})
			}
			derivs = append(derivs, dv{"<", TBool, bin("<", h, TBool)}, dv{"neg", t, func(x Expr) Expr { return &Un{Op: "-", X: x, Ty: t} }})
			derivs = append(derivs, dv{"conv-i32", TI32, func(x Expr) Expr { return &Cons{Ty: TI32, Args: []Expr{x}} }})
		case Bool:
			derivs = append(derivs, dv{"!", t, func(x Expr) Expr { return &Un{Op: "!", X: x, Ty: t} }},
				dv{"&&", t, bin("&&", LitB(true), t)}, dv{"||", t, bin("||", LitB(false), t)}, dv{"==", t, bin("==", LitB(true), t)},
				dv{"select", TU32, func(x Expr) Expr { return &Call{Fn: "select", Args: []Expr{LitU(10), LitU(20), x}, Ty: TU32} }})
		}
		for _, d := range derivs {
			for _, hasID := range []bool{false, true} {
				defs := []*uint32{nil}
				for i := range ti.defs {
					defs = append(defs, &ti.defs[i])
				}
				for di, df := range defs {
					site := []string{"none", "global-init", "nested"}[(di+len(d.op))%3]
					p := &F6oProg{XType: t, HasID: hasID, Default: df, DerivOp: d.op, DerivTy: d.ty, derive: d.f, Site: site}
					ds := "nodefault"
					if df != nil {
						ds = fmt.Sprintf("default%d", di)
					}
					p.Sig = fmt.Sprintf("F6o/%s/%s/id=%v/%s/%s", t, d.op, hasID, ds, site)
					out = append(out, p)
				}
			}
		}
	}
	return out
}

// Values returns the pipeline-constant alphabet for X (as float64 bit-exact Go values).
func (p *F6oProg) Values() []float64 {
	switch p.XType.S {
	case I32:
		return []float64{0, 1, -1, 7, 2147483647, -2147483648}
	case U32:
		return []float64{0, 1, 7, 4294967295, 2147483648}
	case F32:
		return []float64{0, 1, -1, 2.5, 16777216}
	}
	return []float64{0, 1, 2.5, -1}
}

func (p *F6oProg) convert(v float64) uint32 {
	switch p.XType.S {
	case I32:
		return uint32(int32(v))
	case U32:
		return uint32(v)
	case F32:
		return f32b(float32(v))
	}
	if v != 0 {
		return 1
	}
	return 0
}

func toU32Expr(e Expr) Expr {
	switch e.T().S {
	case U32:
		return e
	case Bool:
		return &Cons{Ty: TU32, Args: []Expr{e}}
	}
	return &Bitcast{Ty: TU32, X: e}
}

// build constructs the module with X as a const of the given bits (isConst) — the override text
// is derived from its printed form.
func (p *F6oProg) module(xbits uint32) *Module {
	m := &Module{}
	x := L("X", p.XType)
	m.Consts = append(m.Consts, ConstDecl{Name: "X", Ty: p.XType, Init: &Lit{Ty: p.XType, Bits: xbits}, Explicit: true})
	m.Consts = append(m.Consts, ConstDecl{Name: "Y", Ty: p.DerivTy, Init: p.derive(x), Explicit: true})
	oT := Array(TU32, 0)
	m.Globals = append(m.Globals, Global{Name: "o", Space: "storage", RW: true, Ty: oT, Group: 0, Binding: 0})
	o := func(k int) Expr { return Idx(V("o", oT), LitU(uint32(k))) }
	body := []Stmt{
		&Assign{LHS: o(0), Op: "=", RHS: toU32Expr(x)},
		&Assign{LHS: o(1), Op: "=", RHS: toU32Expr(L("Y", p.DerivTy))},
	}
	switch p.Site {
	case "global-init":
		m.Globals = append(m.Globals, Global{Name: "g", Space: "private", Ty: p.XType, Init: x})
		body = append(body, &Assign{LHS: o(2), Op: "=", RHS: toU32Expr(V("g", p.XType))})
	case "nested":
		// use inside nested control flow (blocks shared by a shallow module clone)
		var cond Expr
		switch p.XType.S {
		case Bool:
			cond = x
		case F32:
			cond = &Bin{Op: ">", L: x, R: &Lit{Ty: TF32, Bits: f32b(0.25)}, Ty: TBool}
		default:
			cond = &Bin{Op: "!=", L: x, R: &Lit{Ty: p.XType, Bits: 0}, Ty: TBool}
		}
		body = append(body, &VarDecl{Kind: "var", Name: "k", Ty: TU32, Init: LitU(0)},
			&Loop{Body: []Stmt{&IncDec{LHS: V("k", TU32), Inc: true}, &If{Cond: &Bin{Op: ">", L: V("k", TU32), R: LitU(2), Ty: TBool}, Then: []Stmt{&Break{}}},
				&If{Cond: cond, Then: []Stmt{&Assign{LHS: o(2), Op: "=", RHS: &Bin{Op: "+", L: toU32Expr(L("Y", p.DerivTy)), R: V("k", TU32), Ty: TU32}}},
					Else: []Stmt{&Assign{LHS: o(2), Op: "=", RHS: &Bin{Op: "^", L: toU32Expr(x), R: V("k", TU32), Ty: TU32}}}, HasElse: true}}})
	default:
		body = append(body, &Assign{LHS: o(2), Op: "=", RHS: LitU(42)})
	}
	m.Funcs = append(m.Funcs, &Func{Name: "main", Stage: "compute", WG: [3]int{1, 0, 0}, Body: body})
	return m
}

// OverrideSource is the WGSL text with X and Y declared as overrides.
func (p *F6oProg) OverrideSource() string {
	var xb uint32
	if p.Default != nil {
		xb = *p.Default
	}
	src := Print(p.module(xb))
	lines := strings.Split(src, "\n")
	for i, ln := range lines {
		if strings.HasPrefix(ln, "const X:") {
			decl := "override X: " + p.XType.String()
			if p.Default != nil {
				decl += " =" + strings.SplitN(ln, "=", 2)[1]
			} else {
				decl += ";"
			}
			if p.HasID {
				decl = "@id(7) " + decl
			}
			lines[i] = decl
		}
		if strings.HasPrefix(ln, "const Y:") {
			lines[i] = "override" + strings.TrimPrefix(ln, "const")
		}
	}
	return strings.Join(lines, "\n")
}

// Substituted returns the reference case for a supplied value (nil = use the default). ok=false
// when there is neither a value nor a default (resolution must then fail).
func (p *F6oProg) Substituted(v *float64) (*Case, bool) {
	var xb uint32
	switch {
	case v != nil:
		xb = p.convert(*v)
	case p.Default != nil:
		xb = *p.Default
	default:
		return nil, false
	}
	m := p.module(xb)
	k := xrt.Binding{Group: 0, Binding: 0}
	ob := make([]byte, 12)
	for i := range ob {
		ob[i] = 0xCD
	}
	return &Case{Sig: p.Sig, Mod: m, Bufs: xrt.Buffers{k: ob}, Groups: [3]uint32{1, 1, 1}, BufTypes: map[xrt.Binding]*Type{k: Array(TU32, 3)}}, true
}
