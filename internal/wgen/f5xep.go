package wgen

import (
	"fmt"
	"strings"
)

// F5EP: modules with 2-3 entry points of mixed stages over one pool of resources, each entry point
// using its own subset. The source can be printed with the entry points in any order, and with one
// entry point alone (same globals): what a backend decides for one entry point must not depend on
// which other entry points exist, in which order they are written, or which options they were given.

type F5EPModule struct {
	Sig       string
	Resources []F5Resource
	Entries   []F5Entry // in canonical order
	globals   string
	entrySrc  []string
}

// Source prints the module with the entry points in the given order (indices into Entries).
func (m *F5EPModule) Source(order []int) string {
	var sb strings.Builder
	sb.WriteString(m.globals)
	for _, i := range order {
		sb.WriteString(m.entrySrc[i])
	}
	return sb.String()
}

// Model returns the interface model of the module printed in the given order.
func (m *F5EPModule) Model(order []int) *F5Program {
	p := &F5Program{Sig: fmt.Sprintf("%s/order=%v", m.Sig, order), Src: m.Source(order), Resources: m.Resources}
	for _, i := range order {
		p.Entries = append(p.Entries, m.Entries[i])
	}
	return p
}

var f5epPool = []F5Resource{
	{Name: "ubo", Kind: "uniform", Group: 0, Binding: 0},
	{Name: "sro", Kind: "storage_ro", Group: 0, Binding: 3},
	{Name: "srw", Kind: "storage_rw", Group: 1, Binding: 0},
	{Name: "texa", Kind: "texture", Group: 1, Binding: 1},
	{Name: "smp", Kind: "sampler", Group: 1, Binding: 2},
	{Name: "texb", Kind: "texture", Group: 0, Binding: 1},
}

// use patterns: per entry index, the pool indices used
var f5epPatterns = [][][]int{
	{{0, 1}, {1, 2, 3, 4}, {0, 2, 5}},
	{{0, 1, 3, 4}, {0, 5}, {1, 2}},
	{{0, 1, 2, 3, 4, 5}, {0, 1, 2, 3, 4, 5}, {0, 1, 2, 3, 4, 5}},
}

var f5epStages = [][]string{{"compute", "compute"}, {"vertex", "fragment"}, {"fragment", "compute"}, {"vertex", "fragment", "compute"}, {"compute", "compute", "compute"}}

// F5EPModules enumerates stage sets x use patterns.
func F5EPModules() []*F5EPModule {
	var out []*F5EPModule
	for _, stages := range f5epStages {
		for pi, pat := range f5epPatterns {
			m := &F5EPModule{Sig: fmt.Sprintf("F5EP/%s/uses%d", strings.Join(stages, ","), pi), Resources: f5epPool}
			var g strings.Builder
			for _, r := range f5epPool {
				g.WriteString(f5Decl(r) + "\n")
			}
			m.globals = g.String()
			for ei, st := range stages {
				e := F5Entry{Name: fmt.Sprintf("ep%d_%s", ei, st), Stage: st}
				var body strings.Builder
				body.WriteString("  var acc = vec4<f32>(0.0);\n")
				used := map[int]bool{}
				for _, ri := range pat[ei] {
					if f5Allowed(f5epPool[ri].Kind, st) {
						used[ri] = true
					}
				}
				for ri, r := range f5epPool {
					if !used[ri] {
						continue
					}
					if r.Kind == "sampler" {
						if !used[3] {
							continue
						}
						body.WriteString("  acc += textureSampleLevel(texa, smp, vec2<f32>(0.5, 0.5), 0.0);\n")
					} else {
						body.WriteString("  " + f5Use(r, st) + "\n")
					}
					e.Uses = append(e.Uses, r.Name)
				}
				var sig string
				switch st {
				case "compute":
					e.Workgroup = [3]int{1 + ei, 2, 1}
					e.Inputs = []F5IO{{Name: "gid", Location: -1, Builtin: "global_invocation_id", Type: "vec3<u32>"}}
					sig = fmt.Sprintf("@compute @workgroup_size(%d, 2, 1)\nfn %s(@builtin(global_invocation_id) gid: vec3<u32>) {\n%s}\n", 1+ei, e.Name, body.String())
				case "vertex":
					e.Inputs = []F5IO{{Name: "a", Location: 0, Type: "vec4<f32>"}}
					e.Outputs = []F5IO{{Name: "pos", Location: -1, Builtin: "position", Type: "vec4<f32>"}}
					sig = fmt.Sprintf("@vertex\nfn %s(@location(0) a: vec4<f32>) -> @builtin(position) vec4<f32> {\n%s  return acc + a;\n}\n", e.Name, body.String())
				case "fragment":
					e.Inputs = []F5IO{{Name: "uv", Location: 0, Type: "vec2<f32>"}}
					e.Outputs = []F5IO{{Name: "col", Location: 0, Type: "vec4<f32>"}}
					sig = fmt.Sprintf("@fragment\nfn %s(@location(0) uv: vec2<f32>) -> @location(0) vec4<f32> {\n%s  return acc + uv.xyxy;\n}\n", e.Name, body.String())
				}
				m.Entries = append(m.Entries, e)
				m.entrySrc = append(m.entrySrc, sig)
			}
			out = append(out, m)
		}
	}
	return out
}

// F5XPermutations exposes the permutation enumeration (lexicographic order) to the checks.
func F5XPermutations(n int) [][]int { return f5xPerms(n) }
