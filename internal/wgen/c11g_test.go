package wgen

import "testing"

// Every rendered program must carry its construct at the recorded site, inside the recorded extent.
func TestC11GSites(t *testing.T) {
	ctxs := C11Ctxs(true)
	n := 0
	for fi := range C11Forms {
		f := &C11Forms[fi]
		for ci := range ctxs {
			c := &ctxs[ci]
			if c.Depth == 3 && (!f.Basic || ci%5 != 0) {
				continue
			}
			for gi := range C11Groups {
				g := &C11Groups[gi]
				for fnk := 0; fnk < 3; fnk++ {
					if !C11Applicable(f, g, fnk) {
						continue
					}
					texts := []string{g.Control}
					if c.Depth == 1 {
						for _, o := range g.Offs {
							texts = append(texts, o.Text)
						}
					}
					for _, tx := range texts {
						p := C11Render(f, c, (fi+ci+gi)%3, fnk, gi%2, g, tx)
						n++
						if p.Site < p.Lo || p.Site+len(tx) > p.Hi || p.Src[p.Site:p.Site+len(tx)] != tx {
							t.Fatalf("site mismatch: %s/%s/%s %q", f.Name, c.Name, g.Name, tx)
						}
					}
				}
			}
		}
	}
	for hi := range C11ModHosts {
		h := &C11ModHosts[hi]
		for _, ord := range C11ModOrders(h) {
			for gi := range C11Groups {
				g := &C11Groups[gi]
				if g.Kind != h.Kind || (g.Kind != 't' && !g.ModOK) {
					continue
				}
				p := C11RenderMod(h, ord, g, g.Control)
				n++
				if p.Src[p.Site:p.Site+len(g.Control)] != g.Control || p.Site < p.Lo || p.Site >= p.Hi {
					t.Fatalf("module site mismatch: %s/%d/%s", h.Name, ord, g.Name)
				}
			}
		}
	}
	for _, deep := range []bool{false, true} {
		sks := C11Skeletons(deep)
		pairs := 0
		for _, sk := range sks {
			for _, pr := range sk.Pairs() {
				pairs++
				if deep && pairs%37 != 0 {
					continue
				}
				p := sk.Render(pr, pairs%3, 0, pairs%3, false)
				n++
				if p.Src[p.Site:p.Site+1] != "k" || p.Site < p.Lo || p.Site >= p.Hi {
					t.Fatalf("scope site mismatch: %s %v", sk.Name, pr)
				}
			}
		}
		t.Logf("deep=%v skeletons=%d pairs=%d", deep, len(sks), pairs)
	}
	t.Logf("rendered %d programs", n)
}
