package wgen

import (
	"fmt"
	"math"
	"strings"
	"sync"

	"verif/internal/xrt"
)

// F15x: hostile-data access programs for C15 whose *index expressions*, *access chains* and
// *aggregate holders* are enumerated (F15acc/F15idx only ever index with one plain loaded value):
//
//	F15xf  index-expression forms x access sites
//	F15xc  2- and 3-level access chains x assignments of {i, j} to the levels x index sources
//	F15xv  aggregates held by value x holders x sources
//
// A family is a list of *programs*; every program carries the list of hostile input tuples it is
// to be run on (only the contents of the `idx` buffer differ), so that a check can compile a
// program once and execute it on every tuple. Flat() presents the same space as an ordinary
// Family (one case per program x tuple) for replay.

// X15Prog is one program together with its hostile input tuples.
type X15Prog struct {
	Sig    string     // construct signature (without the input values)
	Inputs [][]uint32 // words of the idx buffer: [i, j, c, dyn]
	Build  func(in []uint32) *Case
}

// X15Family is an indexed finite set of programs.
type X15Family struct {
	Name string
	N    int
	Prog func(p int) *X15Prog

	once sync.Once
	offs []int
}

// Offsets returns the flat index of the first case of every program (and the total as last entry).
func (f *X15Family) Offsets() []int {
	f.once.Do(func() {
		f.offs = make([]int, f.N+1)
		for p := 0; p < f.N; p++ {
			f.offs[p+1] = f.offs[p] + len(f.Prog(p).Inputs)
		}
	})
	return f.offs
}

// CaseOf builds the k-th case of program p with its family name and flat index filled in.
func (f *X15Family) CaseOf(pr *X15Prog, p, k int) *Case {
	c := pr.Build(pr.Inputs[k])
	c.Family, c.Index = f.Name, f.Offsets()[p]+k
	return c
}

// Flat presents the family as program x input cases.
func (f *X15Family) Flat() *Family {
	offs := f.Offsets()
	return &Family{Name: f.Name, Count: offs[f.N], At: func(i int) *Case {
		lo, hi := 0, f.N
		for hi-lo > 1 {
			mid := (lo + hi) / 2
			if offs[mid] <= i {
				lo = mid
			} else {
				hi = mid
			}
		}
		pr := f.Prog(lo)
		return f.CaseOf(pr, lo, i-offs[lo])
	}}
}

func x15InSig(in []uint32) string {
	s := make([]string, len(in))
	for i, v := range in {
		s[i] = fmt.Sprintf("%#x", v)
	}
	return "idx=" + strings.Join(s, ",")
}

func dedupU32(xs []uint32) []uint32 {
	seen := map[uint32]bool{}
	var out []uint32
	for _, x := range xs {
		if !seen[x] {
			seen[x] = true
			out = append(out, x)
		}
	}
	return out
}

// X15Hostile: representatives for a value that is *transformed* before it indexes an object of
// length n: the guard partition of n, the values whose double/half/negation/remainder land on the
// partition, and the extremes of both signednesses.
func X15Hostile(n int) []uint32 {
	u := uint32(n)
	return dedupU32([]uint32{0, u - 1, u, u + 1, 2 * u, 0x7FFFFFFF, 0x80000000, 0xFFFFFFFF, 1 - u, -u, -u - 1})
}

// ---------------------------------------------------------------- containers and sites

type x15Step struct {
	dyn   bool
	field string
	fixed bool // a constant index (konst)
	konst int
}

// x15Cont: a variable type and the access path applied to it.
type x15Cont struct {
	name string
	t    *Type
	path []x15Step
	rtN  int // > 0: t holds a runtime-sized array; the bound buffer gives it this many elements
}

func dynPath(n int) []x15Step {
	p := make([]x15Step, n)
	for i := range p {
		p[i].dyn = true
	}
	return p
}

func (c x15Cont) fixed() *Type {
	if c.rtN > 0 {
		return Fix(c.t, c.rtN)
	}
	return c.t
}

// lens returns the number of valid indices of every dynamic level and the type the path ends at.
func (c x15Cont) lens() ([]int, *Type) {
	t := c.fixed()
	var out []int
	for _, s := range c.path {
		if s.fixed {
			t = elemOf(t)
			continue
		}
		if s.dyn {
			switch t.K {
			case TArray:
				out = append(out, t.Len)
			case TVec:
				out = append(out, t.N)
			case TMat:
				out = append(out, t.C)
			}
			t = elemOf(t)
			continue
		}
		for _, m := range t.Members {
			if m.Name == s.field {
				t = m.T
			}
		}
	}
	return out, t
}

// chain applies the path to root; idx(k) gives the index expression of dynamic level k.
func (c x15Cont) chain(root Expr, idx func(level int) Expr) Expr {
	e := root
	k := 0
	for _, s := range c.path {
		switch {
		case s.fixed:
			e = Idx(e, LitU(uint32(s.konst)))
		case s.dyn:
			e = Idx(e, idx(k))
			k++
		default:
			e = Fld(e, s.field)
		}
	}
	return e
}

// mkValX is mkVal extended to structs.
func mkValX(t *Type, base *uint32, dyn Expr) Expr {
	switch t.K {
	case TStruct:
		var a []Expr
		for _, m := range t.Members {
			a = append(a, mkValX(m.T, base, dyn))
			dyn = nil
		}
		return &Cons{Ty: t, Args: a}
	case TArray:
		var a []Expr
		for i := 0; i < t.Len; i++ {
			a = append(a, mkValX(t.Elem, base, dyn))
			dyn = nil
		}
		return &Cons{Ty: t, Args: a}
	}
	return mkVal(t, base, dyn)
}

var x15Spaces = []string{"storage", "uniform", "private", "workgroup", "function", "value"}
var x15Ops = []string{"read", "write", "compound", "ptrarg-read", "ptrarg-write"}

type x15Site struct {
	cont      x15Cont
	space, op string
}

func (s x15Site) valid() bool {
	_, et := s.cont.lens()
	writes := s.op == "write" || s.op == "compound" || s.op == "ptrarg-write"
	ptr := strings.HasPrefix(s.op, "ptrarg")
	switch {
	case s.cont.rtN > 0 && s.space != "storage":
		return false
	case writes && (s.space == "uniform" || s.space == "value"):
		return false
	case ptr && s.space != "function" && s.space != "private":
		return false
	case s.op == "compound" && et.K != TScalar && et.K != TVec:
		return false
	case s.space == "uniform" && !UniformValid(s.cont.t):
		return false
	}
	return true
}

func x15Sites(conts []x15Cont, spaces, ops []string) []x15Site {
	var out []x15Site
	for _, c := range conts {
		for _, sp := range spaces {
			for _, op := range ops {
				s := x15Site{c, sp, op}
				if s.valid() {
					out = append(out, s)
				}
			}
		}
	}
	return out
}

// x15Var is one index variable: its name and type inside a callee, and the expression that
// denotes it in the entry point (a fresh expression per use).
type x15Var struct {
	name string
	ty   *Type
	main func() Expr
}

type x15Body struct {
	pre    []Stmt              // declarations placed first (after `let dyn`)
	wrap   func([]Stmt) []Stmt // optional: wraps the access statements (loop forms)
	fns    []*Func             // helper functions
	consts []ConstDecl         // module-scope constants
}

const x15IdxWords = 4

func x15Fill(t *Type, sz int, seed uint32) []byte {
	b := make([]byte, sz)
	for w := 0; w*4 < sz; w++ {
		v := seed + uint32(w)
		if t.Leaf(0) == F32 {
			v = math.Float32bits(float32(seed%1000 + uint32(w)))
		}
		PutU32(b, w*4, v)
	}
	return b
}

// buildX15Site builds one program: container x space x operation, the dynamic levels indexed by
// vars[levels[k]].
func buildX15Site(sig string, s x15Site, vars []x15Var, levels []int, bd x15Body, in []uint32) *Case {
	cont := s.cont
	t := cont.t
	_, et := cont.lens()
	m := &Module{}
	structsOf(t, map[string]bool{}, &m.Structs)
	idxT := Array(TU32, 0)
	m.Globals = append(m.Globals,
		Global{Name: "idx", Space: "storage", Ty: idxT, Group: 0, Binding: 0},
		Global{Name: "o", Space: "storage", RW: true, Ty: Array(TU32, 0), Group: 0, Binding: 1},
	)
	k := func(n uint32) xrt.Binding { return xrt.Binding{Group: 0, Binding: n} }
	bufs := xrt.Buffers{}
	btypes := map[xrt.Binding]*Type{}
	ib := make([]byte, 4*x15IdxWords)
	for w := 0; w < x15IdxWords && w < len(in); w++ {
		PutU32(ib, 4*w, in[w])
	}
	bufs[k(0)], btypes[k(0)] = ib, Array(TU32, x15IdxWords)
	ow := cont.fixed().NumScalars()
	if s.space == "storage" || ow < et.NumScalars() {
		ow = et.NumScalars()
	}
	if ow < 4 {
		ow = 4
	}
	ob := make([]byte, 4*ow)
	for i := range ob {
		ob[i] = 0xCD
	}
	bufs[k(1)], btypes[k(1)] = ob, Array(TU32, ow)

	body := []Stmt{&VarDecl{Kind: "let", Name: "dyn", Ty: TU32, Init: Idx(V("idx", idxT), LitU(3))}}
	dyn := L("dyn", TU32)
	body = append(body, bd.pre...)
	base := uint32(11)
	var x Expr
	switch s.space {
	case "storage":
		m.Globals = append(m.Globals, Global{Name: "x", Space: "storage", RW: true, Ty: t, Group: 0, Binding: 2})
		ft := cont.fixed()
		bufs[k(2)], btypes[k(2)] = x15Fill(ft, SizeOf(ft), 101), ft
		x = V("x", t)
	case "uniform":
		m.Globals = append(m.Globals, Global{Name: "x", Space: "uniform", Ty: t, Group: 0, Binding: 2})
		bufs[k(2)], btypes[k(2)] = x15Fill(t, SizeOf(t), 201), t
		x = V("x", t)
	case "private":
		m.Globals = append(m.Globals, Global{Name: "x", Space: "private", Ty: t})
		x = V("x", t)
		body = append(body, &Assign{LHS: x, Op: "=", RHS: mkValX(t, &base, dyn)})
	case "workgroup":
		m.Globals = append(m.Globals, Global{Name: "x", Space: "workgroup", Ty: t})
		x = V("x", t)
		body = append(body, &Assign{LHS: x, Op: "=", RHS: mkValX(t, &base, dyn)}, &Barrier{Kind: "workgroupBarrier"})
	case "function":
		body = append(body, &VarDecl{Kind: "var", Name: "x", Ty: t, Init: mkValX(t, &base, dyn)})
		x = V("x", t)
	case "value":
		body = append(body, &VarDecl{Kind: "let", Name: "x", Ty: t, Init: mkValX(t, &base, dyn)})
		x = L("x", t)
	}
	mainIdx := func(level int) Expr { return vars[levels[level]].main() }
	nv := uint32(701)
	var access, post []Stmt
	dumpAll := func() {
		if s.space == "storage" {
			return // the buffer itself is compared
		}
		st, _ := dumpTo(x, t, 0)
		post = append(post, st...)
	}
	readInto := func(e Expr) {
		if et.K == TScalar {
			access = append(access, setO(0, asU32(e)))
			return
		}
		access = append(access, &VarDecl{Kind: "let", Name: "e", Ty: et, Init: e})
		st, _ := dumpTo(L("e", et), et, 0)
		access = append(access, st...)
	}
	switch s.op {
	case "read":
		readInto(cont.chain(x, mainIdx))
	case "write":
		access = append(access, &Assign{LHS: cont.chain(x, mainIdx), Op: "=", RHS: mkVal(et, &nv, dyn)})
		dumpAll()
	case "compound":
		access = append(access, &Assign{LHS: cont.chain(x, mainIdx), Op: "+=", RHS: mkVal(et, &nv, dyn)})
		dumpAll()
	case "ptrarg-read", "ptrarg-write":
		pt := Ptr(s.space, t)
		f := &Func{Name: "cal", Params: []Param{{Name: "p", Ty: pt}}}
		args := []Expr{&AddrOf{X: x, Ty: pt}}
		for _, v := range vars {
			f.Params = append(f.Params, Param{Name: v.name, Ty: v.ty})
			args = append(args, v.main())
		}
		inner := cont.chain(&Deref{X: L("p", pt), Ty: t}, func(level int) Expr { v := vars[levels[level]]; return L(v.name, v.ty) })
		if s.op == "ptrarg-read" {
			f.Ret = et
			f.Body = []Stmt{&Return{X: inner}}
			m.Funcs = append(m.Funcs, f)
			readInto(&Call{Fn: "cal", Args: args, Ty: et, User: true})
		} else {
			f.Params = append(f.Params, Param{Name: "dyn", Ty: TU32})
			args = append(args, dyn)
			f.Body = []Stmt{&Assign{LHS: inner, Op: "=", RHS: mkVal(et, &nv, L("dyn", TU32))}}
			m.Funcs = append(m.Funcs, f)
			access = append(access, &ExprStmt{X: &Call{Fn: "cal", Args: args, User: true}})
			dumpAll()
		}
	}
	if bd.wrap != nil {
		access = bd.wrap(access)
	}
	body = append(body, access...)
	body = append(body, post...)
	m.Funcs = append(m.Funcs, bd.fns...)
	m.Consts = append(m.Consts, bd.consts...)
	m.Funcs = append(m.Funcs, &Func{Name: "main", Stage: "compute", WG: [3]int{1, 0, 0}, Body: body})
	return &Case{Sig: sig + "/" + x15InSig(in), Mod: m, Bufs: bufs, Groups: [3]uint32{1, 1, 1}, BufTypes: btypes}
}

// ---------------------------------------------------------------- index variables

func x15Ty(signed bool) *Type {
	if signed {
		return TI32
	}
	return TU32
}

func x15Sg(signed bool) string {
	if signed {
		return "i32"
	}
	return "u32"
}

// x15Load is the expression that loads word w of the idx buffer as the given type.
func x15Load(w int, signed bool) Expr {
	var e Expr = Idx(V("idx", Array(TU32, 0)), LitU(uint32(w)))
	if signed {
		e = &Bitcast{Ty: TI32, X: e}
	}
	return e
}

// x15MkVar declares index variable `name` from word w. source: "let" (one value, every use is the
// same expression), "var" (a function variable, every use is a separate load of it), "direct"
// (every use is a separate load of the buffer word).
func x15MkVar(name string, w int, signed bool, source string, pre *[]Stmt) x15Var {
	ty := x15Ty(signed)
	switch source {
	case "let":
		*pre = append(*pre, &VarDecl{Kind: "let", Name: name, Ty: ty, Init: x15Load(w, signed)})
		return x15Var{name, ty, func() Expr { return L(name, ty) }}
	case "var":
		*pre = append(*pre, &VarDecl{Kind: "var", Name: name, Ty: ty, Init: x15Load(w, signed)})
		return x15Var{name, ty, func() Expr { return V(name, ty) }}
	}
	return x15Var{name, ty, func() Expr { return x15Load(w, signed) }}
}

// ---------------------------------------------------------------- F15xf: index-expression forms

type x15FormCtx struct {
	m      *Module
	ty     *Type
	n      int
	i      func() Expr // the hostile value (a let)
	raw    func() Expr // the expression that loads it
	j      func() Expr // a second run-time value of the same type (idx[1], always 0)
	c      func() Expr // a run-time bool (idx[2] != 0)
	pre    []Stmt
	wrap   func([]Stmt) []Stmt
	fns    []*Func
	consts []ConstDecl
}

func (c *x15FormCtx) lit(v int) Expr {
	if c.ty.S == I32 {
		return LitI(int32(v))
	}
	return LitU(uint32(v))
}
func (c *x15FormCtx) bin(op string, l, r Expr) Expr { return &Bin{Op: op, L: l, R: r, Ty: c.ty} }
func (c *x15FormCtx) call(fn string, a ...Expr) Expr {
	return &Call{Fn: fn, Args: a, Ty: c.ty}
}

type x15Form struct {
	name       string
	signedOnly bool
	cflag      uint32 // value of idx[2]
	build      func(c *x15FormCtx) Expr
}

func x15Forms() []x15Form {
	var fs []x15Form
	add := func(name string, b func(c *x15FormCtx) Expr) { fs = append(fs, x15Form{name: name, build: b}) }
	add("plain", func(c *x15FormCtx) Expr { return c.i() })
	add("add1", func(c *x15FormCtx) Expr { return c.bin("+", c.i(), c.lit(1)) })
	add("sub1", func(c *x15FormCtx) Expr { return c.bin("-", c.i(), c.lit(1)) })
	add("mul2", func(c *x15FormCtx) Expr { return c.bin("*", c.i(), c.lit(2)) })
	add("div2", func(c *x15FormCtx) Expr { return c.bin("/", c.i(), c.lit(2)) })
	add("shr1", func(c *x15FormCtx) Expr { return &Bin{Op: ">>", L: c.i(), R: LitU(1), Ty: c.ty} })
	add("or1", func(c *x15FormCtx) Expr { return c.bin("|", c.i(), c.lit(1)) })
	add("addj", func(c *x15FormCtx) Expr { return c.bin("+", c.i(), c.j()) })
	for d := -1; d <= 1; d++ {
		d := d
		tag := [...]string{"n-1", "n", "n+1"}[d+1]
		add("mod:"+tag, func(c *x15FormCtx) Expr { return c.bin("%", c.i(), c.lit(c.n+d)) })
		add("and:"+tag, func(c *x15FormCtx) Expr { return c.bin("&", c.i(), c.lit(c.n+d-1)) })
		add("min:"+tag, func(c *x15FormCtx) Expr { return c.call("min", c.i(), c.lit(c.n+d-1)) })
		add("clamp:"+tag, func(c *x15FormCtx) Expr { return c.call("clamp", c.i(), c.lit(0), c.lit(c.n+d-1)) })
		add("constlook:"+tag, func(c *x15FormCtx) Expr { return c.bin("+", c.bin("*", c.i(), c.lit(0)), c.lit(c.n+d-1)) })
	}
	add("max0", func(c *x15FormCtx) Expr { return c.call("max", c.i(), c.lit(0)) })
	add("cast", func(c *x15FormCtx) Expr {
		if c.ty.S == I32 {
			return &Cons{Ty: TU32, Args: []Expr{c.i()}}
		}
		return &Cons{Ty: TI32, Args: []Expr{c.i()}}
	})
	add("bitcast", func(c *x15FormCtx) Expr {
		if c.ty.S == I32 {
			return &Bitcast{Ty: TU32, X: c.i()}
		}
		return &Bitcast{Ty: TI32, X: c.i()}
	})
	add("select-f", func(c *x15FormCtx) Expr { return c.call("select", c.i(), c.j(), c.c()) })
	fs = append(fs, x15Form{name: "select-t", cflag: 1, build: func(c *x15FormCtx) Expr { return c.call("select", c.j(), c.i(), c.c()) }})
	fs = append(fs, x15Form{name: "abs", signedOnly: true, build: func(c *x15FormCtx) Expr { return c.call("abs", c.i()) }})
	fs = append(fs, x15Form{name: "neg", signedOnly: true, build: func(c *x15FormCtx) Expr { return &Un{Op: "-", X: c.i(), Ty: c.ty} }})
	add("let-alias", func(c *x15FormCtx) Expr {
		c.pre = append(c.pre, &VarDecl{Kind: "let", Name: "a", Ty: c.ty, Init: c.i()})
		return L("a", c.ty)
	})
	add("var-alias", func(c *x15FormCtx) Expr {
		c.pre = append(c.pre, &VarDecl{Kind: "var", Name: "a", Ty: c.ty, Init: c.i()})
		return V("a", c.ty)
	})
	add("direct-load", func(c *x15FormCtx) Expr { return c.raw() })
	add("fn-result", func(c *x15FormCtx) Expr {
		c.fns = append(c.fns, &Func{Name: "idf", Params: []Param{{Name: "v", Ty: c.ty}}, Ret: c.ty, Body: []Stmt{&Return{X: L("v", c.ty)}}})
		return &Call{Fn: "idf", Args: []Expr{c.i()}, Ty: c.ty, User: true}
	})
	// the access sits under `if (i < N)`: that bounds an unsigned i (for N <= n) but not a negative one
	for d := 0; d <= 1; d++ {
		d := d
		add([...]string{"if-lt:n", "if-lt:n+1"}[d], func(c *x15FormCtx) Expr {
			c.wrap = func(body []Stmt) []Stmt {
				return []Stmt{&If{Cond: &Bin{Op: "<", L: c.i(), R: c.lit(c.n + d), Ty: TBool}, Then: body}}
			}
			return c.i()
		})
	}
	// the bound is a module-scope constant instead of a literal
	add("mod-const:n", func(c *x15FormCtx) Expr {
		c.consts = append(c.consts, ConstDecl{Name: "CN", Ty: c.ty, Init: c.lit(c.n), Explicit: true})
		return c.bin("%", c.i(), L("CN", c.ty))
	})
	add("min-const:n+1", func(c *x15FormCtx) Expr {
		c.consts = append(c.consts, ConstDecl{Name: "CN", Ty: c.ty, Init: c.lit(c.n), Explicit: true})
		return c.call("min", c.i(), L("CN", c.ty))
	})
	// loop counters: for (var k = i; k < N; k++) { access(k); if two iterations done { break; } }
	for d := 0; d <= 1; d++ {
		d := d
		add([...]string{"loop-from-i:n", "loop-from-i:n+1"}[d], func(c *x15FormCtx) Expr {
			k := V("k", c.ty)
			c.pre = append(c.pre, &VarDecl{Kind: "var", Name: "cnt", Ty: TU32, Init: LitU(0)})
			c.wrap = func(body []Stmt) []Stmt {
				body = append(body, &IncDec{LHS: V("cnt", TU32), Inc: true},
					&If{Cond: &Bin{Op: ">=", L: V("cnt", TU32), R: LitU(2), Ty: TBool}, Then: []Stmt{&Break{}}})
				return []Stmt{&For{Init: &VarDecl{Kind: "var", Name: "k", Ty: c.ty, Init: c.i()},
					Cond: &Bin{Op: "<", L: k, R: c.lit(c.n + d), Ty: TBool}, Upd: &IncDec{LHS: k, Inc: true}, Body: body}}
			}
			return V("k", c.ty)
		})
	}
	// for (var k = 0; k < min(i, n+2); k++) { access(k) }
	add("loop-to-i", func(c *x15FormCtx) Expr {
		k := V("k", c.ty)
		c.wrap = func(body []Stmt) []Stmt {
			return []Stmt{&For{Init: &VarDecl{Kind: "var", Name: "k", Ty: c.ty, Init: c.lit(0)},
				Cond: &Bin{Op: "<", L: k, R: c.call("min", c.i(), c.lit(c.n+2)), Ty: TBool}, Upd: &IncDec{LHS: k, Inc: true}, Body: body}}
		}
		return V("k", c.ty)
	})
	return fs
}

// x15FormSetup declares `let i` and evaluates the form; returns the index variable and body parts.
func x15FormSetup(m *Module, f x15Form, n int, signed bool) (x15Var, x15Body) {
	ty := x15Ty(signed)
	c := &x15FormCtx{m: m, ty: ty, n: n}
	c.pre = append(c.pre, &VarDecl{Kind: "let", Name: "i", Ty: ty, Init: x15Load(0, signed)})
	c.i = func() Expr { return L("i", ty) }
	c.raw = func() Expr { return x15Load(0, signed) }
	c.j = func() Expr { return x15Load(1, signed) }
	c.c = func() Expr { return &Bin{Op: "!=", L: x15Load(2, false), R: LitU(0), Ty: TBool} }
	probe := f.build(c) // evaluated once for pre/wrap/fns; every use re-evaluates the expression part
	kt := probe.T()
	first := true
	v := x15Var{name: "k", ty: kt, main: func() Expr {
		if first {
			first = false
			return probe
		}
		c2 := *c
		return f.build(&c2)
	}}
	return v, x15Body{pre: c.pre, wrap: c.wrap, fns: c.fns, consts: c.consts}
}

// x15AccSite: one of the F15acc access forms with the index expression replaced.
func buildX15Acc(sig string, f accForm, form x15Form, signed bool, in []uint32) *Case {
	m := &Module{Structs: []*Type{accStruct, accUniform}}
	idxT := Array(TU32, 0)
	m.Globals = append(m.Globals,
		Global{Name: "idx", Space: "storage", Ty: idxT, Group: 0, Binding: 0},
		Global{Name: "buf", Space: "storage", RW: true, Ty: accStruct, Group: 0, Binding: 1},
		Global{Name: "o", Space: "storage", RW: true, Ty: Array(TU32, 0), Group: 0, Binding: 2},
		Global{Name: "ub", Space: "uniform", Ty: accUniform, Group: 0, Binding: 3},
	)
	v, bd := x15FormSetup(m, form, f.n, signed)
	b := &accB{m: m, i: v.main()}
	acc := f.build(b)
	if bd.wrap != nil {
		acc = bd.wrap(acc)
	}
	body := append(append([]Stmt{}, bd.pre...), acc...)
	m.Funcs = append(m.Funcs, bd.fns...)
	m.Consts = append(m.Consts, bd.consts...)
	m.Funcs = append(m.Funcs, &Func{Name: "main", Stage: "compute", WG: [3]int{1, 0, 0}, Body: body})
	ft := Fix(accStruct, accTailN)
	size := SizeOf(ft)
	buf := make([]byte, size)
	for w := 0; w*4 < size; w++ {
		PutU32(buf, w*4, 0x3F800000+uint32(w+1)*0x111)
	}
	ub := make([]byte, SizeOf(accUniform))
	for w := 0; w*4 < len(ub); w++ {
		PutU32(ub, w*4, 0x5000+uint32(w))
	}
	ib := make([]byte, 4*x15IdxWords)
	for w := 0; w < x15IdxWords && w < len(in); w++ {
		PutU32(ib, 4*w, in[w])
	}
	ob := make([]byte, 16)
	for i := range ob {
		ob[i] = 0xCD
	}
	k := func(n uint32) xrt.Binding { return xrt.Binding{Group: 0, Binding: n} }
	return &Case{Sig: sig + "/" + x15InSig(in), Mod: m,
		Bufs:     xrt.Buffers{k(0): ib, k(1): buf, k(2): ob, k(3): ub},
		Groups:   [3]uint32{1, 1, 1},
		BufTypes: map[xrt.Binding]*Type{k(0): Array(TU32, x15IdxWords), k(1): ft, k(2): Array(TU32, 4), k(3): accUniform}}
}

func x15FormObjects(thorough bool) []x15Cont {
	var out []x15Cont
	for _, ob := range idxObjects() {
		if !thorough {
			switch ob.name {
			case "array<u32, 4>", "vec3<u32>", "mat3x2<f32>", "array<vec4<u32>, 3>", "array<array<u32, 3>, 2>":
			default:
				continue
			}
		}
		out = append(out, x15Cont{name: ob.name, t: ob.t, path: dynPath(1)})
	}
	// a storage global that is itself a runtime-sized array (F15acc only has one as a struct tail)
	out = append(out, x15Cont{name: "rt3-array<u32>", t: Array(TU32, 0), path: dynPath(1), rtN: 3})
	if thorough {
		out = append(out, x15Cont{name: "rt2-array<vec4<u32>>", t: Array(Vec(U32, 4), 0), path: dynPath(1), rtN: 2})
	}
	return out
}

// x15NestedObjects: 2-level containers in which ONE level is dynamic and the other a constant, the
// outer level shorter and longer than the inner one: a bound-sensitive form must be judged against
// the length of the level it indexes, not its neighbour's.
func x15NestedObjects() []x15Cont {
	var out []x15Cont
	for _, c := range []struct {
		name string
		t    *Type
	}{{"aoa2x3", x15AoA(2, 3)}, {"aoa3x2", x15AoA(3, 2)}, {"mat2x3", Mat(2, 3)}, {"mat3x2", Mat(3, 2)}, {"aov2x4", Array(Vec(U32, 4), 2)}} {
		out = append(out, x15Cont{name: c.name + "[dyn][1]", t: c.t, path: []x15Step{{dyn: true}, {fixed: true, konst: 1}}})
		out = append(out, x15Cont{name: c.name + "[1][dyn]", t: c.t, path: []x15Step{{fixed: true, konst: 1}, {dyn: true}}})
	}
	return out
}

// x15BoundSensitive: forms whose safety depends on the length of the indexed level.
func x15BoundSensitive(name string) bool {
	for _, p := range []string{"mod", "and:", "min", "clamp:", "constlook:", "loop-", "if-lt:"} {
		if strings.HasPrefix(name, p) {
			return true
		}
	}
	return false
}

// F15xForms: every index-expression form x every access site (the 27 F15acc forms and the
// object x space x operation product) x {u32, i32} x the hostile alphabet of the indexed length.
func F15xForms(thorough bool) *X15Family {
	forms := x15Forms()
	sites := x15Sites(x15FormObjects(thorough), x15Spaces, x15Ops)
	nFlat := len(sites)
	nestedOps := []string{"read", "write"}
	if thorough {
		nestedOps = x15Ops
	}
	sites = append(sites, x15Sites(x15NestedObjects(), x15Spaces, nestedOps)...)
	type ent struct {
		acc, site int // one of them >= 0
		form      int
		signed    bool
	}
	var ents []ent
	for fi, f := range forms {
		for _, sg := range []bool{false, true} {
			if f.signedOnly && !sg {
				continue
			}
			for ai := range accForms {
				ents = append(ents, ent{ai, -1, fi, sg})
			}
			for si := range sites {
				if si >= nFlat && !thorough && !x15BoundSensitive(f.name) {
					continue
				}
				ents = append(ents, ent{-1, si, fi, sg})
			}
		}
	}
	return &X15Family{Name: "F15xf", N: len(ents), Prog: func(p int) *X15Prog {
		e := ents[p]
		form := forms[e.form]
		var n int
		var sig string
		if e.acc >= 0 {
			n = accForms[e.acc].n
			sig = fmt.Sprintf("F15xf/acc/%s/%s/%s", accForms[e.acc].name, form.name, x15Sg(e.signed))
		} else {
			s := sites[e.site]
			ls, _ := s.cont.lens()
			n = ls[0]
			sig = fmt.Sprintf("F15xf/%s/%s/%s/%s/%s", s.op, s.space, s.cont.name, form.name, x15Sg(e.signed))
		}
		var ins [][]uint32
		for _, h := range X15Hostile(n) {
			ins = append(ins, []uint32{h, 0, form.cflag, 0})
		}
		return &X15Prog{Sig: sig, Inputs: ins, Build: func(in []uint32) *Case {
			if e.acc >= 0 {
				return buildX15Acc(sig, accForms[e.acc], form, e.signed, in)
			}
			s := sites[e.site]
			m := &Module{}
			v, bd := x15FormSetup(m, form, n, e.signed)
			return buildX15Site(sig, s, []x15Var{v}, []int{0}, bd, in)
		}}
	}}
}

// ---------------------------------------------------------------- F15xc: access chains

func x15AoA(lens ...int) *Type {
	t := TU32
	for i := len(lens) - 1; i >= 0; i-- {
		t = Array(t, lens[i])
	}
	return t
}

func x15Chains2() []x15Cont {
	var out []x15Cont
	add := func(name string, t *Type, path []x15Step, rt int) { out = append(out, x15Cont{name, t, path, rt}) }
	for _, l := range [][2]int{{2, 3}, {3, 3}, {3, 2}} {
		add(fmt.Sprintf("aoa%dx%d", l[0], l[1]), x15AoA(l[0], l[1]), dynPath(2), 0)
	}
	for _, l := range [][2]int{{2, 3}, {3, 3}, {4, 3}, {2, 4}} {
		add(fmt.Sprintf("aov%dx%d", l[0], l[1]), Array(Vec(U32, l[1]), l[0]), dynPath(2), 0)
	}
	for _, l := range [][2]int{{2, 3}, {3, 3}, {3, 2}, {2, 4}, {4, 2}} {
		add(fmt.Sprintf("mat%dx%d", l[0], l[1]), Mat(l[0], l[1]), dynPath(2), 0)
	}
	for _, l := range [][2]int{{2, 3}, {3, 2}} {
		st := Struct(fmt.Sprintf("SA%d%d", l[0], l[1]), Member{Name: "pad", T: TU32}, Member{Name: "aa", T: x15AoA(l[0], l[1])})
		add(fmt.Sprintf("s.aa%dx%d", l[0], l[1]), st, []x15Step{{field: "aa"}, {dyn: true}, {dyn: true}}, 0)
		el := Struct(fmt.Sprintf("EL%d", l[1]), Member{Name: "k", T: TU32}, Member{Name: "vals", T: Array(TU32, l[1])})
		add(fmt.Sprintf("aos%d.vals%d", l[0], l[1]), Array(el, l[0]), []x15Step{{dyn: true}, {field: "vals"}, {dyn: true}}, 0)
	}
	for _, n := range []int{2, 4} {
		add(fmt.Sprintf("rt%d-aoa3", n), Array(Array(TU32, 3), 0), dynPath(2), n)
		el := Struct("EL3", Member{Name: "k", T: TU32}, Member{Name: "vals", T: Array(TU32, 3)})
		rs := Struct("RT", Member{Name: "n", T: TU32}, Member{Name: "items", T: Array(el, 0)})
		add(fmt.Sprintf("rt%d-items.vals3", n), rs, []x15Step{{field: "items"}, {dyn: true}, {field: "vals"}, {dyn: true}}, n)
	}
	return out
}

func x15Chains3() []x15Cont {
	var out []x15Cont
	add := func(name string, t *Type, path []x15Step) { out = append(out, x15Cont{name, t, path, 0}) }
	for _, l := range [][3]int{{2, 3, 4}, {4, 3, 2}, {2, 2, 2}} {
		add(fmt.Sprintf("aoaoa%dx%dx%d", l[0], l[1], l[2]), x15AoA(l[0], l[1], l[2]), dynPath(3))
	}
	for _, l := range [][3]int{{2, 3, 4}, {4, 3, 2}, {3, 3, 3}} {
		add(fmt.Sprintf("aom%dx%dx%d", l[0], l[1], l[2]), Array(Mat(l[1], l[2]), l[0]), dynPath(3))
	}
	for _, l := range [][3]int{{2, 3, 2}, {4, 2, 3}} {
		el := Struct(fmt.Sprintf("EM%d%d", l[1], l[2]), Member{Name: "m", T: Mat(l[1], l[2])})
		add(fmt.Sprintf("aos%d.m%dx%d", l[0], l[1], l[2]), Array(el, l[0]), []x15Step{{dyn: true}, {field: "m"}, {dyn: true}, {dyn: true}})
	}
	return out
}

// x15VarAlphabet: representatives for a variable that indexes levels with the given lengths.
func x15VarAlphabet(lens []int, full bool) []uint32 {
	var a []uint32
	for _, n := range lens {
		u := uint32(n)
		a = append(a, 0, u-1, u, u+1)
	}
	a = append(a, 0xFFFFFFFF)
	if full {
		a = append(a, 0x7FFFFFFF, 0x80000000)
	}
	return dedupU32(a)
}

// x15ChainInputs: the hostile tuples of a chain whose level k is indexed by variable assign[k].
// One variable: its full alphabet. Two variables: the product of their guard partitions plus the
// signedness extremes on each axis.
func x15ChainInputs(lens []int, assign []int) [][]uint32 {
	var per [2][]int
	for k, v := range assign {
		per[v] = append(per[v], lens[k])
	}
	var out [][]uint32
	if len(per[0]) == 0 || len(per[1]) == 0 {
		v := 0
		if len(per[0]) == 0 {
			v = 1
		}
		for _, h := range x15VarAlphabet(per[v], true) {
			in := []uint32{0, 0, 0, 0}
			in[v] = h
			out = append(out, in)
		}
		return out
	}
	for _, a := range x15VarAlphabet(per[0], false) {
		for _, b := range x15VarAlphabet(per[1], false) {
			out = append(out, []uint32{a, b, 0, 0})
		}
	}
	for _, e := range []uint32{0x7FFFFFFF, 0x80000000} {
		out = append(out, []uint32{e, 0, 0, 0}, []uint32{0, e, 0, 0})
	}
	return out
}

// F15xChains: every 2- and 3-level chain container x space x operation x every assignment of the
// variables {i, j} to the levels (including one variable at several levels) x index source x
// index types x hostile tuples.
func F15xChains(thorough bool) *X15Family {
	type ent struct {
		site   x15Site
		assign []int
		source string
		sg     [2]bool
	}
	var ents []ent
	addSites := func(sites []x15Site, levels int, mixedTypes bool) {
		for _, s := range sites {
			for a := 0; a < 1<<levels; a++ {
				assign := make([]int, levels)
				used := [2]bool{}
				repeat := false
				cnt := [2]int{}
				for k := 0; k < levels; k++ {
					assign[k] = (a >> k) & 1
					used[assign[k]] = true
					cnt[assign[k]]++
				}
				repeat = cnt[0] > 1 // variable i is used at more than one level
				var sgs [][2]bool
				if used[0] && used[1] {
					sgs = [][2]bool{{false, false}, {true, true}}
					if mixedTypes {
						sgs = append(sgs, [2]bool{false, true})
					}
				} else {
					sgs = [][2]bool{{false, false}, {true, true}}
				}
				for _, src := range []string{"let", "var", "direct"} {
					if src != "let" && !repeat && !thorough {
						continue // the source matters where one variable occurs twice
					}
					for _, sg := range sgs {
						ents = append(ents, ent{s, assign, src, sg})
					}
				}
			}
		}
	}
	addSites(x15Sites(x15Chains2(), x15Spaces, x15Ops), 2, true)
	addSites(x15Sites(x15Chains3(), x15Spaces, x15Ops), 3, thorough)
	return &X15Family{Name: "F15xc", N: len(ents), Prog: func(p int) *X15Prog {
		e := ents[p]
		lens, _ := e.site.cont.lens()
		as := ""
		for _, v := range e.assign {
			as += string("ij"[v])
		}
		used := [2]bool{}
		for _, v := range e.assign {
			used[v] = true
		}
		sg := ""
		for v := 0; v < 2; v++ {
			if used[v] {
				if sg != "" {
					sg += ","
				}
				sg += x15Sg(e.sg[v])
			}
		}
		sig := fmt.Sprintf("F15xc/%s/%s/%s/%s/%s/%s", e.site.op, e.site.space, e.site.cont.name, as, e.source, sg)
		return &X15Prog{Sig: sig, Inputs: x15ChainInputs(lens, e.assign), Build: func(in []uint32) *Case {
			var bd x15Body
			vars := make([]x15Var, 2)
			for v := 0; v < 2; v++ {
				if used[v] {
					vars[v] = x15MkVar(string("ij"[v]), v, e.sg[v], e.source, &bd.pre)
				}
			}
			// only the variables in use are declared / passed
			var vs []x15Var
			remap := [2]int{}
			for v := 0; v < 2; v++ {
				if used[v] {
					remap[v] = len(vs)
					vs = append(vs, vars[v])
				}
			}
			lv := make([]int, len(e.assign))
			for k, v := range e.assign {
				lv[k] = remap[v]
			}
			return buildX15Site(sig, e.site, vs, lv, bd, in)
		}}
	}}
}

// ---------------------------------------------------------------- F15xv: aggregates held by value

type x15Agg struct {
	name string
	t    *Type
	path []x15Step
}

func x15Aggs() []x15Agg {
	sa := Struct("SV", Member{Name: "k", T: TU32}, Member{Name: "a", T: Array(TU32, 4)})
	return []x15Agg{
		{"array<u32, 4>", Array(TU32, 4), dynPath(1)},
		{"vec3<u32>", Vec(U32, 3), dynPath(1)},
		{"vec4<f32>", Vec(F32, 4), dynPath(1)},
		{"mat2x3<f32>", Mat(2, 3), dynPath(1)},
		{"mat2x3<f32>[i][i]", Mat(2, 3), dynPath(2)},
		{"array<vec4<u32>, 3>", Array(Vec(U32, 4), 3), dynPath(1)},
		{"array<vec4<u32>, 3>[i][i]", Array(Vec(U32, 4), 3), dynPath(2)},
		{"array<array<u32, 3>, 2>[i][i]", x15AoA(2, 3), dynPath(2)},
		{"struct.a", sa, []x15Step{{field: "a"}, {dyn: true}}},
	}
}

var x15Holders = []string{"let", "var", "param", "param2", "ret", "ret-let", "member", "member-param", "sub-let", "sub-param"}
var x15Sources = []string{"storage", "uniform", "private", "cons"}

// buildX15Value: an aggregate of type agg.t is obtained from `source`, held by `holder`, and the
// path is applied to the held value with the hostile index at every dynamic level.
func buildX15Value(sig string, agg x15Agg, holder, source string, signed bool, in []uint32) *Case {
	t := agg.t
	cont := x15Cont{name: agg.name, t: t, path: agg.path}
	_, et := cont.lens()
	// the type of the stored object: the aggregate itself, a struct holding it as a member, or an
	// array of two of it
	st := t
	switch holder {
	case "member", "member-param":
		st = Struct("WR", Member{Name: "pad", T: Vec(U32, 4)}, Member{Name: "f", T: t})
		if t.Leaf(0) == F32 {
			st = Struct("WR", Member{Name: "pad", T: Vec(F32, 4)}, Member{Name: "f", T: t})
		}
	case "sub-let", "sub-param":
		st = Array(t, 2)
	}
	if source == "uniform" && !UniformValid(st) {
		return nil
	}
	m := &Module{}
	structsOf(st, map[string]bool{}, &m.Structs)
	idxT := Array(TU32, 0)
	m.Globals = append(m.Globals,
		Global{Name: "idx", Space: "storage", Ty: idxT, Group: 0, Binding: 0},
		Global{Name: "o", Space: "storage", RW: true, Ty: Array(TU32, 0), Group: 0, Binding: 1},
	)
	k := func(n uint32) xrt.Binding { return xrt.Binding{Group: 0, Binding: n} }
	bufs := xrt.Buffers{}
	btypes := map[xrt.Binding]*Type{}
	ib := make([]byte, 4*x15IdxWords)
	for w := 0; w < x15IdxWords && w < len(in); w++ {
		PutU32(ib, 4*w, in[w])
	}
	bufs[k(0)], btypes[k(0)] = ib, Array(TU32, x15IdxWords)
	ow := et.NumScalars()
	if ow < 4 {
		ow = 4
	}
	ob := make([]byte, 4*ow)
	for i := range ob {
		ob[i] = 0xCD
	}
	bufs[k(1)], btypes[k(1)] = ob, Array(TU32, ow)
	ity := x15Ty(signed)
	body := []Stmt{
		&VarDecl{Kind: "let", Name: "dyn", Ty: TU32, Init: Idx(V("idx", idxT), LitU(3))},
		&VarDecl{Kind: "let", Name: "i", Ty: ity, Init: x15Load(0, signed)},
	}
	dyn := L("dyn", TU32)
	base := uint32(11)
	// src(): an expression of type st, evaluated where it is written
	var src func(dyn Expr) Expr
	switch source {
	case "storage":
		m.Globals = append(m.Globals, Global{Name: "x", Space: "storage", Ty: st, Group: 0, Binding: 2})
		bufs[k(2)], btypes[k(2)] = x15Fill(st, SizeOf(st), 101), st
		src = func(Expr) Expr { return V("x", st) }
	case "uniform":
		m.Globals = append(m.Globals, Global{Name: "x", Space: "uniform", Ty: st, Group: 0, Binding: 2})
		bufs[k(2)], btypes[k(2)] = x15Fill(st, SizeOf(st), 201), st
		src = func(Expr) Expr { return V("x", st) }
	case "private":
		m.Globals = append(m.Globals, Global{Name: "x", Space: "private", Ty: st})
		body = append(body, &Assign{LHS: V("x", st), Op: "=", RHS: mkValX(st, &base, dyn)})
		src = func(Expr) Expr { return V("x", st) }
	case "cons":
		src = func(d Expr) Expr { b := uint32(11); return mkValX(st, &b, d) }
	}
	iL := func(int) Expr { return L("i", ity) }
	var result Expr
	pick := func(name string, pty *Type, inner func(a Expr) Expr) *Func {
		return &Func{Name: name, Params: []Param{{Name: "a", Ty: pty}, {Name: "i", Ty: ity}}, Ret: et,
			Body: []Stmt{&Return{X: inner(L("a", pty))}}}
	}
	callPick := func(name string, arg Expr) Expr {
		return &Call{Fn: name, Args: []Expr{arg, L("i", ity)}, Ty: et, User: true}
	}
	switch holder {
	case "let":
		body = append(body, &VarDecl{Kind: "let", Name: "c", Ty: t, Init: src(dyn)})
		result = cont.chain(L("c", t), iL)
	case "var":
		body = append(body, &VarDecl{Kind: "var", Name: "c", Ty: t, Init: src(dyn)})
		result = cont.chain(V("c", t), iL)
	case "param":
		m.Funcs = append(m.Funcs, pick("pick", t, func(a Expr) Expr { return cont.chain(a, iL) }))
		result = callPick("pick", src(dyn))
	case "param2":
		m.Funcs = append(m.Funcs, pick("pick", t, func(a Expr) Expr { return cont.chain(a, iL) }))
		m.Funcs = append(m.Funcs, pick("outer", t, func(a Expr) Expr { return callPick("pick", a) }))
		result = callPick("outer", src(dyn))
	case "ret", "ret-let":
		mk := &Func{Name: "mk", Params: []Param{{Name: "dyn", Ty: TU32}}, Ret: t, Body: []Stmt{&Return{X: src(L("dyn", TU32))}}}
		m.Funcs = append(m.Funcs, mk)
		call := &Call{Fn: "mk", Args: []Expr{dyn}, Ty: t, User: true}
		if holder == "ret" {
			result = cont.chain(call, iL)
		} else {
			body = append(body, &VarDecl{Kind: "let", Name: "c", Ty: t, Init: call})
			result = cont.chain(L("c", t), iL)
		}
	case "member":
		body = append(body, &VarDecl{Kind: "let", Name: "s", Ty: st, Init: src(dyn)})
		result = cont.chain(Fld(L("s", st), "f"), iL)
	case "member-param":
		m.Funcs = append(m.Funcs, pick("pick", st, func(a Expr) Expr { return cont.chain(Fld(a, "f"), iL) }))
		result = callPick("pick", src(dyn))
	case "sub-let":
		body = append(body, &VarDecl{Kind: "let", Name: "outer", Ty: st, Init: src(dyn)},
			&VarDecl{Kind: "let", Name: "sub", Ty: t, Init: Idx(L("outer", st), LitU(1))})
		result = cont.chain(L("sub", t), iL)
	case "sub-param":
		m.Funcs = append(m.Funcs, pick("pick", t, func(a Expr) Expr { return cont.chain(a, iL) }))
		result = callPick("pick", Idx(src(dyn), LitU(1)))
	}
	if et.K == TScalar {
		body = append(body, setO(0, asU32(result)))
	} else {
		body = append(body, &VarDecl{Kind: "let", Name: "e", Ty: et, Init: result})
		s, _ := dumpTo(L("e", et), et, 0)
		body = append(body, s...)
	}
	m.Funcs = append(m.Funcs, &Func{Name: "main", Stage: "compute", WG: [3]int{1, 0, 0}, Body: body})
	return &Case{Sig: sig + "/" + x15InSig(in), Mod: m, Bufs: bufs, Groups: [3]uint32{1, 1, 1}, BufTypes: btypes}
}

// F15xValue: every holder x source x aggregate x {u32, i32} x the hostile alphabet.
func F15xValue() *X15Family {
	aggs := x15Aggs()
	type ent struct {
		agg            int
		holder, source string
		signed         bool
	}
	var ents []ent
	for ai, a := range aggs {
		for _, h := range x15Holders {
			for _, s := range x15Sources {
				if buildX15Value("probe", a, h, s, false, []uint32{0, 0, 0, 0}) == nil {
					continue
				}
				ents = append(ents, ent{ai, h, s, false}, ent{ai, h, s, true})
			}
		}
	}
	return &X15Family{Name: "F15xv", N: len(ents), Prog: func(p int) *X15Prog {
		e := ents[p]
		a := aggs[e.agg]
		lens, _ := x15Cont{t: a.t, path: a.path}.lens()
		sig := fmt.Sprintf("F15xv/%s/%s/%s/%s", e.holder, e.source, a.name, x15Sg(e.signed))
		var ins [][]uint32
		for _, h := range x15VarAlphabet(lens, true) {
			ins = append(ins, []uint32{h, 0, 0, 0})
		}
		return &X15Prog{Sig: sig, Inputs: ins, Build: func(in []uint32) *Case {
			return buildX15Value(sig, a, e.holder, e.source, e.signed, in)
		}}
	}}
}

// ---------------------------------------------------------------- F15xz: zero-init programs with varied global layouts

// F15xLayouts: programs whose workgroup variables sit at different positions of the global list,
// are used directly or through a helper function, with the entry point `main` first or second in
// the module. Every leaf of every workgroup variable must read as zero. These are the history
// alphabet of the reused-Backend exploration: what a stale per-module or per-entry-point cache
// gets wrong depends on how the handles of two consecutive modules line up.
func F15xLayouts(thorough bool) *Family {
	type glob struct {
		code string
		t    *Type
	}
	pool := []glob{
		{"Wu", TU32},
		{"Wa", Array(TU32, 3)},
		{"Wt", Atomic(U32)},
		{"P", TU32},
	}
	maxLen := 2
	if thorough {
		maxLen = 3
		pool = append(pool, glob{"Wv", Vec(I32, 3)})
	}
	var layouts [][]int // sequences over pool indices and -1 (= the output buffer)
	var rec func(cur []int, usedO bool, used uint)
	rec = func(cur []int, usedO bool, used uint) {
		nW := 0
		for _, c := range cur {
			if c >= 0 && pool[c].code[0] == 'W' {
				nW++
			}
		}
		if usedO && nW > 0 {
			layouts = append(layouts, append([]int(nil), cur...))
		}
		if len(cur) == maxLen+1 {
			return
		}
		if !usedO {
			rec(append(cur, -1), true, used)
		}
		for i := range pool {
			if used&(1<<uint(i)) == 0 {
				rec(append(cur, i), usedO, used|1<<uint(i))
			}
		}
	}
	rec(nil, false, 0)
	type ent struct {
		lay      int
		helper   bool
		auxFirst bool
	}
	var ents []ent
	for li := range layouts {
		for _, h := range []bool{false, true} {
			for _, a := range []bool{false, true} {
				ents = append(ents, ent{li, h, a})
			}
		}
	}
	return &Family{Name: "F15xz", Count: len(ents), At: func(i int) *Case {
		e := ents[i]
		m := &Module{}
		code := ""
		var reads []Expr
		var inits []Stmt
		var firstW Expr
		for gi, c := range layouts[e.lay] {
			if c < 0 {
				m.Globals = append(m.Globals, Global{Name: "o", Space: "storage", RW: true, Ty: Array(TU32, 0), Group: 0, Binding: 0})
				code += "O"
				continue
			}
			g := pool[c]
			name := fmt.Sprintf("g%d", gi)
			code += g.code
			if g.code == "P" {
				// written before it is read (private zero-init / initialisers are not at stake here)
				m.Globals = append(m.Globals, Global{Name: name, Space: "private", Ty: g.t})
				inits = append(inits, &Assign{LHS: V(name, g.t), Op: "=", RHS: LitU(5)})
				reads = append(reads, V(name, g.t))
				continue
			}
			m.Globals = append(m.Globals, Global{Name: name, Space: "workgroup", Ty: g.t})
			if g.t.K == TAtomic {
				ld := &Call{Fn: "atomicLoad", Args: []Expr{&AddrOf{X: V(name, g.t), Ty: Ptr("workgroup", g.t)}}, Ty: TU32}
				reads = append(reads, ld)
				if firstW == nil {
					firstW = ld
				}
				continue
			}
			var lp []Expr
			leafPaths(V(name, g.t), g.t, &lp)
			if firstW == nil {
				firstW = lp[0]
			}
			reads = append(reads, lp...)
		}
		var body []Stmt
		if e.helper {
			// every read goes through a helper function: the entry point uses the globals only transitively
			hb := append([]Stmt{}, inits...)
			for k, r := range reads {
				hb = append(hb, setO(k, asU32(r)))
			}
			m.Funcs = append(m.Funcs, &Func{Name: "rd", Body: hb})
			body = append(body, &ExprStmt{X: &Call{Fn: "rd", User: true}})
		} else {
			body = append(body, inits...)
			for k, r := range reads {
				body = append(body, setO(k, asU32(r)))
			}
		}
		mainF := &Func{Name: "main", Stage: "compute", WG: [3]int{1, 0, 0}, Body: body}
		aux := &Func{Name: "aux", Stage: "compute", WG: [3]int{1, 0, 0}, Body: []Stmt{setO(0, asU32(firstW))}}
		if e.auxFirst {
			m.Funcs = append(m.Funcs, aux, mainF)
		} else {
			m.Funcs = append(m.Funcs, mainF)
		}
		n := len(reads)
		if n < 1 {
			n = 1
		}
		ob := make([]byte, 4*n)
		for i := range ob {
			ob[i] = 0xCD
		}
		k0 := xrt.Binding{Group: 0, Binding: 0}
		sig := fmt.Sprintf("F15xz/%s/", code)
		if e.helper {
			sig += "helper/"
		} else {
			sig += "direct/"
		}
		if e.auxFirst {
			sig += "main-second"
		} else {
			sig += "main-first"
		}
		return &Case{Family: "F15xz", Index: i, Sig: sig, Mod: m, Bufs: xrt.Buffers{k0: ob}, Groups: [3]uint32{1, 1, 1},
			BufTypes: map[xrt.Binding]*Type{k0: Array(TU32, n)}}
	}}
}
