package wgen

import (
	"encoding/binary"
	"math"

	"verif/internal/xrt"
)

// Case is one program of a family together with the inputs it is to be run on.
type Case struct {
	Family string
	Index  int
	Sig    string // stable construct signature (used by known-finding selectors)
	Mod    *Module
	Bufs   xrt.Buffers // initial buffer contents (inputs filled, outputs zero/sentinel)
	Groups [3]uint32   // dispatch size
	Approx bool        // float results compared with tolerance
	// Layout of each buffer for comparison purposes: binding -> type (runtime arrays fixed).
	BufTypes map[xrt.Binding]*Type
	// NoExec: structural-only program (not executed by the reference).
	NoExec bool
	// Tags: free-form feature tags ("atomic", "workgroup", "barrier", "matrix", ...).
	Tags []string
}

// Family is an indexed finite set of cases.
type Family struct {
	Name  string
	Count int
	At    func(i int) *Case
}

// ---------------------------------------------------------------- alphabets

var AlphaI32 = []uint32{0, 1, 0xFFFFFFFF, 2, 0xFFFFFFFE, 7, 0xFFFFFFF9, 31, 32, 33, 0x7FFFFFFF, 0x80000000, 0x80000001, 0x55555555}
var AlphaU32 = []uint32{0, 1, 2, 7, 31, 32, 33, 0x7FFFFFFF, 0x80000000, 0xFFFFFFFF, 0x55555555, 0xFFFFFFFE}
var AlphaBool = []uint32{0, 1}

func fbits(xs ...float32) []uint32 {
	out := make([]uint32, len(xs))
	for i, x := range xs {
		out[i] = math.Float32bits(x)
	}
	return out
}

// AlphaF32 avoids NaN/Inf/subnormals (WGSL leaves latitude there).
var AlphaF32 = fbits(0, float32(math.Copysign(0, -1)), 0.5, -0.5, 1, -1, 1.5, -1.5, 2.5, -2.5, 7.5, -7.5, 1e-3, 3, 100.25, -1000.5, 16777216, 16777218)

// AlphaF32Conv adds the in-range extremes for float->int conversions.
var AlphaF32Conv = append(append([]uint32{}, AlphaF32...), fbits(2147483520, -2147483648, 4294967040, 0.99999994, -0.99999994, 31.99, 2147483000)...)

// AlphaF32Bits is for exact bit-moving operations (bitcast, select, copies).
var AlphaF32Bits = append(append([]uint32{}, AlphaF32...), 0x00000001, 0x807FFFFF, 0x7F7FFFFF, 0xFF7FFFFF, 0x00800000)

// AlphaF32Unit is for functions with restricted domains (asin, acos, atanh...).
var AlphaF32Unit = fbits(0, 0.25, -0.25, 0.5, -0.5, 0.75, -0.75, 0.125)

// AlphaF32Pos is for log/sqrt/pow bases.
var AlphaF32Pos = fbits(0.5, 1, 1.5, 2, 2.5, 7.5, 100.25, 1e-3, 16)

func Alpha(k SK) []uint32 {
	switch k {
	case Bool:
		return AlphaBool
	case I32:
		return AlphaI32
	case U32:
		return AlphaU32
	}
	return AlphaF32
}

// storageType maps a value type to the type used to hold it in a storage buffer (bool -> u32).
func storageType(t *Type) *Type {
	if t.S == Bool {
		return VecOrScalar(U32, t.Width())
	}
	return t
}

// fromStorage converts an expression of storageType(t) to t.
func fromStorage(e Expr, t *Type) Expr {
	if t.S != Bool {
		return e
	}
	st := storageType(t)
	var z Expr = LitU(0)
	if t.K == TVec {
		z = &Cons{Ty: st, Args: []Expr{LitU(0)}}
	}
	return &Bin{Op: "!=", L: e, R: z, Ty: t}
}

// toStorage converts an expression of type t to storageType(t). Booleans are stored through the
// value conversion u32(b) / vecN<u32>(b) (true -> 1u), the most basic construct available, so that
// a backend defect in select() does not hide every boolean-valued operator.
func toStorage(e Expr, t *Type) Expr {
	if t.S != Bool {
		return e
	}
	return &Cons{Ty: storageType(t), Args: []Expr{e}}
}

// PutU32 writes v at byte offset off.
func PutU32(b []byte, off int, v uint32) { binary.LittleEndian.PutUint32(b[off:], v) }

// elemStride of array<T> for the simple element types used by F1 (scalar/vec/mat).
func simpleStride(t *Type) int {
	switch t.K {
	case TScalar:
		return 4
	case TVec:
		if t.N == 2 {
			return 8
		}
		return 16
	case TMat:
		cs := 16
		if t.N == 2 {
			cs = 8
		}
		return t.C * cs
	}
	panic("simpleStride")
}

// simpleLeafOff returns byte offsets of the leaf scalars of one element.
func simpleLeafOff(t *Type) []int {
	switch t.K {
	case TScalar:
		return []int{0}
	case TVec:
		o := make([]int, t.N)
		for i := range o {
			o[i] = 4 * i
		}
		return o
	case TMat:
		cs := 16
		if t.N == 2 {
			cs = 8
		}
		var o []int
		for c := 0; c < t.C; c++ {
			for r := 0; r < t.N; r++ {
				o = append(o, c*cs+4*r)
			}
		}
		return o
	}
	panic("simpleLeafOff")
}
