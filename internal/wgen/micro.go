package wgen

// Micro-programs: hand-written valid WGSL covering the README's supported-feature list with
// constructs the AST families do not model (textures, IO structs, several entry points...).
// They are valid by the WGSL specification and are never executed by the reference.

type Micro struct {
	Name string
	Src  string
}

var Micros = []Micro{
	{"break_in_switch_helper", `
@group(0) @binding(0) var<storage, read_write> o: array<u32>;
fn pick(x: u32) -> u32 {
  var r = 0u;
  switch x {
    case 0u: { r = 10u; break; }
    case 1u, 2u: { r = 20u; }
    default: { if x > 5u { break; } r = 30u; }
  }
  return r;
}
@compute @workgroup_size(1)
fn main(@builtin(global_invocation_id) gid: vec3<u32>) { o[gid.x] = pick(gid.x); }
`},
	{"shared_binding_two_entry_points", `
struct U { scale: vec4<f32> }
@group(0) @binding(0) var<uniform> u: U;
@group(0) @binding(1) var<storage, read_write> data: array<f32>;
@compute @workgroup_size(4)
fn first(@builtin(global_invocation_id) gid: vec3<u32>) { data[gid.x] = u.scale.x; }
@compute @workgroup_size(2, 2, 1)
fn second(@builtin(local_invocation_index) li: u32) { data[li] = data[li] * u.scale.y; }
`},
	{"same_binding_different_resources_per_entry_point", `
@group(0) @binding(0) var<uniform> a: vec4<f32>;
@group(0) @binding(0) var<storage, read_write> b: array<u32>;
@fragment
fn fs() -> @location(0) vec4<f32> { return a; }
@compute @workgroup_size(1)
fn cs() { b[0] = 1u; }
`},
	{"vertex_fragment_io_structs", `
struct VIn { @location(0) pos: vec3<f32>, @location(1) uv: vec2<f32>, @builtin(vertex_index) vi: u32 }
struct VOut { @builtin(position) pos: vec4<f32>, @location(0) uv: vec2<f32>, @location(1) @interpolate(flat) id: u32 }
struct Camera { vp: mat4x4<f32> }
@group(0) @binding(0) var<uniform> cam: Camera;
@vertex
fn vs(in: VIn, @builtin(instance_index) inst: u32) -> VOut {
  var out: VOut;
  out.pos = cam.vp * vec4<f32>(in.pos, 1.0);
  out.uv = in.uv;
  out.id = in.vi + inst;
  return out;
}
@fragment
fn fs(in: VOut, @builtin(front_facing) ff: bool) -> @location(0) vec4<f32> {
  if ff { return vec4<f32>(in.uv, f32(in.id), 1.0); }
  return vec4<f32>(0.0);
}
`},
	{"textures_and_samplers", `
@group(0) @binding(0) var t: texture_2d<f32>;
@group(0) @binding(1) var s: sampler;
@group(0) @binding(2) var td: texture_depth_2d;
@group(0) @binding(3) var sc: sampler_comparison;
@group(1) @binding(0) var st: texture_storage_2d<rgba8unorm, write>;
@group(1) @binding(1) var ti: texture_2d<u32>;
@fragment
fn fs(@location(0) uv: vec2<f32>) -> @location(0) vec4<f32> {
  let c = textureSample(t, s, uv);
  let d = textureSampleCompare(td, sc, uv, 0.5);
  let dims = textureDimensions(t);
  let l = textureLoad(ti, vec2<i32>(0, 0), 0);
  return c * d + vec4<f32>(f32(dims.x), f32(l.x), 0.0, 0.0);
}
@compute @workgroup_size(8, 8)
fn cs(@builtin(global_invocation_id) gid: vec3<u32>) {
  textureStore(st, vec2<i32>(gid.xy), vec4<f32>(1.0, 0.0, 0.0, 1.0));
}
`},
	{"atomics_workgroup_barriers", `
struct Counters { hits: atomic<u32>, low: atomic<i32> }
@group(0) @binding(0) var<storage, read_write> c: Counters;
var<workgroup> tile: array<u32, 64>;
var<workgroup> total: atomic<u32>;
@compute @workgroup_size(64)
fn main(@builtin(local_invocation_index) li: u32, @builtin(workgroup_id) wid: vec3<u32>) {
  tile[li] = li * 2u;
  workgroupBarrier();
  let v = tile[63u - li];
  atomicAdd(&total, v);
  storageBarrier();
  atomicMax(&c.hits, atomicLoad(&total));
  atomicMin(&c.low, i32(v) - 5);
  let r = atomicCompareExchangeWeak(&c.hits, 3u, 4u);
  if r.exchanged { atomicStore(&c.low, i32(r.old_value)); }
  atomicSub(&c.hits, 1u);
  atomicAnd(&c.hits, 0xFFu);
  atomicOr(&c.hits, 1u);
  atomicXor(&c.hits, 2u);
  _ = atomicExchange(&c.hits, 9u);
}
`},
	{"shadowing_forward_refs_aliases", `
alias Vec = vec3<f32>;
alias Arr = array<Vec, 2>;
const N = M + 1u;
const M = 2u;
const_assert N == 3u;
@group(0) @binding(0) var<storage, read_write> o: array<f32>;
fn later(x: f32) -> f32 { return helper(x) * 2.0; }
fn helper(x: f32) -> f32 { let x2 = x; { let x = x2 + 1.0; return x; } }
@compute @workgroup_size(1)
fn main() {
  var a: Arr = Arr(Vec(1.0, 2.0, 3.0), Vec());
  let o_ = later(a[0].y);
  {
    let a = 5.0;
    o[0] = a + o_;
  }
  o[1] = a[1].z + f32(N);
}
`},
	{"pointer_params_compound_incdec", `
struct S { v: vec4<i32>, arr: array<i32, 4> }
@group(0) @binding(0) var<storage, read_write> o: array<i32>;
var<private> g: S;
fn bump(p: ptr<function, i32>, q: ptr<private, S>) { *p += 3; (*q).arr[1] -= 1; (*q).v.y *= 2; }
fn swap(a: ptr<function, vec2<i32>>) { let t = (*a).x; (*a).x = (*a).y; (*a).y = t; }
@compute @workgroup_size(1)
fn main() {
  var x = 1;
  var v = vec2<i32>(4, 9);
  bump(&x, &g);
  swap(&v);
  x++; x--; x <<= 2u; x >>= 1u; x |= 8; x &= 0xFF; x ^= 1; x %= 7; x /= 2;
  let p = &g.arr[2];
  *p = x;
  o[0] = x + v.x + g.arr[2] + g.v.y;
}
`},
	{"constructors_all_forms", `
struct P { a: f32, b: vec2<u32>, c: array<i32, 2> }
@group(0) @binding(0) var<storage, read_write> o: array<f32>;
const K = array<i32, 3>(1, 2, 3);
@compute @workgroup_size(1)
fn main() {
  let z = P();
  let p = P(1.5, vec2<u32>(1u, 2u), array<i32, 2>(3, 4));
  let v3 = vec3(1.0, 2.0, 3.0);
  let v4 = vec4<f32>(v3, 4.0);
  let v4b = vec4(v3.xy, v3.zz);
  let m = mat2x2<f32>(1.0, 2.0, 3.0, 4.0);
  let m2 = mat3x2(vec2(1.0), vec2(2.0), vec2(3.0));
  let arr = array(1u, 2u, 3u);
  let vi = vec3<i32>(vec3<f32>(1.9, -1.9, 0.0));
  let b = vec2<bool>(true, false);
  let s = select(v4, v4b, vec4<bool>(b, b));
  var zv = vec3<u32>();
  zv.y = arr[1];
  o[0] = z.a + p.a + f32(p.b.y) + f32(p.c[1]) + v4.w + m[1].x + m2[2].y + f32(vi.y) + s.z + f32(zv.y) + f32(K[2]);
}
`},
	{"loops_all_forms", `
@group(0) @binding(0) var<storage, read_write> o: array<u32>;
@compute @workgroup_size(1)
fn main() {
  var acc = 0u;
  for (var i = 0u; i < 4u; i++) { if i == 2u { continue; } acc += i; }
  var j = 10u;
  while j > 0u { j -= 3u; if j < 3u { break; } }
  loop { acc += 1u; if acc > 20u { break; } continuing { acc *= 2u; break if acc > 15u; } }
  for (;;) { acc++; if acc > 30u { break; } }
  var k = 0;
  loop { if k >= 3 { break; } switch k { case 0: { k += 2; continue; } default: { k++; } } }
  o[0] = acc + j + u32(k);
}
`},
	{"matrices_and_arrays_in_buffers", `
struct Inner { m: mat3x3<f32>, n: mat2x4<f32>, t: vec3<f32>, w: f32 }
struct Outer { a: array<Inner, 2>, @align(16) tail: array<vec2<f32>> }
@group(0) @binding(0) var<storage, read_write> buf: Outer;
@group(0) @binding(1) var<uniform> u: Inner;
@compute @workgroup_size(1)
fn main() {
  let n = arrayLength(&buf.tail);
  buf.a[1].m = u.m * 2.0;
  buf.a[0].m[2] = u.m[0] + u.t;
  buf.a[0].n[1].z = u.w;
  buf.a[1] = buf.a[0];
  buf.tail[n - 1u] = (u.n * vec2<f32>(1.0, 2.0)).xy;
}
`},
	{"builtin_function_sampler", `
@group(0) @binding(0) var<storage, read_write> o: array<f32>;
@group(0) @binding(1) var<storage, read> i: array<vec4<f32>>;
@compute @workgroup_size(1)
fn main() {
  let a = i[0]; let b = i[1];
  var r = dot(a, b) + length(a.xyz) + distance(a, b) + determinant(mat2x2<f32>(a.xy, b.xy));
  r += clamp(a.x, 0.0, 1.0) + mix(a.y, b.y, 0.5) + smoothstep(0.0, 1.0, a.z) + step(0.5, a.w) + fma(a.x, b.x, 1.0);
  r += f32(countOneBits(bitcast<u32>(a.x))) + f32(firstLeadingBit(7u)) + f32(extractBits(0xF0u, 4u, 4u));
  r += pow(abs(a.x), 2.0) + sqrt(abs(b.x)) + exp2(a.y) + log2(abs(b.y) + 1.0) + sign(a.z) + fract(b.z) + trunc(a.w) + round(b.w);
  let m = modf(a.x); let f = frexp(b.x);
  r += m.fract + m.whole + f.fract + f32(f.exp) + ldexp(1.0, 3);
  r += unpack2x16float(pack2x16float(a.xy)).x + unpack4x8unorm(pack4x8unorm(a)).y;
  let n = normalize(a.xyz); let c = cross(n, b.xyz); let t = transpose(mat2x3<f32>(n, c));
  r += t[0].x + reflect(n, c).x + faceForward(n, c, n).y;
  o[0] = r;
}
`},
	{"must_use_and_discard_values", `
@group(0) @binding(0) var<storage, read_write> o: array<i32>;
@must_use fn twice(x: i32) -> i32 { return x * 2; }
fn side(x: i32) -> i32 { o[1] = x; return x; }
@compute @workgroup_size(1)
fn main() { let t = twice(2); _ = twice(3); side(t); o[0] = t; }
`},
	{"fragment_builtins_interpolation", `
struct FIn {
  @builtin(position) pos: vec4<f32>,
  @location(0) @interpolate(linear, centroid) a: vec2<f32>,
  @location(1) @interpolate(perspective, sample) b: f32,
  @location(2) @interpolate(flat) c: vec2<i32>,
  @builtin(sample_index) si: u32,
  @builtin(sample_mask) sm: u32,
}
struct FOut { @location(0) col: vec4<f32>, @builtin(frag_depth) depth: f32, @builtin(sample_mask) mask: u32 }
@fragment
fn fs(in: FIn) -> FOut {
  var o: FOut;
  if in.b < 0.0 { discard; }
  o.col = vec4<f32>(in.a, in.b, f32(in.c.x));
  o.depth = in.pos.z;
  o.mask = in.sm & (1u << in.si);
  return o;
}
`},
	{"vertex_bare_params_invariant", `
@vertex
fn vs(@location(0) p: vec4<f32>, @location(15) q: vec2<u32>, @builtin(vertex_index) vi: u32) -> @builtin(position) @invariant vec4<f32> {
  return p + vec4<f32>(f32(q.x), f32(vi), 0.0, 0.0);
}
`},
	{"private_workgroup_init_and_const_arrays", `
const LUT = array<vec2<f32>, 3>(vec2<f32>(0.0, 1.0), vec2<f32>(2.0, 3.0), vec2<f32>(4.0, 5.0));
var<private> counter: u32 = 5u;
var<private> pv: vec3<f32> = vec3<f32>(1.0, 2.0, 3.0);
var<workgroup> wg: array<atomic<i32>, 4>;
@group(0) @binding(0) var<storage, read_write> o: array<f32>;
@compute @workgroup_size(4)
fn main(@builtin(local_invocation_id) lid: vec3<u32>, @builtin(num_workgroups) nw: vec3<u32>) {
  counter += lid.x;
  atomicAdd(&wg[lid.x], i32(counter));
  workgroupBarrier();
  var idx = lid.x % 3u;
  o[lid.x] = LUT[idx].y + pv[idx] + f32(atomicLoad(&wg[0])) + f32(nw.x);
}
`},
	{"nested_struct_access_chains", `
struct A { x: f32, v: vec3<f32> }
struct B { a: array<A, 3>, m: mat4x3<f32> }
struct C { b: B, bs: array<B, 2>, f: u32 }
@group(0) @binding(0) var<storage, read_write> s: C;
@group(0) @binding(1) var<storage, read> idx: array<u32>;
fn get(i: u32, j: u32) -> f32 { return s.bs[i].a[j].v[idx[2]]; }
@compute @workgroup_size(1)
fn main() {
  let i = idx[0]; let j = idx[1];
  s.b.a[j].v.y = get(i, j);
  s.bs[i].m[j][1] = s.b.m[2].z;
  var loc = s.bs[1];
  loc.a[i].x += 1.0;
  s.bs[0] = loc;
  s.f = arrayLength(&idx);
}
`},
	{"short_type_aliases_abstract_ctors", `
@group(0) @binding(0) var<storage, read_write> o: array<vec4f>;
@compute @workgroup_size(1)
fn main() {
  let a: vec3f = vec3f(1, 2, 3);
  let b: vec2u = vec2u(1, 2);
  let c = vec4i(1, -2, 3, -4);
  let m: mat2x2f = mat2x2f(1, 0, 0, 1);
  let h = vec2(1, 2.5);
  o[0] = vec4f(a, f32(b.y)) + vec4f(c) + vec4f(m[0], h);
}
`},
	{"workgroup_uniform_load_and_select", `
var<workgroup> flag: u32;
@group(0) @binding(0) var<storage, read_write> o: array<u32>;
@compute @workgroup_size(8)
fn main(@builtin(local_invocation_index) li: u32) {
  if li == 0u { flag = 42u; }
  let f = workgroupUniformLoad(&flag);
  o[li] = select(0u, f, li % 2u == 0u);
}
`},
	{"switch_forms", `
@group(0) @binding(0) var<storage, read_write> o: array<i32>;
@compute @workgroup_size(1)
fn main(@builtin(global_invocation_id) gid: vec3<u32>) {
  var r = 0;
  let k = i32(gid.x);
  switch k { default: { r = 1; } }
  switch k { case 1, 2, default: { r += 2; } case 3: { r += 3; } }
  switch k + 1 { case 0: { } case 1: { r += 4; } default: { r += 5; } }
  switch gid.y { case 0u: { switch k { case 0: { r += 6; } default: { break; } } r += 7; } default: { } }
  o[gid.x] = r;
}
`},
	{"multi_entry_points_mixed_stages_shared_helpers", `
struct Globals { tint: vec4<f32>, n: u32 }
@group(0) @binding(0) var<uniform> g: Globals;
@group(0) @binding(1) var<storage, read_write> log_: array<u32>;
@group(1) @binding(0) var tex: texture_2d<f32>;
@group(1) @binding(1) var smp: sampler;
fn shade(uv: vec2<f32>) -> vec4<f32> { return textureSampleLevel(tex, smp, uv, 0.0) * g.tint; }
fn note(i: u32) { log_[i % g.n] = i; }
@vertex fn vs(@builtin(vertex_index) vi: u32) -> @builtin(position) vec4<f32> { return vec4<f32>(f32(vi), 0.0, 0.0, 1.0) * g.tint; }
@fragment fn fs(@location(0) uv: vec2<f32>) -> @location(0) vec4<f32> { return shade(uv); }
@compute @workgroup_size(1) fn cs(@builtin(global_invocation_id) id: vec3<u32>) { note(id.x); }
@compute @workgroup_size(2) fn cs2(@builtin(global_invocation_id) id: vec3<u32>) { note(id.x + g.n); }
`},
}

// OverrideMicros: programs with pipeline-overridable constants (used by C12 and C14; not part
// of C08 because backends require overrides to be resolved first).
var OverrideMicros = []Micro{
	{"overrides_nested_use", `
override scale: f32 = 2.0;
override count: u32 = 3u;
override flag: bool = true;
@id(7) override bias: i32 = -1;
override derived: f32 = scale * 2.0;
@group(0) @binding(0) var<storage, read_write> o: array<f32>;
fn helper(x: f32) -> f32 {
  if flag { return x * scale; } else { return x + derived; }
}
@compute @workgroup_size(1)
fn main(@builtin(global_invocation_id) gid: vec3<u32>) {
  var acc = 0.0;
  for (var i = 0u; i < count; i++) {
    if i == 1u { acc += helper(f32(i)) * scale; } else { acc += f32(bias); }
    switch i { case 2u: { acc += derived; } default: { acc -= scale; } }
  }
  o[gid.x] = acc;
}
`},
}
