package wgen

import "strings"

// C19 trivia space: an independent reference scanner for WGSL blankspace and comments, written from
// the WGSL specification (§3.2 blankspace and line breaks, §3.3 comments), and the exhaustive
// enumeration of every string over a small alphabet that the scanner classifies as *pure trivia*.
//
//   * blankspace: U+0020, U+0009..U+000D, U+0085, U+200E, U+200F, U+2028, U+2029
//   * line break: LF, VT, FF, CR (alone or as CR LF), U+0085, U+2028, U+2029
//   * line-ending comment: `//` up to, not including, the next line break (or the end of the text)
//   * block comment: `/*` ... `*/`, nesting; inside a block comment only `/*` and `*/` mean anything
//     (`//` does not start a line comment there), and inside a line comment neither does.
//   Scanning is left to right; at every position the first applicable rule wins, `/*` before `*/`.
//
// A string of pure trivia may be put between any two tokens (and at either end of the text) without
// changing the token sequence, provided it does not end inside a line comment (unless it is put at
// the very end of the text) and provided its first character cannot combine with the preceding
// token's last character (a trivia string never starts with `*`, so only a preceding `/` matters).

// C19TriviaClass is the reference scanner's verdict on a candidate trivia string.
type C19TriviaClass int

const (
	C19NotTrivia    C19TriviaClass = iota // contains something that is not blankspace or a complete comment
	C19Trivia                             // pure trivia, ends outside any comment
	C19TriviaToEOL                        // pure trivia, but ends inside a line comment (neutral only at the end of the text)
)

func c19LineBreakLen(s string, i int) int {
	switch s[i] {
	case '\n', '\v', '\f':
		return 1
	case '\r':
		if i+1 < len(s) && s[i+1] == '\n' {
			return 2
		}
		return 1
	case 0xC2: // U+0085
		if i+1 < len(s) && s[i+1] == 0x85 {
			return 2
		}
	case 0xE2: // U+2028, U+2029
		if i+2 < len(s) && s[i+1] == 0x80 && (s[i+2] == 0xA8 || s[i+2] == 0xA9) {
			return 3
		}
	}
	return 0
}

func c19BlankLen(s string, i int) int {
	if n := c19LineBreakLen(s, i); n > 0 {
		return n
	}
	switch s[i] {
	case ' ', '\t':
		return 1
	case 0xE2: // U+200E, U+200F
		if i+2 < len(s) && s[i+1] == 0x80 && (s[i+2] == 0x8E || s[i+2] == 0x8F) {
			return 3
		}
	}
	return 0
}

// C19ScanTrivia classifies s.
func C19ScanTrivia(s string) C19TriviaClass {
	i, n := 0, len(s)
	for i < n {
		if k := c19BlankLen(s, i); k > 0 {
			i += k
			continue
		}
		if s[i] != '/' || i+1 >= n {
			return C19NotTrivia
		}
		switch s[i+1] {
		case '/':
			i += 2
			for {
				if i >= n {
					return C19TriviaToEOL
				}
				if k := c19LineBreakLen(s, i); k > 0 {
					break // the line break itself is blankspace, consumed by the outer loop
				}
				i++
			}
		case '*':
			depth := 1
			i += 2
			for depth > 0 {
				if i+1 >= n {
					return C19NotTrivia // unterminated block comment
				}
				switch {
				case s[i] == '/' && s[i+1] == '*':
					depth++
					i += 2
				case s[i] == '*' && s[i+1] == '/':
					depth--
					i += 2
				default:
					i++
				}
			}
		default:
			return C19NotTrivia
		}
	}
	return C19Trivia
}

// C19TriviaStrings enumerates, in length-then-alphabet order, every non-empty string of at most
// maxLen letters over the alphabet whose class is `want`. With onlyComments, strings that contain no
// comment at all (blankspace only) are left out.
func C19TriviaStrings(alphabet []string, maxLen int, want C19TriviaClass, onlyComments bool) []string {
	var out []string
	idx := make([]int, 0, maxLen)
	var sb strings.Builder
	for l := 1; l <= maxLen; l++ {
		idx = idx[:0]
		for k := 0; k < l; k++ {
			idx = append(idx, 0)
		}
		for {
			sb.Reset()
			for _, a := range idx {
				sb.WriteString(alphabet[a])
			}
			s := sb.String()
			if C19ScanTrivia(s) == want && (!onlyComments || strings.Contains(s, "/")) {
				out = append(out, s)
			}
			k := l - 1
			for k >= 0 {
				idx[k]++
				if idx[k] < len(alphabet) {
					break
				}
				idx[k] = 0
				k--
			}
			if k < 0 {
				break
			}
		}
	}
	return out
}
